(** C14 — proofs, part 4: the record written for an event.  Unique keys at every level, event fields and span fields
    faithful, the span list, for every reachable state of every history; the findings F10 / F143 as refutations;
    the tie to the shape facts extracted from the source (TVGen.Gen_json). *)
From Coq Require Import String Ascii NArith ZArith Bool List Lia Sorted Permutation.
From TV Require Import Fmt.JsonModel Fmt.JsonProofsRender Fmt.JsonProofsParse Fmt.JsonProofsMap.
From TVGen Require Import Gen_json.
Import ListNotations.
Local Open Scope N_scope.

(** * Generic list facts *)
Inductive subseq {A} : list A -> list A -> Prop :=
| sub_nil : subseq [] []
| sub_take x a b : subseq a b -> subseq (x :: a) (x :: b)
| sub_skip x a b : subseq a b -> subseq a (x :: b).

Lemma subseq_refl {A} (l : list A) : subseq l l.
Proof. induction l; constructor; auto. Qed.
Lemma subseq_nil_l {A} (l : list A) : subseq [] l.
Proof. induction l; constructor; auto. Qed.
Lemma subseq_app {A} (a a' b b' : list A) : subseq a a' -> subseq b b' -> subseq (a ++ b) (a' ++ b').
Proof. induction 1; simpl; intros; auto; constructor; auto. Qed.
Lemma subseq_in {A} (a b : list A) x : subseq a b -> In x a -> In x b.
Proof. induction 1; simpl; intros; auto. destruct H0; auto. Qed.
Lemma subseq_nodup {A} (a b : list A) : subseq a b -> NoDup b -> NoDup a.
Proof.
  induction 1; intro ND; auto.
  - inversion ND; subst. constructor; auto. intro Hin. apply H2. eapply subseq_in; eauto.
  - inversion ND; auto.
Qed.

Lemma nodup_app {A} (a b : list A) : NoDup a -> NoDup b -> (forall x, In x a -> ~ In x b) -> NoDup (a ++ b).
Proof.
  induction 1; simpl; intros Hb Hd; auto. constructor.
  - intro Hin. apply in_app_or in Hin. destruct Hin; [contradiction|]. eapply Hd; eauto.
  - apply IHNoDup; auto.
Qed.

Lemma nodup_middle {A} (pre m post : list A) :
  NoDup (pre ++ post) -> NoDup m -> (forall x, In x m -> ~ In x (pre ++ post)) -> NoDup (pre ++ m ++ post).
Proof.
  intros H1 H2 H3. eapply Permutation_NoDup; [apply Permutation_app_swap_app|]. apply nodup_app; auto.
Qed.

(** decidable NoDup on byte strings, for the concrete reserved keys *)
Fixpoint nodupb (l : list bytes) : bool :=
  match l with [] => true | x :: r => negb (existsb (beqb x) r) && nodupb r end.
Lemma nodupb_sound l : nodupb l = true -> NoDup l.
Proof.
  induction l as [|x r IH]; simpl; intro H; constructor; apply andb_true_iff in H; destruct H as [H1 H2]; auto.
  intro Hin. apply negb_true_iff in H1. rewrite existsb_false_forall in H1. rewrite Forall_forall in H1.
  specialize (H1 x Hin). rewrite beqb_refl in H1. discriminate.
Qed.

(** * Unique keys at every level of a tree *)
Fixpoint uniq (j : json) : Prop :=
  match j with
  | JArr l => (fix all (l : list json) : Prop := match l with [] => True | x :: r => uniq x /\ all r end) l
  | JObj l =>
      NoDup (map fst l) /\
      (fix all (l : list (bytes * json)) : Prop :=
         match l with [] => True | kv :: r => (match kv with (_, v) => uniq v end) /\ all r end) l
  | _ => True
  end.

Lemma uniq_arr l : uniq (JArr l) <-> Forall uniq l.
Proof.
  simpl. induction l as [|x r IH]; split; intro H; auto.
  - destruct H. constructor; auto. apply IH; auto.
  - inversion H; subst. split; auto. apply IH; auto.
Qed.
Lemma uniq_obj l : uniq (JObj l) <-> NoDup (map fst l) /\ Forall (fun kv => uniq (snd kv)) l.
Proof.
  simpl. split; intros [H1 H2]; (split; [exact H1|]); clear H1.
  - induction l as [|[k v] r IH]; [constructor|]. destruct H2 as [Hv Hr]. constructor; [exact Hv | apply IH; exact Hr].
  - induction l as [|[k v] r IH]; [exact I|]. inversion H2; subst. split; [assumption | apply IH; assumption].
Qed.

Lemma uniq_event_value v : uniq (event_value v).
Proof.
  destruct v; unfold event_value, float_json;
    repeat match goal with |- context [if ?c then _ else _] => destruct c end; simpl; auto.
Qed.
Lemma uniq_span_value v : uniq (span_value v).
Proof.
  destruct v; try (simpl; exact I); try apply uniq_event_value. unfold span_value. apply uniq_arr.
  induction b; simpl; constructor; simpl; auto.
Qed.

(** * Reserved keys; well-formed inputs *)
Local Open Scope string_scope.
Definition reserved_keys : list bytes :=
  map bs ["timestamp"; "level"; "fields"; "target"; "filename"; "line_number"; "span"; "spans"; "threadName"; "threadId"].
Local Close Scope string_scope.

(** span fields: no key equal to the formatter's own key of span objects *)
Definition vals_ok (vals : fields) : Prop := Forall (fun kv => span_key (fst kv) (snd kv) <> name_key) vals.
Definition op_ok (x : op) : Prop :=
  match x with ONew _ _ _ vals => vals_ok vals | ORecord _ vals => vals_ok vals | _ => True end.
(** event fields: distinct names (finding F143 otherwise) and, when flattened into the root, none of the reserved keys *)
Definition event_ok (o : opts) (e : event) : Prop :=
  NoDup (map fst (ev_vals e)) /\
  (o_flatten o = true -> forall k, In k (map fst (ev_vals e)) -> ~ In k reserved_keys).

(** * State invariant *)
Definition span_ok (s : span_st) : Prop :=
  sorted (sp_fields s) /\ ~ In name_key (map fst (sp_fields s)) /\
  Forall (fun kv => exists v, snd kv = span_value v) (sp_fields s).
Definition state_ok (st : state) : Prop := Forall (fun p => span_ok (snd p)) (spans st).

Lemma step_next c o en st x : fst (step c o en st x) = next c st x.
Proof. reflexivity. Qed.
Definition state_after (c : cfg) (ops : list op) : state := fold_left (next c) ops init_state.

Lemma vals_ok_eff c vals : vals_ok vals -> vals_ok (eff c vals).
Proof. apply eff_Forall. Qed.

Lemma visit_span_ok m vals :
  sorted m -> ~ In name_key (map fst m) -> Forall (fun kv => exists v, snd kv = span_value v) m -> vals_ok vals ->
  sorted (visit_span m vals) /\ ~ In name_key (map fst (visit_span m vals)) /\
  Forall (fun kv => exists v, snd kv = span_value v) (visit_span m vals).
Proof.
  intros Hs Hn Hv Hk. split; [apply visit_sorted; auto|]. split.
  - intro Hin. apply in_map_iff in Hin. destruct Hin as (x & Ex & Hx). apply visit_in in Hx.
    destruct Hx as [Hx|(n & v & Hin & ->)].
    + apply Hn. rewrite <- Ex. apply in_map; auto.
    + unfold vals_ok in Hk. rewrite Forall_forall in Hk. apply (Hk (n, v) Hin). exact Ex.
  - rewrite Forall_forall in *. intros x Hx. apply visit_in in Hx. destruct Hx as [Hx|(n & v & Hin & ->)]; auto.
    exists v. reflexivity.
Qed.

Lemma update_span_ok i f l :
  (forall s, span_ok s -> span_ok (f s)) ->
  Forall (fun p : N * span_st => span_ok (snd p)) l -> Forall (fun p => span_ok (snd p)) (update_span i f l).
Proof.
  intros Hf. induction 1 as [|[j s] r Hx Hr IH]; simpl; [constructor|].
  simpl in Hx. destruct (i =? j); constructor; simpl; auto.
Qed.

Lemma next_ok c st x : state_ok st -> op_ok x -> state_ok (next c st x).
Proof.
  unfold state_ok. intros Hst Hop. destruct x; simpl in *; auto;
    try (apply update_span_ok; auto; intros s (Hs & Hn & Hv); unfold span_ok, aborted_effect; simpl;
         destruct repo_fresh; repeat split; auto using sorted_nil; fail).
  - apply Forall_app. split; auto. constructor; [|constructor]. simpl.
    apply visit_span_ok; auto using sorted_nil, vals_ok_eff.
  - apply update_span_ok; auto. intros s (Hs & Hn & Hv). unfold span_ok. simpl.
    unfold add_fields. destruct (_ && _); [repeat split; auto|]. apply visit_span_ok; auto using vals_ok_eff.
  - unfold remove_span. rewrite Forall_forall in *. intros q Hq. apply filter_In in Hq. apply Hst. tauto.
Qed.

Theorem state_after_ok c ops : Forall op_ok ops -> state_ok (state_after c ops).
Proof.
  unfold state_after. assert (H0 : state_ok init_state) by constructor.
  revert H0. generalize init_state. induction ops as [|x ops IH]; intros st Hst F; [exact Hst|].
  inversion F; subst. simpl. apply IH; auto. apply next_ok; auto.
Qed.

Lemma find_span_in i l s : find_span i l = Some s -> exists j, In (j, s) l.
Proof.
  induction l as [|[j s'] r IH]; simpl; intro H; [discriminate|].
  destruct (i =? j).
  - inversion H; subst. exists j. auto.
  - destruct (IH H) as (j' & Hj). exists j'. auto.
Qed.

Lemma ancestors_in : forall f l i s, In s (ancestors f l i) -> exists j, In (j, s) l.
Proof.
  induction f as [|f IH]; intros l i s H; [inversion H|].
  simpl in H. destruct (find_span i l) as [s0|] eqn:E; [|inversion H].
  destruct H as [<-|H]; [eapply find_span_in; eauto|].
  destruct (sp_parent s0); [eapply IH; eauto|inversion H].
Qed.

Lemma state_ok_find st i s : state_ok st -> find_span i (spans st) = Some s -> span_ok s.
Proof.
  intros Hst H. apply find_span_in in H. destruct H as (j & Hj).
  unfold state_ok in Hst. rewrite Forall_forall in Hst. exact (Hst (j, s) Hj).
Qed.
Lemma state_ok_scope st i s : state_ok st -> In s (scope_from_root st i) -> span_ok s.
Proof.
  intros Hst H. unfold scope_from_root in H. apply in_rev in H. apply ancestors_in in H. destruct H as (j & Hj).
  unfold state_ok in Hst. rewrite Forall_forall in Hst. exact (Hst (j, s) Hj).
Qed.

Lemma span_obj_uniq s : span_ok s -> uniq (span_obj s).
Proof.
  intros (Hs & Hn & Hv). unfold span_obj. apply uniq_obj. split.
  - rewrite map_app. apply nodup_app; [apply sorted_nodup; auto | repeat constructor; simpl; tauto |].
    intros x Hx [<-|[]]. contradiction.
  - apply Forall_app. split.
    + eapply Forall_impl; [|exact Hv]. intros kv (v & ->). apply uniq_span_value.
    + repeat constructor.
Qed.

(** * The record: unique keys at every level *)
Lemma opt_entry_keys b k v : subseq (map fst (opt_entry b k v)) [bs k].
Proof. unfold opt_entry. destruct b, v; simpl; repeat constructor. Qed.

Lemma opt_entry_uniq b k v : (forall j, v = Some j -> uniq j) -> Forall (fun kv => uniq (snd kv)) (opt_entry b k v).
Proof. intro H. unfold opt_entry. destruct b, v; simpl; repeat constructor. simpl. auto. Qed.

Lemma event_fields_keys e : map fst (event_fields e) = map fst (ev_vals e).
Proof. unfold event_fields. rewrite map_map. reflexivity. Qed.

Lemma event_fields_uniq e : Forall (fun kv => uniq (snd kv)) (event_fields e).
Proof.
  unfold event_fields. rewrite Forall_forall. intros x Hx. apply in_map_iff in Hx.
  destruct Hx as (y & <- & _). apply uniq_event_value.
Qed.

Lemma reserved_nodup : NoDup reserved_keys.
Proof. apply nodupb_sound. vm_compute. reflexivity. Qed.

Theorem record_uniq c o en st e p :
  state_ok st -> event_ok o e -> uniq (event_record c o en st e p).
Proof.
  intros Hst [Hnd Hres]. unfold event_record. apply uniq_obj. split.
  - (* keys *)
    unfold event_entries. rewrite !map_app.
    set (M := map fst (if o_flatten o then event_fields e else [(bs "fields", JObj (event_fields e))])).
    apply subseq_nodup with
      (b := [bs "timestamp"] ++ [bs "level"] ++ M ++ [bs "target"] ++ [bs "filename"] ++ [bs "line_number"]
            ++ [bs "span"] ++ [bs "spans"] ++ [bs "threadName"] ++ [bs "threadId"]).
    + repeat (apply subseq_app; [first [apply opt_entry_keys | apply subseq_refl]|]). apply opt_entry_keys.
    + unfold M. destruct (o_flatten o) eqn:Fl.
      * rewrite event_fields_keys.
        change (NoDup ([bs "timestamp"; bs "level"] ++ map fst (ev_vals e)
                       ++ [bs "target"; bs "filename"; bs "line_number"; bs "span"; bs "spans"; bs "threadName"; bs "threadId"])).
        apply nodup_middle; auto.
        -- apply nodupb_sound. vm_compute. reflexivity.
        -- intros k Hk Hin. apply (Hres eq_refl k Hk).
           revert Hin. vm_compute. intuition.
      * exact reserved_nodup.
  - (* values *)
    unfold event_entries. repeat (apply Forall_app; split).
    + apply opt_entry_uniq. intros j Hj. destruct (o_ts o); inversion Hj; subst; simpl; auto.
    + apply opt_entry_uniq. intros j Hj. inversion Hj; subst; simpl; auto.
    + destruct (o_flatten o); [apply event_fields_uniq|]. constructor; [|constructor]. simpl snd.
      apply uniq_obj. split; [rewrite event_fields_keys; auto | apply event_fields_uniq].
    + apply opt_entry_uniq. intros j Hj. inversion Hj; subst; simpl; auto.
    + apply opt_entry_uniq. intros j Hj. destruct (ev_file e); inversion Hj; subst; simpl; auto.
    + apply opt_entry_uniq. intros j Hj. destruct (ev_line e); inversion Hj; subst; simpl; auto.
    + apply opt_entry_uniq. intros j Hj.
      destruct (if o_cur o || o_list o then event_span c st p else None) as [i|]; [|discriminate].
      destruct (find_span i (spans st)) as [s|] eqn:E; inversion Hj; subst.
      apply span_obj_uniq. eapply state_ok_find; eauto.
    + apply opt_entry_uniq. intros j Hj.
      destruct (if o_cur o || o_list o then event_span c st p else None) as [i|]; inversion Hj; subst.
      apply uniq_arr. rewrite Forall_forall. intros x Hx. apply in_map_iff in Hx. destruct Hx as (s & <- & Hs).
      apply span_obj_uniq. unfold span_list in Hs.
      destruct (fx10 c).
      * destruct (event_span _ st p); [eapply state_ok_scope; eauto|inversion Hs].
      * destruct (current st); [eapply state_ok_scope; eauto|inversion Hs].
    + apply opt_entry_uniq. intros j Hj. destruct (thread_name en); [|destruct (o_tid o)]; inversion Hj; subst; simpl; auto.
    + apply opt_entry_uniq. intros j Hj. inversion Hj; subst; simpl; auto.
Qed.

(** * Event fields are faithful *)
Ltac in_segments :=
  repeat first [ apply in_or_app; left; solve [auto] | apply in_or_app; right ].

Theorem event_fields_faithful e k v :
  NoDup (map fst (ev_vals e)) -> In (k, v) (ev_vals e) ->
  In (k, event_value v) (event_fields e) /\ lookup k (event_fields e) = Some (event_value v).
Proof.
  intros ND H.
  assert (I : In (k, event_value v) (event_fields e)).
  { unfold event_fields. apply in_map_iff. exists (k, v). auto. }
  split; auto. apply lookup_in_nodup; auto. rewrite event_fields_keys. auto.
Qed.

Theorem record_fields_nested c o en st e p :
  o_flatten o = false -> In (bs "fields", JObj (event_fields e)) (event_entries c o en st e p).
Proof.
  intro Fl. unfold event_entries. rewrite Fl.
  apply in_or_app; right. apply in_or_app; right. apply in_or_app; left. left. reflexivity.
Qed.

Theorem record_fields_flat c o en st e p k v :
  o_flatten o = true -> In (k, v) (ev_vals e) -> In (k, event_value v) (event_entries c o en st e p).
Proof.
  intros Fl H. unfold event_entries. rewrite Fl.
  apply in_or_app; right. apply in_or_app; right. apply in_or_app; left.
  unfold event_fields. apply in_map_iff. exists (k, v). auto.
Qed.

(** with unique keys, membership IS the value a consumer reads under that key *)
Theorem record_lookup c o en st e p k j :
  state_ok st -> event_ok o e -> In (k, j) (event_entries c o en st e p) ->
  lookup k (event_entries c o en st e p) = Some j.
Proof.
  intros Hst He Hin. apply lookup_in_nodup; auto.
  pose proof (record_uniq c o en st e p Hst He) as U. unfold event_record in U. apply uniq_obj in U. tauto.
Qed.

(** * The span an event is attributed to, and the span list *)
Theorem record_span c o en st e p i s :
  o_cur o = true -> event_span c st p = Some i -> find_span i (spans st) = Some s ->
  In (bs "span", span_obj s) (event_entries c o en st e p).
Proof.
  intros Hc Hi Hs. unfold event_entries. rewrite Hc. cbn [orb]. rewrite Hi, Hs.
  do 6 (apply in_or_app; right). apply in_or_app; left. left. reflexivity.
Qed.

Lemma event_span_spec c st p : (fx10 c = false -> p = PCurrent) -> event_span c st p = spec_event_span st p.
Proof.
  intro H. unfold event_span, spec_event_span. destruct (fx10 c); [reflexivity|].
  rewrite (H eq_refl). reflexivity.
Qed.

Lemma span_list_spec c st p : (fx10 c = false -> p = PCurrent) -> span_list c st p = spec_scope st p.
Proof.
  intro H. unfold span_list, spec_scope. destruct (fx10 c) eqn:F.
  - rewrite event_span_spec by (intro; congruence). reflexivity.
  - rewrite (H eq_refl). reflexivity.
Qed.

(** the `spans` array is exactly the event's scope, root first — for contextual events on the tree as it is, and for
    every event once the list is built from the event's own parent (fx10) *)
Theorem record_span_list c o en st e p i :
  (fx10 c = false -> p = PCurrent) ->
  o_list o = true -> spec_event_span st p = Some i ->
  In (bs "spans", JArr (map span_obj (spec_scope st p))) (event_entries c o en st e p).
Proof.
  intros Hk Hl Hi. unfold event_entries. rewrite Hl, orb_true_r, event_span_spec, Hi, span_list_spec by exact Hk.
  do 7 (apply in_or_app; right). apply in_or_app; left. left. reflexivity.
Qed.

(** an event outside every span has neither `span` nor `spans` *)
Lemma opt_entry_none b k : opt_entry b k None = [].
Proof. destruct b; reflexivity. Qed.

Theorem record_no_scope c o en st e p :
  (fx10 c = false -> p = PCurrent) -> event_ok o e -> spec_event_span st p = None ->
  ~ In (bs "span") (map fst (event_entries c o en st e p)) /\ ~ In (bs "spans") (map fst (event_entries c o en st e p)).
Proof.
  intros Hk [_ Hres] Hn.
  set (M := map fst (if o_flatten o then event_fields e else [(bs "fields", JObj (event_fields e))])).
  assert (K : forall k, In k (map fst (event_entries c o en st e p)) ->
              In k ([bs "timestamp"] ++ [bs "level"] ++ M ++ [bs "target"] ++ [bs "filename"] ++ [bs "line_number"]
                    ++ [] ++ [] ++ [bs "threadName"] ++ [bs "threadId"])).
  { intros k Hin. eapply subseq_in; [|exact Hin]. unfold event_entries.
    rewrite event_span_spec by exact Hk. rewrite Hn.
    replace (if o_cur o || o_list o then None else None) with (@None N) by (destruct (o_cur o || o_list o); reflexivity).
    cbn [option_map]. rewrite !opt_entry_none. rewrite !map_app.
    repeat (apply subseq_app; [first [apply opt_entry_keys | apply subseq_refl]|]). apply opt_entry_keys. }
  assert (R : forall k, In k reserved_keys -> In k M -> o_flatten o = true /\ In k (map fst (ev_vals e)) \/ k = bs "fields").
  { intros k _ Hm. unfold M in Hm. destruct (o_flatten o).
    - left. split; auto. rewrite <- event_fields_keys. exact Hm.
    - right. destruct Hm as [<-|[]]. reflexivity. }
  split; intro Hin; apply K in Hin; simpl in Hin.
  - destruct Hin as [H|[H|H]]; try discriminate H. apply in_app_or in H. destruct H as [H|H].
    + destruct (R (bs "span")) as [[Fl Hv]|E]; auto; [vm_compute; tauto | | discriminate E].
      apply (Hres Fl _ Hv). vm_compute. tauto.
    + simpl in H. intuition discriminate.
  - destruct Hin as [H|[H|H]]; try discriminate H. apply in_app_or in H. destruct H as [H|H].
    + destruct (R (bs "spans")) as [[Fl Hv]|E]; auto; [vm_compute; tauto | | discriminate E].
      apply (Hres Fl _ Hv). vm_compute. tauto.
    + simpl in H. intuition discriminate.
Qed.

(** "root to leaf": the scope ends with the event's own span; every element is followed by one of its children *)
Lemma scope_leaf_last st i s : find_span i (spans st) = Some s ->
  exists l, scope_from_root st i = l ++ [s].
Proof.
  intro H. unfold scope_from_root. cbn [ancestors]. rewrite H. cbn [rev]. eexists. reflexivity.
Qed.

Inductive chain (l : list (N * span_st)) : list span_st -> Prop :=
| chain_nil : chain l []
| chain_one s : chain l [s]
| chain_cons child parent r p :
    sp_parent child = Some p -> find_span p l = Some parent -> chain l (parent :: r) -> chain l (child :: parent :: r).

Lemma ancestors_chain : forall f l i, chain l (ancestors f l i).
Proof.
  induction f as [|f IH]; intros l i; [constructor|].
  simpl. destruct (find_span i l) as [s|] eqn:E; [|constructor].
  destruct (sp_parent s) as [p|] eqn:Ep; [|constructor].
  specialize (IH l p). destruct f as [|f']; [constructor|].
  simpl in *. destruct (find_span p l) as [s'|] eqn:E'; [|constructor].
  eapply chain_cons; eauto.
Qed.

(** leaf-to-root order of [ancestors] = each element is the parent of the one before; [scope_from_root] is its reverse *)
Theorem scope_is_parent_chain st i : chain (spans st) (rev (scope_from_root st i)).
Proof. unfold scope_from_root. rewrite rev_involutive. apply ancestors_chain. Qed.

(** * Histories: the fields of a span in the reached state are [fields_after] of its creation and its later records.
    [hist_of c i ops]: the writes (those that reach the map, [eff]) of the creation of the live span with id [i] and of
    each later record call, in order; [None] when no span with that id is alive (never created, or closed since). *)
Definition hstep (c : cfg) (i : N) (h : option (fields * list fields)) (x : op) : option (fields * list fields) :=
  match x with
  | ONew j _ _ vals => if i =? j then match h with None => Some (eff c vals, []) | Some _ => h end else h
  | ORecord j vals =>
      if i =? j then match h with Some (init, recs) => Some (init, recs ++ [eff c vals]) | None => None end else h
  | OClose j _ _ => if i =? j then None else h
  | _ => h
  end.
Definition hist_of (c : cfg) (i : N) (ops : list op) : option (fields * list fields) := fold_left (hstep c i) ops None.

Lemma find_span_app i l j s :
  find_span i (l ++ [(j, s)]) = match find_span i l with Some s' => Some s' | None => if i =? j then Some s else None end.
Proof. induction l as [|[j' s'] r IH]; simpl; auto. destruct (i =? j'); auto. Qed.
Lemma find_span_update i j f l :
  find_span i (update_span j f l) = if i =? j then option_map f (find_span i l) else find_span i l.
Proof.
  induction l as [|[j' s'] r IH]; simpl.
  - destruct (i =? j); auto.
  - destruct (j =? j') eqn:E1; simpl.
    + apply N.eqb_eq in E1. subst j'. destruct (i =? j) eqn:E2; auto.
    + destruct (i =? j') eqn:E2; simpl.
      * apply N.eqb_eq in E2. subst j'. rewrite N.eqb_sym in E1. rewrite E1. reflexivity.
      * exact IH.
Qed.
Lemma find_span_remove i j l : find_span i (remove_span j l) = if i =? j then None else find_span i l.
Proof.
  unfold remove_span. induction l as [|[j' s'] r IH]; simpl.
  - destruct (i =? j); reflexivity.
  - destruct (j =? j') eqn:E1; simpl.
    + apply N.eqb_eq in E1. subst j'. rewrite IH. destruct (i =? j); reflexivity.
    + rewrite IH. destruct (i =? j') eqn:E2; [|reflexivity].
      apply N.eqb_eq in E2. subst j'. rewrite N.eqb_sym, E1. reflexivity.
Qed.

Lemma fields_after_snoc c init recs r :
  fields_after c init (recs ++ [r]) = add_fields c (fields_after c init recs) r.
Proof. unfold fields_after. rewrite fold_left_app. reflexivity. Qed.

Theorem history_inv c : forall ops i,
  match hist_of c i ops with
  | Some (init, recs) =>
      exists s, find_span i (spans (state_after c ops)) = Some s /\ sp_fields s = fields_after c init recs
  | None => find_span i (spans (state_after c ops)) = None
  end.
Proof.
  induction ops as [|x ops IH] using rev_ind; intro i; [reflexivity|].
  unfold hist_of, state_after in *. rewrite !fold_left_app. cbn [fold_left].
  specialize (IH i).
  set (st := fold_left (next c) ops init_state) in *.
  set (h := fold_left (hstep c i) ops None) in *.
  destruct x; cbn [hstep next spans].
  - (* ONew *)
    rewrite find_span_app. destruct (i =? i0) eqn:Ei.
    + destruct h as [[init recs]|].
      * destruct IH as (s & Hs & Hf). exists s. rewrite Hs. auto.
      * rewrite IH. eexists. split; [reflexivity|]. reflexivity.
    + destruct h as [[init recs]|].
      * destruct IH as (s & Hs & Hf). exists s. rewrite Hs. auto.
      * rewrite IH. reflexivity.
  - exact IH.
  - exact IH.
  - (* ORecord *)
    rewrite find_span_update. destruct (i =? i0) eqn:Ei; [|exact IH].
    destruct h as [[init recs]|].
    + destruct IH as (s & Hs & Hf). rewrite Hs. eexists. split; [reflexivity|]. simpl.
      rewrite fields_after_snoc, Hf. reflexivity.
    + rewrite IH. reflexivity.
  - exact IH.
  - (* OClose *)
    rewrite find_span_remove. destruct (i =? i0); [reflexivity | exact IH].
  - (* ORecordAborted: add_fields works on a fresh String, the stored fields are untouched *)
    rewrite find_span_update. destruct (i =? i0) eqn:Ei; [|exact IH].
    destruct h as [[init recs]|].
    + destruct IH as (s & Hs & Hf). rewrite Hs. eexists. split; [reflexivity|]. exact Hf.
    + rewrite IH. reflexivity.
Qed.

(** a `record` call that unwinds (a panicking Debug impl, caught by the caller) changes nothing: every span keeps exactly
    the fields it had — on the tree as it is, where add_fields assigns the merged text only after finish() succeeded *)
Lemma update_span_id i f l : (forall s, f s = s) -> update_span i f l = l.
Proof.
  intro H. induction l as [|[j s] r IH]; [reflexivity|]. simpl. destruct (i =? j); [rewrite H | rewrite IH]; reflexivity.
Qed.

Theorem aborted_record_changes_nothing c st i :
  spans (next c st (ORecordAborted i)) = spans st /\ stack (next c st (ORecordAborted i)) = stack st.
Proof.
  split; [|reflexivity]. cbn [next spans]. apply update_span_id. intros [m p f]. reflexivity.
Qed.

(** ... whereas serialising into the stored string after clearing it loses every field recorded so far *)
Lemma aborted_in_place_loses_everything m : aborted_effect false m = [] /\ aborted_effect true m = m.
Proof. split; reflexivity. Qed.

Theorem history_fields c : forall ops i s,
  find_span i (spans (state_after c ops)) = Some s ->
  exists init recs, hist_of c i ops = Some (init, recs) /\ sp_fields s = fields_after c init recs.
Proof.
  intros ops i s H. pose proof (history_inv c ops i) as I.
  destruct (hist_of c i ops) as [[init recs]|].
  - destruct I as (s' & Hs & Hf). rewrite H in Hs. inversion Hs; subst. exists init, recs. auto.
  - rewrite H in I. discriminate.
Qed.

(** a closed span is gone: its fields never reach a later record *)
Theorem closed_span_gone c ops i busy idle : find_span i (spans (state_after c (ops ++ [OClose i busy idle]))) = None.
Proof.
  unfold state_after. rewrite fold_left_app. cbn [fold_left next spans]. rewrite find_span_remove, N.eqb_refl. reflexivity.
Qed.

(** * Span-lifecycle records *)
Lemma life_event_ok o s msg t : event_ok o (life_event s msg t).
Proof.
  split.
  - destruct t as [[b i]|]; apply nodupb_sound; vm_compute; reflexivity.
  - intros _ k Hk. revert Hk. destruct t as [[b i]|]; vm_compute; intuition; subst; discriminate.
Qed.

Lemma exists_span_find st i s : find_span i (spans st) = Some s -> exists_span st i = true.
Proof. intro H. unfold exists_span. rewrite H. reflexivity. Qed.

Lemma event_span_explicit c st i s : find_span i (spans st) = Some s -> event_span c st (PExplicit i) = Some i.
Proof. intro H. unfold event_span. rewrite (exists_span_find st i s H). destruct (fx10 c); reflexivity. Qed.

(** every line an operation writes is the record of an event with well-formed field names, in the state before or
    after the registry's part of the operation *)
Lemma emit_spec c o en st x line :
  (forall e p, x = OEvent e p -> event_ok o e) ->
  In line (emit c o en st x) ->
  exists st' e p, (st' = st \/ st' = next c st x) /\ event_ok o e /\ line = render_line (event_record c o en st' e p).
Proof.
  intros Hev H. unfold emit, life_lines in H.
  destruct x.
  - destruct (o_new o); [|inversion H]. destruct (find_span _ _) as [s|]; [|inversion H]. destruct H as [<-|[]].
    eexists _, _, _. split; [right; reflexivity|]. split; [apply life_event_ok | reflexivity].
  - destruct (o_enter o); [|inversion H]. destruct (find_span _ _) as [s|]; [|inversion H]. destruct H as [<-|[]].
    eexists _, _, _. split; [right; reflexivity|]. split; [apply life_event_ok | reflexivity].
  - destruct (o_exit o); [|inversion H]. destruct (find_span _ _) as [s|]; [|inversion H]. destruct H as [<-|[]].
    eexists _, _, _. split; [right; reflexivity|]. split; [apply life_event_ok | reflexivity].
  - inversion H.
  - destruct H as [<-|[]]. exists st, e, p. split; [left; reflexivity|]. split; [apply (Hev e p eq_refl) | reflexivity].
  - destruct (o_close o); [|inversion H]. destruct (find_span _ _) as [s|]; [|inversion H]. destruct H as [<-|[]].
    eexists _, _, _. split; [left; reflexivity|]. split; [apply life_event_ok | reflexivity].
  - inversion H.
Qed.

Lemma run_from_records c o en : forall ops st line,
  state_ok st -> Forall op_ok ops -> (forall e p, In (OEvent e p) ops -> event_ok o e) ->
  In line (run_from c o en st ops) ->
  exists st' e p, state_ok st' /\ event_ok o e /\ line = render_line (event_record c o en st' e p).
Proof.
  induction ops as [|x ops IH]; intros st line Hst Hops Hev H; [inversion H|].
  cbn [run_from] in H. inversion Hops as [|? ? Hx Hr]; subst.
  assert (Hst' : state_ok (next c st x)) by (apply next_ok; assumption).
  apply in_app_or in H. destruct H as [H|H].
  - apply emit_spec in H.
    + destruct H as (st' & e & p & [->| ->] & He & ->); [exists st, e, p | exists (next c st x), e, p]; auto.
    + intros e p ->. apply (Hev e p). left. reflexivity.
  - apply (IH (next c st x) line); auto. intros e p Hin. apply (Hev e p). right. exact Hin.
Qed.

Theorem run_records c o en ops line :
  Forall op_ok ops -> (forall e p, In (OEvent e p) ops -> event_ok o e) ->
  In line (run c o en ops) ->
  exists kvs, line = render (JObj kvs) ++ [10] /\ uniq (JObj kvs) /\
              ~ In 10 (render (JObj kvs)) /\ ~ In 13 (render (JObj kvs)).
Proof.
  intros Hops Hev H. unfold run in H.
  apply run_from_records in H; auto; [|constructor].
  destruct H as (st' & e & p & Hst & He & ->).
  exists (event_entries c o en st' e p). split; [reflexivity|]. split; [apply record_uniq; assumption | apply single_line].
Qed.

(** ... and every such line parses (strict parser, fuel = its length) as that one object: exactly, when it carries no
    finite float; with float tokens left uninterpreted, for any float printer that writes RFC 8259 float tokens *)
Theorem run_lines_parse pf c o en ops line :
  float_token pf ->
  Forall op_ok ops -> (forall e p, In (OEvent e p) ops -> event_ok o e) ->
  In line (run c o en ops) ->
  exists kvs, line = render (JObj kvs) ++ [10] /\ uniq (JObj kvs) /\
              parse_line (render_with pf (JObj kvs) ++ [10]) = Some (zero_floats (JObj kvs)) /\
              (no_float (JObj kvs) = true -> parse_line line = Some (JObj kvs)).
Proof.
  intros Hpf Hops Hev H. destruct (run_records c o en ops line Hops Hev H) as (kvs & -> & U & _).
  exists kvs. split; [reflexivity|]. split; [exact U|]. split.
  - apply parse_line_render_with. exact Hpf.
  - intro NF. apply (parse_line_render (JObj kvs) NF).
Qed.

(** the per-operation view used by the correspondence is the same output *)
Lemma run_ops_concat c o en : forall ops st, concat (run_ops_from c o en st ops) = run_from c o en st ops.
Proof. induction ops as [|x ops IH]; intro st; [reflexivity|]. simpl. rewrite IH. reflexivity. Qed.

(** events (not lifecycle points) write exactly one record, in the state the operations before them reached *)
Theorem event_writes_one_record c o en st e p :
  emit c o en st (OEvent e p) = [render_line (event_record c o en st e p)] /\ next c st (OEvent e p) = st.
Proof. split; reflexivity. Qed.

(** each configured lifecycle point writes exactly one record: an event with the span's own metadata, the span as its
    explicit parent and `message` = new / enter / exit / close; an unconfigured point writes nothing *)
Theorem lifecycle_points c o en st :
  (forall i m p vals s, find_span i (spans (next c st (ONew i m p vals))) = Some s ->
     emit c o en st (ONew i m p vals) =
     if o_new o then [render_line (event_record c o en (next c st (ONew i m p vals)) (life_event s "new" None) (PExplicit i))] else []) /\
  (forall i s, find_span i (spans st) = Some s ->
     emit c o en st (OEnter i) =
     (if o_enter o then [render_line (event_record c o en (next c st (OEnter i)) (life_event s "enter" None) (PExplicit i))] else []) /\
     emit c o en st (OExit i) =
     (if o_exit o then [render_line (event_record c o en (next c st (OExit i)) (life_event s "exit" None) (PExplicit i))] else []) /\
     forall busy idle, emit c o en st (OClose i busy idle) =
     (if o_close o then [render_line (event_record c o en st
                           (life_event s "close" (if has_timer o then Some (busy, idle) else None)) (PExplicit i))] else [])).
Proof.
  split.
  - intros i m p vals s H. unfold emit, life_lines. rewrite H. reflexivity.
  - intros i s H. unfold emit, life_lines. cbn [next spans]. rewrite H. repeat split; reflexivity.
Qed.

(** what a lifecycle record says: `message` is the point's name, and (with_current_span) `span` is the span itself with
    all fields recorded so far — on the tree as it is and on the repaired one (an explicit parent that exists is honoured
    by both) *)
Theorem lifecycle_record_content c o en st i s msg t :
  find_span i (spans st) = Some s ->
  In (bs "message", JStr (bs msg)) (event_fields (life_event s msg t)) /\
  (o_cur o = true -> In (bs "span", span_obj s) (event_entries c o en st (life_event s msg t) (PExplicit i))) /\
  (o_level o = true -> In (bs "level", JStr (level_text (sm_level (sp_meta s)))) (event_entries c o en st (life_event s msg t) (PExplicit i))) /\
  (o_target o = true -> In (bs "target", JStr (sm_target (sp_meta s))) (event_entries c o en st (life_event s msg t) (PExplicit i))).
Proof.
  intro H. split; [left; reflexivity|]. split; [|split].
  - intro Hc. apply record_span with (i := i); auto. eapply event_span_explicit; eauto.
  - intro Hl. unfold event_entries. rewrite Hl. apply in_or_app; right. apply in_or_app; left. left. reflexivity.
  - intro Ht. unfold event_entries. rewrite Ht. do 3 (apply in_or_app; right). apply in_or_app; left. left. reflexivity.
Qed.

(** * The `tracing-log` build differs from the plain build only on `log.*` names: a history whose span field names never
    start with `log.` writes the same lines in both *)
Definition no_log_names (x : op) : Prop :=
  match x with
  | ONew _ _ _ vals | ORecord _ vals => Forall (fun kv => has_prefix (bs "log.") (fst kv) = false) vals
  | _ => True
  end.

Lemma eff_no_prefix c vals : Forall (fun kv => has_prefix (bs "log.") (fst kv) = false) vals -> eff c vals = vals.
Proof.
  intro H. unfold eff. induction H as [|[k v] r Hk Hr IH]; [reflexivity|]. simpl.
  rewrite (log_skipped_prefix c k v Hk). simpl. rewrite IH. reflexivity.
Qed.

Definition with_log (c : cfg) (lg : bool) : cfg := {| fx10 := fx10 c; fx141 := fx141 c; feat_log := lg |}.

Lemma next_log_inert c lg st x : no_log_names x -> next (with_log c lg) st x = next c st x.
Proof.
  intro H. destruct x; simpl in *; try reflexivity.
  - rewrite !eff_no_prefix by exact H. reflexivity.
  - rewrite !eff_no_prefix by exact H. reflexivity.
Qed.

Lemma emit_log_inert c lg o en st x : no_log_names x -> emit (with_log c lg) o en st x = emit c o en st x.
Proof.
  intro H. destruct x; try reflexivity.
  - unfold emit. rewrite next_log_inert by exact H. reflexivity.
Qed.

Theorem log_feature_inert c lg o en : forall ops st,
  Forall no_log_names ops -> run_ops_from (with_log c lg) o en st ops = run_ops_from c o en st ops.
Proof.
  induction ops as [|x ops IH]; intros st H; [reflexivity|]. inversion H; subst. simpl.
  rewrite emit_log_inert, next_log_inert by assumption. rewrite IH by assumption. reflexivity.
Qed.

(** * Findings as refutations *)
Definition f10_ops : list op :=
  [ONew 0 (meta_named (bs "root")) PRoot []; ONew 1 (meta_named (bs "child")) (PExplicit 0) []].
Definition f10_opts : opts :=
  {| o_flatten := false; o_cur := true; o_list := true; o_ts := None; o_level := true; o_target := true;
     o_file := false; o_line := false; o_tname := false; o_tid := false;
     o_new := false; o_enter := false; o_exit := false; o_close := false |}.
Definition f10_event : event := {| ev_level := 2; ev_target := bs "t"; ev_file := None; ev_line := None; ev_vals := [] |}.

(** F10: spans root -> child, nothing entered, event with explicit parent `child`: the list is empty although the
    event's scope is [root; child]. *)
Theorem F10_refuted : forall c en, fx10 c = false ->
  let st := state_after c f10_ops in
  In (bs "spans", JArr []) (event_entries c f10_opts en st f10_event (PExplicit 1)) /\
  map sp_name (spec_scope st (PExplicit 1)) = [bs "root"; bs "child"].
Proof.
  intros [a b l] en H. simpl in H. subst a. split.
  - unfold event_entries, f10_opts. cbn [o_cur o_list orb o_flatten o_ts o_level o_target o_file o_line o_tname o_tid].
    do 7 (apply in_or_app; right). apply in_or_app; left. vm_compute. left. reflexivity.
  - vm_compute. reflexivity.
Qed.

(** ... second face: an explicit ROOT event is still attributed to the entered span *)
Theorem F10_refuted_root : forall c, fx10 c = false ->
  let st := state_after c [ONew 0 (meta_named (bs "other")) PRoot []; OEnter 0] in
  event_span c st PRoot = Some 0 /\ spec_event_span st PRoot = None.
Proof. intros [a b l] H. simpl in H. subst a. split; reflexivity. Qed.

(** ... third face: the "new" lifecycle record of a span created while nothing is entered names the span under `span`
    and prints an empty `spans` list, although the record's scope is [root; child] *)
Theorem F10_refuted_lifecycle : forall c en, fx10 c = false ->
  let st := state_after c f10_ops in
  forall s, find_span 1 (spans st) = Some s ->
  In (bs "spans", JArr []) (event_entries c f10_opts en st (life_event s "new" None) (PExplicit 1)) /\
  In (bs "span", span_obj s) (event_entries c f10_opts en st (life_event s "new" None) (PExplicit 1)).
Proof.
  intros [a b l] en H. simpl in H. subst a. intros st s Hs. split.
  - unfold event_entries, f10_opts. cbn [o_cur o_list orb o_flatten o_ts o_level o_target o_file o_line o_tname o_tid].
    do 7 (apply in_or_app; right). apply in_or_app; left. vm_compute. left. reflexivity.
  - apply record_span with (i := 1); auto; eapply event_span_explicit; eauto.
Qed.

(** F143: two fields with one name at one event callsite give an object with a duplicate key *)
Theorem F143_refuted : forall c o en st p,
  let e := {| ev_level := 2; ev_target := []; ev_file := None; ev_line := None;
              ev_vals := [([97], VU64 1); ([97], VU64 2)] |} in
  o_flatten o = false -> ~ uniq (event_record c o en st e p).
Proof.
  intros c o en st p e Fl U. unfold event_record in U. apply uniq_obj in U. destruct U as [_ U].
  rewrite Forall_forall in U.
  specialize (U _ (record_fields_nested c o en st e p Fl)). simpl snd in U. apply uniq_obj in U.
  destruct U as [U _]. vm_compute in U. inversion U as [|? ? N _]; subst. apply N. left. reflexivity.
Qed.

(** non-vacuity of record_uniq / record_span_list: a reachable state with a recorded-into span, flattened event *)
Example record_witness :
  let ops := [ONew 0 (meta_named (bs "root")) PRoot [([97], VU64 1)]; OEnter 0; ONew 1 (meta_named (bs "leaf")) PCurrent [];
              ORecord 1 [([98], VStr [34])]; ORecord 1 [([98], VBool true)]; OEnter 1] in
  let o := {| o_flatten := true; o_cur := true; o_list := true; o_ts := Some (bs "T"); o_level := true; o_target := true;
              o_file := true; o_line := true; o_tname := true; o_tid := true;
              o_new := true; o_enter := true; o_exit := true; o_close := true |} in
  let e := {| ev_level := 0; ev_target := bs "t"; ev_file := Some (bs "f"); ev_line := Some 7;
              ev_vals := [(bs "message", VText [10]); (bs "k", VF64 0)] |} in
  forall c, Forall op_ok ops /\ event_ok o e /\
            spec_event_span (state_after c ops) PCurrent = Some 1 /\
            map sp_name (spec_scope (state_after c ops) PCurrent) = [bs "root"; bs "leaf"].
Proof.
  intros ops o e c. split; [|split; [|split]].
  - repeat constructor; vm_compute; discriminate.
  - split.
    + apply nodupb_sound. vm_compute. reflexivity.
    + intros _ k Hk. revert Hk. vm_compute. intuition; subst; discriminate.
  - destruct c as [a b l]; destruct a, b, l; vm_compute; reflexivity.
  - destruct c as [a b l]; destruct a, b, l; vm_compute; reflexivity.
Qed.

(** * The model agrees with the shape facts the translator reads off the source *)
Theorem gen_matches_model :
  gen_json_unrecognised = [] /\
  gen_event_keys = model_event_keys /\ gen_span_keys = model_span_keys /\
  gen_trailing_newline = true /\ gen_span_list_from_root = true /\
  gen_jsonvisitor_methods = model_jsonvisitor_methods /\
  gen_jsonvisitor_strip_raw = model_jsonvisitor_strip_raw /\
  gen_serdemap_methods = model_serdemap_methods /\
  gen_jsonvisitor_log_skip = model_jsonvisitor_log_skip /\
  gen_lifecycle = model_lifecycle /\ gen_lifecycle_parent_is_span = true /\ gen_timing_off_without_time = true /\
  gen_metadata_normalised_under_log = true.
Proof. repeat split; reflexivity. Qed.

(** the model's string escaping IS serde_json's ESCAPE table (read from the dependency's source on every run), on every
    byte value *)
Theorem escape_table_matches : forall b, b < 256 -> escape_byte b = escape_from_table gen_escape_table b.
Proof.
  assert (C : forallb (fun n => beqb (escape_byte (N.of_nat n)) (escape_from_table gen_escape_table (N.of_nat n)))
                      (seq 0 256) = true) by (vm_compute; reflexivity).
  rewrite forallb_forall in C. intros b Hb.
  specialize (C (N.to_nat b)). rewrite N2Nat.id in C. apply beqb_eq. apply C.
  apply in_seq. lia.
Qed.

(** the model writes its keys in the order of [model_event_keys] (all options on, unnamed thread, ids off) *)
Example entries_order :
  let o := {| o_flatten := false; o_cur := true; o_list := true; o_ts := Some []; o_level := true; o_target := true;
              o_file := true; o_line := true; o_tname := true; o_tid := false;
              o_new := false; o_enter := false; o_exit := false; o_close := false |} in
  let st := state_after repo_cfg [ONew 0 (meta_named []) PRoot []; OEnter 0] in
  let e := {| ev_level := 0; ev_target := []; ev_file := Some []; ev_line := Some 1; ev_vals := [] |} in
  map fst (event_entries repo_cfg o {| thread_name := None; thread_id := [] |} st e PCurrent) =
  map bs ["timestamp"; "level"; "fields"; "target"; "filename"; "line_number"; "span"; "spans"; "threadName"]%string.
Proof. vm_compute. reflexivity. Qed.
