(** Common/Sched.v — a small generic library for thread-indexed labelled transition systems.

    A system is a type of states with a partial step function [step : state -> tid -> option state]:
    [step s t = None] means thread [t] cannot move in [s] (it is blocked on a lock, has finished, or
    does not exist).  A *schedule* is a [list tid]; [run] folds it, an entry for a thread that cannot
    move is a stutter.  "Every interleaving at the granularity of the micro-steps" is therefore literally
    [forall sched : list tid].  Nothing here is specific to tracing. *)
From Coq Require Import List.
Import ListNotations.

Definition tid := nat.

Section Sched.
  Variable state : Type.
  Variable step : state -> tid -> option state.

  Definition exec1 (s : state) (t : tid) : state :=
    match step s t with Some s' => s' | None => s end.

  Fixpoint run (s : state) (sched : list tid) : state :=
    match sched with
    | [] => s
    | t :: rest => run (exec1 s t) rest
    end.

  Definition reachable (init s : state) : Prop := exists sched, run init sched = s.

  Lemma run_app : forall a b s, run s (a ++ b) = run (run s a) b.
  Proof. induction a; simpl; intros; auto. Qed.

  Lemma run_snoc : forall a t s, run s (a ++ [t]) = exec1 (run s a) t.
  Proof. intros. rewrite run_app. reflexivity. Qed.

  Lemma reachable_refl : forall s, reachable s s.
  Proof. intros. exists []. reflexivity. Qed.

  Lemma reachable_step : forall init s t s', reachable init s -> step s t = Some s' -> reachable init s'.
  Proof.
    intros init s t s' [sc H] Hs. exists (sc ++ [t]). rewrite run_snoc, H. unfold exec1. rewrite Hs. reflexivity.
  Qed.

  Lemma reachable_trans : forall a b c, reachable a b -> reachable b c -> reachable a c.
  Proof. intros a b c [s1 H1] [s2 H2]. exists (s1 ++ s2). rewrite run_app, H1. exact H2. Qed.

  (** Invariant lifting: an invariant of every step is an invariant of every run. *)
  Theorem inv_run : forall (Inv : state -> Prop),
    (forall s t s', Inv s -> step s t = Some s' -> Inv s') ->
    forall sched s, Inv s -> Inv (run s sched).
  Proof.
    intros Inv Hstep. induction sched as [|t r IH]; simpl; intros s Hs; auto.
    apply IH. unfold exec1. destruct (step s t) eqn:E; eauto.
  Qed.

  Theorem inv_reachable : forall (Inv : state -> Prop) init,
    Inv init ->
    (forall s t s', Inv s -> step s t = Some s' -> Inv s') ->
    forall s, reachable init s -> Inv s.
  Proof. intros Inv init Hi Hs s [sc <-]. apply inv_run; auto. Qed.

  (** Induction over reachable states (the step may use that the source is reachable). *)
  Theorem reachable_ind' : forall init (P : state -> Prop),
    P init ->
    (forall s t s', reachable init s -> P s -> step s t = Some s' -> P s') ->
    forall s, reachable init s -> P s.
  Proof.
    intros init P H0 Hstep s Hr.
    assert (G : reachable init s /\ P s).
    { apply (inv_reachable (fun x => reachable init x /\ P x) init); auto.
      - split; auto using reachable_refl.
      - intros x t x' [Hx Hp] St. split; eauto using reachable_step. }
    apply G.
  Qed.

  (** A property of single transitions holds of every transition taken along a run. *)
  Theorem run_steps : forall (Inv : state -> Prop) (Q : state -> tid -> state -> Prop),
    (forall s t s', Inv s -> step s t = Some s' -> Inv s' /\ Q s t s') ->
    forall init s t s', Inv init -> reachable init s -> step s t = Some s' -> Q s t s'.
  Proof.
    intros Inv Q H init s t s' Hi Hr Hs.
    assert (Inv s).
    { apply (inv_reachable Inv init); auto. intros x u x' Hx St. eapply H; eauto. }
    eapply H; eauto.
  Qed.
End Sched.

Arguments exec1 {state} step s t.
Arguments run {state} step s sched.
Arguments reachable {state} step init s.
