(** SpanApi/ShapeSyntax.v — the vocabulary of *collector-call shapes*: what a method of tracing/src/span.rs,
    tracing/src/instrument.rs, tracing-futures/src/lib.rs (and the span! macro) does to collectors, in order, with its
    RAII scopes.  translators/span_shapes.py reads one row per method off the Rust source into coq/gen/Gen_span.v
    ([src_shapes]); SpanApi/Shapes.v holds the table the model was written against ([model_shapes]) and the interpreter
    that turns rows into the model's micro-actions; C03_source_shapes states that the two tables are equal.
    Definitions only. *)
From Coq Require Import List String Bool.
Import ListNotations.
Local Open Scope string_scope.

(** the methods of `Collect` a span handle may call *)
Inductive ccall := KNewSpan | KCloneSpan | KTryClose | KEnter | KExit | KRecord | KFollows | KCurrentSpan.

(** on which collector *)
Inductive target :=
| TOwn        (* the Dispatch stored in the handle (`inner.collector`), about the handle's own id (`inner.id`) *)
| TDefault.   (* the `dispatch` bound by an enclosing `dispatch::get_default(|dispatch| ..)` *)

Inductive sev :=
| SCall (tg : target) (k : ccall)       (* a collector call *)
| SIfInner (body : list sev)            (* if let Some(inner) = self.inner { body } *)
| SIfFrom (body : list sev)             (* if let Some(from) = from.into() { body } *)
| SIfField (body : list sev)            (* if let Some(meta) = self.meta { if let Some(field) = field.as_field(meta) { body } } *)
| SIfDisabled (body : list sev)         (* if self.is_disabled() { return body }  (falls through to `self` otherwise) *)
| SIfCurrent (th el : list sev)         (* if let Some((id, meta)) = dispatch.current_span().into_inner() { th } else { el } *)
| SIfEnabled (th el : list sev)         (* span!: if level_enabled && !interest.is_never() && is_enabled(interest) { th } else { el } *)
| SWithDefault (body : list sev)        (* dispatch::get_default(|dispatch| body) *)
| SAttrs (k : string)                   (* Attributes::new ("contextual") / new_root ("root") / Some(p) => child_of, None => new_root ("child_or_root") *)
| SInvoke (m : string)                  (* calls the method of row m, on the same span *)
| SGuard (m : string)                   (* let _g = <m>(..): the RAII value m returns lives until the end of this function *)
| STemp (m : string)                    (* let _ = <m>(..): the RAII value m returns is dropped at once *)
| SBody                                 (* foreign code: f() / inner.poll(cx) / the inner value's clone or drop *)
| SSetDefault                           (* let _d = dispatch::set_default(&self.dispatch) (or with_default(.., || ..)): RAII default scope *)
| SMkSpan (tg : target)                 (* Span { inner: Some(Inner::new(id, <tg>)), .. } with the id the preceding call returned *)
| SMkNone                               (* Span { inner: None, .. } *)
| SMk (ty : string)                     (* a struct literal of type ty wrapping self / the span (Entered, EnteredSpan, Inner, Instrumented, WithDispatch) *)
| STakeSpan                             (* let span = mem::replace(&mut self.span, Span::none()): what follows acts on the span taken out *)
| SOwnSpan                              (* a local takes ownership of self's Span (ptr::read): dropped at the end of this function *)
| SDropSpan                             (* drop glue: a field of type Span is dropped *)
| SForgetSelf                           (* ManuallyDrop::new(self) / mem::forget(self): self's destructor and drop glue do not run *)
| SUnrecognised (what : string).        (* the translator did not recognise a statement: never equal to a model row *)

Definition table := list (string * list sev).

Fixpoint lookup_row (tbl : table) (m : string) : option (list sev) :=
  match tbl with [] => None | (k, r) :: tbl' => if String.eqb k m then Some r else lookup_row tbl' m end.

(** decidable equality (used only to *name* the differing rows when the tables differ) *)
Definition ccall_eqb (a b : ccall) : bool :=
  match a, b with
  | KNewSpan, KNewSpan | KCloneSpan, KCloneSpan | KTryClose, KTryClose | KEnter, KEnter | KExit, KExit
  | KRecord, KRecord | KFollows, KFollows | KCurrentSpan, KCurrentSpan => true
  | _, _ => false
  end.
Definition target_eqb (a b : target) : bool :=
  match a, b with TOwn, TOwn | TDefault, TDefault => true | _, _ => false end.

Fixpoint sev_eqb (a b : sev) {struct a} : bool :=
  let fix go (x y : list sev) {struct x} : bool :=
    match x, y with
    | [], [] => true
    | a' :: x', b' :: y' => sev_eqb a' b' && go x' y'
    | _, _ => false
    end in
  match a, b with
  | SCall t k, SCall t' k' => target_eqb t t' && ccall_eqb k k'
  | SIfInner x, SIfInner y | SIfFrom x, SIfFrom y | SIfField x, SIfField y | SIfDisabled x, SIfDisabled y
  | SWithDefault x, SWithDefault y => go x y
  | SIfCurrent x1 x2, SIfCurrent y1 y2 | SIfEnabled x1 x2, SIfEnabled y1 y2 => go x1 y1 && go x2 y2
  | SAttrs k, SAttrs k' | SInvoke k, SInvoke k' | SGuard k, SGuard k' | STemp k, STemp k' | SMk k, SMk k' => String.eqb k k'
  | SMkSpan t, SMkSpan t' => target_eqb t t'
  | SBody, SBody | SSetDefault, SSetDefault | SMkNone, SMkNone | STakeSpan, STakeSpan | SOwnSpan, SOwnSpan
  | SDropSpan, SDropSpan | SForgetSelf, SForgetSelf => true
  | _, _ => false    (* incl. SUnrecognised on either side *)
  end.
Fixpoint row_eqb (x y : list sev) : bool :=
  match x, y with
  | [], [] => true
  | a :: x', b :: y' => sev_eqb a b && row_eqb x' y'
  | _, _ => false
  end.

(** the keys of [want] whose row in [got] is missing or different, and the keys of [got] that [want] does not have *)
Definition differing_rows (got want : table) : list string :=
  map fst (filter (fun kr => match lookup_row got (fst kr) with Some r => negb (row_eqb r (snd kr)) | None => true end) want)
  ++ map fst (filter (fun kr => match lookup_row want (fst kr) with Some _ => false | None => true end) got).
