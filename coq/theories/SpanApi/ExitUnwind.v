(** SpanApi/ExitUnwind.v — `EnteredSpan::exit` when the collector's `exit` callback unwinds.

    The body of the method is the row "EnteredSpan::exit" of the shape table (read off the source on every run into
    Gen_span.src_shapes and required equal to [model_shapes] by C03_source_shapes).  This file gives those rows an
    *unwinding* semantics: the one collector call of the row (`do_exit`) may panic; the unwind then drops the frame's
    locals and — unless `self` was wrapped in ManuallyDrop / forgotten — `self` (Drop for EnteredSpan: do_exit on whatever
    span the guard still holds, then the drop glue of its span field).  Counted: close notifications (`try_close`) for the
    guard's span and exit callbacks; observed: whether a handle of the span is still owned by anyone afterwards.
    Definitions and proofs (small, closed by computation over both outcomes of the callback). *)
From Coq Require Import List String Bool NArith.
From TV Require Import SpanApi.ShapeSyntax SpanApi.Shapes.
Import ListNotations.
Local Open Scope string_scope.

(** where the guard's span is while the body runs *)
Inductive place := InSelf | InLocal | Returned | Gone.

Record ust := mkU { where_ : place; self_forgotten : bool; self_is_none : bool; closes : nat; exits : nat }.

Definition u0 := mkU InSelf false false 0 0.

(** the unwind (or the normal end of the function for a value not returned): locals first, then `self` *)
Definition drop_frame (s : ust) : ust :=
  let s := match where_ s with
           | InLocal => mkU Gone (self_forgotten s) (self_is_none s) (S (closes s)) (exits s)
           | _ => s
           end in
  if self_forgotten s then s
  else match where_ s with
       | InSelf => (* Drop for EnteredSpan: do_exit (the hook is one-shot: it does not fire again), then the span field *)
           mkU Gone false (self_is_none s) (S (closes s)) (S (exits s))
       | _ => s   (* the guard holds Span::none(): nothing is exited, nothing is closed *)
       end.

(** one statement; [hook_unwinds]: the collector's exit callback panics (after having been called).
    None = the function is unwinding (the remaining statements do not run). *)
Definition ustep (hook_unwinds : bool) (e : sev) (s : ust) : option ust :=
  match e with
  | STakeSpan => Some (mkU InLocal (self_forgotten s) true (closes s) (exits s))
  | SForgetSelf => Some (mkU (where_ s) true (self_is_none s) (closes s) (exits s))
  | SOwnSpan => Some (mkU InLocal (self_forgotten s) (self_is_none s) (closes s) (exits s))
  | SInvoke "Span::do_exit" =>
      let s' := mkU (where_ s) (self_forgotten s) (self_is_none s) (closes s) (S (exits s)) in
      if hook_unwinds then None else Some s'
  | _ => Some s
  end.

Fixpoint urun (hook_unwinds : bool) (row : list sev) (s : ust) : ust :=
  match row with
  | [] => (* normal return: the local holding the span is the return value *)
      let s := match where_ s with InLocal => mkU Returned (self_forgotten s) (self_is_none s) (closes s) (exits s) | _ => s end in
      drop_frame s
  | e :: rest =>
      match ustep hook_unwinds e s with
      | Some s' => urun hook_unwinds rest s'
      | None =>
          (* the callback was called, then the frame unwinds *)
          drop_frame (mkU (where_ s) (self_forgotten s) (self_is_none s) (closes s) (S (exits s)))
      end
  end.

(** what the property demands of `EnteredSpan::exit`: exactly one exit callback; if the call returns, the caller owns the
    handle and no close has been sent; if it unwinds, the handle is gone and exactly one close has been sent *)
Definition exit_ok (row : list sev) : Prop :=
  forall hook_unwinds,
    let s := urun hook_unwinds row u0 in
    exits s = 1 /\
    (if hook_unwinds then where_ s = Gone /\ closes s = 1 else where_ s = Returned /\ closes s = 0).

Definition row_of (t : table) (m : string) : list sev := match lookup_row t m with Some r => r | None => [] end.

(** the row of the method in the table the model was written against (= the source's row, C03_source_shapes) *)
Definition exit_row_model : list sev := row_of model_shapes "EnteredSpan::exit".

Lemma exit_row_model_is : exit_row_model = [STakeSpan; SInvoke "Span::do_exit"].
Proof. reflexivity. Qed.

Definition row_entered_exit : string := "EnteredSpan::exit".
Lemma exit_row_model_lookup : lookup_row model_shapes row_entered_exit = Some exit_row_model.
Proof. reflexivity. Qed.

Lemma exit_row_unwind_safe : exit_ok exit_row_model.
Proof. intros [|]; vm_compute; repeat split. Qed.

(** the ManuallyDrop / ptr::read shape (seeded C03-I): on the unwind path nobody owns the span, no close is ever sent *)
Definition row_manually_drop : list sev := [SForgetSelf; SInvoke "Span::do_exit"; SOwnSpan].

Lemma exit_row_manually_drop_normal_path :
  let s := urun false row_manually_drop u0 in exits s = 1 /\ where_ s = Returned /\ closes s = 0.
Proof. vm_compute; repeat split. Qed.

Lemma exit_row_manually_drop_refuted : ~ exit_ok row_manually_drop.
Proof. intro H. destruct (H true) as [_ [_ Hc]]. vm_compute in Hc. discriminate. Qed.

Lemma exit_row_manually_drop_leaks :
  let s := urun true row_manually_drop u0 in where_ s = InSelf /\ self_forgotten s = true /\ closes s = 0.
Proof. vm_compute; repeat split. Qed.
