(** SpanApi/WireProofs.v — the ids on the wire.  [d_log] speaks about spans (every alias of a span is written as the id
    new_span returned); [d_hlog] holds, for the same calls, the ids the collector actually sees.  Here: every call is made
    with an id that the receiving collector itself issued earlier FOR THAT SPAN — as the result of new_span or of a
    clone_span (which for collectors 3, 4 is a fresh alias) — so replacing each wire id by the span it aliases turns the
    wire trace into [trace p], the object of the counting theorems. *)
From Coq Require Import List NArith Bool Lia Arith.
From TV Require Import SpanApi.Model SpanApi.Spec SpanApi.Proofs.
Import ListNotations.
Local Open Scope N_scope.

(** collector c issued id h for span i: h is what new_span returned (then h = i), or what a clone_span about i returned *)
Fixpoint issued_for (l : list entry) (hl : list (sid * sid)) (h i : sid) (c : cid) : bool :=
  match l, hl with
  | e :: l', x :: hl' =>
      match e with
      | ECall c' _ (CNew j _) => (c' =? c) && (j =? i) && (h =? i)
      | ECall c' _ (CClone j) => (c' =? c) && (j =? i) && (snd x =? h)
      | _ => false
      end || issued_for l' hl' h i c
  | _, _ => false
  end.

Definition wire_entry_ok (older : list entry) (olderh : list (sid * sid)) (e : entry) (x : sid * sid) : Prop :=
  match e with
  | EMark _ _ => True
  | ECall c _ k =>
      match k with
      | CNew _ _ => True
      | _ => issued_for older olderh (fst x) (subject k) c = true
      end
  end.
Fixpoint wire_ok (l : list entry) (hl : list (sid * sid)) : Prop :=
  match l, hl with
  | e :: l', x :: hl' => wire_entry_ok l' hl' e x /\ wire_ok l' hl'
  | [], [] => True
  | _, _ => False
  end.

Record HInv (o : own) (d : dyn) : Prop := mkHInv {
  h_wire : wire_ok (d_log d) (d_hlog d);
  h_live : forall n i c, In n (names (o_holders o)) -> vlook (d_vals d) n = SSpan i c ->
           issued_for (d_log d) (d_hlog d) (hid_of d n) i c = true
}.

Lemma issued_mono : forall e x l hl h i c, issued_for l hl h i c = true -> issued_for (e :: l) (x :: hl) h i c = true.
Proof. intros. cbn [issued_for]. rewrite H. apply orb_true_r. Qed.

Lemma wire_ok_len : forall l hl, wire_ok l hl -> length hl = length l.
Proof. induction l; destruct hl; simpl; intros; try tauto. f_equal. apply IHl. tauto. Qed.

Lemma new_issued : forall l hl i c, length hl = length l -> (1 <= cnt TNew (i, c) l)%nat -> issued_for l hl i i c = true.
Proof.
  induction l as [|e l]; intros hl i c Hl H; [unfold cnt in H; simpl in H; lia|].
  destruct hl as [|x hl]; [discriminate|]. simpl in Hl. cbn [issued_for]. rewrite cnt_cons in H.
  destruct (is_call TNew (i, c) e) eqn:E.
  - destruct e as [c' t k|]; [|discriminate]. destruct k; simpl in E; try discriminate.
    unfold key_eqb in E; simpl in E. apply andb_true_iff in E. destruct E as [E1 E2].
    rewrite E2, E1, N.eqb_refl. reflexivity.
  - simpl in H. rewrite (IHl hl i c) by (try lia; assumption). apply orb_true_r.
Qed.

Lemma hid_of_cons : forall d n h m, hid_of (set_hid d n h) m = if n =? m then h else hid_of d m.
Proof. intros. unfold hid_of, set_hid, with_h. simpl. destruct (n =? m); reflexivity. Qed.

Lemma hinv_push : forall o o' d d2 e x,
  HInv o d ->
  d_log d2 = e :: d_log d -> d_hlog d2 = x :: d_hlog d ->
  wire_entry_ok (d_log d) (d_hlog d) e x ->
  (forall n i c, In n (names (o_holders o')) -> vlook (d_vals d2) n = SSpan i c ->
       (In n (names (o_holders o)) /\ vlook (d_vals d) n = SSpan i c /\ hid_of d2 n = hid_of d n)
       \/ issued_for (d_log d2) (d_hlog d2) (hid_of d2 n) i c = true) ->
  HInv o' d2.
Proof.
  intros o o' d d2 e x [Hw Hl] E1 E2 Hok Hn. constructor.
  - rewrite E1, E2. split; assumption.
  - intros n i c Hin Hv. destruct (Hn n i c Hin Hv) as [[H1 [H2 H3]]|H]; [|exact H].
    rewrite E1, E2, H3. apply issued_mono. apply Hl; assumption.
Qed.

Lemma hinv_same : forall o o' d d2,
  HInv o d ->
  d_log d2 = d_log d -> d_hlog d2 = d_hlog d ->
  (forall n i c, In n (names (o_holders o')) -> vlook (d_vals d2) n = SSpan i c ->
       In n (names (o_holders o)) /\ vlook (d_vals d) n = SSpan i c /\ hid_of d2 n = hid_of d n) ->
  HInv o' d2.
Proof.
  intros o o' d d2 [Hw Hl] E1 E2 Hn. constructor.
  - rewrite E1, E2. assumption.
  - intros n i c Hin Hv. destruct (Hn n i c Hin Hv) as [H1 [H2 H3]]. rewrite E1, E2, H3. apply Hl; assumption.
Qed.

(** a call through a live holder r of span (i, c), made with r's id *)
Lemma call_ok : forall o d r i c t k a, HInv o d -> In r (names (o_holders o)) -> vlook (d_vals d) r = SSpan i c ->
  subject k = i -> tag_of k <> TNew ->
  wire_entry_ok (d_log d) (d_hlog d) (ECall c t k) (hid_of d r, a).
Proof.
  intros o d r i c t k a [Hw Hl] Hin Hv Hs Hk. unfold wire_entry_ok. cbn [fst]. rewrite Hs.
  destruct k; try (apply Hl; assumption). simpl in Hk. congruence.
Qed.

Lemma hinv_set : forall o o' d d2 n v hh,
  HInv o d -> (forall m, In m (names (o_holders o')) -> m = n \/ In m (names (o_holders o))) ->
  ((d_log d2 = d_log d /\ d_hlog d2 = d_hlog d) \/
   (exists e x, d_log d2 = e :: d_log d /\ d_hlog d2 = x :: d_hlog d /\ wire_entry_ok (d_log d) (d_hlog d) e x)) ->
  d_vals d2 = (n, v) :: d_vals d -> d_hid d2 = (n, hh) :: d_hid d ->
  (forall i c, v = SSpan i c -> issued_for (d_log d2) (d_hlog d2) hh i c = true) ->
  HInv o' d2.
Proof.
  intros o o' d d2 n v hh [Hw Hl] Hsub Hlog Hv Hh Hiss. constructor.
  - destruct Hlog as [[E1 E2]|[e [x [E1 [E2 Hok]]]]]; rewrite E1, E2; [assumption | split; assumption].
  - intros m i c Hin Hm. rewrite Hv, vlook_cons in Hm. unfold hid_of. rewrite Hh. cbn [lookup].
    destruct (n =? m) eqn:E.
    + apply Hiss. exact Hm.
    + destruct (Hsub m Hin) as [->|Hold]; [rewrite N.eqb_refl in E; discriminate|].
      specialize (Hl m i c Hold Hm). unfold hid_of in Hl.
      destruct Hlog as [[E1 E2]|[e [x [E1 [E2 Hok]]]]]; rewrite E1, E2; [exact Hl | apply issued_mono; exact Hl].
Qed.

Lemma val_of_set_same : forall d n v, val_of (set_val d n v) n = v.
Proof. intros. unfold val_of, set_val. simpl. rewrite N.eqb_refl. reflexivity. Qed.

Lemma issued_head_new : forall l hl x i c t po, issued_for (ECall c t (CNew i po) :: l) (x :: hl) i i c = true.
Proof. intros. cbn [issued_for]. rewrite !N.eqb_refl. reflexivity. Qed.
Lemma issued_head_clone : forall l hl u a i c t, issued_for (ECall c t (CClone i) :: l) ((u, a) :: hl) a i c = true.
Proof. intros. cbn [issued_for snd]. rewrite !N.eqb_refl. reflexivity. Qed.

Lemma add_sub : forall o n m, In m (names (o_holders (add_holder o n))) -> m = n \/ In m (names (o_holders o)).
Proof. intros o n m [H|H]; [left; symmetry; exact H | right; exact H]. Qed.

Lemma live_alias_issued : forall l hl i c cl a, live_alias l hl i c cl = Some a -> issued_for l hl a i c = true.
Proof.
  induction l as [|e l]; intros hl i c cl a H; [discriminate|]. destruct hl as [|x hl]; [discriminate|].
  cbn [live_alias issued_for] in *. destruct e as [c' t k|]; [|rewrite (IHl _ _ _ _ _ H); reflexivity].
  destruct k; try (rewrite (IHl _ _ _ _ _ H); apply orb_true_r).
  - destruct ((c' =? c) && (i0 =? i) && negb (memN i cl)) eqn:E.
    + inversion H; subst a. apply andb_true_iff in E. destruct E as [E _]. rewrite E, N.eqb_refl. reflexivity.
    + rewrite (IHl _ _ _ _ _ H). apply orb_true_r.
  - destruct ((c' =? c) && (i0 =? i) && negb (memN (snd x) cl)) eqn:E.
    + inversion H; subst a. apply andb_true_iff in E. destruct E as [E _]. rewrite E, N.eqb_refl. reflexivity.
    + rewrite (IHl _ _ _ _ _ H). apply orb_true_r.
  - destruct ((c' =? c) && (i0 =? i)); rewrite (IHl _ _ _ _ _ H); apply orb_true_r.
Qed.

Lemma hinv_do_current : forall o o' d n t, Inv o d -> HInv o d ->
  (forall m, In m (names (o_holders o')) -> m = n \/ In m (names (o_holders o))) ->
  HInv o' (mh_current d (do_current d n t) n).
Proof.
  intros o o' d n t I H Hsub. unfold mh_current, do_current.
  destruct (cur_default d t =? 0).
  { rewrite val_of_set_same. eapply (hinv_set o o' d _ n SNone 0); [exact H | exact Hsub | left; split; reflexivity | reflexivity | reflexivity | intros; discriminate]. }
  destruct (stack_of (d_log d) (cur_default d t) t) as [|i rest] eqn:Es.
  { rewrite val_of_set_same. eapply (hinv_set o o' d _ n SNone 0); [exact H | exact Hsub | left; split; reflexivity | reflexivity | reflexivity | intros; discriminate]. }
  set (c := cur_default d t) in *.
  assert (Hv : val_of (note_made (set_val (emit d (ECall c t (CClone i))) n (SSpan i c)) (i, c)) n = SSpan i c).
  { unfold val_of, note_made, set_val. simpl. rewrite N.eqb_refl. reflexivity. }
  rewrite Hv.
  pose proof (current_live o d c t i rest I Es) as Hlive. pose proof (inv_new1 _ _ I _ Hlive) as Hnew.
  assert (Hroot : issued_for (d_log d) (d_hlog d) i i c = true)
    by (apply new_issued; [apply wire_ok_len, (h_wire _ _ H) | lia]).
  destruct (per_handle c).
  - cbv zeta. eapply (hinv_set o o' d _ n (SSpan i c) (d_next d)); [exact H | exact Hsub | | | |].
    + right. exists (ECall c t (CClone i)), (current_alias d i c, d_next d). repeat split; try reflexivity.
      unfold wire_entry_ok. cbn [fst subject]. unfold current_alias.
      destruct (live_alias (d_log d) (d_hlog d) i c []) as [a|] eqn:Ea; [eapply live_alias_issued; exact Ea | exact Hroot].
    + reflexivity.
    + reflexivity.
    + intros i' c' Heq. inversion Heq; subst i' c'. apply issued_head_clone.
  - eapply (hinv_set o o' d _ n (SSpan i c) i); [exact H | exact Hsub | | | |].
    + right. exists (ECall c t (CClone i)), (i, i). repeat split; try reflexivity. exact Hroot.
    + reflexivity.
    + reflexivity.
    + intros i' c' Heq. inversion Heq; subst i' c'. apply issued_head_clone.
Qed.

Lemma hinv_micro : forall m o d o', Inv o d -> HInv o d -> mo m o = Some o' -> HInv o' (md m d).
Proof.
  intros m o d o' I H Hm. unfold md. destruct m; cbn [mo] in Hm.
  - (* MNewSpan *)
    destruct (negb (live o n) && match parent_ref p with Some r => live o r | None => true end) eqn:E; [|discriminate].
    inversion Hm; subst o'; clear Hm. cbn [md0 mh]. cbv zeta.
    destruct (negb match h with ViaMacro en => en && negb (cur_default d t =? 0) | Direct => true end).
    { rewrite val_of_set_same. eapply (hinv_set o _ d _ n SNone 0); [exact H | apply add_sub | left; split; reflexivity | reflexivity | reflexivity | intros; discriminate]. }
    destruct (cur_default d t =? 0).
    { rewrite val_of_set_same. eapply (hinv_set o _ d _ n SNoColl NOCOLL_ID); [exact H | apply add_sub | left; split; reflexivity | reflexivity | reflexivity | intros; discriminate]. }
    rewrite val_of_set_same.
    eapply (hinv_set o _ d _ n (SSpan (d_next d) (cur_default d t)) (d_next d)); [exact H | apply add_sub | | | |].
    + right. eexists; eexists. repeat split; try reflexivity.
    + reflexivity.
    + reflexivity.
    + intros i' c' Heq. inversion Heq; subst. apply issued_head_new.
  - (* MCloneTo *)
    destruct (live o r && negb (live o n)) eqn:E; [|discriminate]. inversion Hm; subst o'; clear Hm.
    apply andb_true_iff in E. destruct E as [E1 E2]. apply live_In in E1.
    cbn [md0 mh]. rewrite !val_of_vlook. destruct (vlook (d_vals d) r) as [| |i c] eqn:Ev.
    + eapply (hinv_set o _ d _ n SNone (hid_of d r)); [exact H | apply add_sub | left; split; reflexivity | reflexivity | reflexivity | intros; discriminate].
    + eapply (hinv_set o _ d _ n SNoColl (hid_of d r)); [exact H | apply add_sub | left; split; reflexivity | reflexivity | reflexivity | intros; discriminate].
    + assert (Hok : wire_entry_ok (d_log d) (d_hlog d) (ECall c t (CClone i)) (hid_of d r, hid_of d r))
        by (eapply call_ok; eauto; discriminate).
      destruct (per_handle c).
      * cbv zeta. eapply (hinv_set o _ d _ n (SSpan i c) (d_next d)); [exact H | apply add_sub | | | |].
        -- right. exists (ECall c t (CClone i)), (hid_of d r, d_next d). repeat split; try reflexivity. exact Hok.
        -- reflexivity.
        -- reflexivity.
        -- intros i' c' Heq. inversion Heq; subst. apply issued_head_clone.
      * eapply (hinv_set o _ d _ n (SSpan i c) (hid_of d r)); [exact H | apply add_sub | | | |].
        -- right. exists (ECall c t (CClone i)), (hid_of d r, hid_of d r). repeat split; try reflexivity. exact Hok.
        -- reflexivity.
        -- reflexivity.
        -- intros i' c' Heq. inversion Heq; subst. apply issued_head_clone.
  - (* MCurrentTo *)
    destruct (negb (live o n)) eqn:E; [|discriminate]. inversion Hm; subst o'; clear Hm.
    cbn [md0 mh]. apply (hinv_do_current o); auto using add_sub.
  - (* MOrCurrent *)
    destruct (free o n) eqn:E; [|discriminate]. inversion Hm; subst o'; clear Hm.
    cbn [md0 mh]. destruct (val_of d n) eqn:Ev; try exact H.
    apply (hinv_do_current o); auto.
  - (* MRelease *)
    destruct (free o n) eqn:E; [|discriminate]. inversion Hm; subst o'; clear Hm.
    destruct (free_spec _ _ E) as [Hin _]. cbn [md0 mh]. rewrite !val_of_vlook.
    destruct (vlook (d_vals d) n) as [| |i c] eqn:Ev.
    1,2: apply (hinv_same o _ d); auto; cbn [o_holders]; intros m i' c' Hi Hv; (split; [eapply names_remove_in; eassumption | auto]).
    eapply (hinv_push o _ d); [exact H | reflexivity | reflexivity | |].
    + eapply call_ok; eauto. discriminate.
    + cbn [o_holders]. intros m i' c' Hi Hv. left. split; [eapply names_remove_in; eassumption | auto].
  - (* MSetKind *)
    destruct (live o n) eqn:E; [|discriminate]. inversion Hm; subst o'; clear Hm. cbn [md0 mh].
    apply (hinv_same o _ d); auto. cbn [o_holders]. intros m i c Hi Hv. rewrite names_set_kind in Hi. auto.
  - (* MEnterE *)
    destruct (live o (e_holder e)) eqn:E; [|discriminate]. inversion Hm; subst o'; clear Hm. apply live_In in E.
    cbn [md0 mh]. rewrite !val_of_vlook. destruct (vlook (d_vals d) (e_holder e)) as [| |i c] eqn:Ev.
    1,2: apply (hinv_same o _ d); auto.
    eapply (hinv_push o _ d); [exact H | reflexivity | reflexivity | |].
    + eapply call_ok; eauto. discriminate.
    + cbn [o_holders]. intros m i' c' Hi Hv. left. auto.
  - (* MExitE *)
    destruct (mem_ent e (o_ents o)) eqn:E; [|discriminate]. inversion Hm; subst o'; clear Hm.
    assert (Hin : In (e_holder e) (names (o_holders o))) by (apply (inv_ents _ _ I), mem_ent_In; assumption).
    cbn [md0 mh]. rewrite !val_of_vlook. destruct (vlook (d_vals d) (e_holder e)) as [| |i c] eqn:Ev.
    1,2: apply (hinv_same o _ d); auto.
    eapply (hinv_push o _ d); [exact H | reflexivity | reflexivity | |].
    + eapply call_ok; eauto. discriminate.
    + cbn [o_holders]. intros m i' c' Hi Hv. left. auto.
  - (* MRecord *)
    destruct (live o r) eqn:E; [|discriminate]. inversion Hm; subst o'; clear Hm. apply live_In in E.
    cbn [md0 mh]. rewrite !val_of_vlook. destruct (vlook (d_vals d) r) as [| |i c] eqn:Ev; try exact H.
    eapply (hinv_push o _ d); [exact H | reflexivity | reflexivity | |].
    + eapply call_ok; eauto. discriminate.
    + intros m i' c' Hi Hv. left. auto.
  - (* MFollows *)
    destruct (live o r && live o r') eqn:E; [|discriminate]. inversion Hm; subst o'; clear Hm.
    apply andb_true_iff in E. destruct E as [E _]. apply live_In in E.
    cbn [md0 mh]. rewrite !val_of_vlook. destruct (vlook (d_vals d) r) as [| |i c] eqn:Ev; try exact H.
    destruct (id_of_val (vlook (d_vals d) r')) as [j|]; try exact H.
    eapply (hinv_push o _ d); [exact H | reflexivity | reflexivity | |].
    + eapply call_ok; eauto. discriminate.
    + intros m i' c' Hi Hv. left. auto.
  - (* MMark *)
    inversion Hm; subst o'; clear Hm. cbn [md0 mh].
    eapply (hinv_push o _ d); [exact H | reflexivity | reflexivity | exact Logic.I |]. intros n i c Hi Hv. left. auto.
  - inversion Hm; subst o'; clear Hm. cbn [md0 mh]. apply (hinv_same o _ d); auto.
  - inversion Hm; subst o'; clear Hm. cbn [md0 mh]. apply (hinv_same o _ d); auto.
  - destruct (live o f); [|discriminate]. inversion Hm; subst o'; clear Hm. cbn [md0 mh]. apply (hinv_same o _ d); auto.
  - inversion Hm; subst o'; clear Hm. cbn [md0 mh]. apply (hinv_same o _ d); auto.
  - inversion Hm; subst o'; clear Hm. cbn [md0 mh]. apply (hinv_same o _ d); auto.
  - (* MSwap *)
    destruct (free o a && free o b && negb (a =? b)) eqn:E; [|discriminate]. inversion Hm; subst o'; clear Hm.
    apply andb_true_iff in E. destruct E as [E E3]. apply andb_true_iff in E. destruct E as [E1 E2].
    apply negb_true_iff in E3. destruct (free_spec _ _ E1) as [Ha _]. destruct (free_spec _ _ E2) as [Hb _].
    cbn [md0 mh]. cbv zeta. destruct H as [Hw Hl]. constructor; [exact Hw|].
    intros m i c Hi Hv. cbn [d_vals d_hid d_log d_hlog with_h set_val] in *. rewrite !val_of_vlook in Hv.
    unfold hid_of. cbn [d_hid with_h lookup]. rewrite !vlook_cons in Hv.
    destruct (b =? m) eqn:Eb.
    + apply N.eqb_eq in Eb; subst m. apply (Hl a i c Ha Hv).
    + destruct (a =? m) eqn:Ea.
      * apply N.eqb_eq in Ea; subst m. apply (Hl b i c Hb Hv).
      * apply (Hl m i c Hi Hv).
Qed.

Lemma hinv_init : HInv o_init d_init.
Proof. constructor; simpl; [exact Logic.I | intros; tauto]. Qed.

Lemma both_exec : forall ms s s', Inv (fst s) (snd s) /\ HInv (fst s) (snd s) -> exec ms s = Some s' ->
  Inv (fst s') (snd s') /\ HInv (fst s') (snd s').
Proof.
  induction ms as [|m ms]; intros s s' [I H] He; simpl in He; [inversion He; subst; split; assumption|].
  destruct (mo m (fst s)) as [o'|] eqn:E; [|discriminate].
  apply IHms in He; [assumption|]. simpl. split; [eapply micro_preserves'; eassumption | eapply hinv_micro; eassumption].
Qed.
Lemma both_run_from : forall p s s', Inv (fst s) (snd s) /\ HInv (fst s) (snd s) -> run_from s p = Some s' ->
  Inv (fst s') (snd s') /\ HInv (fst s') (snd s').
Proof.
  induction p as [|x p]; intros s s' B H; simpl in H; [inversion H; subst; assumption|].
  destruct (step s x) as [s1|] eqn:E; [|discriminate]. eapply IHp; [|eassumption].
  unfold step in E. destruct (compile (fst s) (fst x) (snd x)); [|discriminate]. eapply both_exec; eassumption.
Qed.
Theorem run_hinv : forall p s, run p = Some s -> HInv (fst s) (snd s).
Proof. intros p s H. eapply both_run_from; [|exact H]. split; [apply inv_init | apply hinv_init]. Qed.

(** * Chronological form *)
(** the calls as the collectors see them, oldest first: each with (the id it was made with, its second id) *)
Definition wire (p : prog) : list (entry * (sid * sid)) :=
  match run p with Some s => rev (combine (d_log (snd s)) (d_hlog (snd s))) | None => [] end.

(** [ex] is collector c handing out id h for span i *)
Definition issues (c : cid) (i h : sid) (ex : entry * (sid * sid)) : Prop :=
  match fst ex with
  | ECall c' _ (CNew j _) => c' = c /\ j = i /\ h = i
  | ECall c' _ (CClone j) => c' = c /\ j = i /\ snd (snd ex) = h
  | _ => False
  end.

Lemma issued_exists : forall l hl h i c, issued_for l hl h i c = true -> exists ex, In ex (combine l hl) /\ issues c i h ex.
Proof.
  induction l as [|e l]; intros hl h i c H; [discriminate|]. destruct hl as [|x hl]; [discriminate|].
  cbn [issued_for] in H. apply orb_true_iff in H. destruct H as [H|H].
  - exists (e, x). split; [left; reflexivity|]. unfold issues. cbn [fst snd].
    destruct e as [c' t k|]; [|discriminate]. destruct k; try discriminate;
      apply andb_true_iff in H; destruct H as [H H3]; apply andb_true_iff in H; destruct H as [H1 H2];
      apply N.eqb_eq in H1, H2, H3; auto.
  - destruct (IHl hl h i c H) as [ex [Hin Hi]]. exists ex. split; [right; exact Hin | exact Hi].
Qed.

Lemma wire_ok_chron : forall l hl, wire_ok l hl -> forall l1 ex l2, rev (combine l hl) = l1 ++ ex :: l2 ->
  match fst ex with
  | ECall c _ k => tag_of k <> TNew -> exists ex', In ex' l1 /\ issues c (subject k) (fst (snd ex)) ex'
  | EMark _ _ => True
  end.
Proof.
  induction l as [|e l]; intros hl Hw l1 ex l2 Hs.
  - destruct hl; simpl in Hs; destruct l1; discriminate.
  - destruct hl as [|x hl]; [simpl in Hw; tauto|]. destruct Hw as [Hok Hw]. cbn [combine rev] in Hs.
    destruct l2 as [|y l2] using rev_ind.
    + (* ex is the newest call *)
      apply app_inj_tail in Hs. destruct Hs as [Hl1 Hex]. subst ex l1. cbn [fst snd].
      destruct e as [c t k|]; [|exact Logic.I]. intros Hk. unfold wire_entry_ok in Hok.
      assert (Hi : issued_for l hl (fst x) (subject k) c = true) by (destruct k; try exact Hok; simpl in Hk; congruence).
      destruct (issued_exists _ _ _ _ _ Hi) as [ex' [Hin Hiss]]. exists ex'. split; [apply in_rev in Hin; exact Hin | exact Hiss].
    + clear IHl2. rewrite app_comm_cons, app_assoc in Hs. apply app_inj_tail in Hs. destruct Hs as [Hs _].
      exact (IHl hl Hw l1 ex l2 Hs).
Qed.

Lemma map_fst_combine : forall {A B} (l : list A) (hl : list B), length hl = length l -> map fst (combine l hl) = l.
Proof. induction l; destruct hl; simpl; intros; try discriminate; [reflexivity | f_equal; auto]. Qed.

(** Every call is made with an id its collector issued before, for that very span; forgetting the wire ids gives [trace p]. *)
Theorem wire_ids : forall p, WFprog p ->
  map fst (wire p) = trace p /\
  forall l1 c t k x l2, wire p = l1 ++ (ECall c t k, x) :: l2 -> tag_of k <> TNew ->
    exists ex, In ex l1 /\ issues c (subject k) (fst x) ex.
Proof.
  intros p H. apply wf_runs in H. destruct H as [s Hs]. pose proof (run_hinv _ _ Hs) as HI.
  unfold wire, trace. rewrite Hs. pose proof (h_wire _ _ HI) as Hw. split.
  - rewrite map_rev, map_fst_combine; [reflexivity | apply wire_ok_len; exact Hw].
  - intros l1 c t k x l2 Hsplit Hk. exact (wire_ok_chron _ _ Hw l1 _ l2 Hsplit Hk).
Qed.

(** Non-vacuity: under collector 3 (a fresh id per handle) the clone is entered, exited and closed with ITS id 2 while the
    span log speaks about span 1 throughout *)
Definition p_demo3 : prog :=
  [ (0, SetDefault 3); (0, New 0 Direct PRoot); (0, Clone 0 1); (0, Drop 0); (0, Enter 1 0); (0, DropGuard 0); (0, Drop 1) ].
Example demo3 :
  WFprog p_demo3 /\
  map enc_entry (wire p_demo3) =
    [(3, 0, 1, 1, 0, 0); (3, 0, 2, 1, 2, 0); (3, 0, 3, 1, 0, 0); (3, 0, 4, 2, 0, 0); (3, 0, 5, 2, 0, 0); (3, 0, 3, 2, 0, 0)] /\
  cnt TClose (1, 3) (trace p_demo3) = 2%nat /\ cnt TClone (1, 3) (trace p_demo3) = 1%nat.
Proof. vm_compute. repeat split; reflexivity. Qed.
