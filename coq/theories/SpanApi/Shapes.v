(** SpanApi/Shapes.v — the table of collector-call shapes the model was written against, and the interpreter that turns
    rows of such a table into the model's micro-actions.  Definitions only (proofs: SpanApi/ShapesProofs.v).

    [model_shapes] is hand-written: one row per method of span.rs / instrument.rs / tracing-futures / span!, in the
    vocabulary of ShapeSyntax.v.  The translator reads the same rows off the Rust source into TVGen.Gen_span.src_shapes
    on every run; C03_source_shapes says the two tables are equal.  What makes [model_shapes] "the model's" table is
    ShapesProofs: whenever the model's compiler accepts an action, the micro-actions it emits are exactly those
    [emit_tbl model_shapes] computes from the rows ([compile_from_shapes]), the own-collector micro-actions mean "that
    call at the handle's own collector about its own id, if the handle has an inner" ([md_own]), and the three
    constructor micro-actions are what [ctor] computes from the rows of Span::new* / child_of / current / or_current /
    span! ([md_new_from_shapes], [md_current_from_shapes], [md_or_current_from_shapes]). *)
From Coq Require Import List String NArith Bool.
From TV Require Import SpanApi.Model SpanApi.ShapeSyntax.
Import ListNotations.
Local Open Scope string_scope.
Local Open Scope list_scope.

Definition model_shapes : table :=
  [ ("Inner::clone", [SCall TOwn KCloneSpan; SMk "Inner"])
  ; ("Inner::new", [SMk "Inner"])
  ; ("Inner::record", [SCall TOwn KRecord])
  ; ("Inner::follows_from", [SCall TOwn KFollows])
  ; ("Inner::id", [])
  ; ("Span::clone", [SIfInner [SInvoke "Inner::clone"]])
  ; ("Span::clone_from", [SInvoke "Span::clone"; SDropSpan])
  ; ("Span::drop", [SIfInner [SCall TOwn KTryClose]])
  ; ("Span::dropglue", [SInvoke "Span::drop"])
  ; ("Span::do_enter", [SIfInner [SCall TOwn KEnter]])
  ; ("Span::do_exit", [SIfInner [SCall TOwn KExit]])
  ; ("Span::enter", [SInvoke "Span::do_enter"; SMk "Entered"])
  ; ("Span::entered", [SInvoke "Span::do_enter"; SMk "EnteredSpan"])
  ; ("Span::in_scope", [SGuard "Span::enter"; SBody])
  ; ("Span::record", [SIfField [SInvoke "Span::record_all"]])
  ; ("Span::record_all", [SIfInner [SInvoke "Inner::record"]])
  ; ("Span::follows_from", [SIfInner [SIfFrom [SInvoke "Inner::follows_from"]]])
  ; ("Span::or_current", [SIfDisabled [SInvoke "Span::current"]])
  ; ("Span::current", [SWithDefault [SIfCurrent [SCall TDefault KCloneSpan; SMkSpan TDefault] [SInvoke "Span::none"]]])
  ; ("Span::none", [SMkNone])
  ; ("Span::new_disabled", [SMkNone])
  ; ("Span::make_with", [SCall TDefault KNewSpan; SMkSpan TDefault])
  ; ("Span::new", [SWithDefault [SInvoke "Span::new_with"]])
  ; ("Span::new_with", [SAttrs "contextual"; SInvoke "Span::make_with"])
  ; ("Span::new_root", [SWithDefault [SInvoke "Span::new_root_with"]])
  ; ("Span::new_root_with", [SAttrs "root"; SInvoke "Span::make_with"])
  ; ("Span::child_of", [SWithDefault [SInvoke "Span::child_of_with"]])
  ; ("Span::child_of_with", [SAttrs "child_or_root"; SInvoke "Span::make_with"])
  ; ("Span::is_disabled", [])
  ; ("Span::is_none", [])
  ; ("Span::id", [])
  ; ("Span::metadata", [])
  ; ("Entered::drop", [SInvoke "Span::do_exit"])
  ; ("EnteredSpan::drop", [SInvoke "Span::do_exit"])
  ; ("EnteredSpan::exit", [STakeSpan; SInvoke "Span::do_exit"])
  ; ("EnteredSpan::deref", [])
  ; ("Entered::dropglue", [SInvoke "Entered::drop"])
  ; ("EnteredSpan::dropglue", [SInvoke "EnteredSpan::drop"; SDropSpan])
  ; ("Span::impls", [SAttrs "Clone"; SAttrs "Debug"; SAttrs "Drop"; SAttrs "Hash"; SAttrs "PartialEq"])
  ; ("Inner::impls", [SAttrs "Clone"; SAttrs "Debug"; SAttrs "Hash"; SAttrs "PartialEq"])
  ; ("Entered::impls", [SAttrs "Debug"; SAttrs "Drop"])
  ; ("EnteredSpan::impls", [SAttrs "Debug"; SAttrs "Deref"; SAttrs "Drop"])
  ; ("PhantomNotSend::impls", [SAttrs "Debug"; SAttrs "Sync"])
  ; ("EnteredSpan::clone", [SInvoke "Span::clone"])
  ; ("Entered::clone", [])
  ; ("span!(parent)", [SIfEnabled [SInvoke "Span::child_of"] [SInvoke "MacroCallsite::disabled_span"]])
  ; ("span!(ctx)", [SIfEnabled [SInvoke "Span::new"] [SInvoke "MacroCallsite::disabled_span"]])
  ; ("MacroCallsite::disabled_span", [SInvoke "Span::none"])
  ; ("Instrument::instrument", [SMk "Instrumented"])
  ; ("Instrument::in_current_span", [SInvoke "Span::current"; SInvoke "Instrument::instrument"])
  ; ("WithCollector::with_collector", [SMk "WithDispatch"])
  ; ("WithCollector::with_current_collector", [SWithDefault [SMk "WithDispatch"]])
  ; ("Instrumented::poll", [SGuard "Span::enter"; SBody])
  ; ("Instrumented::drop", [SGuard "Span::enter"; SBody])
  ; ("Instrumented::into_inner", [SForgetSelf; SOwnSpan])
  ; ("Instrumented::span", [])
  ; ("Instrumented::span_mut", [])
  ; ("Instrumented::inner", [])
  ; ("Instrumented::inner_mut", [])
  ; ("Instrumented::inner_pin_ref", [])
  ; ("Instrumented::inner_pin_mut", [])
  ; ("Instrumented::dropglue", [SInvoke "Instrumented::drop"; SDropSpan])
  ; ("Instrumented::clone", [SBody; SInvoke "Span::clone"])
  ; ("WithDispatch::poll", [SSetDefault; SBody])
  ; ("WithDispatch::inner", [])
  ; ("WithDispatch::inner_mut", [])
  ; ("WithDispatch::inner_pin_ref", [])
  ; ("WithDispatch::inner_pin_mut", [])
  ; ("WithDispatch::into_inner", [])
  ; ("WithDispatch::dispatch", [])
  ; ("Instrumented::impls", [SAttrs "Clone"; SAttrs "Debug"; SAttrs "Future"; SAttrs "PinnedDrop"])
  ; ("WithDispatch::impls", [SAttrs "Clone"; SAttrs "Debug"; SAttrs "Future"])
  ; ("WithDispatch::dropglue", [SBody])
  ; ("WithDispatch::clone", [SBody])
  ; ("futures::Instrument::instrument", [SMk "Instrumented"])
  ; ("futures::Instrument::in_current_span", [SInvoke "Span::current"; SInvoke "Instrument::instrument"])
  ; ("futures::WithCollector::with_collector", [SMk "WithDispatch"])
  ; ("futures::WithCollector::with_current_collector", [SWithDefault [SMk "WithDispatch"]])
  ; ("futures::Instrumented::poll", [SGuard "Span::enter"; SBody])
  ; ("futures::Instrumented::drop", [SGuard "Span::enter"; SBody])
  ; ("futures::Instrumented::into_inner", [SForgetSelf; SOwnSpan])
  ; ("futures::Instrumented::span", [])
  ; ("futures::Instrumented::span_mut", [])
  ; ("futures::Instrumented::inner", [])
  ; ("futures::Instrumented::inner_mut", [])
  ; ("futures::Instrumented::inner_pin_ref", [])
  ; ("futures::Instrumented::inner_pin_mut", [])
  ; ("futures::Instrumented::dropglue", [SInvoke "futures::Instrumented::drop"; SDropSpan])
  ; ("futures::Instrumented::clone", [SBody; SInvoke "Span::clone"])
  ; ("futures::WithDispatch::poll", [SSetDefault; SBody])
  ; ("futures::WithDispatch::inner", [])
  ; ("futures::WithDispatch::inner_mut", [])
  ; ("futures::WithDispatch::inner_pin_ref", [])
  ; ("futures::WithDispatch::inner_pin_mut", [])
  ; ("futures::WithDispatch::into_inner", [])
  ; ("futures::WithDispatch::dispatch", [])
  ; ("futures::Instrumented::impls", [SAttrs "Clone"; SAttrs "Debug"; SAttrs "Future"; SAttrs "PinnedDrop"])
  ; ("futures::WithDispatch::impls", [SAttrs "Clone"; SAttrs "Debug"; SAttrs "Future"])
  ; ("futures::WithDispatch::dropglue", [SBody])
  ; ("futures::WithDispatch::clone", [SBody])
  (* the way from a handle's Dispatch to its collector: Dispatch::m, and the Box<C> / Arc<C> impls of Collect a collector may
     sit behind, hand the call with its arguments to the same method of the collector (the model has no wrapper at all) *)
  ; ("Dispatch::new_span", [SInvoke "Collect::new_span"])
  ; ("Dispatch::record", [SInvoke "Collect::record"])
  ; ("Dispatch::record_follows_from", [SInvoke "Collect::record_follows_from"])
  ; ("Dispatch::enter", [SInvoke "Collect::enter"])
  ; ("Dispatch::exit", [SInvoke "Collect::exit"])
  ; ("Dispatch::clone_span", [SInvoke "Collect::clone_span"])
  ; ("Dispatch::try_close", [SInvoke "Collect::try_close"])
  ; ("Dispatch::current_span", [SInvoke "Collect::current_span"])
  ; ("Box<C>::new_span", [SInvoke "Collect::new_span"])
  ; ("Box<C>::record", [SInvoke "Collect::record"])
  ; ("Box<C>::record_follows_from", [SInvoke "Collect::record_follows_from"])
  ; ("Box<C>::enter", [SInvoke "Collect::enter"])
  ; ("Box<C>::exit", [SInvoke "Collect::exit"])
  ; ("Box<C>::clone_span", [SInvoke "Collect::clone_span"])
  ; ("Box<C>::try_close", [SInvoke "Collect::try_close"])
  ; ("Box<C>::current_span", [SInvoke "Collect::current_span"])
  ; ("Arc<C>::new_span", [SInvoke "Collect::new_span"])
  ; ("Arc<C>::record", [SInvoke "Collect::record"])
  ; ("Arc<C>::record_follows_from", [SInvoke "Collect::record_follows_from"])
  ; ("Arc<C>::enter", [SInvoke "Collect::enter"])
  ; ("Arc<C>::exit", [SInvoke "Collect::exit"])
  ; ("Arc<C>::clone_span", [SInvoke "Collect::clone_span"])
  ; ("Arc<C>::try_close", [SInvoke "Collect::try_close"])
  ; ("Arc<C>::current_span", [SInvoke "Collect::current_span"]) ].

(** * Flattening: a method's own-collector calls and foreign code in execution order, RAII drops at the end of scope *)
Inductive prim :=
| POwn (k : ccall)     (* call k at the handle's own collector about its own id; nothing if the handle has no inner *)
| PBody                (* foreign code *)
| PPushDef | PPopDef   (* WithDispatch: set_default(&self.dispatch) .. the DefaultGuard's drop *)
| PBad.                (* no meaning here (calls on the default dispatcher: see [ctor]; unrecognised statements) *)
(** the flag: the step is the drop of an RAII value, so it also runs when foreign code earlier in the function unwinds *)
Definition fprim := (prim * bool)%type.
Record fenv := mkFenv { from_some : bool (* follows_from: the argument converts to Some(id) *);
                        field_some : bool (* record: the span's metadata has the field *) }.

Definition ret_ty (row : list sev) : option string :=
  fold_right (fun e acc => match e with SMk ty => Some ty | _ => acc end) None row.

Fixpoint flat (fuel : nat) (tbl : table) (env : fenv) (raii : bool) (evs : list sev) {struct fuel}
  : list fprim * list fprim (* now, deferred to the end of the enclosing function (innermost first) *) :=
  match fuel with
  | O => ([(PBad, raii)], [])
  | S fuel' =>
      let call (m : string) (r : bool) : list fprim :=
        match lookup_row tbl m with
        | Some row => let (a, b) := flat fuel' tbl env r row in a ++ b
        | None => [(PBad, r)]
        end in
      let glue_of (m : string) : list fprim :=
        match lookup_row tbl m with
        | Some row => match ret_ty row with Some ty => call (ty ++ "::dropglue")%string true | None => [(PBad, true)] end
        | None => [(PBad, true)]
        end in
      let block (b : list sev) : list fprim * list fprim := let (x, y) := flat fuel' tbl env raii b in (x ++ y, []) in
      (fix go (l : list sev) : list fprim * list fprim :=
         match l with
         | [] => ([], [])
         | e :: l' =>
             let '(now, later) :=
               match e with
               | SCall TOwn k => ([(POwn k, raii)], [])
               | SIfInner b => block b
               | SIfFrom b => if from_some env then block b else ([], [])
               | SIfField b => if field_some env then block b else ([], [])
               | SInvoke m => (call m raii, [])
               | SGuard m => (call m raii, glue_of m)
               | STemp m => (call m raii ++ glue_of m, [])
               | SBody => ([(PBody, raii)], [])
               | SSetDefault => ([(PPushDef, raii)], [(PPopDef, true)])
               | SOwnSpan => ([], call "Span::dropglue" true)
               | SDropSpan => (call "Span::dropglue" true, [])
               | SMk _ | SMkNone | STakeSpan | SForgetSelf | SAttrs _ => ([], [])
               | _ => ([(PBad, raii)], [])
               end in
             let '(now', later') := go l' in
             (now ++ now', later' ++ later)
         end) evs
  end.

Definition FUEL : nat := 16.
Definition flat_fn (tbl : table) (env : fenv) (m : string) : option (list fprim) :=
  match lookup_row tbl m with
  | Some row => let (a, b) := flat FUEL tbl env false row in Some (a ++ b)
  | None => None
  end.

Fixpoint pre_body (l : list fprim) : list fprim :=
  match l with [] => [] | (PBody, r) :: _ => [(PBody, r)] | x :: l' => x :: pre_body l' end.
Fixpoint post_body (l : list fprim) : list fprim :=
  match l with [] => [] | (PBody, _) :: l' => l' | _ :: l' => post_body l' end.
(** what still runs when the foreign code returns (all of it) or unwinds (the RAII drops only) *)
Definition on_exit (unwind : bool) (l : list fprim) : list fprim := filter (fun p => negb unwind || snd p) l.
(** the foreign code of [outer] is the method [inner] *)
Fixpoint subst_body (outer inner : list fprim) : list fprim :=
  match outer with [] => [] | (PBody, _) :: o' => inner ++ o' | x :: o' => x :: subst_body o' inner end.

Definition obind {A B} (x : option A) (f : A -> option B) : option B := match x with Some a => f a | None => None end.
Definition osubst (outer inner : option (list fprim)) : option (list fprim) :=
  obind outer (fun o => obind inner (fun i => Some (subst_body o i))).

(** * From flattened rows to micro-actions *)
Record pctx := mkPctx { p_ent : ent; p_name : name; p_tid : tid; p_aux : name; p_body : list micro }.
Definition pm (c : pctx) (p : fprim) : option (list micro) :=
  match fst p with
  | POwn KEnter => Some [MEnterE (p_ent c)]
  | POwn KExit => Some [MExitE (p_ent c)]
  | POwn KTryClose => Some [MRelease (p_name c) (p_tid c)]
  | POwn KRecord => Some [MRecord (p_name c) (p_tid c)]
  | POwn KFollows => Some [MFollows (p_name c) (p_aux c) (p_tid c)]
  | POwn KCloneSpan => Some [MCloneTo (p_name c) (p_aux c) (p_tid c)]
  | PBody => Some (p_body c)
  | PPushDef => Some [MPushDisp (p_tid c) (p_name c)]
  | PPopDef => Some [MPopDefault (p_tid c)]
  | _ => None
  end.
Fixpoint pms (c : pctx) (l : list fprim) : option (list micro) :=
  match l with
  | [] => Some []
  | p :: l' => match pm c p, pms c l' with Some a, Some b => Some (a ++ b) | _, _ => None end
  end.
Definition opms (c : pctx) (l : option (list fprim)) : option (list micro) := obind l (pms c).
Definition oapp (x : option (list micro)) (y : list micro) : option (list micro) := obind x (fun a => Some (a ++ y)).

Definition env0 : fenv := mkFenv true true.

(** the three shapes of an instrumented future: what polling / dropping / cloning it does *)
Definition fut_shape (tbl : table) (k : hkind) (what : string) : option (list fprim) :=
  let i := flat_fn tbl env0 ("Instrumented::" ++ what)%string in
  let w := flat_fn tbl env0 ("WithDispatch::" ++ what)%string in
  match k with
  | KHandle => None
  | KFut => i
  | KFutW false => osubst w i
  | KFutW true => osubst i w
  end.

Definition is_unwind (r : pollres) : bool := match r with Panicked => true | _ => false end.
Definition query_row (q : N) : string :=
  match q with 0%N => "Span::is_none" | 1%N => "Span::is_disabled" | 2%N => "Span::id" | _ => "Span::metadata" end.
Definition inner_row (k : N) : string :=
  match k with 0%N => "Instrumented::inner" | 1%N => "Instrumented::inner_mut" | 2%N => "Instrumented::inner_pin_ref"
  | _ => "Instrumented::inner_pin_mut" end.
Definition captures_default (tbl : table) : bool :=
  match lookup_row tbl "WithCollector::with_current_collector" with
  | Some r => row_eqb r [SWithDefault [SMk "WithDispatch"]]
  | None => false
  end.
Fixpoint oconcat (l : list (option (list micro))) : option (list micro) :=
  match l with [] => Some [] | x :: l' => match x, oconcat l' with Some a, Some b => Some (a ++ b) | _, _ => None end end.

(** dropping holder n on thread t, from the drop-glue rows *)
Definition emit_drop (tbl : table) (o : own) (t : tid) (n : name) : option (list micro) :=
  let fl := flat_fn tbl env0 in
  let cx (e : ent) (body : list micro) := mkPctx e n t 0%N body in
  match kind_of o n, ents_on o n with
  | Some KHandle, [] => opms (cx (mkEnt EOwned n t) []) (fl "Span::dropglue")
  | Some KHandle, [e] => opms (cx e []) (fl "EnteredSpan::dropglue")
  | Some k, _ => opms (cx (mkEnt ETmp n t) [MMark t (MInnerDrop n)]) (fut_shape tbl k "dropglue")
  | None, _ => None
  end.
Fixpoint emit_drops (tbl : table) (o : own) (t : tid) (ls : list name) : option (list micro * own) :=
  match ls with
  | [] => Some ([], o)
  | n :: ls' =>
      match emit_drop tbl o t n with
      | Some ms =>
          match oexec ms o with
          | Some o1 => match emit_drops tbl o1 t ls' with Some (ms', o2) => Some (ms ++ ms', o2) | None => None end
          | None => None
          end
      | None => None
      end
  end.

(** The micro-actions of an action, computed from the table.  The ownership side conditions are [compile]'s business
    (they are rustc's rules, not read off these method bodies); the ent a guard drop / frame end refers to is looked up in
    the ownership state exactly as [compile] does. *)
Definition emit_tbl (tbl : table) (o : own) (t : tid) (a : action) : option (list micro) :=
  let fl := flat_fn tbl env0 in
  let cx (e : ent) (n aux : name) (body : list micro) := mkPctx e n t aux body in
  let plain (n : name) := cx (mkEnt EOwned n t) n 0%N [] in
  match a with
  | New n h p => Some [MNewSpan n t h p]          (* constructors: [ctor] gives their meaning *)
  | Current n => Some [MCurrentTo n t]
  | OrCurrent n => Some [MOrCurrent n t]
  | Clone r n => opms (cx (mkEnt EOwned r t) r n []) (fl "Span::clone")
  | Drop n | PDrop n => emit_drop tbl o t n
  | Enter r g => opms (cx (mkEnt (EGuard g) r t) r 0%N []) (fl "Span::enter")
  | DropGuard g => obind (find_guard o g) (fun e => opms (cx e (e_holder e) 0%N []) (fl "Entered::dropglue"))
  | Entered n => opms (cx (mkEnt EOwned n t) n 0%N []) (fl "Span::entered")
  | ExitOwned n => match ents_on o n with [e] => opms (cx e n 0%N []) (fl "EnteredSpan::exit") | _ => None end
  | ScopeBegin r => opms (cx (mkEnt EScope r t) r 0%N []) (option_map pre_body (fl "Span::in_scope"))
  | ScopeEnd unwind =>
      obind (top_frame o t) (fun e =>
        opms (cx e (e_holder e) 0%N []) (option_map (fun l => on_exit unwind (post_body l)) (fl "Span::in_scope")))
  | Record r ks =>
      oconcat (map (fun k => opms (plain r) (flat_fn tbl (mkFenv true k) "Span::record")) ks)
  | FollowsFrom r src =>
      match src with
      | FSpan r' | FId r' => opms (cx (mkEnt EOwned r t) r r' []) (flat_fn tbl (mkFenv true true) "Span::follows_from")
      | FNone => opms (plain r) (flat_fn tbl (mkFenv false true) "Span::follows_from")
      end
  | Query r q => opms (plain r) (fl (query_row q))
  | Instrument n _ w =>
      oapp (opms (plain n) (fl "Instrument::instrument"))
           match w with
           | WNone => [MSetKind n KFut]
           | WWith c => [MSetKind n (KFutW true); MSetDisp n t (Some c)]
           | WCurrent => [MSetKind n (KFutW true); MSetDisp n t None]
           end
  | WithCollector f c =>
      match c with
      | Some _ => oapp (opms (plain f) (fl "WithCollector::with_collector")) [MSetKind f (KFutW false); MSetDisp f t c]
      | None => if captures_default tbl then Some [MSetKind f (KFutW false); MSetDisp f t None] else None
      end
  | PollBegin f =>
      obind (kind_of o f) (fun k =>
        opms (cx (mkEnt EPoll f t) f 0%N [MMark t (MBody f)]) (option_map pre_body (fut_shape tbl k "poll")))
  | PollEnd res =>
      obind (top_frame o t) (fun e => obind (kind_of o (e_holder e)) (fun k =>
        opms (cx e (e_holder e) 0%N []) (option_map (fun l => on_exit (is_unwind res) (post_body l)) (fut_shape tbl k "poll"))))
  | IntoInner f => oapp (opms (plain f) (fl "Instrumented::into_inner")) [MMark t (MInnerDrop f)]
  | InnerAccess f k => oapp (opms (plain f) (fl (inner_row k))) [MMark t (MInnerTouch f)]
  | SpanMutSwap f n => oapp (opms (plain f) (fl "Instrumented::span_mut")) [MSwap f n]
  | CloneFut f n =>
      obind (kind_of o f) (fun k =>
        oapp (opms (cx (mkEnt EOwned f t) f n []) (fut_shape tbl k "clone")) [MSetKind n k; MCopyDisp f n])
  | CloneDrop r n =>
      (* `.clone()` written on the holder itself: on an EnteredSpan guard the row says what that resolves to *)
      let row := match ents_on o r with
                 | [e] => match e_kind e with EOwned => "EnteredSpan::clone" | _ => "Span::clone" end
                 | _ => "Span::clone"
                 end in
      oconcat [opms (cx (mkEnt EOwned r t) r n []) (fl row); opms (plain n) (fl "Span::dropglue")]
  | CloneFrom a b n =>
      match fl "Span::clone_from" with
      | Some [(POwn KCloneSpan, _); (POwn KTryClose, _)] =>   (* the clone of the source is made, then the old value dropped *)
          Some [MCloneTo b n t; MSwap a n; MRelease n t]
      | _ => None
      end
  | ScopeEndL unwind ls =>
      (* the closure's locals are dropped, then what is left of in_scope runs *)
      obind (emit_drops tbl o t ls) (fun mo' =>
        obind (top_frame (snd mo') t) (fun e =>
          obind (opms (cx e (e_holder e) 0%N []) (option_map (fun l => on_exit unwind (post_body l)) (fl "Span::in_scope")))
                (fun a => Some (fst mo' ++ a))))
  | PollEndL res ls =>
      obind (emit_drops tbl o t ls) (fun mo' =>
        obind (top_frame (snd mo') t) (fun e => obind (kind_of (snd mo') (e_holder e)) (fun k =>
          obind (opms (cx e (e_holder e) 0%N [])
                      (option_map (fun l => on_exit (is_unwind res) (post_body l)) (fut_shape tbl k "poll")))
                (fun a => Some (fst mo' ++ a)))))
  | InstrumentCurrent n _ =>
      match lookup_row tbl "Instrument::in_current_span" with
      | Some r =>
          if row_eqb r [SInvoke "Span::current"; SInvoke "Instrument::instrument"]
          then obind (opms (plain n) (fl "Instrument::instrument")) (fun a => Some (MCurrentTo n t :: a ++ [MSetKind n KFut]))
          else None
      | None => None
      end
  | SetDefault c => Some [MPushDefault t c]
  | CloseScope => Some [MPopDefault t]
  end.

(** * What the own-collector micro-actions mean *)
Definition own_sem (k : ccall) (v : sval) (t : tid) (aux : option sid) (d : dyn) : dyn :=
  match v with
  | SSpan i c =>
      match k with
      | KEnter => emit d (ECall c t (CEnter i))
      | KExit => emit d (ECall c t (CExit i))
      | KTryClose => note_dropped (emit d (ECall c t (CClose i))) (i, c)
      | KRecord => emit d (ECall c t (CRecord i))
      | KFollows => match aux with Some j => emit d (ECall c t (CFollows i j)) | None => d end
      | KCloneSpan => note_made (emit d (ECall c t (CClone i))) (i, c)
      | _ => d
      end
  | _ => d
  end.

(** * The constructors: calls on the default dispatcher *)
Record cst := mkCst { c_d : dyn; c_reg : option sid; c_po : pobs; c_res : option sval }.

Fixpoint ctor (fuel : nat) (tbl : table) (c : cid) (t : tid) (parg : option sid) (enabled : bool) (selfv : sval)
              (evs : list sev) (st : cst) {struct fuel} : cst :=
  match fuel with
  | O => st
  | S fuel' =>
      let rec := ctor fuel' tbl c t parg enabled selfv in
      (fix go (l : list sev) (st : cst) : cst :=
         match l with
         | [] => st
         | e :: l' =>
             let st' :=
               match e with
               | SWithDefault b => rec b st
               | SIfEnabled th el => if enabled then rec th st else rec el st
               | SIfDisabled b => match selfv with SNone => rec b st | _ => st end
               | SInvoke m => match lookup_row tbl m with Some row => rec row st | None => st end
               | SAttrs k =>
                   let po := if String.eqb k "contextual" then OCtx
                             else if String.eqb k "root" then ORoot
                             else match parg with Some j => OExp j | None => ORoot end in
                   mkCst (c_d st) (c_reg st) po (c_res st)
               | SCall TDefault KNewSpan =>
                   if (c =? 0)%N then mkCst (c_d st) (Some NOCOLL_ID) (c_po st) (c_res st)
                   else
                     let d := c_d st in
                     let i := d_next d in
                     let d1 := emit d (ECall c t (CNew i (c_po st))) in
                     mkCst (mkDyn (d_vals d1) (d_defaults d1) (i + 1)%N (d_log d1) ((i, c) :: d_made d1) (d_dropped d1) (d_disp d1) (d_hid d1) (d_hlog d1))
                           (Some i) (c_po st) (c_res st)
               | SIfCurrent th el =>
                   match (if (c =? 0)%N then None else hd_error (stack_of (d_log (c_d st)) c t)) with
                   | Some i => rec th (mkCst (c_d st) (Some i) (c_po st) (c_res st))
                   | None => rec el st
                   end
               | SCall TDefault KCloneSpan =>
                   match c_reg st with
                   | Some i => mkCst (note_made (emit (c_d st) (ECall c t (CClone i))) (i, c)) (c_reg st) (c_po st) (c_res st)
                   | None => st
                   end
               | SMkSpan TDefault =>
                   match c_reg st with
                   | Some i => mkCst (c_d st) (c_reg st) (c_po st) (Some (if (c =? 0)%N then SNoColl else SSpan i c))
                   | None => st
                   end
               | SMkNone => mkCst (c_d st) (c_reg st) (c_po st) (Some SNone)
               | _ => st
               end in
             go l' st'
         end) evs st
  end.

(** run the row [entry]; the value it returns goes into holder [n] (no value: `self` is handed back unchanged) *)
Definition ctor_run (tbl : table) (entry : string) (d : dyn) (n : name) (t : tid) (parg : option sid) (enabled : bool)
                    (selfv : sval) : dyn :=
  let st := ctor FUEL tbl (cur_default d t) t parg enabled selfv [SInvoke entry] (mkCst d None ORoot None) in
  match c_res st with Some v => set_val (c_d st) n v | None => c_d st end.

Definition wrappers : list string := ["Dispatch"; "Box<C>"; "Arc<C>"].
Definition forwarded : list string :=
  ["new_span"; "record"; "record_follows_from"; "enter"; "exit"; "clone_span"; "try_close"; "current_span"].
Definition fwd_key (w m : string) : string := (w ++ "::" ++ m)%string.
Definition fwd_row (m : string) : list sev := [SInvoke ("Collect::" ++ m)%string].
Definition row_current : string := "Span::current".
Definition row_or_current : string := "Span::or_current".

(** which row creates a span: the macro arm / associated function the harness uses for each (how, parent) *)
Definition new_entry (h : how) (p : parent) : string :=
  match h, p with
  | ViaMacro _, PCtx => "span!(ctx)"
  | ViaMacro _, _ => "span!(parent)"          (* parent: None / parent: &span / parent: span.id() *)
  | Direct, PRoot => "Span::new_root"
  | Direct, PCtx => "Span::new"
  | Direct, _ => "Span::child_of"
  end.
Definition new_parg (d : dyn) (p : parent) : option sid :=
  match parent_ref p with Some r => id_of_val (val_of d r) | None => None end.
Definition new_enabled (d : dyn) (t : tid) (h : how) : bool :=
  match h with ViaMacro en => en && negb (cur_default d t =? 0)%N | Direct => true end.
