(** SpanApi/Spec.v — the vocabulary the C03 theorems are stated in (definitions only, no proofs).

    Logs are stored NEWEST FIRST in the model; [trace] is the chronological list.  Counting functions do not depend on
    the order; [depth] and [log_ok] recurse from the oldest entry (the tail) to the newest (the head). *)
From Coq Require Import List NArith Bool.
From TV Require Import SpanApi.Model.
Import ListNotations.
Local Open Scope N_scope.

Definition key_eqb (a b : key) : bool := (fst a =? fst b) && (snd a =? snd b).

Inductive ctag := TNew | TClone | TClose | TEnter | TExit | TRecord | TFollows.
Definition tag_of (k : call) : ctag :=
  match k with
  | CNew _ _ => TNew | CClone _ => TClone | CClose _ => TClose | CEnter _ => TEnter | CExit _ => TExit
  | CRecord _ => TRecord | CFollows _ _ => TFollows
  end.
Definition ctag_eqb (a b : ctag) : bool :=
  match a, b with
  | TNew, TNew | TClone, TClone | TClose, TClose | TEnter, TEnter | TExit, TExit | TRecord, TRecord
  | TFollows, TFollows => true
  | _, _ => false
  end.

(** entry [e] is a call of kind [g] about span [v] = (id, collector that RECEIVED the call) *)
Definition is_call (g : ctag) (v : key) (e : entry) : bool :=
  match e with
  | ECall c _ k => ctag_eqb (tag_of k) g && key_eqb (subject k, c) v
  | EMark _ _ => false
  end.
Definition cnt (g : ctag) (v : key) (l : list entry) : nat := length (filter (is_call g v) l).

(** ... made on thread [t] *)
Definition is_at (g : ctag) (v : key) (t : tid) (e : entry) : bool :=
  match e with
  | ECall c t' k => ctag_eqb (tag_of k) g && key_eqb (subject k, c) v && (t' =? t)
  | EMark _ _ => false
  end.
Definition cnt_at (g : ctag) (v : key) (t : tid) (l : list entry) : nat := length (filter (is_at g v t) l).

(** number of new_span calls, at ANY collector, that returned id [i] *)
Definition is_new_id (i : sid) (e : entry) : bool :=
  match e with ECall _ _ (CNew j _) => j =? i | _ => false end.
Definition news_id (i : sid) (l : list entry) : nat := length (filter (is_new_id i) l).

(** Enter/exit nesting of span [v] on thread [t] (log newest first): [Some n] = the enter/exit subsequence is a Dyck
    prefix (no exit ever arrived at depth 0) and [n] enters are currently unmatched; [None] = some exit was unmatched. *)
Fixpoint depth (l : list entry) (v : key) (t : tid) : option nat :=
  match l with
  | [] => Some 0%nat
  | e :: l' =>
      match depth l' v t with
      | None => None
      | Some n =>
          if is_at TEnter v t e then Some (S n)
          else if is_at TExit v t e then match n with O => None | S m => Some m end
          else Some n
      end
  end.

(** What must hold of an entry given everything logged before it:
    - new_span returns an id nobody has issued before;
    - any other call about (i, c) arrives at the collector c that issued i, and while not all of the span's handles
      have been closed (#try_close < 1 + #clone_span). *)
Definition entry_ok (older : list entry) (e : entry) : Prop :=
  match e with
  | EMark _ _ => True
  | ECall c t k =>
      match k with
      | CNew i _ => news_id i older = 0%nat
      | _ => cnt TNew (subject k, c) older = 1%nat /\
             (cnt TClose (subject k, c) older < 1 + cnt TClone (subject k, c) older)%nat
      end
  end.
Fixpoint log_ok (l : list entry) : Prop :=
  match l with [] => True | e :: older => entry_ok older e /\ log_ok older end.

(** * Counting live handles and live guards in a state *)
Definition sval_is (v : key) (s : sval) : bool := match s with SSpan i c => key_eqb (i, c) v | _ => false end.
Definition vlook (vals : list (name * sval)) (n : name) : sval :=
  match lookup vals n with Some v => v | None => SNone end.
Definition hcnt (hs : list (name * hkind)) (vals : list (name * sval)) (v : key) : nat :=
  length (filter (fun x => sval_is v (vlook vals (fst x))) hs).
Definition ecnt (es : list ent) (vals : list (name * sval)) (v : key) (t : tid) : nat :=
  length (filter (fun e => (e_tid e =? t) && sval_is v (vlook vals (e_holder e))) es).
(** live values holding span v: plain handles, EnteredSpans and Instrumented futures *)
Definition live_handles (s : state) (v : key) : nat := hcnt (o_holders (fst s)) (d_vals (snd s)) v.
(** things holding span v entered on thread t: Entered guards, EnteredSpans, running in_scope / poll / PinnedDrop *)
Definition live_guards (s : state) (v : key) (t : tid) : nat := ecnt (o_ents (fst s)) (d_vals (snd s)) v t.
Definition count_key (v : key) (l : list key) : nat := length (filter (key_eqb v) l).

(** * Per-op emissions *)
Definition enter_entries (v : sval) (t : tid) : list entry :=
  match v with SSpan i c => [ECall c t (CEnter i)] | _ => [] end.
Definition exit_entries (v : sval) (t : tid) : list entry :=
  match v with SSpan i c => [ECall c t (CExit i)] | _ => [] end.
Definition close_entries (v : sval) (t : tid) : list entry :=
  match v with SSpan i c => [ECall c t (CClose i)] | _ => [] end.
Definition is_mark (e : entry) : bool := match e with EMark _ _ => true | _ => false end.
Definition unlogged (v : sval) : bool := match v with SSpan _ _ => false | _ => true end.

(** the span(s) an action is *on* are all disabled (inner = None) or belong to no collector *)
Definition on_unlogged (s : state) (x : op) : bool :=
  let o := fst s in
  let d := snd s in
  match snd x with
  | Clone r _ | Enter r _ | ScopeBegin r | Record r _ | FollowsFrom r _ | Drop r | Entered r | ExitOwned r
  | Instrument r _ _ | PollBegin r | IntoInner r | Query r _ | WithCollector r _ | InnerAccess r _ | CloneFut r _ =>
      unlogged (val_of d r)
  | CloneDrop r _ | PDrop r => unlogged (val_of d r)
  | ScopeEndL _ ls | PollEndL _ ls =>
      match drops o (fst x) ls with
      | Some (_, o') => match top_frame o' (fst x) with Some e => unlogged (val_of d (e_holder e)) | None => false end
      | None => false
      end && forallb (fun n => unlogged (val_of d n)) ls
  | SpanMutSwap f n | CloneFrom f n _ => unlogged (val_of d f) && unlogged (val_of d n)
  | DropGuard g => match find_guard o g with Some e => unlogged (val_of d (e_holder e)) | None => false end
  | ScopeEnd _ | PollEnd _ =>
      match top_frame o (fst x) with Some e => unlogged (val_of d (e_holder e)) | None => false end
  | New _ _ _ | Current _ | OrCurrent _ | InstrumentCurrent _ _ | SetDefault _ | CloseScope => false
  end.
