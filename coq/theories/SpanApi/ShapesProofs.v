(** SpanApi/ShapesProofs.v — the table [model_shapes] is the one the model's micro-action compiler and its constructor
    semantics implement, and it is the table the translator reads off the Rust source. *)
From Coq Require Import List String NArith Bool.
From TV Require Import SpanApi.Model SpanApi.ShapeSyntax SpanApi.Shapes.
From TVGen Require Gen_span.
Import ListNotations.
Local Open Scope string_scope.
Local Open Scope list_scope.

(** * The generated table *)
Theorem source_shapes : Gen_span.src_shapes = model_shapes /\ Gen_span.gen_unrecognised = [].
Proof. split; vm_compute; reflexivity. Qed.

(** * Flattened rows of [model_shapes] (kernel computation) *)
Ltac comp := vm_compute; reflexivity.
Definition fl := flat_fn model_shapes env0.
Lemma fl_clone : fl "Span::clone" = Some [(POwn KCloneSpan, false)]. Proof. comp. Qed.
Lemma fl_dropglue : fl "Span::dropglue" = Some [(POwn KTryClose, false)]. Proof. comp. Qed.
Lemma fl_es_dropglue : fl "EnteredSpan::dropglue" = Some [(POwn KExit, false); (POwn KTryClose, true)]. Proof. comp. Qed.
Lemma fl_e_dropglue : fl "Entered::dropglue" = Some [(POwn KExit, false)]. Proof. comp. Qed.
Lemma fl_enter : fl "Span::enter" = Some [(POwn KEnter, false)]. Proof. comp. Qed.
Lemma fl_entered : fl "Span::entered" = Some [(POwn KEnter, false)]. Proof. comp. Qed.
Lemma fl_exit : fl "EnteredSpan::exit" = Some [(POwn KExit, false)]. Proof. comp. Qed.
Lemma fl_in_scope : fl "Span::in_scope" = Some [(POwn KEnter, false); (PBody, false); (POwn KExit, true)]. Proof. comp. Qed.
Lemma fl_record : forall k, flat_fn model_shapes (mkFenv true k) "Span::record" = Some (if k then [(POwn KRecord, false)] else []).
Proof. destruct k; comp. Qed.
Lemma fl_follows : forall k, flat_fn model_shapes (mkFenv k true) "Span::follows_from" = Some (if k then [(POwn KFollows, false)] else []).
Proof. destruct k; comp. Qed.
Lemma fl_into_inner : fl "Instrumented::into_inner" = Some [(POwn KTryClose, true)]. Proof. comp. Qed.
Lemma fl_instrument : fl "Instrument::instrument" = Some []. Proof. comp. Qed.
Lemma fl_with_collector : fl "WithCollector::with_collector" = Some []. Proof. comp. Qed.
Lemma fl_span_mut : fl "Instrumented::span_mut" = Some []. Proof. comp. Qed.
Lemma fl_query : forall q, fl (query_row q) = Some [].
Proof. intros q. unfold query_row. destruct q as [|[p|p|]]; [comp | comp | | comp]. destruct p; comp. Qed.
Lemma fl_inner : forall k, fl (inner_row k) = Some [].
Proof. intros k. unfold inner_row. destruct k as [|[p|p|]]; [comp | comp | | comp]. destruct p; comp. Qed.
Lemma captures : captures_default model_shapes = true. Proof. comp. Qed.
Lemma shape_poll : forall k, fut_shape model_shapes k "poll" =
  match k with
  | KHandle => None
  | KFut => Some [(POwn KEnter, false); (PBody, false); (POwn KExit, true)]
  | KFutW false => Some [(PPushDef, false); (POwn KEnter, false); (PBody, false); (POwn KExit, true); (PPopDef, true)]
  | KFutW true => Some [(POwn KEnter, false); (PPushDef, false); (PBody, false); (PPopDef, true); (POwn KExit, true)]
  end.
Proof. destruct k as [| |[|]]; comp. Qed.
Lemma shape_dropglue : forall k, fut_shape model_shapes k "dropglue" =
  match k with
  | KHandle => None
  | _ => Some [(POwn KEnter, false); (PBody, false); (POwn KExit, true); (POwn KTryClose, true)]
  end.
Proof. destruct k as [| |[|]]; comp. Qed.
Lemma shape_clone : forall k, fut_shape model_shapes k "clone" =
  match k with KHandle => None | _ => Some [(PBody, false); (POwn KCloneSpan, false)] end.
Proof. destruct k as [| |[|]]; comp. Qed.

(** the tracing-futures rows flatten to the same steps as the tracing rows (the model has one flavour) *)
Lemma futures_same :
  forall m, In m ["Instrumented::poll"; "Instrumented::dropglue"; "Instrumented::into_inner"; "Instrumented::clone";
                  "Instrumented::span_mut"; "Instrumented::inner"; "Instrumented::inner_mut"; "Instrumented::inner_pin_ref";
                  "Instrumented::inner_pin_mut"; "Instrument::instrument"; "WithDispatch::poll"; "WithDispatch::dropglue";
                  "WithDispatch::clone"; "WithDispatch::into_inner"; "WithCollector::with_collector"] ->
  fl ("futures::" ++ m)%string = fl m /\ fl m <> None.
Proof.
  intros m H. simpl in H.
  repeat (destruct H as [<-|H]; [split; [comp | vm_compute; discriminate]|]). contradiction.
Qed.
Lemma futures_captures :
  lookup_row model_shapes "futures::WithCollector::with_current_collector" = lookup_row model_shapes "WithCollector::with_current_collector".
Proof. comp. Qed.
