(** SpanApi/ShapesProofs.v — the table [model_shapes] is the one the model's micro-action compiler and its constructor
    semantics implement, and it is the table the translator reads off the Rust source. *)
From Coq Require Import List String NArith Bool.
From TV Require Import SpanApi.Model SpanApi.ShapeSyntax SpanApi.Shapes.
From TVGen Require Gen_span.
Import ListNotations.
Local Open Scope string_scope.
Local Open Scope list_scope.

(** * The generated table *)
Theorem source_shapes : Gen_span.src_shapes = model_shapes /\ Gen_span.gen_unrecognised = [].
Proof. split; vm_compute; reflexivity. Qed.

(** * Flattened rows of [model_shapes] (kernel computation) *)
Ltac comp := vm_compute; reflexivity.
Notation fl := (flat_fn model_shapes env0).
Lemma fl_clone : fl "Span::clone" = Some [(POwn KCloneSpan, false)]. Proof. comp. Qed.
Lemma fl_es_clone : fl "EnteredSpan::clone" = Some [(POwn KCloneSpan, false)]. Proof. comp. Qed.
Lemma fl_clone_from : fl "Span::clone_from" = Some [(POwn KCloneSpan, false); (POwn KTryClose, true)]. Proof. comp. Qed.
Lemma fl_dropglue : fl "Span::dropglue" = Some [(POwn KTryClose, false)]. Proof. comp. Qed.
Lemma fl_es_dropglue : fl "EnteredSpan::dropglue" = Some [(POwn KExit, false); (POwn KTryClose, true)]. Proof. comp. Qed.
Lemma fl_e_dropglue : fl "Entered::dropglue" = Some [(POwn KExit, false)]. Proof. comp. Qed.
Lemma fl_enter : fl "Span::enter" = Some [(POwn KEnter, false)]. Proof. comp. Qed.
Lemma fl_entered : fl "Span::entered" = Some [(POwn KEnter, false)]. Proof. comp. Qed.
Lemma fl_exit : fl "EnteredSpan::exit" = Some [(POwn KExit, false)]. Proof. comp. Qed.
Lemma fl_in_scope : fl "Span::in_scope" = Some [(POwn KEnter, false); (PBody, false); (POwn KExit, true)]. Proof. comp. Qed.
Lemma fl_record : forall k, flat_fn model_shapes (mkFenv true k) "Span::record" = Some (if k then [(POwn KRecord, false)] else []).
Proof. destruct k; comp. Qed.
Lemma fl_follows : forall k, flat_fn model_shapes (mkFenv k true) "Span::follows_from" = Some (if k then [(POwn KFollows, false)] else []).
Proof. destruct k; comp. Qed.
Lemma fl_into_inner : fl "Instrumented::into_inner" = Some [(POwn KTryClose, true)]. Proof. comp. Qed.
Lemma fl_instrument : fl "Instrument::instrument" = Some []. Proof. comp. Qed.
Lemma fl_with_collector : fl "WithCollector::with_collector" = Some []. Proof. comp. Qed.
Lemma fl_span_mut : fl "Instrumented::span_mut" = Some []. Proof. comp. Qed.
Lemma fl_query : forall q, fl (query_row q) = Some [].
Proof. intros q. unfold query_row. destruct q as [|[p|p|]]; [comp | comp | | comp]. destruct p; comp. Qed.
Lemma fl_inner : forall k, fl (inner_row k) = Some [].
Proof. intros k. unfold inner_row. destruct k as [|[p|p|]]; [comp | comp | | comp]. destruct p; comp. Qed.
Lemma captures : captures_default model_shapes = true. Proof. comp. Qed.
Lemma shape_poll : forall k, fut_shape model_shapes k "poll" =
  match k with
  | KHandle => None
  | KFut => Some [(POwn KEnter, false); (PBody, false); (POwn KExit, true)]
  | KFutW false => Some [(PPushDef, false); (POwn KEnter, false); (PBody, false); (POwn KExit, true); (PPopDef, true)]
  | KFutW true => Some [(POwn KEnter, false); (PPushDef, false); (PBody, false); (PPopDef, true); (POwn KExit, true)]
  end.
Proof. destruct k as [| |[|]]; comp. Qed.
Lemma shape_dropglue : forall k, fut_shape model_shapes k "dropglue" =
  match k with
  | KHandle => None
  | _ => Some [(POwn KEnter, false); (PBody, false); (POwn KExit, true); (POwn KTryClose, true)]
  end.
Proof. destruct k as [| |[|]]; comp. Qed.
Lemma shape_clone : forall k, fut_shape model_shapes k "clone" =
  match k with KHandle => None | _ => Some [(PBody, false); (POwn KCloneSpan, false)] end.
Proof. destruct k as [| |[|]]; comp. Qed.

(** the tracing-futures rows flatten to the same steps as the tracing rows (the model has one flavour) *)
Lemma futures_same :
  forall m, In m ["Instrumented::poll"; "Instrumented::dropglue"; "Instrumented::into_inner"; "Instrumented::clone";
                  "Instrumented::span_mut"; "Instrumented::inner"; "Instrumented::inner_mut"; "Instrumented::inner_pin_ref";
                  "Instrumented::inner_pin_mut"; "Instrument::instrument"; "WithDispatch::poll"; "WithDispatch::dropglue";
                  "WithDispatch::clone"; "WithDispatch::into_inner"; "WithCollector::with_collector"] ->
  fl ("futures::" ++ m)%string = fl m /\ fl m <> None.
Proof.
  intros m H. simpl in H.
  repeat (destruct H as [<-|H]; [split; [comp | vm_compute; discriminate]|]). contradiction.
Qed.
(** a collector behind Dispatch, Box<C>, Arc<C> gets every span call itself: no method falls back to a provided default *)
Lemma forwarding_transparent :
  forall w m, In w wrappers -> In m forwarded -> lookup_row model_shapes (fwd_key w m) = Some (fwd_row m).
Proof.
  intros w m Hw Hm. unfold wrappers, forwarded in *. simpl in Hw, Hm.
  repeat (destruct Hw as [<-|Hw]; [repeat (destruct Hm as [<-|Hm]; [vm_compute; reflexivity|]); contradiction|]).
  contradiction.
Qed.
Lemma futures_captures :
  lookup_row model_shapes "futures::WithCollector::with_current_collector" = lookup_row model_shapes "WithCollector::with_current_collector".
Proof. comp. Qed.

(** * The model's compiler emits what the table says *)
Lemma ents_on_one : forall o n e, ents_on o n = [e] -> e_holder e = n.
Proof.
  unfold ents_on; intros o n e H.
  assert (Hin : In e (filter (fun e => (e_holder e =? n)%N) (o_ents o))) by (rewrite H; simpl; auto).
  apply filter_In in Hin. apply N.eqb_eq; tauto.
Qed.


Local Opaque flat_fn fut_shape captures_default.
Ltac cases H := repeat match type of H with
   | context [if ?c then _ else _] => destruct c eqn:?; try discriminate H
   | context [match ?x with _ => _ end] => destruct x eqn:?; try discriminate H end.
Ltac rw := rewrite ?fl_clone, ?fl_dropglue, ?fl_es_dropglue, ?fl_e_dropglue, ?fl_enter, ?fl_entered, ?fl_exit, ?fl_in_scope,
                   ?fl_into_inner, ?fl_instrument, ?fl_with_collector, ?fl_span_mut, ?captures,
                   ?shape_poll, ?shape_dropglue, ?shape_clone.
Ltac fin H := inversion H; subst; clear H; rw; reflexivity.

Lemma record_chain : forall r t ks,
  oconcat (map (fun k : bool => opms (mkPctx (mkEnt EOwned r t) r t 0%N [])
                                  (flat_fn model_shapes (mkFenv true k) "Span::record")) ks)
  = Some (map (fun _ => MRecord r t) (filter (fun b => b) ks)).
Proof.
  induction ks as [|k ks IH]; [reflexivity|]. cbn [map oconcat]. rewrite IH, fl_record. destruct k; reflexivity.
Qed.

Lemma in_current_row : lookup_row model_shapes "Instrument::in_current_span" = Some [SInvoke "Span::current"; SInvoke "Instrument::instrument"].
Proof. vm_compute. reflexivity. Qed.

Lemma drop_from_shapes : forall o t n ms, drop_micros o t n = Some ms -> emit_drop model_shapes o t n = Some ms.
Proof.
  intros o t n ms H. unfold drop_micros in H. unfold emit_drop. cbv beta iota zeta.
  abstract (cases H; fin H).
Qed.
Lemma drops_from_shapes : forall ls o t r, drops o t ls = Some r -> emit_drops model_shapes o t ls = Some r.
Proof.
  induction ls as [|n ls]; intros o t r H; simpl in H |- *; [exact H|].
  destruct (drop_micros o t n) as [ms|] eqn:E; [|discriminate]. rewrite (drop_from_shapes _ _ _ _ E).
  destruct (oexec ms o) as [o1|]; [|discriminate]. destruct (drops o1 t ls) as [[ms' o2]|] eqn:E2; [|discriminate].
  rewrite (IHls _ _ _ E2). exact H.
Qed.

Theorem compile_from_shapes : forall o t a ms, compile o t a = Some ms -> emit_tbl model_shapes o t a = Some ms.
Proof.
  intros o t a ms H. destruct a; cbn [compile] in H; unfold emit_tbl; cbv beta iota zeta.
  - (* New *) abstract (cases H; fin H).
  - (* Clone *) abstract (cases H; fin H).
  - (* Current *) abstract (cases H; fin H).
  - (* OrCurrent *) abstract (cases H; fin H).
  - (* Drop *) apply drop_from_shapes; exact H.
  - (* Enter *) abstract (cases H; fin H).
  - (* DropGuard *) abstract (cases H; fin H).
  - (* Entered *) abstract (cases H; fin H).
  - (* ExitOwned *) abstract (cases H; fin H).
  - (* ScopeBegin *) abstract (cases H; fin H).
  - (* ScopeEnd *) abstract (cases H; inversion H; subst; clear H; rewrite fl_in_scope; destruct unwind; reflexivity).
  - (* Record *) abstract (cases H; inversion H; subst; clear H; apply record_chain).
  - (* FollowsFrom *) abstract (cases H; inversion H; subst; clear H; rewrite fl_follows; reflexivity).
  - (* Query *) abstract (cases H; inversion H; subst; clear H; rewrite fl_query; reflexivity).
  - (* Instrument *) abstract (cases H; fin H).
  - (* WithCollector *) abstract (destruct c; cases H; fin H).
  - (* InnerAccess *) abstract (cases H; inversion H; subst; clear H; rewrite fl_inner; reflexivity).
  - (* SpanMutSwap *) abstract (cases H; fin H).
  - (* CloneFut *) abstract (destruct (kind_of o f) as [[| |b]|]; try discriminate H; cases H; inversion H; subst; clear H;
      cbn [obind]; rewrite shape_clone; reflexivity).
  - (* CloneDrop *) abstract (cases H; inversion H; subst; clear H;
      destruct (ents_on o r) as [|e [|e' l]]; try destruct (e_kind e); rewrite ?fl_clone, ?fl_es_clone, fl_dropglue; reflexivity).
  - (* CloneFrom *) abstract (cases H; inversion H; subst; clear H; rewrite fl_clone_from; reflexivity).
  - (* PDrop *) apply drop_from_shapes; exact H.
  - (* ScopeEndL *)
    destruct (drops o t ls) as [[ms0 o']|] eqn:Ed; [|discriminate]. rewrite (drops_from_shapes _ _ _ _ Ed). cbn [obind fst snd].
    destruct (top_frame o' t) as [e|]; [|discriminate]. cbn [obind].
    abstract (cases H; inversion H; subst; clear H; rewrite fl_in_scope; destruct unwind; reflexivity).
  - (* PollEndL *)
    destruct (drops o t ls) as [[ms0 o']|] eqn:Ed; [|discriminate]. rewrite (drops_from_shapes _ _ _ _ Ed). cbn [obind fst snd].
    destruct (top_frame o' t) as [e|]; [|discriminate]. cbn [obind].
    abstract (cases H; inversion H; subst; clear H; cbn [obind]; rewrite shape_poll; destruct res; reflexivity).
  - (* InstrumentCurrent *)
    rewrite in_current_row. abstract (cases H; inversion H; subst; clear H; rewrite fl_instrument; reflexivity).
  - (* PollBegin *) abstract (cases H; fin H).
  - (* PollEnd *) abstract (destruct (top_frame o t) as [e|]; [|discriminate H]; cbn [obind];
      cases H; inversion H; subst; clear H; cbn [obind]; rewrite shape_poll; destruct res; reflexivity).
  - (* IntoInner *) abstract (cases H; fin H).
  - (* SetDefault *) abstract (cases H; fin H).
  - (* CloseScope *) abstract (cases H; fin H).
Qed.

(** * Meaning of the own-collector micro-actions *)
Theorem md_own : forall d,
  (forall e, md0 (MEnterE e) d = own_sem KEnter (val_of d (e_holder e)) (e_tid e) None d) /\
  (forall e, md0 (MExitE e) d = own_sem KExit (val_of d (e_holder e)) (e_tid e) None d) /\
  (forall n t, md0 (MRelease n t) d = own_sem KTryClose (val_of d n) t None d) /\
  (forall r t, md0 (MRecord r t) d = own_sem KRecord (val_of d r) t None d) /\
  (forall r r' t, md0 (MFollows r r' t) d = own_sem KFollows (val_of d r) t (id_of_val (val_of d r')) d) /\
  (forall r n t, md0 (MCloneTo r n t) d = set_val (own_sem KCloneSpan (val_of d r) t None d) n (val_of d r)).
Proof.
  intros d. repeat apply conj.
  - intros e. cbn [md0 own_sem]. destruct (val_of d (e_holder e)); reflexivity.
  - intros e. cbn [md0 own_sem]. destruct (val_of d (e_holder e)); reflexivity.
  - intros n t. cbn [md0 own_sem]. destruct (val_of d n); reflexivity.
  - intros r t. cbn [md0 own_sem]. destruct (val_of d r); reflexivity.
  - intros r r' t. cbn [md0 own_sem]. destruct (val_of d r); try reflexivity.
  - intros r n t. cbn [md0 own_sem]. destruct (val_of d r); reflexivity.
Qed.

(** * Meaning of the constructor micro-actions: the rows of Span::new* / child_of / span! / current / or_current *)
Theorem md_new_from_shapes : forall n t h p d,
  md0 (MNewSpan n t h p) d = ctor_run model_shapes (new_entry h p) d n t (new_parg d p) (new_enabled d t h) SNone.
Proof.
  intros n t h p d. unfold ctor_run, new_entry, new_parg, new_enabled. cbn [md0].
  destruct (cur_default d t) as [|pc]; destruct h as [[|]|]; destruct p; (vm_compute; reflexivity).
Qed.

Theorem md_current_from_shapes : forall n t d,
  md0 (MCurrentTo n t) d = ctor_run model_shapes row_current d n t None true SNone.
Proof.
  intros n t d. unfold ctor_run. cbn [md0]. unfold do_current.
  destruct (cur_default d t) as [|pc]; [vm_compute; reflexivity|].
  cbv -[stack_of d_log d_vals d_defaults d_next d_made d_dropped d_disp d_hid d_hlog].
  destruct (stack_of (d_log d) (N.pos pc) t); reflexivity.
Qed.

Theorem md_or_current_from_shapes : forall n t d,
  md0 (MOrCurrent n t) d = ctor_run model_shapes row_or_current d n t None true (val_of d n).
Proof.
  intros n t d. unfold ctor_run. cbn [md0]. unfold do_current.
  destruct (val_of d n) eqn:Ev; [| vm_compute; reflexivity ..].
  destruct (cur_default d t) as [|pc]; [vm_compute; reflexivity|].
  cbv -[stack_of d_log d_vals d_defaults d_next d_made d_dropped d_disp d_hid d_hlog].
  destruct (stack_of (d_log d) (N.pos pc) t); reflexivity.
Qed.

(** * The interpreter tells the shapes apart: the rows the two seeded mutants of /verif/seeded/C03-{A,B} produce *)
Definition set_row (tbl : table) (m : string) (r : list sev) : table :=
  map (fun kr => if String.eqb (fst kr) m then (m, r) else kr) tbl.
Definition shapes_A : table :=     (* in_scope without the RAII guard *)
  set_row model_shapes "Span::in_scope" [SInvoke "Span::do_enter"; SBody; SInvoke "Span::do_exit"].
Definition shapes_B : table :=     (* into_inner forgets the span *)
  set_row model_shapes "Instrumented::into_inner" [SForgetSelf].
Example shapes_sensitive :
  let o := mkOwn [(0%N, KHandle)] [mkEnt EScope 0%N 0%N] in
  let e := mkEnt EScope 0%N 0%N in
  emit_tbl model_shapes o 0%N (ScopeEnd true) = Some [MExitE e] /\
  emit_tbl shapes_A o 0%N (ScopeEnd false) = Some [MExitE e] /\
  emit_tbl shapes_A o 0%N (ScopeEnd true) = Some [] /\
  emit_tbl model_shapes (mkOwn [(0%N, KFut)] []) 0%N (IntoInner 0%N) = Some [MRelease 0%N 0%N; MMark 0%N (MInnerDrop 0%N)] /\
  emit_tbl shapes_B (mkOwn [(0%N, KFut)] []) 0%N (IntoInner 0%N) = Some [MMark 0%N (MInnerDrop 0%N)].
Proof. vm_compute. repeat split; reflexivity. Qed.
