(** SpanApi/Proofs.v — the invariant relating live handles / guards to the collectors' log, and the C03 theorems. *)
From Coq Require Import List NArith Bool Lia Arith.
From TV Require Import SpanApi.Model SpanApi.Spec.
Import ListNotations.
Local Open Scope N_scope.

Definition b2n (b : bool) : nat := if b then 1%nat else 0%nat.

(** * Basic facts *)
Lemma key_eqb_eq : forall a b, key_eqb a b = true <-> a = b.
Proof.
  intros [a1 a2] [b1 b2]; unfold key_eqb; simpl. rewrite andb_true_iff, !N.eqb_eq.
  split; [intros [-> ->]; reflexivity | intros H; inversion H; auto].
Qed.
Lemma key_eqb_refl : forall a, key_eqb a a = true.
Proof. intros; apply key_eqb_eq; reflexivity. Qed.
Lemma key_eqb_sym : forall a b, key_eqb a b = key_eqb b a.
Proof. intros [a1 a2] [b1 b2]; unfold key_eqb; simpl. rewrite (N.eqb_sym a1), (N.eqb_sym a2); reflexivity. Qed.

Lemma memN_In : forall n l, memN n l = true <-> In n l.
Proof.
  induction l; simpl; [split; [discriminate | tauto] |].
  rewrite orb_true_iff, N.eqb_eq, IHl; tauto.
Qed.
Lemma memN_false : forall n l, memN n l = false <-> ~ In n l.
Proof. intros; rewrite <- memN_In; destruct (memN n l); split; congruence. Qed.

Lemma ekind_eqb_eq : forall a b, ekind_eqb a b = true -> a = b.
Proof. destruct a, b; simpl; try discriminate; auto. intros H; apply N.eqb_eq in H; subst; auto. Qed.
Lemma ent_eqb_eq : forall a b, ent_eqb a b = true -> a = b.
Proof.
  intros [k h t] [k' h' t']; unfold ent_eqb; simpl. rewrite !andb_true_iff, !N.eqb_eq.
  intros [[H1 ->] ->]; apply ekind_eqb_eq in H1; subst; reflexivity.
Qed.

Lemma cnt_cons : forall g v e l, cnt g v (e :: l) = (b2n (is_call g v e) + cnt g v l)%nat.
Proof. intros; unfold cnt; simpl; destruct (is_call g v e); reflexivity. Qed.
Lemma news_id_cons : forall i e l, news_id i (e :: l) = (b2n (is_new_id i e) + news_id i l)%nat.
Proof. intros; unfold news_id; simpl. destruct (is_new_id i e); reflexivity. Qed.
Lemma count_key_cons : forall v x l, count_key v (x :: l) = (b2n (key_eqb v x) + count_key v l)%nat.
Proof. intros; unfold count_key; simpl; destruct (key_eqb v x); reflexivity. Qed.

Lemma cnt_new_le_news : forall i c l, (cnt TNew (i, c) l <= news_id i l)%nat.
Proof.
  induction l; [apply Nat.le_refl|]. rewrite cnt_cons, news_id_cons.
  destruct a as [c' t k|]; simpl; [|lia]. destruct k; simpl; try lia.
  unfold key_eqb; simpl. destruct (i0 =? i); simpl; [destruct (c' =? c); simpl; lia | lia].
Qed.

Lemma log_ok_news_le1 : forall l, log_ok l -> forall i, (news_id i l <= 1)%nat.
Proof.
  induction l; intros H i; [unfold news_id; simpl; lia|]. destruct H as [He Hl]. rewrite news_id_cons.
  specialize (IHl Hl i). destruct a as [c t k|]; simpl; [|lia]. destruct k; simpl; try lia.
  destruct (i0 =? i) eqn:E; simpl; [|lia]. apply N.eqb_eq in E; subst. simpl in He. lia.
Qed.

(** * Structural counting lemmas *)
Lemma vlook_cons : forall vals n x m, vlook ((n, x) :: vals) m = if n =? m then x else vlook vals m.
Proof. intros; unfold vlook; simpl; destruct (n =? m); reflexivity. Qed.

Lemma hcnt_cons : forall n k hs vals v, hcnt ((n, k) :: hs) vals v = (b2n (sval_is v (vlook vals n)) + hcnt hs vals v)%nat.
Proof. intros; unfold hcnt; simpl; destruct (sval_is v (vlook vals n)); reflexivity. Qed.
Lemma hcnt_set_notin : forall hs vals n x v, ~ In n (names hs) -> hcnt hs ((n, x) :: vals) v = hcnt hs vals v.
Proof.
  induction hs as [|[m k] hs]; intros; [reflexivity|]. simpl in H. rewrite !hcnt_cons, vlook_cons.
  destruct (n =? m) eqn:E; [apply N.eqb_eq in E; subst; tauto|].
  rewrite IHhs by tauto. reflexivity.
Qed.

Lemma names_remove_in : forall n m (hs : list (name * hkind)), In m (names (remove_name n hs)) -> In m (names hs).
Proof.
  induction hs as [|[a k] hs]; simpl; [tauto|]. destruct (a =? n); simpl; [tauto|]. intros [H|H]; auto.
Qed.
Lemma names_remove_nodup : forall n (hs : list (name * hkind)), NoDup (names hs) -> NoDup (names (remove_name n hs)).
Proof.
  induction hs as [|[a k] hs]; simpl; intros H; [constructor|]. inversion H; subst.
  destruct (a =? n); simpl; [assumption|]. constructor; [|auto]. intro Hin; apply names_remove_in in Hin; auto.
Qed.
Lemma names_remove_notin : forall n (hs : list (name * hkind)), NoDup (names hs) -> ~ In n (names (remove_name n hs)).
Proof.
  induction hs as [|[a k] hs]; simpl; intros H; [tauto|]. inversion H; subst.
  destruct (a =? n) eqn:E; simpl; [apply N.eqb_eq in E; subst; assumption|].
  apply N.eqb_neq in E. intros [Hc|Hc]; [congruence | apply IHhs in Hc; auto].
Qed.
Lemma names_remove_other : forall n m (hs : list (name * hkind)), m <> n -> In m (names hs) -> In m (names (remove_name n hs)).
Proof.
  induction hs as [|[a k] hs]; simpl; [tauto|]. intros Hne [H|H].
  - subst. destruct (m =? n) eqn:E; [apply N.eqb_eq in E; congruence | simpl; auto].
  - destruct (a =? n); simpl; auto.
Qed.
Lemma hcnt_remove : forall hs vals n v, In n (names hs) ->
  hcnt hs vals v = (b2n (sval_is v (vlook vals n)) + hcnt (remove_name n hs) vals v)%nat.
Proof.
  induction hs as [|[a k] hs]; simpl; intros; [tauto|]. rewrite hcnt_cons.
  destruct (a =? n) eqn:E.
  - apply N.eqb_eq in E; subst. reflexivity.
  - apply N.eqb_neq in E. destruct H; [congruence|]. rewrite hcnt_cons, (IHhs vals n v H). lia.
Qed.
Lemma names_set_kind : forall n k hs, names (set_kind n k hs) = names hs.
Proof. induction hs as [|[a x] hs]; simpl; [reflexivity|]. destruct (a =? n); simpl; [reflexivity | f_equal; auto]. Qed.
Lemma hcnt_set_kind : forall n k hs vals v, hcnt (set_kind n k hs) vals v = hcnt hs vals v.
Proof.
  induction hs as [|[a x] hs]; intros; [reflexivity|]. simpl. destruct (a =? n); rewrite !hcnt_cons; [reflexivity|].
  rewrite IHhs; reflexivity.
Qed.
Lemma hcnt_set_in : forall hs vals n x v, NoDup (names hs) -> In n (names hs) ->
  (hcnt hs ((n, x) :: vals) v + b2n (sval_is v (vlook vals n)) = hcnt hs vals v + b2n (sval_is v x))%nat.
Proof.
  induction hs as [|[a k] hs]; simpl; intros vals n x v Hnd Hin; [tauto|]. inversion Hnd; subst.
  rewrite !hcnt_cons, vlook_cons. destruct Hin as [->|Hin].
  - rewrite N.eqb_refl, hcnt_set_notin by assumption. lia.
  - destruct (n =? a) eqn:E; [apply N.eqb_eq in E; subst; tauto|]. specialize (IHhs vals n x v H2 Hin). lia.
Qed.

Definition ematch (e : ent) (vals : list (name * sval)) (v : key) (t : tid) : bool :=
  (e_tid e =? t) && sval_is v (vlook vals (e_holder e)).
Lemma ecnt_cons : forall e es vals v t,
  ecnt (e :: es) vals v t = (b2n (ematch e vals v t) + ecnt es vals v t)%nat.
Proof. intros; unfold ecnt, ematch; simpl; destruct ((e_tid e =? t) && sval_is v (vlook vals (e_holder e))); reflexivity. Qed.
Lemma ecnt_set_noents : forall es vals n x v t, (forall e, In e es -> e_holder e <> n) ->
  ecnt es ((n, x) :: vals) v t = ecnt es vals v t.
Proof.
  induction es as [|e es]; intros; [reflexivity|]. rewrite !ecnt_cons. unfold ematch. rewrite vlook_cons.
  destruct (n =? e_holder e) eqn:E.
  - apply N.eqb_eq in E. exfalso; apply (H e); simpl; auto.
  - rewrite IHes by (intros; apply H; simpl; auto). reflexivity.
Qed.
Lemma mem_ent_In : forall e es, mem_ent e es = true -> In e es.
Proof.
  unfold mem_ent; intros e es H. apply existsb_exists in H. destruct H as [x [Hx He]]. apply ent_eqb_eq in He; subst; auto.
Qed.
Lemma remove_ent_in : forall e x es, In x (remove_ent e es) -> In x es.
Proof. induction es; simpl; [tauto|]. destruct (ent_eqb a e); simpl; [tauto|]. intros [H|H]; auto. Qed.
Lemma ecnt_remove : forall es vals e v t, mem_ent e es = true ->
  ecnt es vals v t = (b2n (ematch e vals v t) + ecnt (remove_ent e es) vals v t)%nat.
Proof.
  induction es as [|a es]; intros vals e v t H; [discriminate|]. cbn [remove_ent]. rewrite ecnt_cons.
  unfold mem_ent in H; cbn [existsb] in H.
  destruct (ent_eqb a e) eqn:E.
  - apply ent_eqb_eq in E; subst. reflexivity.
  - cbn [orb] in H. rewrite ecnt_cons, (IHes vals e v t H). lia.
Qed.

Lemma ents_on_nil : forall o n, ents_on o n = [] -> forall e, In e (o_ents o) -> e_holder e <> n.
Proof.
  unfold ents_on; intros o n H e Hin Heq. assert (In e (filter (fun e => e_holder e =? n) (o_ents o))).
  { apply filter_In; split; [assumption | apply N.eqb_eq; assumption]. }
  rewrite H in H0; inversion H0.
Qed.
Lemma free_spec : forall o n, free o n = true ->
  In n (names (o_holders o)) /\ forall e, In e (o_ents o) -> e_holder e <> n.
Proof.
  unfold free, live; intros o n H. apply andb_true_iff in H. destruct H as [H1 H2]. apply memN_In in H1.
  split; [assumption|]. destruct (ents_on o n) eqn:E; [|discriminate]. apply ents_on_nil; assumption.
Qed.

(** * depth and the collector's view of the current span *)
Lemma is_at_enter_exit_excl : forall v t e, is_at TEnter v t e = true -> is_at TExit v t e = false.
Proof. intros v t [c t' k|]; simpl; [destruct k; simpl; auto; discriminate | auto]. Qed.
Lemma depth_cons_other : forall e l v t, is_at TEnter v t e = false -> is_at TExit v t e = false ->
  depth (e :: l) v t = depth l v t.
Proof. intros; simpl; destruct (depth l v t); [rewrite H, H0|]; reflexivity. Qed.
Lemma depth_cons_enter : forall e l v t n, is_at TEnter v t e = true -> depth l v t = Some n ->
  depth (e :: l) v t = Some (S n).
Proof. intros; simpl; rewrite H0, H; reflexivity. Qed.
Lemma depth_cons_exit : forall e l v t n, is_at TExit v t e = true -> depth l v t = Some (S n) ->
  depth (e :: l) v t = Some n.
Proof.
  intros; simpl; rewrite H0. destruct (is_at TEnter v t e) eqn:E; [apply is_at_enter_exit_excl in E; congruence|].
  rewrite H; reflexivity.
Qed.
Lemma depth_tail_some : forall e l v t, depth (e :: l) v t <> None -> depth l v t <> None.
Proof. intros e l v t H; simpl in H. destruct (depth l v t); congruence. Qed.

Definition occ (i : N) (l : list N) : nat := length (filter (N.eqb i) l).
Lemma occ_cons : forall i j l, occ i (j :: l) = (b2n (N.eqb i j) + occ i l)%nat.
Proof. intros; unfold occ; simpl; destruct (N.eqb i j); reflexivity. Qed.
Lemma occ_remove_first_same : forall i l n, occ i l = S n -> occ i (remove_first i l) = n.
Proof.
  induction l as [|j l]; intros n H; [discriminate|]. rewrite occ_cons in H. simpl.
  destruct (j =? i) eqn:E.
  - apply N.eqb_eq in E; subst. rewrite N.eqb_refl in H; simpl in H. congruence.
  - rewrite occ_cons. rewrite N.eqb_sym in E. rewrite E in *; simpl in *. auto.
Qed.
Lemma occ_remove_first_other : forall i j l, i <> j -> occ i (remove_first j l) = occ i l.
Proof.
  induction l as [|x l]; intros Hne; [reflexivity|]. simpl. destruct (x =? j) eqn:E.
  - apply N.eqb_eq in E; subst. rewrite occ_cons. apply N.eqb_neq in Hne. rewrite Hne; reflexivity.
  - rewrite !occ_cons, IHl by assumption. reflexivity.
Qed.

Lemma stack_depth : forall L c t, (forall i, depth L (i, c) t <> None) ->
  forall i, depth L (i, c) t = Some (occ i (stack_of L c t)).
Proof.
  induction L as [|e L]; intros c t H i; [reflexivity|].
  assert (HL : forall i, depth L (i, c) t <> None) by (intros j; eapply depth_tail_some; apply H).
  specialize (IHL c t HL).
  destruct e as [c' t' k|t' m]; [|rewrite depth_cons_other by reflexivity; simpl; auto].
  destruct k; try (rewrite depth_cons_other by reflexivity; simpl; auto; fail).
  - (* enter *)
    cbn [stack_of]. destruct ((c' =? c) && (t' =? t)) eqn:E.
    + apply andb_true_iff in E; destruct E as [E1 E2]. rewrite occ_cons.
      destruct (N.eqb i i0) eqn:E3.
      * apply N.eqb_eq in E3; subst i0. erewrite depth_cons_enter; [reflexivity | | apply IHL].
        simpl. unfold key_eqb; simpl. rewrite N.eqb_refl, E1, E2; reflexivity.
      * rewrite depth_cons_other; [apply IHL | | reflexivity].
        simpl. unfold key_eqb; simpl. rewrite N.eqb_sym, E3; reflexivity.
    + rewrite depth_cons_other; [apply IHL | | reflexivity].
      simpl. unfold key_eqb; simpl. apply andb_false_iff in E. destruct E as [E|E]; rewrite E;
        rewrite ?andb_false_r; reflexivity.
  - (* exit *)
    cbn [stack_of]. destruct ((c' =? c) && (t' =? t)) eqn:E.
    + apply andb_true_iff in E; destruct E as [E1 E2].
      destruct (N.eqb i i0) eqn:E3.
      * apply N.eqb_eq in E3; subst i0.
        assert (Hx : is_at TExit (i, c) t (ECall c' t' (CExit i)) = true).
        { simpl. unfold key_eqb; simpl. rewrite N.eqb_refl, E1, E2; reflexivity. }
        destruct (occ i (stack_of L c t)) eqn:Ho.
        -- exfalso. apply (H i). simpl. rewrite (IHL i). simpl in Hx. simpl. rewrite Hx, Ho. reflexivity.
        -- erewrite depth_cons_exit; [| exact Hx | rewrite IHL, Ho; reflexivity]. f_equal. symmetry. apply occ_remove_first_same; assumption.
      * rewrite depth_cons_other; [| reflexivity |].
        -- rewrite IHL. f_equal. symmetry. apply occ_remove_first_other. apply N.eqb_neq; assumption.
        -- simpl. unfold key_eqb; simpl. rewrite N.eqb_sym, E3; reflexivity.
    + rewrite depth_cons_other; [apply IHL | reflexivity |].
      simpl. unfold key_eqb; simpl. apply andb_false_iff in E. destruct E as [E|E]; rewrite E;
        rewrite ?andb_false_r; reflexivity.
Qed.

(** * The invariant *)
Record Inv (o : own) (d : dyn) : Prop := mkInv {
  inv_nodup : NoDup (names (o_holders o));
  inv_ents : forall e, In e (o_ents o) -> In (e_holder e) (names (o_holders o));
  inv_bal : forall v, (cnt TNew v (d_log d) + cnt TClone v (d_log d)
                       = cnt TClose v (d_log d) + hcnt (o_holders o) (d_vals d) v)%nat;
  inv_depth : forall v t, depth (d_log d) v t = Some (ecnt (o_ents o) (d_vals d) v t);
  inv_new1 : forall v, (1 <= hcnt (o_holders o) (d_vals d) v)%nat -> cnt TNew v (d_log d) = 1%nat;
  inv_fresh : forall i, d_next d <= i -> news_id i (d_log d) = 0%nat;
  inv_logok : log_ok (d_log d);
  inv_made : forall v, count_key v (d_made d) = (cnt TNew v (d_log d) + cnt TClone v (d_log d))%nat;
  inv_dropped : forall v, count_key v (d_dropped d) = cnt TClose v (d_log d)
}.

Lemma hcnt_ge1 : forall hs vals n v, In n (names hs) -> sval_is v (vlook vals n) = true -> (1 <= hcnt hs vals v)%nat.
Proof. intros. rewrite (hcnt_remove hs vals n v H), H0. simpl. lia. Qed.

Lemma ecnt_ge1 : forall es vals v t, (1 <= ecnt es vals v t)%nat ->
  exists e, In e es /\ sval_is v (vlook vals (e_holder e)) = true.
Proof.
  induction es as [|e es]; intros vals v t H; [unfold ecnt in H; simpl in H; lia|]. rewrite ecnt_cons in H.
  destruct (ematch e vals v t) eqn:E.
  - exists e. split; [simpl; auto|]. unfold ematch in E. apply andb_true_iff in E. tauto.
  - simpl in H. destruct (IHes vals v t H) as [x [Hx1 Hx2]]. exists x; simpl; auto.
Qed.

Lemma live_entry_ok : forall o d c t k, Inv o d ->
  (1 <= hcnt (o_holders o) (d_vals d) (subject k, c))%nat -> tag_of k <> TNew ->
  entry_ok (d_log d) (ECall c t k).
Proof.
  intros o d c t k I H Hk. pose proof (inv_new1 _ _ I _ H) as H1. pose proof (inv_bal _ _ I (subject k, c)) as H2.
  destruct k; simpl in *; try congruence; split; try assumption; lia.
Qed.

Lemma current_live : forall o d c t i rest, Inv o d -> stack_of (d_log d) c t = i :: rest ->
  (1 <= hcnt (o_holders o) (d_vals d) (i, c))%nat.
Proof.
  intros o d c t i rest I Hs.
  assert (Hd : forall j, depth (d_log d) (j, c) t <> None) by (intros j; rewrite (inv_depth _ _ I); discriminate).
  pose proof (stack_depth _ _ _ Hd i) as H. rewrite Hs, occ_cons, N.eqb_refl, (inv_depth _ _ I) in H.
  inversion H as [H'].
  destruct (ecnt_ge1 (o_ents o) (d_vals d) (i, c) t) as [e [He1 He2]]; [simpl in H'; lia|].
  eapply hcnt_ge1; [apply (inv_ents _ _ I); eassumption | exact He2].
Qed.

Definition add_holder (o : own) (n : name) : own := mkOwn ((n, KHandle) :: o_holders o) (o_ents o).
Ltac psimpl := cbn [d_log d_vals d_next d_made d_dropped d_defaults d_disp d_hid d_hlog o_holders o_ents add_holder note_made
                    note_dropped set_val emit with_defaults with_disp with_h hpush set_hid fst snd names map] in *.

Lemma no_ents_on_dead : forall o d n, Inv o d -> ~ In n (names (o_holders o)) ->
  forall e, In e (o_ents o) -> e_holder e <> n.
Proof. intros o d n I Hn e He Heq. apply Hn. rewrite <- Heq. apply (inv_ents _ _ I); assumption. Qed.

(** a new holder with a value that is invisible to the log *)
Lemma inv_add_unlogged : forall o d n x, Inv o d -> ~ In n (names (o_holders o)) -> unlogged x = true ->
  Inv (add_holder o n) (set_val d n x).
Proof.
  intros o d n x I Hn Hx. pose proof (no_ents_on_dead _ _ _ I Hn) as Hne.
  assert (Hs : forall v, sval_is v x = false) by (intros; destruct x; simpl in *; congruence).
  destruct I. constructor; psimpl; intros.
  - constructor; assumption.
  - right; auto.
  - rewrite hcnt_cons, vlook_cons, N.eqb_refl, Hs, hcnt_set_notin by assumption. simpl. auto.
  - rewrite ecnt_set_noents by assumption. auto.
  - rewrite hcnt_cons, vlook_cons, N.eqb_refl, Hs, hcnt_set_notin in H by assumption. simpl in H. auto.
  - auto.
  - assumption.
  - auto.
  - auto.
Qed.

(** an existing, unborrowed, disabled holder is overwritten with a value that is invisible to the log *)
Lemma inv_upd_unlogged : forall o d n, Inv o d -> free o n = true -> vlook (d_vals d) n = SNone ->
  Inv o (set_val d n SNone).
Proof.
  intros o d n I Hf Hv. destruct (free_spec _ _ Hf) as [Hin Hne]. destruct I.
  assert (Hh : forall v, hcnt (o_holders o) ((n, SNone) :: d_vals d) v = hcnt (o_holders o) (d_vals d) v).
  { intros v. pose proof (hcnt_set_in (o_holders o) (d_vals d) n SNone v inv_nodup0 Hin) as H. rewrite Hv in H. simpl in H. lia. }
  constructor; psimpl; intros; rewrite ?Hh, ?ecnt_set_noents in * by assumption; auto.
Qed.

(** clone_span of a span that has a live handle, producing a new holder *)
Lemma inv_add_clone : forall o d n i c t, Inv o d -> ~ In n (names (o_holders o)) ->
  (1 <= hcnt (o_holders o) (d_vals d) (i, c))%nat ->
  Inv (add_holder o n) (note_made (set_val (emit d (ECall c t (CClone i))) n (SSpan i c)) (i, c)).
Proof.
  intros o d n i c t I Hn Hl. pose proof (no_ents_on_dead _ _ _ I Hn) as Hne.
  pose proof (live_entry_ok o d c t (CClone i) I Hl) as Hok.
  destruct I. constructor; psimpl; intros.
  - constructor; assumption.
  - right; auto.
  - rewrite !cnt_cons, hcnt_cons, vlook_cons, N.eqb_refl, hcnt_set_notin by assumption. simpl.
    specialize (inv_bal0 v). destruct (key_eqb (i, c) v); simpl; lia.
  - rewrite ecnt_set_noents by assumption. rewrite depth_cons_other by reflexivity. auto.
  - rewrite cnt_cons; simpl. rewrite hcnt_cons, vlook_cons, N.eqb_refl, hcnt_set_notin in H by assumption. simpl in H.
    destruct (key_eqb (i, c) v) eqn:E; simpl in H.
    + apply key_eqb_eq in E; subst v. auto.
    + auto.
  - rewrite news_id_cons; simpl. auto.
  - split; [apply Hok; discriminate | assumption].
  - rewrite count_key_cons, !cnt_cons; simpl. rewrite inv_made0, (key_eqb_sym v). destruct (key_eqb (i, c) v); simpl; lia.
  - rewrite cnt_cons; simpl. auto.
Qed.

(** ... overwriting an existing, unborrowed, disabled holder (or_current) *)
Lemma inv_upd_clone : forall o d n i c t, Inv o d -> free o n = true -> vlook (d_vals d) n = SNone ->
  (1 <= hcnt (o_holders o) (d_vals d) (i, c))%nat ->
  Inv o (note_made (set_val (emit d (ECall c t (CClone i))) n (SSpan i c)) (i, c)).
Proof.
  intros o d n i c t I Hf Hv Hl. destruct (free_spec _ _ Hf) as [Hin Hne].
  pose proof (live_entry_ok o d c t (CClone i) I Hl) as Hok.
  destruct I.
  assert (Hh : forall v, hcnt (o_holders o) ((n, SSpan i c) :: d_vals d) v
                         = (hcnt (o_holders o) (d_vals d) v + b2n (key_eqb (i, c) v))%nat).
  { intros v. pose proof (hcnt_set_in (o_holders o) (d_vals d) n (SSpan i c) v inv_nodup0 Hin) as H. rewrite Hv in H. simpl in H. lia. }
  constructor; psimpl; intros; rewrite ?Hh, ?ecnt_set_noents in * by assumption.
  - assumption.
  - auto.
  - rewrite !cnt_cons. simpl. specialize (inv_bal0 v). destruct (key_eqb (i, c) v); simpl; lia.
  - rewrite depth_cons_other by reflexivity. auto.
  - rewrite cnt_cons; simpl. destruct (key_eqb (i, c) v) eqn:E; simpl in H.
    + apply key_eqb_eq in E; subst v. auto.
    + apply inv_new2. lia.
  - rewrite news_id_cons; simpl. auto.
  - split; [apply Hok; discriminate | assumption].
  - rewrite count_key_cons, !cnt_cons; simpl. rewrite inv_made0, (key_eqb_sym v). destruct (key_eqb (i, c) v); simpl; lia.
  - rewrite cnt_cons; simpl. auto.
Qed.

(** an entry that no counter looks at (record, follows_from, marks) *)
Definition neutral (e : entry) : Prop :=
  match e with
  | EMark _ _ => True
  | ECall _ _ k => match tag_of k with TRecord | TFollows => True | _ => False end
  end.
Lemma inv_emit_neutral : forall o d e, Inv o d -> neutral e -> entry_ok (d_log d) e -> Inv o (emit d e).
Proof.
  intros o d e I Hn Hok.
  assert (Hc : forall g v, g = TNew \/ g = TClone \/ g = TClose -> is_call g v e = false).
  { intros g v Hg. destruct e as [c t k|]; [|reflexivity]. destruct k; simpl in Hn; try tauto;
      destruct Hg as [ -> | [ -> | -> ] ]; reflexivity. }
  assert (Ha : forall v t, is_at TEnter v t e = false /\ is_at TExit v t e = false).
  { intros. destruct e as [c t' k|]; [|split; reflexivity]. destruct k; simpl in Hn; try tauto; split; reflexivity. }
  assert (Hi : forall i, is_new_id i e = false).
  { intros. destruct e as [c t' k|]; [|reflexivity]. destruct k; simpl in Hn; try tauto; reflexivity. }
  destruct I. constructor; psimpl; intros; rewrite ?cnt_cons, ?news_id_cons, ?Hc, ?Hi by tauto; cbn [b2n Nat.add]; auto.
  - rewrite depth_cons_other by apply Ha. auto.
  - split; assumption.
Qed.

Lemma val_of_vlook : forall d n, val_of d n = vlook (d_vals d) n.
Proof. reflexivity. Qed.

(** ownership changes that the log cannot see *)
Lemma inv_struct : forall o d o', Inv o d ->
  NoDup (names (o_holders o')) ->
  (forall e, In e (o_ents o') -> In (e_holder e) (names (o_holders o'))) ->
  (forall v, hcnt (o_holders o') (d_vals d) v = hcnt (o_holders o) (d_vals d) v) ->
  (forall v t, ecnt (o_ents o') (d_vals d) v t = ecnt (o_ents o) (d_vals d) v t) ->
  Inv o' d.
Proof.
  intros o d o' I H1 H2 H3 H4. destruct I. constructor; intros; rewrite ?H3, ?H4 in *; auto.
Qed.

Lemma inv_enter : forall o d e, Inv o d -> In (e_holder e) (names (o_holders o)) ->
  Inv (mkOwn (o_holders o) (e :: o_ents o)) (md0 (MEnterE e) d).
Proof.
  intros o d e I Hin. cbn [md0]. rewrite !val_of_vlook.
  assert (Hents : forall x, In x (e :: o_ents o) -> In (e_holder x) (names (o_holders o))).
  { intros x [Hx|Hx]; [subst; assumption | apply (inv_ents _ _ I); assumption]. }
  destruct (vlook (d_vals d) (e_holder e)) as [| |i c] eqn:Ev.
  1,2: apply (inv_struct o d); psimpl; auto; [apply (inv_nodup _ _ I) |];
       intros v t; rewrite ecnt_cons; unfold ematch; rewrite Ev; simpl; rewrite andb_false_r; reflexivity.
  pose proof (live_entry_ok o d c (e_tid e) (CEnter i) I) as Hok. destruct I.
  constructor; psimpl; intros; rewrite ?cnt_cons, ?news_id_cons; cbn [is_call is_new_id tag_of ctag_eqb andb b2n Nat.add]; auto.
  - rewrite ecnt_cons. unfold ematch. rewrite Ev. cbn [sval_is].
    destruct (key_eqb (i, c) v && (e_tid e =? t)) eqn:E.
    + rewrite (andb_comm (e_tid e =? t)), E. cbn [b2n Nat.add]. apply depth_cons_enter; [exact E | auto].
    + rewrite (andb_comm (e_tid e =? t)), E. cbn [b2n Nat.add]. rewrite depth_cons_other; [auto | exact E | reflexivity].
  - split; [|assumption]. apply Hok; [|discriminate]. eapply hcnt_ge1; [exact Hin|]. rewrite Ev. simpl. apply key_eqb_refl.
Qed.

Lemma inv_exit : forall o d e, Inv o d -> mem_ent e (o_ents o) = true ->
  Inv (mkOwn (o_holders o) (remove_ent e (o_ents o))) (md0 (MExitE e) d).
Proof.
  intros o d e I Hm. cbn [md0]. rewrite !val_of_vlook.
  assert (Hin : In (e_holder e) (names (o_holders o))) by (apply (inv_ents _ _ I), mem_ent_In; assumption).
  assert (Hents : forall x, In x (remove_ent e (o_ents o)) -> In (e_holder x) (names (o_holders o))).
  { intros x Hx. apply (inv_ents _ _ I). eapply remove_ent_in; eassumption. }
  destruct (vlook (d_vals d) (e_holder e)) as [| |i c] eqn:Ev.
  1,2: apply (inv_struct o d); psimpl; auto; [apply (inv_nodup _ _ I) |];
       intros v t; rewrite (ecnt_remove (o_ents o) _ e v t Hm); unfold ematch; rewrite Ev; simpl; rewrite andb_false_r; reflexivity.
  pose proof (live_entry_ok o d c (e_tid e) (CExit i) I) as Hok. destruct I.
  constructor; psimpl; intros; rewrite ?cnt_cons, ?news_id_cons; cbn [is_call is_new_id tag_of ctag_eqb andb b2n Nat.add]; auto.
  - specialize (inv_depth0 v t). rewrite (ecnt_remove _ _ e v t Hm) in inv_depth0. unfold ematch in inv_depth0.
    rewrite Ev in inv_depth0. cbn [sval_is] in inv_depth0.
    destruct (key_eqb (i, c) v && (e_tid e =? t)) eqn:E.
    + rewrite (andb_comm (e_tid e =? t)), E in inv_depth0. apply depth_cons_exit; [exact E | exact inv_depth0].
    + rewrite (andb_comm (e_tid e =? t)), E in inv_depth0. rewrite depth_cons_other; [exact inv_depth0 | reflexivity | exact E].
  - split; [|assumption]. apply Hok; [|discriminate]. eapply hcnt_ge1; [exact Hin|]. rewrite Ev. simpl. apply key_eqb_refl.
Qed.

Lemma inv_release : forall o d n t, Inv o d -> free o n = true ->
  Inv (mkOwn (remove_name n (o_holders o)) (o_ents o)) (md0 (MRelease n t) d).
Proof.
  intros o d n t I Hf. destruct (free_spec _ _ Hf) as [Hin Hne]. cbn [md0]. rewrite !val_of_vlook.
  assert (Hnd : NoDup (names (remove_name n (o_holders o)))) by (apply names_remove_nodup, (inv_nodup _ _ I)).
  assert (Hents : forall x, In x (o_ents o) -> In (e_holder x) (names (remove_name n (o_holders o)))).
  { intros x Hx. apply names_remove_other; [apply Hne; assumption | apply (inv_ents _ _ I); assumption]. }
  destruct (vlook (d_vals d) n) as [| |i c] eqn:Ev.
  1,2: apply (inv_struct o d); psimpl; auto;
       intros v; rewrite (hcnt_remove (o_holders o) (d_vals d) n v Hin), Ev; reflexivity.
  pose proof (live_entry_ok o d c t (CClose i) I) as Hok. destruct I.
  assert (Hh : forall v, hcnt (o_holders o) (d_vals d) v
                         = (b2n (key_eqb (i, c) v) + hcnt (remove_name n (o_holders o)) (d_vals d) v)%nat).
  { intros v; rewrite (hcnt_remove (o_holders o) (d_vals d) n v Hin), Ev; reflexivity. }
  constructor; psimpl; intros; rewrite ?cnt_cons, ?news_id_cons; cbn [is_call is_new_id tag_of ctag_eqb andb b2n Nat.add subject]; auto.
  - specialize (inv_bal0 v). rewrite Hh in inv_bal0. lia.
  - rewrite depth_cons_other by reflexivity. auto.
  - apply inv_new2. rewrite Hh. lia.
  - split; [|assumption]. apply Hok; [|discriminate]. cbn [subject]. rewrite Hh. rewrite key_eqb_refl. simpl. lia.
  - rewrite count_key_cons, inv_dropped0, (key_eqb_sym v). reflexivity.
Qed.

Lemma inv_make : forall o d n c t po, Inv o d -> ~ In n (names (o_holders o)) ->
  let i := d_next d in
  let d1 := emit d (ECall c t (CNew i po)) in
  Inv (add_holder o n)
      (set_val (mkDyn (d_vals d1) (d_defaults d1) (i + 1) (d_log d1) ((i, c) :: d_made d1) (d_dropped d1) (d_disp d1) (d_hid d1) (d_hlog d1)) n (SSpan i c)).
Proof.
  intros o d n c t po I Hn i d1. pose proof (no_ents_on_dead _ _ _ I Hn) as Hne. subst d1.
  assert (Hz : forall c', cnt TNew (i, c') (d_log d) = 0%nat).
  { intros c'. pose proof (cnt_new_le_news i c' (d_log d)). rewrite (inv_fresh _ _ I i) in H by (subst i; lia). lia. }
  destruct I. constructor; psimpl; intros.
  - constructor; assumption.
  - right; auto.
  - rewrite !cnt_cons, hcnt_cons, vlook_cons, N.eqb_refl, hcnt_set_notin by assumption. simpl.
    specialize (inv_bal0 v). destruct (key_eqb (i, c) v); simpl; lia.
  - rewrite ecnt_set_noents by assumption. rewrite depth_cons_other by reflexivity. auto.
  - rewrite cnt_cons; simpl. rewrite hcnt_cons, vlook_cons, N.eqb_refl, hcnt_set_notin in H by assumption. simpl in H.
    destruct (key_eqb (i, c) v) eqn:E; simpl in H.
    + apply key_eqb_eq in E; subst v. rewrite Hz. reflexivity.
    + simpl. auto.
  - rewrite news_id_cons; simpl. destruct (i =? i0) eqn:E; [apply N.eqb_eq in E; lia|]. simpl. apply inv_fresh0. lia.
  - split; [simpl; apply inv_fresh0; lia | assumption].
  - rewrite count_key_cons, !cnt_cons; simpl. rewrite inv_made0, (key_eqb_sym v). destruct (key_eqb (i, c) v); simpl; lia.
  - rewrite cnt_cons; simpl. auto.
Qed.

(** * Every micro-action preserves the invariant *)
Lemma live_In : forall o n, live o n = true <-> In n (names (o_holders o)).
Proof. intros; unfold live; apply memN_In. Qed.
Lemma live_notIn : forall o n, live o n = false <-> ~ In n (names (o_holders o)).
Proof. intros; unfold live; apply memN_false. Qed.

Lemma inv_do_current_add : forall o d n t, Inv o d -> ~ In n (names (o_holders o)) ->
  Inv (add_holder o n) (do_current d n t).
Proof.
  intros o d n t I Hn. unfold do_current. destruct (cur_default d t =? 0); [apply inv_add_unlogged; auto|].
  destruct (stack_of (d_log d) (cur_default d t) t) as [|i rest] eqn:Es; [apply inv_add_unlogged; auto|].
  apply inv_add_clone; auto. eapply current_live; eassumption.
Qed.
Lemma inv_do_current_upd : forall o d n t, Inv o d -> free o n = true -> vlook (d_vals d) n = SNone ->
  Inv o (do_current d n t).
Proof.
  intros o d n t I Hf Hv. unfold do_current. destruct (cur_default d t =? 0); [apply inv_upd_unlogged; auto|].
  destruct (stack_of (d_log d) (cur_default d t) t) as [|i rest] eqn:Es; [apply inv_upd_unlogged; auto|].
  apply inv_upd_clone; auto. eapply current_live; eassumption.
Qed.

Lemma inv_defaults : forall o d x, Inv o d -> Inv o (with_defaults d x).
Proof. intros o d x I; destruct I; constructor; auto. Qed.
Lemma inv_disp : forall o d x, Inv o d -> Inv o (with_disp d x).
Proof. intros o d x I; destruct I; constructor; auto. Qed.

(** two unborrowed holders exchange their Span values (mem::swap through Instrumented::span_mut) *)
Lemma inv_swap : forall o d a b, Inv o d -> free o a = true -> free o b = true -> a <> b ->
  Inv o (set_val (set_val d a (val_of d b)) b (val_of d a)).
Proof.
  intros o d a b I Ha Hb Hab. destruct (free_spec _ _ Ha) as [Hina Hnea]. destruct (free_spec _ _ Hb) as [Hinb Hneb].
  rewrite !val_of_vlook. destruct I.
  assert (Hh : forall v, hcnt (o_holders o) ((b, vlook (d_vals d) a) :: (a, vlook (d_vals d) b) :: d_vals d) v
                         = hcnt (o_holders o) (d_vals d) v).
  { intros v.
    pose proof (hcnt_set_in (o_holders o) (d_vals d) a (vlook (d_vals d) b) v inv_nodup0 Hina) as H1.
    pose proof (hcnt_set_in (o_holders o) ((a, vlook (d_vals d) b) :: d_vals d) b (vlook (d_vals d) a) v inv_nodup0 Hinb) as H2.
    rewrite vlook_cons in H2. destruct (a =? b) eqn:E; [apply N.eqb_eq in E; congruence|]. lia. }
  constructor; psimpl; intros; rewrite ?Hh, ?ecnt_set_noents in * by assumption; auto.
Qed.

Lemma micro_preserves : forall m o d o', Inv o d -> mo m o = Some o' -> Inv o' (md0 m d).
Proof.
  intros m o d o' I Hm. destruct m; cbn [mo] in Hm.
  - (* MNewSpan *)
    destruct (negb (live o n) && match parent_ref p with Some r => live o r | None => true end) eqn:E; [|discriminate].
    inversion Hm; subst o'; clear Hm. apply andb_true_iff in E. destruct E as [E _].
    apply negb_true_iff, live_notIn in E. cbn [md0].
    destruct (negb match h with ViaMacro en => en && negb (cur_default d t =? 0) | Direct => true end);
      [apply (inv_add_unlogged o d n SNone); auto|].
    destruct (cur_default d t =? 0); [apply (inv_add_unlogged o d n SNoColl); auto|].
    apply inv_make; assumption.
  - (* MCloneTo *)
    destruct (live o r && negb (live o n)) eqn:E; [|discriminate]. inversion Hm; subst o'; clear Hm.
    apply andb_true_iff in E. destruct E as [E1 E2]. apply live_In in E1. apply negb_true_iff, live_notIn in E2.
    cbn [md0]. rewrite val_of_vlook. destruct (vlook (d_vals d) r) as [| |i c] eqn:Ev.
    + apply (inv_add_unlogged o d n SNone); auto.
    + apply (inv_add_unlogged o d n SNoColl); auto.
    + apply inv_add_clone; auto. eapply hcnt_ge1; [exact E1|]. rewrite Ev; simpl; apply key_eqb_refl.
  - (* MCurrentTo *)
    destruct (negb (live o n)) eqn:E; [|discriminate]. inversion Hm; subst o'; clear Hm.
    apply negb_true_iff, live_notIn in E. cbn [md0]. apply inv_do_current_add; assumption.
  - (* MOrCurrent *)
    destruct (free o n) eqn:E; [|discriminate]. inversion Hm; subst o'; clear Hm.
    cbn [md0]. rewrite val_of_vlook. destruct (vlook (d_vals d) n) eqn:Ev; auto.
    apply inv_do_current_upd; assumption.
  - (* MRelease *)
    destruct (free o n) eqn:E; [|discriminate]. inversion Hm; subst o'; clear Hm. apply inv_release; assumption.
  - (* MSetKind *)
    destruct (live o n) eqn:E; [|discriminate]. inversion Hm; subst o'; clear Hm. cbn [md0].
    apply (inv_struct o d); psimpl; intros; rewrite ?names_set_kind, ?hcnt_set_kind; auto;
      [apply (inv_nodup _ _ I) | apply (inv_ents _ _ I); assumption].
  - (* MEnterE *)
    destruct (live o (e_holder e)) eqn:E; [|discriminate]. inversion Hm; subst o'; clear Hm.
    apply inv_enter; [assumption | apply live_In; assumption].
  - (* MExitE *)
    destruct (mem_ent e (o_ents o)) eqn:E; [|discriminate]. inversion Hm; subst o'; clear Hm.
    apply inv_exit; assumption.
  - (* MRecord *)
    destruct (live o r) eqn:E; [|discriminate]. inversion Hm; subst o'; clear Hm. apply live_In in E.
    cbn [md0]. rewrite val_of_vlook. destruct (vlook (d_vals d) r) as [| |i c] eqn:Ev; auto.
    apply inv_emit_neutral; [assumption | exact Logic.I |].
    apply (live_entry_ok o); [assumption | | discriminate]. eapply hcnt_ge1; [exact E|]. rewrite Ev; simpl; apply key_eqb_refl.
  - (* MFollows *)
    destruct (live o r && live o r') eqn:E; [|discriminate]. inversion Hm; subst o'; clear Hm.
    apply andb_true_iff in E. destruct E as [E _]. apply live_In in E.
    cbn [md0]. rewrite !val_of_vlook. destruct (vlook (d_vals d) r) as [| |i c] eqn:Ev; auto.
    destruct (id_of_val (vlook (d_vals d) r')); auto.
    apply inv_emit_neutral; [assumption | exact Logic.I |].
    apply (live_entry_ok o); [assumption | | discriminate]. eapply hcnt_ge1; [exact E|]. rewrite Ev; simpl; apply key_eqb_refl.
  - (* MMark *)
    inversion Hm; subst o'; clear Hm. cbn [md0]. apply inv_emit_neutral; [assumption | exact Logic.I | exact Logic.I].
  - inversion Hm; subst o'; clear Hm. cbn [md0]. apply inv_defaults; assumption.
  - inversion Hm; subst o'; clear Hm. cbn [md0]. apply inv_defaults; assumption.
  - (* MSetDisp *)
    destruct (live o f); [|discriminate]. inversion Hm; subst o'; clear Hm. cbn [md0]. apply inv_disp; assumption.
  - inversion Hm; subst o'; clear Hm. cbn [md0]. apply inv_defaults; assumption.
  - inversion Hm; subst o'; clear Hm. cbn [md0]. apply inv_disp; assumption.
  - (* MSwap *)
    destruct (free o a && free o b && negb (a =? b)) eqn:E; [|discriminate]. inversion Hm; subst o'; clear Hm.
    apply andb_true_iff in E. destruct E as [E E3]. apply andb_true_iff in E. destruct E as [E1 E2].
    apply negb_true_iff, N.eqb_neq in E3. cbn [md0]. cbv zeta. apply inv_swap; assumption.
Qed.

(** the ids on the wire ([mh]) are invisible to the invariant: it speaks about spans *)
Lemma inv_with_h : forall o d a b nx, Inv o d -> d_next d <= nx -> Inv o (with_h d a b nx).
Proof.
  intros o d a b nx I Hn. destruct I. constructor; psimpl; auto. intros i Hi. apply inv_fresh0. lia.
Qed.
Lemma inv_mh : forall o m d d', Inv o d' -> Inv o (mh m d d').
Proof.
  intros o m d d' I.
  assert (H0 : forall a b, Inv o (with_h d' a b (d_next d'))) by (intros; apply inv_with_h; [assumption | lia]).
  assert (H1 : forall x, Inv o (hpush d' x)) by (intros; apply H0).
  assert (H2 : forall x n h, Inv o (set_hid (hpush d' x) n h)).
  { intros. unfold set_hid. apply inv_with_h; [apply H1 | cbn; lia]. }
  assert (H3 : forall n h, Inv o (set_hid d' n h)) by (intros; apply H0).
  destruct m; cbn [mh]; unfold mh_current; auto;
    repeat match goal with
           | |- Inv _ (match ?x with _ => _ end) => destruct x
           | |- Inv _ (if ?x then _ else _) => destruct x
           end; auto.
  all: cbv zeta; apply inv_with_h; [assumption | lia].
Qed.
Lemma micro_preserves' : forall m o d o', Inv o d -> mo m o = Some o' -> Inv o' (md m d).
Proof. intros. unfold md. apply inv_mh. eapply micro_preserves; eassumption. Qed.

Lemma inv_init : Inv o_init d_init.
Proof.
  constructor; simpl; intros; auto; try reflexivity; try tauto.
  - constructor.
  - unfold hcnt in H; simpl in H; lia.
Qed.

Lemma exec_preserves : forall ms s s', Inv (fst s) (snd s) -> exec ms s = Some s' -> Inv (fst s') (snd s').
Proof.
  induction ms as [|m ms]; intros s s' I H; simpl in H; [inversion H; subst; assumption|].
  destruct (mo m (fst s)) as [o'|] eqn:E; [|discriminate].
  apply IHms in H; [assumption|]. simpl. eapply micro_preserves'; eassumption.
Qed.
Lemma step_preserves : forall s x s', Inv (fst s) (snd s) -> step s x = Some s' -> Inv (fst s') (snd s').
Proof.
  intros s x s' I H. unfold step in H. destruct (compile (fst s) (fst x) (snd x)); [|discriminate].
  eapply exec_preserves; eassumption.
Qed.
Lemma run_from_preserves : forall p s s', Inv (fst s) (snd s) -> run_from s p = Some s' -> Inv (fst s') (snd s').
Proof.
  induction p as [|x p]; intros s s' I H; simpl in H; [inversion H; subst; assumption|].
  destruct (step s x) as [s1|] eqn:E; [|discriminate]. eapply IHp; [|eassumption]. eapply step_preserves; eassumption.
Qed.
Theorem run_inv : forall p s, run p = Some s -> Inv (fst s) (snd s).
Proof. intros p s H. eapply run_from_preserves; [|exact H]. apply inv_init. Qed.

(** * The static predicate decides whether the program runs *)
Lemma exec_oexec : forall ms s, option_map fst (exec ms s) = oexec ms (fst s).
Proof.
  induction ms as [|m ms]; intros s; simpl; [reflexivity|]. destruct (mo m (fst s)); [|reflexivity]. rewrite IHms; reflexivity.
Qed.
Lemma step_ostep : forall s x, option_map fst (step s x) = ostep (fst s) x.
Proof. intros; unfold step, ostep. destruct (compile (fst s) (fst x) (snd x)); [apply exec_oexec | reflexivity]. Qed.
Lemma run_from_orun : forall p s, option_map fst (run_from s p) = orun_from (fst s) p.
Proof.
  induction p as [|x p]; intros s; simpl; [reflexivity|]. pose proof (step_ostep s x) as H.
  destruct (step s x) as [s1|]; simpl in H; rewrite <- H; [apply IHp | reflexivity].
Qed.
Theorem wf_runs : forall p, WFprog p <-> exists s, run p = Some s.
Proof.
  intros p. unfold WFprog, wf_prog, run. pose proof (run_from_orun p s_init) as H. simpl in H. rewrite <- H.
  destruct (run_from s_init p); simpl; split; intros; eauto; try discriminate. destruct H0; discriminate.
Qed.

(** * From the newest-first log to the chronological trace *)
Lemma flen_app : forall {A} (f : A -> bool) l1 l2,
  length (filter f (l1 ++ l2)) = (length (filter f l1) + length (filter f l2))%nat.
Proof. intros; rewrite filter_app, app_length; reflexivity. Qed.
Lemma flen_rev : forall {A} (f : A -> bool) l, length (filter f (rev l)) = length (filter f l).
Proof.
  induction l; [reflexivity|]. simpl rev. rewrite flen_app, IHl. simpl. destruct (f a); simpl; lia.
Qed.
Lemma cnt_rev : forall g v l, cnt g v (rev l) = cnt g v l.
Proof. intros; apply flen_rev. Qed.
Lemma cnt_app : forall g v l1 l2, cnt g v (l1 ++ l2) = (cnt g v l1 + cnt g v l2)%nat.
Proof. intros; apply flen_app. Qed.
Lemma cnt_at_rev : forall g v t l, cnt_at g v t (rev l) = cnt_at g v t l.
Proof. intros; apply flen_rev. Qed.
Lemma cnt_at_cons : forall g v t e l, cnt_at g v t (e :: l) = (b2n (is_at g v t e) + cnt_at g v t l)%nat.
Proof. intros; unfold cnt_at; simpl; destruct (is_at g v t e); reflexivity. Qed.
Lemma news_id_rev : forall i l, news_id i (rev l) = news_id i l.
Proof. intros; apply flen_rev. Qed.

Lemma entry_ok_rev : forall l e, entry_ok (rev l) e <-> entry_ok l e.
Proof.
  intros l [c t k|]; [|tauto]. destruct k; simpl; rewrite ?news_id_rev, ?cnt_rev; tauto.
Qed.
Lemma log_ok_split : forall l2 e l1, log_ok (l2 ++ e :: l1) -> entry_ok l1 e.
Proof. induction l2; simpl; intros e l1 H; [tauto | apply IHl2; tauto]. Qed.

Lemma trace_split : forall (L l1 : list entry) e l2, rev L = l1 ++ e :: l2 -> L = rev l2 ++ e :: rev l1.
Proof.
  intros L l1 e l2 H. rewrite <- (rev_involutive L), H, rev_app_distr. simpl. rewrite <- app_assoc. reflexivity.
Qed.

Lemma log_ok_chron : forall L, log_ok L -> forall l1 e l2, rev L = l1 ++ e :: l2 -> entry_ok l1 e.
Proof.
  intros L H l1 e l2 Hs. apply trace_split in Hs. subst L. apply log_ok_split in H. apply entry_ok_rev; assumption.
Qed.

Lemma log_ok_call_new : forall l g v, log_ok l -> (1 <= cnt g v l)%nat -> (1 <= cnt TNew v l)%nat.
Proof.
  induction l as [|e l]; intros g v H Hc; [unfold cnt in Hc; simpl in Hc; lia|].
  destruct H as [He Hl]. rewrite cnt_cons in *.
  destruct (is_call g v e) eqn:E.
  - destruct e as [c t k|]; [|discriminate]. simpl in E. apply andb_true_iff in E. destruct E as [E1 E2].
    apply key_eqb_eq in E2. subst v.
    destruct k; cbn [entry_ok subject] in He |- *;
      [ cbn [is_call tag_of ctag_eqb subject andb]; rewrite key_eqb_refl; simpl; lia
      | destruct He as [He ?]; rewrite He; lia .. ].
  - simpl in Hc. specialize (IHl g v Hl Hc). lia.
Qed.

Lemma depth_counts : forall l v t n, depth l v t = Some n -> cnt_at TEnter v t l = (cnt_at TExit v t l + n)%nat.
Proof.
  induction l as [|e l]; intros v t n H; [inversion H; reflexivity|]. simpl in H. rewrite !cnt_at_cons.
  destruct (depth l v t) as [m|] eqn:E; [|discriminate]. specialize (IHl v t m E).
  destruct (is_at TEnter v t e) eqn:E1.
  - rewrite (is_at_enter_exit_excl _ _ _ E1). inversion H; subst. simpl. lia.
  - destruct (is_at TExit v t e) eqn:E2.
    + destruct m; [discriminate|]. inversion H; subst. simpl. lia.
    + inversion H; subst. simpl. lia.
Qed.
Lemma depth_suffix : forall l2 l1 v t, depth (l2 ++ l1) v t <> None -> depth l1 v t <> None.
Proof. induction l2; simpl; intros; [assumption|]. apply IHl2. destruct (depth (l2 ++ l1) v t); congruence. Qed.

(** * The theorems *)
Theorem to_own_collector : forall p, WFprog p ->
  (forall i, (news_id i (trace p) <= 1)%nat) /\
  (forall l1 c t k l2, trace p = l1 ++ ECall c t k :: l2 ->
     match k with
     | CNew i _ => news_id i l1 = 0%nat
     | _ => cnt TNew (subject k, c) l1 = 1%nat
     end).
Proof.
  intros p H. apply wf_runs in H. destruct H as [s Hs]. pose proof (run_inv _ _ Hs) as I.
  unfold trace. rewrite Hs. split.
  - intros i. rewrite news_id_rev. apply log_ok_news_le1, (inv_logok _ _ I).
  - intros l1 c t k l2 Ht. pose proof (log_ok_chron _ (inv_logok _ _ I) _ _ _ Ht) as Hok.
    destruct k; simpl in *; tauto.
Qed.

Theorem nothing_after_last_close : forall p, WFprog p ->
  forall l1 c t k l2, trace p = l1 ++ ECall c t k :: l2 -> tag_of k <> TNew ->
  (cnt TClose (subject k, c) l1 < 1 + cnt TClone (subject k, c) l1)%nat.
Proof.
  intros p H l1 c t k l2 Ht Hk. apply wf_runs in H. destruct H as [s Hs]. pose proof (run_inv _ _ Hs) as I.
  unfold trace in Ht. rewrite Hs in Ht. pose proof (log_ok_chron _ (inv_logok _ _ I) _ _ _ Ht) as Hok.
  destruct k; simpl in *; tauto.
Qed.

Theorem counts : forall p, WFprog p -> exists s, run p = Some s /\ forall v,
  let tr := trace p in
  let made := count_key v (d_made (snd s)) in
  let dropped := count_key v (d_dropped (snd s)) in
  (cnt TNew v tr <= 1)%nat /\
  ((1 <= made)%nat -> cnt TNew v tr = 1%nat) /\
  (made = cnt TNew v tr + cnt TClone v tr)%nat /\
  dropped = cnt TClose v tr /\
  (made = dropped + live_handles s v)%nat /\
  (live_handles s v = 0%nat -> (1 <= made)%nat -> cnt TClose v tr = (1 + cnt TClone v tr)%nat).
Proof.
  intros p H. apply wf_runs in H. destruct H as [s Hs]. exists s. split; [assumption|]. intros v.
  pose proof (run_inv _ _ Hs) as I. unfold trace. rewrite Hs. cbv zeta. rewrite !cnt_rev.
  pose proof (inv_made _ _ I v) as Hm. pose proof (inv_dropped _ _ I v) as Hd. pose proof (inv_bal _ _ I v) as Hb.
  assert (Hle : (cnt TNew v (d_log (snd s)) <= 1)%nat).
  { destruct v as [i c]. eapply Nat.le_trans; [apply cnt_new_le_news|]. apply log_ok_news_le1, (inv_logok _ _ I). }
  assert (Hn : (1 <= count_key v (d_made (snd s)))%nat -> cnt TNew v (d_log (snd s)) = 1%nat).
  { intros H1. rewrite Hm in H1.
    destruct (cnt TNew v (d_log (snd s))) eqn:E; [|lia].
    assert (1 <= cnt TNew v (d_log (snd s)))%nat by (apply (log_ok_call_new _ TClone); [apply (inv_logok _ _ I) | lia]). lia. }
  unfold live_handles. repeat split; auto; try lia.
Qed.

Theorem enter_exit : forall p, WFprog p -> exists s, run p = Some s /\ forall v t,
  depth (d_log (snd s)) v t = Some (live_guards s v t) /\
  (forall l1 l2, trace p = l1 ++ l2 -> (cnt_at TExit v t l1 <= cnt_at TEnter v t l1)%nat) /\
  (cnt_at TEnter v t (trace p) = cnt_at TExit v t (trace p) + live_guards s v t)%nat.
Proof.
  intros p H. apply wf_runs in H. destruct H as [s Hs]. exists s. split; [assumption|]. intros v t.
  pose proof (run_inv _ _ Hs) as I. pose proof (inv_depth _ _ I v t) as Hd. unfold trace. rewrite Hs.
  unfold live_guards. repeat split.
  - assumption.
  - intros l1 l2 Ht. assert (HL : d_log (snd s) = rev l2 ++ rev l1).
    { rewrite <- (rev_involutive (d_log (snd s))), Ht, rev_app_distr. reflexivity. }
    assert (Hs1 : depth (rev l1) v t <> None).
    { apply (depth_suffix (rev l2)). rewrite <- HL, Hd. discriminate. }
    destruct (depth (rev l1) v t) as [m|] eqn:E; [|congruence]. apply depth_counts in E.
    rewrite !cnt_at_rev in E. lia.
  - rewrite !cnt_at_rev. apply depth_counts; assumption.
Qed.

(** * Per-step emission theorems: disabled spans are silent; what Instrumented emits *)
Ltac break_match_hyp H :=
  match type of H with
  | context [match ?X with _ => _ end] =>
      tryif (match X with context [match _ with _ => _ end] => idtac end) then fail
      else (let E := fresh "E" in destruct X eqn:E; try discriminate H)
  end.

Definition quiet (l l' : list entry) : Prop :=
  exists marks, l' = marks ++ l /\ forallb is_mark marks = true.
Lemma quiet_refl : forall l, quiet l l.
Proof. intros; exists []; split; reflexivity. Qed.
Lemma quiet_trans : forall a b c, quiet a b -> quiet b c -> quiet a c.
Proof.
  intros a b c [m1 [H1 H1']] [m2 [H2 H2']]. exists (m2 ++ m1). rewrite H2, H1, app_assoc. split; [reflexivity|].
  rewrite forallb_app, H1', H2'; reflexivity.
Qed.

(** a micro-action on an unlogged value is quiet and leaves every value as it was, except possibly a new name *)
Definition msubject (m : micro) : option name :=
  match m with
  | MCloneTo r _ _ | MRecord r _ | MFollows r _ _ | MRelease r _ => Some r
  | MEnterE e | MExitE e => Some (e_holder e)
  | _ => None
  end.
Definition mquiet_kind (m : micro) : bool :=
  match m with MNewSpan _ _ _ _ | MCurrentTo _ _ | MOrCurrent _ _ | MSwap _ _ => false | _ => true end.

Lemma md_quiet : forall m d, mquiet_kind m = true ->
  match msubject m with Some r => unlogged (val_of d r) = true | None => True end ->
  quiet (d_log d) (d_log (md0 m d)) /\ (forall r, match m with MCloneTo _ n _ => r <> n | _ => True end -> val_of (md0 m d) r = val_of d r).
Proof.
  intros m d Hk Hs. destruct m; try discriminate Hk; cbn [msubject] in Hs; cbn [md0].
  - destruct (val_of d r) eqn:E; try discriminate Hs; (split; [apply quiet_refl|]);
      intros r0 Hr; unfold val_of, set_val; simpl; destruct (n =? r0) eqn:E2; try reflexivity;
      apply N.eqb_eq in E2; congruence.
  - destruct (val_of d n); try discriminate Hs; split; auto using quiet_refl.
  - split; auto using quiet_refl.
  - destruct (val_of d (e_holder e)); try discriminate Hs; split; auto using quiet_refl.
  - destruct (val_of d (e_holder e)); try discriminate Hs; split; auto using quiet_refl.
  - destruct (val_of d r); try discriminate Hs; split; auto using quiet_refl.
  - destruct (val_of d r); try discriminate Hs; split; auto using quiet_refl.
  - split; [exists [EMark t m]; split; reflexivity | reflexivity].
  - split; [apply quiet_refl | reflexivity].
  - split; [apply quiet_refl | reflexivity].
  - split; [apply quiet_refl | reflexivity].
  - split; [apply quiet_refl | reflexivity].
  - split; [apply quiet_refl | reflexivity].
Qed.

Lemma mh_log : forall m d d', d_log (mh m d d') = d_log d'.
Proof.
  intros m d d'. destruct m; cbn [mh]; unfold mh_current; try reflexivity;
    repeat match goal with
           | |- d_log (match ?x with _ => _ end) = _ => destruct x
           | |- d_log (if ?x then _ else _) = _ => destruct x
           end; reflexivity.
Qed.
Lemma mh_vals : forall m d d', d_vals (mh m d d') = d_vals d'.
Proof.
  intros m d d'. destruct m; cbn [mh]; unfold mh_current; try reflexivity;
    repeat match goal with
           | |- d_vals (match ?x with _ => _ end) = _ => destruct x
           | |- d_vals (if ?x then _ else _) = _ => destruct x
           end; reflexivity.
Qed.
Lemma mh_val_of : forall m d d' r, val_of (mh m d d') r = val_of d' r.
Proof. intros; unfold val_of; rewrite mh_vals; reflexivity. Qed.
Lemma mh_defaults : forall m d d', d_defaults (mh m d d') = d_defaults d'.
Proof.
  intros m d d'. destruct m; cbn [mh]; unfold mh_current; try reflexivity;
    repeat match goal with
           | |- d_defaults (match ?x with _ => _ end) = _ => destruct x
           | |- d_defaults (if ?x then _ else _) = _ => destruct x
           end; reflexivity.
Qed.
Lemma mh_disp : forall m d d', d_disp (mh m d d') = d_disp d'.
Proof.
  intros m d d'. destruct m; cbn [mh]; unfold mh_current; try reflexivity;
    repeat match goal with
           | |- d_disp (match ?x with _ => _ end) = _ => destruct x
           | |- d_disp (if ?x then _ else _) = _ => destruct x
           end; reflexivity.
Qed.

Lemma md_quiet' : forall m d, mquiet_kind m = true ->
  match msubject m with Some r => unlogged (val_of d r) = true | None => True end ->
  quiet (d_log d) (d_log (md m d)) /\ (forall r, match m with MCloneTo _ n _ => r <> n | _ => True end -> val_of (md m d) r = val_of d r).
Proof.
  intros m d Hk Hs. unfold md. rewrite mh_log. destruct (md_quiet m d Hk Hs) as [Hq Hv]. split; [exact Hq|].
  intros r Hr. rewrite mh_val_of. apply Hv; exact Hr.
Qed.

Definition mcond (d : dyn) (m : micro) : Prop :=
  mquiet_kind m = true /\ match m with MCloneTo _ _ _ => False | _ => True end /\
  match msubject m with Some r => unlogged (val_of d r) = true | None => True end.

Lemma exec_quiet : forall ms s s', exec ms s = Some s' -> Forall (mcond (snd s)) ms ->
  quiet (d_log (snd s)) (d_log (snd s')).
Proof.
  induction ms as [|m ms]; intros s s' H HF; simpl in H.
  - inversion H; subst. apply quiet_refl.
  - destruct (mo m (fst s)) as [o'|]; [|discriminate]. inversion HF as [|? ? [Hk [Hc Hs]] HF']; subst.
    destruct (md_quiet' m (snd s) Hk Hs) as [Hq Hv].
    eapply quiet_trans; [exact Hq|]. apply (IHms _ _ H). simpl.
    eapply Forall_impl; [|exact HF']. intros m' [Hk' [Hc' Hs']]. repeat split; auto.
    destruct (msubject m'); auto. rewrite Hv; [assumption|]. destruct m; auto.
Qed.

Lemma ents_on_holder : forall o n e l, ents_on o n = e :: l -> e_holder e = n.
Proof.
  unfold ents_on; intros o n e l H. assert (Hin : In e (filter (fun e => e_holder e =? n) (o_ents o))) by (rewrite H; simpl; auto).
  apply filter_In in Hin. apply N.eqb_eq; tauto.
Qed.

Ltac qfin H :=
  repeat break_match_hyp H; apply exec_quiet in H; auto; cbn [snd];
  repeat (constructor; try (unfold mcond; cbn [mquiet_kind msubject e_holder]; repeat split; auto));
  try (match goal with H' : ents_on _ _ = _ :: _ |- _ => apply ents_on_holder in H'; rewrite H'; assumption end).

Lemma val_of_set_same' : forall d n v, val_of (set_val d n v) n = v.
Proof. intros. unfold val_of, set_val. simpl. rewrite N.eqb_refl. reflexivity. Qed.

Lemma drop_mcond : forall o t n d ms, drop_micros o t n = Some ms -> unlogged (val_of d n) = true -> Forall (mcond d) ms.
Proof.
  intros o t n d ms H Hu. unfold drop_micros in H.
  destruct (kind_of o n) as [[| |b]|]; try discriminate; destruct (ents_on o n) as [|e [|e' l]] eqn:Ee; try discriminate.
  - inversion H; subst. repeat constructor; cbn [mquiet_kind msubject]; auto.
  - destruct (e_kind e); try discriminate. destruct (e_tid e =? t); [|discriminate]. inversion H; subst.
    apply ents_on_holder in Ee. repeat constructor; cbn [mquiet_kind msubject]; auto; rewrite ?Ee; auto.
  - inversion H; subst. repeat constructor; cbn [mquiet_kind msubject e_holder]; auto.
  - inversion H; subst. repeat constructor; cbn [mquiet_kind msubject e_holder]; auto.
Qed.
Lemma drops_mcond : forall ls o t d ms o', drops o t ls = Some (ms, o') ->
  forallb (fun n => unlogged (val_of d n)) ls = true -> Forall (mcond d) ms.
Proof.
  induction ls as [|n ls]; intros o t d ms o' H Hl; simpl in H; [inversion H; constructor|].
  simpl in Hl. apply andb_true_iff in Hl. destruct Hl as [Hn Hl].
  destruct (drop_micros o t n) as [ms1|] eqn:E1; [|discriminate]. destruct (oexec ms1 o) as [o1|]; [|discriminate].
  destruct (drops o1 t ls) as [[ms2 o2]|] eqn:E2; [|discriminate]. inversion H; subst. apply Forall_app. split.
  - eapply drop_mcond; eassumption.
  - eapply IHls; eassumption.
Qed.
Lemma val_of_set_other : forall d n v m, m <> n -> val_of (set_val d n v) m = val_of d m.
Proof. intros. unfold val_of, set_val. simpl. destruct (n =? m) eqn:E; [apply N.eqb_eq in E; congruence | reflexivity]. Qed.
Lemma md_clone_unlogged : forall d r n t, unlogged (val_of d r) = true ->
  d_log (md (MCloneTo r n t) d) = d_log d /\ val_of (md (MCloneTo r n t) d) n = val_of d r /\
  (forall m, m <> n -> val_of (md (MCloneTo r n t) d) m = val_of d m).
Proof.
  intros d r n t Hu. unfold md. rewrite mh_log. cbn [md0].
  destruct (val_of d r) eqn:E; try discriminate Hu; (split; [reflexivity|split]);
    try (rewrite mh_val_of; apply val_of_set_same'); intros m Hm; rewrite mh_val_of; apply val_of_set_other; exact Hm.
Qed.
Lemma md_release_unlogged : forall d n t, unlogged (val_of d n) = true -> d_log (md (MRelease n t) d) = d_log d.
Proof. intros d n t Hu. unfold md. rewrite mh_log. cbn [md0]. destruct (val_of d n); try discriminate Hu; reflexivity. Qed.
Lemma md_swap : forall d a b, d_log (md (MSwap a b) d) = d_log d /\ val_of (md (MSwap a b) d) b = val_of d a /\
  (a <> b -> val_of (md (MSwap a b) d) a = val_of d b).
Proof.
  intros d a b. unfold md. rewrite mh_log, !mh_val_of. cbn [md0]. cbv zeta. repeat split.
  - apply val_of_set_same'.
  - intros Hab. rewrite val_of_set_other by exact Hab. apply val_of_set_same'.
Qed.

Theorem disabled_silent_step : forall s x s', step s x = Some s' -> on_unlogged s x = true ->
  quiet (d_log (snd s)) (d_log (snd s')).
Proof.
  intros [o d] [t a] s' H Hu. unfold step in H. cbn [fst snd] in *. unfold on_unlogged in Hu. cbn [fst snd] in Hu.
  destruct a; try discriminate Hu; cbn [compile] in H; unfold drop_micros in H; try (qfin H; fail).
  - (* Clone *)
    destruct (readable o r && negb (live o n)); [|discriminate]. simpl in H.
    destruct (live o r && negb (live o n)); [|discriminate]. inversion H; subst; clear H. cbn [snd md0].
    destruct (val_of d r); try discriminate Hu; apply quiet_refl.
  - (* Record chain *)
    destruct (readable o r); [|discriminate]. apply exec_quiet in H; auto. cbn [snd].
    apply Forall_forall. intros m Hm. apply in_map_iff in Hm. destruct Hm as [b [<- _]].
    unfold mcond; cbn [mquiet_kind msubject]; repeat split; auto.
  - (* SpanMutSwap *)
    destruct (is_anyfut o f && free o f && is_handle o n && free o n); [|discriminate]. simpl in H.
    destruct (free o f && free o n && negb (f =? n)); [|discriminate]. inversion H; subst; clear H. apply quiet_refl.
  - (* CloneFut *)
    assert (Hq : forall k, exec [MCloneTo f n t; MSetKind n k; MCopyDisp f n] (o, d) = Some s' -> quiet (d_log d) (d_log (snd s'))).
    { intros k Hk. simpl in Hk; repeat (break_match_hyp Hk; simpl in Hk); inversion Hk; subst; clear Hk;
        cbn [snd md0 with_disp set_val emit note_made d_log]; try discriminate Hu; try apply quiet_refl.
      all: destruct (val_of d f); try discriminate Hu; apply quiet_refl. }
    destruct (kind_of o f) as [[| |b]|]; try discriminate H;
      (destruct (readable o f && negb (live o n)); [|discriminate]); eapply Hq; exact H.
  - (* CloneDrop *)
    destruct (readable o r && negb (live o n)); [|discriminate].
    cbn [exec fst snd] in H. destruct (mo (MCloneTo r n t) o) as [o1|]; [|discriminate].
    destruct (mo (MRelease n t) o1) as [o2|]; [|discriminate].
    remember (md (MRelease n t) (md (MCloneTo r n t) d)) as dd eqn:Edd. injection H as <-. change (snd (o2, dd)) with dd. subst dd.
    destruct (md_clone_unlogged d r n t Hu) as [H1 [H2 _]].
    rewrite md_release_unlogged by (rewrite H2; exact Hu). rewrite H1. apply quiet_refl.
  - (* CloneFrom *)
    apply andb_true_iff in Hu. destruct Hu as [Hua Hub].
    destruct (is_handle o a && free o a && readable o b && negb (a =? b) && negb (live o n)) eqn:Ec; [|discriminate].
    apply andb_true_iff in Ec. destruct Ec as [Ec En0]. apply andb_true_iff in Ec. destruct Ec as [Ec Efn].
    apply andb_true_iff in Ec. destruct Ec as [Ec Ern]. apply andb_true_iff in Ec. destruct Ec as [_ Efree].
    assert (Hf0 : a <> n).
    { intro Heq; subst n. apply negb_true_iff in En0. unfold free in Efree. apply andb_true_iff in Efree. destruct Efree as [El _]. congruence. }
    cbn [exec fst snd] in H. destruct (mo (MCloneTo b n t) o) as [o1|]; [|discriminate].
    destruct (mo (MSwap a n) o1) as [o2|]; [|discriminate]. destruct (mo (MRelease n t) o2) as [o3|]; [|discriminate].
    remember (md (MRelease n t) (md (MSwap a n) (md (MCloneTo b n t) d))) as dd eqn:Edd. injection H as <-.
    change (snd (o3, dd)) with dd. subst dd.
    destruct (md_clone_unlogged d b n t Hub) as [H1 [H2 H3]].
    destruct (md_swap (md (MCloneTo b n t) d) a n) as [S1 [S2 _]].
    rewrite md_release_unlogged; [rewrite S1, H1; apply quiet_refl|].
    rewrite S2, H3 by exact Hf0. exact Hua.
  - (* ScopeEndL *)
    apply andb_true_iff in Hu. destruct Hu as [Hf Hl].
    destruct (drops o t ls) as [[ms o']|] eqn:Ed; [|discriminate].
    destruct (top_frame o' t) as [e|]; [|discriminate]. destruct (e_kind e); try discriminate.
    apply exec_quiet in H; auto. cbn [snd]. apply Forall_app. split; [eapply drops_mcond; eassumption|].
    constructor; [|constructor]. unfold mcond; cbn [mquiet_kind msubject]; repeat split; auto.
  - (* PollEndL *)
    apply andb_true_iff in Hu. destruct Hu as [Hf Hl].
    destruct (drops o t ls) as [[ms o']|] eqn:Ed; [|discriminate].
    destruct (top_frame o' t) as [e|]; [|discriminate]. destruct (e_kind e); try discriminate.
    destruct (kind_of o' (e_holder e)) as [[| |[|]]|]; try discriminate;
      (apply exec_quiet in H; auto; cbn [snd]; apply Forall_app; split; [eapply drops_mcond; eassumption|];
       repeat (constructor; try (unfold mcond; cbn [mquiet_kind msubject]; repeat split; auto))).
Qed.

Lemma find_some_prop : forall {A} (f : A -> bool) l x, find f l = Some x -> f x = true.
Proof. intros A f l x H. apply find_some in H. tauto. Qed.

Theorem instrumented_step : forall s t f s', is_anyfut (fst s) f = true ->
  let v := val_of (snd s) f in
  (step s (t, PollBegin f) = Some s' ->
     d_log (snd s') = EMark t (MBody f) :: enter_entries v t ++ d_log (snd s)) /\
  (step s (t, Drop f) = Some s' ->
     d_log (snd s') = close_entries v t ++ exit_entries v t ++ EMark t (MInnerDrop f) :: enter_entries v t ++ d_log (snd s)) /\
  (step s (t, IntoInner f) = Some s' ->
     d_log (snd s') = EMark t (MInnerDrop f) :: close_entries v t ++ d_log (snd s)).
Proof.
  intros [o d] t f s' Hf v. subst v. cbn [fst snd] in *. unfold step. cbn [fst snd compile]. unfold drop_micros.
  unfold is_anyfut in Hf. destruct (kind_of o f) as [[| |b]|] eqn:Ek; try discriminate Hf; try destruct b;
  unfold is_anyfut; rewrite ?Ek; unfold val_of;
  (destruct (lookup (d_vals d) f) as [[| |i c]|] eqn:El;
    (repeat split; intros H; simpl in H; unfold val_of in H; simpl in H; rewrite ?El in H;
     repeat (break_match_hyp H; simpl in H; unfold val_of in H; simpl in H; rewrite ?El in H);
     inversion H; subst; clear H; simpl; reflexivity)).
Qed.

(** polling a WithDispatch-wrapped future: the wrapper's Dispatch is the thread's default while the body runs, the span
    is nevertheless entered / exited at its own collector, and the previous default is back afterwards *)
Lemma ent_eqb_refl : forall e, ent_eqb e e = true.
Proof. intros [k h t]. unfold ent_eqb; simpl. rewrite !N.eqb_refl, !andb_true_r. destruct k; simpl; auto using N.eqb_refl. Qed.
Lemma mem_ent_head : forall e es, mem_ent e (e :: es) = true.
Proof. intros; unfold mem_ent; simpl. rewrite ent_eqb_refl. reflexivity. Qed.
Lemma remove_ent_head : forall e es, remove_ent e (e :: es) = es.
Proof. intros; simpl. rewrite ent_eqb_refl. reflexivity. Qed.
Lemma cur_default_push_pop : forall d t c x,
  cur_default (with_defaults d (remove_name t ((t, c) :: x))) t = cur_default (with_defaults d x) t.
Proof. intros. unfold cur_default, with_defaults; simpl. rewrite N.eqb_refl. reflexivity. Qed.

Theorem with_dispatch_step : forall s t f b s', kind_of (fst s) f = Some (KFutW b) ->
  step s (t, PollBegin f) = Some s' ->
  d_log (snd s') = EMark t (MBody f) :: enter_entries (val_of (snd s) f) t ++ d_log (snd s) /\
  cur_default (snd s') t = disp_of (snd s) f /\
  kind_of (fst s') f = Some (KFutW b) /\
  forall r s'', step s' (t, PollEnd r) = Some s'' ->
    d_log (snd s'') = exit_entries (val_of (snd s) f) t ++ d_log (snd s') /\
    cur_default (snd s'') t = cur_default (snd s) t.
Proof.
  intros [o d] t f b s' Hk H. unfold step in H. cbn [fst snd compile] in *. rewrite Hk in H.
  destruct (free o f) eqn:Hfree; [|discriminate].
  assert (Hlive : live o f = true) by (unfold free in Hfree; apply andb_true_iff in Hfree; tauto).
  assert (Htop : forall es, top_frame (mkOwn (o_holders o) (mkEnt EPoll f t :: es)) t = Some (mkEnt EPoll f t)).
  { intros es. unfold top_frame. simpl. unfold is_control. simpl. rewrite N.eqb_refl. reflexivity. }
  assert (Hk' : forall es, kind_of (mkOwn (o_holders o) es) f = Some (KFutW b)) by (intros; exact Hk).
  destruct b; cbn [exec mo md0 fst snd e_holder] in H; rewrite ?Hlive in H; cbn [exec mo md0 fst snd e_holder] in H;
    inversion H; subst s'; clear H; cbn [fst snd];
    (split; [|split; [|split; [apply Hk'|]]]);
    try (intros r s'' H2; unfold step in H2; cbn [fst snd compile] in H2; rewrite Htop in H2; cbn [e_kind e_holder] in H2;
         rewrite Hk' in H2; cbn [exec mo md0 fst snd e_holder o_ents o_holders] in H2; rewrite ?mem_ent_head in H2;
         cbn [exec mo md0 fst snd e_holder o_ents o_holders] in H2; rewrite ?mem_ent_head in H2;
         cbn [exec mo md0 fst snd e_holder o_ents o_holders] in H2; inversion H2; subst s''; clear H2; cbn [fst snd]);
    unfold val_of, cur_default, disp_of; simpl;
    destruct (lookup (d_vals d) f) as [[| |i c]|] eqn:El; simpl; rewrite ?El; simpl;
    rewrite ?N.eqb_refl; try split; try reflexivity.
Qed.

(** the pure accessors, follows_from(None) and the inner-future accessors of Instrumented call no collector; swapping the
    span of a future through span_mut calls nothing and exchanges the two values *)
Theorem accessors_silent : forall s t s',
  (forall r q, step s (t, Query r q) = Some s' -> s' = s) /\
  (forall r, step s (t, FollowsFrom r FNone) = Some s' -> s' = s) /\
  (forall r ks, forallb negb ks = true -> step s (t, Record r ks) = Some s' -> s' = s) /\
  (forall f k, step s (t, InnerAccess f k) = Some s' -> d_log (snd s') = EMark t (MInnerTouch f) :: d_log (snd s)) /\
  (forall f n, step s (t, SpanMutSwap f n) = Some s' ->
     d_log (snd s') = d_log (snd s) /\ val_of (snd s') f = val_of (snd s) n /\ val_of (snd s') n = val_of (snd s) f).
Proof.
  intros [o d] t s'. unfold step. cbn [fst snd compile]. repeat split.
  - intros r q H. destruct (readable o r); inversion H; reflexivity.
  - intros r H. destruct (readable o r); inversion H; reflexivity.
  - intros r ks Hk H. destruct (readable o r); [|discriminate].
    assert (E : filter (fun b : bool => b) ks = []).
    { clear H. induction ks as [|b ks]; [reflexivity|]. simpl in Hk. apply andb_true_iff in Hk. destruct Hk as [Hb Hk].
      destruct b; [discriminate|]. simpl. auto. }
    rewrite E in H. inversion H; reflexivity.
  - intros f k H. destruct (is_anyfut o f && (if N.even k then readable o f else free o f)); [|discriminate].
    inversion H; reflexivity.
  - destruct (is_anyfut o f && free o f && is_handle o n && free o n); [|discriminate]. simpl in H.
    destruct (free o f && free o n && negb (f =? n)); [|discriminate]. inversion H; reflexivity.
  - destruct (is_anyfut o f && free o f && is_handle o n && free o n); [|discriminate]. simpl in H.
    destruct (free o f && free o n && negb (f =? n)) eqn:E; [|discriminate]. inversion H; subst; clear H.
    apply andb_true_iff in E. destruct E as [_ E]. apply negb_true_iff in E.
    unfold val_of; simpl. rewrite N.eqb_sym, E. rewrite N.eqb_refl. reflexivity.
  - destruct (is_anyfut o f && free o f && is_handle o n && free o n); [|discriminate]. simpl in H.
    destruct (free o f && free o n && negb (f =? n)) eqn:E; [|discriminate]. inversion H; subst; clear H.
    unfold val_of; simpl. rewrite N.eqb_refl. reflexivity.
Qed.

Definition p_demo2 : prog :=
  [ (0, SetDefault 1); (0, New 0 Direct PNoneId); (0, New 1 (ViaMacro true) (PExpId 0)); (0, Clone 0 2);
    (0, Query 0 2); (0, Record 1 [true; false; true]); (0, FollowsFrom 1 (FId 0)); (0, FollowsFrom 1 FNone);
    (0, Instrument 2 false (WWith 2));                (* Instrumented<WithDispatch<_>>, a foreign collector inside *)
    (1, PollBegin 2); (1, Current 3); (1, New 4 Direct PCtx); (1, PollEnd Ready);
    (0, Instrument 1 true WNone); (0, WithCollector 1 None);   (* WithDispatch<Instrumented<_>>, capturing collector 1 *)
    (1, SetDefault 2); (1, PollBegin 1); (1, Current 5); (1, PollEnd Pending);
    (0, InnerAccess 1 1); (0, CloneFut 1 6); (0, SpanMutSwap 6 0); (1, Entered 5);
    (0, IntoInner 6); (0, Drop 1); (0, Drop 2); (0, Drop 0); (1, Drop 3); (1, Drop 4); (1, Drop 5) ].
Example demo2_wf : WFprog p_demo2.
Proof. vm_compute. reflexivity. Qed.
Example demo2_trace :
  length (trace p_demo2) = 31%nat /\
  (* the span created inside the poll of Instrumented<WithDispatch(2)<_>> belongs to collector 2, while the instrumenting
     span (1, collector 1) is entered and exited at collector 1 on the polling thread *)
  cnt TNew (3, 2) (trace p_demo2) = 1%nat /\ cnt_at TEnter (1, 1) 1 (trace p_demo2) = 1%nat /\
  cnt_at TExit (1, 1) 1 (trace p_demo2) = 1%nat /\
  (* Span::current inside WithDispatch(1)<Instrumented<_>> polled under default 2 sees span 2 of collector 1 *)
  cnt TClone (2, 1) (trace p_demo2) = 2%nat /\ cnt TClose (2, 1) (trace p_demo2) = 3%nat /\
  cnt TRecord (2, 1) (trace p_demo2) = 2%nat /\ cnt TFollows (2, 1) (trace p_demo2) = 1%nat.
Proof. vm_compute. repeat split; reflexivity. Qed.



Theorem instrumented_poll_end : forall s t r s', step s (t, PollEnd r) = Some s' ->
  exists e, top_frame (fst s) t = Some e /\ e_kind e = EPoll /\ e_tid e = t /\
            d_log (snd s') = exit_entries (val_of (snd s) (e_holder e)) t ++ d_log (snd s).
Proof.
  intros [o d] t r s' H. unfold step in H. cbn [fst snd compile] in *.
  destruct (top_frame o t) as [e|] eqn:Et; [|discriminate]. destruct (e_kind e) eqn:Ek; try discriminate.
  exists e. repeat split; auto.
  - apply find_some_prop in Et. unfold is_control in Et. apply andb_true_iff in Et. apply N.eqb_eq; tauto.
  - assert (Htid : e_tid e = t).
    { apply find_some_prop in Et. unfold is_control in Et. apply andb_true_iff in Et. apply N.eqb_eq; tauto. }
    unfold val_of. destruct (lookup (d_vals d) (e_holder e)) as [[| |i c]|] eqn:El;
      (simpl in H; unfold val_of in H; simpl in H; rewrite ?El in H;
       repeat (break_match_hyp H; simpl in H; unfold val_of in H; simpl in H; rewrite ?El in H);
       inversion H; subst; clear H; simpl; reflexivity).
Qed.

(** * Program-level forms *)
Lemma run_from_snoc : forall p s x,
  run_from s (p ++ [x]) = match run_from s p with Some s1 => step s1 x | None => None end.
Proof.
  induction p as [|y p]; intros s x; simpl.
  - destruct (step s x); reflexivity.
  - destruct (step s y); [apply IHp | reflexivity].
Qed.
Lemma run_snoc : forall p x, run (p ++ [x]) = match run p with Some s => step s x | None => None end.
Proof. intros; apply run_from_snoc. Qed.

Theorem disabled_silent : forall p x, WFprog (p ++ [x]) ->
  exists s s', run p = Some s /\ run (p ++ [x]) = Some s' /\
    (on_unlogged s x = true -> quiet (d_log (snd s)) (d_log (snd s'))).
Proof.
  intros p x H. apply wf_runs in H. destruct H as [s' Hs']. rewrite run_snoc in Hs'.
  destruct (run p) as [s|] eqn:E; [|discriminate]. exists s, s'. rewrite run_snoc, E. repeat split; auto.
  intros Hu. eapply disabled_silent_step; eassumption.
Qed.

(** the disabled branch of span! (the collector said no, or there is no collector): a Span with no inner, no call *)
Theorem disabled_branch_silent : forall s t n par s',
  step s (t, New n (ViaMacro false) par) = Some s' ->
  d_log (snd s') = d_log (snd s) /\ val_of (snd s') n = SNone.
Proof.
  intros [o d] t n par s' H. unfold step in H. cbn [fst snd compile] in H.
  repeat (break_match_hyp H; simpl in H); inversion H; subst; clear H; simpl; unfold val_of; simpl;
  rewrite N.eqb_refl; split; reflexivity.
Qed.

(** * Non-vacuity *)
Definition p_demo : prog :=
  [ (0, SetDefault 1); (0, New 0 (ViaMacro true) PCtx); (0, Clone 0 1); (1, SetDefault 2);
    (1, Enter 0 0); (1, Enter 1 1); (1, DropGuard 0);            (* out of order, under a foreign default *)
    (0, Entered 0); (0, Current 2); (1, DropGuard 1);
    (0, Instrument 1 false WNone); (1, PollBegin 1); (1, PollEnd Pending); (0, Drop 1);   (* dropped between polls *)
    (0, New 3 (ViaMacro false) PRoot); (0, Enter 3 7); (0, DropGuard 7); (0, Drop 3); (* a disabled span *)
    (0, Drop 0); (1, Drop 2) ].
Example demo_wf : WFprog p_demo.
Proof. vm_compute. reflexivity. Qed.
Example demo_trace :
  length (trace p_demo) = 18%nat /\ cnt TNew (1, 1) (trace p_demo) = 1%nat /\ cnt TClone (1, 1) (trace p_demo) = 2%nat /\
  cnt TClose (1, 1) (trace p_demo) = 3%nat /\ cnt_at TEnter (1, 1) 1 (trace p_demo) = 3%nat /\
  cnt_at TExit (1, 1) 1 (trace p_demo) = 3%nat.
Proof. vm_compute. repeat split; reflexivity. Qed.
Example demo_disabled_step :
  exists s s', run [(0, SetDefault 1); (0, New 3 (ViaMacro false) PRoot)] = Some s /\
    step s (0, Enter 3 7) = Some s' /\ on_unlogged s (0, Enter 3 7) = true.
Proof. eexists; eexists. vm_compute. repeat split; reflexivity. Qed.
Example demo_illformed : wf_prog [(0, SetDefault 1); (0, New 0 Direct PRoot); (1, Enter 0 0); (0, Drop 0)] = false
                      /\ wf_prog [(0, New 0 Direct PRoot); (0, Enter 0 0); (1, DropGuard 0)] = false.
Proof. vm_compute. split; reflexivity. Qed.
