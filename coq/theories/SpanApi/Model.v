(** SpanApi/Model.v — executable model of the Span handle API (C03).  No proofs in this file.

    Mirrors, as they are in /repo now:
      tracing/src/span.rs        Span::{new,new_root,child_of,none,new_disabled,current,or_current,enter,entered,
                                 in_scope,record,follows_from}, Inner = (Id, Dispatch), Clone for Inner (clone_span),
                                 Drop for Span (try_close), Drop for Entered / EnteredSpan (do_exit), EnteredSpan::exit
      tracing/src/instrument.rs  Instrumented::{poll, PinnedDrop, into_inner, span, span_mut, inner, inner_mut,
                                 inner_pin_ref, inner_pin_mut}, derive(Clone) for Instrumented,
                                 WithCollector::{with_collector, with_current_collector}, WithDispatch::poll
                                 (tracing-futures: same shapes)
      tracing/src/macros.rs      span!: the enabled branch calls Span::new / child_of, the disabled branch returns
      tracing/src/lib.rs         MacroCallsite::disabled_span() = Span::none()  (the `log` feature is off)

    A *program* is a list of (thread, action).  Every value that owns a `Span` lives in a named *holder*:
    a plain handle, an `EnteredSpan` (a handle plus an [EOwned] entry) or an `Instrumented` future ([KFut]).
    Everything that holds the span *entered* is an [ent]: a borrowed `Entered<'_>` guard, an `EnteredSpan`, a running
    `in_scope` closure, a running `Instrumented::poll`, and the transient guard of `PinnedDrop`.

    Collectors are abstract; numbers 1, 2 return from `clone_span` the id they were given, numbers 3, 4, ... hand out a
    fresh alias id per handle and do not track the current span.  [md0] is the semantics in terms of spans (what the
    theorems count), [mh] the ghost layer of the ids actually on the wire ([d_hid], [d_hlog]); [md] = both.

    The state is a pair (own, dyn).  [own] is what rustc tracks (which names are live, what borrows them, on which
    thread a !Send guard lives, each thread's control stack); [compile] and [mo] read and write *only* [own], so
    well-formedness [wf_prog] is static by construction.  [dyn] holds the span values, the thread-default stacks,
    the collectors' id counter and the call log.  The collector is abstract: [new_span] hands out a fresh id,
    [clone_span] returns the id it was given, [current_span] is the innermost span it was told is entered on
    that thread; every call is appended to the log as (collector, thread, call). *)
From Coq Require Import List NArith Bool.
Import ListNotations.
Local Open Scope N_scope.

Definition tid := N.
Definition cid := N.      (* 0 = no collector (Dispatch::none / NoCollector); 1.. = recording collectors *)
Definition name := N.
Definition sid := N.
Definition key := (sid * cid)%type.   (* a span: the id and the collector that issued it *)

Definition NOCOLL_ID : sid := 57005.   (* NoCollector::new_span returns Id 0xDEAD *)

(** The `inner` field of a Span. *)
Inductive sval :=
| SNone                      (* inner = None: Span::none(), disabled_span(), Span::current() with no current span *)
| SNoColl                    (* inner = Some(0xDEAD, Dispatch::none()): made by Span::new* under no default *)
| SSpan (i : sid) (c : cid). (* inner = Some(id, dispatch of collector c), c <> 0 *)

Inductive parent := PRoot | PCtx
                  | PExp (r : name)      (* parent: &span *)
                  | PExpId (r : name)    (* parent: span.id()   (an Option<Id>) *)
                  | PNoneId.             (* Span::child_of(None, ..) / span!(parent: None, ..): a root *)
Definition parent_ref (p : parent) : option name := match p with PExp r | PExpId r => Some r | _ => None end.
Inductive fsrc := FSpan (r' : name)      (* r.follows_from(&r') *)
                | FId (r' : name)        (* r.follows_from(r'.id()) *)
                | FNone.                 (* r.follows_from(None::<Id>) *)
Inductive futw := WNone                  (* fut.instrument(span) *)
                | WWith (c : cid)        (* fut.with_collector(c).instrument(span): Instrumented<WithDispatch<_>> *)
                | WCurrent.              (* fut.with_current_collector().instrument(span) *)
Inductive how := ViaMacro (en : bool)   (* span!: `en` is the default collector's answer to enabled() *)
               | Direct.                (* Span::new / new_root / child_of called directly *)
Inductive pollres := Pending | Ready | Panicked.

Inductive action :=
| New (n : name) (h : how) (p : parent)
| Clone (r n : name)                 (* n = r.clone() *)
| Current (n : name)                 (* n = Span::current() *)
| OrCurrent (n : name)               (* n = n.or_current() *)
| Drop (n : name)                    (* drop a handle, an EnteredSpan or an Instrumented future *)
| Enter (r g : name)                 (* g = r.enter()   (borrowed guard; r may be a handle, an EnteredSpan via Deref, fut.span()) *)
| DropGuard (g : name)               (* in any order *)
| Entered (n : name)                 (* n = n.entered()     (the holder keeps its name) *)
| ExitOwned (n : name)               (* n = n.exit() *)
| ScopeBegin (r : name)              (* r.in_scope(|| { ... *)
| ScopeEnd (unwind : bool)           (*   ... })   returning or unwinding *)
| Record (r : name) (ks : list bool) (* r.record(f1, _).record(f2, _)...: one call per element; false = no such field *)
| FollowsFrom (r : name) (src : fsrc)
| Query (r : name) (q : N)           (* r.is_none() / is_disabled() / id() / metadata().is_some()   (q = 0..3) *)
| Instrument (n : name) (flavour : bool) (w : futw)  (* n = fut.instrument(n); flavour: tracing / tracing-futures (same model) *)
| WithCollector (f : name) (c : option cid)  (* f = f.with_collector(c) / f.with_current_collector(): WithDispatch<Instrumented<_>> *)
| InnerAccess (f : name) (k : N)     (* f.inner() / inner_mut() / inner_pin_ref() / inner_pin_mut() (k = 0..3): no enter *)
| SpanMutSwap (f n : name)           (* mem::swap(f.span_mut(), &mut n) *)
| CloneFut (f n : name)              (* n = f.clone()   (derive(Clone) for Instrumented / WithDispatch) *)
| CloneDrop (r n : name)             (* drop(r.clone()) with method syntax on the holder itself: on an EnteredSpan guard `.clone()`
                                        auto-derefs to Span::clone and yields a plain Span (n: a scratch name, dead before and after) *)
| CloneFrom (a b n : name)           (* a.clone_from(&b)  (also through Box / Option / Vec ::clone_from; n: scratch name) *)
| PDrop (n : name)                   (* n is a local of a frame that unwinds (a contained panic): dropped while the thread panics *)
| ScopeEndL (unwind : bool) (ls : list name)   (* the in_scope closure returns / unwinds owning the holders ls as locals:
                                                  they are dropped in order, then the guard exits *)
| PollEndL (res : pollres) (ls : list name)    (* the same for the body of a poll *)
| InstrumentCurrent (n : name) (flavour : bool)  (* n = fut.in_current_span() *)
| PollBegin (f : name)               (* Pin::new(&mut f).poll(cx) { ... *)
| PollEnd (res : pollres)            (*   ... } *)
| IntoInner (f : name)               (* drop(f.into_inner()) *)
| SetDefault (c : cid)               (* let _scope = dispatch::set_default(c)   (0 = Dispatch::none()) *)
| CloseScope.                        (* drop the innermost default guard of this thread *)

Definition op := (tid * action)%type.
Definition prog := list op.

(** * What the collectors see *)
Inductive pobs := ORoot | OCtx | OExp (pid : sid).
Inductive call :=
| CNew (i : sid) (par : pobs) | CClone (i : sid) | CClose (i : sid) | CEnter (i : sid) | CExit (i : sid)
| CRecord (i : sid) | CFollows (i from : sid).
Inductive mark := MBody (f : name) | MInnerDrop (f : name) | MInnerTouch (f : name).
Inductive entry := ECall (c : cid) (t : tid) (k : call) | EMark (t : tid) (m : mark).

Definition subject (k : call) : sid :=
  match k with CNew i _ | CClone i | CClose i | CEnter i | CExit i | CRecord i | CFollows i _ => i end.

(** * Ownership state (static) *)
Inductive ekind := EGuard (g : name) | EScope | EPoll | EOwned | ETmp.
Record ent := mkEnt { e_kind : ekind; e_holder : name; e_tid : tid }.
Inductive hkind := KHandle | KFut
                 | KFutW (inside : bool).  (* false: WithDispatch<Instrumented<F>>, true: Instrumented<WithDispatch<F>> *)
Record own := mkOwn { o_holders : list (name * hkind); o_ents : list ent (* newest first *) }.

Definition ekind_eqb (a b : ekind) : bool :=
  match a, b with
  | EGuard g, EGuard g' => g =? g' | EScope, EScope | EPoll, EPoll | EOwned, EOwned | ETmp, ETmp => true
  | _, _ => false end.
Definition ent_eqb (a b : ent) : bool :=
  ekind_eqb (e_kind a) (e_kind b) && (e_holder a =? e_holder b) && (e_tid a =? e_tid b).

Definition names (hs : list (name * hkind)) : list name := map fst hs.
Fixpoint memN (n : N) (l : list N) : bool := match l with [] => false | x :: l' => (x =? n) || memN n l' end.
Definition live (o : own) (n : name) : bool := memN n (names (o_holders o)).

Fixpoint lookup {A} (l : list (N * A)) (n : N) : option A :=
  match l with [] => None | (m, a) :: l' => if m =? n then Some a else lookup l' n end.
Fixpoint remove_name {A} (n : N) (l : list (N * A)) : list (N * A) :=
  match l with [] => [] | (m, a) :: l' => if m =? n then l' else (m, a) :: remove_name n l' end.
Fixpoint set_kind (n : name) (k : hkind) (l : list (name * hkind)) : list (name * hkind) :=
  match l with [] => [] | (m, a) :: l' => if m =? n then (m, k) :: l' else (m, a) :: set_kind n k l' end.
Fixpoint remove_ent (e : ent) (l : list ent) : list ent :=
  match l with [] => [] | x :: l' => if ent_eqb x e then l' else x :: remove_ent e l' end.
Definition mem_ent (e : ent) (l : list ent) : bool := existsb (fun x => ent_eqb x e) l.

Definition ents_on (o : own) (n : name) : list ent := filter (fun e => e_holder e =? n) (o_ents o).
Definition is_lock (e : ent) : bool := match e_kind e with EPoll | ETmp => true | _ => false end.
(** `&Span` obtainable: live and not exclusively borrowed by a running poll / drop *)
Definition readable (o : own) (r : name) : bool := live o r && negb (existsb is_lock (ents_on o r)).
(** may be moved / consumed / mutably borrowed: live and nothing borrows it *)
Definition free (o : own) (n : name) : bool :=
  live o n && match ents_on o n with [] => true | _ => false end.
Definition is_control (t : tid) (e : ent) : bool :=
  (e_tid e =? t) && match e_kind e with EScope | EPoll => true | _ => false end.
Definition top_frame (o : own) (t : tid) : option ent := find (is_control t) (o_ents o).
Definition find_guard (o : own) (g : name) : option ent :=
  find (fun e => match e_kind e with EGuard g' => g' =? g | _ => false end) (o_ents o).

(** * Micro-actions: the primitive effects API calls are made of *)
Inductive micro :=
| MNewSpan (n : name) (t : tid) (h : how) (p : parent)
| MCloneTo (r n : name) (t : tid)
| MCurrentTo (n : name) (t : tid)
| MOrCurrent (n : name) (t : tid)
| MRelease (n : name) (t : tid)        (* Drop for Span: try_close *)
| MSetKind (n : name) (k : hkind)
| MEnterE (e : ent)                    (* do_enter, the guard comes into existence *)
| MExitE (e : ent)                     (* the guard goes away, do_exit *)
| MRecord (r : name) (t : tid)
| MFollows (r r' : name) (t : tid)
| MMark (t : tid) (m : mark)
| MPushDefault (t : tid) (c : cid)
| MPopDefault (t : tid)
| MSetDisp (f : name) (t : tid) (c : option cid)  (* the Dispatch a WithDispatch wrapper captures (None: the current default) *)
| MPushDisp (t : tid) (f : name)       (* WithDispatch::poll: set_default(&self.dispatch) *)
| MCopyDisp (f n : name)
| MSwap (a b : name).                  (* two Span values change places *)

(** Ownership effect; [None] = a precondition the balance argument relies on does not hold. *)
Definition mo (m : micro) (o : own) : option own :=
  match m with
  | MNewSpan n _ _ p =>
      if negb (live o n) && match parent_ref p with Some r => live o r | None => true end
      then Some (mkOwn ((n, KHandle) :: o_holders o) (o_ents o)) else None
  | MCloneTo r n _ =>
      if live o r && negb (live o n) then Some (mkOwn ((n, KHandle) :: o_holders o) (o_ents o)) else None
  | MCurrentTo n _ =>
      if negb (live o n) then Some (mkOwn ((n, KHandle) :: o_holders o) (o_ents o)) else None
  | MOrCurrent n _ => if free o n then Some o else None
  | MRelease n _ => if free o n then Some (mkOwn (remove_name n (o_holders o)) (o_ents o)) else None
  | MSetKind n k => if live o n then Some (mkOwn (set_kind n k (o_holders o)) (o_ents o)) else None
  | MEnterE e => if live o (e_holder e) then Some (mkOwn (o_holders o) (e :: o_ents o)) else None
  | MExitE e => if mem_ent e (o_ents o) then Some (mkOwn (o_holders o) (remove_ent e (o_ents o))) else None
  | MRecord r _ => if live o r then Some o else None
  | MFollows r r' _ => if live o r && live o r' then Some o else None
  | MMark _ _ | MPushDefault _ _ | MPopDefault _ | MPushDisp _ _ | MCopyDisp _ _ => Some o
  | MSetDisp f _ _ => if live o f then Some o else None
  | MSwap a b => if free o a && free o b && negb (a =? b) then Some o else None
  end.

(** * What rustc accepts: an action of thread [t] in ownership state [o] expands to micro-actions, or is rejected. *)
Definition kind_of (o : own) (n : name) : option hkind := lookup (o_holders o) n.
Definition is_handle (o : own) (n : name) : bool := match kind_of o n with Some KHandle => true | _ => false end.
Definition is_fut (o : own) (n : name) : bool := match kind_of o n with Some KFut => true | _ => false end.
Definition is_anyfut (o : own) (n : name) : bool :=
  match kind_of o n with Some KFut | Some (KFutW _) => true | _ => false end.
(** thread t is inside the poll of a WithDispatch-wrapped future: the wrapper's DefaultGuard sits in that stack frame, so
    the thread's default scopes may not be opened / closed underneath it (out-of-order DefaultGuard drops are C02's) *)
Definition in_wd_poll (o : own) (t : tid) : bool :=
  existsb (fun e => (e_tid e =? t) && match e_kind e with EPoll => true | _ => false end &&
                    match kind_of o (e_holder e) with Some (KFutW _) => true | _ => false end) (o_ents o).

(** dropping holder n on thread t: a plain handle, an EnteredSpan of that thread, or an Instrumented future *)
Definition drop_micros (o : own) (t : tid) (n : name) : option (list micro) :=
      match kind_of o n, ents_on o n with
      | Some KHandle, [] => Some [MRelease n t]
      | Some KHandle, [e] =>
          match e_kind e with
          | EOwned => if e_tid e =? t then Some [MExitE e; MRelease n t] else None   (* EnteredSpan is !Send *)
          | _ => None end
      | Some KHandle, _ => None
      | Some _, [] =>                       (* an Instrumented future, WithDispatch-wrapped or not *)
          let e := mkEnt ETmp n t in
          Some [MEnterE e; MMark t (MInnerDrop n); MExitE e; MRelease n t]
      | _, _ => None
      end.

Fixpoint oexec (ms : list micro) (o : own) : option own :=
  match ms with [] => Some o | m :: ms' => match mo m o with Some o' => oexec ms' o' | None => None end end.

(** dropping the locals ls of a frame, in order: the micro-actions and the ownership state afterwards *)
Fixpoint drops (o : own) (t : tid) (ls : list name) : option (list micro * own) :=
  match ls with
  | [] => Some ([], o)
  | n :: ls' =>
      match drop_micros o t n with
      | Some ms =>
          match oexec ms o with
          | Some o1 =>
              match drops o1 t ls' with
              | Some (ms', o2) => Some (ms ++ ms', o2)
              | None => None
              end
          | None => None
          end
      | None => None
      end
  end.

Definition compile (o : own) (t : tid) (a : action) : option (list micro) :=
  match a with
  | New n h p =>
      if negb (live o n) && match parent_ref p with Some r => readable o r | None => true end
      then Some [MNewSpan n t h p] else None
  | Clone r n => if readable o r && negb (live o n) then Some [MCloneTo r n t] else None
  | Current n => if negb (live o n) then Some [MCurrentTo n t] else None
  | OrCurrent n => if is_handle o n && free o n then Some [MOrCurrent n t] else None
  | Drop n | PDrop n => drop_micros o t n
  | Enter r g =>
      if readable o r && match find_guard o g with None => true | Some _ => false end
      then Some [MEnterE (mkEnt (EGuard g) r t)] else None
  | DropGuard g =>
      match find_guard o g with
      | Some e => if e_tid e =? t then Some [MExitE e] else None                     (* Entered<'_> is !Send *)
      | None => None end
  | Entered n => if is_handle o n && free o n then Some [MEnterE (mkEnt EOwned n t)] else None
  | ExitOwned n =>
      match ents_on o n with
      | [e] => match e_kind e with EOwned => if e_tid e =? t then Some [MExitE e] else None | _ => None end
      | _ => None end
  | ScopeBegin r => if readable o r then Some [MEnterE (mkEnt EScope r t)] else None
  | ScopeEnd _ =>
      match top_frame o t with
      | Some e => match e_kind e with EScope => Some [MExitE e] | _ => None end
      | None => None end
  | Record r ks => if readable o r then Some (map (fun _ => MRecord r t) (filter (fun b => b) ks)) else None
  | FollowsFrom r src =>
      match src with
      | FSpan r' | FId r' => if readable o r && readable o r' then Some [MFollows r r' t] else None
      | FNone => if readable o r then Some [] else None
      end
  | Query r _ => if readable o r then Some [] else None
  | Instrument n _ w =>
      if is_handle o n && free o n then
        Some match w with
             | WNone => [MSetKind n KFut]
             | WWith c => [MSetKind n (KFutW true); MSetDisp n t (Some c)]
             | WCurrent => [MSetKind n (KFutW true); MSetDisp n t None]
             end
      else None
  | WithCollector f c => if is_fut o f && free o f then Some [MSetKind f (KFutW false); MSetDisp f t c] else None
  | PollBegin f =>
      if free o f then
        let e := mkEnt EPoll f t in
        match kind_of o f with
        | Some KFut => Some [MEnterE e; MMark t (MBody f)]
        | Some (KFutW false) => Some [MPushDisp t f; MEnterE e; MMark t (MBody f)]
        | Some (KFutW true) => Some [MEnterE e; MPushDisp t f; MMark t (MBody f)]
        | _ => None
        end
      else None
  | PollEnd _ =>
      match top_frame o t with
      | Some e =>
          match e_kind e with
          | EPoll =>
              match kind_of o (e_holder e) with
              | Some KFut => Some [MExitE e]
              | Some (KFutW false) => Some [MExitE e; MPopDefault t]
              | Some (KFutW true) => Some [MPopDefault t; MExitE e]
              | _ => None                  (* unreachable: only futures are polled *)
              end
          | _ => None end
      | None => None end
  | IntoInner f => if is_anyfut o f && free o f then Some [MRelease f t; MMark t (MInnerDrop f)] else None
  | InnerAccess f k =>
      if is_anyfut o f && (if N.even k then readable o f else free o f) then Some [MMark t (MInnerTouch f)] else None
  | SpanMutSwap f n =>
      if is_anyfut o f && free o f && is_handle o n && free o n then Some [MSwap f n] else None
  | CloneFut f n =>
      match kind_of o f with
      | Some KHandle | None => None
      | Some k => if readable o f && negb (live o n) then Some [MCloneTo f n t; MSetKind n k; MCopyDisp f n] else None
      end
  | CloneDrop r n => if readable o r && negb (live o n) then Some [MCloneTo r n t; MRelease n t] else None
  | CloneFrom a b n =>
      (* the provided Clone::clone_from: `*self = source.clone()` — clone first, then the old value is dropped *)
      if is_handle o a && free o a && readable o b && negb (a =? b) && negb (live o n)
      then Some [MCloneTo b n t; MSwap a n; MRelease n t] else None
  | ScopeEndL _ ls =>
      match drops o t ls with
      | Some (ms, o') =>
          match top_frame o' t with
          | Some e => match e_kind e with EScope => Some (ms ++ [MExitE e]) | _ => None end
          | None => None end
      | None => None end
  | PollEndL _ ls =>
      match drops o t ls with
      | Some (ms, o') =>
          match top_frame o' t with
          | Some e =>
              match e_kind e with
              | EPoll =>
                  match kind_of o' (e_holder e) with
                  | Some KFut => Some (ms ++ [MExitE e])
                  | Some (KFutW false) => Some (ms ++ [MExitE e; MPopDefault t])
                  | Some (KFutW true) => Some (ms ++ [MPopDefault t; MExitE e])
                  | _ => None
                  end
              | _ => None end
          | None => None end
      | None => None end
  | InstrumentCurrent n _ => if negb (live o n) then Some [MCurrentTo n t; MSetKind n KFut] else None
  | SetDefault c => if in_wd_poll o t then None else Some [MPushDefault t c]
  | CloseScope => if in_wd_poll o t then None else Some [MPopDefault t]
  end.

Definition ostep (o : own) (x : op) : option own :=
  match compile o (fst x) (snd x) with Some ms => oexec ms o | None => None end.
Fixpoint orun_from (o : own) (p : prog) : option own :=
  match p with [] => Some o | x :: p' => match ostep o x with Some o' => orun_from o' p' | None => None end end.
Definition o_init : own := mkOwn [] [].

(** The static well-formedness predicate: it never looks at a span value, a default collector or the log. *)
Definition wf_prog (p : prog) : bool := match orun_from o_init p with Some _ => true | None => false end.
Definition WFprog (p : prog) : Prop := wf_prog p = true.

(** * Dynamic state *)
Record dyn := mkDyn {
  d_vals : list (name * sval);       (* the span value held under each name (entries of dead names are stale) *)
  d_defaults : list (tid * cid);     (* default-collector scopes, innermost first, all threads in one list *)
  d_next : sid;                      (* the collectors' shared id counter (ids of different collectors are disjoint) *)
  d_log : list entry;                (* NEWEST FIRST *)
  d_made : list key;                 (* ghost: one element per Span value with an enabled inner that came into existence *)
  d_dropped : list key;              (* ghost: one element per such value dropped *)
  d_disp : list (name * cid);        (* the Dispatch captured by the WithDispatch wrapper of a future *)
  d_hid : list (name * sid);         (* the id the collector issued for the handle held under each name (what Span::id() says) *)
  d_hlog : list (sid * sid)          (* parallel to d_log: (the id the call was made with, the id it returned / was given besides) *)
}.

Definition val_of (d : dyn) (n : name) : sval := match lookup (d_vals d) n with Some v => v | None => SNone end.
Definition set_val (d : dyn) (n : name) (v : sval) : dyn :=
  mkDyn ((n, v) :: d_vals d) (d_defaults d) (d_next d) (d_log d) (d_made d) (d_dropped d) (d_disp d) (d_hid d) (d_hlog d).
Definition emit (d : dyn) (e : entry) : dyn :=
  mkDyn (d_vals d) (d_defaults d) (d_next d) (e :: d_log d) (d_made d) (d_dropped d) (d_disp d) (d_hid d) (d_hlog d).
Definition note_made (d : dyn) (v : key) : dyn :=
  mkDyn (d_vals d) (d_defaults d) (d_next d) (d_log d) (v :: d_made d) (d_dropped d) (d_disp d) (d_hid d) (d_hlog d).
Definition note_dropped (d : dyn) (v : key) : dyn :=
  mkDyn (d_vals d) (d_defaults d) (d_next d) (d_log d) (d_made d) (v :: d_dropped d) (d_disp d) (d_hid d) (d_hlog d).
Definition cur_default (d : dyn) (t : tid) : cid :=
  match lookup (d_defaults d) t with Some c => c | None => 0 end.
Definition disp_of (d : dyn) (f : name) : cid := match lookup (d_disp d) f with Some c => c | None => 0 end.
Definition with_defaults (d : dyn) (x : list (tid * cid)) : dyn :=
  mkDyn (d_vals d) x (d_next d) (d_log d) (d_made d) (d_dropped d) (d_disp d) (d_hid d) (d_hlog d).
Definition with_disp (d : dyn) (x : list (name * cid)) : dyn :=
  mkDyn (d_vals d) (d_defaults d) (d_next d) (d_log d) (d_made d) (d_dropped d) x (d_hid d) (d_hlog d).

(** The abstract collector's `current_span` on thread t: the innermost span it was told is entered there
    (`exit` removes the most recent occurrence). *)
Fixpoint remove_first (i : N) (l : list N) : list N :=
  match l with [] => [] | x :: l' => if x =? i then l' else x :: remove_first i l' end.
Fixpoint stack_of (l : list entry) (c : cid) (t : tid) : list sid :=
  match l with
  | [] => []
  | e :: l' =>
      let st := stack_of l' c t in
      match e with
      | ECall c' t' (CEnter i) => if (c' =? c) && (t' =? t) then i :: st else st
      | ECall c' t' (CExit i) => if (c' =? c) && (t' =? t) then remove_first i st else st
      | _ => st
      end
  end.

Definition id_of_val (v : sval) : option sid :=
  match v with SNone => None | SNoColl => Some NOCOLL_ID | SSpan i _ => Some i end.

(** Collectors 3, 4, ... hand out a FRESH id from `clone_span` (one id per handle, all aliases of the same span; "if the
    id is itself a pointer of some kind this can be used as a hook to clone the pointer"); collectors 1 and 2 return the id
    they were given.  All of them track the current span the same way (innermost span entered on the thread; exit removes
    the most recent occurrence of that SPAN); an alias collector names it by the newest alias it has issued for that span
    and not yet seen closed ([live_alias]). *)
Definition per_handle (c : cid) : bool := 3 <=? c.

Definition do_current (d : dyn) (n : name) (t : tid) : dyn :=
  let c := cur_default d t in
  if c =? 0 then set_val d n SNone
  else match stack_of (d_log d) c t with
       | i :: _ => note_made (set_val (emit d (ECall c t (CClone i))) n (SSpan i c)) (i, c)
       | [] => set_val d n SNone
       end.

(** [md0]: what the collectors are told, in terms of SPANS (every alias of a span is written as the id new_span returned) *)
Definition md0 (m : micro) (d : dyn) : dyn :=
  match m with
  | MNewSpan n t h p =>
      let c := cur_default d t in
      let enabled := match h with ViaMacro en => en && negb (c =? 0) | Direct => true end in
      if negb enabled then set_val d n SNone
      else if c =? 0 then set_val d n SNoColl
      else
        let po := match p with
                  | PRoot => ORoot | PCtx => OCtx
                  | PExp r | PExpId r => match id_of_val (val_of d r) with Some j => OExp j | None => ORoot end
                  | PNoneId => ORoot
                  end in
        let i := d_next d in
        let d1 := emit d (ECall c t (CNew i po)) in
        let d2 := mkDyn (d_vals d1) (d_defaults d1) (i + 1) (d_log d1) ((i, c) :: d_made d1) (d_dropped d1) (d_disp d1) (d_hid d1) (d_hlog d1) in
        set_val d2 n (SSpan i c)
  | MCloneTo r n t =>
      match val_of d r with
      | SSpan i c => note_made (set_val (emit d (ECall c t (CClone i))) n (SSpan i c)) (i, c)
      | v => set_val d n v
      end
  | MCurrentTo n t => do_current d n t
  | MOrCurrent n t => match val_of d n with SNone => do_current d n t | _ => d end
  | MRelease n t =>
      match val_of d n with
      | SSpan i c => note_dropped (emit d (ECall c t (CClose i))) (i, c)
      | _ => d
      end
  | MSetKind _ _ => d
  | MEnterE e =>
      match val_of d (e_holder e) with SSpan i c => emit d (ECall c (e_tid e) (CEnter i)) | _ => d end
  | MExitE e =>
      match val_of d (e_holder e) with SSpan i c => emit d (ECall c (e_tid e) (CExit i)) | _ => d end
  | MRecord r t => match val_of d r with SSpan i c => emit d (ECall c t (CRecord i)) | _ => d end
  | MFollows r r' t =>
      match val_of d r, id_of_val (val_of d r') with
      | SSpan i c, Some j => emit d (ECall c t (CFollows i j))
      | _, _ => d
      end
  | MMark t m => emit d (EMark t m)
  | MPushDefault t c => with_defaults d ((t, c) :: d_defaults d)
  | MPopDefault t => with_defaults d (remove_name t (d_defaults d))
  | MSetDisp f t oc => with_disp d ((f, match oc with Some c => c | None => cur_default d t end) :: d_disp d)
  | MPushDisp t f => with_defaults d ((t, disp_of d f) :: d_defaults d)
  | MCopyDisp f n => with_disp d ((n, disp_of d f) :: d_disp d)
  | MSwap a b => let va := val_of d a in let vb := val_of d b in set_val (set_val d a vb) b va
  end.

(** [mh]: the ids actually on the wire.  Each handle carries the id its collector issued for it ([d_hid]: what
    `Span::id()` returns); every call is made with the id of the handle it goes through; [d_hlog] records, parallel to
    [d_log], that id and the second id of the call (clone_span: the id returned, new_span: the parent given,
    record_follows_from: the `from` id).  For collectors 1, 2 these ids are the span ids of [d_log]. *)
Definition hid_of (d : dyn) (n : name) : sid := match lookup (d_hid d) n with Some h => h | None => 0 end.
Definition with_h (d : dyn) (hid : list (name * sid)) (hlog : list (sid * sid)) (next : sid) : dyn :=
  mkDyn (d_vals d) (d_defaults d) next (d_log d) (d_made d) (d_dropped d) (d_disp d) hid hlog.
Definition hpush (d : dyn) (x : sid * sid) : dyn := with_h d (d_hid d) (x :: d_hlog d) (d_next d).
Definition set_hid (d : dyn) (n : name) (h : sid) : dyn := with_h d ((n, h) :: d_hid d) (d_hlog d) (d_next d).
Definition shown_id (d : dyn) (n : name) : sid :=          (* Span::id() of a handle *)
  match val_of d n with SNone => 0 | _ => hid_of d n end.

(** the id by which alias collector c names span i when asked for the current span: the newest id it issued for i (by
    new_span or clone_span) for which it has not yet received try_close; [closed]: ids seen closed further up the log *)
Fixpoint live_alias (l : list entry) (hl : list (sid * sid)) (i : sid) (c : cid) (closed : list sid) : option sid :=
  match l, hl with
  | e :: l', x :: hl' =>
      match e with
      | ECall c' _ (CClose j) =>
          if (c' =? c) && (j =? i) then live_alias l' hl' i c (fst x :: closed) else live_alias l' hl' i c closed
      | ECall c' _ (CClone j) =>
          if (c' =? c) && (j =? i) && negb (memN (snd x) closed) then Some (snd x) else live_alias l' hl' i c closed
      | ECall c' _ (CNew j _) =>
          if (c' =? c) && (j =? i) && negb (memN i closed) then Some i else live_alias l' hl' i c closed
      | _ => live_alias l' hl' i c closed
      end
  | _, _ => None
  end.
Definition current_alias (d : dyn) (i : sid) (c : cid) : sid :=
  match live_alias (d_log d) (d_hlog d) i c [] with Some a => a | None => i end.

(** the handle Span::current() makes: for an alias collector clone_span(&<the alias naming the current span>) returns a
    fresh id, which the new handle carries *)
Definition mh_current (d d' : dyn) (n : name) : dyn :=
  match val_of d' n with
  | SSpan i c =>
      if per_handle c then
        let j := d_next d' in
        with_h d' ((n, j) :: d_hid d') ((current_alias d i c, j) :: d_hlog d') (j + 1)
      else set_hid (hpush d' (i, i)) n i
  | _ => set_hid d' n 0
  end.

Definition mh (m : micro) (d d' : dyn) : dyn :=
  match m with
  | MNewSpan n _ _ p =>
      match val_of d' n with
      | SSpan i _ => set_hid (hpush d' (i, match parent_ref p with Some r => shown_id d r | None => 0 end)) n i
      | SNoColl => set_hid d' n NOCOLL_ID
      | SNone => set_hid d' n 0
      end
  | MCloneTo r n _ =>
      match val_of d r with
      | SSpan _ c =>
          let h := hid_of d r in
          if per_handle c then
            let j := d_next d' in
            with_h d' ((n, j) :: d_hid d') ((h, j) :: d_hlog d') (j + 1)
          else set_hid (hpush d' (h, h)) n h
      | _ => set_hid d' n (hid_of d r)
      end
  | MCurrentTo n _ => mh_current d d' n
  | MOrCurrent n _ => match val_of d n with SNone => mh_current d d' n | _ => d' end
  | MRelease n _ | MRecord n _ => match val_of d n with SSpan _ _ => hpush d' (hid_of d n, 0) | _ => d' end
  | MEnterE e | MExitE e => match val_of d (e_holder e) with SSpan _ _ => hpush d' (hid_of d (e_holder e), 0) | _ => d' end
  | MFollows r r' _ =>
      match val_of d r, id_of_val (val_of d r') with
      | SSpan _ _, Some _ => hpush d' (hid_of d r, hid_of d r')
      | _, _ => d'
      end
  | MMark _ _ => hpush d' (0, 0)
  | MSwap a b => with_h d' ((b, hid_of d a) :: (a, hid_of d b) :: d_hid d') (d_hlog d') (d_next d')
  | MSetKind _ _ | MPushDefault _ _ | MPopDefault _ | MSetDisp _ _ _ | MPushDisp _ _ | MCopyDisp _ _ => d'
  end.

Definition md (m : micro) (d : dyn) : dyn := mh m d (md0 m d).

Definition state := (own * dyn)%type.
Definition d_init : dyn := mkDyn [] [] 1 [] [] [] [] [] [].
Definition s_init : state := (o_init, d_init).

Fixpoint exec (ms : list micro) (s : state) : option state :=
  match ms with
  | [] => Some s
  | m :: ms' => match mo m (fst s) with Some o' => exec ms' (o', md m (snd s)) | None => None end
  end.
Definition step (s : state) (x : op) : option state :=
  match compile (fst s) (fst x) (snd x) with Some ms => exec ms s | None => None end.
Fixpoint run_from (s : state) (p : prog) : option state :=
  match p with [] => Some s | x :: p' => match step s x with Some s' => run_from s' p' | None => None end end.
Definition run (p : prog) : option state := run_from s_init p.

(** The chronological trace of a program (empty if the program is ill-formed). *)
Definition trace (p : prog) : list entry := match run p with Some s => rev (d_log (snd s)) | None => [] end.

(** * Observation used by the correspondence: per op, the entries it appended (oldest first) and the id of the
      Span value the op produced (0 = none / not a producing op); stops at the first rejected op. *)
Definition enc_pobs (p : pobs) : N * N := match p with ORoot => (0, 0) | OCtx => (1, 0) | OExp j => (2, j) end.
(** an entry as the collector sees it: with the ids on the wire ([x] = the entry's element of [d_hlog]) *)
Definition enc_entry (ex : entry * (sid * sid)) : N * N * N * N * N * N :=
  let (e, x) := ex in
  let (u, a) := x in
  match e with
  | ECall c t k =>
      match k with
      | CNew i p => (c, t, 1, i, fst (enc_pobs p), match p with OExp _ => a | _ => 0 end)
      | CClone _ => (c, t, 2, u, a, 0)
      | CClose _ => (c, t, 3, u, 0, 0)
      | CEnter _ => (c, t, 4, u, 0, 0)
      | CExit _ => (c, t, 5, u, 0, 0)
      | CRecord _ => (c, t, 6, u, 0, 0)
      | CFollows _ _ => (c, t, 7, u, a, 0)
      end
  | EMark t (MBody f) => (0, t, 8, f, 0, 0)
  | EMark t (MInnerDrop f) => (0, t, 9, f, 0, 0)
  | EMark t (MInnerTouch f) => (0, t, 10, f, 0, 0)
  end.
Definition produced (a : action) : option name :=
  match a with New n _ _ | Clone _ n | Current n | OrCurrent n | ExitOwned n | CloneFut _ n | SpanMutSwap _ n
  | CloneFrom n _ _ | InstrumentCurrent n _ => Some n
  | _ => None end.
Definition enc_id (v : sval) : N := match id_of_val v with Some i => i + 1 | None => 0 end.
Definition enc_shown (d : dyn) (n : name) : N := match val_of d n with SNone => 0 | _ => hid_of d n + 1 end.
Definition b2N (b : bool) : N := if b then 1 else 0.
(** the answers of the pure accessors (the `log` feature is off: every inner-less Span the API hands out is Span::none()) *)
Definition query_res (v : sval) (shown : N) (q : N) : N :=
  match q with
  | 0 => b2N (match v with SNone => true | _ => false end)          (* is_none *)
  | 1 => b2N (match v with SNone => true | _ => false end)          (* is_disabled *)
  | 2 => shown                                                       (* id: the id the collector issued for this handle *)
  | _ => b2N (match v with SNone => false | _ => true end)          (* metadata().is_some() *)
  end.

Definition firstn_new {A} (older : nat) (l : list A) : list A :=
  (* the entries of l (newest first) in front of its last [older] ones, returned oldest first *)
  rev (firstn (length l - older) l).

Fixpoint obs_from (s : state) (p : prog) : list (list (N * N * N * N * N * N) * N) * bool :=
  match p with
  | [] => ([], true)
  | x :: p' =>
      match step s x with
      | None => ([], false)
      | Some s' =>
          let new := firstn_new (length (d_log (snd s))) (combine (d_log (snd s')) (d_hlog (snd s'))) in
          let res := match snd x with
                     | Query r q => query_res (val_of (snd s') r) (enc_shown (snd s') r) q
                     | a => match produced a with Some n => enc_shown (snd s') n | None => 0 end
                     end in
          let (rest, ok) := obs_from s' p' in
          ((map enc_entry new, res) :: rest, ok)
      end
  end.
Definition observe (p : prog) := obs_from s_init p.
