(** C15 — progress of the guard drop: once Shutdown is queued, the worker alone brings the drop to a
    clean return (no timeout, no help from the producers, whatever is queued in front of Shutdown),
    with the repaired worker whatever fails, with the code as it was provided no later call of the
    underlying writer fails (finding F11). *)
From Coq Require Import List NArith Arith Bool Lia.
From TV Require Import Appender.NonBlockingModel Appender.NonBlockingSched Appender.NonBlockingStep
  Appender.NonBlockingProofs Appender.NonBlockingGuardProofs.
Import ListNotations.
Local Open Scope nat_scope.

Definition calm (c : config) (faults : nat -> bool) (s : state) : Prop :=
  var c = FlushErrKeepsTerminal \/ forall k, ncalls s <= k -> faults k = false.

Definition drop_label (l : label) : Prop := l = LWorker \/ l = LRendezvous \/ l = LGJoin.

Lemma finish_from_flush : forall c faults s, guard s = GWaitRdv -> pc s = WFlush StShutdown -> calm c faults s ->
  exists s', exec c faults [LWorker; LWorker; LRendezvous; LGJoin] s = Some s' /\ guard s' = GDone true.
Proof.
  intros c faults s G P C.
  assert (N: flush_next c StShutdown (faults (ncalls s)) = WRelease).
  { unfold flush_next. simpl. destruct C as [V|F]; [rewrite V; destruct (faults (ncalls s)); reflexivity|].
    rewrite (F (ncalls s)) by lia. reflexivity. }
  unfold flush_next in N. simpl in N.
  eexists. split.
  - simpl. unfold wstep. rewrite P. simpl. rewrite N. simpl. rewrite G. simpl. reflexivity.
  - reflexivity.
Qed.

Lemma finish_from_release : forall c faults s, guard s = GWaitRdv -> pc s = WRelease ->
  exists s', exec c faults [LWorker; LRendezvous; LGJoin] s = Some s' /\ guard s' = GDone true.
Proof.
  intros c faults s G P. eexists. split.
  - simpl. unfold wstep. rewrite P. simpl. rewrite G. simpl. reflexivity.
  - reflexivity.
Qed.

Lemma finish_from_rendezvous : forall c faults s, guard s = GWaitRdv -> pc s = WRendezvous ->
  exists s', exec c faults [LRendezvous; LGJoin] s = Some s' /\ guard s' = GDone true.
Proof.
  intros c faults s G P. eexists. split.
  - simpl. rewrite G, P. simpl. reflexivity.
  - reflexivity.
Qed.

Definition rank (p : wpc) : nat :=
  match p with WRecv => 1 | WTry => 1 | WWrite _ => 4 | WFlush StEmpty => 2 | _ => 0 end.

Lemma calm_call : forall c faults s e p, calm c faults s -> calm c faults (set_pc (call s e) p).
Proof. intros c faults s e p [V|F]; [left; auto|right]. simpl. intros k K. apply F. lia. Qed.

Lemma nsd1_first : forall m, nsd m = 1 ->
  (exists l r, m = Line l :: r /\ nsd r = 1 /\ lines_before_sd m = l :: lines_before_sd r) \/
  (exists r, m = Shutdown :: r).
Proof.
  intros [|[l|] r] H; simpl in H; try discriminate.
  - left. exists l, r. auto.
  - right. exists r. reflexivity.
Qed.

Lemma drain_to_shutdown : forall c faults n s,
  4 * length (lines_before_sd (q s)) + rank (pc s) <= n ->
  guard s = GWaitRdv -> nsd (q s) = 1 -> normal_pc (pc s) -> calm c faults s ->
  exists k s', exec c faults (repeat LWorker k) s = Some s' /\
               guard s' = GWaitRdv /\ pc s' = WFlush StShutdown /\ calm c faults s'.
Proof.
  intros c faults. induction n as [|n IH]; intros s M G Z NP C.
  - exfalso. destruct (pc s) as [| | |st| | |]; simpl in *; try lia; try tauto. destruct st; simpl in *; try lia; tauto.
  - assert (NXT: forall s1, step c faults s LWorker = Some s1 ->
                   (exists k s', exec c faults (repeat LWorker k) s1 = Some s' /\
                       guard s' = GWaitRdv /\ pc s' = WFlush StShutdown /\ calm c faults s') ->
                   exists k s', exec c faults (repeat LWorker k) s = Some s' /\
                       guard s' = GWaitRdv /\ pc s' = WFlush StShutdown /\ calm c faults s').
    { intros s1 S1 (k & s' & E & R). exists (S k), s'. split; auto. simpl. simpl in S1. rewrite S1. exact E. }
    destruct (pc s) as [|l| |st| | |] eqn:P; simpl in NP; try tauto.
    + (* WRecv *)
      destruct (nsd1_first _ Z) as [(l & r & Q & Zr & L)|(r & Q)].
      * eapply NXT. simpl. unfold wstep. rewrite P, Q. reflexivity.
        apply IH; simpl; auto. rewrite L in M. simpl in M. lia.
      * exists 1. eexists. split. simpl. unfold wstep. rewrite P, Q. reflexivity. simpl. auto.
    + (* WWrite *)
      eapply NXT. simpl. unfold wstep. rewrite P. reflexivity.
      apply IH; simpl; auto.
      * simpl in M. destruct (faults (ncalls s)); simpl; lia.
      * destruct (faults (ncalls s)); exact I.
      * apply calm_call. auto.
    + (* WTry *)
      destruct (nsd1_first _ Z) as [(l & r & Q & Zr & L)|(r & Q)].
      * eapply NXT. simpl. unfold wstep. rewrite P, Q. reflexivity.
        apply IH; simpl; auto. rewrite L in M. simpl in M. lia.
      * exists 1. eexists. split. simpl. unfold wstep. rewrite P, Q. reflexivity. simpl. auto.
    + (* WFlush StEmpty *)
      destruct st; try tauto.
      eapply NXT. simpl. unfold wstep. rewrite P. reflexivity.
      apply IH; simpl; auto.
      * simpl in M. lia.
      * apply calm_call. auto.
Qed.

Lemma forall_repeat : forall k, Forall drop_label (repeat LWorker k).
Proof. induction k; simpl; constructor; auto. left; reflexivity. Qed.

Lemma exec_app' : forall c faults a b s s1 s2, exec c faults a s = Some s1 -> exec c faults b s1 = Some s2 ->
  exec c faults (a ++ b) s = Some s2.
Proof.
  induction a as [|l a IH]; simpl; intros b s s1 s2 A B.
  - inversion A; subst; auto.
  - destruct (step c faults s l); [|discriminate]. eauto.
Qed.

Ltac dl := repeat (apply Forall_cons; [unfold drop_label; tauto|]); apply Forall_nil.

(** Shutdown is on its way: queued (worker in its normal loop) or consumed and not forgotten. *)
Definition OnItsWay (s : state) : Prop :=
  (nsd (q s) = 1 /\ normal_pc (pc s)) \/ pc s = WFlush StShutdown \/ pc s = WRelease \/ pc s = WRendezvous.

Theorem guard_drop_completes : forall c faults s, guard s = GWaitRdv -> OnItsWay s -> calm c faults s ->
  exists sched s', Forall drop_label sched /\ exec c faults sched s = Some s' /\ guard s' = GDone true.
Proof.
  intros c faults s G W C.
  destruct W as [[Z NP]|[P|[P|P]]].
  - destruct (drain_to_shutdown c faults _ s (le_n _) G Z NP C) as (k & s1 & E1 & G1 & P1 & C1).
    destruct (finish_from_flush c faults s1 G1 P1 C1) as (s2 & E2 & G2).
    exists (repeat LWorker k ++ [LWorker; LWorker; LRendezvous; LGJoin]), s2. split; [|split; auto].
    + apply Forall_app. split. apply forall_repeat.
      dl.
    + eapply exec_app'; eauto.
  - destruct (finish_from_flush c faults s G P C) as (s2 & E2 & G2).
    exists [LWorker; LWorker; LRendezvous; LGJoin], s2. split; [|split; auto]. dl.
  - destruct (finish_from_release c faults s G P) as (s2 & E2 & G2).
    exists [LWorker; LRendezvous; LGJoin], s2. split; [|split; auto]. dl.
  - destruct (finish_from_rendezvous c faults s G P) as (s2 & E2 & G2).
    exists [LRendezvous; LGJoin], s2. split; [|split; auto]. dl.
Qed.

(** From any reachable state in which the guard is sending: if the send goes through, the drop can be
    completed by the worker alone, and the state it returns in is the one C15_guard_drop describes. *)
Theorem drop_completes_after_send : forall c faults s s1, reachable c faults s ->
  guard s = GSending -> step c faults s LGSend = Some s1 -> calm c faults s1 ->
  exists sched s', Forall drop_label sched /\ exec c faults sched s1 = Some s' /\
                   guard s' = GDone true /\ DropReturned c s'.
Proof.
  intros c faults s s1 R G S1 C.
  pose proof (guard_invariant _ _ _ R) as GI.
  destruct (gi_early _ _ GI (or_intror G)) as [M NP].
  pose proof (gi_nomark _ _ GI M) as Z.
  assert (RA: recv_alive s = true).
  { unfold recv_alive. destruct (pc s); simpl in NP; try tauto; reflexivity. }
  assert (R1: reachable c faults s1) by (econstructor; eauto; exact I).
  simpl in S1. rewrite G, RA in S1. simpl in S1.
  destruct (length (q s) <? cap c); [|discriminate]. inversion S1; subst; clear S1.
  set (s1 := set_mark (set_guard (set_q s (q s ++ [Shutdown])) GWaitRdv) (Some (length (accepted s)))) in *.
  assert (G1: guard s1 = GWaitRdv) by reflexivity.
  assert (W1: OnItsWay s1).
  { left. unfold s1. simpl. rewrite nsd_app. simpl. split; [lia | exact NP]. }
  destruct (guard_drop_completes c faults s1 G1 W1 C) as (sched & s' & F & E & G').
  exists sched, s'. split; [exact F|]. split; [exact E|]. split; [exact G'|].
  eapply clean_drop_returned; eauto. eapply exec_reachable; eauto.
Qed.
