(** C16 — which clock reading names the file a rotation opens.

    make_writer reads the clock once ([let now = self.now()]); the winner of the rotation passes THAT reading to
    refresh_writer, however long it then waits for the write lock and whatever the clock shows by then.  The harness
    drives this with the hop [HW2 first i t t2 b]: the clock reads [t] when the call starts and [t2] from
    yield_point(1) on.  [first = true] (the source as it is, [RollingTie.tie_first_reading]) is the small-step
    system [step]; [first = false] is `refresh_writer(self.now(), ..)` ([refresh_step2]).

    - [hstep_is_run]/[run_h_is_run]: a first-reading hop sequence is a schedule of micro-steps, so every theorem
      over [run] holds for it - in particular the landing theorem, for ANY later readings [t2] (not even bounded);
    - [refresh_opens_triggering_period]: the refresh step of a winner names the file after the reading its call
      started with;
    - [second_reading_refuted]: with the second reading, a wall clock stepped back across the boundary between the
      two readings sends the writes of the new period to the old period's file. *)
From Coq Require Import ZArith NArith List String Bool Lia.
From TV Require Import Appender.RollingModel Appender.RollingTimeProofs Appender.RollingNameProofs
  Appender.RollingDirProofs Appender.RollingFsProofs Appender.RollingConcProofs Appender.RollingSeqProofs
  Appender.RollingMainProofs Appender.RollingExamples.
Import ListNotations.
Local Open Scope Z_scope.

Definition run_h (c : config) (s : state) (os : list hop) : state := fold_left (hstep c) os s.

(** the reading a call STARTS with is in range; nothing is asked of the later reading [t2] *)
Definition valid_hop (o : hop) : Prop :=
  match o with
  | HW _ t _ | HPark _ t _ | HPark0 _ t _ | HW2 _ _ t _ _ => 0 <= t < TBOUND
  | HRel _ => True
  end.
Definition first_reading_hop (o : hop) : Prop := match o with HW2 f _ _ _ _ => f = true | _ => True end.

Lemma run_cons c s e evs : run c s (e :: evs) = run c (step c s e) evs.
Proof. reflexivity. Qed.
Lemma run_app c s a b : run c s (a ++ b) = run c (run c s a) b.
Proof. unfold run. apply fold_left_app. Qed.

Lemma steps_until_run c stop : forall fuel s i, exists k, steps_until c stop fuel s i = run c s (repeat (Step i) k).
Proof.
  induction fuel as [|f IH]; intros s i; simpl.
  - exists 0%nat. reflexivity.
  - destruct (stop s).
    + exists 0%nat. reflexivity.
    + destruct (IH (step c s (Step i)) i) as [k E]. exists (S k). change (repeat (Step i) (S k)) with (Step i :: repeat (Step i) k). rewrite run_cons. exact E.
Qed.

Lemma valid_steps i k : Forall valid_ev (repeat (Step i) k).
Proof. apply Forall_forall. intros e H. apply repeat_spec in H. subst e. exact I. Qed.

Lemma hstep_is_run c s o : valid_hop o -> first_reading_hop o ->
  exists evs, Forall valid_ev evs /\ hstep c s o = run c s evs.
Proof.
  intros V F. destruct o as [i t b|i t b|i t b|i|f i t t2 b]; simpl in *.
  - destruct (steps_until_run c (fun s => is_idle s i) 6 (step c s (Start i t b)) i) as [k E].
    exists (Start i t b :: repeat (Step i) k). split; [constructor; [exact V|apply valid_steps]|]. rewrite run_cons. exact E.
  - destruct (steps_until_run c (fun s => is_idle s i || at_yield s i) 6 (step c s (Start i t b)) i) as [k E].
    exists (Start i t b :: repeat (Step i) k). split; [constructor; [exact V|apply valid_steps]|]. rewrite run_cons. exact E.
  - destruct (steps_until_run c (fun s => is_idle s i || at_cas s i) 6 (step c s (Start i t b)) i) as [k E].
    exists (Start i t b :: repeat (Step i) k). split; [constructor; [exact V|apply valid_steps]|]. rewrite run_cons. exact E.
  - destruct (steps_until_run c (fun s => is_idle s i) 6 s i) as [k E].
    exists (repeat (Step i) k). split; [apply valid_steps|exact E].
  - subst f.
    destruct (steps_until_run c (fun s => is_idle s i) 6 (step c s (Start i t b)) i) as [k E].
    exists (Start i t b :: repeat (Step i) k). split; [constructor; [exact V|apply valid_steps]|]. rewrite run_cons. exact E.
Qed.

Lemma run_h_is_run c : forall os s, Forall valid_hop os -> Forall first_reading_hop os ->
  exists evs, Forall valid_ev evs /\ run_h c s os = run c s evs.
Proof.
  induction os as [|o os IH]; intros s V F.
  - exists []. split; [constructor|reflexivity].
  - inversion V; subst. inversion F; subst.
    destruct (hstep_is_run c s o) as [e1 [V1 E1]]; auto.
    destruct (IH (hstep c s o)) as [e2 [V2 E2]]; auto.
    exists (e1 ++ e2). split; [apply Forall_app; auto|].
    unfold run_h in *. simpl. rewrite E2, E1. symmetry. apply run_app.
Qed.

(** the landing theorem for calls during which the clock moves: the period is that of the reading the call started
    with ([l_t]), for every later reading *)
Theorem hops_land_in_period_of_first_reading : forall c sp t0, 0 <= t0 < TBOUND -> GoodFS sp -> recheck c = true ->
  forall os, Forall valid_hop os -> Forall first_reading_hop os ->
  forall l, In l (lands (run_h c (restart c sp t0) os)) -> l_life l = S (life sp) -> l_clean l = true -> l_nd l = true ->
    l_file l = period_file c t0 (l_t l).
Proof.
  intros c sp t0 Ht0 Hsp Hr os V F.
  destruct (run_h_is_run c os (restart c sp t0) V F) as [evs [Ve E]]. rewrite E.
  exact (shared_lands_in_period_recheck c sp t0 Ht0 Hsp Hr evs Ve).
Qed.

(** the later reading is not consulted at all *)
Lemma later_reading_not_consulted : forall c s i t t2 t2' b,
  hstep c s (HW2 true i t t2 b) = hstep c s (HW2 true i t t2' b) /\ hstep c s (HW2 true i t t2 b) = hstep c s (HW i t b).
Proof. intros; split; reflexivity. Qed.

(** the refresh step of a winner (its re-check passing, or no re-check): the file swapped in is the one named for the
    period of the reading [t] the call started with - the reading that reached the boundary and that advance_date
    computed the new next_date from *)
Lemma refresh_opens_triggering_period : forall c s i t b g,
  pcs s i = Some (PRefresh t b g) -> readers s = [] -> (recheck c = false \/ next s = next_usize (rot c) t) ->
  cur (step c s (Step i)) = join_date c t /\ in_dir (join_date c t) (dir (step c s (Step i))) = true /\
  refreshed (step c s (Step i)) = true /\ pcs (step c s (Step i)) i = Some (PRead t b g) /\
  refresh_step2 c s i t = step c s (Step i).
Proof.
  intros c s i t b g Hp Hr Hc.
  assert (Hk : (recheck c && negb (next s =? next_usize (rot c) t)) = false).
  { destruct Hc as [E|E]; [rewrite E; reflexivity|rewrite E, Z.eqb_refl; apply andb_false_r]. }
  unfold refresh_step2, step. rewrite Hp, Hr, Hk.
  split; [|split; [|split; [|split]]].
  - unfold refresh. destruct (max_files c) as [m|]; [destruct (prune c m (dir s))|]; destruct (create _ _ _); reflexivity.
  - unfold refresh. simpl.
    destruct (max_files c) as [m|]; [destruct (prune c m (dir s)) as [d1 rm]|];
      match goal with |- context [create ?n ?d ?k] => unfold create; destruct (in_dir n d) eqn:Ein end; simpl; auto;
      unfold in_dir; rewrite existsb_app; simpl; unfold has_name; simpl; rewrite String.eqb_refl; apply orb_true_r.
  - unfold refresh. destruct (max_files c) as [m|]; [destruct (prune c m (dir s))|]; destruct (create _ _ _); reflexivity.
  - simpl. unfold upd. rewrite Nat.eqb_refl. reflexivity.
  - reflexivity.
Qed.

(** * The other shape: `refresh_writer(self.now(), ..)` *)
Definition clk_cfg : config := {| rot := Hourly; prefix := Some "app.log"%string; suffix := None; max_files := None; recheck := true |}.
(** 2020-02-01: 10:59:58, then a call that reads 11:00:00 and - the wall clock having been stepped back - 10:59:59 at
    the refresh, then 11:00:05 and 11:30:00 *)
Definition clk_hops (first : bool) : list hop :=
  [HW 0 1580554798 [97%N]; HW2 first 0 1580554800 1580554799 [98%N]; HW 0 1580554805 [99%N]; HW 0 1580556600 [100%N]].

Lemma clk_valid first : Forall valid_hop (clk_hops first).
Proof. repeat constructor; simpl; unfold TBOUND; lia. Qed.

(** second reading: next_date has moved to 12:00 but the 10h file was reopened - every write of the 11h period
    (no overlap with any rotation, clock never behind an earlier call's reading) lands in the 10h file *)
Lemma second_reading_refuted :
  exists c pre tick0 t0 os,
    recheck c = true /\ 0 <= t0 < TBOUND /\ PreOK pre tick0 /\ Forall valid_hop os /\
    exists l, In l (lands (run_h c (init c pre tick0 t0) os)) /\ l_life l = 1%nat /\ l_clean l = true /\ l_nd l = true /\
              l_file l <> period_file c t0 (l_t l) /\
              round_date (rot c) (l_t l) <> round_date (rot c) 1580554799 /\ l_file l = join_date c 1580554799.
Proof.
  exists clk_cfg, [], 0%N, 1580554790, (clk_hops false).
  split; [reflexivity|split; [unfold TBOUND; lia|split; [apply preok_nil|split; [apply clk_valid|]]]].
  exists {| l_file := "app.log.2020-02-01-10"; l_t := 1580556600; l_buf := [100%N]; l_tid := 0; l_clean := true; l_nd := true; l_life := 1%nat |}.
  split; [vm_compute; auto|]. repeat split; try reflexivity; vm_compute; discriminate.
Qed.

(** the same history with the source's shape (non-vacuity of [hops_land_in_period_of_first_reading]): the 11h file
    is opened and holds the three writes of its period *)
Example first_reading_example :
  let s := run_h clk_cfg (init clk_cfg [] 0%N 1580554790) (clk_hops true) in
  Forall first_reading_hop (clk_hops true) /\
  cur s = "app.log.2020-02-01-11"%string /\ next s = 1580558400 /\
  map (fun l => (l_file l, l_t l, l_clean l && l_nd l)) (lands s) =
    [("app.log.2020-02-01-11"%string, 1580556600, true); ("app.log.2020-02-01-11"%string, 1580554805, true);
     ("app.log.2020-02-01-11"%string, 1580554800, true); ("app.log.2020-02-01-10"%string, 1580554798, true)].
Proof. split; [repeat constructor|vm_compute; auto]. Qed.
