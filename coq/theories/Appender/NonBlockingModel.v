(** C15 — executable small-step model of tracing-appender's non-blocking writer.
    Mirrors /repo/tracing-appender/src/non_blocking.rs (NonBlocking::write, WorkerGuard::drop, ErrorCounter)
    and worker.rs (handle_recv, handle_try_recv, work, worker_thread).  No proofs in this file.

    crossbeam_channel is a dependency: the bounded channel is a FIFO of capacity [cap] (>= 1), the
    `bounded(0)` shutdown channel is a rendezvous (a joint step of guard and worker).
    The underlying writer is abstract: its k-th call (write_all / flush, counted together from 0) fails
    iff [faults k = true]; a failing write_all writes nothing, a successful one writes the whole buffer.
    The 100 ms / 1 s timeouts of the guard are the labels [LGTimeout100] / [LGTimeout1000], enabled only
    while the corresponding wait is pending. *)
From Coq Require Import List NArith Arith Bool.
Import ListNotations.
Local Open Scope nat_scope.

Definition line := list N.

Inductive msg := Line (l : line) | Shutdown.

(** worker.rs WorkerState, minus Continue (encoded by the program counters WWrite/WTry). *)
Inductive wstate := StEmpty | StShutdown | StDisconnected.

(** Program counter of the worker thread.
    WRecv        : in `self.receiver.recv()` at the top of work()
    WWrite l     : holds the dequeued line, about to call `writer.write_all(l)`
    WTry         : state == Continue, about to `try_recv()`
    WFlush st    : left the drain loop with state st, about to call `writer.flush()`
    WRelease     : worker_thread matched Shutdown|Disconnected, about to `drop(self.writer)`
    WRendezvous  : in `self.shutdown.recv()`
    WExit        : the thread returned (receiver and shutdown receiver dropped). *)
Inductive wpc := WRecv | WWrite (l : line) | WTry | WFlush (st : wstate) | WRelease | WRendezvous | WExit.

(** WorkerGuard::drop.  GHeld: not dropped yet; GSending: in send_timeout(Shutdown, 100ms);
    GWaitRdv: in shutdown.send_timeout((), 1s); GJoin: in handle.join(); GDone clean: drop returned
    (its Sender<Msg> and Sender<()> are dropped) — clean = it went through the join. *)
Inductive gstate := GHeld | GSending | GWaitRdv | GJoin | GDone (clean : bool).

Inductive outcome := Accepted | Dropped | Refused.
Inductive event := EvWrite (l : line) (ok : bool) | EvFlush (ok : bool) | EvDropWriter.

(** The switch for F11 (worker.rs work(): `self.writer.flush()?`).
    FlushErrLosesState    : the code as it is in /repo now — a flush error returns Err and the
                            Shutdown/Disconnected state computed just before is discarded.
    FlushErrKeepsTerminal : after fixes/F11.patch — a terminal state is returned whatever flush said. *)
Inductive variant := FlushErrLosesState | FlushErrKeepsTerminal.

Record config := { cap : nat; lossy : bool; var : variant; progs : list (list line) }.

Record prod := { rem : list line; popen : bool }.

Definition hentry := (nat * line * outcome)%type.

Record state := {
  q : list msg;
  prods : list prod;
  pc : wpc;
  guard : gstate;
  ncalls : nat;                 (* calls made to the underlying writer so far *)
  log : list event;             (* the underlying writer's call log, oldest first *)
  hist : list hentry;           (* ghost: completed producer writes (producer, line, outcome), oldest first *)
  dropped : N;                  (* ErrorCounter *)
  mark : option nat             (* ghost: #accepted at the moment Shutdown was enqueued *)
}.

Definition MAXN : N := 18446744073709551615%N.   (* usize::MAX on 64-bit *)
Definition incr_saturating (n : N) : N := if (n =? MAXN)%N then n else (n + 1)%N.

Inductive label :=
| LProd (p : nat)      (* producer p's next `write`: try_send (lossy) / send (non-lossy) takes effect *)
| LClose (p : nat)     (* producer p drops its NonBlocking clone (lines it has not offered yet are never offered) *)
| LWorker              (* the worker thread's next step *)
| LGBegin              (* the guard's drop begins *)
| LGSend               (* send_timeout(Shutdown) succeeds (or finds the channel disconnected) *)
| LGTimeout100
| LRendezvous          (* shutdown.send_timeout(()) meets the worker's shutdown.recv() *)
| LGTimeout1000
| LGJoin.

Definition init (c : config) : state :=
  {| q := []; prods := map (fun p => {| rem := p; popen := true |}) (progs c); pc := WRecv; guard := GHeld;
     ncalls := 0; log := []; hist := []; dropped := 0%N; mark := None |}.

(* ---- projections used by the statements ---- *)
Definition is_acc (h : hentry) : bool := match snd h with Accepted => true | _ => false end.
Definition is_drop (h : hentry) : bool := match snd h with Dropped => true | _ => false end.
Definition is_ref (h : hentry) : bool := match snd h with Refused => true | _ => false end.
Definition hline (h : hentry) : line := snd (fst h).
Definition hpid (h : hentry) : nat := fst (fst h).

Definition accepted (s : state) : list line := map hline (filter is_acc (hist s)).
Definition offered (s : state) : nat := length (hist s).

Fixpoint attempts_of (lg : list event) : list (line * bool) :=
  match lg with
  | [] => []
  | EvWrite l ok :: r => (l, ok) :: attempts_of r
  | _ :: r => attempts_of r
  end.
Definition attempts (s : state) := attempts_of (log s).
Definition written (s : state) : list line := map fst (filter snd (attempts s)).
Definition write_failed (s : state) : list line := map fst (filter (fun a => negb (snd a)) (attempts s)).

Fixpoint qlines (m : list msg) : list line :=
  match m with [] => [] | Line l :: r => l :: qlines r | Shutdown :: r => qlines r end.
Definition inflight (p : wpc) : list line := match p with WWrite l => [l] | _ => [] end.
Definition pending (s : state) : list line := inflight (pc s) ++ qlines (q s).

Definition writer_alive (s : state) : bool :=
  negb (existsb (fun e => match e with EvDropWriter => true | _ => false end) (log s)).

Definition count_open (ps : list prod) : nat := length (filter popen ps).
Definition senders (s : state) : nat :=
  count_open (prods s) + match guard s with GDone _ => 0 | _ => 1 end.
Definition recv_alive (s : state) : bool := match pc s with WExit => false | _ => true end.
Definition terminal (st : wstate) : bool := match st with StEmpty => false | _ => true end.
Definition is_timeout (l : label) : bool :=
  match l with LGTimeout100 | LGTimeout1000 => true | _ => false end.

(* ---- field updates ---- *)
Definition set_q (s : state) v := {| q := v; prods := prods s; pc := pc s; guard := guard s; ncalls := ncalls s; log := log s; hist := hist s; dropped := dropped s; mark := mark s |}.
Definition set_prods (s : state) v := {| q := q s; prods := v; pc := pc s; guard := guard s; ncalls := ncalls s; log := log s; hist := hist s; dropped := dropped s; mark := mark s |}.
Definition set_pc (s : state) v := {| q := q s; prods := prods s; pc := v; guard := guard s; ncalls := ncalls s; log := log s; hist := hist s; dropped := dropped s; mark := mark s |}.
Definition set_guard (s : state) v := {| q := q s; prods := prods s; pc := pc s; guard := v; ncalls := ncalls s; log := log s; hist := hist s; dropped := dropped s; mark := mark s |}.
Definition set_hist (s : state) v := {| q := q s; prods := prods s; pc := pc s; guard := guard s; ncalls := ncalls s; log := log s; hist := v; dropped := dropped s; mark := mark s |}.
Definition set_dropped (s : state) v := {| q := q s; prods := prods s; pc := pc s; guard := guard s; ncalls := ncalls s; log := log s; hist := hist s; dropped := v; mark := mark s |}.
Definition set_mark (s : state) v := {| q := q s; prods := prods s; pc := pc s; guard := guard s; ncalls := ncalls s; log := log s; hist := hist s; dropped := dropped s; mark := v |}.
Definition set_log (s : state) v := {| q := q s; prods := prods s; pc := pc s; guard := guard s; ncalls := ncalls s; log := v; hist := hist s; dropped := dropped s; mark := mark s |}.
(** one call of the underlying writer: bump the call counter, append the event *)
Definition call (s : state) (e : event) := {| q := q s; prods := prods s; pc := pc s; guard := guard s; ncalls := S (ncalls s); log := log s ++ [e]; hist := hist s; dropped := dropped s; mark := mark s |}.

Fixpoint upd_nth {A} (n : nat) (x : A) (l : list A) : list A :=
  match l, n with
  | [], _ => []
  | _ :: r, 0 => x :: r
  | a :: r, S k => a :: upd_nth k x r
  end.

(** The worker thread.  [None] = blocked (or finished). *)
Definition wstep (c : config) (faults : nat -> bool) (s : state) : option state :=
  match pc s with
  | WRecv =>                                   (* handle_recv(&self.receiver.recv()) *)
      match q s with
      | Line l :: r => Some (set_pc (set_q s r) (WWrite l))
      | Shutdown :: r => Some (set_pc (set_q s r) (WFlush StShutdown))
      | [] => if senders s =? 0 then Some (set_pc s (WFlush StDisconnected)) else None
      end
  | WWrite l =>                                (* self.writer.write_all(msg)?  — Err leaves work() at once *)
      let bad := faults (ncalls s) in
      Some (set_pc (call s (EvWrite l (negb bad))) (if bad then WRecv else WTry))
  | WTry =>                                    (* handle_try_recv(&self.receiver.try_recv()) *)
      match q s with
      | Line l :: r => Some (set_pc (set_q s r) (WWrite l))
      | Shutdown :: r => Some (set_pc (set_q s r) (WFlush StShutdown))
      | [] => Some (set_pc s (WFlush (if senders s =? 0 then StDisconnected else StEmpty)))
      end
  | WFlush st =>                               (* self.writer.flush()?; Ok(worker_state) *)
      let bad := faults (ncalls s) in
      let next :=
        if terminal st
        then (if bad then match var c with FlushErrLosesState => WRecv | FlushErrKeepsTerminal => WRelease end
              else WRelease)
        else WRecv in
      Some (set_pc (call s (EvFlush (negb bad))) next)
  | WRelease =>                                (* drop(self.writer) *)
      Some (set_pc (set_log s (log s ++ [EvDropWriter])) WRendezvous)
  | WRendezvous =>                             (* self.shutdown.recv(): Err once the guard's Sender<()> is gone *)
      match guard s with GDone _ => Some (set_pc s WExit) | _ => None end
  | WExit => None
  end.

Definition pstep (c : config) (s : state) (p : nat) : option state :=
  match nth_error (prods s) p with
  | Some {| rem := l :: r; popen := true |} =>
      let s1 := set_prods s (upd_nth p {| rem := r; popen := true |} (prods s)) in
      let room := (length (q s) <? cap c) in
      if lossy c then
        (* try_send(..).is_err() => incr_saturating(); Ok(len) either way *)
        if recv_alive s && room
        then Some (set_hist (set_q s1 (q s ++ [Line l])) (hist s ++ [(p, l, Accepted)]))
        else Some (set_hist (set_dropped s1 (incr_saturating (dropped s))) (hist s ++ [(p, l, Dropped)]))
      else
        (* send(..): blocks while full; Err(Other) when the receiver is gone *)
        if negb (recv_alive s) then Some (set_hist s1 (hist s ++ [(p, l, Refused)]))
        else if room then Some (set_hist (set_q s1 (q s ++ [Line l])) (hist s ++ [(p, l, Accepted)]))
        else None
  | _ => None
  end.

Definition cstep (s : state) (p : nat) : option state :=
  match nth_error (prods s) p with
  | Some {| rem := r; popen := true |} => Some (set_prods s (upd_nth p {| rem := r; popen := false |} (prods s)))
  | _ => None
  end.

Definition step (c : config) (faults : nat -> bool) (s : state) (l : label) : option state :=
  match l with
  | LProd p => pstep c s p
  | LClose p => cstep s p
  | LWorker => wstep c faults s
  | LGBegin => match guard s with GHeld => Some (set_guard s GSending) | _ => None end
  | LGSend =>
      match guard s with
      | GSending =>
          if negb (recv_alive s) then Some (set_guard s (GDone false))
          else if length (q s) <? cap c
          then Some (set_mark (set_guard (set_q s (q s ++ [Shutdown])) GWaitRdv) (Some (length (accepted s))))
          else None
      | _ => None
      end
  | LGTimeout100 => match guard s with GSending => Some (set_guard s (GDone false)) | _ => None end
  | LRendezvous =>
      match guard s, pc s with
      | GWaitRdv, WRendezvous => Some (set_pc (set_guard s GJoin) WExit)
      | _, _ => None
      end
  | LGTimeout1000 => match guard s with GWaitRdv => Some (set_guard s (GDone false)) | _ => None end
  | LGJoin =>
      match guard s, pc s with
      | GJoin, WExit => Some (set_guard s (GDone true))
      | _, _ => None
      end
  end.

(** Run a schedule; [None] as soon as a label is not enabled. *)
Fixpoint exec (c : config) (faults : nat -> bool) (sched : list label) (s : state) : option state :=
  match sched with
  | [] => Some s
  | l :: r => match step c faults s l with Some s' => exec c faults r s' | None => None end
  end.

(** Lenient run used by the correspondence check: labels that are not enabled are recorded as
    blocked (their index) and skipped. *)
Fixpoint exec_lenient (c : config) (faults : nat -> bool) (sched : list label) (i : N) (s : state) (blocked : list N)
  : state * list N :=
  match sched with
  | [] => (s, rev blocked)
  | l :: r => match step c faults s l with
              | Some s' => exec_lenient c faults r (i + 1)%N s' blocked
              | None => exec_lenient c faults r (i + 1)%N s (i :: blocked)
              end
  end.

(** Faults given as a finite list of failing call numbers. *)
Definition faults_of (bad : list nat) : nat -> bool := fun k => existsb (Nat.eqb k) bad.
