(** C16 — lemmas about the directory operations of the model: create, append_to, sort_by_created, prune. *)
From Coq Require Import ZArith NArith List String Bool Lia Permutation Sorted.
From TV Require Import Appender.RollingModel.
Import ListNotations.
Local Notation length := List.length.

(** * generic list facts *)
Lemma filter_comm {A} (p q : A -> bool) l : filter p (filter q l) = filter q (filter p l).
Proof. induction l as [|a l IH]; simpl; auto. destruct (q a) eqn:Q, (p a) eqn:P; simpl; rewrite ?Q, ?P, IH; auto. Qed.

Lemma filter_length_le {A} (p : A -> bool) l : (length (filter p l) <= length l)%nat.
Proof. induction l; simpl; auto. destruct (p a); simpl; lia. Qed.

Lemma perm_filter_length {A} (p : A -> bool) l l' : Permutation l l' -> length (filter p l) = length (filter p l').
Proof.
  induction 1; simpl; auto; try congruence;
  repeat match goal with |- context [if p ?a then _ else _] => destruct (p a) end; simpl; auto.
Qed.

Lemma filter_all_false {A} (p : A -> bool) l : (forall a, In a l -> p a = false) -> filter p l = [].
Proof. induction l; simpl; intros H; auto. rewrite (H a) by auto. apply IHl. intros; apply H; auto. Qed.

Lemma filter_all_true {A} (p : A -> bool) l : (forall a, In a l -> p a = true) -> filter p l = l.
Proof. induction l; simpl; intros H; auto. rewrite (H a) by auto. f_equal. apply IHl. intros; apply H; auto. Qed.

Lemma nodup_map_filter {A B} (f : A -> B) (p : A -> bool) l : NoDup (map f l) -> NoDup (map f (filter p l)).
Proof.
  induction l as [|a l IH]; simpl; intros H; auto. inversion H; subst.
  destruct (p a); simpl; auto. constructor; auto.
  intro Hin. apply H2. apply in_map_iff in Hin. destruct Hin as [x [E Hx]]. apply filter_In in Hx.
  apply in_map_iff. exists x; tauto.
Qed.

Lemma nodup_map_inj {A B} (f : A -> B) l a b : NoDup (map f l) -> In a l -> In b l -> f a = f b -> a = b.
Proof.
  induction l as [|x l IH]; simpl; intros H Ha Hb E; [tauto|]. inversion H; subst.
  destruct Ha as [->|Ha], Hb as [->|Hb]; auto.
  - exfalso. apply H2. rewrite E. apply in_map; auto.
  - exfalso. apply H2. rewrite <- E. apply in_map; auto.
Qed.

Lemma sorted_app_le {A} (R : A -> A -> Prop) l1 l2 : StronglySorted R (l1 ++ l2) -> forall a b, In a l1 -> In b l2 -> R a b.
Proof.
  induction l1 as [|x l1 IH]; simpl; intros H a b Ha Hb; [tauto|]. inversion H; subst.
  destruct Ha as [->|Ha]; [|eauto]. rewrite Forall_forall in H3. apply H3. apply in_or_app; auto.
Qed.

Lemma in_firstn' {A} n (l : list A) a : In a (firstn n l) -> In a l.
Proof. intros H. rewrite <- (firstn_skipn n l). apply in_or_app; auto. Qed.

Lemma NoDup_snoc {A} (l : list A) a : NoDup l -> ~ In a l -> NoDup (l ++ [a]).
Proof.
  induction l as [|x l IH]; simpl; intros H Ha.
  - constructor; auto.
  - inversion H; subst. constructor.
    + intro Hin. apply in_app_or in Hin. destruct Hin as [Hin|[E|[]]]; [auto|subst; tauto].
    + apply IH; auto.
Qed.

(** * names *)
Lemma has_name_iff n f : has_name n f = true <-> fname f = n.
Proof. unfold has_name. apply String.eqb_eq. Qed.
Lemma has_name_false n f : has_name n f = false <-> fname f <> n.
Proof. unfold has_name. apply String.eqb_neq. Qed.

Lemma in_dir_iff n d : in_dir n d = true <-> exists f, In f d /\ fname f = n.
Proof.
  unfold in_dir. rewrite existsb_exists. split; intros [f [H1 H2]]; exists f; split; auto; apply has_name_iff; auto.
Qed.
Lemma in_dir_false n d : in_dir n d = false <-> forall f, In f d -> fname f <> n.
Proof.
  split.
  - intros H f Hf E. assert (in_dir n d = true) by (apply in_dir_iff; eauto). congruence.
  - intros H. destruct (in_dir n d) eqn:E; auto. apply in_dir_iff in E. destruct E as [f [H1 H2]]. exfalso; eapply H; eauto.
Qed.
Lemma mem_iff n l : mem n l = true <-> In n l.
Proof.
  unfold mem. rewrite existsb_exists. split.
  - intros [x [H1 H2]]. apply String.eqb_eq in H2. subst; auto.
  - intros H. exists n. split; auto. apply String.eqb_refl.
Qed.

Lemma unique_name_filter n d : NoDup (map fname d) -> (length (filter (has_name n) d) <= 1)%nat.
Proof.
  induction d as [|a d IH]; simpl; intros H; auto. inversion H; subst.
  destruct (has_name n a) eqn:E; simpl; auto.
  rewrite filter_all_false; simpl; auto.
  intros b Hb. apply has_name_false. apply has_name_iff in E. intro E2. apply H2. rewrite E, <- E2. apply in_map; auto.
Qed.

(** a partition of a directory with unique names keeps, for each name, the same (at most one) file *)
Lemma filter_split_unique {A} (p q : A -> bool) d : (length (filter p d) <= 1)%nat ->
  filter p (filter q d) ++ filter p (filter (fun x => negb (q x)) d) = filter p d.
Proof.
  induction d as [|a d IH]; simpl; intros H; auto.
  destruct (p a) eqn:P.
  - simpl in H. assert (E : filter p d = []) by (destruct (filter p d); simpl in *; auto; lia).
    assert (E1 : forall r, filter p (filter r d) = []).
    { intro r. rewrite filter_comm, E. reflexivity. }
    destruct (q a); simpl; rewrite P, ?E1, E; reflexivity.
  - destruct (q a); simpl; rewrite P; apply IH; auto.
Qed.

(** * append_to *)
Lemma append_names n e d : map fname (append_to n e d) = map fname d.
Proof. induction d; simpl; auto. rewrite IHd. destruct (has_name n a); reflexivity. Qed.
Lemma append_created n e d : map created (append_to n e d) = map created d.
Proof. induction d; simpl; auto. rewrite IHd. destruct (has_name n a); reflexivity. Qed.
Lemma append_in_dir n e m d : in_dir m (append_to n e d) = in_dir m d.
Proof.
  unfold in_dir. induction d; simpl; auto. rewrite IHd. f_equal.
  destruct (has_name n a) eqn:E; auto.
Qed.
Lemma append_filter_other n e m d : m <> n -> filter (has_name m) (append_to n e d) = filter (has_name m) d.
Proof.
  intros Hn. induction d as [|a d IH]; simpl; auto. destruct (has_name n a) eqn:E.
  - apply has_name_iff in E.
    assert (E1 : has_name m a = false) by (apply has_name_false; congruence).
    rewrite E1. unfold has_name at 1. simpl. fold (has_name m a). rewrite E1. apply IH.
  - destruct (has_name m a); rewrite IH; reflexivity.
Qed.

(** with unique names, appending to [n] extends exactly the file called [n] (if there is one) *)
Lemma append_filter_same n e d : NoDup (map fname d) ->
  flat_map landed (filter (has_name n) (append_to n e d)) =
  flat_map landed (filter (has_name n) d) ++ (if in_dir n d then [e] else []).
Proof.
  induction d as [|a d IH]; simpl; intros ND; auto. inversion ND; subst.
  specialize (IH H2).
  destruct (has_name n a) eqn:E.
  - unfold has_name at 1. simpl. fold (has_name n a). rewrite E. simpl.
    assert (Hd : in_dir n d = false).
    { apply in_dir_false. intros f Hf E2. apply H1. apply has_name_iff in E. rewrite E, <- E2. apply in_map; auto. }
    assert (E3 : forall d', map fname d' = map fname d -> filter (has_name n) d' = []).
    { intros d' Hd'. apply filter_all_false. intros b Hb. apply has_name_false. intro E2.
      assert (In n (map fname d)) by (rewrite <- Hd', <- E2; apply in_map; auto).
      apply in_map_iff in H. destruct H as [x [Ex Hx]]. eapply in_dir_false; eauto. }
    rewrite (E3 (append_to n e d)) by apply append_names. rewrite (E3 d) by reflexivity.
    simpl. rewrite !app_nil_r. reflexivity.
  - rewrite E. simpl. exact IH.
Qed.

Lemma append_keeps_other n e d f : In f d -> fname f <> n -> In f (append_to n e d).
Proof.
  intros Hf Hn. unfold append_to. apply in_map_iff. exists f. split; auto.
  assert (E : has_name n f = false) by (apply has_name_false; auto). rewrite E. reflexivity.
Qed.

(** * create *)
Lemma create_in n d tk : in_dir n (fst (create n d tk)) = true.
Proof.
  unfold create. destruct (in_dir n d) eqn:E; simpl; auto.
  apply in_dir_iff. eexists. split; [apply in_or_app; right; left; reflexivity|reflexivity].
Qed.
Lemma create_keeps n d tk f : In f d -> In f (fst (create n d tk)).
Proof. unfold create. destruct (in_dir n d); simpl; auto. intros; apply in_or_app; auto. Qed.
Lemma create_cases n d tk :
  (in_dir n d = true /\ create n d tk = (d, tk)) \/
  (in_dir n d = false /\ create n d tk = (d ++ [{| fname := n; created := tk; base := []; landed := [] |}], (tk + 1)%N)).
Proof. unfold create. destruct (in_dir n d); auto. Qed.

(** * sorting *)
Definition cle (a b : file) : Prop := (created a <= created b)%N.

Lemma insert_perm f l : Permutation (insert_by f l) (f :: l).
Proof.
  induction l as [|g l IH]; simpl; auto. destruct (created f <=? created g)%N; auto.
  rewrite IH. apply perm_swap.
Qed.
Lemma sort_perm l : Permutation (sort_by_created l) l.
Proof. induction l; simpl; auto. unfold sort_by_created in *. simpl. rewrite insert_perm. auto. Qed.

Lemma insert_sorted f l : StronglySorted cle l -> StronglySorted cle (insert_by f l).
Proof.
  induction l as [|g l IH]; simpl; intros H.
  - constructor; auto.
  - inversion H; subst. destruct (created f <=? created g)%N eqn:E.
    + apply N.leb_le in E. constructor; auto. constructor; auto.
      rewrite Forall_forall in *. intros x Hx. unfold cle in *. specialize (H3 x Hx). lia.
    + apply N.leb_gt in E. constructor; auto.
      rewrite Forall_forall in *. intros x Hx.
      apply (Permutation_in _ (insert_perm f l)) in Hx. destruct Hx as [<-|Hx]; auto. unfold cle; lia.
Qed.
Lemma sort_sorted l : StronglySorted cle (sort_by_created l).
Proof. induction l; simpl; [constructor|]. unfold sort_by_created in *. simpl. apply insert_sorted; auto. Qed.

(** * prune *)
Section Prune.
  Variable c : config.
  Let mt (f : file) : bool := matches c (fname f).

  Definition victims (m : nat) (d : list file) : list file :=
    let ms := filter mt d in firstn (length ms - (m - 1)) (sort_by_created ms).

  Lemma prune_unfold m d :
    prune c m d =
    if (length (filter mt d) <? m)%nat then (d, [])
    else (filter (fun f => negb (mem (fname f) (map fname (victims m d)))) d,
          filter (fun f => mem (fname f) (map fname (victims m d))) d).
  Proof. reflexivity. Qed.

  Lemma victims_in_matching m d f : In f (victims m d) -> In f d /\ mt f = true.
  Proof.
    unfold victims. intros H. apply in_firstn' in H.
    apply (Permutation_in _ (sort_perm _)) in H. apply filter_In in H. exact H.
  Qed.

  (** the remaining directory is a sub-list; nothing is invented *)
  Lemma prune_kept_in m d f : In f (fst (prune c m d)) -> In f d.
  Proof.
    rewrite prune_unfold. destruct (length (filter mt d) <? m)%nat; simpl; auto. intros H; apply filter_In in H; tauto.
  Qed.
  Lemma prune_removed_in m d f : In f (snd (prune c m d)) -> In f d.
  Proof.
    rewrite prune_unfold. destruct (length (filter mt d) <? m)%nat; simpl; [tauto|]. intros H; apply filter_In in H; tauto.
  Qed.
  Lemma prune_partition m d f : In f d -> In f (fst (prune c m d)) \/ In f (snd (prune c m d)).
  Proof.
    rewrite prune_unfold. destruct (length (filter mt d) <? m)%nat; simpl; auto. intros H.
    destruct (mem (fname f) (map fname (victims m d))) eqn:E; [right|left]; apply filter_In; rewrite E; auto.
  Qed.

  (** at most max-1 of the appender's files are left, so that the new one makes at most max *)
  Lemma prune_count m d : (1 <= m)%nat -> (length (filter mt (fst (prune c m d))) <= m - 1)%nat.
  Proof.
    intros Hm. rewrite prune_unfold. destruct (length (filter mt d) <? m)%nat eqn:E; simpl.
    - apply Nat.ltb_lt in E. lia.
    - apply Nat.ltb_ge in E. rewrite filter_comm.
      set (ms := filter mt d) in *. set (nv := fun f => negb (mem (fname f) (map fname (victims m d)))).
      rewrite (perm_filter_length nv ms (sort_by_created ms)) by (symmetry; apply sort_perm).
      rewrite <- (firstn_skipn (length ms - (m - 1)) (sort_by_created ms)). rewrite filter_app, app_length.
      rewrite (filter_all_false nv (firstn _ _)).
      + simpl. etransitivity; [apply filter_length_le|]. rewrite skipn_length.
        rewrite (Permutation_length (sort_perm ms)). lia.
      + intros a Ha. unfold nv. apply negb_false_iff. apply mem_iff. apply in_map. exact Ha.
  Qed.

  (** whatever is removed is one of the appender's files and is older than every one of them that stays *)
  Lemma prune_removed_matching m d f : NoDup (map fname d) -> In f (snd (prune c m d)) -> mt f = true.
  Proof.
    intros ND. rewrite prune_unfold. destruct (length (filter mt d) <? m)%nat; simpl; [tauto|].
    intros H. apply filter_In in H. destruct H as [Hd Hm]. apply mem_iff in Hm. apply in_map_iff in Hm.
    destruct Hm as [x [E Hx]]. pose proof (victims_in_matching _ _ _ Hx) as [Hxd Hxm].
    assert (x = f) by (apply (nodup_map_inj fname d x f ND Hxd Hd E)). subst; auto.
  Qed.

  Lemma prune_oldest_first m d r s :
    NoDup (map fname d) -> NoDup (map created d) ->
    In r (snd (prune c m d)) -> In s (fst (prune c m d)) -> mt s = true -> (created r < created s)%N.
  Proof.
    intros ND NC. rewrite prune_unfold. destruct (length (filter mt d) <? m)%nat; simpl; [tauto|].
    intros Hr Hs Hm. apply filter_In in Hr. destruct Hr as [Hrd Hrv]. apply filter_In in Hs. destruct Hs as [Hsd Hsv].
    apply mem_iff in Hrv. apply in_map_iff in Hrv. destruct Hrv as [x [E Hx]].
    pose proof (victims_in_matching _ _ _ Hx) as [Hxd Hxm].
    assert (x = r) by (apply (nodup_map_inj fname d x r ND Hxd Hrd E)). subst x.
    apply negb_true_iff in Hsv.
    assert (Hs2 : In s (sort_by_created (filter mt d))).
    { apply (Permutation_in _ (Permutation_sym (sort_perm _))). apply filter_In; auto. }
    unfold victims in *. set (ms := filter mt d) in *. set (k := (length ms - (m - 1))%nat) in *.
    rewrite <- (firstn_skipn k (sort_by_created ms)) in Hs2. apply in_app_or in Hs2. destruct Hs2 as [Hs2|Hs2].
    - exfalso. assert (mem (fname s) (map fname (firstn k (sort_by_created ms))) = true) by (apply mem_iff; apply in_map; auto). congruence.
    - assert (Hle : cle r s).
      { eapply sorted_app_le; [|exact Hx|exact Hs2]. rewrite firstn_skipn. apply sort_sorted. }
      unfold cle in Hle. assert (created r <> created s).
      { intro Ec. assert (r = s) by (apply (nodup_map_inj created d r s NC Hrd Hsd Ec)). subst.
        assert (mem (fname s) (map fname (firstn k (sort_by_created ms))) = true) by (apply mem_iff; apply in_map; auto). congruence. }
      lia.
  Qed.

  (** exactness: what is removed is exactly the [len - (max-1)] oldest of the appender's files (nothing when there
      are fewer than [max]) - no more than needed - and every other entry stays *)
  Lemma filter_filter_length {A} (p q : A -> bool) l :
    (length (filter q (filter p l)) + length (filter q (filter (fun x => negb (p x)) l)) = length (filter q l))%nat.
  Proof.
    induction l as [|a l IH]; simpl; auto. destruct (p a); simpl; destruct (q a); simpl; lia.
  Qed.

  Lemma NoDup_firstn {A} n (l : list A) : NoDup l -> NoDup (firstn n l).
  Proof.
    revert n. induction l as [|a l IH]; intros n H; destruct n; simpl; try constructor.
    - inversion H; subst. intro Hin. apply H2. apply (in_firstn' n l a Hin).
    - inversion H; subst. apply IH; auto.
  Qed.

  Lemma victims_nodup m d : NoDup (map fname d) -> NoDup (victims m d).
  Proof.
    intros ND. unfold victims. apply NoDup_firstn.
    apply (Permutation_NoDup (Permutation_sym (sort_perm _))). apply NoDup_filter. apply (NoDup_map_inv fname). exact ND.
  Qed.

  Lemma removed_iff_victim m d f : NoDup (map fname d) ->
    (In f d /\ mem (fname f) (map fname (victims m d)) = true) <-> In f (victims m d).
  Proof.
    intros ND. split.
    - intros [Hd Hm]. apply mem_iff in Hm. apply in_map_iff in Hm. destruct Hm as [x [E Hx]].
      destruct (victims_in_matching _ _ _ Hx) as [Hxd _].
      assert (x = f) by (apply (nodup_map_inj fname d x f ND Hxd Hd E)). subst; auto.
    - intros H. destruct (victims_in_matching _ _ _ H) as [Hd _]. split; auto. apply mem_iff. apply in_map. exact H.
  Qed.

  Lemma prune_exact m d : (1 <= m)%nat -> NoDup (map fname d) ->
    let len := length (filter mt d) in
    let k := if (len <? m)%nat then 0%nat else (len - (m - 1))%nat in
    Permutation (snd (prune c m d)) (firstn k (sort_by_created (filter mt d))) /\
    length (snd (prune c m d)) = k /\
    length (filter mt (fst (prune c m d))) = (len - k)%nat /\
    (forall f, In f d -> mt f = false -> In f (fst (prune c m d))).
  Proof.
    intros Hm ND len k. subst len k. rewrite prune_unfold. destruct (length (filter mt d) <? m)%nat eqn:E; simpl.
    - repeat split; auto. lia.
    - apply Nat.ltb_ge in E. set (ms := filter mt d) in *. set (k := (length ms - (m - 1))%nat).
      set (P := fun f => mem (fname f) (map fname (victims m d))).
      assert (HV : victims m d = firstn k (sort_by_created ms)) by reflexivity.
      assert (HP : Permutation (filter P d) (firstn k (sort_by_created ms))).
      { rewrite <- HV. apply NoDup_Permutation.
        - apply NoDup_filter. apply (NoDup_map_inv fname). exact ND.
        - apply victims_nodup; auto.
        - intros f. rewrite filter_In. apply removed_iff_victim; auto. }
      assert (HL : length (filter P d) = k).
      { rewrite (Permutation_length HP), firstn_length, (Permutation_length (sort_perm ms)). lia. }
      split; [exact HP|split; [exact HL|split]].
      + pose proof (filter_filter_length P mt d) as HS. fold ms in HS.
        assert (HA : filter mt (filter P d) = filter P d).
        { apply filter_all_true. intros a Ha. apply filter_In in Ha. destruct Ha as [Hd Hp].
          apply (victims_in_matching m d). apply removed_iff_victim; auto. }
        rewrite HA, HL in HS. unfold P in HS. fold ms. lia.
      + intros f Hf Hnm. apply filter_In. split; auto. apply negb_true_iff.
        destruct (mem (fname f) (map fname (victims m d))) eqn:Em; auto.
        assert (In f (victims m d)) by (apply removed_iff_victim; auto).
        destruct (victims_in_matching _ _ _ H) as [_ Hmt]. congruence.
  Qed.

  (** an entry that is not one of the appender's log files is never removed (any limit, also 0) *)
  Lemma prune_keeps_foreign m d f : NoDup (map fname d) -> In f d -> mt f = false -> In f (fst (prune c m d)).
  Proof.
    intros ND Hf Hnm. rewrite prune_unfold. destruct (length (filter mt d) <? m)%nat; simpl; auto.
    apply filter_In. split; auto. apply negb_true_iff.
    destruct (mem (fname f) (map fname (victims m d))) eqn:Em; auto.
    assert (In f (victims m d)) by (apply removed_iff_victim; auto).
    destruct (victims_in_matching _ _ _ H) as [_ Hmt]. congruence.
  Qed.

  (** for every name, the file of that name is either kept or moved to the removed list, unchanged *)
  Lemma prune_filter_name m d n : NoDup (map fname d) ->
    filter (has_name n) (snd (prune c m d)) ++ filter (has_name n) (fst (prune c m d)) = filter (has_name n) d.
  Proof.
    intros ND. rewrite prune_unfold. destruct (length (filter mt d) <? m)%nat; simpl; auto.
    apply (filter_split_unique (has_name n) (fun f => mem (fname f) (map fname (victims m d))) d).
    apply unique_name_filter; auto.
  Qed.
End Prune.

(** * well-formed directories: unique names, unique creation stamps below the creation clock *)
Definition DirOK (d : list file) (tk : N) : Prop :=
  NoDup (map fname d) /\ NoDup (map created d) /\ forall f, In f d -> (created f < tk)%N.

Lemma DirOK_append n e d tk : DirOK d tk -> DirOK (append_to n e d) tk.
Proof.
  intros [H1 [H2 H3]]. split; [rewrite append_names; auto|split; [rewrite append_created; auto|]].
  intros f Hf. assert (In (created f) (map created (append_to n e d))) by (apply in_map; auto).
  rewrite append_created in H. apply in_map_iff in H. destruct H as [x [E Hx]]. rewrite <- E. auto.
Qed.

Lemma DirOK_prune c m d tk : DirOK d tk -> DirOK (fst (prune c m d)) tk.
Proof.
  intros [H1 [H2 H3]]. rewrite prune_unfold. destruct (length (filter _ d) <? m)%nat; simpl; [repeat split; auto|].
  split; [apply nodup_map_filter; auto|split; [apply nodup_map_filter; auto|]].
  intros f Hf. apply filter_In in Hf. apply H3; tauto.
Qed.

Lemma DirOK_create n d tk : DirOK d tk -> DirOK (fst (create n d tk)) (snd (create n d tk)).
Proof.
  intros [H1 [H2 H3]]. destruct (create_cases n d tk) as [[E ->]|[E ->]]; simpl; [repeat split; auto|].
  split; [|split].
  - rewrite map_app. simpl. apply NoDup_snoc; auto. intro Hin. apply in_map_iff in Hin. destruct Hin as [x [Ex Hx]].
    eapply in_dir_false; eauto.
  - rewrite map_app. simpl. apply NoDup_snoc; auto. intro Hin. apply in_map_iff in Hin. destruct Hin as [x [Ex Hx]].
    specialize (H3 x Hx). lia.
  - intros f Hf. apply in_app_or in Hf. destruct Hf as [Hf|[<-|[]]]; simpl; [specialize (H3 f Hf)|]; lia.
Qed.

Lemma create_tick_le n d tk : (tk <= snd (create n d tk))%N.
Proof. destruct (create_cases n d tk) as [[E ->]|[E ->]]; simpl; lia. Qed.
