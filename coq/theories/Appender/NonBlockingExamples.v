(** C15 — non-vacuity: concrete runs (kernel computation) in which the hypotheses of the theorems hold
    and the conclusions say something. *)
From Coq Require Import List NArith Arith Bool Lia.
From TV Require Import Appender.NonBlockingModel Appender.NonBlockingSched Appender.NonBlockingStep
  Appender.NonBlockingProofs Appender.NonBlockingGuardProofs Appender.NonBlockingTheorems Appender.NonBlockingProgress.
Import ListNotations.
Local Open Scope nat_scope.

(** non-lossy, capacity 1, two producers, the second call of the underlying writer (the write of line 11) fails *)
Definition ex_config : config :=
  {| cap := 1; lossy := false; var := FlushErrLosesState; progs := [[[1%N]; [2%N]]; [[11%N]]] |}.
Definition ex_faults := faults_of [1].
Definition ex_prefix : list label := [LProd 0; LWorker; LProd 1].
Definition ex_sched : list label :=
  ex_prefix ++ [LWorker; LWorker; LProd 0; LWorker; LWorker; LWorker; LWorker; LWorker].

(** every schedule step is enabled; the accepted order is 1, 11, 2; 11's write failed; 1 and 2 are written,
    in order, each once; nothing is pending; nobody was refused or dropped *)
Lemma ex_order : exists s, exec ex_config ex_faults ex_sched (init ex_config) = Some s /\
  accepted s = [[1%N]; [11%N]; [2%N]] /\
  attempts s = [([1%N], true); ([11%N], false); ([2%N], true)] /\
  written s = [[1%N]; [2%N]] /\ write_failed s = [[11%N]] /\ pending s = [] /\
  dropped s = 0%N /\ offered s = 3.
Proof. eexists. split. vm_compute. reflexivity. vm_compute. repeat split; reflexivity. Qed.

(** the queue is full after the prefix: producer 0's next write is not enabled (it waits) although the
    receiver is alive, and becomes enabled once the worker has taken a line *)
Lemma ex_blocked : exists s, exec ex_config ex_faults ex_prefix (init ex_config) = Some s /\
  nth_error (prods s) 0 = Some {| rem := [[2%N]]; popen := true |} /\
  step ex_config ex_faults s (LProd 0) = None /\ recv_alive s = true /\ length (q s) = cap ex_config /\
  exists s', exec ex_config ex_faults [LWorker; LWorker; LProd 0] s = Some s' /\ accepted s' = [[1%N]; [11%N]; [2%N]].
Proof.
  eexists. split. vm_compute. reflexivity.
  repeat split; try reflexivity.
  eexists. split. vm_compute. reflexivity. reflexivity.
Qed.

(** the failed write of 11: exactly that line is consumed, everything else is untouched *)
Lemma ex_error_local : exists s, reachable ex_config ex_faults s /\ pc s = WWrite [11%N] /\ ex_faults (ncalls s) = true.
Proof.
  assert (E: exists s, exec ex_config ex_faults (ex_prefix ++ [LWorker; LWorker; LProd 0]) (init ex_config) = Some s /\
             pc s = WWrite [11%N] /\ ex_faults (ncalls s) = true).
  { eexists. split. vm_compute. reflexivity. split; reflexivity. }
  destruct E as (s & E & P & F). exists s. split; auto.
  apply reachable_iff_exec. eexists; eauto.
Qed.

(** lossy, capacity 1: three lines offered while the worker holds still: one accepted, two dropped and counted *)
Definition lx_config : config :=
  {| cap := 1; lossy := true; var := FlushErrLosesState; progs := [[[1%N]; [2%N]]; [[11%N]]] |}.
Definition lx_sched : list label := [LProd 0; LProd 0; LProd 1; LWorker; LWorker; LWorker; LWorker].

Lemma lx_accounting : exists s, exec lx_config (fun _ => false) lx_sched (init lx_config) = Some s /\
  lossy lx_config = true /\ pending s = [] /\ offered s = 3 /\ written s = [[1%N]] /\ write_failed s = [] /\
  ndrop (hist s) = 2 /\ dropped s = 2%N.
Proof. eexists. split. vm_compute. reflexivity. vm_compute. repeat split; reflexivity. Qed.

Lemma saturation_example : incr_saturating MAXN = MAXN /\ incr_saturating (MAXN - 1)%N = MAXN /\ incr_saturating 7%N = 8%N.
Proof. vm_compute. repeat split; reflexivity. Qed.

(** a guard drop with two lines queued (a third accepted behind Shutdown is stranded), capacity 4, no timeout, the code as it is, no fault: it returns clean *)
Definition gx_config : config :=
  {| cap := 4; lossy := true; var := FlushErrLosesState; progs := [[[1%N]; [2%N]; [3%N]]] |}.
Definition gx_sched : list label :=
  [LProd 0; LProd 0; LGBegin; LGSend; LProd 0;
   LWorker; LWorker; LWorker; LWorker; LWorker; LWorker; LWorker; LRendezvous; LGJoin].

Lemma gx_clean_drop : exists s, exec gx_config (fun _ => false) gx_sched (init gx_config) = Some s /\
  Forall (fun l => is_timeout l = false) gx_sched /\
  guard s = GDone true /\ mark s = Some 2 /\ accepted s = [[1%N]; [2%N]; [3%N]] /\
  written s = [[1%N]; [2%N]] /\ pending s = [[3%N]] /\
  log s = [EvWrite [1%N] true; EvWrite [2%N] true; EvFlush true; EvDropWriter].
Proof.
  eexists. split. vm_compute. reflexivity.
  split. repeat constructor. vm_compute. repeat split; reflexivity.
Qed.

Lemma reachP_exec : forall c faults (P : state -> label -> Prop) sched s s',
  reachP c faults P s -> (forall s l, In l sched -> P s l) -> exec c faults sched s = Some s' -> reachP c faults P s'.
Proof.
  induction sched as [|l r IH]; simpl; intros s s' R A E.
  - inversion E; subst; auto.
  - destruct (step c faults s l) eqn:S1; [|discriminate].
    eapply IH; [| |exact E]; eauto. econstructor; eauto.
Qed.

(** ... so the hypothesis of C15_guard_drop is satisfiable with a returned drop *)
Lemma gx_reachP : exists s, reachP gx_config (fun _ => false) NoTimeout s /\ guard s = GDone true.
Proof.
  destruct gx_clean_drop as (s & E & NT & G & _). exists s. split; auto.
  eapply reachP_exec; [constructor | | exact E].
  intros s0 l IN. unfold NoTimeout. rewrite Forall_forall in NT. auto.
Qed.

(** the hypotheses of C15_guard_drop_completes hold in the state right after the guard's send *)
Lemma gx_calm : exists s s1, reachable gx_config (fun _ => false) s /\ guard s = GSending /\
  step gx_config (fun _ => false) s LGSend = Some s1 /\ calm gx_config (fun _ => false) s1.
Proof.
  assert (E: exists s, exec gx_config (fun _ => false) [LProd 0; LProd 0; LGBegin] (init gx_config) = Some s /\ guard s = GSending /\
              exists s1, step gx_config (fun _ => false) s LGSend = Some s1).
  { eexists. split. vm_compute. reflexivity. split. reflexivity. eexists. vm_compute. reflexivity. }
  destruct E as (s & E & G & s1 & S1). exists s, s1. repeat split; auto.
  - apply reachable_iff_exec. eexists; eauto.
  - right. intros. reflexivity.
Qed.
