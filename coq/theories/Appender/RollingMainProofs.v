(** C16 — the headline statements in the property's own wording, assembled from the invariants of
    RollingSeqProofs.v (exclusive interface) and RollingConcProofs.v (shared interface).

    Vocabulary used by Properties/C16.v:
    - [stored_in s n]: everything the appender has appended to the files called [n], in append order —
      the incarnations of that name which pruning removed ([grave], oldest removal first), then the live one;
    - [belongs c t0 n ws]: the writes of [ws] whose period's file is [n], in write order;
    - [annotate m ws]: every write with the flag "its clock reading is not behind an earlier one";
    - [accepted c s evs i]: the make_writer calls thread [i] starts along the schedule [evs] (a [Start] for a
      thread that is still inside a call is not enabled), [done_by s i] the ones it completed, in order,
      [inflight s i] the one it is inside. *)
From Coq Require Import ZArith NArith List String Bool Lia Sorted.
From TV Require Import Appender.RollingModel Appender.RollingTimeProofs Appender.RollingNameProofs
  Appender.RollingDirProofs Appender.RollingFsProofs Appender.RollingConcProofs Appender.RollingSeqProofs.
Import ListNotations.
Local Open Scope Z_scope.
Local Notation length := List.length.

Definition stored_in (s : state) (n : string) : list (Z * chunk) :=
  flat_map landed (filter (has_name n) (grave s ++ dir s)).

Definition belongs (c : config) (t0 : Z) (n : string) (ws : list (Z * chunk)) : list (Z * chunk) :=
  filter (fun w => String.eqb (period_file c t0 (fst w)) n) ws.

Definition key (l : land) : Z * chunk := (l_t l, l_buf l).

Lemma map_filter_comm {A B} (f : A -> B) (p : B -> bool) l :
  map f (filter (fun x => p (f x)) l) = filter p (map f l).
Proof. induction l as [|a l IH]; simpl; auto. destruct (p (f a)); simpl; congruence. Qed.

Lemma stored_is_landed s : Stored s -> forall n, stored_in s n = landed_in n (lands s).
Proof. intros H n. apply H. Qed.

(** * Exclusive interface *)
Section Exclusive.
  Variable c : config.
  Variable pre : list file.
  Variable tick0 : N.
  Variable t0 : Z.
  Hypothesis Ht0 : 0 <= t0 < TBOUND.
  Hypothesis Hpre : PreOK pre tick0.
  Let s0 := init c pre tick0 t0.

  (** the headline: under a non-decreasing clock the files called [n] hold exactly the buffers whose
      write time lies in the period [n] is named for — each once, whole, in write order *)
  Theorem x_contents_by_period : forall ws, Forall valid_w ws -> StronglySorted Z.le (t0 :: map fst ws) ->
    forall n, stored_in (run_x c s0 ws) n = belongs c t0 n ws.
  Proof.
    intros ws V S n.
    destruct (x_never_lost c pre tick0 t0 Ht0 Hpre ws V) as [HS [_ HL]].
    destruct (x_lands_nondecreasing c pre tick0 t0 Ht0 Hpre ws V S) as [_ HP].
    fold s0 in HS, HL, HP. rewrite (stored_is_landed _ HS). unfold landed_in, belongs.
    set (s := run_x c s0 ws) in *.
    transitivity (filter (fun w => String.eqb (period_file c t0 (fst w)) n) (map key (rev (lands s)))).
    - rewrite <- (map_filter_comm key (fun w => String.eqb (period_file c t0 (fst w)) n)).
      fold key. f_equal. apply filter_ext_in. intros l Hl. apply in_rev in Hl. rewrite (HP l Hl). reflexivity.
    - unfold key. rewrite HL. reflexivity.
  Qed.

  (** every clock: which flags the landings carry *)
  Fixpoint annotate (m : Z) (ws : list (Z * chunk)) : list (Z * chunk * bool) :=
    match ws with
    | [] => []
    | w :: r => (fst w, snd w, m <=? fst w) :: annotate (Z.max m (fst w)) r
    end.

  Lemma run_x_annot : forall ws s,
    map (fun l => (l_t l, l_buf l, l_nd l)) (rev (lands (run_x c s ws))) =
    map (fun l => (l_t l, l_buf l, l_nd l)) (rev (lands s)) ++ annotate (maxstart s) ws.
  Proof.
    induction ws as [|[t b] ws IH]; simpl; intros s; [rewrite app_nil_r; reflexivity|].
    rewrite IH. unfold write_x. simpl. rewrite map_app. simpl. rewrite <- app_assoc. simpl.
    destruct (should_rollover s t); [|reflexivity].
    destruct (refresh_fields c (set_next s (next_usize (rot c) t)) t) as [_ [_ [_ [_ [_ [_ [_ [R8 _]]]]]]]]. rewrite R8. reflexivity.
  Qed.

  (** any clock readings (also backward steps): every buffer is stored exactly once, whole, in write order
      per file; the writes whose reading is not behind an earlier one are in their period's file *)
  Theorem x_contents_any_clock : forall ws, Forall valid_w ws ->
    map (fun l => (l_t l, l_buf l, l_nd l)) (rev (lands (run_x c s0 ws))) = annotate t0 ws /\
    (forall n, stored_in (run_x c s0 ws) n = landed_in n (lands (run_x c s0 ws))) /\
    (forall l, In l (lands (run_x c s0 ws)) -> l_nd l = true -> l_file l = period_file c t0 (l_t l)) /\
    in_dir (cur (run_x c s0 ws)) (dir (run_x c s0 ws)) = true.
  Proof.
    intros ws V. destruct (x_never_lost c pre tick0 t0 Ht0 Hpre ws V) as [HS [HC _]]. fold s0 in HS, HC.
    split; [|split; [apply stored_is_landed; exact HS|split; [apply (x_lands_in_period c pre tick0 t0 Ht0 Hpre ws V)|exact HC]]].
    rewrite run_x_annot. unfold s0, init. destruct (create _ _ _). reflexivity.
  Qed.

  (** a clock reading at or past next_date rotates: the write goes to the file of its own period and
      next_date moves past it (so the same instant does not rotate again) *)
  Theorem x_rotation_at_boundary : forall ws t b, Forall valid_w ws -> 0 <= t < TBOUND ->
    next (run_x c s0 ws) <> 0 -> next (run_x c s0 ws) <= t ->
    cur (write_x c (run_x c s0 ws) t b) = join_date c t /\
    next (write_x c (run_x c s0 ws) t b) = next_usize (rot c) t /\
    t < next (write_x c (run_x c s0 ws) t b) /\
    refreshed (write_x c (run_x c s0 ws) t b) = true.
  Proof.
    intros ws t b V Ht Hn Hle. set (s := run_x c s0 ws) in *.
    assert (Hk : rot c <> Never).
    { intro Hk. destruct (XInv_run c t0 ws s0 (XInv_init c pre tick0 t0 Ht0 Hpre) V) as [_ [_ [XN _]]].
      fold s in XN. destruct (XN Hk). contradiction. }
    assert (E : should_rollover s t = Some (next s)).
    { unfold should_rollover. rewrite to_usize_small by assumption.
      destruct (next s =? 0) eqn:E0; [apply Z.eqb_eq in E0; contradiction|].
      destruct (next s <=? t) eqn:E1; [reflexivity|apply Z.leb_gt in E1; lia]. }
    unfold write_x. rewrite E.
    destruct (refresh_fields c (set_next s (next_usize (rot c) t)) t) as [R1 [R2 [_ [_ [_ [_ [_ [_ [_ [R10 _]]]]]]]]]].
    simpl. rewrite R1, R2, R10. simpl. pose proof (next_usize_gt (rot c) t Hk Ht). repeat split; auto.
  Qed.
End Exclusive.

(** * Shared interface: every make_writer call that ran to completion has exactly one landing *)
Definition buf_of (p : pc) : chunk :=
  match p with PLoad _ b _ | PCas _ b _ _ | PRefresh _ b _ | PRead _ b _ | PAppend _ b _ _ => b end.
Definition inflight (s : state) (i : nat) : list (Z * chunk) :=
  match pcs s i with Some p => [(time_of p, buf_of p)] | None => [] end.
Definition done_by (s : state) (i : nat) : list (Z * chunk) :=
  map key (filter (fun l => Nat.eqb (l_tid l) i) (rev (lands s))).
Definition starts (s : state) (e : event) (i : nat) : list (Z * chunk) :=
  match e with
  | Start j t b => if Nat.eqb j i && is_idle s j then [(t, b)] else []
  | Step _ => []
  end.
Fixpoint accepted (c : config) (s : state) (evs : list event) (i : nat) : list (Z * chunk) :=
  match evs with
  | [] => []
  | e :: r => starts s e i ++ accepted c (step c s e) r i
  end.

Lemma inflight_upd_same s p i : inflight (with_pcs s (upd (pcs s) i (Some p))) i = [(time_of p, buf_of p)].
Proof. unfold inflight. simpl. rewrite upd_same. reflexivity. Qed.

Lemma step_progress c s e i :
  done_by (step c s e) i ++ inflight (step c s e) i = (done_by s i ++ inflight s i) ++ starts s e i.
Proof.
  destruct e as [j t b|j]; unfold starts.
  - (* Start *)
    unfold step, is_idle. destruct (pcs s j) as [p|] eqn:Hp.
    + rewrite andb_false_r, app_nil_r. reflexivity.
    + rewrite andb_true_r. unfold done_by, inflight. simpl. unfold upd.
      destruct (Nat.eqb j i) eqn:E.
      * apply Nat.eqb_eq in E. subst j. rewrite Nat.eqb_refl, Hp. simpl. rewrite app_nil_r. reflexivity.
      * rewrite Nat.eqb_sym, E. rewrite app_nil_r. reflexivity.
  - (* Step *)
    rewrite app_nil_r. unfold step.
    destruct (pcs s j) as [[t b g|t b n g|t b g|t b g|t b f g]|] eqn:Hp; auto.
    + (* load *)
      destruct (should_rollover s t); unfold done_by, inflight; simpl; f_equal; unfold upd;
        destruct (Nat.eqb i j) eqn:E; auto; apply Nat.eqb_eq in E; subst; rewrite Hp; reflexivity.
    + (* cas *)
      destruct (next s =? n); unfold done_by, inflight; simpl; f_equal; unfold upd;
        destruct (Nat.eqb i j) eqn:E; auto; apply Nat.eqb_eq in E; subst; rewrite Hp; reflexivity.
    + (* refresh *)
      destruct (readers s); auto.
      assert (EL : forall s1, (s1 = s \/ s1 = refresh c s t) -> lands s1 = lands s).
      { intros s1 [-> | ->]; auto. apply (refresh_fields c s t). }
      set (s1 := if recheck c && negb (next s =? next_usize (rot c) t) then s else refresh c s t).
      assert (E1 : lands s1 = lands s) by (apply EL; unfold s1; destruct (recheck c && _); auto).
      unfold done_by, inflight; simpl. rewrite E1. f_equal. unfold upd.
      destruct (Nat.eqb i j) eqn:E; auto; apply Nat.eqb_eq in E; subst; rewrite Hp; reflexivity.
    + (* read lock *)
      unfold done_by, inflight; simpl; f_equal; unfold upd;
        destruct (Nat.eqb i j) eqn:E; auto; apply Nat.eqb_eq in E; subst; rewrite Hp; reflexivity.
    + (* append *)
      unfold done_by, inflight; simpl. rewrite filter_app, map_app. simpl. unfold upd.
      destruct (Nat.eqb i j) eqn:E.
      * apply Nat.eqb_eq in E. subst j. rewrite Nat.eqb_refl, Hp. simpl. rewrite app_nil_r. reflexivity.
      * rewrite Nat.eqb_sym, E. simpl. rewrite app_nil_r. reflexivity.
Qed.

Lemma run_progress c : forall evs s i,
  done_by (run c s evs) i ++ inflight (run c s evs) i = (done_by s i ++ inflight s i) ++ accepted c s evs i.
Proof.
  unfold run. induction evs as [|e evs IH]; simpl; intros s i; [rewrite app_nil_r; reflexivity|].
  rewrite IH, step_progress, <- app_assoc. reflexivity.
Qed.

(** per thread: the calls it completed (each landed exactly once, in the order it made them) followed by
    the one it is inside are exactly the calls it started *)
Theorem shared_every_call_lands_once c pre tick0 t0 : forall evs i,
  done_by (run c (init c pre tick0 t0) evs) i ++ inflight (run c (init c pre tick0 t0) evs) i =
  accepted c (init c pre tick0 t0) evs i.
Proof.
  intros evs i. rewrite run_progress. unfold init. destruct (create _ _ _). reflexivity.
Qed.

(** * Shared interface: the statements of Properties/C16.v *)
Section SharedMain.
  Variable c : config.
  Variable pre : list file.
  Variable tick0 : N.
  Variable t0 : Z.
  Hypothesis Ht0 : 0 <= t0 < TBOUND.
  Hypothesis Hpre : PreOK pre tick0.
  Let s0 := init c pre tick0 t0.

  (** the code as it is now (make_writer re-checks next_date under the write lock): EVERY schedule *)
  Theorem shared_lands_in_period_recheck : recheck c = true ->
    forall evs, Forall valid_ev evs ->
    forall l, In l (lands (run c s0 evs)) -> l_clean l = true -> l_nd l = true ->
      l_file l = period_file c t0 (l_t l).
  Proof. intros Hr evs V. apply (shared_lands_in_period c pre tick0 t0 Ht0 evs V). left; exact Hr. Qed.

  (** the code before the repair of F16: only the schedules in which no compare_exchange is won while
      another winner has not refreshed yet *)
  Theorem shared_lands_in_period_norecheck :
    forall evs, Forall valid_ev evs -> overlapped (run c s0 evs) = false ->
    forall l, In l (lands (run c s0 evs)) -> l_clean l = true -> l_nd l = true ->
      l_file l = period_file c t0 (l_t l).
  Proof. intros evs V Ho. apply (shared_lands_in_period c pre tick0 t0 Ht0 evs V). right; exact Ho. Qed.

  (** never lost, for every schedule, with or without the re-check *)
  Theorem shared_never_lost_full : forall evs, Forall valid_ev evs ->
    (forall n, stored_in (run c s0 evs) n = landed_in n (lands (run c s0 evs))) /\
    (forall i, done_by (run c s0 evs) i ++ inflight (run c s0 evs) i = accepted c s0 evs i) /\
    in_dir (cur (run c s0 evs)) (dir (run c s0 evs)) = true /\
    (forall l, In l (lands (run c s0 evs)) -> opened c t0 (rots (run c s0 evs)) (l_file l)) /\
    DirOK (dir (run c s0 evs)) (tick (run c s0 evs)).
  Proof.
    intros evs V. destruct (shared_never_lost c pre tick0 t0 Ht0 Hpre evs V) as [HS [HC [_ HD]]]. fold s0 in HS, HC, HD.
    split; [apply stored_is_landed; exact HS|]. split; [intro i; apply shared_every_call_lands_once|].
    split; [exact HC|]. split; [apply (shared_lands_in_opened_file c pre tick0 t0 Ht0 evs V)|exact HD].
  Qed.

  Theorem shared_no_rotation_backwards_full : forall evs, Forall valid_ev evs ->
    (rot c = Never -> rots (run c s0 evs) = []) /\
    (rot c <> Never -> forall u, In u (decided (run c s0 evs)) -> u < next (run c s0 evs)) /\
    (forall i t b g u, pcs (run c s0 evs) i = Some (PLoad t b g) ->
       (rot c = Never \/ (In u (decided (run c s0 evs)) /\ t <= u)) ->
       rots (step c (run c s0 evs) (Step i)) = rots (run c s0 evs) /\
       fails (step c (run c s0 evs) (Step i)) = fails (run c s0 evs) /\
       next (step c (run c s0 evs) (Step i)) = next (run c s0 evs) /\
       cur (step c (run c s0 evs) (Step i)) = cur (run c s0 evs) /\
       dir (step c (run c s0 evs) (Step i)) = dir (run c s0 evs) /\
       pcs (step c (run c s0 evs) (Step i)) i = Some (PRead t b g)).
  Proof.
    intros evs V. destruct (shared_no_rotation_backwards c pre tick0 t0 Ht0 evs V) as [H1 [H2 _]].
    split; [exact H1|split; [exact H2|]]. apply (shared_backwards_step c pre tick0 t0 Ht0 evs V).
  Qed.

  Theorem shared_one_rotation_full : forall evs, Forall valid_ev evs ->
    NoDup (map from_of (rots (run c s0 evs))) /\
    (forall i n t, In (i, n, t) (fails (run c s0 evs)) -> exists j u, In (j, n, u) (rots (run c s0 evs))) /\
    (forall r, In r (rots (run c s0 evs)) -> from_of r <= snd r /\ from_of r < next (run c s0 evs)) /\
    (forall i t b n g, pcs (run c s0 evs) i = Some (PCas t b n g) ->
       exists j u, In (j, n, u) (rots (step c (run c s0 evs) (Step i)))).
  Proof.
    intros evs V. destruct (shared_one_rotation_per_boundary c pre tick0 t0 Ht0 evs V) as [H1 [H2 H3]].
    split; [exact H1|split; [exact H2|split; [exact H3|]]]. apply (shared_cas_elects c pre tick0 t0 Ht0 evs V).
  Qed.

  Theorem prune_limit_both : forall m, max_files c = Some m -> (1 <= m)%nat ->
    (forall ws, Forall valid_w ws -> refreshed (run_x c s0 ws) = true -> (count_logs c (dir (run_x c s0 ws)) <= m)%nat) /\
    (forall evs, Forall valid_ev evs -> refreshed (run c s0 evs) = true -> (count_logs c (dir (run c s0 evs)) <= m)%nat).
  Proof.
    intros m Hm H1. split.
    - intros ws V R. apply (x_prune_limit c pre tick0 t0 Ht0 Hpre ws V R m Hm H1).
    - intros evs V R. apply (shared_prune_limit c pre tick0 t0 Ht0 Hpre evs V R m Hm H1).
  Qed.

  (** the directory is well-formed (unique names, unique creation stamps) wherever a rotation can start *)
  Theorem dir_ok_both :
    (forall ws, Forall valid_w ws -> DirOK (dir (run_x c s0 ws)) (tick (run_x c s0 ws))) /\
    (forall evs, Forall valid_ev evs -> DirOK (dir (run c s0 evs)) (tick (run c s0 evs))).
  Proof.
    split.
    - intros ws V. apply (XInv_run c t0 ws s0 (XInv_init c pre tick0 t0 Ht0 Hpre) V).
    - intros evs V. apply (shared_never_lost c pre tick0 t0 Ht0 Hpre evs V).
  Qed.
End SharedMain.
