(** C16 — the headline statements in the property's own wording, assembled from the invariants of
    RollingSeqProofs.v (exclusive interface) and RollingConcProofs.v (shared interface).

    An appender lifetime starts with [restart c sp t0]: an appender built at clock [t0] over whatever state [sp]
    the previous lifetimes left ([GoodFS sp]; [blank pre tick0] for a directory nobody has written to through
    the model yet; [init c pre tick0 t0 = restart c (blank pre tick0) t0]).

    Vocabulary used by Properties/C16.v:
    - [stored_in s n]: everything the appender(s) appended to the files called [n], in append order —
      the incarnations of that name which pruning removed ([grave], oldest removal first), then the live one;
    - [belongs c t0 n ws]: the writes of [ws] whose period's file is [n], in write order;
    - [annotate m ws]: every write with the flag "its clock reading is not behind an earlier one of this lifetime";
    - [accepted c s evs i]: the make_writer calls thread [i] starts along the schedule [evs] (a [Start] for a
      thread that is still inside a call is not enabled), [done_by s i] the ones it completed, in order,
      [inflight s i] the one it is inside;
    - [run_lives s ls]: several lifetimes (configuration, construction clock, writes) one after the other. *)
From Coq Require Import ZArith NArith List String Bool Lia Sorted Permutation.
From TV Require Import Appender.RollingModel Appender.RollingTimeProofs Appender.RollingNameProofs
  Appender.RollingDirProofs Appender.RollingFsProofs Appender.RollingConcProofs Appender.RollingSeqProofs.
Import ListNotations.
Local Open Scope Z_scope.
Local Notation length := List.length.

Definition stored_in (s : state) (n : string) : list (Z * chunk) :=
  flat_map landed (filter (has_name n) (grave s ++ dir s)).

Definition belongs (c : config) (t0 : Z) (n : string) (ws : list (Z * chunk)) : list (Z * chunk) :=
  filter (fun w => String.eqb (period_file c t0 (fst w)) n) ws.

Definition key (l : land) : Z * chunk := (l_t l, l_buf l).

Lemma map_filter_comm {A B} (f : A -> B) (p : B -> bool) l :
  map f (filter (fun x => p (f x)) l) = filter p (map f l).
Proof. induction l as [|a l IH]; simpl; auto. destruct (p (f a)); simpl; congruence. Qed.

Lemma stored_is_landed s : Stored s -> forall n, stored_in s n = landed_in n (lands s).
Proof. intros H n. apply H. Qed.

Lemma landed_in_app n new old : landed_in n (new ++ old) = landed_in n old ++ landed_in n new.
Proof. unfold landed_in. rewrite rev_app_distr, filter_app, map_app. reflexivity. Qed.

Lemma init_is_restart c pre tick0 t0 : init c pre tick0 t0 = restart c (blank pre tick0) t0.
Proof. reflexivity. Qed.

(** * Building an appender over a non-empty directory *)
Section Restart.
  Variable c : config.
  Variable sp : state.
  Variable t0 : Z.
  Hypothesis Ht0 : 0 <= t0 < TBOUND.

  (** nothing is removed, renamed, truncated or re-stamped at construction (no pruning there); the only entry that
      can be new is an empty file for the construction time's period, and it is made only when no file of that
      name exists - an existing one is opened for append *)
  Theorem restart_keeps_files :
    (forall f, In f (dir sp) -> In f (dir (restart c sp t0))) /\
    (forall f, In f (dir (restart c sp t0)) -> In f (dir sp) \/
       (in_dir (join_date c t0) (dir sp) = false /\
        f = {| fname := join_date c t0; created := tick sp; base := []; landed := [] |})) /\
    cur (restart c sp t0) = join_date c t0 /\ in_dir (join_date c t0) (dir (restart c sp t0)) = true /\
    next (restart c sp t0) = next_usize (rot c) t0 /\ grave (restart c sp t0) = grave sp /\
    lands (restart c sp t0) = lands sp /\ refreshed (restart c sp t0) = false /\ life (restart c sp t0) = S (life sp).
  Proof.
    unfold restart. rewrite (next_ok_small (rot c) t0 (proj2 Ht0)).
    destruct (create_cases (join_date c t0) (dir sp) (tick sp)) as [[E Hx]|[E Hx]]; rewrite Hx; simpl.
    - repeat split; auto.
    - repeat split; auto.
      + intros f Hf. apply in_or_app; auto.
      + intros f Hf. apply in_app_or in Hf. destruct Hf as [Hf|[<-|[]]]; auto.
      + apply in_dir_iff. eexists. split; [apply in_or_app; right; left; reflexivity|reflexivity].
  Qed.

  (** outside the range of the [time] crate the constructor panics inside next_date, before anything is touched *)
  Theorem restart_out_of_range : forall t, next_ok (rot c) t = false ->
    restart c sp t = bump_panics sp /\ dir (restart c sp t) = dir sp.
  Proof. intros t H. unfold restart. rewrite H. auto. Qed.
End Restart.

(** * Exclusive interface *)
Section Exclusive.
  Variable c : config.
  Variable sp : state.
  Variable t0 : Z.
  Hypothesis Ht0 : 0 <= t0 < TBOUND.
  Hypothesis Hsp : GoodFS sp.
  Let s0 := restart c sp t0.

  (** the headline, for one lifetime over whatever was there: under a non-decreasing clock the files called [n]
      gain exactly the buffers whose write time lies in the period [n] is named for — each once, whole, in write
      order, AFTER what earlier lifetimes had appended to that name (append, not truncate) *)
  Theorem x_contents_by_period : forall ws, Forall valid_w ws -> StronglySorted Z.le (t0 :: map fst ws) ->
    forall n, stored_in (run_x c s0 ws) n = stored_in sp n ++ belongs c t0 n ws.
  Proof.
    intros ws V Srt n.
    destruct (x_never_lost c sp t0 Ht0 Hsp ws V) as [HS [_ [[new [E1 [E2 E3]]] _]]]. fold s0 in HS, E1.
    rewrite (stored_is_landed _ HS), E1, landed_in_app. f_equal; [symmetry; apply stored_is_landed; apply Hsp|].
    unfold landed_in, belongs.
    assert (Hnd : forall l, In l new -> l_nd l = true).
    { intros l Hl. apply in_rev in Hl.
      apply (in_map (fun l => (l_t l, l_buf l, l_nd l))) in Hl. rewrite E2 in Hl.
      inversion Srt; subst. rewrite Forall_forall in H2.
      apply (annotate_sorted ws t0 H2 H1 _ Hl). }
    assert (Hk : map key (rev new) = ws).
    { clear - E2 Hnd. assert (G : forall ws m (L : list land), map (fun l => (l_t l, l_buf l, l_nd l)) L = annotate m ws -> map key L = ws).
      { induction ws0 as [|[t b] ws0 IH]; intros m L H; destruct L; simpl in *; try discriminate; auto.
        inversion H. unfold key at 1. rewrite H1, H2. f_equal. eapply IH; eauto. }
      eapply G; eauto. }
    transitivity (filter (fun w => String.eqb (period_file c t0 (fst w)) n) (map key (rev new))).
    - rewrite <- (map_filter_comm key (fun w => String.eqb (period_file c t0 (fst w)) n)).
      fold key. f_equal. apply filter_ext_in. intros l Hl. apply in_rev in Hl.
      assert (Hin : In l (lands (run_x c s0 ws))) by (rewrite E1; apply in_or_app; auto).
      rewrite (x_lands_in_period c sp t0 Ht0 Hsp ws V l Hin (E3 l Hl) (Hnd l Hl)). reflexivity.
    - rewrite Hk. reflexivity.
  Qed.

  (** any clock readings (also backward steps): every buffer is stored exactly once, whole, in write order per
      file; the writes whose reading is not behind an earlier one are in their period's file *)
  Theorem x_contents_any_clock : forall ws, Forall valid_w ws ->
    (exists new, lands (run_x c s0 ws) = new ++ lands sp /\
                 map (fun l => (l_t l, l_buf l, l_nd l)) (rev new) = annotate t0 ws /\
                 (forall l, In l new -> l_life l = S (life sp) /\ (l_nd l = true -> l_file l = period_file c t0 (l_t l)))) /\
    (forall n, stored_in (run_x c s0 ws) n = landed_in n (lands (run_x c s0 ws))) /\
    in_dir (cur (run_x c s0 ws)) (dir (run_x c s0 ws)) = true /\
    GoodFS (run_x c s0 ws).
  Proof.
    intros ws V. destruct (x_never_lost c sp t0 Ht0 Hsp ws V) as [HS [HC [[new [E1 [E2 E3]]] HG]]]. fold s0 in HS, HC, E1, HG.
    split; [|split; [apply stored_is_landed; exact HS|split; [exact HC|exact HG]]].
    exists new. split; [exact E1|split; [exact E2|]]. intros l Hl. split; [apply E3; auto|]. intros Hnd.
    apply (x_lands_in_period c sp t0 Ht0 Hsp ws V); auto. fold s0. rewrite E1. apply in_or_app; auto.
  Qed.

  (** a clock reading at or past next_date rotates: the write goes to the file of its own period and
      next_date moves past it (so the same instant does not rotate again) *)
  Theorem x_rotation_at_boundary : forall ws t b, Forall valid_w ws -> 0 <= t < TBOUND ->
    next (run_x c s0 ws) <> 0 -> next (run_x c s0 ws) <= t ->
    cur (write_x c (run_x c s0 ws) t b) = join_date c t /\
    next (write_x c (run_x c s0 ws) t b) = next_usize (rot c) t /\
    t < next (write_x c (run_x c s0 ws) t b) /\
    refreshed (write_x c (run_x c s0 ws) t b) = true.
  Proof.
    intros ws t b V Ht Hn Hle. set (s := run_x c s0 ws) in *.
    assert (Hk : rot c <> Never).
    { intro Hk. destruct (XInv_run c sp t0 ws s0 (XInv_init c sp t0 Ht0 Hsp) V) as [_ [_ [XN _]]].
      fold s in XN. destruct (XN Hk). contradiction. }
    assert (E : should_rollover s t = Some (next s)).
    { unfold should_rollover. rewrite to_usize_small by assumption.
      destruct (next s =? 0) eqn:E0; [apply Z.eqb_eq in E0; contradiction|].
      destruct (next s <=? t) eqn:E1; [reflexivity|apply Z.leb_gt in E1; lia]. }
    rewrite write_x_in_range by apply Ht. unfold write_x_ok. rewrite E.
    destruct (refresh_fields c (set_next s (next_usize (rot c) t)) t) as [R1 [R2 [_ [_ [_ [_ [_ [_ [_ [R10 _]]]]]]]]]].
    simpl. rewrite R1, R2, R10. simpl. pose proof (next_usize_gt (rot c) t Hk Ht). repeat split; auto.
  Qed.

  (** beyond the range in which next_date is defined a rotation-due write panics inside advance_date: nothing is
      written, created, removed or advanced (the caller sees the panic) *)
  Theorem x_write_out_of_range : forall s t b n, should_rollover s t = Some n -> next_ok (rot c) t = false ->
    write_x c s t b = bump_panics s.
  Proof. intros s t b n H1 H2. unfold write_x. rewrite H1, H2. reflexivity. Qed.
End Exclusive.

(** * Several lifetimes over one directory (exclusive interface): restarts *)
Definition lifetime : Type := (config * Z * list (Z * chunk))%type.
Definition run_lives (s : state) (ls : list lifetime) : state :=
  fold_left (fun s l => let '(c, t0, ws) := l in run_x c (restart c s t0) ws) ls s.
Definition life_ok (l : lifetime) : Prop :=
  let '(c, t0, ws) := l in 0 <= t0 < TBOUND /\ Forall valid_w ws /\ StronglySorted Z.le (t0 :: map fst ws).

(** across restarts - the configuration (also the limit, also the naming) and the clock may differ from lifetime
    to lifetime, the clock may even be behind the previous lifetime's: the files called [n] hold, in order, what
    each lifetime's writes of [n]'s period contributed; the state stays fit for the next appender *)
Theorem lives_contents : forall ls s, GoodFS s -> Forall life_ok ls ->
  GoodFS (run_lives s ls) /\
  forall n, stored_in (run_lives s ls) n =
            stored_in s n ++ flat_map (fun l : lifetime => let '(c, t0, ws) := l in belongs c t0 n ws) ls.
Proof.
  induction ls as [|[[c t0] ws] ls IH]; simpl; intros s G V.
  - split; auto. intro n. rewrite app_nil_r. reflexivity.
  - inversion V; subst. destruct H1 as [Ht0 [Vw Srt]].
    destruct (x_contents_any_clock c s t0 Ht0 G ws Vw) as [_ [_ [_ G']]].
    destruct (IH _ G' H2) as [G'' E]. split; [exact G''|]. intro n.
    unfold run_lives in E. rewrite E. rewrite (x_contents_by_period c s t0 Ht0 G ws Vw Srt n), <- app_assoc. reflexivity.
Qed.

(** * Shared interface: every make_writer call that ran to completion has exactly one landing *)
Definition buf_of (p : pc) : chunk :=
  match p with PLoad _ b _ | PCas _ b _ _ | PRefresh _ b _ | PRead _ b _ | PAppend _ b _ _ => b end.
Definition inflight (s : state) (i : nat) : list (Z * chunk) :=
  match pcs s i with Some p => [(time_of p, buf_of p)] | None => [] end.
Definition done_by (s : state) (i : nat) : list (Z * chunk) :=
  map key (filter (fun l => Nat.eqb (l_tid l) i) (rev (lands s))).
Definition starts (s : state) (e : event) (i : nat) : list (Z * chunk) :=
  match e with
  | Start j t b => if Nat.eqb j i && is_idle s j then [(t, b)] else []
  | Step _ => []
  end.
Fixpoint accepted (c : config) (s : state) (evs : list event) (i : nat) : list (Z * chunk) :=
  match evs with
  | [] => []
  | e :: r => starts s e i ++ accepted c (step c s e) r i
  end.

(** one step, in a state where no pending compare_exchange can panic (every clock reading in range) *)
Lemma step_progress c s e i : (forall j p, pcs s j = Some p -> time_of p < TBOUND) ->
  done_by (step c s e) i ++ inflight (step c s e) i = (done_by s i ++ inflight s i) ++ starts s e i.
Proof.
  intros HB. destruct e as [j t b|j]; unfold starts.
  - (* Start *)
    unfold step, is_idle. destruct (pcs s j) as [p|] eqn:Hp.
    + rewrite andb_false_r, app_nil_r. reflexivity.
    + rewrite andb_true_r. unfold done_by, inflight. simpl. unfold upd.
      destruct (Nat.eqb j i) eqn:E.
      * apply Nat.eqb_eq in E. subst j. rewrite Nat.eqb_refl, Hp. simpl. rewrite app_nil_r. reflexivity.
      * rewrite Nat.eqb_sym, E. rewrite app_nil_r. reflexivity.
  - (* Step *)
    rewrite app_nil_r. unfold step.
    destruct (pcs s j) as [[t b g|t b n g|t b g|t b g|t b f g]|] eqn:Hp; auto.
    + (* load *)
      destruct (should_rollover s t); unfold done_by, inflight; simpl; f_equal; unfold upd;
        destruct (Nat.eqb i j) eqn:E; auto; apply Nat.eqb_eq in E; subst; rewrite Hp; reflexivity.
    + (* cas *)
      rewrite (next_ok_small (rot c) t (HB _ _ Hp)). simpl.
      destruct (next s =? n); unfold done_by, inflight; simpl; f_equal; unfold upd;
        destruct (Nat.eqb i j) eqn:E; auto; apply Nat.eqb_eq in E; subst; rewrite Hp; reflexivity.
    + (* refresh *)
      destruct (readers s); auto.
      assert (EL : forall s1, (s1 = s \/ s1 = refresh c s t) -> lands s1 = lands s).
      { intros s1 [-> | ->]; auto. apply (refresh_fields c s t). }
      set (s1 := if recheck c && negb (next s =? next_usize (rot c) t) then s else refresh c s t).
      assert (E1 : lands s1 = lands s) by (apply EL; unfold s1; destruct (recheck c && _); auto).
      unfold done_by, inflight; simpl. rewrite E1. f_equal. unfold upd.
      destruct (Nat.eqb i j) eqn:E; auto; apply Nat.eqb_eq in E; subst; rewrite Hp; reflexivity.
    + (* read lock *)
      unfold done_by, inflight; simpl; f_equal; unfold upd;
        destruct (Nat.eqb i j) eqn:E; auto; apply Nat.eqb_eq in E; subst; rewrite Hp; reflexivity.
    + (* append *)
      unfold done_by, inflight; simpl. rewrite filter_app, map_app. simpl. unfold upd.
      destruct (Nat.eqb i j) eqn:E.
      * apply Nat.eqb_eq in E. subst j. rewrite Nat.eqb_refl, Hp. simpl. rewrite app_nil_r. reflexivity.
      * rewrite Nat.eqb_sym, E. simpl. rewrite app_nil_r. reflexivity.
Qed.

Lemma run_progress c sp t0 : 0 <= t0 < TBOUND -> forall evs s i, reach c sp t0 s -> Forall valid_ev evs ->
  done_by (run c s evs) i ++ inflight (run c s evs) i = (done_by s i ++ inflight s i) ++ accepted c s evs i.
Proof.
  intros Ht0. unfold run. induction evs as [|e evs IH]; simpl; intros s i R V; [rewrite app_nil_r; reflexivity|].
  inversion V; subst. rewrite IH by (auto; constructor; auto). rewrite step_progress, <- app_assoc; [reflexivity|].
  intros j p Hp. apply (proj1 (invT c sp t0 Ht0 s R) j p Hp).
Qed.

(** per thread: the calls it completed in this lifetime (each landed exactly once, in the order it made them)
    followed by the one it is inside are exactly the calls it started *)
Theorem shared_every_call_lands_once c sp t0 : 0 <= t0 < TBOUND -> forall evs i, Forall valid_ev evs ->
  done_by (run c (restart c sp t0) evs) i ++ inflight (run c (restart c sp t0) evs) i =
  done_by sp i ++ accepted c (restart c sp t0) evs i.
Proof.
  intros Ht0 evs i V. rewrite (run_progress c sp t0 Ht0 evs _ i (reach_init c sp t0) V). f_equal.
  unfold restart. rewrite (next_ok_small (rot c) t0 (proj2 Ht0)). destruct (create _ _ _). unfold done_by, inflight. simpl.
  rewrite app_nil_r. reflexivity.
Qed.

(** * Shared interface: the statements of Properties/C16.v *)
Section SharedMain.
  Variable c : config.
  Variable sp : state.
  Variable t0 : Z.
  Hypothesis Ht0 : 0 <= t0 < TBOUND.
  Hypothesis Hsp : GoodFS sp.
  Let s0 := restart c sp t0.

  (** the code as it is now (make_writer re-checks next_date under the write lock): EVERY schedule *)
  Theorem shared_lands_in_period_recheck : recheck c = true ->
    forall evs, Forall valid_ev evs ->
    forall l, In l (lands (run c s0 evs)) -> l_life l = S (life sp) -> l_clean l = true -> l_nd l = true ->
      l_file l = period_file c t0 (l_t l).
  Proof. intros Hr evs V. apply (shared_lands_in_period c sp t0 Ht0 Hsp evs V). left; exact Hr. Qed.

  (** the code before the repair of F16: only the schedules in which no compare_exchange is won while
      another winner has not refreshed yet *)
  Theorem shared_lands_in_period_norecheck :
    forall evs, Forall valid_ev evs -> overlapped (run c s0 evs) = false ->
    forall l, In l (lands (run c s0 evs)) -> l_life l = S (life sp) -> l_clean l = true -> l_nd l = true ->
      l_file l = period_file c t0 (l_t l).
  Proof. intros evs V Ho. apply (shared_lands_in_period c sp t0 Ht0 Hsp evs V). right; exact Ho. Qed.

  (** never lost, for every schedule, with or without the re-check *)
  Theorem shared_never_lost_full : forall evs, Forall valid_ev evs ->
    (forall n, stored_in (run c s0 evs) n = landed_in n (lands (run c s0 evs))) /\
    (forall i, done_by (run c s0 evs) i ++ inflight (run c s0 evs) i = done_by sp i ++ accepted c s0 evs i) /\
    in_dir (cur (run c s0 evs)) (dir (run c s0 evs)) = true /\
    (forall l, In l (lands (run c s0 evs)) -> l_life l = S (life sp) -> opened c t0 (rots (run c s0 evs)) (l_file l)) /\
    life (run c s0 evs) = S (life sp) /\ GoodFS (run c s0 evs).
  Proof.
    intros evs V. destruct (shared_never_lost c sp t0 Ht0 Hsp evs V) as [HS [HC _]]. fold s0 in HS, HC.
    destruct (shared_epoch c sp t0 Ht0 Hsp evs V) as [E G]. fold s0 in E, G.
    split; [apply stored_is_landed; exact HS|]. split; [intro i; apply shared_every_call_lands_once; auto|].
    split; [exact HC|]. split; [apply (shared_lands_in_opened_file c sp t0 Ht0 Hsp evs V)|auto].
  Qed.

  Theorem shared_no_rotation_backwards_full : forall evs, Forall valid_ev evs ->
    (rot c = Never -> rots (run c s0 evs) = []) /\
    (rot c <> Never -> forall u, In u (decided (run c s0 evs)) -> u < next (run c s0 evs)) /\
    (forall i t b g u, pcs (run c s0 evs) i = Some (PLoad t b g) ->
       (rot c = Never \/ (In u (decided (run c s0 evs)) /\ t <= u)) ->
       rots (step c (run c s0 evs) (Step i)) = rots (run c s0 evs) /\
       fails (step c (run c s0 evs) (Step i)) = fails (run c s0 evs) /\
       next (step c (run c s0 evs) (Step i)) = next (run c s0 evs) /\
       cur (step c (run c s0 evs) (Step i)) = cur (run c s0 evs) /\
       dir (step c (run c s0 evs) (Step i)) = dir (run c s0 evs) /\
       pcs (step c (run c s0 evs) (Step i)) i = Some (PRead t b g)).
  Proof.
    intros evs V. destruct (shared_no_rotation_backwards c sp t0 Ht0 evs V) as [H1 [H2 _]].
    split; [exact H1|split; [exact H2|]]. apply (shared_backwards_step c sp t0 Ht0 evs V).
  Qed.

  Theorem shared_one_rotation_full : forall evs, Forall valid_ev evs ->
    NoDup (map from_of (rots (run c s0 evs))) /\
    (forall i n t, In (i, n, t) (fails (run c s0 evs)) -> exists j u, In (j, n, u) (rots (run c s0 evs))) /\
    (forall r, In r (rots (run c s0 evs)) -> from_of r <= snd r /\ from_of r < next (run c s0 evs)) /\
    (forall i t b n g, pcs (run c s0 evs) i = Some (PCas t b n g) ->
       exists j u, In (j, n, u) (rots (step c (run c s0 evs) (Step i)))).
  Proof.
    intros evs V. destruct (shared_one_rotation_per_boundary c sp t0 Ht0 evs V) as [H1 [H2 H3]].
    split; [exact H1|split; [exact H2|split; [exact H3|]]]. apply (shared_cas_elects c sp t0 Ht0 evs V).
  Qed.

  (** also for a lifetime that starts above the limit (a restart in a later period, a lowered limit): from its first
      completed rotation on *)
  Theorem prune_limit_both : forall m, max_files c = Some m -> (1 <= m)%nat ->
    (forall ws, Forall valid_w ws -> refreshed (run_x c s0 ws) = true -> (count_logs c (dir (run_x c s0 ws)) <= m)%nat) /\
    (forall evs, Forall valid_ev evs -> refreshed (run c s0 evs) = true -> (count_logs c (dir (run c s0 evs)) <= m)%nat).
  Proof.
    intros m Hm H1. split.
    - intros ws V R. apply (x_prune_limit c sp t0 Ht0 Hsp ws V R m Hm H1).
    - intros evs V R. apply (shared_prune_limit c sp t0 Ht0 Hsp evs V R m Hm H1).
  Qed.

  (** the directory is well-formed (unique names, unique creation stamps) wherever a rotation can start *)
  Theorem dir_ok_both :
    (forall ws, Forall valid_w ws -> DirOK (dir (run_x c s0 ws)) (tick (run_x c s0 ws))) /\
    (forall evs, Forall valid_ev evs -> DirOK (dir (run c s0 evs)) (tick (run c s0 evs))).
  Proof.
    split.
    - intros ws V. apply (XInv_run c sp t0 ws s0 (XInv_init c sp t0 Ht0 Hsp) V).
    - intros evs V. apply (shared_never_lost c sp t0 Ht0 Hsp evs V).
  Qed.

  (** entries that are not the appender's own log files are never removed, renamed or written - both interfaces *)
  Theorem foreign_untouched_both : forall f, In f (dir sp) -> matches c (fname f) = false ->
    (forall ws, Forall valid_w ws -> In f (dir (run_x c s0 ws))) /\
    (forall evs, Forall valid_ev evs -> In f (dir (run c s0 evs))).
  Proof.
    intros f Hf Hnm. split.
    - intros ws V. apply (x_foreign_untouched c sp t0 Ht0 Hsp ws V f Hf Hnm).
    - intros evs V. apply (shared_foreign_untouched c sp t0 Ht0 Hsp evs V f Hf Hnm).
  Qed.

  (** the shared panic branch: a compare_exchange attempt whose clock reading is beyond the range of next_date
      panics before the exchange - the call ends, nothing else changes *)
  Theorem shared_cas_out_of_range : forall s i t b n g, pcs s i = Some (PCas t b n g) -> next_ok (rot c) t = false ->
    step c s (Step i) = with_pcs (bump_panics s) (upd (pcs s) i None).
  Proof. intros s i t b n g Hp Hok. simpl. rewrite Hp, Hok. reflexivity. Qed.
End SharedMain.
