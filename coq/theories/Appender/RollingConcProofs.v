(** C16 — the shared interface (MakeWriter::make_writer from several threads): invariants of the
    small-step system of Appender/RollingModel.v, for every event list (= every schedule, every number of
    threads, every clock reading in range). *)
From Coq Require Import ZArith NArith List String Bool Lia Sorted.
From TV Require Import Appender.RollingModel Appender.RollingTimeProofs Appender.RollingNameProofs Appender.RollingDirProofs Appender.RollingFsProofs.
Import ListNotations.
Local Open Scope Z_scope.
Local Notation length := List.length.

(** * projections of [refresh] *)
Lemma refresh_fields c s t :
  next (refresh c s t) = next s /\ cur (refresh c s t) = join_date c t /\ readers (refresh c s t) = readers s /\
  pcs (refresh c s t) = pcs s /\ rots (refresh c s t) = rots s /\ fails (refresh c s t) = fails s /\
  decided (refresh c s t) = decided s /\ lands (refresh c s t) = lands s /\ pend (refresh c s t) = pend s /\
  refreshed (refresh c s t) = true /\ overlapped (refresh c s t) = overlapped s /\ maxstart (refresh c s t) = maxstart s.
Proof.
  unfold refresh. destruct (match max_files c with Some m => prune c m (dir s) | None => (dir s, []) end) as [d1 rm].
  destruct (create (join_date c t) d1 (tick s)) as [d2 tk]. simpl. repeat split; reflexivity.
Qed.

Lemma refresh_life c s t : life (refresh c s t) = life s /\ panics (refresh c s t) = panics s.
Proof.
  unfold refresh. destruct (match max_files c with Some m => prune c m (dir s) | None => (dir s, []) end) as [d1 rm].
  destruct (create (join_date c t) d1 (tick s)) as [d2 tk]. simpl. split; reflexivity.
Qed.

Lemma upd_same f i v : upd f i v i = v.
Proof. unfold upd. rewrite Nat.eqb_refl. reflexivity. Qed.
Lemma upd_other f i v j : j <> i -> upd f i v j = f j.
Proof. unfold upd. intros H. apply Nat.eqb_neq in H. rewrite H. reflexivity. Qed.

Lemma remove_tid_in i j l : In j (remove_tid i l) <-> In j l /\ j <> i.
Proof.
  unfold remove_tid. rewrite filter_In. rewrite negb_true_iff, Nat.eqb_neq. tauto.
Qed.

(* rotation_eq_dec: see RollingNameProofs *)

Definition time_of (p : pc) : Z :=
  match p with PLoad t _ _ | PCas t _ _ _ | PRefresh t _ _ | PRead t _ _ | PAppend t _ _ _ => t end.

Definition valid_ev (e : event) : Prop := match e with Start _ t _ => 0 <= t < TBOUND | Step _ => True end.

Section Shared.
  Variable c : config.
  Variable sp : state.            (* what the previous lifetimes (or nobody: [blank pre tick0]) left behind *)
  Variable t0 : Z.
  Hypothesis Ht0 : 0 <= t0 < TBOUND.
  Hypothesis Hsp : GoodFS sp.
  Let k := rot c.
  Let s0 := restart c sp t0.

  (* the state right after construction, with [create]'s result named *)
  Ltac base := unfold s0, restart; rewrite (next_ok_small (rot c) t0 (proj2 Ht0)); destruct (create _ _ _).

  Inductive reach : state -> Prop :=
  | reach_init : reach s0
  | reach_step : forall s e, reach s -> valid_ev e -> reach (step c s e).

  Lemma reach_run : forall evs, Forall valid_ev evs -> reach (run c s0 evs).
  Proof.
    intros evs. unfold run. induction evs as [|e evs IH] using rev_ind; intros H; simpl.
    - constructor.
    - rewrite fold_left_app. simpl. apply Forall_app in H. destruct H as [H1 H2]. inversion H2; subst.
      constructor; auto.
  Qed.

  (** the case analysis of one step, with every field of the new state computed *)
  Ltac rf := repeat match goal with
    | |- context [next (refresh c ?s ?t)] => rewrite (proj1 (refresh_fields c s t))
    | |- context [cur (refresh c ?s ?t)] => rewrite (proj1 (proj2 (refresh_fields c s t)))
    | |- context [readers (refresh c ?s ?t)] => rewrite (proj1 (proj2 (proj2 (refresh_fields c s t))))
    | |- context [pcs (refresh c ?s ?t)] => rewrite (proj1 (proj2 (proj2 (proj2 (refresh_fields c s t)))))
    | |- context [rots (refresh c ?s ?t)] => rewrite (proj1 (proj2 (proj2 (proj2 (proj2 (refresh_fields c s t))))))
    | |- context [fails (refresh c ?s ?t)] => rewrite (proj1 (proj2 (proj2 (proj2 (proj2 (proj2 (refresh_fields c s t)))))))
    | |- context [decided (refresh c ?s ?t)] => rewrite (proj1 (proj2 (proj2 (proj2 (proj2 (proj2 (proj2 (refresh_fields c s t))))))))
    | |- context [lands (refresh c ?s ?t)] => rewrite (proj1 (proj2 (proj2 (proj2 (proj2 (proj2 (proj2 (proj2 (refresh_fields c s t)))))))))
    | |- context [pend (refresh c ?s ?t)] => rewrite (proj1 (proj2 (proj2 (proj2 (proj2 (proj2 (proj2 (proj2 (proj2 (refresh_fields c s t))))))))))
    | |- context [overlapped (refresh c ?s ?t)] => rewrite (proj1 (proj2 (proj2 (proj2 (proj2 (proj2 (proj2 (proj2 (proj2 (proj2 (proj2 (refresh_fields c s t))))))))))))
    | |- context [life (refresh c ?s ?t)] => rewrite (proj1 (refresh_life c s t))
    | |- context [panics (refresh c ?s ?t)] => rewrite (proj2 (refresh_life c s t))
    | |- context [maxstart (refresh c ?s ?t)] => rewrite (proj2 (proj2 (proj2 (proj2 (proj2 (proj2 (proj2 (proj2 (proj2 (proj2 (proj2 (refresh_fields c s t))))))))))))
    end.

  (* the panic branch of the compare_exchange step cannot be taken by a clock reading in range *)
  Ltac kill_panic := match goal with
    | Hok : next_ok (rot c) ?x = false, I : (forall i p, pcs ?s i = Some p -> 0 <= time_of p < TBOUND), Hpc : pcs ?s _ = Some (PCas ?x _ _ _) |- _ =>
        exfalso; generalize (I _ _ Hpc); simpl; intros Hb; rewrite (next_ok_small (rot c) x (proj2 Hb)) in Hok; discriminate
    end.

  (* finds the event in the context; names the thread [i] *)
  Ltac step_cases s :=
    match goal with ev : event |- _ => destruct ev as [i ?t ?b|i] end; simpl;
    match goal with |- context [match pcs s ?j with _ => _ end] =>
      destruct (pcs s j) as [[?t ?b ?g|?t ?b ?n ?g|?t ?b ?g|?t ?b ?g|?t ?b ?f ?g]|] eqn:Hpc; simpl end;
    repeat match goal with
      | |- context [if negb (next_ok (rot c) ?x) then _ else _] => destruct (next_ok (rot c) x) eqn:Hok; simpl; [|try kill_panic]
      | |- context [match should_rollover ?a ?x with _ => _ end] => destruct (should_rollover a x) eqn:Hsr; simpl
      | |- context [if next s =? ?n then _ else _] => destruct (next s =? n) eqn:Hn; simpl
      | |- context [match readers s with _ => _ end] => destruct (readers s) eqn:Hrd; simpl
      | |- context [if recheck c && ?x then _ else _] => destruct (recheck c && x) eqn:Hrc; simpl
      end; rf.

  Ltac updc H j i := unfold upd in H; destruct (Nat.eqb j i) eqn:?Eji;
    [apply Nat.eqb_eq in Eji; subst j; try (inversion H; subst; clear H)|apply Nat.eqb_neq in Eji].

  (** * A. clock readings stay in range *)
  Definition InvT (s : state) : Prop :=
    (forall i p, pcs s i = Some p -> 0 <= time_of p < TBOUND) /\
    (forall i n t, In (i, n, t) (rots s) -> 0 <= t < TBOUND) /\
    t0 <= maxstart s < TBOUND /\
    (forall i p, pcs s i = Some p -> time_of p <= maxstart s) /\
    (forall i n t, In (i, n, t) (rots s) -> t <= maxstart s).

  Lemma invT : forall s, reach s -> InvT s.
  Proof.
    induction 1 as [|s e R IH V].
    - base. unfold InvT; simpl. repeat split; try discriminate; try tauto; lia.
    - destruct IH as [I1 [I2 [I3 [I4 I5]]]].
      step_cases s; unfold InvT; simpl; rf; auto.
      all: simpl in V.
      all: try (generalize (I1 _ _ Hpc); generalize (I4 _ _ Hpc); simpl; intros G4 G1).
      all: (split; [|split; [|split; [|split]]]); auto; try lia.
      all: try (intros j p Hj; updc Hj j i; simpl in *; eauto; lia).
      all: try (intros j m u [Hj|Hj]; [inversion Hj; subst; lia|eauto]).
      all: try (intros j m u Hj; specialize (I5 _ _ _ Hj); lia).
  Qed.

  Ltac kill_panic ::= match goal with
    | Hok : next_ok (rot c) ?x = false, R : reach ?s, Hpc : pcs ?s _ = Some (PCas ?x _ _ _) |- _ =>
        exfalso; generalize (proj1 (invT s R) _ _ Hpc); simpl; intros Hb; rewrite (next_ok_small (rot c) x (proj2 Hb)) in Hok; discriminate
    end.

  Ltac dH H := match type of H with
    | exists _, _ => let x := fresh "x" in destruct H as [x H]; dH H
    | _ /\ _ => let H1 := fresh "H" in destruct H as [H1 H]; dH H1; dH H
    | _ \/ _ => destruct H as [H|H]; dH H
    | _ => idtac end.

  (** * B. the reader list and the pending list mirror the program counters *)
  Definition InvRP (s : state) : Prop :=
    (forall i, In i (readers s) <-> exists t b f g, pcs s i = Some (PAppend t b f g)) /\
    (forall i, In i (pend s) <-> exists t b g, pcs s i = Some (PRefresh t b g)).

  Lemma invRP : forall s, reach s -> InvRP s.
  Proof.
    induction 1 as [|s e R IH V].
    - base. unfold InvRP; simpl. split; intros i; (split; [tauto|]); [intros [? [? [? [? H]]]]|intros [? [? [? H]]]]; discriminate.
    - destruct IH as [I1 I2].
      step_cases s; unfold InvRP; simpl; rf; auto.
      all: try rewrite Hrd.
      all: split; intros j; rewrite ?remove_tid_in; simpl; rewrite ?(I1 j), ?(I2 j).
      all: unfold upd; destruct (Nat.eqb j i) eqn:Eji; [apply Nat.eqb_eq in Eji; subst j; rewrite ?Hpc|apply Nat.eqb_neq in Eji].
      all: try tauto.
      all: split; intros H; dH H.
      all: try discriminate; try tauto; try congruence.
      all: try (repeat eexists; reflexivity).
      all: try (right; repeat eexists; eassumption).
      all: try (split; auto; repeat eexists; eassumption).
      all: try (repeat eexists; eassumption).
  Qed.
  (** * C. next_date and the compare_exchange *)
  Definition last_t (s : state) : Z := match rots s with [] => t0 | (_, _, t) :: _ => t end.
  Definition from_of (r : nat * Z * Z) : Z := snd (fst r).

  Definition InvN (s : state) : Prop :=
    (k = Never -> next s = 0 /\ rots s = []) /\
    (k <> Never -> next s = next_usize k (last_t s)) /\
    (forall r, In r (rots s) -> 0 < from_of r < next s /\ from_of r <= snd r) /\
    StronglySorted (fun a b => from_of b < from_of a) (rots s) /\
    (forall i t b n g, pcs s i = Some (PCas t b n g) ->
        0 < n <= next s /\ n <= t /\ (n < next s -> exists j u, In (j, n, u) (rots s))) /\
    (forall i n t, In (i, n, t) (fails s) -> exists j u, In (j, n, u) (rots s)) /\
    (k <> Never -> forall t, In t (decided s) -> t < next s).

  Lemma last_t_range s : InvT s -> 0 <= last_t s < TBOUND.
  Proof.
    intros [_ [I2 _]]. unfold last_t. destruct (rots s) as [|[[i n] t] r]; auto. apply (I2 i n t). left; reflexivity.
  Qed.

  Lemma should_rollover_some s t n : 0 <= t < TBOUND -> should_rollover s t = Some n -> n = next s /\ next s <> 0 /\ next s <= t.
  Proof.
    intros Ht. unfold should_rollover. rewrite to_usize_small by assumption.
    destruct (next s =? 0) eqn:E; [discriminate|]. destruct (next s <=? t) eqn:E2; [|discriminate].
    intros H; inversion H; subst. apply Z.eqb_neq in E. apply Z.leb_le in E2. auto.
  Qed.
  Lemma should_rollover_none s t : 0 <= t < TBOUND -> should_rollover s t = None -> next s = 0 \/ t < next s.
  Proof.
    intros Ht. unfold should_rollover. rewrite to_usize_small by assumption.
    destruct (next s =? 0) eqn:E; [apply Z.eqb_eq in E; auto|]. destruct (next s <=? t) eqn:E2; [discriminate|].
    apply Z.leb_gt in E2. auto.
  Qed.

  Lemma invN : forall s, reach s -> InvN s.
  Proof.
    induction 1 as [|s e R IH V].
    - base. unfold InvN; simpl.
      repeat split; try discriminate; try tauto; try constructor.
      unfold k in H. rewrite H. reflexivity.
    - pose proof (invT s R) as IT. pose proof (last_t_range s IT) as HL.
      destruct IT as [T1 [T2 [T3 [T4 T5]]]].
      pose proof IH as IH'. destruct IH' as [N1 [N2 [N3 [N4 [N5 [N6 N7]]]]]].
      assert (Hpos : k <> Never -> 0 < next s).
      { intros Hk. rewrite (N2 Hk). pose proof (next_usize_gt k (last_t s) Hk HL). lia. }
      step_cases s; try exact IH; unfold InvN, last_t in *; simpl; rf; simpl in V.
      all: try (generalize (T1 _ _ Hpc); simpl; intros G1).
      all: split; [|split; [|split; [|split; [|split; [|split]]]]].
      all: try assumption.
      all: try solve [intros j t' b' n' g' Hj; unfold upd in Hj; destruct (Nat.eqb j i) eqn:Eji; [discriminate|eapply N5; eauto]].
      + (* load: should_rollover = Some *)
        intros j t' b' n' g' Hj. unfold upd in Hj. destruct (Nat.eqb j i) eqn:Eji; [|eapply N5; eauto].
        inversion Hj; subst. destruct (should_rollover_some s _ _ G1 Hsr) as [E1 [E2 E3]]. subst.
        assert (Hk : k <> Never) by (intro Hk; destruct (N1 Hk); congruence). specialize (Hpos Hk).
        repeat split; try lia.
      + (* load: no rollover *)
        intros Hk u [<-|Hu]; [|apply N7; auto].
        destruct (should_rollover_none s t G1 Hsr); [specialize (Hpos Hk); lia|auto].
      + destruct (N5 _ _ _ _ _ Hpc) as [C1 [C2 C3]]. intros Hk; destruct (N1 Hk); lia.
      + intros _; reflexivity.
      + destruct (N5 _ _ _ _ _ Hpc) as [C1 [C2 C3]]. apply Z.eqb_eq in Hn.
        assert (Hk : k <> Never) by (intro Hk; destruct (N1 Hk); lia).
        pose proof (next_usize_gt k t Hk G1). fold k.
        intros r [<-|Hr]; unfold from_of; simpl; [lia|]. destruct (N3 r Hr). unfold from_of in *. lia.
      + apply Z.eqb_eq in Hn. constructor; auto. rewrite Forall_forall; intros r Hr; destruct (N3 r Hr); unfold from_of at 2; simpl; lia.
      + destruct (N5 _ _ _ _ _ Hpc) as [C1 [C2 C3]]. apply Z.eqb_eq in Hn.
        assert (Hk : k <> Never) by (intro Hk; destruct (N1 Hk); lia).
        pose proof (next_usize_gt k t Hk G1). fold k.
        intros j t' b' n' g' Hj. unfold upd in Hj. destruct (Nat.eqb j i) eqn:Eji; [discriminate|].
        destruct (N5 _ _ _ _ _ Hj) as [D1 [D2 D3]]. split; [lia|split; auto]. intros Hlt.
        destruct (Z.eq_dec n' (next s)) as [E|E].
        * exists i, t. left. congruence.
        * destruct D3 as [j' [u Hu]]; [lia|]. exists j', u. right; auto.
      + intros j n' t' Hj. destruct (N6 _ _ _ Hj) as [j' [u Hu]]. exists j', u. right; auto.
      + destruct (N5 _ _ _ _ _ Hpc) as [C1 [C2 C3]]. apply Z.eqb_eq in Hn.
        intros Hk. pose proof (next_usize_gt k t Hk G1). fold k.
        intros u [<-|Hu]; [lia|]. specialize (N7 Hk u Hu). lia.
      + intros j n' t' [Hj|Hj]; [|eapply N6; eauto]. inversion Hj; subst.
        destruct (N5 _ _ _ _ _ Hpc) as [C1 [C2 C3]]. apply C3. apply Z.eqb_neq in Hn. lia.
  Qed.

  (** * D. the directory: nothing is lost, the limit holds, read guards point at the current file *)
  Definition InvF (s : state) : Prop :=
    FSInv c s /\ (forall i t b f g, pcs s i = Some (PAppend t b f g) -> f = cur s).

  Lemma invF : forall s, reach s -> InvF s.
  Proof.
    induction 1 as [|s e R IH V].
    - split; [apply FSInv_restart; [apply next_ok_small; apply Ht0|apply Hsp|apply Hsp]|]. base. simpl. discriminate.
    - pose proof (invRP s R) as [RP1 RP2].
      pose proof IH as IH'. destruct IH' as [F1 F2].
      step_cases s; try exact IH; unfold InvF.
      all: split.
      all: try solve [eapply FSInv_ext; [..|exact F1]; reflexivity].
      all: try solve [simpl; intros j t' b' f' g' Hj; unfold upd in Hj; destruct (Nat.eqb j i) eqn:Eji; [discriminate|eapply F2; eauto]].
      + eapply FSInv_ext; [..|apply (FSInv_refresh c s t F1)]; reflexivity.
      + simpl. intros j t' b' f' g' Hj. unfold upd in Hj. destruct (Nat.eqb j i); [discriminate|].
        exfalso. apply (proj2 (RP1 j)). eauto.
      + simpl. intros j t' b' f' g' Hj. unfold upd in Hj. destruct (Nat.eqb j i); [inversion Hj; reflexivity|eapply F2; eauto].
      + pose proof (F2 _ _ _ _ _ Hpc) as Ef. subst f.
        eapply FSInv_ext; [..|apply (FSInv_append c s (cur s) t b i (clean s g) (nd g) F1)]; try reflexivity.
        apply F1.
  Qed.

  (** * D'. the lifetime counter: constant during a lifetime; landings are tagged with the lifetime they happened in *)
  Definition InvE (s : state) : Prop :=
    life s = S (life sp) /\ (forall l, In l (lands s) -> (l_life l <= life s)%nat).

  Lemma invE : forall s, reach s -> InvE s.
  Proof.
    induction 1 as [|s e R IH V].
    - base. unfold InvE; simpl. split; auto. intros x Hx. destruct Hsp as [_ [_ HE]]. specialize (HE x Hx). lia.
    - destruct IH as [E1 E2].
      step_cases s; try (split; assumption); unfold InvE; simpl; rf; (split; [exact E1|]); try exact E2.
      intros x [<-|Hx]; simpl; auto.
  Qed.

  (** * E. which file a write lands in *)
  Definition ghost_of (p : pc) : opg :=
    match p with PLoad _ _ g | PCas _ _ _ g | PRefresh _ _ g | PRead _ _ g | PAppend _ _ _ g => g end.

  (** ghost counters: an operation has seen at least its own CAS wins *)
  Definition InvG (s : state) : Prop :=
    forall i p, pcs s i = Some p ->
      (c0 (ghost_of p) + mine (ghost_of p) <= length (rots s))%nat /\
      match p with PLoad _ _ g | PCas _ _ _ g => mine g = 0%nat | PRefresh _ _ g => mine g = 1%nat | _ => True end.

  Lemma invG : forall s, reach s -> InvG s.
  Proof.
    induction 1 as [|s e R IH V].
    - base. unfold InvG; simpl. discriminate.
    - step_cases s; try exact IH; unfold InvG; simpl; rf.
      all: try (generalize (IH _ _ Hpc); simpl; intros [G1 G2]).
      all: intros j p Hj; unfold upd in Hj; destruct (Nat.eqb j i) eqn:Eji;
           [inversion Hj; subst; simpl; split; auto; lia|destruct (IH _ _ Hj); split; auto; simpl; lia].
  Qed.

  Let period_file (t : Z) : string := RollingNameProofs.period_file c t0 t.
  Definition sclean (s : state) (g : opg) : Prop := clean s g = true /\ nd g = true.
  Definition head_is (s : state) (i : nat) (t : Z) : Prop := exists n r, rots s = (i, n, t) :: r.
  Definition head_not (s : state) (i : nat) : Prop := forall j n t r, rots s = (j, n, t) :: r -> j <> i.

  Definition pc_ok (s : state) (i : nat) (p : pc) : Prop :=
    match p with
    | PLoad t _ g => sclean s g -> pend s = [] /\ last_t s <= t
    | PCas t _ n g => sclean s g -> pend s = [] /\ last_t s <= t /\ next s = n
    | PRefresh t _ g =>
        (head_is s i t \/ (recheck c = true /\ k <> Never /\ next_usize k t < next s /\ head_not s i)) /\
        (sclean s g -> head_is s i t /\ pend s = [i])
    | PRead t _ g => sclean s g -> cur s = period_file t /\ pend s = []
    | PAppend t _ f g => sclean s g -> f = period_file t /\ pend s = []
    end.

  Definition InvL (s : state) : Prop :=
    (recheck c = true \/ overlapped s = false) ->
    (forall i n t r, rots s = (i, n, t) :: r -> ~ In i (pend s) -> cur s = period_file t) /\
    (rots s = [] -> cur s = period_file t0) /\
    (forall i p, pcs s i = Some p -> pc_ok s i p) /\
    (forall l, In l (lands s) -> l_life l = life s -> l_clean l = true -> l_nd l = true -> l_file l = period_file (l_t l)).

  Lemma pc_ok_ext s s' j p :
    rots s' = rots s -> pend s' = pend s -> next s' = next s -> cur s' = cur s -> pc_ok s j p -> pc_ok s' j p.
  Proof.
    intros E1 E2 E3 E4. unfold pc_ok, sclean, clean, head_is, head_not, last_t. rewrite E1, E2, E3, E4. auto.
  Qed.

  Lemma period_file_same tl t : 0 <= tl <= t -> t < TBOUND -> (k <> Never -> t < next_usize k tl) ->
    period_file t = period_file tl.
  Proof. apply RollingNameProofs.period_file_same. Qed.

  Lemma refresh_overlapped s t : overlapped (refresh c s t) = overlapped s.
  Proof. apply (refresh_fields c s t). Qed.

  Lemma cur_is_last s : InvL s -> (recheck c = true \/ overlapped s = false) -> pend s = [] -> cur s = period_file (last_t s).
  Proof.
    intros IL H Hp. destruct (IL H) as [L1 [L2 _]]. unfold last_t. destruct (rots s) as [|[[i n] t] r] eqn:E; auto.
    eapply L1; eauto. rewrite Hp. simpl. tauto.
  Qed.

  Local Arguments Nat.eqb : simpl never.
  Local Arguments Nat.add : simpl never.

  Lemma invL : forall s, reach s -> InvL s.
  Proof.
    induction 1 as [|s e R IH V].
    - base. unfold InvL; simpl. intros _.
      split; [discriminate|]. split; [intros _; unfold period_file, RollingNameProofs.period_file; fold k; destruct k; reflexivity|].
      split; [discriminate|]. intros x Hx E. destruct Hsp as [_ [_ HE]]. specialize (HE x Hx). simpl in E. lia.
    - pose proof (invT s R) as IT. pose proof (last_t_range s IT) as HL. destruct IT as [T1 [T2 [T3 [T4 T5]]]].
      pose proof (invRP s R) as [RP1 RP2].
      pose proof (invN s R) as [N1 [N2 [N3 [N4 [N5 [N6 N7]]]]]].
      pose proof (invG s R) as IG.
      assert (HLM : last_t s <= maxstart s).
      { unfold last_t. destruct (rots s) as [|[[? ?] ?] ?] eqn:E; [lia|]. eapply T5. left; reflexivity. }
      assert (Hpos : k <> Never -> 0 < next s).
      { intros Hk. rewrite (N2 Hk). pose proof (next_usize_gt k (last_t s) Hk HL). lia. }
      pose proof (cur_is_last s IH) as CL.
      step_cases s; try exact IH; unfold InvL; intros H'.
      all: assert (H : recheck c = true \/ overlapped s = false)
             by (simpl in H'; rewrite ?refresh_overlapped in H'; destruct H' as [?|H']; [left; auto|right; try exact H'; apply orb_false_iff in H'; tauto]).
      all: destruct (IH H) as [L1 [L2 [L3 L4]]]; specialize (CL H).
      all: try (pose proof (L3 _ _ Hpc) as OK; pose proof (T1 _ _ Hpc) as G1; simpl in G1; pose proof (IG _ _ Hpc) as [IG1 IG2]; simpl in IG1, IG2).
      all: simpl; rf.
      + (* Start *)
        split; [exact L1|split; [exact L2|split; [|exact L4]]].
        intros j p Hj. unfold upd in Hj. destruct (Nat.eqb j i) eqn:Eji.
        * inversion Hj; subst p. unfold pc_ok, sclean, clean; simpl. intros [Hc Hnd].
          apply andb_true_iff in Hc. destruct Hc as [Hq _]. apply Z.leb_le in Hnd.
          split; [destruct (pend s); [reflexivity|discriminate]|unfold last_t in *; simpl; lia].
        * eapply pc_ok_ext; [..|eapply L3; eauto]; reflexivity.
      + (* Load: rollover due *)
        split; [exact L1|split; [exact L2|split; [|exact L4]]].
        intros j p Hj. unfold upd in Hj. destruct (Nat.eqb j i) eqn:Eji.
        * inversion Hj; subst p. destruct (should_rollover_some s _ _ G1 Hsr) as [E1 _].
          unfold pc_ok, sclean, clean, last_t in *; simpl in *. intros Hs. destruct (OK Hs). auto.
        * eapply pc_ok_ext; [..|eapply L3; eauto]; reflexivity.
      + (* Load: no rollover *)
        split; [exact L1|split; [exact L2|split; [|exact L4]]].
        intros j p Hj. unfold upd in Hj. destruct (Nat.eqb j i) eqn:Eji.
        * inversion Hj; subst p. unfold pc_ok in *. intros Hs.
          assert (Hs' : sclean s g) by exact Hs. destruct (OK Hs') as [Hp Hle].
          split; [|exact Hp]. simpl. rewrite (CL Hp). symmetry. apply period_file_same; try lia.
          intros Hk. rewrite <- (N2 Hk). destruct (should_rollover_none s t G1 Hsr); [specialize (Hpos Hk); lia|auto].
        * eapply pc_ok_ext; [..|eapply L3; eauto]; reflexivity.
      + (* CAS won *)
        destruct (N5 _ _ _ _ _ Hpc) as [C1 [C2 C3]]. apply Z.eqb_eq in Hn.
        assert (Hk : k <> Never) by (intro Hk; destruct (N1 Hk); lia).
        pose proof (next_usize_gt k t Hk G1) as Hgt.
        split; [|split; [discriminate|split; [|exact L4]]].
        * intros j m u r E Hnin. inversion E; subst. exfalso. apply Hnin. left; reflexivity.
        * intros j p Hj. unfold upd in Hj. destruct (Nat.eqb j i) eqn:Eji.
          -- apply Nat.eqb_eq in Eji. subst j. inversion Hj; subst p. unfold pc_ok. simpl. split.
             ++ left. unfold head_is. simpl. eauto.
             ++ intros [Hc Hnd]. unfold clean in Hc. simpl in Hc, Hnd.
                assert (Hs : sclean s g).
                { split; auto. unfold clean. apply andb_true_iff in Hc. destruct Hc as [Hq Hc]. rewrite Hq. simpl.
                  apply Nat.eqb_eq in Hc. apply Nat.eqb_eq. lia. }
                destruct (OK Hs) as [Hp _]. split; [unfold head_is; simpl; eauto|rewrite Hp; reflexivity].
          -- apply Nat.eqb_neq in Eji. pose proof (L3 _ _ Hj) as OKj. pose proof (IG _ _ Hj) as [IGj1 IGj2].
             assert (Hdirty : forall P : Prop, clean (with_pcs
                  (with_ghost (set_next s (next_usize (rot c) t)) ((i, n, t) :: rots s) (fails s) (t :: decided s)
                     (i :: pend s) (overlapped s || negb (is_nil (pend s))))
                  (upd (pcs s) i (Some (PRefresh t b {| q0 := q0 g; c0 := c0 g; mine := 1; nd := nd g |})))) (ghost_of p) = true -> P).
             { intros P Hc. exfalso. unfold clean in Hc. simpl in Hc. apply andb_true_iff in Hc. destruct Hc as [_ Hc].
               apply Nat.eqb_eq in Hc. lia. }
             destruct p as [tj bj gj|tj bj nj gj|tj bj gj|tj bj gj|tj bj fj gj]; unfold pc_ok in *; simpl in Hdirty |- *;
               try (intros [Hc _]; apply Hdirty; exact Hc).
             destruct OKj as [OK1 OK2]. split; [|intros [Hc _]; apply Hdirty; exact Hc].
             right.
             assert (Hin : In j (pend s)) by (apply RP2; eauto).
             assert (Hrc : recheck c = true).
             { destruct H' as [|H']; auto. simpl in H'. destruct (pend s); [destruct Hin|]. simpl in H'.
               rewrite orb_true_r in H'. discriminate. }
             split; [auto|split; [auto|split]].
             ++ destruct OK1 as [[m [r E]]|[_ [_ [Hlt _]]]]; fold k; [|lia].
                assert (next s = next_usize k tj) by (rewrite (N2 Hk); unfold last_t; rewrite E; reflexivity). lia.
             ++ unfold head_not. simpl. intros j' m u r E. inversion E; subst. auto.
      + (* CAS lost *)
        split; [exact L1|split; [exact L2|split; [|exact L4]]].
        intros j p Hj. unfold upd in Hj. destruct (Nat.eqb j i) eqn:Eji.
        * inversion Hj; subst p. unfold pc_ok in *. intros Hs.
          assert (Hs' : sclean s g) by exact Hs. destruct (OK Hs') as [_ [_ E]]. apply Z.eqb_neq in Hn. congruence.
        * eapply pc_ok_ext; [..|eapply L3; eauto]; reflexivity.
      + (* refresh skipped *)
        apply andb_true_iff in Hrc. destruct Hrc as [Hrck Hne]. apply negb_true_iff in Hne. apply Z.eqb_neq in Hne. fold k in Hne.
        destruct OK as [OK1 OK2].
        assert (Hin : In i (pend s)) by (apply RP2; eauto).
        assert (Hnh : ~ head_is s i t).
        { intros [m [r E]]. assert (Hk : k <> Never) by (intro Hk; destruct (N1 Hk) as [_ E2]; congruence).
          apply Hne. rewrite (N2 Hk). unfold last_t. rewrite E. reflexivity. }
        assert (HN : head_not s i) by (destruct OK1 as [?|[_ [_ [_ ?]]]]; [contradiction|assumption]).
        split; [|split; [exact L2|split; [|exact L4]]].
        * intros j m u r E Hnin. apply (L1 _ _ _ _ E). intro Hj. apply Hnin. apply remove_tid_in. split; auto. apply (HN _ _ _ _ E).
        * intros j p Hj. unfold upd in Hj. destruct (Nat.eqb j i) eqn:Eji.
          -- inversion Hj; subst p. unfold pc_ok. intros Hs. exfalso. apply Hnh. apply OK2. exact Hs.
          -- apply Nat.eqb_neq in Eji. pose proof (L3 _ _ Hj) as OKj.
             destruct p as [tj bj gj|tj bj nj gj|tj bj gj|tj bj gj|tj bj fj gj]; unfold pc_ok in *.
             ++ intros Hs. assert (Hs0 : sclean s gj) by exact Hs. destruct (OKj Hs0) as [Hp _]. rewrite Hp in Hin. destruct Hin.
             ++ intros Hs. assert (Hs0 : sclean s gj) by exact Hs. destruct (OKj Hs0) as [Hp _]. rewrite Hp in Hin. destruct Hin.
             ++ destruct OKj as [O1 O2]. split; [exact O1|].
                intros Hs. assert (Hs0 : sclean s gj) by exact Hs. destruct (O2 Hs0) as [_ Hp]. rewrite Hp in Hin.
                destruct Hin as [E|[]]. congruence.
             ++ intros Hs. assert (Hs0 : sclean s gj) by exact Hs. destruct (OKj Hs0) as [_ Hp]. rewrite Hp in Hin. destruct Hin.
             ++ intros Hs. assert (Hs0 : sclean s gj) by exact Hs. destruct (OKj Hs0) as [_ Hp]. rewrite Hp in Hin. destruct Hin.
      + (* refresh *)
        destruct OK as [OK1 OK2].
        assert (Hin : In i (pend s)) by (apply RP2; eauto).
        assert (Hh : head_is s i t).
        { destruct OK1 as [?|[Hr [Hk [Hlt _]]]]; auto. exfalso. rewrite Hr in Hrc. simpl in Hrc.
          apply negb_false_iff in Hrc. apply Z.eqb_eq in Hrc. fold k in Hrc. lia. }
        destruct Hh as [m [r E]].
        assert (Hk : k <> Never) by (intro Hk; destruct (N1 Hk) as [_ E2]; congruence).
        assert (Hpf : join_date c t = period_file t) by (unfold period_file, RollingNameProofs.period_file; fold k; destruct k; congruence).
        split; [|split; [intros E2; congruence|split; [|exact L4]]].
        * intros j m' u r' E' _. rewrite E in E'. inversion E'; subst. exact Hpf.
        * intros j p Hj. unfold upd in Hj. destruct (Nat.eqb j i) eqn:Eji.
          -- inversion Hj; subst p. unfold pc_ok, sclean, clean. simpl. rf. intros [Hc Hnd].
             assert (Hs0 : sclean s g) by (split; auto). destruct (OK2 Hs0) as [_ Hp]. split; [exact Hpf|].
             rewrite Hp. unfold remove_tid. simpl. rewrite Nat.eqb_refl. reflexivity.
          -- apply Nat.eqb_neq in Eji. pose proof (L3 _ _ Hj) as OKj.
             destruct p as [tj bj gj|tj bj nj gj|tj bj gj|tj bj gj|tj bj fj gj]; unfold pc_ok, sclean, clean, head_is, head_not in *; simpl; rf.
             ++ intros Hs. destruct (OKj Hs) as [Hp _]. rewrite Hp in Hin. destruct Hin.
             ++ intros Hs. destruct (OKj Hs) as [Hp _]. rewrite Hp in Hin. destruct Hin.
             ++ destruct OKj as [O1 O2]. split; [exact O1|].
                intros Hs. destruct (O2 Hs) as [_ Hp]. rewrite Hp in Hin.
                destruct Hin as [E3|[]]. congruence.
             ++ intros Hs. destruct (OKj Hs) as [_ Hp]. rewrite Hp in Hin. destruct Hin.
             ++ intros Hs. destruct (OKj Hs) as [_ Hp]. rewrite Hp in Hin. destruct Hin.
      + (* read lock *)
        split; [exact L1|split; [exact L2|split; [|exact L4]]].
        intros j p Hj. unfold upd in Hj. destruct (Nat.eqb j i) eqn:Eji.
        * inversion Hj; subst p. unfold pc_ok in *. intros Hs. apply (OK Hs).
        * eapply pc_ok_ext; [..|eapply L3; eauto]; reflexivity.
      + (* append *)
        split; [exact L1|split; [exact L2|split]].
        * intros j p Hj. unfold upd in Hj. destruct (Nat.eqb j i) eqn:Eji; [discriminate|].
          eapply pc_ok_ext; [..|eapply L3; eauto]; reflexivity.
        * intros l [<-|Hl]; [|apply L4; auto]. simpl. intros _ Hc Hnd. apply OK. split; auto.
  Qed.

  (** * F. every landing is in a file the appender itself made current: the one made at construction or
        the one of an elected rotation (the "file being replaced" of the overlap clause is one of these) *)
  Definition opened (ro : list (nat * Z * Z)) (f : string) : Prop :=
    f = join_date c t0 \/ exists i n u, In (i, n, u) ro /\ f = join_date c u.

  Lemma opened_cons r ro f : opened ro f -> opened (r :: ro) f.
  Proof. intros [E|[i [n [u [Hin E]]]]]; [left; auto|right; exists i, n, u; split; [right|]; auto]. Qed.

  Definition InvO (s : state) : Prop :=
    opened (rots s) (cur s) /\
    (forall i t b g, pcs s i = Some (PRefresh t b g) -> exists n, In (i, n, t) (rots s)) /\
    (forall i t b f g, pcs s i = Some (PAppend t b f g) -> opened (rots s) f) /\
    (forall l, In l (lands s) -> l_life l = life s -> opened (rots s) (l_file l)).

  Lemma invO : forall s, reach s -> InvO s.
  Proof.
    induction 1 as [|s e R IH V].
    - base. unfold InvO, opened; simpl.
      split; [left; reflexivity|]. split; [discriminate|]. split; [discriminate|].
      intros x Hx E. destruct Hsp as [_ [_ HE]]. specialize (HE x Hx). lia.
    - pose proof IH as IH'. destruct IH' as [O1 [O2 [O3 O4]]].
      step_cases s; try exact IH; unfold InvO; simpl; rf.
      all: (split; [|split; [|split]]).
      all: try assumption.
      all: try (intros j t' b' g' Hj; updc Hj j i; eauto; fail).
      all: try (intros j t' b' f' g' Hj; updc Hj j i; eauto; fail).
      all: try (apply opened_cons; assumption).
      + intros j t' b' g' Hj. updc Hj j i; [exists n; left; reflexivity|]. destruct (O2 _ _ _ _ Hj) as [m Hm]. exists m. right; auto.
      + intros j t' b' f' g' Hj. updc Hj j i. apply opened_cons. eauto.
      + intros x Hx E. apply opened_cons. auto.
      + destruct (O2 _ _ _ _ Hpc) as [m Hm]. right. exists i, m, t. auto.
      + intros x [<-|Hx]; simpl; eauto.
  Qed.

  (** * G. entries that are not the appender's own log files are never touched (removed, renamed, written) *)
  Lemma TBOUND_TCAL : TBOUND < TCAL.
  Proof. unfold TBOUND, TCAL. lia. Qed.

  Lemma opened_matches ro f : (forall i n u, In (i, n, u) ro -> 0 <= u < TBOUND) -> opened ro f -> matches c f = true.
  Proof.
    intros Hb [->|[i [n [u [Hin ->]]]]]; apply join_date_matches; pose proof TBOUND_TCAL; [lia|specialize (Hb _ _ _ Hin); lia].
  Qed.

  Definition InvW (s : state) : Prop :=
    forall f, In f (dir sp) -> matches c (fname f) = false -> In f (dir s).

  Lemma invW : forall s, reach s -> InvW s.
  Proof.
    induction 1 as [|s e R IH V].
    - unfold InvW. intros f Hf _. unfold s0, restart. rewrite (next_ok_small (rot c) t0 (proj2 Ht0)).
      destruct (create (join_date c t0) (dir sp) (tick sp)) as [d tk] eqn:Hc. simpl.
      replace d with (fst (create (join_date c t0) (dir sp) (tick sp))) by (rewrite Hc; reflexivity). apply create_keeps. exact Hf.
    - pose proof (invF s R) as [[HD _] _]. pose proof (invO s R) as [_ [_ [O3 _]]]. pose proof (invT s R) as [_ [T2 _]].
      step_cases s; try exact IH; unfold InvW; simpl; rf; try exact IH.
      + intros f Hf Hnm. apply refresh_keeps_foreign; auto.
      + intros x Hx Hnm. apply append_keeps_other; [apply IH; auto|].
        intro E. pose proof (opened_matches _ _ T2 (O3 _ _ _ _ _ Hpc)) as Hm. rewrite <- E in Hm. congruence.
  Qed.

  (** * The theorems, for every event list *)
  Lemma sorted_nodup (l : list (nat * Z * Z)) :
    StronglySorted (fun a b => from_of b < from_of a) l -> NoDup (map from_of l).
  Proof.
    induction 1 as [|a l S IH F]; simpl; constructor; auto.
    intro Hin. apply in_map_iff in Hin. destruct Hin as [x [E Hx]]. rewrite Forall_forall in F. specialize (F x Hx). lia.
  Qed.

  (** a write that overlaps no other thread's rotation and whose clock reading is not behind an earlier
      one lands in its period's file — for every schedule when make_writer re-checks under the write
      lock, and for the schedules without overlapping rotations when it does not *)
  Theorem shared_lands_in_period : forall evs, Forall valid_ev evs ->
    (recheck c = true \/ overlapped (run c s0 evs) = false) ->
    forall l, In l (lands (run c s0 evs)) -> l_life l = S (life sp) -> l_clean l = true -> l_nd l = true ->
      l_file l = period_file (l_t l).
  Proof.
    intros evs V H l Hl E. apply (invL _ (reach_run evs V) H); auto. rewrite (proj1 (invE _ (reach_run evs V))). exact E.
  Qed.

  (** the lifetime counter does not move, every landing is tagged with a lifetime up to this one, and the state a
      lifetime leaves behind is fit for the next appender *)
  Theorem shared_epoch : forall evs, Forall valid_ev evs ->
    life (run c s0 evs) = S (life sp) /\ GoodFS (run c s0 evs).
  Proof.
    intros evs V. destruct (invE _ (reach_run evs V)) as [E1 E2]. destruct (invF _ (reach_run evs V)) as [[HD [_ [HS _]]] _].
    split; [exact E1|]. split; [exact HD|split; [exact HS|exact E2]].
  Qed.

  (** every buffer is stored exactly once, whole, in order; appends only ever go to a file that exists *)
  Theorem shared_never_lost : forall evs, Forall valid_ev evs ->
    Stored (run c s0 evs) /\
    in_dir (cur (run c s0 evs)) (dir (run c s0 evs)) = true /\
    (forall i t b f g, pcs (run c s0 evs) i = Some (PAppend t b f g) -> in_dir f (dir (run c s0 evs)) = true) /\
    DirOK (dir (run c s0 evs)) (tick (run c s0 evs)).
  Proof.
    intros evs V. destruct (invF _ (reach_run evs V)) as [[HD [HC [HS HL]]] F2]. repeat split; auto; try apply HD.
    intros i t b f g Hp. rewrite (F2 _ _ _ _ _ Hp). exact HC.
  Qed.

  (** the compare_exchange elects exactly one rotation per boundary value, for any number of threads *)
  Theorem shared_one_rotation_per_boundary : forall evs, Forall valid_ev evs ->
    NoDup (map from_of (rots (run c s0 evs))) /\
    (forall i n t, In (i, n, t) (fails (run c s0 evs)) -> exists j u, In (j, n, u) (rots (run c s0 evs))) /\
    (forall r, In r (rots (run c s0 evs)) -> from_of r <= snd r /\ from_of r < next (run c s0 evs)).
  Proof.
    intros evs V. destruct (invN _ (reach_run evs V)) as [N1 [N2 [N3 [N4 [N5 [N6 N7]]]]]].
    split; [apply sorted_nodup; auto|split; [exact N6|]]. intros r Hr. destruct (N3 r Hr). lia.
  Qed.

  (** a clock reading that stands still or steps back behind one already acted upon never rotates *)
  Theorem shared_no_rotation_backwards : forall evs, Forall valid_ev evs ->
    (k = Never -> rots (run c s0 evs) = []) /\
    (k <> Never -> forall u, In u (decided (run c s0 evs)) -> u < next (run c s0 evs)) /\
    (forall i t b g u, pcs (run c s0 evs) i = Some (PLoad t b g) ->
       (k = Never \/ (In u (decided (run c s0 evs)) /\ t <= u)) ->
       step c (run c s0 evs) (Step i) =
       with_pcs (with_ghost (run c s0 evs) (rots (run c s0 evs)) (fails (run c s0 evs)) (t :: decided (run c s0 evs))
                            (pend (run c s0 evs)) (overlapped (run c s0 evs)))
                (upd (pcs (run c s0 evs)) i (Some (PRead t b g)))).
  Proof.
    intros evs V. set (s := run c s0 evs). pose proof (reach_run evs V) as R. fold s in R.
    destruct (invN _ R) as [N1 [N2 [N3 [N4 [N5 [N6 N7]]]]]]. destruct (invT _ R) as [T1 _].
    split; [intros Hk; apply N1; auto|split; [exact N7|]].
    intros i t b g u Hp Hu. simpl. rewrite Hp. specialize (T1 _ _ Hp). simpl in T1.
    assert (E : should_rollover s t = None).
    { unfold should_rollover. rewrite to_usize_small by assumption. destruct Hu as [Hk|[Hu Hle]].
      - destruct (N1 Hk) as [E _]. rewrite E. reflexivity.
      - destruct (rotation_eq_dec k Never) as [Hk|Hk]; [destruct (N1 Hk) as [E _]; rewrite E; reflexivity|].
        specialize (N7 Hk u Hu). destruct (next s =? 0); auto. destruct (next s <=? t) eqn:E; auto. apply Z.leb_le in E. lia. }
    rewrite E. reflexivity.
  Qed.

  (** with a limit, from the first rotation on there are never more than that many of the appender's files *)
  Theorem shared_prune_limit : forall evs, Forall valid_ev evs -> Limit c (run c s0 evs).
  Proof. intros evs V. apply (invF _ (reach_run evs V)). Qed.

  (** ... and each refresh removes only the appender's own files, oldest creation first *)
  Theorem shared_prune_oldest : forall evs t m, Forall valid_ev evs -> max_files c = Some m ->
    forall r, In r (dir (run c s0 evs)) -> ~ In r (dir (refresh c (run c s0 evs) t)) ->
      matches c (fname r) = true /\
      forall f, In f (dir (run c s0 evs)) -> In f (dir (refresh c (run c s0 evs) t)) -> matches c (fname f) = true ->
                (created r < created f)%N.
  Proof.
    intros evs t m V Hm. apply (refresh_removes_oldest c _ t m Hm). apply (shared_never_lost evs V).
  Qed.
  (** the overlap clause: whatever the schedule, a buffer lands in a file the appender itself opened -
      the one made at construction or the one of an elected rotation *)
  Theorem shared_lands_in_opened_file : forall evs, Forall valid_ev evs ->
    forall l, In l (lands (run c s0 evs)) -> l_life l = S (life sp) -> opened (rots (run c s0 evs)) (l_file l).
  Proof.
    intros evs V l Hl E. apply (invO _ (reach_run evs V)); auto. rewrite (proj1 (invE _ (reach_run evs V))). exact E.
  Qed.

  (** whatever in the directory is not one of the appender's log files (prefix / suffix / date shape) is still there,
      byte for byte, with its creation stamp *)
  Theorem shared_foreign_untouched : forall evs, Forall valid_ev evs ->
    forall f, In f (dir sp) -> matches c (fname f) = false -> In f (dir (run c s0 evs)).
  Proof. intros evs V. apply (invW _ (reach_run evs V)). Qed.

  (** a thread that saw boundary [n] reached and attempts the compare_exchange leaves [n] rotated: by itself
      or by the earlier winner - together with NoDup above: exactly one rotation per boundary *)
  Theorem shared_cas_elects : forall evs, Forall valid_ev evs ->
    forall i t b n g, pcs (run c s0 evs) i = Some (PCas t b n g) ->
    exists j u, In (j, n, u) (rots (step c (run c s0 evs) (Step i))).
  Proof.
    intros evs V i t b n g Hp. destruct (invN _ (reach_run evs V)) as [_ [_ [_ [_ [N5 _]]]]].
    destruct (N5 _ _ _ _ _ Hp) as [C1 [C2 C3]]. simpl. rewrite Hp.
    pose proof (proj1 (invT _ (reach_run evs V)) _ _ Hp) as Hb. simpl in Hb. rewrite (next_ok_small (rot c) t (proj2 Hb)). simpl.
    destruct (next (run c s0 evs) =? n) eqn:E; simpl.
    - exists i, t. left; reflexivity.
    - apply Z.eqb_neq in E. apply C3. lia.
  Qed.

  (** ... and a thread whose clock has not reached next_date goes straight to the read lock: no
      compare_exchange, no rotation, nothing created or removed *)
  Theorem shared_backwards_step : forall evs, Forall valid_ev evs ->
    forall i t b g u, pcs (run c s0 evs) i = Some (PLoad t b g) ->
      (k = Never \/ (In u (decided (run c s0 evs)) /\ t <= u)) ->
      rots (step c (run c s0 evs) (Step i)) = rots (run c s0 evs) /\
      fails (step c (run c s0 evs) (Step i)) = fails (run c s0 evs) /\
      next (step c (run c s0 evs) (Step i)) = next (run c s0 evs) /\
      cur (step c (run c s0 evs) (Step i)) = cur (run c s0 evs) /\
      dir (step c (run c s0 evs) (Step i)) = dir (run c s0 evs) /\
      pcs (step c (run c s0 evs) (Step i)) i = Some (PRead t b g).
  Proof.
    intros evs V i t b g u Hp Hu.
    destruct (shared_no_rotation_backwards evs V) as [_ [_ H]]. rewrite (H i t b g u Hp Hu). simpl.
    repeat split; auto. apply upd_same.
  Qed.
End Shared.
