(** C16 — the shared interface (MakeWriter::make_writer from several threads): invariants of the
    small-step system of Appender/RollingModel.v, for every event list (= every schedule, every number of
    threads, every clock reading in range). *)
From Coq Require Import ZArith NArith List String Bool Lia Sorted.
From TV Require Import Appender.RollingModel Appender.RollingTimeProofs Appender.RollingDirProofs Appender.RollingFsProofs.
Import ListNotations.
Local Open Scope Z_scope.
Local Notation length := List.length.

(** * projections of [refresh] *)
Lemma refresh_fields c s t :
  next (refresh c s t) = next s /\ cur (refresh c s t) = join_date c t /\ readers (refresh c s t) = readers s /\
  pcs (refresh c s t) = pcs s /\ rots (refresh c s t) = rots s /\ fails (refresh c s t) = fails s /\
  decided (refresh c s t) = decided s /\ lands (refresh c s t) = lands s /\ pend (refresh c s t) = pend s /\
  refreshed (refresh c s t) = true /\ overlapped (refresh c s t) = overlapped s /\ maxstart (refresh c s t) = maxstart s.
Proof.
  unfold refresh. destruct (match max_files c with Some m => prune c m (dir s) | None => (dir s, []) end) as [d1 rm].
  destruct (create (join_date c t) d1 (tick s)) as [d2 tk]. simpl. repeat split; reflexivity.
Qed.

Lemma upd_same f i v : upd f i v i = v.
Proof. unfold upd. rewrite Nat.eqb_refl. reflexivity. Qed.
Lemma upd_other f i v j : j <> i -> upd f i v j = f j.
Proof. unfold upd. intros H. apply Nat.eqb_neq in H. rewrite H. reflexivity. Qed.

Lemma remove_tid_in i j l : In j (remove_tid i l) <-> In j l /\ j <> i.
Proof.
  unfold remove_tid. rewrite filter_In. rewrite negb_true_iff, Nat.eqb_neq. tauto.
Qed.

Definition time_of (p : pc) : Z :=
  match p with PLoad t _ _ | PCas t _ _ _ | PRefresh t _ _ | PRead t _ _ | PAppend t _ _ _ => t end.

Definition valid_ev (e : event) : Prop := match e with Start _ t _ => 0 <= t < TBOUND | Step _ => True end.

Section Shared.
  Variable c : config.
  Variable pre : list file.
  Variable tick0 : N.
  Variable t0 : Z.
  Hypothesis Ht0 : 0 <= t0 < TBOUND.
  Hypothesis Hpre : PreOK pre tick0.
  Let k := rot c.
  Let s0 := init c pre tick0 t0.

  Inductive reach : state -> Prop :=
  | reach_init : reach s0
  | reach_step : forall s e, reach s -> valid_ev e -> reach (step c s e).

  Lemma reach_run : forall evs, Forall valid_ev evs -> reach (run c s0 evs).
  Proof.
    intros evs. unfold run. induction evs as [|e evs IH] using rev_ind; intros H; simpl.
    - constructor.
    - rewrite fold_left_app. simpl. apply Forall_app in H. destruct H as [H1 H2]. inversion H2; subst.
      constructor; auto.
  Qed.

  (** the case analysis of one step, with every field of the new state computed *)
  Ltac rf := repeat match goal with
    | |- context [next (refresh c ?s ?t)] => rewrite (proj1 (refresh_fields c s t))
    | |- context [cur (refresh c ?s ?t)] => rewrite (proj1 (proj2 (refresh_fields c s t)))
    | |- context [readers (refresh c ?s ?t)] => rewrite (proj1 (proj2 (proj2 (refresh_fields c s t))))
    | |- context [pcs (refresh c ?s ?t)] => rewrite (proj1 (proj2 (proj2 (proj2 (refresh_fields c s t)))))
    | |- context [rots (refresh c ?s ?t)] => rewrite (proj1 (proj2 (proj2 (proj2 (proj2 (refresh_fields c s t))))))
    | |- context [fails (refresh c ?s ?t)] => rewrite (proj1 (proj2 (proj2 (proj2 (proj2 (proj2 (refresh_fields c s t)))))))
    | |- context [decided (refresh c ?s ?t)] => rewrite (proj1 (proj2 (proj2 (proj2 (proj2 (proj2 (proj2 (refresh_fields c s t))))))))
    | |- context [lands (refresh c ?s ?t)] => rewrite (proj1 (proj2 (proj2 (proj2 (proj2 (proj2 (proj2 (proj2 (refresh_fields c s t)))))))))
    | |- context [pend (refresh c ?s ?t)] => rewrite (proj1 (proj2 (proj2 (proj2 (proj2 (proj2 (proj2 (proj2 (proj2 (refresh_fields c s t))))))))))
    | |- context [overlapped (refresh c ?s ?t)] => rewrite (proj1 (proj2 (proj2 (proj2 (proj2 (proj2 (proj2 (proj2 (proj2 (proj2 (proj2 (refresh_fields c s t))))))))))))
    | |- context [maxstart (refresh c ?s ?t)] => rewrite (proj2 (proj2 (proj2 (proj2 (proj2 (proj2 (proj2 (proj2 (proj2 (proj2 (proj2 (refresh_fields c s t))))))))))))
    end.

  (* finds the event in the context; names the thread [i] *)
  Ltac step_cases s :=
    match goal with ev : event |- _ => destruct ev as [i ?t ?b|i] end; simpl;
    match goal with |- context [match pcs s ?j with _ => _ end] =>
      destruct (pcs s j) as [[?t ?b ?g|?t ?b ?n ?g|?t ?b ?g|?t ?b ?g|?t ?b ?f ?g]|] eqn:Hpc; simpl end;
    repeat match goal with
      | |- context [match should_rollover ?a ?x with _ => _ end] => destruct (should_rollover a x) eqn:Hsr; simpl
      | |- context [if next s =? ?n then _ else _] => destruct (next s =? n) eqn:Hn; simpl
      | |- context [match readers s with _ => _ end] => destruct (readers s) eqn:Hrd; simpl
      | |- context [if recheck c && ?x then _ else _] => destruct (recheck c && x) eqn:Hrc; simpl
      end; rf.

  Ltac updc H j i := unfold upd in H; destruct (Nat.eqb j i) eqn:?Eji;
    [apply Nat.eqb_eq in Eji; subst j; try (inversion H; subst; clear H)|apply Nat.eqb_neq in Eji].

  (** * A. clock readings stay in range *)
  Definition InvT (s : state) : Prop :=
    (forall i p, pcs s i = Some p -> 0 <= time_of p < TBOUND) /\
    (forall i n t, In (i, n, t) (rots s) -> 0 <= t < TBOUND) /\
    t0 <= maxstart s < TBOUND /\
    (forall i p, pcs s i = Some p -> time_of p <= maxstart s) /\
    (forall i n t, In (i, n, t) (rots s) -> t <= maxstart s).

  Lemma invT : forall s, reach s -> InvT s.
  Proof.
    induction 1 as [|s e R IH V].
    - unfold s0, init. destruct (create _ _ _). unfold InvT; simpl. repeat split; try discriminate; try tauto; lia.
    - destruct IH as [I1 [I2 [I3 [I4 I5]]]].
      step_cases s; unfold InvT; simpl; rf; auto.
      all: simpl in V.
      all: try (generalize (I1 _ _ Hpc); generalize (I4 _ _ Hpc); simpl; intros G4 G1).
      all: (split; [|split; [|split; [|split]]]); auto; try lia.
      all: try (intros j p Hj; updc Hj j i; simpl in *; eauto; lia).
      all: try (intros j m u [Hj|Hj]; [inversion Hj; subst; lia|eauto]).
      all: try (intros j m u Hj; specialize (I5 _ _ _ Hj); lia).
  Qed.

  (** * B. the reader list and the pending list mirror the program counters *)
  Definition InvRP (s : state) : Prop :=
    (forall i, In i (readers s) <-> exists t b f g, pcs s i = Some (PAppend t b f g)) /\
    (forall i, In i (pend s) <-> exists t b g, pcs s i = Some (PRefresh t b g)).

  Lemma invRP : forall s, reach s -> InvRP s.
  Proof.
    induction 1 as [|s e R IH V].
    - unfold s0, init. destruct (create _ _ _). unfold InvRP; simpl. split; intros i; (split; [tauto|]); [intros [? [? [? [? H]]]]|intros [? [? [? H]]]]; discriminate.
    - destruct IH as [I1 I2].
      step_cases s; unfold InvRP; simpl; rf; auto;
      (split; intros j; [rewrite ?remove_tid_in; simpl; rewrite (I1 j)|rewrite ?remove_tid_in; simpl; rewrite (I2 j)];
       unfold upd; destruct (Nat.eqb j i) eqn:Eji;
       [apply Nat.eqb_eq in Eji; subst j; rewrite ?Hpc;
        split; [intros H; repeat match goal with H : _ \/ _ |- _ => destruct H | H : _ /\ _ |- _ => destruct H | H : exists _, _ |- _ => destruct H end;
                try discriminate; try congruence; try tauto; eauto 6
               |intros H; repeat match goal with H : exists _, _ |- _ => destruct H end; try discriminate; try tauto; eauto 6]
       |apply Nat.eqb_neq in Eji; split; [intros H; repeat match goal with H : _ \/ _ |- _ => destruct H | H : _ /\ _ |- _ => destruct H end; try congruence; auto
                                         |intros H; try tauto; auto]]).
  Qed.
End Shared.
