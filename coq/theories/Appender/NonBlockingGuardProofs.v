(** C15 — the guard-drop protocol: Shutdown travels behind every line accepted before it, the worker
    flushes, releases the writer, meets the guard on the rendezvous channel.  Safety for every schedule
    (timeouts included); the statement about a returned drop under NoTimeout. *)
From Coq Require Import List NArith Arith Bool Lia.
From TV Require Import Appender.NonBlockingModel Appender.NonBlockingSched Appender.NonBlockingStep
  Appender.NonBlockingProofs.
Import ListNotations.
Local Open Scope nat_scope.

Fixpoint nsd (m : list msg) : nat :=
  match m with [] => 0 | Shutdown :: r => S (nsd r) | Line _ :: r => nsd r end.
Fixpoint lines_before_sd (m : list msg) : list line :=
  match m with [] => [] | Shutdown :: _ => [] | Line l :: r => l :: lines_before_sd r end.

Lemma nsd_app : forall a b, nsd (a ++ b) = nsd a + nsd b.
Proof. induction a as [|[l|] a IH]; simpl; intros; auto. Qed.
Lemma lbs_app_nosd : forall a b, nsd a = 0 -> lines_before_sd (a ++ b) = qlines a ++ lines_before_sd b.
Proof. induction a as [|[l|] a IH]; simpl; intros; auto; try discriminate. rewrite IH; auto. Qed.
Lemma lbs_app_sd : forall a b, nsd a <> 0 -> lines_before_sd (a ++ b) = lines_before_sd a.
Proof. induction a as [|[l|] a IH]; simpl; intros; auto; try congruence. rewrite IH; auto. Qed.

Definition normal_pc (p : wpc) : Prop :=
  match p with WRecv | WWrite _ | WTry | WFlush StEmpty => True | _ => False end.
Definition early (g : gstate) : Prop := g = GHeld \/ g = GSending.
Definition late (g : gstate) : Prop := g = GWaitRdv \/ g = GJoin \/ g = GDone true.
Definition done_pc (p : wpc) : Prop := match p with WRendezvous | WExit => True | _ => False end.

Definition nseen (s : state) : nat := length (attempts s) + length (inflight (pc s)).

Record GInv (c : config) (s : state) : Prop := {
  gi_early : early (guard s) -> mark s = None /\ normal_pc (pc s);
  gi_nomark : mark s = None -> nsd (q s) = 0;
  gi_late : late (guard s) -> mark s <> None;
  gi_sd : nsd (q s) <= 1;
  gi_term : ~ normal_pc (pc s) -> nsd (q s) = 0;
  gi_mark : forall n, mark s = Some n ->
      (nsd (q s) = 1 -> nseen s + length (lines_before_sd (q s)) = n) /\
      (nsd (q s) = 0 -> n <= nseen s);
  gi_join : guard s = GJoin \/ guard s = GDone true -> pc s = WExit;
  gi_rel : pc s = WRelease -> exists lg b, log s = lg ++ [EvFlush b] /\ (var c = FlushErrLosesState -> b = true);
  gi_done : done_pc (pc s) -> exists lg b, log s = lg ++ [EvFlush b; EvDropWriter] /\ (var c = FlushErrLosesState -> b = true);
  gi_walive : ~ done_pc (pc s) -> writer_alive s = true
}.

Lemma ginv_init : forall c, GInv c (init c).
Proof.
  intros c. constructor; simpl; auto; unfold early, late; simpl; intros;
    try discriminate; try tauto; try lia.
  - destruct H as [H|[H|H]]; discriminate.
  - destruct H; discriminate.
Qed.

Lemma senders_pos_early : forall s, early (guard s) -> senders s <> 0.
Proof. intros s [E|E]; unfold senders; rewrite E; lia. Qed.

Lemma writer_alive_app : forall s e,
  existsb (fun e => match e with EvDropWriter => true | _ => false end) (log s ++ [e]) =
  existsb (fun e => match e with EvDropWriter => true | _ => false end) (log s)
  || match e with EvDropWriter => true | _ => false end.
Proof. intros. rewrite existsb_app. simpl. rewrite orb_false_r. reflexivity. Qed.

Ltac prep H :=
  destruct H;
  unfold prod_advance, nseen, attempts, early, late in *; simpl in *;
  repeat match goal with
         | E : pc _ = _ |- _ => rewrite E in *
         | E : q _ = _ |- _ => rewrite E in *
         | E : guard _ = _ |- _ => rewrite E in *
         end;
  unfold prod_advance, nseen, attempts, early, late in *; simpl in *;
  rewrite ?attempts_of_app, ?app_length, ?nsd_app in *; simpl in *.

Ltac unpack GI :=
  let G := fresh "G" in
  pose proof GI as G;
  destruct G as [Iearly Inomark Ilate Isd Iterm Imark Ijoin Irel Idone Iwalive].

Ltac dis := try solve [ intuition (try discriminate; try congruence; try lia) ].

Section Step.
  Variable c : config.
  Variable faults : nat -> bool.
  Variables s s' : state.
  Variable l : label.
  Hypothesis CV : Conserv s.
  Hypothesis GI : GInv c s.
  Hypothesis ST : Step c faults s l s'.


  Lemma flush_next_normal : forall st b, normal_pc (WFlush st) -> flush_next c st b = WRecv.
  Proof. intros st b N. destruct st; simpl in N; try (exfalso; exact N). reflexivity. Qed.

  Lemma st_early : early (guard s') -> mark s' = None /\ normal_pc (pc s').
  Proof.
    unpack GI.
    prep ST; dis.
    - (* recv disconnected *) intros E. exfalso. eapply senders_pos_early; eauto.
    - (* write *) intros E. destruct (Iearly E). split; auto. destruct (faults (ncalls s)); exact I.
    - (* try none *) intros E. destruct (Iearly E). split; auto.
      destruct (Nat.eqb_spec (senders s) 0) as [Z|Z]; [exfalso; eapply senders_pos_early; eauto | exact I].
    - (* flush *) intros E. destruct (Iearly E) as [M N]. split; auto. rewrite flush_next_normal; auto. exact I.
  Qed.

  Lemma st_nomark : mark s' = None -> nsd (q s') = 0.
  Proof.
    unpack GI.
    prep ST; dis.
  Qed.

  Lemma st_late : late (guard s') -> mark s' <> None.
  Proof.
    unpack GI.
    prep ST; dis.
  Qed.

  Lemma st_sd : nsd (q s') <= 1.
  Proof.
    unpack GI.
    prep ST; dis.
  Qed.

  Lemma st_term : ~ normal_pc (pc s') -> nsd (q s') = 0.
  Proof.
    unpack GI.
    prep ST; dis.
    - (* write *) intros N. exfalso. apply N. destruct (faults (ncalls s)); exact I.
    - (* flush *) intros N. apply Iterm. intros NP. apply N. rewrite flush_next_normal; auto. exact I.
  Qed.

  Lemma st_mark : forall n, mark s' = Some n ->
      (nsd (q s') = 1 -> nseen s' + length (lines_before_sd (q s')) = n) /\
      (nsd (q s') = 0 -> n <= nseen s').
  Proof.
    unpack GI.
    prep ST; try (intros n M; specialize (Imark n M); simpl in Imark); dis.
    - (* write *) destruct (faults (ncalls s)); simpl; lia.
    - (* flush *)
      assert (length (inflight (flush_next c st (faults (ncalls s)))) = 0).
      { unfold flush_next. destruct (terminal st), (faults (ncalls s)), (var c); reflexivity. }
      lia.
    - (* accept *) split; intros N.
      + rewrite lbs_app_sd by lia. apply Imark. lia.
      + apply Imark. lia.
    - (* guard send *)
      destruct (Iearly (or_intror eq_refl)) as [M0 _]. pose proof (Inomark M0) as Z.
      intros n M. inversion M; subst; clear M. split; [intros _|intros; lia].
      rewrite lbs_app_nosd by auto. simpl. rewrite app_nil_r.
      unfold Conserv, accepted, pending, attempts in CV. unfold accepted. rewrite CV, !app_length, map_length. lia.
  Qed.

  Lemma st_join : guard s' = GJoin \/ guard s' = GDone true -> pc s' = WExit.
  Proof.
    unpack GI.
    prep ST; dis.
  Qed.

  Lemma st_rel : pc s' = WRelease ->
    exists lg b, log s' = lg ++ [EvFlush b] /\ (var c = FlushErrLosesState -> b = true).
  Proof.
    unpack GI.
    prep ST; dis.
    - (* write *) destruct (faults (ncalls s)); discriminate.
    - (* flush *) intros R. exists (log s), (negb (faults (ncalls s))). split; auto.
      intros V. unfold flush_next in R. rewrite V in R. destruct (terminal st), (faults (ncalls s)); simpl; auto; discriminate.
  Qed.

  Lemma st_done : done_pc (pc s') ->
    exists lg b, log s' = lg ++ [EvFlush b; EvDropWriter] /\ (var c = FlushErrLosesState -> b = true).
  Proof.
    unpack GI.
    prep ST; dis.
    - (* write *) destruct (faults (ncalls s)); simpl; tauto.
    - (* flush *) intros D. exfalso. unfold flush_next in D.
      destruct (terminal st), (faults (ncalls s)), (var c); simpl in D; tauto.
    - (* release *) intros _. destruct (Irel eq_refl) as (lg & b & L & V). exists lg, b. split; auto.
      rewrite L, <- app_assoc. reflexivity.
  Qed.

  Lemma st_walive : ~ done_pc (pc s') -> writer_alive s' = true.
  Proof.
    unpack GI.
    unfold writer_alive in *.
    prep ST; rewrite ?writer_alive_app, ?orb_false_r; dis.
  Qed.

  Lemma ginv_step : GInv c s'.
  Proof.
    constructor.
    - exact st_early. - exact st_nomark. - exact st_late. - exact st_sd. - exact st_term.
    - exact st_mark. - exact st_join. - exact st_rel. - exact st_done. - exact st_walive.
  Qed.
End Step.

Theorem guard_invariant : forall c faults s, reachable c faults s -> GInv c s.
Proof.
  intros c faults s R.
  assert (K: Conserv s /\ GInv c s).
  { induction R.
    - split; [reflexivity | apply ginv_init].
    - destruct IHR as [CV GI]. split.
      + eapply conserv_step; eauto.
      + eapply ginv_step; eauto. apply step_Step; eauto. }
  tauto.
Qed.

(** Without a timeout the drop can only end through the join. *)
Lemma no_timeout_clean : forall c faults s, reachP c faults NoTimeout s -> guard s <> GDone false.
Proof.
  intros c faults s R. induction R.
  - simpl. discriminate.
  - pose proof (guard_invariant _ _ _ (reachP_reachable _ _ _ _ R)) as GI.
    apply step_Step in H0. destruct H0; simpl; auto; try discriminate;
      try (unfold NoTimeout in H; simpl in H; discriminate).
    (* LGSend with the receiver gone: impossible while the guard has not sent Shutdown *)
    exfalso. destruct (gi_early _ _ GI (or_intror H0)) as [_ NP].
    unfold recv_alive in H1. destruct (pc s); simpl in *; try discriminate; tauto.
Qed.

Lemma firstn_app_le : forall A (a b : list A) n, n <= length a -> firstn n (a ++ b) = firstn n a.
Proof. intros. rewrite firstn_app. replace (n - length a) with 0 by lia. simpl. apply app_nil_r. Qed.

(** The state in which a guard drop has returned after the join. *)
Definition DropReturned (c : config) (s : state) : Prop :=
  pc s = WExit /\
  writer_alive s = false /\
  exists n lg fb,
    mark s = Some n /\
    n <= length (attempts s) /\
    firstn n (accepted s) = firstn n (map fst (attempts s)) /\
    log s = lg ++ [EvFlush fb; EvDropWriter] /\
    attempts_of lg = attempts s /\
    (var c = FlushErrLosesState -> fb = true).

Lemma attempts_flush_drop : forall lg fb, attempts_of (lg ++ [EvFlush fb; EvDropWriter]) = attempts_of lg.
Proof. intros. rewrite attempts_of_app. simpl. apply app_nil_r. Qed.

Theorem clean_drop_returned : forall c faults s, reachable c faults s -> guard s = GDone true -> DropReturned c s.
Proof.
  intros c faults s R G.
  pose proof (guard_invariant _ _ _ R) as GI. pose proof (conservation _ _ _ R) as CV.
  assert (P: pc s = WExit) by (apply (gi_join _ _ GI); auto).
  assert (Z: nsd (q s) = 0) by (apply (gi_term _ _ GI); rewrite P; simpl; tauto).
  destruct (gi_done _ _ GI) as (lg & fb & L & V); [rewrite P; exact I|].
  destruct (mark s) as [n|] eqn:M; [|exfalso; apply (gi_late _ _ GI); [right; right; auto | auto]].
  destruct (gi_mark _ _ GI n M) as [_ LE]. specialize (LE Z). unfold nseen in LE. rewrite P in LE. simpl in LE.
  split; auto. split.
  - unfold writer_alive. rewrite L, existsb_app. simpl. rewrite orb_true_r. reflexivity.
  - exists n, lg, fb. repeat split; auto; try lia.
    + unfold Conserv in CV. rewrite CV. rewrite firstn_app_le; auto. rewrite map_length. lia.
    + unfold attempts. rewrite L. symmetry. apply attempts_flush_drop.
Qed.

(** C15_guard_drop: under NoTimeout, once the drop has returned it returned through the join, every
    line accepted before Shutdown was queued (a fortiori before the drop began) has been handed to
    write_all in acceptance order, the log ends with a flush and the release of the writer. *)
Theorem guard_drop_no_timeout : forall c faults s b,
  reachP c faults NoTimeout s -> guard s = GDone b -> b = true /\ DropReturned c s.
Proof.
  intros c faults s b R G.
  assert (b = true).
  { destruct b; auto. exfalso. eapply no_timeout_clean; eauto. }
  subst. split; auto. eapply clean_drop_returned; eauto. eapply reachP_reachable; eauto.
Qed.
