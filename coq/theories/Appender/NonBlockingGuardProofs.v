(** C15 — the guard-drop protocol: Shutdown travels behind every line accepted before it, the worker
    flushes, releases the writer, meets the guard on the rendezvous channel.  Safety for every schedule
    (timeouts included); progress under NoTimeout and, for the code as it is (F11), no failing flush
    in the batch that consumed Shutdown. *)
From Coq Require Import List NArith Arith Bool Lia.
From TV Require Import Appender.NonBlockingModel Appender.NonBlockingSched Appender.NonBlockingProofs.
Import ListNotations.
Local Open Scope nat_scope.

Fixpoint nsd (m : list msg) : nat :=
  match m with [] => 0 | Shutdown :: r => S (nsd r) | Line _ :: r => nsd r end.
Fixpoint lines_before_sd (m : list msg) : list line :=
  match m with [] => [] | Shutdown :: _ => [] | Line l :: r => l :: lines_before_sd r end.

Lemma nsd_app : forall a b, nsd (a ++ b) = nsd a + nsd b.
Proof. induction a as [|[l|] a IH]; simpl; intros; auto. Qed.
Lemma lbs_app_nosd : forall a b, nsd a = 0 -> lines_before_sd (a ++ b) = qlines a ++ lines_before_sd b.
Proof. induction a as [|[l|] a IH]; simpl; intros; auto; try discriminate. rewrite IH; auto. Qed.
Lemma lbs_app_sd : forall a b, nsd a <> 0 -> lines_before_sd (a ++ b) = lines_before_sd a.
Proof. induction a as [|[l|] a IH]; simpl; intros; auto; try congruence. rewrite IH; auto. Qed.

Definition normal_pc (p : wpc) : Prop :=
  match p with WRecv | WWrite _ | WTry | WFlush StEmpty => True | _ => False end.
Definition past_shutdown (p : wpc) : Prop :=
  match p with WFlush StShutdown | WRelease | WRendezvous | WExit => True | _ => False end.
Definition guard_done (g : gstate) : Prop := match g with GDone _ => True | _ => False end.
Definition done_pc (p : wpc) : Prop := match p with WRendezvous | WExit => True | _ => False end.

Record GInv (c : config) (s : state) : Prop := {
  gi_early : guard s = GHeld \/ guard s = GSending -> mark s = None /\ normal_pc (pc s);
  gi_nomark : mark s = None -> nsd (q s) = 0;
  gi_alive : ~ guard_done (guard s) -> pc s <> WFlush StDisconnected /\ (past_shutdown (pc s) -> nsd (q s) = 0 /\ mark s <> None);
  gi_mark : forall n, mark s = Some n ->
      nsd (q s) <= 1 /\
      (nsd (q s) = 1 -> length (attempts s) + length (inflight (pc s)) + length (lines_before_sd (q s)) = n) /\
      (nsd (q s) = 0 -> n <= length (attempts s) + length (inflight (pc s)));
  gi_join : guard s = GJoin \/ guard s = GDone true -> pc s = WExit /\ nsd (q s) = 0 /\ mark s <> None;
  gi_rel : pc s = WRelease -> exists lg b, log s = lg ++ [EvFlush b] /\ (var c = FlushErrLosesState -> b = true);
  gi_done : done_pc (pc s) -> exists lg b, log s = lg ++ [EvFlush b; EvDropWriter] /\ (var c = FlushErrLosesState -> b = true);
  gi_walive : ~ done_pc (pc s) -> writer_alive s = true
}.

Lemma ginv_init : forall c, GInv c (init c).
Proof.
  intros c. constructor; simpl; auto; try (intros; discriminate); try (intros [|]; discriminate);
    try (intros []; fail).
  all: try (intros _; split; [intro; discriminate | intros []]).
  all: try (intros []; discriminate).
Qed.

Lemma writer_alive_snoc : forall s e, writer_alive (call s e) = writer_alive s && match e with EvDropWriter => false | _ => true end.
Proof. intros. unfold writer_alive, call; simpl. rewrite existsb_app. simpl. rewrite orb_false_r, negb_orb. destruct e; auto. Qed.

Lemma lbs_nosd : forall a, nsd a = 0 -> lines_before_sd a = qlines a.
Proof. intros. rewrite <- (app_nil_r a) at 1. rewrite lbs_app_nosd; auto. simpl. apply app_nil_r. Qed.

Ltac norm_hyps :=
  repeat match goal with
         | E : pc _ = _ |- _ => rewrite E in *
         | E : q _ = _ |- _ => rewrite E in *
         end.

Ltac prep s :=
  repeat match goal with
         | E : (senders s =? 0) = true |- _ =>
             apply Nat.eqb_eq in E; unfold senders in E; destruct (guard s) eqn:?; simpl in E; try lia; clear E
         | E : (senders s =? 0) = false |- _ => clear E
         end.

Ltac inj_some := repeat match goal with H : Some _ = Some _ |- _ => inversion H; subst; clear H end.

Ltac gsolve s :=
  simpl in *; intros;
  try match goal with IM : forall n, mark s = Some n -> _ |- _ =>
        destruct (mark s) as [mk|] eqn:MK; [ specialize (IM mk eq_refl) | clear IM ] end;
  inj_some; unfold writer_alive in *; simpl in *; rewrite ?existsb_app in *; simpl in *; rewrite ?orb_false_r in *;
  try solve [ intuition (try discriminate; try congruence; try lia; eauto)
            | exfalso; intuition (try discriminate; try congruence; try lia) ].

Lemma ginv_step : forall c faults s l s', Conserv s -> GInv c s -> step c faults s l = Some s' -> GInv c s'.
Proof.
  intros c faults s l s' CV I H.
  destruct I as [Iearly Inomark Ialive Imark Ijoin Irel Idone Iwalive].
  inv_step H; prep s; norm_hyps; constructor; simpl in *; unfold attempts in *; simpl in *;
    rewrite ?attempts_of_app, ?app_length, ?nsd_app in *; simpl in *; gsolve s.
  all: let n := numgoals in idtac "REMAINING" n.
  3: { Show. }
Abort.
