(** C15 — the guard-drop protocol: Shutdown travels behind every line accepted before it, the worker
    flushes, releases the writer, meets the guard on the rendezvous channel.  Safety for every schedule
    (timeouts included); the statement about a returned drop under NoTimeout. *)
From Coq Require Import List NArith Arith Bool Lia.
From TV Require Import Appender.NonBlockingModel Appender.NonBlockingSched Appender.NonBlockingStep
  Appender.NonBlockingProofs.
Import ListNotations.
Local Open Scope nat_scope.

Fixpoint nsd (m : list msg) : nat :=
  match m with [] => 0 | Shutdown :: r => S (nsd r) | Line _ :: r => nsd r end.
Fixpoint lines_before_sd (m : list msg) : list line :=
  match m with [] => [] | Shutdown :: _ => [] | Line l :: r => l :: lines_before_sd r end.

Lemma nsd_app : forall a b, nsd (a ++ b) = nsd a + nsd b.
Proof. induction a as [|[l|] a IH]; simpl; intros; auto. Qed.
Lemma lbs_app_nosd : forall a b, nsd a = 0 -> lines_before_sd (a ++ b) = qlines a ++ lines_before_sd b.
Proof. induction a as [|[l|] a IH]; simpl; intros; auto; try discriminate. rewrite IH; auto. Qed.
Lemma lbs_app_sd : forall a b, nsd a <> 0 -> lines_before_sd (a ++ b) = lines_before_sd a.
Proof. induction a as [|[l|] a IH]; simpl; intros; auto; try congruence. rewrite IH; auto. Qed.

Definition normal_pc (p : wpc) : Prop :=
  match p with WRecv | WWrite _ | WTry | WFlush StEmpty => True | _ => False end.
Definition early (g : gstate) : Prop := g = GHeld \/ g = GSending.
Definition late (g : gstate) : Prop := g = GWaitRdv \/ g = GJoin \/ g = GDone true.
Definition done_pc (p : wpc) : Prop := match p with WRendezvous | WExit => True | _ => False end.

Definition nseen (s : state) : nat := length (attempts s) + length (inflight (pc s)).

Record GInv (c : config) (s : state) : Prop := {
  gi_early : early (guard s) -> mark s = None /\ normal_pc (pc s);
  gi_nomark : mark s = None -> nsd (q s) = 0;
  gi_late : late (guard s) -> mark s <> None;
  gi_sd : nsd (q s) <= 1;
  gi_term : ~ normal_pc (pc s) -> nsd (q s) = 0;
  gi_mark : forall n, mark s = Some n ->
      (nsd (q s) = 1 -> nseen s + length (lines_before_sd (q s)) = n) /\
      (nsd (q s) = 0 -> n <= nseen s);
  gi_join : guard s = GJoin \/ guard s = GDone true -> pc s = WExit;
  gi_rel : pc s = WRelease -> exists lg b, log s = lg ++ [EvFlush b] /\ (var c = FlushErrLosesState -> b = true);
  gi_done : done_pc (pc s) -> exists lg b, log s = lg ++ [EvFlush b; EvDropWriter] /\ (var c = FlushErrLosesState -> b = true);
  gi_walive : ~ done_pc (pc s) -> writer_alive s = true
}.

Lemma ginv_init : forall c, GInv c (init c).
Proof.
  intros c. constructor; simpl; auto; unfold early, late; simpl; intros;
    try discriminate; try tauto; try lia.
  - destruct H as [H|[H|H]]; discriminate.
  - destruct H; discriminate.
Qed.

Lemma senders_pos_early : forall s, early (guard s) -> senders s <> 0.
Proof. intros s [E|E]; unfold senders; rewrite E; lia. Qed.

Lemma writer_alive_app : forall s e,
  existsb (fun e => match e with EvDropWriter => true | _ => false end) (log s ++ [e]) =
  existsb (fun e => match e with EvDropWriter => true | _ => false end) (log s)
  || match e with EvDropWriter => true | _ => false end.
Proof. intros. rewrite existsb_app. simpl. rewrite orb_false_r. reflexivity. Qed.

Ltac early_absurd :=
  match goal with
  | H : early ?g, E : ?g = _ |- _ => rewrite E in H; destruct H; discriminate
  | H : late ?g, E : ?g = _ |- _ => rewrite E in H; destruct H as [H|[H|H]]; discriminate
  end.

Lemma ginv_step : forall c faults s l s', Conserv s -> GInv c s -> Step c faults s l s' -> GInv c s'.
Proof.
  intros c faults s l s' CV I H.
  destruct I as [Iearly Inomark Ilate Isd Iterm Imark Ijoin Irel Idone Iwalive].
  unfold nseen, attempts in *.
  destruct H.
  - (* recv line *)
    rewrite H, H0 in *. simpl in *.
    constructor; unfold nseen, attempts; simpl; auto; try tauto; try (intros; discriminate).
    + intros n M. specialize (Imark n M). simpl in Imark. lia.
    + intros _. apply Iwalive. tauto.
  - (* recv shutdown *)
    rewrite H, H0 in *. simpl in *.
    constructor; unfold nseen, attempts; simpl; auto; try tauto; try lia; try (intros; discriminate).
    + intros E. destruct (Iearly E) as [M _]. apply Inomark in M. discriminate.
    + intros n M. specialize (Imark n M). simpl in Imark. lia.
    + intros _. apply Iwalive. tauto.
  - (* recv disconnected *)
    rewrite H, H0 in *. simpl in *.
    constructor; unfold nseen, attempts; simpl; auto; try tauto; try (intros; discriminate).
    + intros E. exfalso. eapply senders_pos_early; eauto.
    + intros n M. specialize (Imark n M). simpl in Imark. lia.
    + intros _. apply Iwalive. tauto.
  - (* write *)
    rewrite H in *. simpl in *.
    constructor; unfold nseen, attempts; simpl; rewrite ?attempts_of_app, ?app_length; simpl; auto; try tauto.
    + intros E. destruct (Iearly E). split; auto. destruct (faults (ncalls s)); exact I.
    + intros N. exfalso. apply N. destruct (faults (ncalls s)); exact I.
    + intros n M. specialize (Imark n M). simpl in Imark. destruct (faults (ncalls s)); simpl; lia.
    + destruct (faults (ncalls s)); intros; discriminate.
    + destruct (faults (ncalls s)); simpl; tauto.
    + intros _. unfold writer_alive. simpl. rewrite writer_alive_app, orb_false_r. apply Iwalive. tauto.
  - (* try line *)
    rewrite H, H0 in *. simpl in *.
    constructor; unfold nseen, attempts; simpl; auto; try tauto; try (intros; discriminate).
    + intros n M. specialize (Imark n M). simpl in Imark. lia.
    + intros _. apply Iwalive. tauto.
  - (* try shutdown *)
    rewrite H, H0 in *. simpl in *.
    constructor; unfold nseen, attempts; simpl; auto; try tauto; try lia; try (intros; discriminate).
    + intros E. destruct (Iearly E) as [M _]. apply Inomark in M. discriminate.
    + intros n M. specialize (Imark n M). simpl in Imark. lia.
    + intros _. apply Iwalive. tauto.
  - (* try none *)
    rewrite H, H0 in *. simpl in *.
    constructor; unfold nseen, attempts; simpl; auto; try tauto; try (intros; discriminate).
    + intros E. destruct (Iearly E). split; auto.
      destruct (Nat.eqb_spec (senders s) 0) as [Z|Z]; [exfalso; eapply senders_pos_early; eauto | exact I].
    + intros n M. specialize (Imark n M). simpl in Imark. lia.
    + intros _. apply Iwalive. tauto.
  - (* flush *)
    rewrite H in *. simpl in *.
    assert (NX: forall b, flush_next c st b <> WRendezvous /\ flush_next c st b <> WExit).
    { intros b. unfold flush_next. destruct (terminal st), b, (var c); split; discriminate. }
    constructor; unfold nseen, attempts; simpl; rewrite ?attempts_of_app, ?app_length; simpl; auto; try tauto.
    + intros E. destruct (Iearly E) as [M N]. split; auto. destruct st; simpl in N; try tauto.
      unfold flush_next. simpl. exact I.
    + intros N. apply Iterm. intros NP. apply N. destruct st; simpl in NP; try tauto. unfold flush_next. simpl. exact I.
    + intros n M. specialize (Imark n M). simpl in Imark.
      assert (length (inflight (flush_next c st (faults (ncalls s)))) = 0).
      { unfold flush_next. destruct (terminal st), (faults (ncalls s)), (var c); reflexivity. }
      lia.
    + intros J. apply Ijoin in J. discriminate.
    + intros R. exists (log s), (negb (faults (ncalls s))). split; auto.
      intros V. unfold flush_next in R. rewrite V in R. destruct (terminal st), (faults (ncalls s)); simpl; auto; discriminate.
    + intros D. exfalso. destruct (NX (faults (ncalls s))) as [A B].
      destruct (flush_next c st (faults (ncalls s))); simpl in D; try tauto; congruence.
    + intros _. unfold writer_alive. simpl. rewrite writer_alive_app, orb_false_r. apply Iwalive. tauto.
  - (* release *)
    rewrite H in *. simpl in *.
    constructor; unfold nseen, attempts; simpl; rewrite ?attempts_of_app, ?app_length; simpl; auto; try tauto.
    + intros E. destruct (Iearly E) as [_ N]. destruct N.
    + intros n M. specialize (Imark n M). simpl in Imark. lia.
    + intros J. apply Ijoin in J. discriminate.
    + intros; discriminate.
    + intros _. destruct (Irel eq_refl) as (lg & b & L & V). exists lg, b. split; auto.
      rewrite L, <- app_assoc. reflexivity.
  - (* exit *)
    rewrite H, H0 in *. simpl in *.
    constructor; unfold nseen, attempts; simpl; auto; try tauto; try (intros; discriminate).
    + intros E. destruct E; discriminate.
    + intros n M. specialize (Imark n M). simpl in Imark. lia.
    + intros _. apply Idone. exact I.
  - (* accept *)
    unfold prod_advance. simpl in *.
    constructor; unfold nseen, attempts; simpl; rewrite ?nsd_app; simpl; rewrite ?Nat.add_0_r; auto.
    intros n M. specialize (Imark n M). split; intros N.
    + rewrite lbs_app_sd by lia. tauto.
    + tauto.
  - (* drop *)
    unfold prod_advance. simpl in *. constructor; auto.
  - (* refuse *)
    unfold prod_advance. simpl in *. constructor; auto.
  - (* close *)
    simpl in *. constructor; auto.
  - (* guard begin *)
    rewrite H in *. simpl in *.
    constructor; unfold nseen, attempts; simpl; auto.
    + intros _. apply Iearly. left; reflexivity.
    + intros L. destruct L as [L|[L|L]]; discriminate.
    + intros [J|J]; discriminate.
  - (* guard send, receiver gone *)
    rewrite H in *. simpl in *.
    constructor; unfold nseen, attempts; simpl; auto.
    + intros [E|E]; discriminate.
    + intros L. destruct L as [L|[L|L]]; discriminate.
    + intros [J|J]; discriminate.
  - (* guard send *)
    rewrite H in *. simpl in *.
    destruct (Iearly (or_intror eq_refl)) as [M NP]. pose proof (Inomark M) as Z.
    constructor; unfold nseen, attempts; simpl; rewrite ?nsd_app; simpl; auto; try lia.
    + intros [E|E]; discriminate.
    + intros; discriminate.
    + intros; discriminate.
    + intros N. exfalso. tauto.
    + intros n Mn. inversion Mn; subst; clear Mn. split; [intros _|intros; lia].
      rewrite lbs_app_nosd by auto. simpl. rewrite app_nil_r.
      unfold Conserv, pending, attempts in CV. rewrite CV, !app_length, map_length. lia.
    + intros [J|J]; discriminate.
  - (* timeout 100 *)
    rewrite H in *. simpl in *.
    constructor; unfold nseen, attempts; simpl; auto.
    + intros [E|E]; discriminate.
    + intros L. destruct L as [L|[L|L]]; discriminate.
    + intros [J|J]; discriminate.
  - (* rendezvous *)
    rewrite H, H0 in *. simpl in *.
    constructor; unfold nseen, attempts; simpl; auto; try tauto; try (intros; discriminate).
    + intros [E|E]; discriminate.
    + intros _. apply Ilate. left; reflexivity.
    + intros n M. specialize (Imark n M). simpl in Imark. lia.
    + intros _. apply Idone. exact I.
  - (* timeout 1000 *)
    rewrite H in *. simpl in *.
    constructor; unfold nseen, attempts; simpl; auto.
    + intros [E|E]; discriminate.
    + intros L. destruct L as [L|[L|L]]; discriminate.
    + intros [J|J]; discriminate.
  - (* join *)
    rewrite H, H0 in *. simpl in *.
    constructor; unfold nseen, attempts; simpl; auto; try tauto; try (intros; discriminate).
    + intros [E|E]; discriminate.
    + intros _. apply Ilate. right; left; reflexivity.
Qed.

Theorem guard_invariant : forall c faults s, reachable c faults s -> GInv c s.
Proof.
  intros c faults s R.
  assert (K: Conserv s /\ GInv c s).
  { induction R.
    - split; [reflexivity | apply ginv_init].
    - destruct IHR as [CV GI]. split.
      + eapply conserv_step; eauto.
      + eapply ginv_step; eauto. apply step_Step; eauto. }
  tauto.
Qed.

(** Without a timeout the drop can only end through the join. *)
Lemma no_timeout_clean : forall c faults s, reachP c faults NoTimeout s -> guard s <> GDone false.
Proof.
  intros c faults s R. induction R.
  - simpl. discriminate.
  - pose proof (guard_invariant _ _ _ (reachP_reachable _ _ _ _ R)) as GI.
    apply step_Step in H0. destruct H0; simpl; auto; try discriminate;
      try (unfold NoTimeout in H; simpl in H; discriminate).
    (* LGSend with the receiver gone: impossible while the guard has not sent Shutdown *)
    exfalso. destruct (gi_early _ _ GI (or_intror H0)) as [_ NP].
    unfold recv_alive in H1. destruct (pc s); simpl in *; try discriminate; tauto.
Qed.

Lemma firstn_app_le : forall A (a b : list A) n, n <= length a -> firstn n (a ++ b) = firstn n a.
Proof. intros. rewrite firstn_app. replace (n - length a) with 0 by lia. simpl. apply app_nil_r. Qed.

(** The state in which a guard drop has returned after the join. *)
Definition DropReturned (c : config) (s : state) : Prop :=
  pc s = WExit /\
  writer_alive s = false /\
  exists n lg fb,
    mark s = Some n /\
    n <= length (attempts s) /\
    firstn n (accepted s) = firstn n (map fst (attempts s)) /\
    log s = lg ++ [EvFlush fb; EvDropWriter] /\
    attempts_of lg = attempts s /\
    (var c = FlushErrLosesState -> fb = true).

Lemma attempts_flush_drop : forall lg fb, attempts_of (lg ++ [EvFlush fb; EvDropWriter]) = attempts_of lg.
Proof. intros. rewrite attempts_of_app. simpl. apply app_nil_r. Qed.

Theorem clean_drop_returned : forall c faults s, reachable c faults s -> guard s = GDone true -> DropReturned c s.
Proof.
  intros c faults s R G.
  pose proof (guard_invariant _ _ _ R) as GI. pose proof (conservation _ _ _ R) as CV.
  assert (P: pc s = WExit) by (apply (gi_join _ _ GI); auto).
  assert (Z: nsd (q s) = 0) by (apply (gi_term _ _ GI); rewrite P; simpl; tauto).
  destruct (gi_done _ _ GI) as (lg & fb & L & V); [rewrite P; exact I|].
  destruct (mark s) as [n|] eqn:M; [|exfalso; apply (gi_late _ _ GI); [right; right; auto | auto]].
  destruct (gi_mark _ _ GI n M) as [_ LE]. specialize (LE Z). unfold nseen in LE. rewrite P in LE. simpl in LE.
  split; auto. split.
  - unfold writer_alive. rewrite L, existsb_app. simpl. rewrite orb_true_r. reflexivity.
  - exists n, lg, fb. repeat split; auto; try lia.
    + unfold Conserv in CV. rewrite CV. rewrite firstn_app_le; auto. rewrite map_length. lia.
    + unfold attempts. rewrite L. symmetry. apply attempts_flush_drop.
Qed.

(** C15_guard_drop: under NoTimeout, once the drop has returned it returned through the join, every
    line accepted before Shutdown was queued (a fortiori before the drop began) has been handed to
    write_all in acceptance order, the log ends with a flush and the release of the writer. *)
Theorem guard_drop_no_timeout : forall c faults s b,
  reachP c faults NoTimeout s -> guard s = GDone b -> b = true /\ DropReturned c s.
Proof.
  intros c faults s b R G.
  assert (b = true).
  { destruct b; auto. exfalso. eapply no_timeout_clean; eauto. }
  subst. split; auto. eapply clean_drop_returned; eauto. eapply reachP_reachable; eauto.
Qed.
