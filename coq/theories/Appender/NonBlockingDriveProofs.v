(** C15 — the harness semantics of NonBlockingDrive.v only ever takes model steps: the labels a run of
    commands emits are a schedule of the model ([exec] accepts them from [init c] and ends in the state
    the run ends in).  Hence every state the correspondence visits is [reachable], for any commands. *)
From Coq Require Import List NArith Arith Bool Lia.
From TV Require Import Appender.NonBlockingModel Appender.NonBlockingSched Appender.NonBlockingDrive.
Import ListNotations.
Local Open Scope nat_scope.

Section DriveSound.
  Variable c : config.
  Variable faults : nat -> bool.

  Definition DInv (d : dstate) : Prop := exec c faults (rev (trace d)) (init c) = Some (ms d).

  Lemma exec_app : forall a b s, exec c faults (a ++ b) s =
    match exec c faults a s with Some s' => exec c faults b s' | None => None end.
  Proof.
    induction a as [|l a IH]; simpl; intros; auto.
    destruct (step c faults s l); auto.
  Qed.

  Lemma dinv_init : DInv (dinit c).
  Proof. reflexivity. Qed.

  Lemma dinv_try : forall d l d', DInv d -> try_label c faults d l = Some d' -> DInv d'.
  Proof.
    unfold DInv, try_label. intros d l d' I H.
    destruct (step c faults (ms d) l) eqn:E; [|discriminate]. inversion H; subst; clear H. simpl.
    rewrite exec_app, I. simpl. rewrite E. reflexivity.
  Qed.

  Lemma dinv_set_held : forall d b, DInv d -> DInv (set_held d b).
  Proof. auto. Qed.
  Lemma dinv_set_freerun : forall d b, DInv d -> DInv (set_freerun d b).
  Proof. auto. Qed.
  Lemma dinv_set_pendp : forall d v, DInv d -> DInv (set_pendp d v).
  Proof. auto. Qed.
  Lemma dinv_set_g : forall d r x, DInv d -> DInv (set_g d r x).
  Proof. auto. Qed.

  Hint Resolve dinv_try dinv_set_held dinv_set_freerun dinv_set_pendp dinv_set_g : dinv.

  Ltac split_all :=
    repeat match goal with
           | H : context [match ?x with _ => _ end] |- _ => destruct x eqn:?; try discriminate
           | H : context [if ?x then _ else _] |- _ => destruct x eqn:?; try discriminate
           end;
    repeat match goal with H : Some _ = Some _ |- _ => inversion H; subst; clear H end.

  Lemma dinv_next_auto : forall d d', DInv d -> next_auto c faults d = Some d' -> DInv d'.
  Proof.
    intros d d' I H. unfold next_auto in H.
    split_all; eauto 6 with dinv.
  Qed.

  Lemma dinv_settle : forall fuel d, DInv d -> DInv (settle c faults fuel d).
  Proof.
    induction fuel as [|f IH]; simpl; intros d I; auto.
    destruct (next_auto c faults d) eqn:E; auto. apply IH. eapply dinv_next_auto; eauto.
  Qed.

  Hint Resolve dinv_settle : dinv.

  Lemma dinv_exec_cmd : forall d k, DInv d -> DInv (fst (exec_cmd c faults d k)).
  Proof.
    intros d k I. generalize FUEL. intros fuel.
    destruct k; unfold exec_cmd; fold FUEL;
      repeat match goal with
             | |- context [match ?x with _ => _ end] => destruct x eqn:?
             | |- context [if ?x then _ else _] => destruct x eqn:?
             end; cbn [fst]; eauto 8 with dinv.
  Qed.

  Lemma dinv_run : forall ks d acc, DInv d -> DInv (fst (run c faults d ks acc)).
  Proof.
    induction ks as [|k r IH]; simpl; intros d acc I; auto.
    pose proof (dinv_exec_cmd d k I) as J. destruct (exec_cmd c faults d k) as [d' st]. simpl in J.
    apply IH. exact J.
  Qed.

  (** Every run of harness commands is a schedule of the model. *)
  Theorem run_is_schedule : forall ks,
    let d := fst (run c faults (dinit c) ks []) in
    exec c faults (rev (trace d)) (init c) = Some (ms d).
  Proof. intros ks. apply (dinv_run ks (dinit c) []). apply dinv_init. Qed.

  Corollary run_reachable : forall ks, reachable c faults (ms (fst (run c faults (dinit c) ks []))).
  Proof.
    intros ks. apply reachable_iff_exec. eexists. apply run_is_schedule.
  Qed.
End DriveSound.
