(** C15 — how the correspondence harness (harness/nonblocking/src/bin/h_nonblocking.rs) drives the real
    NonBlocking / WorkerGuard, expressed over the model: every harness command is a sequence of model
    labels (the commanded one plus the steps that then happen by themselves until every thread is parked
    at a harness gate or blocked inside crossbeam).  Executable; no proofs in this file
    (NonBlockingDriveProofs.v shows that the labels a run emits are a schedule of the model, so every
    state the correspondence visits is [reachable] and the theorems of Properties/C15.v speak about it).

    The harness holds the worker thread at five park points of the scripted underlying writer:
    entry of write_all (model pc WWrite), exit of write_all (WTry, or WRecv after an error), entry of flush
    (WFlush), exit of flush (WRecv / WRelease), exit of the writer's Drop (WRendezvous).  Between two park
    points the worker performs exactly one model step.  With the gates open ([freerun]) it runs until it
    blocks in recv() or exits. *)
From Coq Require Import List NArith Arith Bool.
From TV Require Import Appender.NonBlockingModel.
Import ListNotations.
Local Open Scope nat_scope.

Inductive cmd :=
| CP (p : nat)    (* producer p calls write with its next line *)
| CC (p : nat)    (* producer p drops its NonBlocking clone *)
| CW              (* release the worker from the gate it is parked at *)
| CWp             (* the same, but only while a producer is blocked in send or the guard drop is running *)
| CG              (* drop(guard) on a thread of its own *)
| CT              (* wait (real time) until the running guard drop has returned *)
| CO              (* open the gates: the worker runs freely *)
| CH.             (* close the gates again *)

Record dstate := {
  ms : state;
  held : bool;            (* the worker is parked at a harness gate *)
  freerun : bool;         (* the gates are open *)
  pendp : option nat;     (* the producer blocked inside send (non-lossy, queue full) *)
  grun : bool;            (* drop(guard) has been called and has not returned *)
  gres : N;               (* 0: not returned; 2: returned silently; 3: after the 100 ms message; 4: after the 1 s message *)
  trace : list label      (* labels executed, newest first *)
}.

Definition dinit (c : config) : dstate :=
  {| ms := init c; held := false; freerun := false; pendp := None; grun := false; gres := 0%N; trace := [] |}.

Section Drive.
  Variable c : config.
  Variable faults : nat -> bool.

  Definition try_label (d : dstate) (l : label) : option dstate :=
    match step c faults (ms d) l with
    | Some s' => Some {| ms := s'; held := held d; freerun := freerun d; pendp := pendp d; grun := grun d;
                         gres := gres d; trace := l :: trace d |}
    | None => None
    end.

  Definition set_held (d : dstate) (b : bool) : dstate :=
    {| ms := ms d; held := b; freerun := freerun d; pendp := pendp d; grun := grun d; gres := gres d; trace := trace d |}.
  Definition set_freerun (d : dstate) (b : bool) : dstate :=
    {| ms := ms d; held := held d; freerun := b; pendp := pendp d; grun := grun d; gres := gres d; trace := trace d |}.
  Definition set_pendp (d : dstate) (v : option nat) : dstate :=
    {| ms := ms d; held := held d; freerun := freerun d; pendp := v; grun := grun d; gres := gres d; trace := trace d |}.
  Definition set_g (d : dstate) (run : bool) (res : N) : dstate :=
    {| ms := ms d; held := held d; freerun := freerun d; pendp := pendp d; grun := run; gres := res; trace := trace d |}.

  Definition is_exit (p : wpc) : bool := match p with WExit => true | _ => false end.
  Definition g_sending (d : dstate) : bool := match guard (ms d) with GSending => true | _ => false end.
  Definition g_waitrdv (d : dstate) : bool := match guard (ms d) with GWaitRdv => true | _ => false end.
  Definition g_join (d : dstate) : bool := match guard (ms d) with GJoin => true | _ => false end.
  Definition g_held (d : dstate) : bool := match guard (ms d) with GHeld => true | _ => false end.
  Definition g_done (d : dstate) : bool := match guard (ms d) with GDone _ => true | _ => false end.

  (** The next thing that happens without the harness doing anything. *)
  Definition next_auto (d : dstate) : option dstate :=
    let worker :=
      if held d then None
      else match try_label d LWorker with
           | Some d' => Some (set_held d' (negb (freerun d') && negb (is_exit (pc (ms d')))))
           | None => None
           end in
    match worker with
    | Some d' => Some d'
    | None =>
      let prod :=
        match pendp d with
        | Some p => match try_label d (LProd p) with Some d' => Some (set_pendp d' None) | None => None end
        | None => None
        end in
      match prod with
      | Some d' => Some d'
      | None =>
        if grun d then
          if g_sending d then
            match try_label d LGSend with
            | Some d' => Some (if g_done d' then set_g d' false 2%N else d')
            | None => None
            end
          else if g_waitrdv d then
            (if held d then None else try_label d LRendezvous)
          else if g_join d then
            match try_label d LGJoin with Some d' => Some (set_g d' false 2%N) | None => None end
          else None
        else None
      end
    end.

  Fixpoint settle (fuel : nat) (d : dstate) : dstate :=
    match fuel with
    | 0 => d
    | S f => match next_auto d with Some d' => settle f d' | None => d end
    end.

  Definition FUEL : nat := 400.

  Definition q_full (d : dstate) : bool := negb (length (q (ms d)) <? cap c).
  Definition eq_opt (a : option nat) (p : nat) : bool := match a with Some x => x =? p | None => false end.
  Definition is_some (a : option nat) : bool := match a with Some _ => true | None => false end.

  (** status: 0 = skipped (the harness does nothing), 1 = executed, 2 = executed and the producer blocked *)
  Definition exec_cmd (d : dstate) (k : cmd) : dstate * N :=
    match k with
    | CP p =>
        if eq_opt (pendp d) p then (d, 0%N) else
        match nth_error (prods (ms d)) p with
        | Some {| rem := _ :: _; popen := true |} =>
            match try_label d (LProd p) with
            | Some d' => (settle FUEL d', 1%N)
            | None => if is_some (pendp d) || (grun d && g_sending d) then (d, 0%N)
                      else (set_pendp d (Some p), 2%N)
            end
        | _ => (d, 0%N)
        end
    | CC p =>
        if eq_opt (pendp d) p then (d, 0%N) else
        match try_label d (LClose p) with
        | Some d' => (settle FUEL d', 1%N)
        | None => (d, 0%N)
        end
    | CW =>
        if held d && negb (freerun d) then (settle FUEL (set_held d false), 1%N) else (d, 0%N)
    | CWp =>
        if (is_some (pendp d) || grun d) && held d && negb (freerun d)
        then (settle FUEL (set_held d false), 1%N) else (d, 0%N)
    | CG =>
        if g_held d && negb (grun d) && negb (q_full d && recv_alive (ms d) && is_some (pendp d)) then
          match try_label d LGBegin with
          | Some d' => (settle FUEL (set_g d' true 0%N), 1%N)
          | None => (d, 0%N)
          end
        else (d, 0%N)
    | CT =>
        if grun d then
          match try_label d (if g_sending d then LGTimeout100 else LGTimeout1000) with
          | Some d' => (settle FUEL (set_g d' false (if g_sending d then 3%N else 4%N)), 1%N)
          | None => (d, 0%N)
          end
        else (d, 0%N)
    | CO =>
        if negb (freerun d) && negb (is_some (pendp d)) && negb (grun d && g_sending d)
        then (settle FUEL (set_held (set_freerun d true) false), 1%N) else (d, 0%N)
    | CH =>
        if freerun d then (set_freerun d false, 1%N) else (d, 0%N)
    end.

  (** What the harness can see after a command (everything is at rest). *)
  Definition last_is_write (lg : list event) : bool :=
    match rev lg with EvWrite _ _ :: _ => true | _ => false end.

  (** 0: not at a gate; 1: entry of write_all; 2: exit of write_all; 3: entry of flush; 4: exit of flush;
      5: exit of the writer's Drop; 6: the worker thread is gone *)
  Definition wk_code (d : dstate) : N :=
    match pc (ms d) with
    | WExit => 6
    | p => if held d then
             match p with
             | WWrite _ => 1 | WTry => 2 | WFlush _ => 3 | WRelease => 4 | WRendezvous => 5
             | WRecv => if last_is_write (log (ms d)) then 2 else 4
             | WExit => 6
             end
           else 0
    end%N.

  Definition line_id (l : line) : N := match l with x :: _ => x | [] => 0%N end.
  Definition inflight_id (d : dstate) : N :=
    match pc (ms d) with WWrite l => if held d then line_id l + 1 else 0 | _ => 0 end%N.

  Definition pend_code (d : dstate) : N := match pendp d with Some p => N.of_nat p + 1 | None => 0 end%N.

  Definition snapshot (d : dstate) (status : N) :=
    (status, wk_code d, inflight_id d, N.of_nat (length (log (ms d))), dropped (ms d), pend_code d,
     N.of_nat (length (hist (ms d))), (if grun d then 1 else 0)%N, gres d).

  Fixpoint run (d : dstate) (ks : list cmd) (acc : list (N * N * N * N * N * N * N * N * N))
    : dstate * list (N * N * N * N * N * N * N * N * N) :=
    match ks with
    | [] => (d, rev acc)
    | k :: r => let '(d', st) := exec_cmd d k in run d' r (snapshot d' st :: acc)
    end.

  Definition ev_code (e : event) : N * N * N :=
    match e with
    | EvWrite l ok => (1, line_id l, if ok then 1 else 0)
    | EvFlush ok => (2, 0, if ok then 1 else 0)
    | EvDropWriter => (3, 0, 1)
    end%N.

  Definition out_code (o : outcome) : N := match o with Accepted => 1 | Dropped => 2 | Refused => 3 end%N.

  Definition guard_code (g : gstate) : N :=
    match g with GHeld => 0 | GSending => 1 | GWaitRdv => 2 | GJoin => 3 | GDone true => 4 | GDone false => 5 end%N.

  (** The whole observation of a case: the per-command snapshots, then the final call log, the outcome of
      every completed producer write (producer, line id, outcome), the drop counter, guard and worker. *)
  Definition observe (ks : list cmd) :=
    let '(d, snaps) := run (dinit c) ks [] in
    (snaps,
     map ev_code (log (ms d)),
     map (fun h : hentry => (N.of_nat (hpid h), line_id (hline h), out_code (snd h))) (hist (ms d)),
     (dropped (ms d), guard_code (guard (ms d)), wk_code d, N.of_nat (length (trace d)))).
End Drive.

(** helpers for the driver: a configuration from numbers *)
Definition mk_config (cap_ : N) (lossy_ : bool) (v : variant) (progs_ : list (list N)) : config :=
  {| cap := N.to_nat cap_; lossy := lossy_; var := v;
     progs := map (map (fun id => [id])) progs_ |}.

Definition faults_N (bad : list N) : nat -> bool := fun k => existsb (N.eqb (N.of_nat k)) bad.

Inductive kcmd := KP (p : N) | KC (p : N) | KW | KWp | KG | KT | KO | KH.
Definition cmd_of (k : kcmd) : cmd :=
  match k with
  | KP p => CP (N.to_nat p) | KC p => CC (N.to_nat p) | KW => CW | KWp => CWp | KG => CG | KT => CT | KO => CO | KH => CH
  end.

Definition observe_N (cap_ : N) (lossy_ : bool) (v : variant) (progs_ : list (list N)) (bad : list N) (ks : list kcmd) :=
  observe (mk_config cap_ lossy_ v progs_) (faults_N bad) (map cmd_of ks).
