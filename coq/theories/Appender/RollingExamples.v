(** C16 — concrete runs of the model: the refutation witness for finding F16 and the non-vacuity examples
    that accompany the implications of Properties/C16.v.  Everything here is a closed computation. *)
From Coq Require Import ZArith NArith List String Bool Lia.
From TV Require Import Appender.RollingModel Appender.RollingTimeProofs Appender.RollingNameProofs
  Appender.RollingDirProofs Appender.RollingFsProofs Appender.RollingConcProofs Appender.RollingSeqProofs
  Appender.RollingMainProofs.
Import ListNotations.
Local Open Scope Z_scope.
Local Open Scope string_scope.

Definition ex_cfg (re : bool) (m : option nat) : config :=
  {| rot := Minutely; prefix := Some "app"; suffix := Some "log"; max_files := m; recheck := re |}.

(** the schedule of finding F16: thread 0 (clock 70) wins boundary 60 and is preempted before its
    refresh; thread 1 (clock 130) wins boundary 120 and rotates; thread 0's refresh runs last; thread 2
    (clock 140) starts when both rotations are over *)
Definition f16_evs : list event :=
  [Start 0 70 [97%N]; Step 0; Step 0;
   Start 1 130 [98%N]; Step 1; Step 1; Step 1; Step 1; Step 1;
   Step 0; Step 0; Step 0;
   Start 2 140 [99%N]; Step 2; Step 2; Step 2].

Lemma f16_valid : Forall valid_ev f16_evs.
Proof. repeat constructor; simpl; unfold TBOUND; lia. Qed.

Lemma preok_nil : PreOK [] 0%N.
Proof. split; [split; [constructor|split; [constructor|intros f []]]|intros f []]. Qed.

(** without the re-check a write that overlaps no rotation and whose clock is ahead of all earlier ones
    lands in the file of an older period *)
Lemma overlap_refuted :
  exists c pre tick0 t0 evs,
    recheck c = false /\ 0 <= t0 < TBOUND /\ PreOK pre tick0 /\ Forall valid_ev evs /\
    exists l, In l (lands (run c (init c pre tick0 t0) evs)) /\ l_life l = 1%nat /\ l_clean l = true /\ l_nd l = true /\
              l_file l <> period_file c t0 (l_t l).
Proof.
  exists (ex_cfg false None), [], 0%N, 30, f16_evs.
  split; [reflexivity|split; [unfold TBOUND; lia|split; [apply preok_nil|split; [apply f16_valid|]]]].
  exists {| l_file := "app.1970-01-01-00-01.log"; l_t := 140; l_buf := [99%N]; l_tid := 2; l_clean := true; l_nd := true; l_life := 1%nat |}.
  split; [vm_compute; auto|split; [reflexivity|split; [reflexivity|split; [reflexivity|]]]]. vm_compute. discriminate.
Qed.

(** the same schedule with the re-check: the hypothesis of the landing theorem holds although rotations
    overlapped, and the late write is in its own period's file (non-vacuity of C16_lands_in_period_shared) *)
Example overlap_with_recheck :
  let s := run (ex_cfg true None) (init (ex_cfg true None) [] 0%N 30) f16_evs in
  overlapped s = true /\
  In {| l_file := "app.1970-01-01-00-02.log"; l_t := 140; l_buf := [99%N]; l_tid := 2; l_clean := true; l_nd := true; l_life := 1%nat |} (lands s) /\
  period_file (ex_cfg true None) 30 140 = "app.1970-01-01-00-02.log".
Proof. vm_compute. auto. Qed.

(** a schedule without overlap, no re-check: the other disjunct of the hypothesis *)
Example no_overlap_without_recheck :
  let evs := [Start 0 70 [97%N]; Step 0; Step 0; Step 0; Step 0; Step 0; Start 1 75 [98%N]; Step 1; Step 1; Step 1] in
  let s := run (ex_cfg false None) (init (ex_cfg false None) [] 0%N 30) evs in
  overlapped s = false /\ List.length (lands s) = 2%nat /\
  forallb (fun l => l_clean l && l_nd l && String.eqb (l_file l) "app.1970-01-01-00-01.log") (lands s) = true.
Proof. vm_compute. auto. Qed.

(** two threads reach the same boundary: one compare_exchange wins, the other fails (non-vacuity of the
    "a failed CAS has a winner" clause) *)
Example same_boundary_race :
  let evs := [Start 0 70 [97%N]; Start 1 75 [98%N]; Step 0; Step 1; Step 0; Step 1] in
  let s := run (ex_cfg false None) (init (ex_cfg false None) [] 0%N 30) evs in
  rots s = [(0%nat, 60, 70)] /\ fails s = [(1%nat, 60, 75)] /\ next s = 120.
Proof. vm_compute. auto. Qed.

(** standing still / stepping back: no rotation (non-vacuity of C16_no_rotation_backwards) *)
Example backwards_example :
  let s := run_x (ex_cfg false None) (init (ex_cfg false None) [] 0%N 30) [(70, [97%N]); (70, [98%N]); (65, [99%N]); (10, [100%N])] in
  map fname (dir s) = ["app.1970-01-01-00-00.log"; "app.1970-01-01-00-01.log"] /\ next s = 120 /\ maxstart s = 70 /\
  cur s = "app.1970-01-01-00-01.log".
Proof. vm_compute. auto. Qed.

(** pruning with max = 2 and a multi-period jump: exactly 2 files stay, the oldest went to the grave
    (non-vacuity of C16_prune) *)
Example prune_example :
  let c := ex_cfg false (Some 2%nat) in
  let s := run_x c (init c [] 0%N 30) [(70, [97%N]); (7300, [98%N]); (7360, [99%N])] in
  map fname (dir s) = ["app.1970-01-01-02-01.log"; "app.1970-01-01-02-02.log"] /\
  map fname (grave s) = ["app.1970-01-01-00-00.log"; "app.1970-01-01-00-01.log"] /\
  refreshed s = true /\ count_logs c (dir s) = 2%nat.
Proof. vm_compute. auto. Qed.

(** max = 1: only the newest file stays *)
Example prune_max1_example :
  let c := ex_cfg false (Some 1%nat) in
  let s := run_x c (init c [] 0%N 30) [(70, [97%N]); (130, [98%N])] in
  map fname (dir s) = ["app.1970-01-01-00-02.log"] /\ count_logs c (dir s) = 1%nat.
Proof. vm_compute. auto. Qed.

(** a non-decreasing clock across a leap day: every buffer in its period's file *)
Example leap_day_example :
  let c := {| rot := Daily; prefix := None; suffix := None; max_files := None; recheck := false |} in
  let s := run_x c (init c [] 0%N 951782399) [(951782399, [1%N]); (951782400, [2%N]); (951868800, [3%N])] in
  map (fun f => (fname f, landed f)) (dir s) =
    [("2000-02-28", [(951782399, [1%N])]); ("2000-02-29", [(951782400, [2%N])]); ("2000-03-01", [(951868800, [3%N])])].
Proof. vm_compute. auto. Qed.

(** names: constant inside a period, different across a boundary (non-vacuity of the two name theorems) *)
Example names_example :
  let c := ex_cfg true None in
  join_date c 59 = "app.1970-01-01-00-00.log" /\ join_date c 60 = "app.1970-01-01-00-01.log" /\
  join_date c 119 = join_date c 60 /\ round_date Minutely 119 = round_date Minutely 60 /\
  round_date Minutely 59 <> round_date Minutely 60.
Proof. vm_compute. repeat split; auto; discriminate. Qed.

(** the headline of the exclusive interface on a concrete history: the file of minute 1 holds exactly the two
    writes of minute 1, in order (non-vacuity of C16_lands_in_period) *)
Example contents_example :
  let c := ex_cfg true None in
  let ws := [(30, [1%N]); (70, [2%N]); (75, [3%N]); (130, [4%N])] in
  let s := run_x c (init c [] 0%N 30) ws in
  Sorted.StronglySorted Z.le (30 :: map fst ws) /\
  stored_in s "app.1970-01-01-00-01.log" = [(70, [2%N]); (75, [3%N])] /\
  belongs c 30 "app.1970-01-01-00-01.log" ws = [(70, [2%N]); (75, [3%N])].
Proof.
  cbv zeta. split; [|vm_compute; auto].
  repeat (constructor; try (simpl; lia)).
Qed.

(** backward steps: flags, and the write behind the clock stays in the current file (non-vacuity of
    C16_lands_in_period_any_clock) *)
Example any_clock_example :
  let c := ex_cfg true None in
  let ws := [(70, [2%N]); (10, [3%N]); (70, [4%N])] in
  let s := run_x c (init c [] 0%N 30) ws in
  annotate 30 ws = [(70, [2%N], true); (10, [3%N], false); (70, [4%N], true)] /\
  stored_in s "app.1970-01-01-00-01.log" = ws /\ stored_in s "app.1970-01-01-00-00.log" = [].
Proof. vm_compute. auto. Qed.

(** F16's schedule, per thread: what each thread started is what it landed (non-vacuity of C16_never_lost) *)
Example every_call_lands_once_example :
  let c := ex_cfg true None in
  let s := run c (init c [] 0%N 30) f16_evs in
  accepted c (init c [] 0%N 30) f16_evs 0%nat = [(70, [97%N])] /\ done_by s 0%nat = [(70, [97%N])] /\ inflight s 0%nat = [] /\
  accepted c (init c [] 0%N 30) f16_evs 2%nat = [(140, [99%N])] /\ done_by s 2%nat = [(140, [99%N])].
Proof. vm_compute. auto. Qed.

(** a thread about to attempt the compare_exchange on a boundary another thread has already won *)
Example cas_elects_example :
  let c := ex_cfg true None in
  let s := run c (init c [] 0%N 30) [Start 0 70 [97%N]; Start 1 75 [98%N]; Step 0; Step 1; Step 0] in
  (exists t b g, pcs s 1%nat = Some (PCas t b 60 g)) /\ rots (step c s (Step 1)) = [(0%nat, 60, 70)].
Proof. vm_compute. split; eauto. Qed.

(** a thread whose clock is behind a reading already acted upon (non-vacuity of the backwards step clause) *)
Example backwards_step_example :
  let c := ex_cfg true None in
  let s := run c (init c [] 0%N 30) [Start 0 70 [97%N]; Step 0; Step 0; Step 0; Step 0; Step 0; Start 1 65 [98%N]] in
  (exists b g, pcs s 1%nat = Some (PLoad 65 b g)) /\ In 70 (decided s) /\ rots (step c s (Step 1)) = rots s.
Proof. vm_compute. split; eauto. Qed.

(** * Restarts, a directory that starts above the limit, foreign files, the end of the time crate's range *)

(** two lifetimes in the same minute-1 period: the second appender opens the existing file for append, the file of
    minute 1 ends up with both lifetimes' buffers in order (non-vacuity of C16_lands_in_period_across_restarts) *)
Example restart_example :
  let c := ex_cfg true None in
  let s := run_lives (blank [] 0%N) [(c, 30, [(70, [1%N])]); (c, 75, [(80, [2%N]); (130, [3%N])])] in
  stored_in s "app.1970-01-01-00-01.log" = [(70, [1%N]); (80, [2%N])] /\
  stored_in s "app.1970-01-01-00-02.log" = [(130, [3%N])] /\
  map fname (dir s) = ["app.1970-01-01-00-00.log"; "app.1970-01-01-00-01.log"; "app.1970-01-01-00-02.log"] /\
  map l_life (lands s) = [2%nat; 2%nat; 1%nat] /\ life s = 2%nat.
Proof. vm_compute. auto. Qed.

Definition ex_pre : list file :=
  [{| fname := "app.1970-01-01-00-00.log"; created := 0%N; base := [9%N]; landed := [] |};
   {| fname := "notes.txt"; created := 1%N; base := [8%N]; landed := [] |};
   {| fname := "app.1970-01-01-00-01.log"; created := 2%N; base := [7%N]; landed := [] |};
   {| fname := "app.1970-01-01-00-02.log"; created := 3%N; base := [6%N]; landed := [] |};
   {| fname := "app.1970-01-01-00-03.log"; created := 4%N; base := [5%N]; landed := [] |}].

Lemma ex_pre_ok : PreOK ex_pre 5%N.
Proof.
  split; [split; [|split]|].
  - repeat constructor; simpl; intuition discriminate.
  - repeat constructor; simpl; intuition discriminate.
  - intros f Hf. simpl in Hf. repeat (destruct Hf as [<-|Hf]; [simpl; lia|]). destruct Hf.
  - intros f Hf. simpl in Hf. repeat (destruct Hf as [<-|Hf]; [reflexivity|]). destruct Hf.
Qed.

(** an appender with limit 2 restarted (in minute 5) over 4 of its own older files and a foreign one: nothing is
    pruned at construction (5 log files), the first rotation removes exactly 5 - (2-1) = 4 - the oldest - and leaves
    2; the foreign file is untouched (non-vacuity of C16_prune for a lifetime that starts above the limit,
    C16_prune_exact, C16_prune_only_own_files) *)
Example above_limit_example :
  let c := ex_cfg true (Some 2%nat) in
  let s0 := init c ex_pre 5%N 300 in
  let s1 := run_x c s0 [(310, [1%N])] in
  let s2 := run_x c s0 [(310, [1%N]); (360, [2%N])] in
  count_logs c (dir s0) = 5%nat /\ count_logs c (dir s1) = 5%nat /\ refreshed s1 = false /\
  refreshed s2 = true /\ count_logs c (dir s2) = 2%nat /\
  map fname (dir s2) = ["notes.txt"; "app.1970-01-01-00-05.log"; "app.1970-01-01-00-06.log"] /\
  map fname (grave s2) = ["app.1970-01-01-00-00.log"; "app.1970-01-01-00-01.log"; "app.1970-01-01-00-02.log"; "app.1970-01-01-00-03.log"] /\
  In {| fname := "notes.txt"; created := 1%N; base := [8%N]; landed := [] |} (dir s2).
Proof. vm_compute. intuition. Qed.

(** the construction time's file already exists: opened for append, its bytes stay in front *)
Example restart_appends_example :
  let c := ex_cfg true None in
  let s := run_x c (init c ex_pre 5%N 130) [(140, [1%N])] in
  map (fun f => (fname f, content f)) (filter (has_name "app.1970-01-01-00-02.log") (dir s)) =
    [("app.1970-01-01-00-02.log", [6%N; 1%N])] /\ List.length (dir s) = 5%nat.
Proof. vm_compute. auto. Qed.

(** the end of the [time] crate's range: next_date is undefined from DT_MAX + 1 - period on; the constructor and a
    rotation-due write panic there and touch nothing *)
Example out_of_range_example :
  next_ok Minutely (DT_MAX - 60) = true /\ next_ok Minutely (DT_MAX - 59) = false /\
  next_ok Daily (DT_MAX - 86400) = true /\ next_ok Daily (DT_MAX - 86399) = false /\ next_ok Never (DT_MAX + 1000) = true /\
  let c := ex_cfg true None in
  let s := init c [] 0%N (DT_MAX - 100) in
  let s' := write_x c s (DT_MAX - 30) [1%N] in
  panics s = 0%nat /\ panics s' = 1%nat /\ dir s' = dir s /\ next s' = next s /\ lands s' = [] /\
  panics (init c [] 0%N (DT_MAX - 30)) = 1%nat /\ dir (init c [] 0%N (DT_MAX - 30)) = [].
Proof. vm_compute. intuition. Qed.
