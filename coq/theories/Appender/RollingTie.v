(** C16 — the parameters translators/rolling.py reads off rolling.rs on every run (TVGen.Gen_rolling)
    are the ones Appender/RollingModel.v hard-wires.  Everything is closed, so the proofs are
    computations; a change of the source that alters one of them breaks this file. *)
From Coq Require Import ZArith List String Bool.
From TVGen Require Import Gen_rolling.
From TV Require Import Appender.RollingModel.
Import ListNotations.
Local Open Scope string_scope.
Local Open Scope Z_scope.
Local Open Scope bool_scope.

Lemma tie_recognised : gen_unrecognised = [].
Proof. reflexivity. Qed.

(** Duration added by [next_date] per rotation *)
Lemma tie_dur : gen_dur = [("MINUTELY", dur Minutely); ("HOURLY", dur Hourly); ("DAILY", dur Daily)].
Proof. reflexivity. Qed.

(** [Time::from_hms] arguments of [round_date], interpreted *)
Definition hms_arg (s : string) (t : Z) : option Z :=
  if String.eqb s "hour" then Some (hour_of t)
  else if String.eqb s "minute" then Some (minute_of t)
  else if String.eqb s "0" then Some 0 else None.
Definition gen_round (name : string) (t : Z) : option Z :=
  match find (fun e => String.eqb (fst e) name) gen_hms with
  | Some (_, (a, b, c)) =>
      match hms_arg a t, hms_arg b t, hms_arg c t with
      | Some h, Some m, Some s => Some (replace_time t h m s)
      | _, _, _ => None
      end
  | None => None
  end.
Lemma tie_round : forall t,
  gen_round "MINUTELY" t = Some (round_date Minutely t) /\
  gen_round "HOURLY" t = Some (round_date Hourly t) /\
  gen_round "DAILY" t = Some (round_date Daily t).
Proof. intro t. repeat split; reflexivity. Qed.

(** date formats and the seven [join_date] arms, in the notation of the translator *)
Lemma tie_format : gen_format =
  [("MINUTELY", "[year]-[month]-[day]-[hour]-[minute]"); ("HOURLY", "[year]-[month]-[day]-[hour]");
   ("DAILY", "[year]-[month]-[day]"); ("NEVER", "[year]-[month]-[day]")].
Proof. reflexivity. Qed.

Definition subst1 (pat : string) (p s d : string) : string :=
  (* replaces <filename>, <suffix>, <date> *)
  let fix go (fuel : nat) (x : string) : string :=
    match fuel with
    | O => x
    | S k =>
        match x with
        | EmptyString => EmptyString
        | String a r =>
            if String.prefix "<filename>" x then (p ++ go k (substring 10 (String.length x - 10) x))
            else if String.prefix "<suffix>" x then (s ++ go k (substring 8 (String.length x - 8) x))
            else if String.prefix "<date>" x then (d ++ go k (substring 6 (String.length x - 6) x))
            else String a (go k r)
        end
    end in go (S (String.length pat)) pat.
Definition gen_join_eval (k : rotation) (p s : option string) (d : string) : option string :=
  let key := ((match k with Never => "NEVER" | _ => "_" end) ++ "," ++ (match p with Some _ => "P" | None => "-" end) ++ "," ++
              (match s with Some _ => "S" | None => "-" end)) in
  (* first matching arm, as in a Rust match: NEVER arms come first, `_` arms match every rotation *)
  let arm := find (fun e => String.eqb (fst e) key ||
                            String.eqb (fst e) ("_," ++ (match p with Some _ => "P" | None => "-" end) ++ "," ++
                                                (match s with Some _ => "S" | None => "-" end))) gen_join in
  match arm with
  | Some (_, pat) => Some (subst1 pat (match p with Some x => x | None => "" end) (match s with Some x => x | None => "" end) d)
  | None => None
  end.
Definition join_shape (k : rotation) (p s : option string) (d : string) : string :=
  match k, p, s with
  | Never, Some p, None => p
  | Never, Some p, Some s => p ++ "." ++ s
  | Never, None, Some s => s
  | _, Some p, Some s => p ++ "." ++ d ++ "." ++ s
  | _, Some p, None => p ++ "." ++ d
  | _, None, Some s => d ++ "." ++ s
  | _, None, None => d
  end.
Lemma join_date_shape : forall c t, join_date c t = join_shape (rot c) (prefix c) (suffix c) (date_string (rot c) t).
Proof. intros [k p s m r] t; unfold join_date, join_shape; simpl; destruct k, p, s; reflexivity. Qed.
(** every rotation kind x presence of prefix / suffix, with marker strings *)
Lemma tie_join_arms :
  forallb (fun k => forallb (fun p => forallb (fun s =>
     match gen_join_eval k p s "<D>" with Some r => String.eqb r (join_shape k p s "<D>") | None => false end)
     [None; Some "suf"]) [None; Some "pre"]) [Minutely; Hourly; Daily; Never] = true.
Proof. vm_compute. reflexivity. Qed.

(** should_rollover / advance_date / prune_old_logs / refresh_writer *)
Lemma tie_control :
  gen_rollover_cmp = ">=" /\ gen_zero_is_never = true /\ gen_advance = "compare_exchange" /\
  gen_prune_guard = "<" /\ gen_prune_keep = 1 /\ gen_prune_sort = "created" /\
  gen_prune_filters = ["is_file"; "prefix"; "suffix"; "date"; "remove"] /\
  gen_refresh_order = ["join_date"; "prune"; "create"; "swap"].
Proof. repeat split; reflexivity. Qed.

(** make_writer as it is in the source re-checks next_date under the write lock (is_latest_rotation) before
    refresh_writer: the variant of the model for which C16_lands_in_period_shared holds on every schedule.
    The driver passes this flag to the model on every run; a source without the re-check breaks this lemma. *)
Lemma tie_recheck : gen_recheck = true.
Proof. reflexivity. Qed.

(** make_writer passes the clock reading it took at its start (`now`: the one should_rollover, advance_date and
    is_latest_rotation saw) to refresh_writer - not a second `self.now()`: the variant [step] models and for which
    RollingClockProofs.hops_land_in_period_of_first_reading holds.  The driver passes this flag to the model (hop HW2)
    on every run; a source that reads the clock again for the file name breaks this lemma. *)
Lemma tie_first_reading : gen_refresh_uses_first_reading = true.
Proof. reflexivity. Qed.

(** the expressions [prune] is built from, read off prune_old_logs: which test each configured affix goes through
    ([matches] = String.prefix / ends_with / is_date_name), the stable sort by [created], the count taken
    ([List.length ms - (m - 1)] oldest) *)
Lemma tie_prune_expressions :
  gen_prune_pred = [("prefix", "not starts_with"); ("suffix", "not ends_with"); ("neither", "Date::parse is_err")] /\
  gen_prune_sort_expr = "sort_by_key by *key of metadata.created()" /\
  gen_prune_count_expr = "take files.len() - (max_files - 1)".
Proof. repeat split; reflexivity. Qed.

(** advance_date: a compare_exchange from the loaded value to [next_date(now) as usize or 0] ([set_next s (next_usize (rot c) t)]
    guarded by [next s =? n] in the model; the computation of next_date(now) comes first and may panic: [next_ok]) *)
Lemma tie_advance_stored :
  gen_advance_stored = "compare_exchange(current -> next_date) where next_date = self.rotation.next_date(&now).map(|date| date.unix_timestamp() as usize).unwrap_or(0)".
Proof. reflexivity. Qed.

(** Builder: the defaults (a [config] with Never / None / None / None) and the setters (an empty prefix or suffix
    is no prefix / suffix - the driver builds [config]s the same way; max_log_files n = Some n) *)
Lemma tie_builder :
  gen_builder_defaults = [("rotation", "NEVER"); ("prefix", "None"); ("suffix", "None"); ("max_files", "None")] /\
  gen_builder_setters = [("filename_prefix", "empty is None"); ("filename_suffix", "empty is None"); ("max_log_files", "Some n")].
Proof. split; reflexivity. Qed.
