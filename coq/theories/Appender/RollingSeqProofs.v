(** C16 — the exclusive interface (io::Write for RollingFileAppender, &mut self): induction over the
    list of writes (clock reading, buffer). *)
From Coq Require Import ZArith NArith List String Bool Lia Sorted.
From TV Require Import Appender.RollingModel Appender.RollingTimeProofs Appender.RollingNameProofs
  Appender.RollingDirProofs Appender.RollingFsProofs Appender.RollingConcProofs.
Import ListNotations.
Local Open Scope Z_scope.
Local Notation length := List.length.

Definition valid_w (w : Z * chunk) : Prop := 0 <= fst w < TBOUND.

Section Exclusive.
  Variable c : config.
  Variable pre : list file.
  Variable tick0 : N.
  Variable t0 : Z.
  Hypothesis Ht0 : 0 <= t0 < TBOUND.
  Hypothesis Hpre : PreOK pre tick0.
  Let k := rot c.
  Let s0 := init c pre tick0 t0.
  Let pfile (t : Z) : string := period_file c t0 t.

  Definition XInv (s : state) : Prop :=
    FSInv c s /\
    t0 <= maxstart s < TBOUND /\
    (k = Never -> next s = 0 /\ cur s = join_date c t0) /\
    (k <> Never -> exists tl, 0 <= tl <= maxstart s /\ next s = next_usize k tl /\ cur s = join_date c tl /\ maxstart s < next s) /\
    (forall l, In l (lands s) -> l_nd l = true -> l_file l = pfile (l_t l)).

  Lemma pfile_never t : k = Never -> pfile t = join_date c t0.
  Proof. intros H. unfold pfile, period_file. fold k. rewrite H. reflexivity. Qed.
  Lemma pfile_rot t : k <> Never -> pfile t = join_date c t.
  Proof. intros H. unfold pfile, period_file. fold k. destruct k; congruence. Qed.

  Lemma XInv_init : XInv s0.
  Proof.
    unfold XInv. split; [apply FSInv_init; auto|].
    unfold s0, init. destruct (create _ _ _). simpl. split; [lia|split; [|split]].
    - intros Hk. unfold k in Hk. rewrite Hk. auto.
    - intros Hk. exists t0. pose proof (next_usize_gt k t0 Hk Ht0). repeat split; auto; lia.
    - tauto.
  Qed.

  Lemma FSInv_set_next s n : FSInv c s -> FSInv c (set_next s n).
  Proof. apply FSInv_ext; reflexivity. Qed.

  Lemma write_x_fs s t b : FSInv c s -> FSInv c (write_x c s t b).
  Proof.
    intros F. unfold write_x.
    set (s1 := match should_rollover s t with Some _ => refresh c (set_next s (next_usize (rot c) t)) t | None => s end).
    assert (F1 : FSInv c s1) by (unfold s1; destruct (should_rollover s t); [apply FSInv_refresh, FSInv_set_next|]; auto).
    eapply FSInv_ext; [..|apply (FSInv_append c s1 (cur s1) t b 0%nat true (maxstart s <=? t) F1)]; try reflexivity. apply F1.
  Qed.

  Lemma XInv_write s t b : XInv s -> 0 <= t < TBOUND -> XInv (write_x c s t b).
  Proof.
    intros [F [M [XN [XR XL]]]] Ht. split; [apply write_x_fs; auto|].
    unfold write_x. destruct (should_rollover s t) as [n|] eqn:Hsr.
    - (* rotation *)
      destruct (should_rollover_some s t n Ht Hsr) as [E1 [E2 E3]].
      assert (Hk : k <> Never) by (intro Hk; destruct (XN Hk); congruence).
      destruct (XR Hk) as [tl [H1 [H2 [H3 H4]]]].
      pose proof (next_usize_gt k t Hk Ht) as Hgt.
      destruct (refresh_fields c (set_next s (next_usize (rot c) t)) t) as [R1 [R2 [_ [_ [_ [_ [_ [R8 [_ [_ [_ R12]]]]]]]]]]].
      simpl. rewrite ?R1, ?R2, ?R8, ?R12. simpl.
      split; [lia|split; [intros; congruence|split]].
      + intros _. exists t. fold k. repeat split; auto; lia.
      + intros l [<-|Hl]; simpl; [intros _; rewrite pfile_rot; auto|apply XL; auto].
    - (* no rotation *)
      simpl. split; [lia|split; [exact XN|split]].
      + intros Hk. destruct (XR Hk) as [tl [H1 [H2 [H3 H4]]]]. exists tl.
        destruct (should_rollover_none s t Ht Hsr) as [E|E]; [pose proof (next_usize_gt k tl Hk); lia|].
        repeat split; auto; lia.
      + intros l [<-|Hl]; simpl; [|apply XL; auto]. intros Hnd. apply Z.leb_le in Hnd.
        destruct (rotation_eq_dec k Never) as [Hk|Hk].
        * rewrite pfile_never by auto. apply XN; auto.
        * destruct (XR Hk) as [tl [H1 [H2 [H3 H4]]]]. rewrite H3, <- (pfile_rot tl Hk). symmetry.
          apply period_file_same; try lia. intros _. fold k. rewrite <- H2.
          destruct (should_rollover_none s t Ht Hsr) as [E|E]; [pose proof (next_usize_gt k tl Hk); lia|auto].
  Qed.

  Lemma XInv_run : forall ws s, XInv s -> Forall valid_w ws -> XInv (run_x c s ws).
  Proof.
    induction ws as [|[t b] ws IH]; simpl; intros s X V; auto. inversion V; subst. apply IH; auto.
    apply XInv_write; auto.
  Qed.

  (** every write whose clock reading is not behind an earlier one lands in its period's file *)
  Theorem x_lands_in_period : forall ws, Forall valid_w ws ->
    forall l, In l (lands (run_x c s0 ws)) -> l_nd l = true -> l_file l = pfile (l_t l).
  Proof. intros ws V. apply (XInv_run ws s0 XInv_init V). Qed.

  (** the log of landings is exactly the list of writes, in order; every flag of a write under a
      non-decreasing clock is set *)
  Lemma run_x_lands : forall ws s,
    map (fun l => (l_t l, l_buf l)) (rev (lands (run_x c s ws))) = map (fun l => (l_t l, l_buf l)) (rev (lands s)) ++ ws.
  Proof.
    induction ws as [|[t b] ws IH]; simpl; intros s; [rewrite app_nil_r; reflexivity|].
    rewrite IH. unfold write_x. simpl. rewrite map_app. simpl. rewrite <- app_assoc. simpl.
    destruct (should_rollover s t); [|reflexivity].
    destruct (refresh_fields c (set_next s (next_usize (rot c) t)) t) as [_ [_ [_ [_ [_ [_ [_ [R8 _]]]]]]]]. rewrite R8. reflexivity.
  Qed.

  Lemma run_x_nd : forall ws s, (forall u, In u (map fst ws) -> maxstart s <= u) -> StronglySorted Z.le (map fst ws) ->
    (forall l, In l (lands s) -> l_nd l = true) -> forall l, In l (lands (run_x c s ws)) -> l_nd l = true.
  Proof.
    induction ws as [|[t b] ws IH]; simpl; intros s Hm Hs Hl; auto. inversion Hs; subst. rewrite Forall_forall in H2.
    apply IH; auto.
    - intros u Hu. unfold write_x. simpl. specialize (Hm u (or_intror Hu)). specialize (H2 u Hu). lia.
    - intros l. unfold write_x. simpl. intros [<-|Hin]; simpl.
      + apply Z.leb_le. apply Hm; auto.
      + apply Hl. destruct (should_rollover s t); auto.
        destruct (refresh_fields c (set_next s (next_usize (rot c) t)) t) as [_ [_ [_ [_ [_ [_ [_ [R8 _]]]]]]]]. rewrite R8 in Hin. exact Hin.
  Qed.

  (** the property's own wording: under a non-decreasing clock EVERY buffer is in its period's file *)
  Theorem x_lands_nondecreasing : forall ws, Forall valid_w ws -> StronglySorted Z.le (t0 :: map fst ws) ->
    map (fun l => (l_t l, l_buf l)) (rev (lands (run_x c s0 ws))) = ws /\
    forall l, In l (lands (run_x c s0 ws)) -> l_file l = pfile (l_t l).
  Proof.
    intros ws V S. split.
    - rewrite run_x_lands. unfold s0, init. destruct (create _ _ _). reflexivity.
    - intros l Hl. apply (x_lands_in_period ws V l Hl). inversion S; subst. rewrite Forall_forall in H2.
      apply (run_x_nd ws s0); auto.
      + intros u Hu. unfold s0, init. destruct (create _ _ _). simpl. auto.
      + unfold s0, init. destruct (create _ _ _). simpl. tauto.
  Qed.

  (** nothing lost, exactly once, in order *)
  Theorem x_never_lost : forall ws, Forall valid_w ws ->
    Stored (run_x c s0 ws) /\ in_dir (cur (run_x c s0 ws)) (dir (run_x c s0 ws)) = true /\
    map (fun l => (l_t l, l_buf l)) (rev (lands (run_x c s0 ws))) = ws.
  Proof.
    intros ws V. destruct (XInv_run ws s0 XInv_init V) as [[HD [HC [HS HL]]] _]. repeat split; auto.
    rewrite run_x_lands. unfold s0, init. destruct (create _ _ _). reflexivity.
  Qed.

  (** time standing still or stepping back never rotates *)
  Theorem x_no_rotation_backwards : forall ws t b, Forall valid_w ws -> 0 <= t < TBOUND ->
    t <= maxstart (run_x c s0 ws) ->
    should_rollover (run_x c s0 ws) t = None /\
    cur (write_x c (run_x c s0 ws) t b) = cur (run_x c s0 ws) /\
    next (write_x c (run_x c s0 ws) t b) = next (run_x c s0 ws) /\
    map fname (dir (write_x c (run_x c s0 ws) t b)) = map fname (dir (run_x c s0 ws)).
  Proof.
    intros ws t b V Ht Hle. set (s := run_x c s0 ws) in *.
    destruct (XInv_run ws s0 XInv_init V) as [_ [M [XN [XR _]]]]. fold s in M, XN, XR.
    assert (E : should_rollover s t = None).
    { unfold should_rollover. rewrite to_usize_small by assumption.
      destruct (rotation_eq_dec k Never) as [Hk|Hk]; [destruct (XN Hk) as [E _]; rewrite E; reflexivity|].
      destruct (XR Hk) as [tl [H1 [H2 [H3 H4]]]]. destruct (next s =? 0); auto.
      destruct (next s <=? t) eqn:E; auto. apply Z.leb_le in E. lia. }
    split; auto. unfold write_x. rewrite E. simpl. repeat split; auto. apply append_names.
  Qed.

  (** and every earlier clock reading is below next_date, so "backwards" means behind ANY earlier write *)
  Theorem x_maxstart_is_max : forall ws, Forall valid_w ws ->
    forall u, In u (t0 :: map fst ws) -> u <= maxstart (run_x c s0 ws).
  Proof.
    intros ws V. assert (G : forall ws s, (forall u, In u (map fst ws) \/ u <= maxstart s -> u <= maxstart (run_x c s ws))).
    { induction ws0 as [|[t b] ws0 IH]; simpl; intros s u [Hu|Hu]; try tauto.
      - destruct Hu as [<-|Hu]; [apply IH; right; unfold write_x; simpl; lia|apply IH; auto].
      - apply IH. right. unfold write_x. simpl. lia. }
    intros u [<-|Hu]; apply G; auto. right. unfold s0, init. destruct (create _ _ _). simpl. lia.
  Qed.

  (** with a file limit, from the first rotation on *)
  Theorem x_prune_limit : forall ws, Forall valid_w ws -> Limit c (run_x c s0 ws).
  Proof. intros ws V. apply (XInv_run ws s0 XInv_init V). Qed.
End Exclusive.
