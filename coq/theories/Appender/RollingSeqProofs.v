(** C16 — the exclusive interface (io::Write for RollingFileAppender, &mut self): induction over the
    list of writes (clock reading, buffer). *)
From Coq Require Import ZArith NArith List String Bool Lia Sorted.
From TV Require Import Appender.RollingModel Appender.RollingTimeProofs Appender.RollingNameProofs
  Appender.RollingDirProofs Appender.RollingFsProofs Appender.RollingConcProofs.
Import ListNotations.
Local Open Scope Z_scope.
Local Notation length := List.length.

Definition valid_w (w : Z * chunk) : Prop := 0 <= fst w < TBOUND.

(** [write_x] for a clock reading at which next_date is defined (no panic branch) *)
Definition write_x_ok (c : config) (s : state) (t : Z) (b : chunk) : state :=
  let s1 :=
    match should_rollover s t with
    | Some _ => refresh c (set_next s (next_usize (rot c) t)) t
    | None => s
    end in
  with_maxstart (do_append s1 (cur s1) t b 0%nat true (maxstart s <=? t)) (Z.max (maxstart s) t).

Lemma write_x_in_range c s t b : t < TBOUND -> write_x c s t b = write_x_ok c s t b.
Proof.
  intros Ht. unfold write_x, write_x_ok. rewrite (next_ok_small (rot c) t Ht). destruct (should_rollover s t); reflexivity.
Qed.

  (** the landings of a run: the new ones are exactly the writes, in order, each tagged with this lifetime and
      flagged "not behind an earlier reading"; the older ones are untouched underneath *)
  Fixpoint annotate (m : Z) (ws : list (Z * chunk)) : list (Z * chunk * bool) :=
    match ws with
    | [] => []
    | w :: r => (fst w, snd w, m <=? fst w) :: annotate (Z.max m (fst w)) r
    end.

  Lemma annotate_sorted : forall ws m, (forall u, In u (map fst ws) -> m <= u) -> StronglySorted Z.le (map fst ws) ->
    forall x, In x (annotate m ws) -> snd x = true.
  Proof.
    induction ws as [|[t b] ws IH]; simpl; intros m Hm Hs x Hx; [tauto|]. inversion Hs; subst. rewrite Forall_forall in H2.
    destruct Hx as [<-|Hx]; simpl; [apply Z.leb_le; auto|].
    apply (IH (Z.max m t)); auto. intros u Hu. specialize (Hm u (or_intror Hu)). specialize (H2 u Hu). lia.
  Qed.

Section Exclusive.
  Variable c : config.
  Variable sp : state.            (* what the previous lifetimes (or nobody: [blank pre tick0]) left behind *)
  Variable t0 : Z.
  Hypothesis Ht0 : 0 <= t0 < TBOUND.
  Hypothesis Hsp : GoodFS sp.
  Let k := rot c.
  Let s0 := restart c sp t0.
  Ltac base := unfold s0, restart; rewrite (next_ok_small (rot c) t0 (proj2 Ht0)); destruct (create _ _ _).
  Let pfile (t : Z) : string := period_file c t0 t.

  Definition XInv (s : state) : Prop :=
    FSInv c s /\
    t0 <= maxstart s < TBOUND /\
    (k = Never -> next s = 0 /\ cur s = join_date c t0) /\
    (k <> Never -> exists tl, 0 <= tl <= maxstart s /\ next s = next_usize k tl /\ cur s = join_date c tl /\ maxstart s < next s) /\
    (forall l, In l (lands s) -> l_life l = life s -> l_nd l = true -> l_file l = pfile (l_t l)) /\
    life s = S (life sp) /\
    (forall l, In l (lands s) -> (l_life l <= life s)%nat).

  Lemma pfile_never t : k = Never -> pfile t = join_date c t0.
  Proof. intros H. unfold pfile, period_file. fold k. rewrite H. reflexivity. Qed.
  Lemma pfile_rot t : k <> Never -> pfile t = join_date c t.
  Proof. intros H. unfold pfile, period_file. fold k. destruct k; congruence. Qed.

  Lemma XInv_init : XInv s0.
  Proof.
    unfold XInv. split; [apply FSInv_restart; [apply next_ok_small; apply Ht0|apply Hsp|apply Hsp]|].
    base. simpl. split; [lia|split; [|split; [|split; [|split]]]].
    - intros Hk. unfold k in Hk. rewrite Hk. auto.
    - intros Hk. exists t0. pose proof (next_usize_gt k t0 Hk Ht0). repeat split; auto; lia.
    - intros x Hx E. destruct Hsp as [_ [_ HE]]. specialize (HE x Hx). lia.
    - reflexivity.
    - intros x Hx. destruct Hsp as [_ [_ HE]]. specialize (HE x Hx). lia.
  Qed.

  Lemma FSInv_set_next s n : FSInv c s -> FSInv c (set_next s n).
  Proof. apply FSInv_ext; reflexivity. Qed.

  Lemma write_x_fs s t b : t < TBOUND -> FSInv c s -> FSInv c (write_x c s t b).
  Proof.
    intros Ht F. rewrite write_x_in_range by assumption. unfold write_x_ok.
    set (s1 := match should_rollover s t with Some _ => refresh c (set_next s (next_usize (rot c) t)) t | None => s end).
    assert (F1 : FSInv c s1) by (unfold s1; destruct (should_rollover s t); [apply FSInv_refresh, FSInv_set_next|]; auto).
    eapply FSInv_ext; [..|apply (FSInv_append c s1 (cur s1) t b 0%nat true (maxstart s <=? t) F1)]; try reflexivity. apply F1.
  Qed.

  Lemma XInv_write s t b : XInv s -> 0 <= t < TBOUND -> XInv (write_x c s t b).
  Proof.
    intros [F [M [XN [XR [XL [XE XB]]]]]] Ht. split; [apply write_x_fs; auto; apply Ht|].
    rewrite write_x_in_range by apply Ht. unfold write_x_ok. destruct (should_rollover s t) as [n|] eqn:Hsr.
    - (* rotation *)
      destruct (should_rollover_some s t n Ht Hsr) as [E1 [E2 E3]].
      assert (Hk : k <> Never) by (intro Hk; destruct (XN Hk); congruence).
      destruct (XR Hk) as [tl [H1 [H2 [H3 H4]]]].
      pose proof (next_usize_gt k t Hk Ht) as Hgt.
      destruct (refresh_fields c (set_next s (next_usize (rot c) t)) t) as [R1 [R2 [_ [_ [_ [_ [_ [R8 [_ [_ [_ R12]]]]]]]]]]].
      destruct (refresh_life c (set_next s (next_usize (rot c) t)) t) as [RL _].
      simpl. rewrite ?R1, ?R2, ?R8, ?R12, ?RL. simpl.
      split; [lia|split; [intros; congruence|split; [|split; [|split]]]].
      + intros _. exists t. fold k. repeat split; auto; lia.
      + intros l [<-|Hl]; simpl; [intros _ _; rewrite pfile_rot; auto|apply XL; auto].
      + exact XE.
      + intros l [<-|Hl]; [simpl; lia|apply XB; exact Hl].
    - (* no rotation *)
      simpl. split; [lia|split; [exact XN|split; [|split; [|split]]]].
      + intros Hk. destruct (XR Hk) as [tl [H1 [H2 [H3 H4]]]]. exists tl.
        destruct (should_rollover_none s t Ht Hsr) as [E|E]; [pose proof (next_usize_gt k tl Hk); lia|].
        repeat split; auto; lia.
      + intros l [<-|Hl]; simpl; [|apply XL; auto]. intros _ Hnd. apply Z.leb_le in Hnd.
        destruct (rotation_eq_dec k Never) as [Hk|Hk].
        * rewrite pfile_never by auto. apply XN; auto.
        * destruct (XR Hk) as [tl [H1 [H2 [H3 H4]]]]. rewrite H3, <- (pfile_rot tl Hk). symmetry.
          apply period_file_same; try lia. intros _. fold k. rewrite <- H2.
          destruct (should_rollover_none s t Ht Hsr) as [E|E]; [pose proof (next_usize_gt k tl Hk); lia|auto].
      + exact XE.
      + intros l [<-|Hl]; [simpl; lia|apply XB; exact Hl].
  Qed.

  Lemma XInv_run : forall ws s, XInv s -> Forall valid_w ws -> XInv (run_x c s ws).
  Proof.
    induction ws as [|[t b] ws IH]; simpl; intros s X V; auto. inversion V; subst. apply IH; auto.
    apply XInv_write; auto.
  Qed.

  (** every write of this lifetime whose clock reading is not behind an earlier one lands in its period's file *)
  Theorem x_lands_in_period : forall ws, Forall valid_w ws ->
    forall l, In l (lands (run_x c s0 ws)) -> l_life l = S (life sp) -> l_nd l = true -> l_file l = pfile (l_t l).
  Proof.
    intros ws V l Hl E. destruct (XInv_run ws s0 XInv_init V) as [_ [_ [_ [_ [XL [XE _]]]]]]. apply XL; auto. congruence.
  Qed.

  Lemma write_x_lands s t b : t < TBOUND ->
    lands (write_x c s t b) =
    {| l_file := cur (write_x c s t b); l_t := t; l_buf := b; l_tid := 0%nat; l_clean := true; l_nd := maxstart s <=? t; l_life := life s |} :: lands s /\
    maxstart (write_x c s t b) = Z.max (maxstart s) t /\ life (write_x c s t b) = life s.
  Proof.
    intros Ht. rewrite write_x_in_range by assumption. unfold write_x_ok. simpl.
    destruct (should_rollover s t); [|auto].
    destruct (refresh_fields c (set_next s (next_usize (rot c) t)) t) as [_ [_ [_ [_ [_ [_ [_ [R8 _]]]]]]]].
    destruct (refresh_life c (set_next s (next_usize (rot c) t)) t) as [RL _]. rewrite R8, RL. simpl. auto.
  Qed.

  Lemma run_x_new : forall ws s, Forall valid_w ws ->
    exists new, lands (run_x c s ws) = new ++ lands s /\
                map (fun l => (l_t l, l_buf l, l_nd l)) (rev new) = annotate (maxstart s) ws /\
                (forall l, In l new -> l_life l = life s) /\ life (run_x c s ws) = life s.
  Proof.
    induction ws as [|[t b] ws IH]; simpl; intros s V.
    - exists []. simpl. repeat split; auto. intros l [].
    - inversion V; subst. destruct H1 as [_ Ht]. simpl in Ht.
      destruct (write_x_lands s t b Ht) as [EL [EM EF]].
      destruct (IH (write_x c s t b) H2) as [new [E1 [E2 [E3 E4]]]].
      exists (new ++ [{| l_file := cur (write_x c s t b); l_t := t; l_buf := b; l_tid := 0%nat; l_clean := true;
                         l_nd := maxstart s <=? t; l_life := life s |}]).
      split; [rewrite E1, EL, <- app_assoc; reflexivity|]. split; [|split].
      + rewrite rev_app_distr. simpl. rewrite E2, EM. reflexivity.
      + intros l Hl. apply in_app_or in Hl. destruct Hl as [Hl|[<-|[]]]; [rewrite (E3 l Hl); exact EF|reflexivity].
      + congruence.
  Qed.

  (** nothing lost, exactly once, in order; what the lifetime leaves behind is fit for the next appender *)
  Theorem x_never_lost : forall ws, Forall valid_w ws ->
    Stored (run_x c s0 ws) /\ in_dir (cur (run_x c s0 ws)) (dir (run_x c s0 ws)) = true /\
    (exists new, lands (run_x c s0 ws) = new ++ lands sp /\
                 map (fun l => (l_t l, l_buf l, l_nd l)) (rev new) = annotate t0 ws /\
                 (forall l, In l new -> l_life l = S (life sp))) /\
    GoodFS (run_x c s0 ws).
  Proof.
    intros ws V. destruct (XInv_run ws s0 XInv_init V) as [[HD [HC [HS HL]]] [_ [_ [_ [_ [XE XB]]]]]].
    split; [exact HS|split; [exact HC|split; [|split; [exact HD|split; [exact HS|exact XB]]]]].
    destruct (run_x_new ws s0 V) as [new [E1 [E2 [E3 E4]]]]. exists new.
    assert (L0 : lands s0 = lands sp /\ maxstart s0 = t0 /\ life s0 = S (life sp)) by (base; simpl; auto).
    destruct L0 as [L1 [L2 L3]]. rewrite L1 in E1. rewrite L2 in E2. split; [exact E1|split; [exact E2|]].
    intros l Hl. rewrite (E3 l Hl). exact L3.
  Qed.

  (** time standing still or stepping back never rotates *)
  Theorem x_no_rotation_backwards : forall ws t b, Forall valid_w ws -> 0 <= t < TBOUND ->
    t <= maxstart (run_x c s0 ws) ->
    should_rollover (run_x c s0 ws) t = None /\
    cur (write_x c (run_x c s0 ws) t b) = cur (run_x c s0 ws) /\
    next (write_x c (run_x c s0 ws) t b) = next (run_x c s0 ws) /\
    map fname (dir (write_x c (run_x c s0 ws) t b)) = map fname (dir (run_x c s0 ws)).
  Proof.
    intros ws t b V Ht Hle. set (s := run_x c s0 ws) in *.
    destruct (XInv_run ws s0 XInv_init V) as [_ [M [XN [XR _]]]]. fold s in M, XN, XR.
    assert (E : should_rollover s t = None).
    { unfold should_rollover. rewrite to_usize_small by assumption.
      destruct (rotation_eq_dec k Never) as [Hk|Hk]; [destruct (XN Hk) as [E _]; rewrite E; reflexivity|].
      destruct (XR Hk) as [tl [H1 [H2 [H3 H4]]]]. destruct (next s =? 0); auto.
      destruct (next s <=? t) eqn:E; auto. apply Z.leb_le in E. lia. }
    split; auto. unfold write_x. rewrite E. simpl. repeat split; auto. apply append_names.
  Qed.

  (** and every earlier clock reading of this lifetime is at most [maxstart], so "backwards" means behind ANY of them *)
  Theorem x_maxstart_is_max : forall ws, Forall valid_w ws ->
    forall u, In u (t0 :: map fst ws) -> u <= maxstart (run_x c s0 ws).
  Proof.
    intros ws V.
    assert (G : forall ws s, Forall valid_w ws -> (forall u, In u (map fst ws) \/ u <= maxstart s -> u <= maxstart (run_x c s ws))).
    { induction ws0 as [|[t b] ws0 IH]; simpl; intros s V0 u [Hu|Hu]; try tauto; inversion V0; subst;
        destruct H1 as [_ Ht]; simpl in Ht; destruct (write_x_lands s t b Ht) as [_ [EM _]].
      - destruct Hu as [<-|Hu]; [apply IH; auto; right; lia|apply IH; auto].
      - apply IH; auto. right. lia. }
    intros u [<-|Hu]; apply G; auto. right. base. simpl. lia.
  Qed.

  (** with a file limit, from the first rotation of this lifetime on - also when the lifetime starts above the limit *)
  Theorem x_prune_limit : forall ws, Forall valid_w ws -> Limit c (run_x c s0 ws).
  Proof. intros ws V. apply (XInv_run ws s0 XInv_init V). Qed.

  (** entries that are not the appender's own log files are never touched *)
  Lemma cur_matches s : XInv s -> matches c (cur s) = true.
  Proof.
    intros [_ [M [XN [XR _]]]]. pose proof TBOUND_TCAL. destruct (rotation_eq_dec k Never) as [Hk|Hk].
    - destruct (XN Hk) as [_ ->]. apply join_date_matches. lia.
    - destruct (XR Hk) as [tl [H1 [_ [-> _]]]]. apply join_date_matches. lia.
  Qed.

  Lemma write_x_keeps_foreign s t b f : XInv s -> 0 <= t < TBOUND ->
    In f (dir s) -> matches c (fname f) = false -> In f (dir (write_x c s t b)).
  Proof.
    intros X Ht Hf Hnm. pose proof (cur_matches s X) as Hc. destruct X as [[HD _] _].
    rewrite write_x_in_range by apply Ht. unfold write_x_ok. destruct (should_rollover s t); simpl.
    - destruct (refresh_fields c (set_next s (next_usize (rot c) t)) t) as [_ [R2 _]]. rewrite R2.
      apply append_keeps_other; [apply refresh_keeps_foreign; auto|].
      intro E. pose proof (join_date_matches c t) as Hm. pose proof TBOUND_TCAL. rewrite <- E in Hm. rewrite Hm in Hnm by lia. discriminate.
    - apply append_keeps_other; auto. intro E. rewrite <- E in Hc. congruence.
  Qed.

  Theorem x_foreign_untouched : forall ws, Forall valid_w ws ->
    forall f, In f (dir sp) -> matches c (fname f) = false -> In f (dir (run_x c s0 ws)).
  Proof.
    intros ws V f Hf Hnm.
    assert (G : forall ws s, XInv s -> Forall valid_w ws -> In f (dir s) -> In f (dir (run_x c s ws))).
    { induction ws0 as [|[t b] ws0 IH]; simpl; intros s X V0 H; auto. inversion V0; subst.
      apply IH; auto; [apply XInv_write; auto|apply write_x_keeps_foreign; auto]. }
    apply G; auto; [apply XInv_init|].
    unfold s0, restart. rewrite (next_ok_small (rot c) t0 (proj2 Ht0)).
    destruct (create (join_date c t0) (dir sp) (tick sp)) as [d tk] eqn:Hc. simpl.
    replace d with (fst (create (join_date c t0) (dir sp) (tick sp))) by (rewrite Hc; reflexivity). apply create_keeps. exact Hf.
  Qed.
End Exclusive.
