(** C16 — period arithmetic of Rotation::round_date / next_date, for every instant. *)
From Coq Require Import ZArith List String Lia.
From TV Require Import Appender.RollingModel.
Local Open Scope Z_scope.
Ltac Zify.zify_post_hook ::= Z.to_euclidean_division_equations.

Lemma dur_pos : forall k, k <> Never -> 0 < dur k.
Proof. destruct k; simpl; intros; try lia; congruence. Qed.

(** the calendar-field rounding of the code is truncation to a multiple of the period *)
Lemma round_closed : forall k t, k <> Never -> round_date k t = t - t mod dur k.
Proof.
  intros k t Hk. destruct k; try congruence;
  unfold round_date, replace_time, hour_of, minute_of, sod, day_of, dur; lia.
Qed.

Lemma round_bounds : forall k t, k <> Never -> round_date k t <= t < round_date k t + dur k.
Proof. intros k t Hk. rewrite round_closed by assumption. pose proof (dur_pos k Hk). destruct k; simpl in *; try congruence; lia. Qed.

Lemma round_multiple : forall k t, k <> Never -> round_date k t mod dur k = 0.
Proof. intros k t Hk. rewrite round_closed by assumption. destruct k; simpl in *; try congruence; lia. Qed.

Lemma next_closed : forall k t, k <> Never -> next_date k t = Some (round_date k t + dur k).
Proof.
  intros k t Hk. unfold next_date. destruct k; try congruence; f_equal;
  rewrite !round_closed by congruence; unfold dur; lia.
Qed.

Lemma next_never : forall t, next_date Never t = None.
Proof. reflexivity. Qed.

Lemma round_idem : forall k t, k <> Never -> round_date k (round_date k t) = round_date k t.
Proof. intros. rewrite !round_closed by assumption. destruct k; simpl in *; try congruence; lia. Qed.

Lemma round_mono : forall k t t', k <> Never -> t <= t' -> round_date k t <= round_date k t'.
Proof. intros. rewrite !round_closed by assumption. destruct k; simpl in *; try congruence; lia. Qed.

(** two instants are in the same period iff they round to the same instant *)
Lemma same_period_between : forall k t t', k <> Never ->
  round_date k t <= t' < round_date k t + dur k -> round_date k t' = round_date k t.
Proof. intros k t t' Hk. rewrite !round_closed by assumption. destruct k; simpl in *; try congruence; lia. Qed.

(** clock readings the theorems cover: 1970-01-01T00:00:00Z <= t < 9999-12-31T00:00:00Z - from the epoch (the
    `as usize` cast) up to the last instant at which [next_date] is defined for every rotation (DT_MAX + 1 - one day) *)
Definition TBOUND : Z := 253402214400.

Lemma next_ok_small : forall k t, t < TBOUND -> next_ok k t = true.
Proof. intros k t H. unfold next_ok, TBOUND, DT_MAX in *. destruct k; simpl; auto; apply Z.leb_le; lia. Qed.

(** exactly where [next_date] is defined *)
Lemma next_ok_iff : forall k t, next_ok k t = true <-> k = Never \/ t + dur k <= DT_MAX.
Proof.
  intros k t. unfold next_ok. destruct k; simpl; rewrite ?Z.leb_le; split; intros H; auto; try (right; exact H);
    destruct H as [H|H]; auto; discriminate.
Qed.

Lemma next_usize_closed : forall k t, k <> Never -> 0 <= t < TBOUND ->
  next_usize k t = round_date k t + dur k.
Proof.
  intros k t Hk Ht. unfold next_usize. rewrite next_closed by assumption.
  unfold to_usize. pose proof (round_bounds k t Hk). unfold TBOUND in *.
  destruct k; simpl in *; try congruence; apply Z.mod_small; lia.
Qed.

Lemma next_usize_gt : forall k t, k <> Never -> 0 <= t < TBOUND -> t < next_usize k t.
Proof. intros. rewrite next_usize_closed by assumption. pose proof (round_bounds k t H). lia. Qed.

Lemma next_usize_never : forall t, next_usize Never t = 0.
Proof. reflexivity. Qed.

Lemma to_usize_small : forall t, 0 <= t < TBOUND -> to_usize t = t.
Proof. intros. unfold to_usize, TBOUND in *. apply Z.mod_small. lia. Qed.

Lemma next_usize_mono : forall k t t', k <> Never -> 0 <= t -> t <= t' < TBOUND -> next_usize k t <= next_usize k t'.
Proof. intros. rewrite !next_usize_closed by (auto; lia). pose proof (round_mono k t t' H). lia. Qed.

(** [t'] lies in the period opened by a rotation at [t] iff it is below that rotation's next_date *)
Lemma same_period_next : forall k t t', k <> Never -> 0 <= t <= t' -> t' < TBOUND ->
  t' < next_usize k t -> round_date k t' = round_date k t.
Proof.
  intros. rewrite next_usize_closed in * by (auto; lia).
  apply same_period_between; auto. pose proof (round_bounds k t H). lia.
Qed.

Theorem period_spec : forall k t, k <> Never ->
  round_date k t <= t < round_date k t + dur k /\
  round_date k t mod dur k = 0 /\
  next_date k t = Some (round_date k t + dur k).
Proof. intros. split; [apply round_bounds|split; [apply round_multiple|apply next_closed]]; assumption. Qed.
