(** C16 — executable model of tracing-appender/src/rolling.rs (no proofs here).

    Time is unix seconds in [Z]; an [OffsetDateTime] in UTC is (day number, second of day) exactly as the
    [time] crate keeps it (no leap seconds).  File names are Coq strings.  A directory is a list of
    files; a file keeps its pre-existing bytes ([base]) and, separately, the time-stamped buffers the
    appender has appended to it since ([landed]) — its real content is [base ++ concat (map snd landed)].

    Two interfaces:
    - exclusive ([io::Write for RollingFileAppender], [&mut self]): [write_x], a function;
    - shared ([MakeWriter::make_writer] from several threads): a small-step system whose steps are the
      atomic actions of the code — load of [next_date]; compare_exchange; (winner) write-lock +
      [refresh_writer] (= prune, create, swap) — one step, the lock is held throughout and the step is
      enabled only when no read guard is out; read-lock (captures the current file); append + unlock.
      [yield_point(1)] of hook H1 sits between the CAS and the refresh step.
    The flag [recheck] says whether [make_writer] re-checks [next_date] under the write lock before
    refreshing (the repair proposed for finding F16); it is read off the source by translators/rolling.py. *)
From Coq Require Import ZArith List String Ascii Bool.
From TV Require Import Time.Civil.
Import ListNotations.
Local Open Scope Z_scope.

(** * Rotation periods (Rotation::round_date / next_date) *)
Inductive rotation := Minutely | Hourly | Daily | Never.

Definition day_of (t : Z) : Z := t / 86400.
Definition sod (t : Z) : Z := t mod 86400.
Definition hour_of (t : Z) : Z := sod t / 3600.
Definition minute_of (t : Z) : Z := (sod t mod 3600) / 60.
(** [date.replace_time(Time::from_hms(h, m, s))] *)
Definition replace_time (t h m s : Z) : Z := day_of t * 86400 + h * 3600 + m * 60 + s.

Definition round_date (k : rotation) (t : Z) : Z :=
  match k with
  | Minutely => replace_time t (hour_of t) (minute_of t) 0
  | Hourly => replace_time t (hour_of t) 0 0
  | Daily => replace_time t 0 0 0
  | Never => t                      (* unreachable!() in the code; never called for NEVER *)
  end.
Definition dur (k : rotation) : Z :=
  match k with Minutely => 60 | Hourly => 3600 | Daily => 86400 | Never => 0 end.
Definition next_date (k : rotation) (t : Z) : option Z :=
  match k with Never => None | _ => Some (round_date k (t + dur k)) end.

(** [x as usize] on a 64-bit target *)
Definition to_usize (z : Z) : Z := z mod 18446744073709551616.
(** the value stored in [Inner.next_date]: 0 = never *)
Definition next_usize (k : rotation) (t : Z) : Z :=
  match next_date k t with Some d => to_usize d | None => 0 end.

(** * File names (Rotation::date_format, Inner::join_date) *)
Definition digit (d : Z) : ascii := ascii_of_N (48 + Z.to_N d).
Definition two (n : Z) : string := String (digit (n / 10 mod 10)) (String (digit (n mod 10)) EmptyString).
Definition four (n : Z) : string := (two (n / 100) ++ two n)%string.
Definition dash : string := "-"%string.

Definition ymd_string (t : Z) : string :=
  let '(y, m, d) := civil_from_days (day_of t) in (four y ++ dash ++ two m ++ dash ++ two d)%string.
Definition date_string (k : rotation) (t : Z) : string :=
  match k with
  | Minutely => (ymd_string t ++ dash ++ two (hour_of t) ++ dash ++ two (minute_of t))%string
  | Hourly => (ymd_string t ++ dash ++ two (hour_of t))%string
  | Daily | Never => ymd_string t
  end.

Record config := {
  rot : rotation;
  prefix : option string;
  suffix : option string;
  max_files : option nat;
  recheck : bool
}.

Definition dot : string := "."%string.
Definition join_date (c : config) (t : Z) : string :=
  let date := date_string (rot c) t in
  match rot c, prefix c, suffix c with
  | Never, Some p, None => p
  | Never, Some p, Some s => (p ++ dot ++ s)%string
  | Never, None, Some s => s
  | _, Some p, Some s => (p ++ dot ++ date ++ dot ++ s)%string
  | _, Some p, None => (p ++ dot ++ date)%string
  | _, None, Some s => (date ++ dot ++ s)%string
  | _, None, None => date
  end.

(** * Which directory entries prune_old_logs considers (prefix / suffix / else a parsable date) *)
Definition ends_with (suf s : string) : bool :=
  let ls := String.length s in let lf := String.length suf in
  (lf <=? ls)%nat && String.eqb (substring (ls - lf) lf s) suf.

Definition is_digit (a : ascii) : bool := let n := N_of_ascii a in ((48 <=? n) && (n <=? 57))%N.
Definition dval (a : ascii) : Z := Z.of_N (N_of_ascii a) - 48.
Fixpoint num (l : list ascii) (acc : Z) : option Z :=
  match l with
  | [] => Some acc
  | a :: r => if is_digit a then num r (acc * 10 + dval a) else None
  end.
(** splits at every '-' *)
Fixpoint fields (s : string) (cur : list ascii) : list (list ascii) :=
  match s with
  | EmptyString => [rev cur]
  | String a r => if Ascii.eqb a "-"%char then rev cur :: fields r [] else fields r (a :: cur)
  end.
Definition field_ok (w : nat) (lo hi : Z) (f : list ascii) : bool :=
  (List.length f =? w)%nat && match num f 0 with Some v => (lo <=? v) && (v <=? hi) | None => false end.
(** the shape [Date::parse(name, date_format)] accepts among the names used here: exactly the fields of
    the rotation's format, fixed width, a valid calendar date *)
Definition is_date_name (k : rotation) (s : string) : bool :=
  let fs := fields s [] in
  let date_ok (y m d : list ascii) :=
    field_ok 4 0 9999 y && field_ok 2 1 12 m &&
    match num y 0, num m 0 with
    | Some yv, Some mv => field_ok 2 1 (days_in_month yv mv) d
    | _, _ => false
    end in
  match k, fs with
  | Minutely, [y; m; d; h; mi] => date_ok y m d && field_ok 2 0 23 h && field_ok 2 0 59 mi
  | Hourly, [y; m; d; h] => date_ok y m d && field_ok 2 0 23 h
  | Daily, [y; m; d] | Never, [y; m; d] => date_ok y m d
  | _, _ => false
  end.

Definition matches (c : config) (name : string) : bool :=
  match prefix c with Some p => String.prefix p name | None => true end &&
  match suffix c with Some s => ends_with s name | None => true end &&
  match prefix c, suffix c with None, None => is_date_name (rot c) name | _, _ => true end.

(** * Directory *)
Definition chunk := list N.     (* one buffer: bytes *)
Record file := {
  fname : string;
  created : N;                   (* creation stamp: what metadata.created() orders by *)
  base : chunk;                  (* bytes already in the file when this run first saw it *)
  landed : list (Z * chunk)      (* (clock reading of the write, buffer), in append order *)
}.
Definition has_name (n : string) (f : file) : bool := String.eqb (fname f) n.
Definition lookup (n : string) (d : list file) : option file := find (has_name n) d.
Definition in_dir (n : string) (d : list file) : bool := existsb (has_name n) d.

Definition append_to (n : string) (e : Z * chunk) (d : list file) : list file :=
  map (fun f => if has_name n f
                then {| fname := fname f; created := created f; base := base f; landed := landed f ++ [e] |}
                else f) d.

(** OpenOptions::append(true).create(true): a new empty file only when the name is absent *)
Definition create (n : string) (d : list file) (tick : N) : list file * N :=
  if in_dir n d then (d, tick)
  else (d ++ [{| fname := n; created := tick; base := []; landed := [] |}], (tick + 1)%N).

(** files.sort_by_key(created) — stable insertion sort *)
Fixpoint insert_by (f : file) (l : list file) : list file :=
  match l with
  | [] => [f]
  | g :: r => if (created f <=? created g)%N then f :: l else g :: insert_by f r
  end.
Definition sort_by_created (l : list file) : list file := fold_right insert_by [] l.

Definition mem (n : string) (l : list string) : bool := existsb (String.eqb n) l.

(** prune_old_logs(max): returns (remaining directory, removed files) *)
Definition prune (c : config) (m : nat) (d : list file) : list file * list file :=
  let ms := filter (fun f => matches c (fname f)) d in
  if (List.length ms <? m)%nat then (d, [])
  else
    let victims := map fname (firstn (List.length ms - (m - 1)) (sort_by_created ms)) in
    (filter (fun f => negb (mem (fname f) victims)) d, filter (fun f => mem (fname f) victims) d).

(** * State *)
(** ghost of one make_writer call: [q0] no rotation was in flight when it started, [c0] CAS wins so far
    at its start, [mine] CAS wins of its own, [nd] its clock reading is >= every earlier one *)
Record opg := { q0 : bool; c0 : nat; mine : nat; nd : bool }.

Inductive pc :=
| PLoad (t : Z) (b : chunk) (g : opg)               (* clock read; about to load next_date *)
| PCas (t : Z) (b : chunk) (n : Z) (g : opg)        (* should_rollover = Some n; about to compare_exchange *)
| PRefresh (t : Z) (b : chunk) (g : opg)            (* won the CAS; at yield_point(1); wants the write lock *)
| PRead (t : Z) (b : chunk) (g : opg)               (* about to take the read lock *)
| PAppend (t : Z) (b : chunk) (f : string) (g : opg). (* holds a read guard on file f *)

Record land := { l_file : string; l_t : Z; l_buf : chunk; l_tid : nat; l_clean : bool; l_nd : bool; l_life : nat }.

Record state := {
  next : Z;                      (* Inner.next_date *)
  cur : string;                  (* the file behind the RwLock *)
  dir : list file;
  tick : N;                      (* creation clock of the file system *)
  readers : list nat;            (* threads holding a read guard (the RwLock's reader count is its length) *)
  pcs : nat -> option pc;
  (* ghost *)
  grave : list file;             (* files removed by pruning, oldest removal first, as they were *)
  rots : list (nat * Z * Z);     (* successful compare_exchange: (thread, from, clock), newest first *)
  fails : list (nat * Z * Z);    (* failed compare_exchange *)
  decided : list Z;              (* clock readings that either saw "no rollover" or won their CAS *)
  lands : list land;             (* completed appends, newest first *)
  pend : list nat;               (* threads between a won CAS and their refresh step *)
  refreshed : bool;              (* some refresh_writer has run *)
  overlapped : bool;             (* some CAS was won while another winner had not refreshed yet *)
  maxstart : Z;                  (* largest clock reading presented so far (in this lifetime) *)
  life : nat;                    (* which appender lifetime this is (ghost; 0 = no appender built yet) *)
  panics : nat                   (* calls that panicked inside next_date (clock + period beyond the time crate's range) *)
}.

Definition upd (f : nat -> option pc) (i : nat) (v : option pc) : nat -> option pc :=
  fun j => if Nat.eqb j i then v else f j.

(** * The range of the [time] crate (no `large-dates` feature): years -9999 ..= 9999 *)
Definition DT_MIN : Z := -377705116800.   (* -9999-01-01T00:00:00Z *)
Definition DT_MAX : Z := 253402300799.    (*  9999-12-31T23:59:59Z *)
(** [Rotation::next_date]: [*current_date + Duration::..] is [checked_add(..).expect("resulting value is out of
    range")] - it PANICS when the sum is past the last representable instant; [round_date] cannot fail
    (from_hms of an existing hour/minute) and only moves down, never below the day's start. *)
Definition next_ok (k : rotation) (t : Z) : bool :=
  match k with Never => true | _ => t + dur k <=? DT_MAX end.

Definition bump_panics (s : state) : state :=
  {| next := next s; cur := cur s; dir := dir s; tick := tick s; readers := readers s; pcs := pcs s;
     grave := grave s; rots := rots s; fails := fails s; decided := decided s; lands := lands s;
     pend := pend s; refreshed := refreshed s; overlapped := overlapped s; maxstart := maxstart s;
     life := life s; panics := S (panics s) |}.

(** a directory nobody has built an appender over yet *)
Definition blank (pre : list file) (tick0 : N) : state :=
  {| next := 0; cur := EmptyString; dir := pre; tick := tick0; readers := []; pcs := fun _ => None;
     grave := []; rots := []; fails := []; decided := []; lands := []; pend := []; refreshed := false;
     overlapped := false; maxstart := 0; life := O; panics := O |}.

(** Builder::build -> Inner::new + create_writer over whatever the directory holds: next_date first (may
    panic: then no appender and nothing touched), then OpenOptions::append(true).create(true) on the file of
    the construction time's period - an existing file of that period is opened for append, not truncated;
    no pruning at construction.  The previous appender (if any) has been dropped: no call is in flight.
    The ghosts [grave], [lands] carry over; [rots] .. [overlapped] are per lifetime. *)
Definition restart (c : config) (s : state) (t0 : Z) : state :=
  if next_ok (rot c) t0 then
    let '(d, tk) := create (join_date c t0) (dir s) (tick s) in
    {| next := next_usize (rot c) t0; cur := join_date c t0; dir := d; tick := tk; readers := [];
       pcs := fun _ => None; grave := grave s; rots := []; fails := []; decided := []; lands := lands s;
       pend := []; refreshed := false; overlapped := false; maxstart := t0; life := S (life s); panics := panics s |}
  else bump_panics s.

Definition init (c : config) (pre : list file) (tick0 : N) (t0 : Z) : state := restart c (blank pre tick0) t0.

(** should_rollover(now) *)
Definition should_rollover (s : state) (t : Z) : option Z :=
  if next s =? 0 then None else if next s <=? to_usize t then Some (next s) else None.

(** refresh_writer(now): prune (if a limit is set), create, swap *)
Definition refresh (c : config) (s : state) (t : Z) : state :=
  let nm := join_date c t in
  let '(d1, removed) := match max_files c with Some m => prune c m (dir s) | None => (dir s, []) end in
  let '(d2, tk) := create nm d1 (tick s) in
  {| next := next s; cur := nm; dir := d2; tick := tk; readers := readers s; pcs := pcs s;
     grave := grave s ++ removed; rots := rots s; fails := fails s; decided := decided s; lands := lands s;
     pend := pend s; refreshed := true; overlapped := overlapped s; maxstart := maxstart s; life := life s; panics := panics s |}.

Definition set_next (s : state) (n : Z) : state :=
  {| next := n; cur := cur s; dir := dir s; tick := tick s; readers := readers s; pcs := pcs s;
     grave := grave s; rots := rots s; fails := fails s; decided := decided s; lands := lands s;
     pend := pend s; refreshed := refreshed s; overlapped := overlapped s; maxstart := maxstart s; life := life s; panics := panics s |}.

Definition do_append (s : state) (f : string) (t : Z) (b : chunk) (i : nat) (cl n : bool) : state :=
  {| next := next s; cur := cur s; dir := append_to f (t, b) (dir s); tick := tick s; readers := readers s;
     pcs := pcs s; grave := grave s; rots := rots s; fails := fails s; decided := decided s;
     lands := {| l_file := f; l_t := t; l_buf := b; l_tid := i; l_clean := cl; l_nd := n; l_life := life s |} :: lands s;
     pend := pend s; refreshed := refreshed s; overlapped := overlapped s; maxstart := maxstart s; life := life s; panics := panics s |}.

Definition with_maxstart (s : state) (m : Z) : state :=
  {| next := next s; cur := cur s; dir := dir s; tick := tick s; readers := readers s; pcs := pcs s;
     grave := grave s; rots := rots s; fails := fails s; decided := decided s; lands := lands s;
     pend := pend s; refreshed := refreshed s; overlapped := overlapped s; maxstart := m; life := life s; panics := panics s |}.

(** * Exclusive interface: io::Write::write(&mut self, buf) *)
Definition write_x (c : config) (s : state) (t : Z) (b : chunk) : state :=
  let s1 :=
    match should_rollover s t with
    | Some _ => refresh c (set_next s (next_usize (rot c) t)) t     (* the CAS cannot fail under &mut *)
    | None => s
    end in
  match should_rollover s t with
  | Some _ =>
      if next_ok (rot c) t
      then with_maxstart (do_append s1 (cur s1) t b 0%nat true (maxstart s <=? t)) (Z.max (maxstart s) t)
      else bump_panics s           (* advance_date -> next_date panics before the store: nothing written, nothing changed *)
  | None => with_maxstart (do_append s1 (cur s1) t b 0%nat true (maxstart s <=? t)) (Z.max (maxstart s) t)
  end.
Definition run_x (c : config) (s : state) (ws : list (Z * chunk)) : state :=
  fold_left (fun s w => write_x c s (fst w) (snd w)) ws s.

(** * Shared interface: micro-steps *)
Inductive event := Start (i : nat) (t : Z) (b : chunk) | Step (i : nat).

Definition with_pcs (s : state) (p : nat -> option pc) : state :=
  {| next := next s; cur := cur s; dir := dir s; tick := tick s; readers := readers s; pcs := p;
     grave := grave s; rots := rots s; fails := fails s; decided := decided s; lands := lands s;
     pend := pend s; refreshed := refreshed s; overlapped := overlapped s; maxstart := maxstart s; life := life s; panics := panics s |}.
Definition with_readers (s : state) (r : list nat) : state :=
  {| next := next s; cur := cur s; dir := dir s; tick := tick s; readers := r; pcs := pcs s;
     grave := grave s; rots := rots s; fails := fails s; decided := decided s; lands := lands s;
     pend := pend s; refreshed := refreshed s; overlapped := overlapped s; maxstart := maxstart s; life := life s; panics := panics s |}.
Definition with_ghost (s : state) (ro fa : list (nat * Z * Z)) (de : list Z) (pe : list nat) (ov : bool) : state :=
  {| next := next s; cur := cur s; dir := dir s; tick := tick s; readers := readers s; pcs := pcs s;
     grave := grave s; rots := ro; fails := fa; decided := de; lands := lands s;
     pend := pe; refreshed := refreshed s; overlapped := ov; maxstart := maxstart s; life := life s; panics := panics s |}.

Definition remove_tid (i : nat) (l : list nat) : list nat := filter (fun j => negb (Nat.eqb j i)) l.
Definition is_nil {A} (l : list A) : bool := match l with [] => true | _ => false end.

(** a write is [clean] when no other thread was between its won CAS and its refresh at any moment of
    the write: none pending at the start, and every CAS won since the start is the write's own *)
Definition clean (s : state) (g : opg) : bool := q0 g && Nat.eqb (List.length (rots s)) (c0 g + mine g).

Definition step (c : config) (s : state) (e : event) : state :=
  match e with
  | Start i t b =>
      match pcs s i with
      | Some _ => s                                                   (* busy: not enabled *)
      | None =>
          let g := {| q0 := is_nil (pend s); c0 := List.length (rots s); mine := 0; nd := maxstart s <=? t |} in
          with_pcs (with_maxstart s (Z.max (maxstart s) t)) (upd (pcs s) i (Some (PLoad t b g)))
      end
  | Step i =>
      match pcs s i with
      | None => s
      | Some (PLoad t b g) =>
          match should_rollover s t with
          | Some n => with_pcs s (upd (pcs s) i (Some (PCas t b n g)))
          | None => with_pcs (with_ghost s (rots s) (fails s) (t :: decided s) (pend s) (overlapped s))
                             (upd (pcs s) i (Some (PRead t b g)))
          end
      | Some (PCas t b n g) =>
          if negb (next_ok (rot c) t) then
            (* advance_date computes next_date(now) before the compare_exchange: panic, the call ends, no lock is held *)
            with_pcs (bump_panics s) (upd (pcs s) i None)
          else
          if next s =? n then
            let g' := {| q0 := q0 g; c0 := c0 g; mine := 1; nd := nd g |} in
            with_pcs (with_ghost (set_next s (next_usize (rot c) t))
                                 ((i, n, t) :: rots s) (fails s) (t :: decided s) (i :: pend s)
                                 (overlapped s || negb (is_nil (pend s))))
                     (upd (pcs s) i (Some (PRefresh t b g')))
          else
            with_pcs (with_ghost s (rots s) ((i, n, t) :: fails s) (decided s) (pend s) (overlapped s))
                     (upd (pcs s) i (Some (PRead t b g)))
      | Some (PRefresh t b g) =>
          match readers s with
          | _ :: _ => s                                               (* write lock not available *)
          | [] =>
              let s1 := if recheck c && negb (next s =? next_usize (rot c) t) then s else refresh c s t in
              with_pcs (with_ghost s1 (rots s1) (fails s1) (decided s1) (remove_tid i (pend s1)) (overlapped s1))
                       (upd (pcs s) i (Some (PRead t b g)))
          end
      | Some (PRead t b g) =>
          with_pcs (with_readers s (i :: readers s)) (upd (pcs s) i (Some (PAppend t b (cur s) g)))
      | Some (PAppend t b f g) =>
          with_pcs (with_readers (do_append s f t b i (clean s g) (nd g)) (remove_tid i (readers s))) (upd (pcs s) i None)
      end
  end.

Definition run (c : config) (s : state) (evs : list event) : state := fold_left (step c) evs s.

(** * Driving the micro-steps the way the harness does *)
Definition is_idle (s : state) (i : nat) : bool := match pcs s i with None => true | _ => false end.
Definition at_yield (s : state) (i : nat) : bool := match pcs s i with Some (PRefresh _ _ _) => true | _ => false end.
(** yield_point(0) of hook H1b: should_rollover said Some, the compare_exchange has not been attempted *)
Definition at_cas (s : state) (i : nat) : bool := match pcs s i with Some (PCas _ _ _ _) => true | _ => false end.
(** a complete make_writer + write + drop has at most 5 micro-steps *)
Fixpoint steps_until (c : config) (stop : state -> bool) (fuel : nat) (s : state) (i : nat) : state :=
  match fuel with
  | O => s
  | S k => if stop s then s else steps_until c stop k (step c s (Step i)) i
  end.
Definition finish (c : config) (s : state) (i : nat) : state := steps_until c (fun s => is_idle s i) 6 s i.
Definition to_yield (c : config) (s : state) (i : nat) : state :=
  steps_until c (fun s => is_idle s i || at_yield s i) 6 s i.

Definition to_cas (c : config) (s : state) (i : nat) : state :=
  steps_until c (fun s => is_idle s i || at_cas s i) 6 s i.

(** The clock is read ONCE per make_writer call ([let now = self.now()]): [Start i t b] carries that reading and
    every later action of the call (should_rollover, advance_date, is_latest_rotation, refresh_writer) uses it.
    [refresh_step2 c s i t2] is the refresh step of a winner at yield_point(1) for a make_writer that names the new file
    after a SECOND reading [t2] taken there (`refresh_writer(self.now(), ..)`) - the re-check and the stored next_date
    still use the call's own reading.  Which of the two the source does is read off it by translators/rolling.py
    ([gen_refresh_uses_first_reading]); [step] is the first-reading variant. *)
Definition refresh_step2 (c : config) (s : state) (i : nat) (t2 : Z) : state :=
  match pcs s i with
  | Some (PRefresh t b g) =>
      match readers s with
      | _ :: _ => s
      | [] =>
          let s1 := if recheck c && negb (next s =? next_usize (rot c) t) then s else refresh c s t2 in
          with_pcs (with_ghost s1 (rots s1) (fails s1) (decided s1) (remove_tid i (pend s1)) (overlapped s1))
                   (upd (pcs s) i (Some (PRead t b g)))
      end
  | _ => s
  end.

Inductive hop :=
| HW (i : nat) (t : Z) (b : chunk)
| HPark (i : nat) (t : Z) (b : chunk)      (* parked at yield_point(1): after a won compare_exchange *)
| HPark0 (i : nat) (t : Z) (b : chunk)     (* parked at yield_point(0): before the compare_exchange *)
| HRel (i : nat)
| HW2 (first : bool) (i : nat) (t t2 : Z) (b : chunk).
  (* a complete call whose clock reads [t] at its start and [t2] from yield_point(1) on (the harness changes the clock
     from inside the yield callback); [first] = the source names the rotated-to file after the call's first reading *)
Definition hstep (c : config) (s : state) (o : hop) : state :=
  match o with
  | HW2 true i t _ b => finish c (step c s (Start i t b)) i
  | HW2 false i t t2 b => finish c (refresh_step2 c (to_yield c (step c s (Start i t b)) i) i t2) i
  | HW i t b => finish c (step c s (Start i t b)) i
  | HPark i t b => to_yield c (step c s (Start i t b)) i
  | HPark0 i t b => to_cas c (step c s (Start i t b)) i
  | HRel i => finish c s i
  end.

(** * Observation (what the harness prints): sorted by the driver *)
Definition content (f : file) : chunk := base f ++ List.concat (map snd (landed f)).
Definition observe (s : state) : list (string * chunk * N) := map (fun f => (fname f, content f, created f)) (dir s).
(** one observation: directory listing, compare_exchange wins during the op, parked at a yield point, panics during the op *)
Definition obs1 : Type := (list (string * chunk * N) * nat * bool * nat)%type.

Definition trace_x (c : config) (s : state) (ws : list (Z * chunk)) : state * list obs1 :=
  fold_left (fun (a : state * list obs1) w =>
               let s' := write_x c (fst a) (fst w) (snd w) in
               (s', snd a ++ [(observe s', O, false, (panics s' - panics (fst a))%nat)])) ws (s, []).
Definition trace_h (c : config) (s : state) (os : list hop) : state * list obs1 :=
  fold_left (fun (a : state * list obs1) o =>
               let s' := hstep c (fst a) o in
               let parked := match o with HPark i _ _ => at_yield s' i | HPark0 i _ _ => at_cas s' i | _ => false end in
               (s', snd a ++ [(observe s', (List.length (rots s') - List.length (rots (fst a)))%nat, parked,
                               (panics s' - panics (fst a))%nat)])) os (s, []).
Definition obs_trace_x (c : config) (s : state) (ws : list (Z * chunk)) : list obs1 := snd (trace_x c s ws).
Definition obs_trace_h (c : config) (s : state) (os : list hop) : list obs1 := snd (trace_h c s os).

(** several appender lifetimes over one directory: each is (configuration, construction clock, operations through
    one of the interfaces); the appender of a lifetime is dropped (all calls finished) before the next is built *)
Inductive life_ops := LX (ws : list (Z * chunk)) | LS (os : list hop).
Definition trace_lives (s : state) (ls : list (config * Z * life_ops)) : list (obs1 * list obs1) :=
  snd (fold_left (fun (a : state * list (obs1 * list obs1)) l =>
                    let '(c, t0, ops) := l in
                    let s1 := restart c (fst a) t0 in
                    let built := (observe s1, O, false, (panics s1 - panics (fst a))%nat) in
                    let '(s2, tr) := match ops with LX ws => trace_x c s1 ws | LS os => trace_h c s1 os end in
                    (s2, snd a ++ [(built, tr)])) ls (s, [])).
