(** C16 — file names: constant inside a period (and, with the calendar of Time/CivilProofs.v, different
    for different periods). *)
From Coq Require Import ZArith List String Ascii Lia Bool.
From TV Require Import Time.Civil Appender.RollingModel Appender.RollingTimeProofs.
Local Open Scope Z_scope.
Ltac Zify.zify_post_hook ::= Z.to_euclidean_division_equations.

Lemma fields_of_round : forall k t t', k <> Never -> round_date k t = round_date k t' ->
  day_of t = day_of t' /\ (k <> Daily -> hour_of t = hour_of t') /\ (k = Minutely -> minute_of t = minute_of t').
Proof.
  intros k t t' Hk. destruct k; try congruence;
  unfold round_date, replace_time, hour_of, minute_of, sod, day_of; intros H; repeat split; intros; try congruence; lia.
Qed.

Lemma round_of_fields : forall k t t', k <> Never ->
  day_of t = day_of t' -> (k <> Daily -> hour_of t = hour_of t') -> (k = Minutely -> minute_of t = minute_of t') ->
  round_date k t = round_date k t'.
Proof.
  intros k t t' Hk Hd Hh Hm. destruct k; try congruence; unfold round_date, replace_time.
  - rewrite Hd, Hh, Hm by congruence. reflexivity.
  - rewrite Hd, Hh by congruence. reflexivity.
  - rewrite Hd. reflexivity.
Qed.

Lemma date_string_same_period : forall k t t', k <> Never -> round_date k t = round_date k t' ->
  date_string k t = date_string k t'.
Proof.
  intros k t t' Hk H. destruct (fields_of_round k t t' Hk H) as [Hd [Hh Hm]].
  unfold date_string, ymd_string. rewrite Hd.
  destruct k; try congruence; rewrite ?Hh, ?Hm by congruence; reflexivity.
Qed.

(** a file name depends on the period only *)
Lemma name_same_period : forall c t t', rot c <> Never -> round_date (rot c) t = round_date (rot c) t' ->
  join_date c t = join_date c t'.
Proof.
  intros c t t' Hk H. unfold join_date. rewrite (date_string_same_period _ _ _ Hk H). reflexivity.
Qed.

(** the file a write at clock [t] belongs to: its period's file; for NEVER the single file made at construction *)
Definition period_file (c : config) (t0 t : Z) : string :=
  match rot c with Never => join_date c t0 | _ => join_date c t end.

Definition rotation_eq_dec (a b : rotation) : {a = b} + {a <> b}.
Proof. decide equality. Defined.

Lemma period_file_same c t0 tl t : 0 <= tl <= t -> t < TBOUND -> (rot c <> Never -> t < next_usize (rot c) tl) ->
  period_file c t0 t = period_file c t0 tl.
Proof.
  intros H1 H2 H3. unfold period_file. destruct (rotation_eq_dec (rot c) Never) as [E|E]; [rewrite E; reflexivity|].
  assert (join_date c t = join_date c tl).
  { apply name_same_period; auto. apply same_period_next; auto. }
  destruct (rot c); congruence.
Qed.

(** * Different periods have different names (clock readings up to 9999-12-31T23:59:59Z, where [year] is four digits) *)
From TV Require Import Time.CivilProofs.

Definition TCAL : Z := 253402300800.

Lemma digit_inj a b : 0 <= a <= 9 -> 0 <= b <= 9 -> digit a = digit b -> a = b.
Proof.
  unfold digit. intros Ha Hb E. apply (f_equal N_of_ascii) in E.
  rewrite !N_ascii_embedding in E by lia. lia.
Qed.

Lemma two_inj a b tl tl' : 0 <= a < 100 -> 0 <= b < 100 -> (two a ++ tl)%string = (two b ++ tl')%string -> a = b /\ tl = tl'.
Proof.
  unfold two. simpl. intros Ha Hb E. injection E as E1 E2 E3.
  apply digit_inj in E1; [|lia|lia]. apply digit_inj in E2; [|lia|lia]. split; [lia|auto].
Qed.

Lemma four_inj a b tl tl' : 0 <= a < 10000 -> 0 <= b < 10000 -> (four a ++ tl)%string = (four b ++ tl')%string -> a = b /\ tl = tl'.
Proof.
  unfold four, two. simpl. intros Ha Hb E. injection E as E1 E2 E3 E4 E5.
  apply digit_inj in E1; [|lia|lia]. apply digit_inj in E2; [|lia|lia].
  apply digit_inj in E3; [|lia|lia]. apply digit_inj in E4; [|lia|lia]. split; [lia|auto].
Qed.

Local Arguments two : simpl never.
Local Arguments four : simpl never.

(** [injection] would unfold [two]/[four] behind the constructor; peel exactly one character *)
Lemma string_cons_inj a s s' : String a s = String a s' -> s = s'.
Proof. intros H. injection H. auto. Qed.

Lemma app_assoc_s (a b c : string) : ((a ++ b) ++ c = a ++ (b ++ c))%string.
Proof. induction a; simpl; congruence. Qed.

Lemma ymd_bounds t y m d : 0 <= t < TCAL -> civil_from_days (day_of t) = (y, m, d) ->
  0 <= y < 10000 /\ 0 <= m < 100 /\ 0 <= d < 100.
Proof.
  intros Ht E. unfold TCAL, day_of in *.
  pose proof (civil_from_days_year_ge _ _ _ _ 1970 E) as H1.
  pose proof (civil_from_days_year_le _ _ _ _ 9999 E) as H2.
  assert (D1 : days_from_civil 1970 1 1 = 0) by reflexivity.
  assert (D2 : days_from_civil (9999 + 1) 1 1 = 2932897) by reflexivity.
  rewrite D1 in H1. rewrite D2 in H2.
  destruct (civil_from_days_valid _ _ _ _ E) as [Hm Hd]. pose proof (days_in_month_le_31 y m).
  assert (0 <= t / 86400 < 2932897) by lia. lia.
Qed.

Lemma ymd_inj t t' tl tl' : 0 <= t < TCAL -> 0 <= t' < TCAL ->
  (ymd_string t ++ tl)%string = (ymd_string t' ++ tl')%string -> day_of t = day_of t' /\ tl = tl'.
Proof.
  intros Ht Ht'. unfold ymd_string.
  destruct (civil_from_days (day_of t)) as [[y m] d] eqn:E. destruct (civil_from_days (day_of t')) as [[y' m'] d'] eqn:E'.
  destruct (ymd_bounds _ _ _ _ Ht E) as [By [Bm Bd]]. destruct (ymd_bounds _ _ _ _ Ht' E') as [By' [Bm' Bd']].
  rewrite !app_assoc_s. intros H.
  apply four_inj in H; auto. destruct H as [-> H]. unfold dash in H. simpl in H. apply string_cons_inj in H.
  apply two_inj in H; auto. destruct H as [-> H]. simpl in H. apply string_cons_inj in H.
  apply two_inj in H; auto. destruct H as [-> H]. split; auto.
  rewrite <- (days_from_civil_from_days _ _ _ _ E), <- (days_from_civil_from_days _ _ _ _ E'). reflexivity.
Qed.

Lemma date_string_inj k t t' tl : k <> Never -> 0 <= t < TCAL -> 0 <= t' < TCAL ->
  (date_string k t ++ tl)%string = (date_string k t' ++ tl)%string -> round_date k t = round_date k t'.
Proof.
  intros Hk Ht Ht' H.
  assert (Bh : 0 <= hour_of t < 100 /\ 0 <= hour_of t' < 100) by (unfold hour_of, sod; lia).
  assert (Bm : 0 <= minute_of t < 100 /\ 0 <= minute_of t' < 100) by (unfold minute_of, sod; lia).
  destruct k; try congruence; unfold date_string in H; rewrite ?app_assoc_s in H.
  - apply ymd_inj in H; auto. destruct H as [Hd H]. unfold dash in H. simpl in H. apply string_cons_inj in H.
    apply two_inj in H; try tauto. destruct H as [Hh H]. simpl in H. apply string_cons_inj in H.
    apply two_inj in H; try tauto. destruct H as [Hm _]. apply round_of_fields; auto; congruence.
  - apply ymd_inj in H; auto. destruct H as [Hd H]. unfold dash in H. simpl in H. apply string_cons_inj in H.
    apply two_inj in H; try tauto. destruct H as [Hh _]. apply round_of_fields; auto; congruence.
  - apply ymd_inj in H; auto. destruct H as [Hd _]. apply round_of_fields; auto; congruence.
Qed.

Lemma app_cancel_l (p a b : string) : (p ++ a = p ++ b)%string -> a = b.
Proof. induction p; simpl; intros H; auto. injection H as H. auto. Qed.
Lemma app_empty_r (a : string) : (a ++ "")%string = a.
Proof. induction a; simpl; congruence. Qed.

(** file names are injective on periods *)
Theorem name_injective : forall c t t', rot c <> Never -> 0 <= t < TCAL -> 0 <= t' < TCAL ->
  join_date c t = join_date c t' -> round_date (rot c) t = round_date (rot c) t'.
Proof.
  intros c t t' Hk Ht Ht'. unfold join_date.
  assert (G0 : forall k, k <> Never -> date_string k t = date_string k t' -> round_date k t = round_date k t').
  { intros k Hk' H. apply (date_string_inj k t t' ""%string); auto. rewrite !app_empty_r. exact H. }
  destruct (rot c) eqn:Ek; try congruence; destruct (prefix c) as [p|], (suffix c) as [s|]; intros H.
  all: try (apply app_cancel_l in H; apply (app_cancel_l dot) in H).
  all: try (apply G0; [congruence|exact H]).
  all: eapply date_string_inj; eauto; congruence.
Qed.

(** * The name of a period's file is one of the appender's own log files ([matches]): what it appends to is
      what [prune_old_logs] considers (clock readings up to 9999-12-31T23:59:59Z) *)
Import ListNotations.
Local Open Scope string_scope.

Lemma prefix_app (p x : string) : String.prefix p (p ++ x) = true.
Proof. induction p as [|a p IH]; simpl; [destruct x; reflexivity|]. destruct (ascii_dec a a); [exact IH|congruence]. Qed.
Lemma prefix_refl (p : string) : String.prefix p p = true.
Proof. rewrite <- (app_empty_r p) at 2. apply prefix_app. Qed.

Lemma length_app_s (a b : string) : String.length (a ++ b) = (String.length a + String.length b)%nat.
Proof. induction a; simpl; auto. Qed.
Lemma substring_all (s : string) : substring 0 (String.length s) s = s.
Proof. induction s; simpl; congruence. Qed.
Lemma substring_skip (x s : string) : substring (String.length x) (String.length s) (x ++ s) = s.
Proof. induction x; simpl; auto. apply substring_all. Qed.

Lemma ends_with_app (s x : string) : ends_with s (x ++ s) = true.
Proof.
  unfold ends_with. rewrite length_app_s.
  replace (String.length x + String.length s - String.length s)%nat with (String.length x) by lia.
  rewrite substring_skip, String.eqb_refl, Bool.andb_true_r. apply Nat.leb_le. lia.
Qed.
Lemma ends_with_refl (s : string) : ends_with s s = true.
Proof. apply (ends_with_app s ""%string). Qed.

Lemma digit_cases d : 0 <= d <= 9 -> d = 0 \/ d = 1 \/ d = 2 \/ d = 3 \/ d = 4 \/ d = 5 \/ d = 6 \/ d = 7 \/ d = 8 \/ d = 9.
Proof. lia. Qed.
Lemma digit_facts d : 0 <= d <= 9 -> Ascii.eqb (digit d) "-"%char = false /\ is_digit (digit d) = true /\ dval (digit d) = d.
Proof. intros H. destruct (digit_cases d H) as [->|[->|[->|[->|[->|[->|[->|[->|[->| ->]]]]]]]]]; repeat split; reflexivity. Qed.

Local Arguments digit : simpl never.
Local Arguments Z.mul : simpl never.
Local Arguments Z.add : simpl never.
Local Arguments Z.div : simpl never.
Local Arguments Z.modulo : simpl never.

Lemma fields_two n rest cur : 0 <= n ->
  fields (two n ++ rest) cur = fields rest (digit (n mod 10) :: digit (n / 10 mod 10) :: cur).
Proof.
  intros Hn. unfold two. simpl.
  assert (H1 : 0 <= n / 10 mod 10 <= 9) by lia. assert (H2 : 0 <= n mod 10 <= 9) by lia.
  destruct (digit_facts _ H1) as [E1 _]. destruct (digit_facts _ H2) as [E2 _].
  rewrite E1, E2. reflexivity.
Qed.
Lemma fields_dash rest cur : fields (dash ++ rest) cur = rev cur :: fields rest [].
Proof. reflexivity. Qed.

Lemma num_two a b acc : 0 <= a <= 9 -> 0 <= b <= 9 -> num [digit a; digit b] acc = Some ((acc * 10 + a) * 10 + b).
Proof.
  intros Ha Hb. destruct (digit_facts a Ha) as [_ [A1 A2]]. destruct (digit_facts b Hb) as [_ [B1 B2]].
  simpl. rewrite A1, A2, B1, B2. reflexivity.
Qed.
Lemma num_four a b c d : 0 <= a <= 9 -> 0 <= b <= 9 -> 0 <= c <= 9 -> 0 <= d <= 9 ->
  num [digit a; digit b; digit c; digit d] 0 = Some (((a * 10 + b) * 10 + c) * 10 + d).
Proof.
  intros Ha Hb Hc Hd. destruct (digit_facts a Ha) as [_ [A1 A2]]. destruct (digit_facts b Hb) as [_ [B1 B2]].
  destruct (digit_facts c Hc) as [_ [C1 C2]]. destruct (digit_facts d Hd) as [_ [D1 D2]].
  simpl. rewrite A1, A2, B1, B2, C1, C2, D1, D2. f_equal; try lia.
Qed.

Lemma field_ok_two n lo hi : 0 <= n < 100 -> lo <= n <= hi ->
  field_ok 2 lo hi [digit (n / 10 mod 10); digit (n mod 10)] = true.
Proof.
  intros Hn Hr. unfold field_ok. rewrite num_two by lia. simpl.
  apply andb_true_iff. split; apply Z.leb_le; lia.
Qed.

Lemma fields_ymd t tail y m d : civil_from_days (day_of t) = (y, m, d) -> 0 <= y -> 0 <= m -> 0 <= d ->
  fields (ymd_string t ++ tail) [] =
  match fields tail [digit (d mod 10); digit (d / 10 mod 10)] with
  | [] => []
  | f :: r => [digit (y / 100 / 10 mod 10); digit (y / 100 mod 10); digit (y / 10 mod 10); digit (y mod 10)]
              :: [digit (m / 10 mod 10); digit (m mod 10)] :: f :: r
  end.
Proof.
  intros E Hy Hm Hd. unfold ymd_string. rewrite E. unfold four. rewrite !app_assoc_s.
  rewrite fields_two by lia. rewrite fields_two by lia. rewrite fields_dash. rewrite fields_two by lia.
  rewrite fields_dash. rewrite fields_two by lia. simpl.
  destruct (fields tail _) eqn:F; [|reflexivity].
  exfalso. clear - F. revert F. generalize [digit (d mod 10); digit (d / 10 mod 10)].
  induction tail; simpl; intros l F; [discriminate|]. destruct (Ascii.eqb a "-"); [discriminate|eauto].
Qed.

Lemma date_ok_ymd y m d : 0 <= y < 10000 -> 1 <= m <= 12 -> 1 <= d <= days_in_month y m -> d < 100 ->
  field_ok 4 0 9999 [digit (y / 100 / 10 mod 10); digit (y / 100 mod 10); digit (y / 10 mod 10); digit (y mod 10)] &&
  field_ok 2 1 12 [digit (m / 10 mod 10); digit (m mod 10)] &&
  match num [digit (y / 100 / 10 mod 10); digit (y / 100 mod 10); digit (y / 10 mod 10); digit (y mod 10)] 0,
        num [digit (m / 10 mod 10); digit (m mod 10)] 0 with
  | Some yv, Some mv => field_ok 2 1 (days_in_month yv mv) [digit (d / 10 mod 10); digit (d mod 10)]
  | _, _ => false
  end = true.
Proof.
  intros Hy Hm Hd Hd2.
  assert (EY : num [digit (y / 100 / 10 mod 10); digit (y / 100 mod 10); digit (y / 10 mod 10); digit (y mod 10)] 0 = Some y).
  { rewrite num_four by lia. f_equal; try lia. }
  assert (EM : num [digit (m / 10 mod 10); digit (m mod 10)] 0 = Some m).
  { rewrite num_two by lia. f_equal; try lia. }
  rewrite EY, EM. rewrite (field_ok_two m) by lia. rewrite (field_ok_two d) by lia.
  unfold field_ok. rewrite EY. simpl. rewrite !andb_true_r. apply andb_true_iff. split; apply Z.leb_le; lia.
Qed.

Local Arguments num : simpl never.
Local Arguments field_ok : simpl never.

Lemma is_date_name_date_string k t : 0 <= t < TCAL -> is_date_name k (date_string k t) = true.
Proof.
  intros Ht. destruct (civil_from_days (day_of t)) as [[y m] d] eqn:E.
  destruct (ymd_bounds _ _ _ _ Ht E) as [By [Bm Bd]]. destruct (civil_from_days_valid _ _ _ _ E) as [Vm Vd].
  assert (Bh : 0 <= hour_of t < 24) by (unfold hour_of, sod; lia).
  assert (Bmi : 0 <= minute_of t < 60) by (unfold minute_of, sod; lia).
  pose proof (date_ok_ymd y m d By Vm Vd (proj2 Bd)) as DOK.
  unfold is_date_name, date_string. destruct k.
  - rewrite ?app_assoc_s. rewrite (fields_ymd t _ y m d E) by lia.
    rewrite fields_dash. simpl rev. rewrite fields_two by lia. rewrite fields_dash. simpl rev.
    rewrite <- (app_empty_r (two (minute_of t))). rewrite fields_two by lia. simpl.
    rewrite DOK. rewrite (field_ok_two (hour_of t)) by lia. rewrite (field_ok_two (minute_of t)) by lia. reflexivity.
  - rewrite ?app_assoc_s. rewrite (fields_ymd t _ y m d E) by lia.
    rewrite fields_dash. simpl rev. rewrite <- (app_empty_r (two (hour_of t))). rewrite fields_two by lia. simpl.
    rewrite DOK. rewrite (field_ok_two (hour_of t)) by lia. reflexivity.
  - rewrite <- (app_empty_r (ymd_string t)). rewrite (fields_ymd t _ y m d E) by lia. simpl. exact DOK.
  - rewrite <- (app_empty_r (ymd_string t)). rewrite (fields_ymd t _ y m d E) by lia. simpl. exact DOK.
Qed.

(** the file the appender opens for a clock reading is one of the files its pruning considers *)
Theorem join_date_matches : forall c t, 0 <= t < TCAL -> matches c (join_date c t) = true.
Proof.
  intros c t Ht. unfold matches, join_date. pose proof (is_date_name_date_string (rot c) t Ht) as HD.
  destruct (rot c) eqn:Ek; destruct (prefix c) as [p|], (suffix c) as [s|]; cbv beta iota zeta.
  all: rewrite ?prefix_app, ?prefix_refl.
  all: rewrite <- ?app_assoc_s.
  all: rewrite ?ends_with_app, ?ends_with_refl, ?HD.
  all: reflexivity.
Qed.
