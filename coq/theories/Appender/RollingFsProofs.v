(** C16 — the file-system invariant shared by both interfaces: what [refresh] (prune + create + swap)
    and [do_append] preserve.  [Stored] is "every buffer is stored exactly once, whole and in order":
    per file name, the buffers held by the successive incarnations of that name (pruned ones, in
    [grave], then the live one) are exactly the writes that landed in that name, in landing order. *)
From Coq Require Import ZArith NArith List String Bool Lia Permutation Sorted.
From TV Require Import Appender.RollingModel Appender.RollingDirProofs.
Import ListNotations.
Local Notation length := List.length.

Definition landed_in (n : string) (ls : list land) : list (Z * chunk) :=
  map (fun l => (l_t l, l_buf l)) (filter (fun l => String.eqb (l_file l) n) (rev ls)).

Definition Stored (s : state) : Prop :=
  forall n, flat_map landed (filter (has_name n) (grave s ++ dir s)) = landed_in n (lands s).

Definition count_logs (c : config) (d : list file) : nat := length (filter (fun f => matches c (fname f)) d).

Definition Limit (c : config) (s : state) : Prop :=
  refreshed s = true -> forall m, max_files c = Some m -> (1 <= m)%nat -> (count_logs c (dir s) <= m)%nat.

Definition FSInv (c : config) (s : state) : Prop :=
  DirOK (dir s) (tick s) /\ in_dir (cur s) (dir s) = true /\ Stored s /\ Limit c s.

Lemma landed_in_cons n l ls :
  landed_in n (l :: ls) = landed_in n ls ++ (if String.eqb (l_file l) n then [(l_t l, l_buf l)] else []).
Proof.
  unfold landed_in. simpl. rewrite filter_app, map_app. simpl. destruct (String.eqb (l_file l) n); reflexivity.
Qed.

(** * do_append on a file that exists *)
Lemma FSInv_append c s f t b i cl n :
  FSInv c s -> in_dir f (dir s) = true -> FSInv c (do_append s f t b i cl n).
Proof.
  intros [HD [HC [HS HL]]] Hf. unfold FSInv, do_append; simpl. split; [|split; [|split]].
  - apply DirOK_append; auto.
  - rewrite append_in_dir; auto.
  - intro m. unfold Stored in *; simpl. rewrite landed_in_cons. simpl. rewrite filter_app, flat_map_app.
    specialize (HS m). rewrite filter_app, flat_map_app in HS.
    destruct (String.eqb f m) eqn:E.
    + apply String.eqb_eq in E. subst m. rewrite append_filter_same by apply HD. rewrite Hf.
      rewrite app_assoc. rewrite HS. reflexivity.
    + apply String.eqb_neq in E. rewrite append_filter_other by congruence. rewrite app_nil_r. exact HS.
  - unfold Limit in *; simpl. intros R m Hm H1. specialize (HL R m Hm H1). unfold count_logs in *.
    assert (E : map fname (filter (fun f0 => matches c (fname f0)) (append_to f (t, b) (dir s))) =
                map fname (filter (fun f0 => matches c (fname f0)) (dir s))).
    { generalize (dir s). induction l as [|a l IH]; simpl; auto.
      destruct (has_name f a); simpl; destruct (matches c (fname a)); simpl; rewrite IH; reflexivity. }
    rewrite <- (map_length fname), E, map_length. exact HL.
Qed.

(** * refresh *)
Lemma count_logs_create c n d tk : (count_logs c (fst (create n d tk)) <= S (count_logs c d))%nat.
Proof.
  unfold count_logs. destruct (create_cases n d tk) as [[E ->]|[E ->]]; simpl; [lia|].
  rewrite filter_app, app_length. simpl. destruct (matches c n); simpl; lia.
Qed.

Lemma FSInv_refresh c s t : FSInv c s -> FSInv c (refresh c s t).
Proof.
  intros [HD [HC [HS HL]]]. unfold FSInv, refresh.
  destruct (max_files c) as [m|] eqn:Hmax.
  - destruct (prune c m (dir s)) as [d1 removed] eqn:Hp.
    assert (Hd1 : d1 = fst (prune c m (dir s))) by (rewrite Hp; reflexivity).
    assert (Hrm : removed = snd (prune c m (dir s))) by (rewrite Hp; reflexivity).
    destruct (create (join_date c t) d1 (tick s)) as [d2 tk] eqn:Hc.
    assert (Hd2 : d2 = fst (create (join_date c t) d1 (tick s))) by (rewrite Hc; reflexivity).
    assert (Htk : tk = snd (create (join_date c t) d1 (tick s))) by (rewrite Hc; reflexivity).
    simpl. split; [|split; [|split]].
    + subst d2 tk. apply DirOK_create. subst d1. apply DirOK_prune; auto.
    + subst d2. apply create_in.
    + intro n. unfold Stored in *; simpl. specialize (HS n).
      rewrite filter_app, flat_map_app in HS. rewrite !filter_app, !flat_map_app.
      rewrite <- HS. rewrite <- app_assoc. f_equal.
      rewrite <- (prune_filter_name c m (dir s) n) by apply HD. rewrite flat_map_app. rewrite <- Hrm, <- Hd1. f_equal.
      subst d2. destruct (create_cases (join_date c t) d1 (tick s)) as [[E ->]|[E ->]]; simpl; auto.
      rewrite filter_app, flat_map_app. simpl. destruct (has_name n _); simpl; rewrite app_nil_r; reflexivity.
    + unfold Limit; simpl. intros _ m' Hm' H1. rewrite Hmax in Hm'. inversion Hm'; subst m'.
      subst d2. etransitivity; [apply count_logs_create|]. subst d1.
      pose proof (prune_count c m (dir s) H1). unfold count_logs. lia.
  - destruct (create (join_date c t) (dir s) (tick s)) as [d2 tk] eqn:Hc.
    assert (Hd2 : d2 = fst (create (join_date c t) (dir s) (tick s))) by (rewrite Hc; reflexivity).
    assert (Htk : tk = snd (create (join_date c t) (dir s) (tick s))) by (rewrite Hc; reflexivity).
    simpl. split; [|split; [|split]].
    + subst d2 tk. apply DirOK_create. auto.
    + subst d2. apply create_in.
    + intro n. unfold Stored in *; simpl. specialize (HS n). rewrite app_nil_r.
      rewrite filter_app, flat_map_app in HS. rewrite !filter_app, !flat_map_app.
      rewrite <- HS. f_equal.
      subst d2. destruct (create_cases (join_date c t) (dir s) (tick s)) as [[E ->]|[E ->]]; simpl; auto.
      rewrite filter_app, flat_map_app. simpl. destruct (has_name n _); simpl; rewrite app_nil_r; reflexivity.
    + unfold Limit; simpl. intros _ m' Hm'. congruence.
Qed.

(** * the initial state *)
Definition PreOK (pre : list file) (tick0 : N) : Prop :=
  DirOK pre tick0 /\ forall f, In f pre -> landed f = [].

Lemma flat_map_landed_nil d p : (forall f, In f d -> landed f = []) -> flat_map landed (filter p d) = [].
Proof.
  induction d as [|a d IH]; simpl; intros H; auto. destruct (p a); simpl; [rewrite (H a) by auto; simpl|]; apply IH; auto.
Qed.

(** what a new appender needs of the directory it is built over, and what every lifetime leaves behind *)
Definition GoodFS (s : state) : Prop :=
  DirOK (dir s) (tick s) /\ Stored s /\ (forall l, In l (lands s) -> (l_life l <= life s)%nat).

Lemma Stored_create s n : forall d tk, create n (dir s) (tick s) = (d, tk) ->
  forall m, flat_map landed (filter (has_name m) (grave s ++ d)) = flat_map landed (filter (has_name m) (grave s ++ dir s)).
Proof.
  intros d tk Hc m. rewrite !filter_app, !flat_map_app. f_equal.
  destruct (create_cases n (dir s) (tick s)) as [[E Hx]|[E Hx]]; rewrite Hx in Hc; inversion Hc; subst; auto.
  rewrite filter_app, flat_map_app. simpl. destruct (has_name m _); simpl; rewrite app_nil_r; reflexivity.
Qed.

Lemma FSInv_restart c s t0 : next_ok (rot c) t0 = true -> DirOK (dir s) (tick s) -> Stored s -> FSInv c (restart c s t0).
Proof.
  intros Hok HD HS. unfold restart. rewrite Hok.
  destruct (create (join_date c t0) (dir s) (tick s)) as [d tk] eqn:Hc.
  assert (Hd : d = fst (create (join_date c t0) (dir s) (tick s))) by (rewrite Hc; reflexivity).
  assert (Htk : tk = snd (create (join_date c t0) (dir s) (tick s))) by (rewrite Hc; reflexivity).
  unfold FSInv; simpl. split; [|split; [|split]].
  - subst. apply DirOK_create; auto.
  - subst. apply create_in.
  - intro n. unfold Stored; simpl. rewrite (Stored_create s (join_date c t0) d tk Hc n). apply HS.
  - unfold Limit; simpl. congruence.
Qed.

Lemma GoodFS_blank pre tick0 : PreOK pre tick0 -> GoodFS (blank pre tick0).
Proof.
  intros [HD HL]. unfold GoodFS, blank; simpl. split; [exact HD|split; [|tauto]].
  intro n. unfold Stored; simpl. unfold landed_in; simpl. apply flat_map_landed_nil. exact HL.
Qed.

Lemma FSInv_init c pre tick0 t0 : next_ok (rot c) t0 = true -> PreOK pre tick0 -> FSInv c (init c pre tick0 t0).
Proof. intros Hok H. destruct (GoodFS_blank pre tick0 H) as [HD [HS _]]. apply FSInv_restart; auto. Qed.

(** fields the two lemmas above do not look at *)
Lemma FSInv_ext c s s' :
  dir s' = dir s -> tick s' = tick s -> cur s' = cur s -> grave s' = grave s -> lands s' = lands s ->
  refreshed s' = refreshed s -> FSInv c s -> FSInv c s'.
Proof.
  intros E1 E2 E3 E4 E5 E6 [HD [HC [HS HL]]]. unfold FSInv, Stored, Limit in *. rewrite E1, E2, E3, E4, E5, E6. auto.
Qed.

(** * what a refresh removes: the oldest of the appender's files, and only those *)
Lemma refresh_removes_oldest c s t m :
  max_files c = Some m -> DirOK (dir s) (tick s) ->
  forall r, In r (dir s) -> ~ In r (dir (refresh c s t)) ->
    matches c (fname r) = true /\
    forall k, In k (dir s) -> In k (dir (refresh c s t)) -> matches c (fname k) = true -> (created r < created k)%N.
Proof.
  intros Hmax [ND [NC HT]] r Hr Hnr. unfold refresh in *. rewrite Hmax in *.
  destruct (prune c m (dir s)) as [d1 removed] eqn:Hp.
  assert (Hd1 : d1 = fst (prune c m (dir s))) by (rewrite Hp; reflexivity).
  assert (Hrm : removed = snd (prune c m (dir s))) by (rewrite Hp; reflexivity).
  destruct (create (join_date c t) d1 (tick s)) as [d2 tk] eqn:Hc.
  assert (Hd2 : d2 = fst (create (join_date c t) d1 (tick s))) by (rewrite Hc; reflexivity).
  simpl in *.
  assert (Hrem : In r removed).
  { destruct (prune_partition c m (dir s) r Hr) as [H|H]; [|subst; auto].
    exfalso. apply Hnr. subst d2. apply create_keeps. subst d1; auto. }
  split.
  - subst removed. eapply prune_removed_matching; eauto.
  - intros k Hk Hk2 Hm.
    assert (Hk1 : In k d1).
    { destruct (prune_partition c m (dir s) k Hk) as [H|H]; [subst; auto|].
      (* k was removed but is in the new directory: impossible, the only new file has a fresh stamp *)
      exfalso. subst d2. destruct (create_cases (join_date c t) d1 (tick s)) as [[E Hx]|[E Hx]]; rewrite Hx in Hk2; simpl in Hk2.
      - subst d1. rewrite prune_unfold in Hk2, H. destruct (length (filter _ (dir s)) <? m)%nat; simpl in *; [tauto|].
        apply filter_In in Hk2. apply filter_In in H. destruct Hk2 as [_ A], H as [_ B]. rewrite B in A. discriminate.
      - apply in_app_or in Hk2. destruct Hk2 as [Hk2|[Hk2|[]]].
        + subst d1. rewrite prune_unfold in Hk2, H. destruct (length (filter _ (dir s)) <? m)%nat; simpl in *; [tauto|].
          apply filter_In in Hk2. apply filter_In in H. destruct Hk2 as [_ A], H as [_ B]. rewrite B in A. discriminate.
        + specialize (HT k Hk). subst k. simpl in HT. lia. }
    subst. eapply prune_oldest_first; eauto.
Qed.

(** a rotation never touches an entry that is not one of the appender's log files: same name, bytes, stamp *)
Lemma refresh_keeps_foreign c s t f :
  DirOK (dir s) (tick s) -> In f (dir s) -> matches c (fname f) = false -> In f (dir (refresh c s t)).
Proof.
  intros [ND _] Hf Hnm. unfold refresh. destruct (max_files c) as [m|].
  - destruct (prune c m (dir s)) as [d1 rm] eqn:Hp.
    assert (Hd1 : d1 = fst (prune c m (dir s))) by (rewrite Hp; reflexivity).
    destruct (create (join_date c t) d1 (tick s)) as [d2 tk] eqn:Hc.
    assert (Hd2 : d2 = fst (create (join_date c t) d1 (tick s))) by (rewrite Hc; reflexivity).
    simpl. subst d2. apply create_keeps. subst d1. apply prune_keeps_foreign; auto.
  - destruct (create (join_date c t) (dir s) (tick s)) as [d2 tk] eqn:Hc.
    assert (Hd2 : d2 = fst (create (join_date c t) (dir s) (tick s))) by (rewrite Hc; reflexivity).
    simpl. subst d2. apply create_keeps. exact Hf.
Qed.

(** what a rotation removes, exactly: the [len - (max-1)] oldest of the appender's files when there are at least
    [max] of them, nothing otherwise - and the new period's file is the only thing it may add *)
Lemma refresh_exact c s t m : max_files c = Some m -> (1 <= m)%nat -> DirOK (dir s) (tick s) ->
  let len := count_logs c (dir s) in
  let k := if (len <? m)%nat then 0%nat else (len - (m - 1))%nat in
  Permutation (snd (prune c m (dir s))) (firstn k (sort_by_created (filter (fun f => matches c (fname f)) (dir s)))) /\
  length (snd (prune c m (dir s))) = k /\
  grave (refresh c s t) = grave s ++ snd (prune c m (dir s)) /\
  dir (refresh c s t) = fst (create (join_date c t) (fst (prune c m (dir s))) (tick s)) /\
  count_logs c (fst (prune c m (dir s))) = (len - k)%nat.
Proof.
  intros Hm H1 [ND _]. destruct (prune_exact c m (dir s) H1 ND) as [P1 [P2 [P3 _]]].
  split; [exact P1|split; [exact P2|]]. unfold refresh. rewrite Hm.
  destruct (prune c m (dir s)) as [d1 rm]. destruct (create (join_date c t) d1 (tick s)) as [d2 tk] eqn:Hc. simpl.
  split; [reflexivity|split; [rewrite Hc; reflexivity|exact P3]].
Qed.
