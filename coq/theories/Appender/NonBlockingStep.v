(** C15 — the step function of the non-blocking model as a relation with one named constructor per
    way a step can happen ([step c faults s l = Some s'] iff [Step c faults s l s']).  Invariant proofs
    case on this relation instead of unfolding the function. *)
From Coq Require Import List NArith Arith Bool Lia.
From TV Require Import Appender.NonBlockingModel.
Import ListNotations.
Local Open Scope nat_scope.

Definition flush_next (c : config) (st : wstate) (bad : bool) : wpc :=
  if terminal st
  then (if bad then match var c with FlushErrLosesState => WRecv | FlushErrKeepsTerminal => WRelease end
        else WRelease)
  else WRecv.

Definition prod_advance (s : state) (p : nat) (r : list line) : state :=
  set_prods s (upd_nth p {| rem := r; popen := true |} (prods s)).

Inductive Step (c : config) (faults : nat -> bool) (s : state) : label -> state -> Prop :=
(* worker *)
| S_recv_line : forall l r, pc s = WRecv -> q s = Line l :: r ->
    Step c faults s LWorker (set_pc (set_q s r) (WWrite l))
| S_recv_sd : forall r, pc s = WRecv -> q s = Shutdown :: r ->
    Step c faults s LWorker (set_pc (set_q s r) (WFlush StShutdown))
| S_recv_disc : pc s = WRecv -> q s = [] -> senders s = 0 ->
    Step c faults s LWorker (set_pc s (WFlush StDisconnected))
| S_write : forall l, pc s = WWrite l ->
    Step c faults s LWorker
      (set_pc (call s (EvWrite l (negb (faults (ncalls s))))) (if faults (ncalls s) then WRecv else WTry))
| S_try_line : forall l r, pc s = WTry -> q s = Line l :: r ->
    Step c faults s LWorker (set_pc (set_q s r) (WWrite l))
| S_try_sd : forall r, pc s = WTry -> q s = Shutdown :: r ->
    Step c faults s LWorker (set_pc (set_q s r) (WFlush StShutdown))
| S_try_none : pc s = WTry -> q s = [] ->
    Step c faults s LWorker (set_pc s (WFlush (if senders s =? 0 then StDisconnected else StEmpty)))
| S_flush : forall st, pc s = WFlush st ->
    Step c faults s LWorker
      (set_pc (call s (EvFlush (negb (faults (ncalls s))))) (flush_next c st (faults (ncalls s))))
| S_release : pc s = WRelease ->
    Step c faults s LWorker (set_pc (set_log s (log s ++ [EvDropWriter])) WRendezvous)
| S_exit : forall b, pc s = WRendezvous -> guard s = GDone b ->
    Step c faults s LWorker (set_pc s WExit)
(* producers *)
| S_accept : forall p l r, nth_error (prods s) p = Some {| rem := l :: r; popen := true |} ->
    recv_alive s = true -> length (q s) < cap c ->
    Step c faults s (LProd p)
      (set_hist (set_q (prod_advance s p r) (q s ++ [Line l])) (hist s ++ [(p, l, Accepted)]))
| S_drop : forall p l r, nth_error (prods s) p = Some {| rem := l :: r; popen := true |} ->
    lossy c = true -> (recv_alive s = false \/ cap c <= length (q s)) ->
    Step c faults s (LProd p)
      (set_hist (set_dropped (prod_advance s p r) (incr_saturating (dropped s))) (hist s ++ [(p, l, Dropped)]))
| S_refuse : forall p l r, nth_error (prods s) p = Some {| rem := l :: r; popen := true |} ->
    lossy c = false -> recv_alive s = false ->
    Step c faults s (LProd p) (set_hist (prod_advance s p r) (hist s ++ [(p, l, Refused)]))
| S_close : forall p r, nth_error (prods s) p = Some {| rem := r; popen := true |} ->
    Step c faults s (LClose p) (set_prods s (upd_nth p {| rem := r; popen := false |} (prods s)))
(* guard *)
| S_gbegin : guard s = GHeld -> Step c faults s LGBegin (set_guard s GSending)
| S_gsend_dead : guard s = GSending -> recv_alive s = false ->
    Step c faults s LGSend (set_guard s (GDone false))
| S_gsend : guard s = GSending -> recv_alive s = true -> length (q s) < cap c ->
    Step c faults s LGSend
      (set_mark (set_guard (set_q s (q s ++ [Shutdown])) GWaitRdv) (Some (length (accepted s))))
| S_t100 : guard s = GSending -> Step c faults s LGTimeout100 (set_guard s (GDone false))
| S_rdv : guard s = GWaitRdv -> pc s = WRendezvous ->
    Step c faults s LRendezvous (set_pc (set_guard s GJoin) WExit)
| S_t1000 : guard s = GWaitRdv -> Step c faults s LGTimeout1000 (set_guard s (GDone false))
| S_gjoin : guard s = GJoin -> pc s = WExit -> Step c faults s LGJoin (set_guard s (GDone true)).

Lemma step_Step : forall c faults s l s', step c faults s l = Some s' -> Step c faults s l s'.
Proof.
  intros c faults s l s' H. destruct l; simpl in H.
  - (* LProd *)
    unfold pstep in H.
    destruct (nth_error (prods s) p) as [[rm op]|] eqn:E; [|discriminate].
    destruct rm as [|x r]; [discriminate|]. destruct op; [|discriminate].
    destruct (lossy c) eqn:L.
    + destruct (recv_alive s) eqn:RA; simpl in H.
      * destruct (Nat.ltb_spec (length (q s)) (cap c)); inversion H; subst; clear H.
        -- apply S_accept; auto.
        -- apply S_drop; auto.
      * inversion H; subst; clear H. apply S_drop; auto.
    + destruct (recv_alive s) eqn:RA; simpl in H.
      * destruct (Nat.ltb_spec (length (q s)) (cap c)); [|discriminate]. inversion H; subst; clear H.
        apply S_accept; auto.
      * inversion H; subst; clear H. apply S_refuse; auto.
  - (* LClose *)
    unfold cstep in H.
    destruct (nth_error (prods s) p) as [[rm op]|] eqn:E; [|discriminate].
    destruct op; [|discriminate]. inversion H; subst; clear H. apply S_close; auto.
  - (* LWorker *)
    unfold wstep in H. destruct (pc s) eqn:P.
    + destruct (q s) as [|[l|] r] eqn:Q.
      * destruct (Nat.eqb_spec (senders s) 0); [|discriminate]. inversion H; subst; clear H. apply S_recv_disc; auto.
      * inversion H; subst; clear H. eapply S_recv_line; eauto.
      * inversion H; subst; clear H. eapply S_recv_sd; eauto.
    + inversion H; subst; clear H. apply S_write; auto.
    + destruct (q s) as [|[l|] r] eqn:Q; inversion H; subst; clear H.
      * apply S_try_none; auto.
      * eapply S_try_line; eauto.
      * eapply S_try_sd; eauto.
    + inversion H; subst; clear H. apply (S_flush c faults s st); auto.
    + inversion H; subst; clear H. apply S_release; auto.
    + destruct (guard s) eqn:G; try discriminate. inversion H; subst; clear H. eapply S_exit; eauto.
    + discriminate.
  - destruct (guard s) eqn:G; try discriminate. inversion H; subst; clear H. apply S_gbegin; auto.
  - destruct (guard s) eqn:G; try discriminate.
    destruct (recv_alive s) eqn:RA; simpl in H.
    + destruct (Nat.ltb_spec (length (q s)) (cap c)); [|discriminate]. inversion H; subst; clear H. apply S_gsend; auto.
    + inversion H; subst; clear H. apply S_gsend_dead; auto.
  - destruct (guard s) eqn:G; try discriminate. inversion H; subst; clear H. apply S_t100; auto.
  - destruct (guard s) eqn:G; try discriminate. destruct (pc s) eqn:P; try discriminate.
    inversion H; subst; clear H. apply S_rdv; auto.
  - destruct (guard s) eqn:G; try discriminate. inversion H; subst; clear H. apply S_t1000; auto.
  - destruct (guard s) eqn:G; try discriminate. destruct (pc s) eqn:P; try discriminate.
    inversion H; subst; clear H. apply S_gjoin; auto.
Qed.

Lemma Step_step : forall c faults s l s', Step c faults s l s' -> step c faults s l = Some s'.
Proof.
  intros c faults s l s' H.
  destruct H; simpl; unfold wstep, pstep, cstep, prod_advance, flush_next in *;
    repeat match goal with E : _ = _ |- _ => rewrite E end; simpl; auto.
  all: try match goal with H : _ < _ |- _ => apply Nat.ltb_lt in H; rewrite H end; simpl; auto.
  - destruct (lossy c); reflexivity.
  - match goal with H : _ \/ _ |- _ => destruct H as [RA|F] end.
    + rewrite RA. reflexivity.
    + apply Nat.ltb_ge in F. rewrite F, andb_false_r. reflexivity.
Qed.

Theorem step_iff_Step : forall c faults s l s', step c faults s l = Some s' <-> Step c faults s l s'.
Proof. split; [apply step_Step | apply Step_step]. Qed.
