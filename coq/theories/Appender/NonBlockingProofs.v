(** C15 — invariants of the non-blocking model, for every schedule and every fault set:
    conservation (accepted = attempted ++ in flight ++ queued, as sequences), program order,
    drop accounting (saturating counter), enabledness (who blocks when). *)
From Coq Require Import List NArith Arith Bool Lia.
From TV Require Import Appender.NonBlockingModel Appender.NonBlockingSched.
Import ListNotations.
Local Open Scope nat_scope.

(** Case analysis of one step: every way [step c faults s l = Some s'] can hold. *)
Ltac inv_step H :=
  unfold step, pstep, cstep, wstep in H;
  repeat match type of H with
         | context [match ?x with _ => _ end] => destruct x eqn:?; try discriminate
         end;
  inversion H; subst; clear H.

Lemma inv_reachP : forall c faults (P : state -> label -> Prop) (Inv : state -> Prop),
  Inv (init c) ->
  (forall s l s', reachP c faults P s -> Inv s -> P s l -> step c faults s l = Some s' -> Inv s') ->
  forall s, reachP c faults P s -> Inv s.
Proof. intros c faults P Inv H0 HS s R. induction R; eauto. Qed.

(* ---------- list facts ---------- *)
Lemma attempts_of_app : forall a b, attempts_of (a ++ b) = attempts_of a ++ attempts_of b.
Proof. induction a as [|e a IH]; simpl; intros; auto. destruct e; simpl; rewrite ?IH; auto. Qed.

Lemma qlines_app : forall a b, qlines (a ++ b) = qlines a ++ qlines b.
Proof. induction a as [|m a IH]; simpl; intros; auto. destruct m; simpl; rewrite ?IH; auto. Qed.

Lemma nth_error_upd_nth_same : forall A (l : list A) n x y, nth_error l n = Some y -> nth_error (upd_nth n x l) n = Some x.
Proof. induction l; destruct n; simpl; intros; try discriminate; eauto. Qed.

Lemma nth_error_upd_nth_other : forall A (l : list A) n m x, n <> m -> nth_error (upd_nth n x l) m = nth_error l m.
Proof. induction l; destruct n, m; simpl; intros; auto; try congruence. Qed.

Lemma length_upd_nth : forall A (l : list A) n x, length (upd_nth n x l) = length l.
Proof. induction l; destruct n; simpl; intros; auto. Qed.

(* ---------- I1: conservation ---------- *)
Definition Conserv (s : state) : Prop := accepted s = map fst (attempts s) ++ pending s.

Lemma conserv_step : forall c faults s l s', Conserv s -> step c faults s l = Some s' -> Conserv s'.
Proof.
  unfold Conserv, accepted, attempts, pending. intros c faults s l s' I H.
  inv_step H; simpl in *;
    repeat (rewrite ?filter_app, ?map_app, ?attempts_of_app, ?qlines_app, ?app_nil_r in *; simpl in * );
    try match goal with E : pc _ = _ |- _ => rewrite E in *; simpl in * end;
    try match goal with E : q _ = _ |- _ => rewrite E in *; simpl in * end;
    rewrite ?I, ?app_nil_r, <- ?app_assoc; simpl; auto.
Qed.

Theorem conservation : forall c faults s, reachable c faults s -> Conserv s.
Proof.
  intros c faults. apply inv_reachP. reflexivity. intros; eapply conserv_step; eauto.
Qed.

(* ---------- I2: program order ---------- *)
Definition rem_at (ps : list prod) (p : nat) : list line :=
  match nth_error ps p with Some pr => rem pr | None => [] end.
Definition rem_of (s : state) (p : nat) : list line := rem_at (prods s) p.
Definition lines_of (p : nat) (h : list hentry) : list line := map hline (filter (fun e => hpid e =? p) h).

(** what producer p has offered so far, followed by what it still has to offer, is its program *)
Definition ProgOrder (c : config) (s : state) : Prop :=
  forall p, lines_of p (hist s) ++ rem_of s p = nth p (progs c) [].

Lemma lines_of_snoc : forall p h e, lines_of p (h ++ [e]) = lines_of p h ++ (if hpid e =? p then [hline e] else []).
Proof. intros. unfold lines_of. rewrite filter_app, map_app. simpl. destruct (hpid e =? p); auto. Qed.

Lemma rem_at_upd : forall ps p pr x p', nth_error ps p = Some pr ->
  rem_at (upd_nth p x ps) p' = if p =? p' then rem x else rem_at ps p'.
Proof.
  intros. unfold rem_at. destruct (Nat.eqb_spec p p').
  - subst. erewrite nth_error_upd_nth_same; eauto.
  - rewrite nth_error_upd_nth_other; auto.
Qed.

Lemma progorder_init : forall c, ProgOrder c (init c).
Proof.
  intros c p. unfold rem_of, rem_at, lines_of. simpl. rewrite nth_error_map.
  destruct (nth_error (progs c) p) eqn:E; simpl.
  - symmetry. apply nth_error_nth. auto.
  - apply nth_error_None in E. rewrite nth_overflow; auto.
Qed.

Lemma progorder_step : forall c faults s l s', ProgOrder c s -> step c faults s l = Some s' -> ProgOrder c s'.
Proof.
  intros c faults s l s' I H.
  destruct l; try solve [inv_step H; intro p'; specialize (I p'); unfold rem_of, rem_at in *; simpl in *; auto].
  - (* LProd *)
    unfold step, pstep in H.
    destruct (nth_error (prods s) p) as [[r o]|] eqn:E; [|discriminate].
    destruct r as [|x r]; [discriminate|]. destruct o; [|discriminate].
    assert (K: forall oc q' d', ProgOrder c
       (set_hist (set_dropped (set_q (set_prods s (upd_nth p {| rem := r; popen := true |} (prods s))) q') d') (hist s ++ [(p, x, oc)]))).
    { intros oc q' d' p'. specialize (I p').
      change (hist (set_hist _ ?h)) with h.
      rewrite lines_of_snoc. unfold hpid, hline; simpl.
      unfold rem_of in *; simpl. erewrite rem_at_upd by eauto. simpl.
      destruct (Nat.eqb_spec p p').
      - subst. rewrite <- I. unfold rem_at. rewrite E. simpl. rewrite <- app_assoc. reflexivity.
      - rewrite app_nil_r. exact I. }
    destruct (lossy c); [destruct (recv_alive s && (length (q s) <? cap c))|
                         destruct (negb (recv_alive s)); [|destruct (length (q s) <? cap c); [|discriminate]]];
      inversion H; subst; clear H;
      first [ exact (K _ _ _) | apply (K Accepted (q s ++ [Line x]) (dropped s)) | apply (K Refused (q s) (dropped s))
            | apply (K Dropped (q s) (incr_saturating (dropped s))) ].
  - (* LClose *)
    unfold step, cstep in H.
    destruct (nth_error (prods s) p) as [[r o]|] eqn:E; [|discriminate].
    destruct o; [|discriminate]. inversion H; subst; clear H.
    intro p'. specialize (I p'). unfold rem_of in *; simpl. erewrite rem_at_upd by eauto. simpl.
    destruct (Nat.eqb_spec p p'); auto. subst. rewrite <- I. unfold rem_at. rewrite E. reflexivity.
Qed.

Theorem program_order : forall c faults s, reachable c faults s -> ProgOrder c s.
Proof.
  intros c faults. apply inv_reachP. apply progorder_init. intros; eapply progorder_step; eauto.
Qed.

(* ---------- I3: drop accounting ---------- *)
Definition nacc (h : list hentry) := length (filter is_acc h).
Definition ndrop (h : list hentry) := length (filter is_drop h).
Definition nref (h : list hentry) := length (filter is_ref h).

Lemma hist_partition : forall h, length h = nacc h + ndrop h + nref h.
Proof.
  unfold nacc, ndrop, nref, is_acc, is_drop, is_ref. induction h as [|[[p l] o] h IH]; simpl; auto.
  destruct o; simpl; lia.
Qed.

Definition DropAcct (c : config) (s : state) : Prop :=
  dropped s = N.min MAXN (N.of_nat (ndrop (hist s))) /\
  (lossy c = false -> ndrop (hist s) = 0) /\
  (lossy c = true -> nref (hist s) = 0).

Lemma incr_saturating_spec : forall k, incr_saturating (N.min MAXN (N.of_nat k)) = N.min MAXN (N.of_nat (S k)).
Proof.
  intros. unfold incr_saturating. rewrite Nat2N.inj_succ.
  destruct (N.eqb_spec (N.min MAXN (N.of_nat k)) MAXN); lia.
Qed.

Lemma count_snoc : forall (f : hentry -> bool) h e, length (filter f (h ++ [e])) = length (filter f h) + (if f e then 1 else 0).
Proof. intros. rewrite filter_app, app_length. simpl. destruct (f e); auto. Qed.

Lemma dropacct_step : forall c faults s l s', DropAcct c s -> step c faults s l = Some s' -> DropAcct c s'.
Proof.
  unfold DropAcct, ndrop, nref. intros c faults s l s' (D & NL & LY) H.
  inv_step H; simpl; auto; rewrite !count_snoc; unfold is_drop, is_ref; simpl; rewrite ?Nat.add_0_r;
    repeat split; auto; try congruence;
    try (rewrite D, Nat.add_1_r; apply incr_saturating_spec).
Qed.

Theorem drop_accounting : forall c faults s, reachable c faults s -> DropAcct c s.
Proof.
  intros c faults. apply inv_reachP. repeat split; auto. intros; eapply dropacct_step; eauto.
Qed.

(* ---------- enabledness: who blocks when ---------- *)
Lemma producer_blocks_iff : forall c s p x r,
  nth_error (prods s) p = Some {| rem := x :: r; popen := true |} ->
  (pstep c s p = None <-> lossy c = false /\ recv_alive s = true /\ cap c <= length (q s)).
Proof.
  intros c s p x r E. unfold pstep. rewrite E.
  destruct (lossy c); [destruct (recv_alive s && (length (q s) <? cap c)); split; intros; try discriminate; intuition discriminate|].
  destruct (recv_alive s); simpl.
  - destruct (Nat.ltb_spec (length (q s)) (cap c)); split; intros; try discriminate; intuition; lia.
  - split; intros; try discriminate. intuition discriminate.
Qed.

Lemma lossy_never_blocks : forall c s p x r, lossy c = true ->
  nth_error (prods s) p = Some {| rem := x :: r; popen := true |} -> pstep c s p <> None.
Proof. intros c s p x r L E H. eapply producer_blocks_iff in H; eauto. destruct H; congruence. Qed.

(** a failed write_all leaves the queue and everything else alone and sends the worker back to recv() *)
Lemma failed_write_step : forall c faults s l, pc s = WWrite l -> faults (ncalls s) = true ->
  step c faults s LWorker = Some (set_pc (call s (EvWrite l false)) WRecv).
Proof. intros. unfold step, wstep. rewrite H, H0. reflexivity. Qed.

(* ---------- consequences of conservation at the level of sequences ---------- *)
Lemma written_split : forall s a l b, attempts s = a ++ (l, false) :: b ->
  written s = map fst (filter snd a) ++ map fst (filter snd b) /\
  map fst (attempts s) = map fst a ++ l :: map fst b.
Proof. intros s a l b E. unfold written. rewrite E, filter_app, !map_app. simpl. auto. Qed.
