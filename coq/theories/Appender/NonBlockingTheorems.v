(** C15 — the statements Properties/C15.v exports, assembled from the invariants
    (NonBlockingProofs.v, NonBlockingGuardProofs.v), plus the F11 witness and the busy loop. *)
From Coq Require Import List NArith Arith Bool Lia.
From TV Require Import Appender.NonBlockingModel Appender.NonBlockingSched Appender.NonBlockingStep
  Appender.NonBlockingProofs Appender.NonBlockingGuardProofs.
Import ListNotations.
Local Open Scope nat_scope.

(* ---------- the queue never holds more than its capacity ---------- *)
Definition QBound (c : config) (s : state) : Prop := length (q s) <= cap c.

Lemma qbound_step : forall c faults s l s', QBound c s -> Step c faults s l s' -> QBound c s'.
Proof.
  unfold QBound. intros c faults s l s' I H.
  destruct H; unfold prod_advance; simpl; rewrite ?app_length; simpl;
    repeat match goal with E : q _ = _ |- _ => rewrite E in *; simpl in * end; try lia.
Qed.

Theorem queue_bound : forall c faults s, reachable c faults s -> QBound c s.
Proof.
  intros c faults. apply inv_reachP. unfold QBound; simpl; lia.
  intros. eapply qbound_step; eauto. apply step_Step; eauto.
Qed.

(* ---------- order / no loss / no duplication ---------- *)
Lemma firstn_app_exact : forall A (a b : list A), firstn (length a) (a ++ b) = a.
Proof. intros. rewrite firstn_app, Nat.sub_diag, firstn_all. simpl. apply app_nil_r. Qed.
Lemma skipn_app_exact : forall A (a b : list A), skipn (length a) (a ++ b) = b.
Proof. intros. rewrite skipn_app, Nat.sub_diag, skipn_all. reflexivity. Qed.

(** The k-th call of write_all carries exactly the k-th accepted line; what has not been handed to
    write_all yet is what the worker holds plus the queue, in order; [written] is the attempts that did
    not fail.  So: nothing accepted is lost (except to a failed write), duplicated or reordered. *)
Theorem written_is_accepted_in_order : forall c faults s, reachable c faults s ->
  map fst (attempts s) = firstn (length (attempts s)) (accepted s) /\
  pending s = skipn (length (attempts s)) (accepted s) /\
  written s = map fst (filter snd (attempts s)) /\
  (pending s = [] -> map fst (attempts s) = accepted s).
Proof.
  intros c faults s R. pose proof (conservation _ _ _ R) as CV. unfold Conserv in CV.
  rewrite CV. rewrite <- (map_length fst (attempts s)).
  rewrite firstn_app_exact, skipn_app_exact. repeat split; auto.
  intros P. rewrite P, app_nil_r. reflexivity.
Qed.

(** One total order ([hist]) that agrees with every producer's own order. *)
Theorem per_producer_order : forall c faults s p, reachable c faults s ->
  lines_of p (hist s) ++ rem_of s p = nth p (progs c) [].
Proof. intros. eapply program_order; eauto. Qed.

(* ---------- accounting ---------- *)
Lemma attempts_partition : forall s, length (attempts s) = length (written s) + length (write_failed s).
Proof.
  intros s. unfold written, write_failed. rewrite !map_length.
  induction (attempts s) as [|[l b] a IH]; simpl; auto. destruct b; simpl; lia.
Qed.

Lemma nacc_accepted : forall s, nacc (hist s) = length (accepted s).
Proof. intros. unfold nacc, accepted. rewrite map_length. reflexivity. Qed.

Theorem offered_partition : forall c faults s, reachable c faults s ->
  offered s = length (written s) + length (write_failed s) + length (pending s) + ndrop (hist s) + nref (hist s).
Proof.
  intros c faults s R. unfold offered. rewrite hist_partition, nacc_accepted.
  pose proof (conservation _ _ _ R) as CV. unfold Conserv in CV. rewrite CV, app_length, map_length, attempts_partition. lia.
Qed.

Theorem lossy_accounting : forall c faults s, reachable c faults s -> lossy c = true ->
  offered s = length (written s) + length (write_failed s) + length (pending s) + ndrop (hist s) /\
  dropped s = N.min MAXN (N.of_nat (ndrop (hist s))) /\
  (dropped s <= MAXN)%N /\
  (pending s = [] ->
   N.of_nat (offered s) = (N.of_nat (length (written s)) + N.of_nat (length (write_failed s)) + N.of_nat (ndrop (hist s)))%N).
Proof.
  intros c faults s R L. pose proof (offered_partition _ _ _ R) as O.
  destruct (drop_accounting _ _ _ R) as (D & _ & NR). specialize (NR L).
  split; [lia|]. split; [exact D|]. split; [rewrite D; lia|].
  intros P. rewrite P in O. simpl in O. lia.
Qed.

Theorem nonlossy_no_drop : forall c faults s, reachable c faults s -> lossy c = false ->
  dropped s = 0%N /\ ndrop (hist s) = 0 /\
  offered s = length (written s) + length (write_failed s) + length (pending s) + nref (hist s) /\
  length (q s) <= cap c /\
  (forall p x r, nth_error (prods s) p = Some {| rem := x :: r; popen := true |} ->
     (step c faults s (LProd p) = None <-> recv_alive s = true /\ cap c <= length (q s))).
Proof.
  intros c faults s R L. pose proof (offered_partition _ _ _ R) as O.
  destruct (drop_accounting _ _ _ R) as (D & ND & _). specialize (ND L).
  split; [rewrite D, ND; reflexivity|]. split; [exact ND|]. split; [lia|].
  split; [eapply queue_bound; eauto|].
  intros p x r E. simpl. split; intros H.
  - eapply producer_blocks_iff in H; eauto. tauto.
  - eapply producer_blocks_iff; eauto.
Qed.

(** a refused write needs a dead receiver, i.e. a worker that has exited *)
Lemma lossy_never_blocks' : forall c faults s p x r, lossy c = true ->
  nth_error (prods s) p = Some {| rem := x :: r; popen := true |} -> step c faults s (LProd p) <> None.
Proof. intros. simpl. eapply lossy_never_blocks; eauto. Qed.

(* ---------- a failed write affects only its own line ---------- *)
Theorem error_local : forall c faults s l, pc s = WWrite l -> faults (ncalls s) = true ->
  exists s', step c faults s LWorker = Some s' /\
    pc s' = WRecv /\ q s' = q s /\ hist s' = hist s /\ dropped s' = dropped s /\ prods s' = prods s /\
    guard s' = guard s /\
    attempts s' = attempts s ++ [(l, false)] /\
    written s' = written s /\
    pending s = l :: pending s'.
Proof.
  intros c faults s l P F. eexists. split. apply failed_write_step; eauto.
  unfold written, attempts, pending; simpl. rewrite attempts_of_app, filter_app, map_app. simpl.
  rewrite P, app_nil_r. simpl. repeat split; auto.
Qed.

Theorem error_local_sequence : forall s a l b, attempts s = a ++ (l, false) :: b ->
  written s = map fst (filter snd a) ++ map fst (filter snd b) /\
  map fst (attempts s) = map fst a ++ l :: map fst b.
Proof. exact written_split. Qed.

(* ---------- F11 ---------- *)
(** Shutdown has been consumed and forgotten: the guard waits for a rendezvous, the worker is back in its
    normal loop, no Shutdown is queued. *)
Definition Stuck (s : state) : Prop :=
  guard s = GWaitRdv /\ nsd (q s) = 0 /\ normal_pc (pc s) /\ writer_alive s = true.

Lemma stuck_step : forall c faults s l s', Stuck s -> Step c faults s l s' -> is_timeout l = false -> Stuck s'.
Proof.
  unfold Stuck. intros c faults s l s' (G & Z & NP & WA) H NT.
  assert (SP: senders s <> 0) by (unfold senders; rewrite G; lia).
  destruct H; unfold prod_advance; simpl in *;
    repeat match goal with
           | E : pc _ = _ |- _ => rewrite E in *
           | E : q _ = _ |- _ => rewrite E in *
           end; simpl in *; try discriminate; try congruence; try tauto;
    rewrite ?nsd_app; simpl; repeat split; auto; try lia; try tauto.
  - destruct (faults (ncalls s)); exact I.
  - unfold writer_alive in *. simpl. rewrite writer_alive_app, orb_false_r. exact WA.
  - destruct (Nat.eqb_spec (senders s) 0); [contradiction | exact I].
  - destruct st; simpl in NP; try (exfalso; exact NP). exact I.
  - unfold writer_alive in *. simpl. rewrite writer_alive_app, orb_false_r. exact WA.
Qed.

Definition no_timeouts (sched : list label) : Prop := Forall (fun l => is_timeout l = false) sched.

Theorem stuck_forever : forall c faults sched s s', Stuck s -> no_timeouts sched ->
  exec c faults sched s = Some s' -> Stuck s'.
Proof.
  induction sched as [|l r IH]; simpl; intros s s' St NT E.
  - inversion E; subst; auto.
  - destruct (step c faults s l) eqn:S1; [|discriminate]. inversion NT; subst.
    apply (IH s0 s'); auto. eapply stuck_step; eauto. apply step_Step; eauto.
Qed.

(** the witness: one producer, one line; the flush of the batch that consumed Shutdown (call 2) fails *)
Definition f11_config : config := {| cap := 2; lossy := true; var := FlushErrLosesState; progs := [[[1%N]]] |}.
Definition f11_faults : nat -> bool := faults_of [2].
Definition f11_sched : list label :=
  [LProd 0; LWorker; LWorker; LWorker; LWorker; LGBegin; LGSend; LWorker; LWorker].

Definition f11_fixed_config : config := {| cap := 2; lossy := true; var := FlushErrKeepsTerminal; progs := [[[1%N]]] |}.
Definition f11_fixed_sched : list label := f11_sched ++ [LWorker; LRendezvous; LGJoin].

Lemma f11_stuck : exists s, exec f11_config f11_faults f11_sched (init f11_config) = Some s /\
  no_timeouts f11_sched /\ Stuck s /\ accepted s = [[1%N]] /\ written s = [[1%N]] /\
  log s = [EvWrite [1%N] true; EvFlush true; EvFlush false].
Proof.
  eexists. split. vm_compute. reflexivity.
  split. repeat constructor.
  split. unfold Stuck. vm_compute. repeat split; auto.
  vm_compute. repeat split; reflexivity.
Qed.

(** F11: with the code as it is ([FlushErrLosesState]) there is a run without any timeout, in which one
    flush fails, after which the guard's drop can only end by its 1 s timeout: in every timeout-free
    continuation the guard is still waiting and the writer has not been released. *)
Theorem F11_refuted : exists c faults sched s,
  var c = FlushErrLosesState /\ exec c faults sched (init c) = Some s /\ no_timeouts sched /\
  (forall sched' s', no_timeouts sched' -> exec c faults sched' s = Some s' ->
     guard s' = GWaitRdv /\ writer_alive s' = true /\ pc s' <> WExit).
Proof.
  destruct f11_stuck as (s & E & NT & St & _).
  exists f11_config, f11_faults, f11_sched, s. repeat split; auto;
    destruct (stuck_forever _ _ _ _ _ St H H0) as (G & _ & NP & WA); auto.
  intros X. rewrite X in NP. exact NP.
Qed.

(** the same schedule on the repaired variant ends in a clean drop *)
Lemma f11_fixed_clean : exists s, exec f11_fixed_config f11_faults f11_fixed_sched (init f11_fixed_config) = Some s /\
  no_timeouts f11_fixed_sched /\ guard s = GDone true /\ writer_alive s = false /\
  log s = [EvWrite [1%N] true; EvFlush true; EvFlush false; EvDropWriter].
Proof.
  eexists. split. vm_compute. reflexivity.
  split. repeat constructor. vm_compute. repeat split; reflexivity.
Qed.

(* ---------- the busy loop after the last sender is gone ---------- *)
(** Every sender is gone, the queue is empty, and every call of the underlying writer from now on fails:
    with [FlushErrLosesState] the worker alternates recv() (Disconnected at once) and a failing flush for
    ever, calling the writer once per round, never releasing it, never exiting. *)
Definition Spinning (c : config) (faults : nat -> bool) (s : state) : Prop :=
  var c = FlushErrLosesState /\ pc s = WRecv /\ q s = [] /\ senders s = 0 /\ writer_alive s = true /\
  (forall k, ncalls s <= k -> faults k = true).

Lemma spin_round : forall c faults s, Spinning c faults s ->
  exists s', exec c faults [LWorker; LWorker] s = Some s' /\ Spinning c faults s' /\ ncalls s' = S (ncalls s).
Proof.
  intros c faults s (V & P & Q & SN & WA & F).
  eexists. split.
  - simpl. unfold wstep. rewrite P, Q, SN. simpl. rewrite (F (ncalls s)) by lia. simpl. rewrite V. reflexivity.
  - simpl. unfold Spinning, senders in *. simpl. repeat split; auto.
    + unfold writer_alive in *. simpl. rewrite writer_alive_app, orb_false_r. exact WA.
    + intros k K. apply F. lia.
Qed.

Theorem busy_loop : forall c faults s, Spinning c faults s ->
  forall n, exists s', exec c faults (concat (repeat [LWorker; LWorker] n)) s = Some s' /\
    Spinning c faults s' /\ ncalls s' = ncalls s + n.
Proof.
  intros c faults s Sp n. revert s Sp. induction n as [|n IH]; intros s Sp.
  - exists s. simpl. split; [reflexivity|]. split; [exact Sp|lia].
  - destruct (spin_round _ _ _ Sp) as (s1 & E1 & Sp1 & N1).
    destruct (IH s1 Sp1) as (s2 & E2 & Sp2 & N2).
    exists s2. split; [|split; auto; lia].
    simpl concat. simpl in E1. simpl.
    destruct (wstep c faults s) as [a|]; [|discriminate].
    destruct (wstep c faults a) as [b|]; [|discriminate]. inversion E1; subst. exact E2.
Qed.

(** a spinning state is reachable: the F11 run, then the guard's 1 s timeout, then the producer goes *)
Definition spin_faults : nat -> bool := fun k => 2 <=? k.
Definition spin_sched : list label := f11_sched ++ [LGTimeout1000; LClose 0].

Lemma spinning_reachable : exists s, exec f11_config spin_faults spin_sched (init f11_config) = Some s /\
  Spinning f11_config spin_faults s.
Proof.
  eexists. split. vm_compute. reflexivity.
  unfold Spinning. simpl. repeat split; auto.
  intros k K. unfold spin_faults. apply Nat.leb_le. lia.
Qed.
