(** C15 — schedules over the non-blocking model: reachability under a constraint on the steps taken.
    (Self-contained; Common/Sched.v indexes threads by nat and stutters, here the alphabet is [label]
    and a disabled label simply cannot be taken.) *)
From Coq Require Import List NArith Arith Bool.
From TV Require Import Appender.NonBlockingModel.
Import ListNotations.

Section Reach.
  Variable c : config.
  Variable faults : nat -> bool.

  (** [reachP P s]: s is reached from [init c] by a schedule all of whose steps (source state, label)
      satisfy P.  With [P := fun _ _ => True] this is "every schedule". *)
  Inductive reachP (P : state -> label -> Prop) : state -> Prop :=
  | reach_init : reachP P (init c)
  | reach_step : forall s l s', reachP P s -> P s l -> step c faults s l = Some s' -> reachP P s'.

  Definition AnyStep : state -> label -> Prop := fun _ _ => True.
  Definition reachable := reachP AnyStep.

  Lemma reachP_weaken : forall (P Q : state -> label -> Prop), (forall s l, P s l -> Q s l) ->
    forall s, reachP P s -> reachP Q s.
  Proof. intros P Q H s R. induction R; [constructor | econstructor; eauto]. Qed.

  Lemma reachP_reachable : forall P s, reachP P s -> reachable s.
  Proof. intros P. apply reachP_weaken. intros; exact I. Qed.

  (** schedule view: exec along a list of labels *)
  Lemma exec_reachable : forall sched s s', reachable s -> exec c faults sched s = Some s' -> reachable s'.
  Proof.
    induction sched as [|l r IH]; simpl; intros s s' R E.
    - inversion E; subst; auto.
    - destruct (step c faults s l) eqn:St; [|discriminate]. eapply IH; [|exact E]. econstructor; eauto. exact I.
  Qed.

  Lemma reachable_exec : forall s, reachable s -> exists sched, exec c faults sched (init c) = Some s.
  Proof.
    assert (App: forall a b s s' s'', exec c faults a s = Some s' -> exec c faults b s' = Some s'' ->
                                   exec c faults (a ++ b) s = Some s'').
    { induction a; simpl; intros b s s' s'' A B. inversion A; subst; auto.
      destruct (step c faults s a); [|discriminate]. eauto. }
    intros s R. induction R.
    - exists []. reflexivity.
    - destruct IHR as [sc E]. exists (sc ++ [l]). eapply App; eauto. simpl. rewrite H0. reflexivity.
  Qed.

  (** "every schedule": s is reachable iff some list of labels, each enabled in turn, leads to it *)
  Theorem reachable_iff_exec : forall s, reachable s <-> exists sched, exec c faults sched (init c) = Some s.
  Proof. split. apply reachable_exec. intros [sc E]. eapply exec_reachable; eauto. constructor. Qed.
End Reach.

(** Step constraints used by the guard-drop theorems. *)
Definition NoTimeout : state -> label -> Prop := fun _ l => is_timeout l = false.

(** The flush issued with a terminal state (Shutdown / Disconnected) in hand fails. *)
Definition FlushFaultAtTerminal (faults : nat -> bool) (s : state) : Prop :=
  exists st, pc s = WFlush st /\ terminal st = true /\ faults (ncalls s) = true.

(** F11's delimiting hypothesis (only matters for the variant FlushErrLosesState). *)
Definition NoFlushFault_at_shutdown (c : config) (faults : nat -> bool) : state -> label -> Prop :=
  fun s l => var c = FlushErrLosesState -> l = LWorker -> ~ FlushFaultAtTerminal faults s.

Definition NoTimeout_NoFF (c : config) (faults : nat -> bool) : state -> label -> Prop :=
  fun s l => NoTimeout s l /\ NoFlushFault_at_shutdown c faults s l.
