(** Dispatch/Sched_Points.v — static tie of the micro-step model to the instrumented sources: the yield points read off
    callsite.rs / metadata.rs / dispatch.rs / tracing's lib.rs / reload.rs on every run ([TVGen.Gen_sched_points]) are exactly
    the yield points of the model's program points ([yield_id]), and every function hosts the ids, in the textual order, that
    the model's step order expects.  (The dynamic tie — the yield point at which the real thread parks after every schedule entry
    equals the model's — is the forced-schedule correspondence.)  A repository without the hooks generates empty tables. *)
From Coq Require Import List String Arith Bool.
From TV Require Import Dispatch.Sched_Model.
From TVGen Require Import Gen_sched_points.
Import ListNotations.
Local Open Scope string_scope.

(** one sample per constructor of [pc] and per list shape that [yield_id] distinguishes *)
Definition pc_samples : list pc :=
  [PIdle; PEmInterest 0; PEmRegCas 0; PRgRLock 0; PRgUp 0 [0] None; PRgUp 0 [] None; PRgCall 0 0 [] None; PRgPushHead 0;
   PRgPushCas 0 []; PRgRUnlock 0; PRgStoreReg 0; PEmReload 0; PEmEnabled 0; PEmEnCall 0 0; PEmDispatch 0 true;
   PEmDispatch 0 false; PWrLock KRebuild; PWrRetUp KRebuild [0] [] 0; PWrRetUp KRebuild [] [] 0; PWrRetCall KRebuild 0 [] [] 0;
   PWrAskUp KRebuild 0 0 [0] None []; PWrAskUp KRebuild 0 0 [] None []; PWrAskCall KRebuild 0 0 0 [] None [];
   PWrNext KRebuild 0 []; PWrSetMax KRebuild 0; PWrUnlock KRebuild; PSgCas 0; PSgStore 0; PSgInit 0;
   PRlLock 0 0; PRlAssign 0 0; PRlUnlock 0 0; PRlGap 0 0].

Fixpoint insert (x : nat) (l : list nat) : list nat :=
  match l with [] => [x] | y :: r => if Nat.ltb x y then x :: l else if Nat.eqb x y then l else y :: insert x r end.
Definition sort_dedup (l : list nat) : list nat := fold_right insert [] l.

(** the visible yield points of the model: 0 = between operations, 999 = no yield point *)
(** 83 is not in the sources: it is the harness' own point inside the closure it passes to Handle::modify (the cell's write lock is held) *)
Definition model_yield_ids : list nat :=
  sort_dedup (filter (fun y => negb (Nat.eqb y 0) && negb (Nat.eqb y 999) && negb (Nat.eqb y 83)) (map yield_id pc_samples)).

Lemma samples_complete : forall p, existsb (Nat.eqb (yield_id p)) (map yield_id pc_samples) = true.
Proof.
  destruct p; try (destruct todo); try (destruct vis); reflexivity.
Qed.

(** which function hosts which program points (ids in textual order) *)
Definition expected_sites : list (string * string * list nat) :=
  [("tracing-core/src/callsite.rs", "rebuild_interest_cache", [10; 19]);       (* PWrLock .. PWrUnlock, kinds KRebuild / KReload *)
   ("tracing-core/src/callsite.rs", "register", [20; 29]);                     (* PRgRLock .. PRgRUnlock *)
   ("tracing-core/src/callsite.rs", "register_dispatch", [10; 19]);            (* PWrLock .. PWrUnlock, kind KNew *)
   ("tracing-core/src/callsite.rs", "rebuild_callsite_interest", [30; 31]);    (* PRgUp / PWrAskUp: upgrade ; set_interest *)
   ("tracing-core/src/callsite.rs", "rebuild_interest", [32]);                 (* PWrRetUp: upgrade in retain *)
   ("tracing-core/src/callsite.rs", "for_each", [40; 41]);                     (* PWrRetUp []: head load ; PWrNext: next load *)
   ("tracing-core/src/callsite.rs", "push", [42; 44]);                         (* PRgPushHead ; PRgPushCas *)
   ("tracing-core/src/metadata.rs", "set_max", [50]);                          (* PWrSetMax *)
   ("tracing-core/src/dispatch.rs", "set_global_default", [70; 71; 72]);       (* PSgCas ; PSgStore ; PSgInit *)
   ("tracing/src/lib.rs", "register", [61; 62; 63]);                           (* PEmRegCas ; PRgStoreReg ; PEmReload *)
   ("tracing/src/lib.rs", "interest", [60]);                                   (* PEmInterest *)
   ("tracing/src/lib.rs", "is_enabled", [64]);                                 (* PEmEnabled / PEmDispatch _ true *)
   ("tracing-subscriber/src/reload.rs", "register_callsite", [81]);            (* PRgCall / PWrAskCall: the cell read *)
   ("tracing-subscriber/src/reload.rs", "enabled", [81; 81]);                  (* PEmEnCall (as a layer, as a filter) *)
   ("tracing-subscriber/src/reload.rs", "max_level_hint", [81; 81]);           (* PWrRetCall *)
   ("tracing-subscriber/src/reload.rs", "callsite_enabled", [81]);             (* PRgCall / PWrAskCall (as a filter) *)
   ("tracing-subscriber/src/reload.rs", "modify", [80; 82])].                  (* PRlLock ; PRlGap *)

(** LinkedList::push: the head is loaded once before the loop; INSIDE the retry loop the registration's `next` is (re)linked to
    the head just seen and the duplicate assertion is (re)checked, then the CAS; a failed CAS continues with the head it
    observed.  This is what [PRgPushHead] / [PRgPushCas] do: the retry goes to [PRgPushCas cs (st_list s)] (next re-linked to
    the CURRENT list, [chk] re-evaluated), and a successful CAS makes the list [cs :: l0] with [l0] the list last linked
    ([push_cas_exact]: equal to the current list).  Hoisting the link out of the loop would link to a stale head on a retry and
    drop the registrations pushed in between. *)
Definition expected_push_shape : list string :=
  ["load-head"; "loop"; "store-next"; "assert-ne"; "yield-44"; "cas-head"; "reload-on-failure"].

Theorem source_push_shape : gen_push_shape = [] \/ gen_push_shape = expected_push_shape.
Proof. vm_compute. first [left; reflexivity | right; reflexivity]. Qed.

(** the kind of access each entry point takes on the dispatcher list's RwLock: [PWrLock] (rebuild_interest_cache,
    register_dispatch) blocks while there is a writer OR a reader; [PRgRLock] (register) only while there is a writer.  The
    exclusive lock of a rebuild is what serialises it against the compute-and-push window of a registration. *)
Definition expected_lock_kinds : list (string * string) :=
  [("rebuild_interest_cache", "write"); ("register", "read"); ("register_dispatch", "write")].

Theorem source_lock_kinds : gen_lock_kinds = [] \/ gen_lock_kinds = expected_lock_kinds.
Proof. vm_compute. first [left; reflexivity | right; reflexivity]. Qed.

(** how reload.rs gets at the reloadable value: every callback of the wrapper takes a BLOCKING read lock (an emission that meets a
    reload waits for it and is then judged by the new value: [PRgCall] / [PWrAskCall] / [PWrRetCall] / [PEmEnCall] return [None]
    while [st_cellw] is set), `on_subscribe` and `modify` a blocking write lock.  A non-blocking `try_read` would let an emission be
    judged by neither value. *)
Definition expected_reload_locks : list (string * string) :=
  [("on_register_dispatch", "read"); ("on_subscribe", "write"); ("register_callsite", "read"); ("enabled", "read");
   ("on_new_span", "read"); ("on_record", "read"); ("on_follows_from", "read"); ("event_enabled", "read"); ("on_event", "read");
   ("on_enter", "read"); ("on_exit", "read"); ("on_close", "read"); ("on_id_change", "read"); ("max_level_hint", "read");
   ("downcast_raw", "read"); ("callsite_enabled", "read"); ("enabled", "read"); ("event_enabled", "read"); ("on_new_span", "read");
   ("on_record", "read"); ("on_enter", "read"); ("on_exit", "read"); ("on_close", "read"); ("max_level_hint", "read");
   ("modify", "write"); ("with_current", "read")].

Theorem source_reload_locks : gen_reload_locks = [] \/ gen_reload_locks = expected_reload_locks.
Proof. vm_compute. first [left; reflexivity | right; reflexivity]. Qed.

(** the global max level is published INSIDE the writer section: `LevelFilter::set_max` is called by `rebuild_interest` (and by nobody
    else in the std registry), and the guards of `rebuild_interest_cache` / `register` / `register_dispatch` are bound directly in the
    function body (block depth 1), i.e. they live until the function returns -- so [PWrSetMax] comes before [PWrUnlock], and the
    push of `register` before its unlock.  Computing and publishing MAX_LEVEL is one critical section. *)
Definition expected_set_max_fns : list string := ["rebuild_interest"].
Definition expected_guard_depth : list (string * nat) :=
  [("rebuild_interest_cache", 1); ("register", 1); ("register_dispatch", 1)].

Theorem source_set_max_under_lock :
  (gen_set_max_fns = [] /\ gen_guard_depth = []) \/ (gen_set_max_fns = expected_set_max_fns /\ gen_guard_depth = expected_guard_depth).
Proof. vm_compute. first [left; split; reflexivity | right; split; reflexivity]. Qed.

Theorem source_points : gen_yield_ids = [] \/ gen_yield_ids = model_yield_ids.
Proof. vm_compute. first [left; reflexivity | right; reflexivity]. Qed.

Theorem source_sites : gen_yield_sites = [] \/ gen_yield_sites = expected_sites.
Proof. vm_compute. first [left; reflexivity | right; reflexivity]. Qed.
