(** Dispatch/SetGlobalSched.v — what the micro-step model of set_global_default (Model.sg_step) predicts for a forced
    schedule, in the encoding harness/dispatch/src/bin/h_setglobal.rs prints.  No proofs in this file.

    Thread t's candidate is collector t.  After every turn: what get_global() hands out (0 = the no-op dispatcher,
    c+1 = collector c), where the scheduled thread stands (0 = before the compare-exchange, 1 = before the store of
    GLOBAL_DISPATCH, 2 = before the store of INITIALIZED; unchanged once it has returned), and every thread's result
    (0 = still running, 1 = Ok, 2 = Err). *)
From Coq Require Import NArith List.
From TV Require Import Dispatch.Model.
Import ListNotations.
Local Open Scope N_scope.

Definition sg_enc_res (r : option sg_result) : N :=
  match r with None => 0 | Some SgOk => 1 | Some SgErr => 2 end.
Fixpoint sg_trace (s : sg_state) (sched : list N) (threads : list N) : list (list N) :=
  match sched with
  | [] => []
  | t :: r =>
      let s' := sg_step (fun x => x) s t in
      (enc_oN (sg_get_global s') :: N.of_nat (sg_pc s' t) :: map (fun u => sg_enc_res (sg_res s' u)) threads)
      :: sg_trace s' r threads
  end.
Definition sg_case (n : N) (sched : list N) : list (list N) :=
  sg_trace sg_init_state sched (map N.of_nat (seq 0 (N.to_nat n))).
