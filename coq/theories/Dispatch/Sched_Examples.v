(** Dispatch/Sched_Examples.v — concrete schedules (kernel-computed): non-vacuity witnesses for the hypotheses of the
    C04 / C12 theorems and the witness of finding F41. *)
From Coq Require Import List Arith Bool Lia.
From TV Require Import Dispatch.Sched_Model Dispatch.Sched_Proofs_Base Dispatch.Sched_Proofs_Reg Dispatch.Sched_Proofs_Progress
  Dispatch.Sched_Proofs_Ghost Dispatch.Sched_Proofs_Emit Dispatch.Sched_Proofs_Main.
Import ListNotations.

(** filter values: 0 = accepts everything (`always`, hint 5); 1 = rejects everything (`never`, hint 2);
    2 = `sometimes`, its enabled() accepts callsite 0 only (hint 5).  Both callsites have level 4 (DEBUG). *)
Definition WX : world := mk_world [([2;2],[true;true],5); ([0;0],[false;false],2); ([1;1],[true;false],5)] [4;4].

Lemma nth_nil_nat : forall n (d : nat), nth n [] d = d. Proof. destruct n; reflexivity. Qed.
Lemma nth_nil_bool : forall n (d : bool), nth n [] d = d. Proof. destruct n; reflexivity. Qed.

Lemma WX_wf : WFworld WX.
Proof.
  unfold WFworld, WX, mk_world; cbn [w_interest w_enabled w_hint w_level].
  repeat split; intros f cs.
  all: destruct f as [|[|[|[|f]]]]; destruct cs as [|[|[|cs]]]; cbn;
       try discriminate; try reflexivity; try congruence; try lia.
Qed.

Lemma reach_run : forall W progs sched, reachable (step W) (init progs) (run (step W) (init progs) sched).
Proof. intros. exists sched. reflexivity. Qed.

(** * F41: T0 creates collector 0 (accepts all); T1's first hit of callsite 0 registers it and loads `always`; T0 creates
      collector 1 (rejects all) and installs it as the global default; T1 dispatches: collector 1 gets the event *)
Definition P41 : list (list op) := [[ONew 0 0; ONew 1 1; OSetGlobal 1]; [OEmit 0]].
Definition S41 : list tid := repeat 0 7 ++ repeat 1 12 ++ repeat 0 60 ++ [1].
Definition s41 : state := run (step WX) (init P41) S41.

Lemma F41_witness :
  In (EvEmitEnd 1 0 None true [] None (Some 1)) (st_log s41) /\ accepts WX (st_cell s41 1) 0 = false /\ finished s41 = true.
Proof. vm_compute. auto. Qed.

Lemma F41_refuted :
  WFworld WX /\ reachable (step WX) (init P41) s41 /\
  In (EvEmitEnd 1 0 None true [] None (Some 1)) (st_log s41) /\ F41_class None [] /\
  accepts WX (st_cell s41 1) 0 = false.
Proof.
  split; [exact WX_wf|]. split; [apply reach_run|].
  destruct F41_witness as [A [B _]]. split; [exact A|]. split; [split; reflexivity | exact B].
Qed.

(** * a thread blocked on the dispatcher lock while another one is inside the writer section *)
Definition PA : list (list op) := [[ONew 0 0; ORebuild]; [OEmit 0]].
Definition sA : state := run (step WX) (init PA) (repeat 0 9 ++ [1;1;1]).
Lemma blocked_witness :
  reachable (step WX) (init PA) sA /\ unfinished sA /\ pcof sA 1 = PRgRLock 0 /\ step WX sA 1 = None /\ step WX sA 0 <> None.
Proof.
  split; [apply reach_run|]. split; [exists 1; vm_compute; auto|].
  split; [vm_compute; reflexivity|]. split; [vm_compute; reflexivity|]. vm_compute. discriminate.
Qed.

(** * a failed list CAS: T0 loaded the empty list, T1 pushed callsite 1 meanwhile *)
Definition PB : list (list op) := [[ONew 0 0; OSetDefault 0; OEmit 0]; [OEmit 1]].
Definition sB : state := run (step WX) (init PB) (repeat 0 16 ++ repeat 1 9).
Lemma retry_witness :
  reachable (step WX) (init PB) sB /\ pcof sB 0 = PRgPushCas 0 [] /\ st_list sB = [1] /\
  pcof (exec1 (step WX) sB 0) 0 = PRgPushCas 0 [1].
Proof.
  split; [apply reach_run|]. vm_compute. auto.
Qed.

(** * one collector (`sometimes`; accepts callsite 0 only) installed as the thread's default: two first hits *)
Definition PD : list (list op) := [[ONew 0 2; OSetDefault 0; OEmit 0; OEmit 1]].
Definition sD : state := run (step WX) (init PD) (repeat 0 60).
Lemma verdict_witness :
  reachable (step WX) (init PD) sD /\ finished sD = true /\
  In (EvEmitEnd 0 0 (Some 0) true [2] (Some 2) (Some 0)) (st_log sD) /\
  In (EvEmitEnd 0 1 (Some 0) true [2] (Some 2) None) (st_log sD) /\
  accepts WX 2 0 = true /\ accepts WX 2 1 = false /\
  st_list sD = [1; 0] /\ instP sD 0 /\ live sD 0 = true /\ st_max sD = 5.
Proof.
  split; [apply reach_run|]. vm_compute. repeat split; auto 10.
Qed.

(** * a reload racing with an emission: two values in play when the emission is judged *)
Definition PC : list (list op) := [[ONew 0 0; OSetDefault 0; OEmit 0; OEmit 0]; [OReload 0 1]].
Definition SC : list tid := repeat 0 22 ++ repeat 1 3 ++ repeat 0 10 ++ repeat 1 40.
Definition sC : state := run (step WX) (init PC) SC.
Lemma racing_witness :
  reachable (step WX) (init PC) sC /\ In (EvEmitEnd 0 0 (Some 0) false [1; 0] (Some 1) (Some 0)) (st_log sC) /\
  In (EvReload 1 0 1 true) (st_log sC) /\ finished sC = true.
Proof.
  split; [apply reach_run|]. vm_compute. auto 10.
Qed.

(** * a reload handle whose collector is gone *)
Definition PG : list (list op) := [[ONew 0 0; ODrop 0; OReload 0 1]].
Definition sG : state := run (step WX) (init PG) (repeat 0 8).
Lemma gone_witness :
  reachable (step WX) (init PG) sG /\ 0 < st_n sG /\ th_pc (st_thr sG 0) = PIdle /\ th_prog (st_thr sG 0) = [OReload 0 1] /\
  st_created sG 0 = true /\ live sG 0 = false /\ cell_live sG 0 = false.
Proof.
  split; [apply reach_run|]. vm_compute. auto 10.
Qed.
