(** Dispatch/Shape.v — the *shapes* of the anchored Rust code that translators/dispatch_shape.py reads off the
    source on every run (coq/gen/Gen_dispatch.v is an inhabitant of the two records below), and what each
    shape means in terms of Dispatch/Model.v.  No proofs in this file.

    Why: Model.v mirrors the Rust functions by hand.  Wherever the model has a switch (the [fx] variant of
    dispatch.rs) the switch is *computed from the source* ([fx_of_shape]); wherever it hard-codes a relation, a
    constant or an order of statements, the translator records what the source says as data, an interpreter below
    gives the data its meaning, and Dispatch/Proofs_Shape.v proves that the meaning is the hand-written function
    (so a one-token change of the source either flips the model's variant or breaks a pinned theorem; an
    unrecognised shape is a [...Unknown] token and fails every such theorem: fail closed). *)
From Coq Require Import NArith List Bool String.
From TV Require Import Dispatch.Model.
Import ListNotations.
Local Open Scope N_scope.

(** * dispatch.rs (C02) *)
(** What a lookup does when the thread-local default is [None]
    (get_default_slow; Entered::current, i.e. get_current). *)
Inductive none_case :=
| NoneUsesGlobal        (* `None => f(get_global())` / `None => get_global()`: re-read every time (the F1 repair) *)
| NoneCachesGlobal      (* `get_or_insert_with(|| get_global().clone())`: cache a clone of the global (F1) *)
| NoneUnknown.
(** What State::set_default keeps as the guard's prior. *)
Inductive prior_shape :=
| PriorIsOption         (* `state.default.replace(Some(new))` … `.ok().flatten()` *)
| PriorOrGlobalClone    (* `.replace(Some(new)).unwrap_or_else(|| get_global().clone())` … `.ok()` (F1) *)
| PriorUnknown.
(** What Drop for DefaultGuard writes back. *)
Inductive restore_shape :=
| RestoreAlways         (* `state.default.replace(self.0.take())` *)
| RestoreIfSome         (* `if let Some(dispatch) = self.0.take() { … replace(Some(dispatch)) }` (F1) *)
| RestoreUnknown.
(** How the per-thread re-entrancy flag `can_enter` — cleared while a collector callback runs under get_default_slow /
    get_current, so that an emission from inside the callback gets Dispatch::none() — is set back. *)
Inductive reentry_guard :=
| GuardRaiiDrop         (* a guard object whose Drop does `can_enter.set(true)`: restored on return AND on unwind *)
| GuardResetOnReturn    (* a plain `can_enter.set(true)` after the callback: NOT restored when the callback panics *)
| GuardUnknown.
Inductive fast_shape :=
| FastWhenNoScope       (* `if SCOPED_COUNT.load(_) == 0 { return f(get_global()); } get_default_slow(f)` *)
| FastUnknown.
(** set_global_default: `if GLOBAL_INIT.compare_exchange(a, b, ..).is_ok() { …; GLOBAL_DISPATCH = …;
    GLOBAL_INIT.store(c, ..); …; Ok(()) } else { Err(..) }` with the numeric values of a, b, c. *)
Inductive cas_shape :=
| CasStorePublish (from to_ final : N)
| CasUnknown.

Record dispatch_shape := {
  d_slow_none : none_case;
  d_current_none : none_case;
  d_prior : prior_shape;
  d_restore : restore_shape;
  d_fast : fast_shape;
  d_open_incr : bool;                (* State::set_default does SCOPED_COUNT.fetch_add(1, _) *)
  d_close_decr : bool;               (* Drop for DefaultGuard does SCOPED_COUNT.fetch_sub(1, _) *)
  d_consts : N * N * N;              (* UNINITIALIZED, INITIALIZING, INITIALIZED *)
  d_set_global : cas_shape;
  d_get_global_needs : option N;     (* get_global: `if GLOBAL_INIT.load(_) != X { return &NONE; } … &GLOBAL_DISPATCH` *)
  d_with_default_is_guard : bool;    (* with_default = `let _guard = set_default(d); f()`; set_default = State::set_default(d.clone()) *)
  d_get_current_is_entered_current : bool; (* get_current = `state.enter()?` then `f(&entered.current())` *)
  d_slow_guard : reentry_guard;            (* get_default_slow: `if can_enter.replace(false) { <guard>; f(default) } else { f(&none) }` *)
  d_current_guard : reentry_guard;         (* State::enter: `if can_enter.replace(false) { Some(Entered(self)) } else { None }` + Drop for Entered *)
  d_set_default_enters : bool;             (* State::set_default does `can_enter.set(true)` *)
  d_open_counts_when_dead : bool;          (* State::set_default increments SCOPED_COUNT OUTSIDE `CURRENT_STATE.try_with`, i.e. also when
                                              the thread-local is already destroyed (a call from another thread-local's destructor) *)
  d_close_counts_when_dead : bool          (* Drop for DefaultGuard decrements it outside `try_with` as well *)
}.

(** The model's variant switch, read off the four sites; [None] = a mixture the model has no variant for. *)
Definition fx_of_shape (d : dispatch_shape) : option bool :=
  match d_slow_none d, d_current_none d, d_prior d, d_restore d with
  | NoneUsesGlobal, NoneUsesGlobal, PriorIsOption, RestoreAlways => Some true
  | NoneCachesGlobal, NoneCachesGlobal, PriorOrGlobalClone, RestoreIfSome => Some false
  | _, _, _, _ => None
  end.
(** A total version for use as the model's parameter: an unrecognised mixture is treated as the *unrepaired*
    variant, for which the hypothesis-free C02_spec is false, so nothing is proved about it. *)
Definition fx_or_unfixed (d : dispatch_shape) : bool :=
  match fx_of_shape d with Some b => b | None => false end.

(** Everything else the op-level model and the micro-step model of set_global_default take for granted. *)
Definition n3_distinct (c : N * N * N) : bool :=
  let '(a, b, d) := c in negb (a =? b) && negb (b =? d) && negb (a =? d).
Definition dispatch_shape_ok (d : dispatch_shape) : bool :=
  match d_fast d with FastWhenNoScope => true | FastUnknown => false end &&
  d_open_incr d && d_close_decr d && n3_distinct (d_consts d) &&
  match d_set_global d, d_consts d with
  | CasStorePublish a b c, (u, i, f) => (a =? u) && (b =? i) && (c =? f)
  | CasUnknown, _ => false
  end &&
  match d_get_global_needs d, d_consts d with
  | Some x, (_, _, f) => x =? f
  | None, _ => false
  end &&
  d_with_default_is_guard d && d_get_current_is_entered_current d &&
  match d_slow_guard d with GuardRaiiDrop => true | _ => false end &&
  match d_current_guard d with GuardRaiiDrop => true | _ => false end &&
  d_set_default_enters d &&
  d_open_counts_when_dead d && d_close_counts_when_dead d.

(** The teardown model's switch (Dispatch/Reentry.v, [XDeadScope]): is a scope opened while the thread-local is destroyed counted? *)
Definition dead_counts_of_shape (d : dispatch_shape) : bool := d_open_counts_when_dead d.

(** The re-entrancy model's switch (Dispatch/Reentry.v): does unwinding out of a collector callback restore `can_enter`?
    Read off get_default_slow; anything but the RAII guard counts as "no" (for which C02_panic_in_callback_restores is false). *)
Definition unwind_resets_of_shape (d : dispatch_shape) : bool :=
  match d_slow_guard d with GuardRaiiDrop => true | _ => false end.

(** The micro-step model's [ginit] against the source's numbers: GLOBAL_INIT as a number, and the three steps
    as number transformers read from the shape.  Proofs_Shape.v shows that [sg_step]'s moves on [ginit] are
    exactly these. *)
Definition ginit_num (d : dispatch_shape) (g : ginit) : N :=
  let '(u, i, f) := d_consts d in match g with Uninit => u | Initializing => i | Initialized => f end.
(** compare_exchange(a, b): Some b if the cell holds a (success), None otherwise. *)
Definition cas_num (d : dispatch_shape) (cell : N) : option N :=
  match d_set_global d with
  | CasStorePublish a b _ => if cell =? a then Some b else None
  | CasUnknown => None
  end.
Definition publish_num (d : dispatch_shape) : option N :=
  match d_set_global d with CasStorePublish _ _ c => Some c | CasUnknown => None end.
Definition global_visible_num (d : dispatch_shape) (cell : N) : bool :=
  match d_get_global_needs d with Some x => cell =? x | None => false end.

(** * callsite.rs, collect.rs, lib.rs, macros.rs, level_filters.rs (C01) *)
Inductive rel := RLt | RLe | RGt | RGe.
Inductive lvl_operand := OpStaticMax | OpCurrentMax.
(** `$lvl REL <operand>` in the specification order of levels (Levels/ proves, for C19, that the derived
    PartialOrd between Level and LevelFilter is that order). *)
Definition rel_holds (r : rel) (l : level) (f : levelfilter) : bool :=
  match r with
  | RLt => lrank l <? frank f
  | RLe => lrank l <=? frank f
  | RGt => frank f <? lrank l
  | RGe => frank f <=? lrank l
  end.
Definition interp_level_guard (g : list (rel * lvl_operand)) (static_max : levelfilter) (s : state) (cs : callsite) : bool :=
  forallb (fun ro => rel_holds (fst ro) (cs_lvl cs)
                       (match snd ro with OpStaticMax => static_max | OpCurrentMax => max_level s end)) g.

Inductive iand_shape := IandSelfIfEqualElseSometimes | IandUnknown.
Definition interp_iand (sh : iand_shape) (a b : interest) : option interest :=
  match sh with
  | IandSelfIfEqualElseSometimes => Some (if interest_eqb a b then a else sometimes)
  | IandUnknown => None
  end.

Inductive register_shape := RegComputeStoreThenPush | RegUnknown.           (* callsite::register *)
Inductive regdisp_shape := RegDispPushThenRebuild | RegDispUnknown.         (* register_dispatch *)
Inductive cache_rebuild_shape := CacheRebuildIsRebuild | CacheRebuildUnknown. (* rebuild_interest_cache *)
Inductive fold_shape := FoldUpgradedFirstThenAndElseNever | FoldUnknown.    (* rebuild_callsite_interest *)
(** rebuild_interest: `max = OFF; retain(|r| if let Some(d) = r.upgrade() { h = d.max_level_hint().unwrap_or(DEFAULT);
    if h REL max { max = h } true } else { false }); for_each(rebuild_callsite_interest); set_max(max)` *)
Inductive rebuild_shape := RebuildRetainMaxForeachSetmax (cmp : rel) (default_hint : N) | RebuildUnknown.
Inductive is_enabled_shape := IsAlwaysOrDefaultEnabled | IsEnabledUnknown.  (* MacroCallsite::is_enabled *)
(** The result of MacroCallsite::interest() for a byte: a cached interest, or "call register()". *)
Inductive byte_meaning := BCached (i : interest) | BRegister.

Record guard_shape := {
  g_level_enabled : list (rel * lvl_operand);     (* level_enabled! *)
  g_event_arms : N * N;                           (* event!: arms that declare a callsite, and how many of them carry the recognised guard *)
  g_span_arms : N * N;                            (* span! *)
  g_enabled_arms : N * N;                         (* enabled! *)
  g_bytes : N * N * N * N;                        (* INTEREST_NEVER, _SOMETIMES, _ALWAYS, _EMPTY *)
  g_interest_arms : list (N * byte_meaning);      (* MacroCallsite::interest(): explicit arms *)
  g_interest_default : byte_meaning;              (*   … and the `_ =>` arm *)
  g_register_arms : list (N * interest);          (* MacroCallsite::register(): the load after registering *)
  g_register_default : interest;
  g_set_interest : N * N * N;                     (* Callsite::set_interest stores these for never / otherwise / always *)
  g_is_enabled : is_enabled_shape;
  g_iand : iand_shape;                            (* Interest::and *)
  g_kind_consts : N * N * N;                      (* InterestKind::{Never, Sometimes, Always} discriminants *)
  g_register : register_shape;
  g_register_dispatch : regdisp_shape;
  g_cache_rebuild : cache_rebuild_shape;
  g_fold : fold_shape;
  g_rebuild : rebuild_shape;
  g_static_max : list (string * bool * N);        (* level_filters.rs: (feature, consulted only without debug assertions?, level rank), in source order *)
  g_static_release_falls_through : bool;          (* does a build without debug assertions that matches no release row continue with the max_level_* rows? *)
  g_static_last_wins : bool                       (* does the LAST enabled row of the profile's family win (a loop that keeps overwriting) instead of the first? *)
}.

(** The interest byte: what set_interest writes and what interest() / register() read back. *)
Definition byte_of_interest (g : guard_shape) (i : interest) : N :=
  let '(n, o, a) := g_set_interest g in match i with never => n | sometimes => o | always => a end.
Fixpoint lookup_arm {A} (b : N) (arms : list (N * A)) (dflt : A) : A :=
  match arms with
  | [] => dflt
  | (k, v) :: r => if b =? k then v else lookup_arm b r dflt
  end.
Definition meaning_of_byte (g : guard_shape) (b : N) : byte_meaning := lookup_arm b (g_interest_arms g) (g_interest_default g).
Definition reload_of_byte (g : guard_shape) (b : N) : interest := lookup_arm b (g_register_arms g) (g_register_default g).
Definition empty_byte (g : guard_shape) : N := let '(_, _, _, e) := g_bytes g in e.

Definition arms_all_recognised (p : N * N) : bool := (0 <? fst p) && (fst p =? snd p).
Definition guard_shape_ok (g : guard_shape) : bool :=
  arms_all_recognised (g_event_arms g) && arms_all_recognised (g_span_arms g) && arms_all_recognised (g_enabled_arms g) &&
  match g_is_enabled g with IsAlwaysOrDefaultEnabled => true | _ => false end &&
  match g_iand g with IandSelfIfEqualElseSometimes => true | _ => false end &&
  n3_distinct (g_kind_consts g) &&
  match g_register g with RegComputeStoreThenPush => true | _ => false end &&
  match g_register_dispatch g with RegDispPushThenRebuild => true | _ => false end &&
  match g_cache_rebuild g with CacheRebuildIsRebuild => true | _ => false end &&
  match g_fold g with FoldUpgradedFirstThenAndElseNever => true | _ => false end &&
  match g_rebuild g with RebuildRetainMaxForeachSetmax RGt 5 => true | _ => false end.

(** rebuild_interest's running maximum, from the shape: `if h REL max { max = h }`, hint default as read. *)
Definition interp_max_step (sh : rebuild_shape) (conf : N -> collector) (m : levelfilter) (c : N) : option levelfilter :=
  match sh with
  | RebuildRetainMaxForeachSetmax r dflt =>
      let h := match c_hint (conf c) with Some h => h | None => filter_of_N dflt end in
      (* `h REL m` with both sides LevelFilters: compare ranks *)
      let holds := match r with
                   | RGt => frank m <? frank h | RGe => frank m <=? frank h
                   | RLt => frank h <? frank m | RLe => frank h <=? frank m end in
      Some (if holds then h else m)
  | RebuildUnknown => None
  end.

(** STATIC_MAX_LEVEL of a build, from the feature table as read: among the rows of the build's profile ([rel_only] =
    "no debug assertions") the first listed feature that is on wins; a build without debug assertions that matches no
    release row gets TRACE, or — if the source falls through — what the max_level_* rows give; no row at all = TRACE. *)
Fixpoint first_row (tbl : list (string * bool * N)) (rel : bool) (on : string -> bool) : option N :=
  match tbl with
  | [] => None
  | (f, rel_only, lvl) :: r => if Bool.eqb rel_only rel && on f then Some lvl else first_row r rel on
  end.
Fixpoint last_row (tbl : list (string * bool * N)) (rel : bool) (on : string -> bool) (acc : option N) : option N :=
  match tbl with
  | [] => acc
  | (f, rel_only, lvl) :: r => last_row r rel on (if Bool.eqb rel_only rel && on f then Some lvl else acc)
  end.
Definition pick_row (last_wins : bool) (tbl : list (string * bool * N)) (rel : bool) (on : string -> bool) : option N :=
  if last_wins then last_row tbl rel on None else first_row tbl rel on.
Definition static_max_of (tbl : list (string * bool * N)) (falls_through last_wins release : bool) (on : string -> bool) : N :=
  match pick_row last_wins tbl release on with
  | Some l => l
  | None => if release && falls_through then match pick_row last_wins tbl false on with Some l => l | None => 5 end else 5
  end.

(** What the feature NAMES configure, independently of the source: in a build without debug assertions the
    `release_max_level_<name>` features, otherwise the `max_level_<name>` features; the most restrictive selected one
    wins; [None] = this profile's family selects nothing (then the level is whatever the source's default is). *)
Definition level_names : list (string * N) :=
  [("off", 0); ("error", 1); ("warn", 2); ("info", 3); ("debug", 4); ("trace", 5)]%string.
Fixpoint first_named (prefix : string) (names : list (string * N)) (on : string -> bool) : option N :=
  match names with
  | [] => None
  | (n, lvl) :: r => if on (prefix ++ n)%string then Some lvl else first_named prefix r on
  end.
Definition configured_cap (release : bool) (on : string -> bool) : option N :=
  first_named (if release then "release_max_level_" else "max_level_")%string level_names on.
