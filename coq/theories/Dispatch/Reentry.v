(** Dispatch/Reentry.v — Dispatch/Model.v extended with the per-thread re-entrancy flag `can_enter`
    (tracing-core/src/dispatch.rs: `State.can_enter`) and with collector callbacks that do something: panic (the panic
    is caught above the emission — catch_unwind, a surviving worker thread) or emit re-entrantly.  No proofs in this file.

    What the code does (mirrored below):
      get_default       fast path (`SCOPED_COUNT == 0`): `f(get_global())` — the flag is not consulted at all.
      get_default_slow  `if can_enter.replace(false) { let _guard = Entered(&can_enter); f(default or global) } else { f(&NONE) }`
                        the guard's Drop sets the flag back: on normal return AND when `f` unwinds.
      get_current       `state.enter()?`: the same flag, `None` when it is unset.
      State::set_default  `can_enter.set(true)`.
    So while a collector callback runs under the slow path the thread's flag is unset, and an emission made from inside the
    callback is handed Dispatch::none() (documented: "calls to get_default should not be nested"); under the fast path it is
    handed the global default again.

    [unwind_resets] is the switch "is the flag set back when the callback unwinds?", read off the source
    (Shape.unwind_resets_of_shape: the RAII guard = true; a plain `set(true)` after the callback = false).

    The base state is Model.state, untouched; [ce] is the flag per thread.  A base op [XBase o] is Model.step with
    get_default replaced by the flag-aware [xgd]; [XEmitCb t cs b] is an emission whose receiving collector's
    event()/new_span() callback behaves as [b]. *)
From Coq Require Import NArith List Bool.
From TV Require Import Dispatch.Model.
Import ListNotations.
Local Open Scope N_scope.

Record xstate := { xs : state; ce : N -> bool }.
Definition xinit : xstate := {| xs := init; ce := fun _ => true |}.

(** What the receiving collector's callback does. *)
Inductive cb :=
| CbReturn                                   (* nothing special *)
| CbPanic                                    (* panics; caught by the caller of the macro *)
| CbEmit (cs' : callsite) (then_panics : bool). (* emits at cs' from inside the callback, then returns / panics *)
Definition cb_panics (b : cb) : bool := match b with CbReturn => false | CbPanic => true | CbEmit _ p => p end.
Definition cb_nested (b : cb) : option callsite := match b with CbEmit c _ => Some c | _ => None end.

Inductive xop :=
| XBase (o : op)
| XEmitCb (t : N) (cs : callsite) (b : cb)
| XDeadScope (t : N) (cs : callsite).
(** [XDeadScope t cs]: `with_default(&d, || event!(cs))` executed by thread t while its CURRENT_STATE thread-local is already
    destroyed — from the destructor of another thread-local, at thread exit.  Every `CURRENT_STATE.try_with` fails:
    State::set_default installs nothing (prior None) but still counts the scope (when [dead_open_counts]); get_default takes
    the fast path if SCOPED_COUNT is 0 and otherwise hands out Dispatch::none(); the guard's drop decrements the counter and
    restores nothing.  (Which dispatcher is "installed" is irrelevant: nothing is.) *)

Inductive xobs :=
| XO (o : obs)
| XONoCurrent                                (* get_current returned None (flag unset) *)
| XOEmitCb (consulted : option disp) (delivered : option N)
           (nested : option (option N))      (* None: no emission from inside the callback; Some r: it was received by r *)
           (panicked : bool).                (* the macro call unwound *)

Definition gdfun := state -> N -> state * disp.
Definition delivered_of (o : obs) : option N := match o with OEmit _ d => d | _ => None end.

Section XRun.
  Variable fx : bool.
  Variable unwind_resets : bool.
  Variable dead_open_counts : bool.
  Variable static_max : levelfilter.
  Variable conf : N -> collector.

  (** get_default with the flag: fast path, else entered slow path, else the no-op dispatcher. *)
  Definition xgd (can : N -> bool) : gdfun :=
    fun s t => if Nat.eqb (scoped s) 0 then (s, get_global s)
               else if can t then slow fx s t else (s, DNone).

  (** Model.guard / do_emit / do_probe with the lookup abstracted (definitionally Model's for [get_default fx]). *)
  Definition guard_with (gd : gdfun) (s : state) (t : N) (cs : callsite) : state * option disp * bool :=
    if level_enabled static_max s cs then
      let '(s1, i) := interest_of conf s cs in
      match i with
      | never => (s1, None, false)
      | always => (s1, None, true)
      | sometimes => let '(s2, d) := gd s1 t in (s2, Some d, enabled_of conf s2 d cs)
      end
    else (s, None, false).
  Definition emit_with (gd : gdfun) (s : state) (t : N) (cs : callsite) : state * obs :=
    let '(s1, con, ok) := guard_with gd s t cs in
    if ok then
      let '(s2, d) := gd s1 t in
      (s2, OEmit (Some d) (match d with DCol c => Some c | DNone => None end))
    else (s1, OEmit con None).
  Definition probe_with (gd : gdfun) (s : state) (t : N) (cs : callsite) : state * obs :=
    let '(s1, con, ok) := guard_with gd s t cs in
    if ok then
      let '(s2, d) := gd s1 t in (s2, OProbe (Some d) (enabled_of conf s2 d cs))
    else (s1, OProbe con false).

  (** An emission whose receiver's callback behaves as [b]. *)
  Definition do_emit_cb (x : xstate) (t : N) (cs : callsite) (b : cb) : xstate * xobs :=
    let '(s1, con, ok) := guard_with (xgd (ce x)) (xs x) t cs in
    if ok then
      (* Event::dispatch / Span::new: get_default(|d| d.event(..)) *)
      let entered := negb (Nat.eqb (scoped s1) 0) && ce x t in       (* the slow path cleared the flag and holds the guard *)
      let '(s2, d) := xgd (ce x) s1 t in
      match d with
      | DNone => ({| xs := s2; ce := ce x |}, XOEmitCb (Some d) None None false)
      | DCol c =>
          let ce_in := if entered then upd (ce x) t false else ce x in
          let '(s3, nested) :=
            match cb_nested b with
            | Some cs' => let '(s', o) := emit_with (xgd ce_in) s2 t cs' in (s', Some (delivered_of o))
            | None => (s2, None)
            end in
          let p := cb_panics b in
          (* leaving get_default_slow: by return, or by unwinding *)
          let ce_out := if entered then upd (ce x) t (if p then unwind_resets else true) else ce x in
          ({| xs := s3; ce := ce_out |}, XOEmitCb (Some d) (Some c) nested p)
      end
    else ({| xs := s1; ce := ce x |}, XOEmitCb con None None false).

  (** get_default on a thread whose thread-local is destroyed: `try_with` fails, `f(&Dispatch::none())` — unless the fast path applies. *)
  Definition gd_dead : gdfun :=
    fun s _ => if Nat.eqb (scoped s) 0 then (s, get_global s) else (s, DNone).

  Definition xstep (x : xstate) (o : xop) : xstate * xobs :=
    match o with
    | XBase (Emit t cs) => let '(s', ob) := emit_with (xgd (ce x)) (xs x) t cs in ({| xs := s'; ce := ce x |}, XO ob)
    | XBase (Probe t cs) => let '(s', ob) := probe_with (xgd (ce x)) (xs x) t cs in ({| xs := s'; ce := ce x |}, XO ob)
    | XBase (GetDefault t) => let '(s', d) := xgd (ce x) (xs x) t in ({| xs := s'; ce := ce x |}, XO (ODefault d))
    | XBase (GetCurrent t) =>
        if ce x t then let '(s', d) := slow fx (xs x) t in ({| xs := s'; ce := ce x |}, XO (ODefault d))
        else (x, XONoCurrent)
    | XBase (Open t d) =>
        let '(s', ob) := do_open fx (xs x) t d in
        ({| xs := s'; ce := match ob with OUnit => upd (ce x) t true | _ => ce x end |}, XO ob)
    | XBase o' => let '(s', ob) := step fx static_max conf (xs x) o' in ({| xs := s'; ce := ce x |}, XO ob)
    | XEmitCb t cs b => do_emit_cb x t cs b
    | XDeadScope t cs =>
        let s0 := xs x in
        let s1 := if dead_open_counts then set_scoped s0 (S (scoped s0)) else s0 in
        let '(s2, ob) := emit_with gd_dead s1 t cs in
        ({| xs := set_scoped s2 (pred (scoped s2)); ce := ce x |}, XO ob)
    end.

  Fixpoint xrun (x : xstate) (h : list xop) : list (xobs * levelfilter) :=
    match h with
    | [] => []
    | o :: r => let '(x', ob) := xstep x o in (ob, max_level (xs x')) :: xrun x' r
    end.
  Fixpoint xfinal (x : xstate) (h : list xop) : xstate :=
    match h with [] => x | o :: r => xfinal (fst (xstep x o)) r end.

  (** What get_default would hand thread t right now. *)
  Definition xdefault (x : xstate) (t : N) : disp := snd (xgd (ce x) (xs x) t).
End XRun.

(** Forgetting the callbacks: the base history and the base observation. *)
(** ([XDeadScope] has no base counterpart; it is mapped to the thread-less, specification-neutral [Rebuild] only to keep
    positions aligned — the theorems about erased histories exclude it, see [no_reentry].) *)
Definition erase_op (o : xop) : op :=
  match o with XBase o' => o' | XEmitCb t cs _ => Emit t cs | XDeadScope _ _ => Rebuild end.
Definition erase (h : list xop) : list op := map erase_op h.
Definition base_obs (o : xobs) : obs :=
  match o with XO o' => o' | XONoCurrent => OBad | XOEmitCb con del _ _ => OEmit con del end.
Definition no_reentry (h : list xop) : Prop :=
  (forall t cs b, In (XEmitCb t cs b) h -> cb_nested b = None) /\ (forall t cs, ~ In (XDeadScope t cs) h).

(** Encoders for the correspondence. *)
Definition enc_xobs (x : xobs * levelfilter) : list N :=
  let '(o, m) := x in
  match o with
  | XO o' => enc_obs (o', m)
  | XONoCurrent => [8; frank m]
  | XOEmitCb con del nested p =>
      [7; enc_odisp con; enc_oN del; match nested with None => 0 | Some r => enc_oN r + 1 end; enc_bool p; frank m]
  end.
Definition mk_cb (k : N) (cs' : callsite) : cb :=
  match k with 0 => CbReturn | 1 => CbPanic | 2 => CbEmit cs' false | _ => CbEmit cs' true end.
Definition xrun_case (fx unwind_resets dead_open_counts : bool) (smax : N) (fs : list fspec) (h : list xop) : list (list N) :=
  map enc_xobs (xrun fx unwind_resets dead_open_counts (filter_of_N smax) (conf_of_list fs) xinit h).
