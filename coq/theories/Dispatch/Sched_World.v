(** Dispatch/Sched_World.v — the table-defined worlds the correspondence instantiates satisfy the side condition
    [WFworld] whenever the kernel-evaluated check [wf_tableb] says so. *)
From Coq Require Import List Arith Bool Lia.
From TV Require Import Dispatch.Sched_Model Dispatch.Sched_Proofs_Emit.
Import ListNotations.

Lemma nth_default_nat : forall (l : list nat) n d, length l <= n -> nth n l d = d.
Proof. intros. apply nth_overflow. auto. Qed.

Lemma wf_row_sound : forall levels ints ens h, wf_rowb levels (ints, ens, h) = true ->
  forall cs, let i := nth cs ints 0 in let e := nth cs ens false in
  (i = 0 -> e = false) /\ (2 <= i -> e = true) /\ (i <> 0 -> nth cs levels 0 <= h).
Proof.
  intros levels ints ens h Hw cs. cbv zeta.
  unfold wf_rowb in Hw. rewrite forallb_forall in Hw.
  destruct (Nat.lt_ge_cases cs (Nat.max (length ints) (Nat.max (length ens) (length levels)))) as [Hlt|Hge].
  - specialize (Hw cs). rewrite in_seq in Hw. specialize (Hw ltac:(lia)).
    apply andb_true_iff in Hw. destruct Hw as [H1 H2]. apply orb_true_iff in H2.
    destruct (nth cs ints 0) as [|[|i]] eqn:Ei.
    + split; [intros _; apply negb_true_iff; exact H1|]. split; [lia|congruence].
    + split; [discriminate|]. split; [lia|]. intros _. destruct H2 as [H2|H2]; [discriminate|apply Nat.leb_le; exact H2].
    + split; [discriminate|]. split; [intros _; exact H1|]. intros _. destruct H2 as [H2|H2]; [discriminate|apply Nat.leb_le; exact H2].
  - rewrite (nth_overflow ints) by lia. rewrite (nth_overflow ens) by lia. split; auto. split; [lia|congruence].
Qed.

Theorem mk_world_wf : forall filters levels, wf_tableb filters levels = true -> WFworld (mk_world filters levels).
Proof.
  intros filters levels Hw. unfold wf_tableb in Hw. rewrite forallb_forall in Hw.
  assert (R : forall f, wf_rowb levels (nth f filters ([], [], 0)) = true).
  { intros f. destruct (Nat.lt_ge_cases f (length filters)).
    - apply Hw. apply nth_In. auto.
    - rewrite nth_overflow by auto. unfold wf_rowb. apply forallb_forall. intros cs _.
      destruct cs; reflexivity. }
  unfold WFworld, mk_world; cbn [w_interest w_enabled w_hint w_level].
  repeat split; intros f cs; specialize (R f); destruct (nth f filters ([], [], 0)) as [[ints ens] h]; cbn [fst snd];
    destruct (wf_row_sound _ _ _ _ R cs) as [A [B C]]; unfold interest_of_nat.
  - destruct (nth cs ints 0) as [|[|i]]; try discriminate. auto.
  - destruct (nth cs ints 0) as [|[|i]]; try discriminate. intros _. apply B. lia.
  - destruct (nth cs ints 0) as [|[|i]]; intros Hn; try congruence; apply C; lia.
Qed.
