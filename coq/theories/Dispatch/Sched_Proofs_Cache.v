(** The two-phase argument for the interest cache and the max level.

    A cached interest / the stored max level is always *backed* by every collector that has completed
    [Dispatch::new] and is still live: for each such collector one of the values "in play" in its cell (the
    current one, or one replaced by a reload whose rebuild pass has not completed yet) gave that answer.
    Readers ([register]) and writers ([register_dispatch] / [rebuild_interest_cache]) carry progress invariants
    through their loops; the RwLock makes every other thread's step leave the loop's inputs alone. *)
From Coq Require Import List Arith Bool Lia.
From TV Require Import Dispatch.Sched_Model Dispatch.Sched_Proofs_Base Dispatch.Sched_Proofs_Lock Dispatch.Sched_Proofs_Live
  Dispatch.Sched_Proofs_Reg Dispatch.Sched_Proofs_Ghost.
Import ListNotations.

(** values of c's cell that a rebuild pass running now has seen or will see *)
Definition fresh (s : state) (c : cid) : list fid := st_cell s c :: map snd (st_olds s c).

Lemma fresh_inplay : forall s c f, In f (fresh s c) -> In f (inplay s c).
Proof.
  unfold fresh, inplay. intros s c f [E|Hin]; [left; auto|right].
  rewrite map_app. apply in_or_app. auto.
Qed.

Definition asked (s : state) (c : cid) (cs : csid) : Prop := exists t, In (EvAsk t c cs) (st_log s).

(** collector under construction, not yet pushed into the dispatcher list *)
Definition pending (s : state) (c : cid) : Prop := exists t, t < st_n s /\ pcof s t = PWrLock (KNew c).

(** the ask loop of [rebuild_callsite_interest]: callsite, collectors still to ask (current first), accumulator *)
Definition pc_ask (p : pc) : option (csid * list cid * option interest) :=
  match p with
  | PRgUp cs todo acc | PWrAskUp _ _ cs todo acc _ => Some (cs, todo, acc)
  | PRgCall cs c todo acc | PWrAskCall _ _ cs c todo acc _ => Some (cs, c :: todo, acc)
  | _ => None
  end.
(** the retain loop of [rebuild_interest] *)
Definition pc_ret (p : pc) : option (list cid * list cid * nat) :=
  match p with
  | PWrRetUp _ todo kept m => Some (todo, kept, m)
  | PWrRetCall _ c todo kept m => Some (c :: todo, kept, m)
  | _ => None
  end.
(** the max level the writer computed in the retain loop *)
Definition pc_wmax (p : pc) : option nat :=
  match p with
  | PWrAskUp _ m _ _ _ _ | PWrAskCall _ m _ _ _ _ _ | PWrNext _ m _ | PWrSetMax _ m => Some m
  | _ => None
  end.
(** the callsites the writer has not finished yet *)
Definition pc_rest (p : pc) : option (list csid) :=
  match p with
  | PWrAskUp _ _ cs _ _ more | PWrAskCall _ _ cs _ _ _ more => Some (cs :: more)
  | PWrNext _ _ more => Some more
  | PWrSetMax _ _ | PWrUnlock _ => Some []
  | _ => None
  end.

Definition is_wlock (p : pc) : bool := match p with PWrLock _ => true | _ => false end.

(** * What a step outside the writer section leaves alone *)
Lemma frameA : forall W s t s', step W s t = Some s' -> in_wsec (pcof s t) = false -> is_wlock (pcof s t) = false ->
  st_disps s' = st_disps s /\ st_max s' = st_max s /\ st_cleaning s' = st_cleaning s /\
  (forall c, st_created s c = true -> forall f, In f (fresh s c) -> In f (fresh s' c)) /\
  (forall c, st_created s c = true -> forall f, In f (inplay s c) -> In f (inplay s' c)).
Proof.
  intros W s t s' H. unfold pcof, fresh, inplay. step_inv H; rewrite ?Hpc; cbn [in_wsec is_wlock]; intros E1 E2; try discriminate;
    repeat split; auto.
  - intros c0 Hc f0. upd_cases; auto. congruence.
  - intros c0 Hc f0. upd_cases; auto. congruence.
  - intros c0 Hc f0. upd_cases; auto. simpl. tauto.
  - intros c0 Hc f0. upd_cases; auto. simpl. tauto.
Qed.
Lemma frameB : forall W s t s', step W s t = Some s' -> in_wsec (pcof s t) = false -> in_rsec (pcof s t) = false ->
  st_cache s' = st_cache s /\ st_list s' = st_list s.
Proof.
  intros W s t s' H. unfold pcof. step_inv H; rewrite ?Hpc; cbn [in_wsec in_rsec]; intros E1 E2; try discriminate; auto.
Qed.
Lemma frameC : forall W s t s', step W s t = Some s' -> is_wlock (pcof s t) = true -> st_writer s = None /\ st_readers s = [].
Proof.
  intros W s t s' H. unfold pcof. step_inv H; rewrite ?Hpc; cbn [is_wlock]; intros E1; try discriminate; auto.
Qed.
(** inside the reader section: everything but the cache and the list *)
Lemma frameR : forall W s t s', step W s t = Some s' -> in_rsec (pcof s t) = true ->
  st_cell s' = st_cell s /\ st_olds s' = st_olds s /\ st_created s' = st_created s.
Proof.
  intros W s t s' H. unfold pcof. step_inv H; rewrite ?Hpc; cbn [in_rsec]; intros E1; try discriminate; auto.
Qed.
(** inside the writer section *)
Lemma frameW : forall W s t s', step W s t = Some s' -> in_wsec (pcof s t) = true ->
  st_cell s' = st_cell s /\ st_olds s' = st_olds s /\ st_created s' = st_created s /\ st_list s' = st_list s.
Proof.
  intros W s t s' H. unfold pcof. step_inv H; rewrite ?Hpc; cbn [in_wsec]; intros E1; try discriminate; auto.
Qed.

Lemma asked_step : forall W s t s' c cs, step W s t = Some s' -> asked s c cs -> asked s' c cs.
Proof. intros W s t s' c cs H [u Hu]. exists u. eapply step_log_mono; eauto. Qed.

Lemma live_mono : forall W s t s' c, step W s t = Some s' -> st_created s c = true -> live s' c = true -> live s c = true.
Proof. intros W s t s' c H Hc Hl. destruct (live_step _ _ _ _ _ H Hl) as [|[E _]]; auto. congruence. Qed.

(** the lock keeps every other thread out while somebody is inside a section *)
Lemma excl_other : forall W s t s' u, InvL s -> step W s t = Some s' -> u <> t -> u < st_n s ->
  (in_rsec (pcof s u) = true \/ in_wsec (pcof s u) = true) ->
  in_wsec (pcof s t) = false /\ is_wlock (pcof s t) = false /\ (in_wsec (pcof s u) = true -> in_rsec (pcof s t) = false).
Proof.
  intros W s t s' u IL H Hne Hu Hsec.
  destruct (step_frame _ _ _ _ H) as [Hlt0 _].
  assert (A : in_wsec (pcof s t) = false).
  { destruct (in_wsec (pcof s t)) eqn:E; auto. exfalso. apply (L2 _ IL) in E; auto.
    destruct Hsec as [Hs|Hs].
    - apply (L4 _ IL) in Hs; auto. rewrite (L5 _ IL) in Hs; [contradiction|congruence].
    - apply (L2 _ IL) in Hs; auto. congruence. }
  split; auto. split.
  - destruct (is_wlock (pcof s t)) eqn:E; auto. exfalso. destruct (frameC _ _ _ _ H E) as [Ew Er].
    destruct Hsec as [Hs|Hs].
    + apply (L4 _ IL) in Hs; auto. rewrite Er in Hs. contradiction.
    + apply (L2 _ IL) in Hs; auto. congruence.
  - intros Hs. destruct (in_rsec (pcof s t)) eqn:E; auto. exfalso.
    apply (L4 _ IL) in E; auto. apply (L2 _ IL) in Hs; auto. rewrite (L5 _ IL) in E; [contradiction|congruence].
Qed.

Lemma ask_sec : forall p x, pc_ask p = Some x -> in_rsec p = true \/ in_wsec p = true.
Proof. destruct p; simpl; intros; try discriminate; auto. Qed.
Lemma ret_sec : forall p x, pc_ret p = Some x -> in_wsec p = true.
Proof. destruct p; simpl; intros; try discriminate; auto. Qed.
Lemma wmax_sec : forall p x, pc_wmax p = Some x -> in_wsec p = true.
Proof. destruct p; simpl; intros; try discriminate; auto. Qed.
Lemma rest_sec : forall p x, pc_rest p = Some x -> in_wsec p = true.
Proof. destruct p; simpl; intros; try discriminate; auto. Qed.

Section Cache.
  Variable W : world.

  Definition backs (vals : list fid) (cs : csid) (i : interest) : Prop :=
    (i = IAlways -> exists f, In f vals /\ w_interest W f cs = IAlways) /\
    (i = INever -> exists f, In f vals /\ w_interest W f cs = INever).
  Definition covered (s : state) (acc : option interest) (c : cid) (cs : csid) : Prop :=
    match acc with None => False | Some a => backs (fresh s c) cs a /\ asked s c cs end.
  Definition hint_ok (vals : list fid) (m : nat) : Prop := exists f, In f vals /\ w_hint W f <= m.

  Lemma backs_mono : forall v v' cs i, (forall f, In f v -> In f v') -> backs v cs i -> backs v' cs i.
  Proof. intros v v' cs i Hs [B1 B2]. split; intros E; [destruct (B1 E) as [f [? ?]]|destruct (B2 E) as [f [? ?]]]; eauto. Qed.
  Lemma hint_ok_mono : forall v v' m m', (forall f, In f v -> In f v') -> m <= m' -> hint_ok v m -> hint_ok v' m'.
  Proof. intros v v' m m' Hs Hm [f [Hf Hh]]. exists f. split; auto. lia. Qed.

  Lemma backs_combine_old : forall v cs a i, backs v cs a -> backs v cs (interest_and a i).
  Proof.
    intros v cs a i [B1 B2]. split; intros E; destruct a, i; simpl in E; try discriminate; auto.
  Qed.
  Lemma backs_combine_new : forall v cs a f, In f v -> backs v cs (interest_and a (w_interest W f cs)).
  Proof.
    intros v cs a f Hf. split; intros E; exists f; split; auto; destruct a, (w_interest W f cs); simpl in E; try discriminate; auto.
  Qed.
  Lemma backs_self : forall v cs f, In f v -> backs v cs (w_interest W f cs).
  Proof. intros v cs f Hf. split; intros E; exists f; auto. Qed.

  Record InvM (s : state) : Prop := {
    M0 : forall c, In c (st_disps s) -> st_created s c = true;
    M1 : forall c, st_created s c = true -> ~ pending s c -> live s c = true -> In c (st_disps s);
    MAsk : forall t cs todo acc, t < st_n s -> pc_ask (pcof s t) = Some (cs, todo, acc) ->
             forall c, In c (st_disps s) -> live s c = true -> In c todo \/ covered s acc c cs;
    MRet : forall t todo kept m, t < st_n s -> pc_ret (pcof s t) = Some (todo, kept, m) ->
             (forall c, In c (st_disps s) -> live s c = true -> In c todo \/ In c kept) /\
             (forall c, In c kept -> live s c = true -> hint_ok (fresh s c) m) /\
             (forall c, In c todo \/ In c kept -> In c (st_disps s));
    MWmax : forall t m, t < st_n s -> pc_wmax (pcof s t) = Some m ->
             forall c, In c (st_disps s) -> live s c = true -> hint_ok (fresh s c) m;
    MUnl : forall t k, t < st_n s -> pcof s t = PWrUnlock k ->
             forall c, In c (st_disps s) -> live s c = true -> hint_ok (fresh s c) (st_max s);
    MVis : forall t rest, t < st_n s -> pc_rest (pcof s t) = Some rest ->
             forall cs i, In cs (st_list s) -> ~ In cs rest -> st_cache s cs = Some i ->
             forall c, In c (st_disps s) -> live s c = true -> backs (fresh s c) cs i /\ asked s c cs;
    M3 : forall cs i c, st_cache s cs = Some i -> instP s c -> live s c = true ->
             backs (inplay s c) cs i /\ asked s c cs;
    M5 : forall c, instP s c -> live s c = true -> hint_ok (inplay s c) (st_max s)
  }.

  Lemma InvM_init : forall progs, InvM (init progs).
  Proof.
    intros. constructor; unfold pcof; simpl; intros; try discriminate; try contradiction.
    all: try (destruct H0 as [Hc _]; discriminate Hc).
    all: try (destruct H as [Hc _]; discriminate Hc).
  Qed.
End Cache.
