(** Liveness (Arc strong count > 0) along steps: references are only ever copied from existing references
    or created by [Dispatch::new]; a collector whose count dropped to zero stays dead.  Plus the bookkeeping of
    collectors under construction ([newing]) and of who may be a thread's current collector. *)
From Coq Require Import List Arith Bool Lia.
From TV Require Import Dispatch.Sched_Model Dispatch.Sched_Proofs_Base Dispatch.Sched_Proofs_Lock.
Import ListNotations.

Lemma live_iff : forall s c, live s c = true <->
  st_handle s c = true \/ st_gdisp s = Some c \/ exists t, t < st_n s /\ th_holds (st_thr s t) c = true.
Proof.
  intros. unfold live. rewrite !orb_true_iff, oeqb_true, any_thread_true. tauto.
Qed.
Lemma newing_iff : forall s c, newing s c = true <-> exists t, t < st_n s /\ pc_new (pcof s t) c = true.
Proof. intros. unfold newing. rewrite any_thread_true. reflexivity. Qed.
Lemma newing_false : forall s c, newing s c = false <-> forall t, t < st_n s -> pc_new (pcof s t) c = false.
Proof. intros. unfold newing. rewrite any_thread_false. reflexivity. Qed.

Lemma th_holds_iff : forall th c, th_holds th c = true <->
  In c (th_scopes th) \/ pc_new (th_pc th) c = true \/ pc_tmp (th_pc th) = Some c.
Proof. intros. unfold th_holds, pc_holds. rewrite !orb_true_iff, mem_In, oeqb_true. tauto. Qed.

Lemma newing_live : forall s c, newing s c = true -> live s c = true.
Proof.
  intros s c H. apply newing_iff in H. destruct H as [t [Hlt Hn]]. apply live_iff. right. right.
  exists t. split; auto. apply th_holds_iff. auto.
Qed.

Lemma upd_true : forall (f : nat -> bool) k v x, upd f k v x = true -> (x = k /\ v = true) \/ (x <> k /\ f x = true).
Proof. intros. unfold upd in H. destruct (Nat.eqb_spec x k); auto. Qed.

Lemma step_handle : forall W s t s' c, step W s t = Some s' -> st_handle s' c = true ->
  st_handle s c = true \/ pc_new (pcof s t) c = true.
Proof.
  intros W s t s' c H. unfold pcof. step_inv H; norm; rewrite ?Hpc; auto.
  all: intros Hu; apply upd_true in Hu; destruct Hu as [[-> Hu]|[_ Hu]]; auto; try discriminate.
  right. cbn. apply Nat.eqb_refl.
Qed.
Lemma step_gdisp : forall W s t s' c, step W s t = Some s' -> st_gdisp s' = Some c ->
  st_gdisp s = Some c \/ pc_tmp (pcof s t) = Some c.
Proof.
  intros W s t s' c H. unfold pcof. step_inv H; norm; rewrite ?Hpc; auto.
Qed.
Lemma step_holds : forall W s t s' c, step W s t = Some s' -> th_holds (st_thr s' t) c = true ->
  th_holds (st_thr s t) c = true \/ st_handle s c = true \/ live s c = true \/
  (st_created s c = false /\ pc_new (pcof s' t) c = true).
Proof.
  intros W s t s' c H. unfold pcof. rewrite !th_holds_iff. step_inv H; self; rewrite ?Hpc; cbn [pc_new pc_kind pc_tmp kind_new].
  all: intros [Hs|[Hs|Hs]]; try discriminate Hs; auto.
  all: try match goal with Hs : In _ (_ :: _) |- _ => destruct Hs as [<-|Hs] end.
  all: try match goal with Hs : In _ (tl _) |- _ => apply in_tl in Hs end.
  all: try match goal with Hs : Some _ = Some _ |- _ => inversion Hs; subst; clear Hs end.
  all: auto 7.
  apply Nat.eqb_eq in Hs. subst. right. right. right. split; auto using Nat.eqb_refl.
Qed.

(** A step never resurrects a collector: whoever is live afterwards was live before, or was just created. *)
Lemma live_step : forall W s t s' c, step W s t = Some s' ->
  live s' c = true -> live s c = true \/ (st_created s c = false /\ pc_new (pcof s' t) c = true).
Proof.
  intros W s t s' c H HL.
  destruct (step_frame _ _ _ _ H) as [Hlt0 [Hn Hoth]].
  apply live_iff in HL. rewrite Hn in HL.
  destruct HL as [HL | [HL | [u [Hu HL]]]].
  - apply (step_handle _ _ _ _ _ H) in HL. destruct HL as [HL|HL]; left; apply live_iff; auto.
    right. right. exists t. split; auto. apply th_holds_iff. auto.
  - apply (step_gdisp _ _ _ _ _ H) in HL. destruct HL as [HL|HL]; left; apply live_iff; auto.
    right. right. exists t. split; auto. apply th_holds_iff. auto.
  - destruct (Nat.eq_dec u t) as [->|Hne].
    + apply (step_holds _ _ _ _ _ H) in HL. destruct HL as [HL|[HL|[HL|HL]]]; auto; left; apply live_iff; eauto.
    + rewrite Hoth in HL by auto. left. apply live_iff. eauto.
Qed.

(** * Collectors under construction *)

(** a thread enters [pc_new c] only by starting [ONew c] on a not-yet-created c, keeps it through the writer
    section and leaves it at the unlock *)
Lemma step_pc_new : forall W s t s' c, step W s t = Some s' -> pc_new (pcof s' t) c = true ->
  pc_new (pcof s t) c = true \/
  (st_created s c = false /\ st_created s' c = true /\ pcof s t = PIdle /\ pcof s' t = PWrLock (KNew c)).
Proof.
  intros W s t s' c H. unfold pcof. step_inv H; self; rewrite ?Hpc; cbn [pc_new pc_kind kind_new]; auto; try discriminate.
  intros E. apply Nat.eqb_eq in E. subst. rewrite upd_same. auto.
Qed.
Lemma step_created : forall W s t s' c, step W s t = Some s' -> st_created s c = true -> st_created s' c = true.
Proof.
  intros W s t s' c H. step_inv H; norm; auto.
  intros E. unfold upd. destruct (c =? c0); auto.
Qed.
Lemma step_created_new : forall W s t s' c, step W s t = Some s' -> st_created s c = false -> st_created s' c = true ->
  pcof s' t = PWrLock (KNew c).
Proof.
  intros W s t s' c H. unfold pcof. step_inv H; self; try congruence.
  intros E1 E2. unfold upd in E2. destruct (Nat.eqb_spec c c0); subst; congruence.
Qed.

Record InvN (s : state) : Prop := {
  N1 : forall c t, t < st_n s -> pc_new (pcof s t) c = true -> st_created s c = true;
  N2 : forall c t1 t2, t1 < st_n s -> t2 < st_n s -> pc_new (pcof s t1) c = true -> pc_new (pcof s t2) c = true -> t1 = t2
}.

Lemma InvN_init : forall progs, InvN (init progs).
Proof. intros. constructor; unfold pcof; simpl; intros; discriminate. Qed.

Lemma InvN_step : forall W s t s', InvN s -> step W s t = Some s' -> InvN s'.
Proof.
  intros W s t s' [n1 n2] H.
  destruct (step_frame _ _ _ _ H) as [Hlt [Hn Hoth]].
  assert (Hpo : forall t', t' <> t -> pcof s' t' = pcof s t') by (intros; unfold pcof; rewrite Hoth; auto).
  constructor; rewrite Hn.
  - intros c u Hu Hp. destruct (Nat.eq_dec u t) as [->|Hne].
    + destruct (step_pc_new _ _ _ _ _ H Hp) as [Hp'|[Hc [Hc' _]]]; auto.
      eapply step_created; eauto.
    + rewrite Hpo in Hp by auto. eapply step_created; eauto.
  - intros c t1 t2 H1 H2 P1 P2.
    destruct (Nat.eq_dec t1 t) as [->|Hne1]; destruct (Nat.eq_dec t2 t) as [->|Hne2]; auto.
    + rewrite Hpo in P2 by auto.
      destruct (step_pc_new _ _ _ _ _ H P1) as [Hp'|[Hc _]]; eauto.
      apply n1 in P2; auto. congruence.
    + rewrite Hpo in P1 by auto.
      destruct (step_pc_new _ _ _ _ _ H P2) as [Hp'|[Hc _]]; eauto.
      apply n1 in P1; auto. congruence.
    + rewrite Hpo in P1, P2 by auto. eauto.
Qed.
