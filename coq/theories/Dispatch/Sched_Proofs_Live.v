(** Liveness (Arc strong count > 0) along steps: references are only ever copied from existing references
    or created by [Dispatch::new]; a collector whose count dropped to zero stays dead. *)
From Coq Require Import List Arith Bool Lia.
From TV Require Import Dispatch.Sched_Model Dispatch.Sched_Proofs_Base Dispatch.Sched_Proofs_Lock.
Import ListNotations.

Lemma live_iff : forall s c, live s c = true <->
  st_handle s c = true \/ st_gdisp s = Some c \/ exists t, t < st_n s /\ th_holds (st_thr s t) c = true.
Proof.
  intros. unfold live. rewrite !orb_true_iff, oeqb_true, any_thread_true. tauto.
Show. Qed.
Lemma newing_iff : forall s c, newing s c = true <-> exists t, t < st_n s /\ pc_new (pcof s t) c = true.
Proof. intros. unfold newing. rewrite any_thread_true. reflexivity. Qed.
Lemma newing_false : forall s c, newing s c = false <-> forall t, t < st_n s -> pc_new (pcof s t) c = false.
Proof. intros. unfold newing. rewrite any_thread_false. reflexivity. Qed.

Lemma th_holds_iff : forall th c, th_holds th c = true <->
  In c (th_scopes th) \/ pc_new (th_pc th) c = true \/ pc_tmp (th_pc th) = Some c.
Proof. intros. unfold th_holds, pc_holds. rewrite !orb_true_iff, mem_In, oeqb_true. tauto. Qed.

Lemma newing_live : forall s c, newing s c = true -> live s c = true.
Proof.
  intros s c H. apply newing_iff in H. destruct H as [t [Hlt Hn]]. apply live_iff. right. right.
  exists t. split; auto. apply th_holds_iff. auto.
Show. Qed.

Lemma in_tl : forall (A : Type) (x : A) l, In x (tl l) -> In x l.
Proof. intros A x [|y l]; simpl; auto. Qed.

(** A step never resurrects a collector: whoever is live afterwards was live before, or was just created. *)
Lemma live_step : forall W s t s' c, step W s t = Some s' ->
  live s' c = true -> live s c = true \/ (st_created s c = false /\ pc_new (pcof s' t) c = true).
Proof.
  intros W s t s' c H HL.
  destruct (step_frame _ _ _ _ H) as [Hlt0 [Hn Hoth]].
  apply live_iff in HL. rewrite Hn in HL.
  assert (Hold : forall u, u <> t -> u < st_n s -> th_holds (st_thr s' u) c = true -> live s c = true).
  { intros u Hne Hu Hh. rewrite Hoth in Hh by auto. apply live_iff. eauto. }
  assert (Hself : forall x, In x (th_scopes (st_thr s t)) \/ pc_new (th_pc (st_thr s t)) x = true \/ pc_tmp (th_pc (st_thr s t)) = Some x -> live s x = true).
  { intros x Hx. apply live_iff. right. right. exists t. split; auto. apply th_holds_iff. auto. }
  assert (Hh : forall x, st_handle s x = true -> live s x = true) by (intros; apply live_iff; auto).
  assert (Hg : forall x, st_gdisp s = Some x -> live s x = true) by (intros; apply live_iff; auto).
  destruct HL as [HL | [HL | [u [Hu HL]]]].
  all: try (destruct (Nat.eq_dec u t) as [->|Hne]; [| left; eapply Hold; eauto]).
  all: try apply th_holds_iff in HL.
  all: step_inv H.
  all: try (destruct (chk_eq t cs s) as [-> | ->]).
  all: unfold pcof in *; self.
  all: try rewrite Hpc in *.
  all: try solve [left; auto].
  all: repeat match goal with H : _ \/ _ |- _ => destruct H end.
  all: cbn [pc_new pc_kind pc_tmp kind_new] in *.
  all: try discriminate.
  all: try match goal with H : Some _ = Some _ |- _ => inversion H; subst; clear H end.
  all: try match goal with H : (_ =? _) = true |- _ => apply Nat.eqb_eq in H; subst end.
  all: try match goal with H : upd _ ?k _ ?x = true |- _ => unfold upd in H; destruct (Nat.eqb_spec x k); [subst|]; try discriminate end.
  all: try match goal with H : In _ (_ :: _) |- _ => destruct H; [subst|] end.
  all: try solve [ left; auto
                 | left; apply Hself; rewrite Hpc; cbn; auto using Nat.eqb_refl
                 | left; apply Hself; auto using in_tl
                 | left; apply Hself; rewrite Hpc; cbn; right; left; apply Nat.eqb_refl
                 | right; split; [assumption | apply Nat.eqb_refl] ].
Show. Qed.
