(** Dispatch/Proofs_Shape.v — C01's half (macros.rs, lib.rs, collect.rs, callsite.rs, level_filters.rs; the half about
    dispatch.rs is Dispatch/Proofs_Shape_C02.v): what the translator read (coq/gen/Gen_dispatch.v, regenerated from the
    Rust source on every run) means exactly what Dispatch/Model.v hard-codes.  Each lemma below fails to compile as soon as the
    corresponding piece of source changes its meaning (or is no longer recognised): that is the tie of the
    hand-written model to the source, next to the behavioural correspondence of driver/props/c01.py / c02.py. *)
From Coq Require Import NArith List Bool String Lia.
From TV Require Import Dispatch.Model Dispatch.Shape Dispatch.Source.
From TVGen Require Import Gen_dispatch.
Import ListNotations.
Local Open Scope N_scope.

(** * Nothing unrecognised; every assumed shape present *)
Lemma source_recognised : gen_guard_unrecognised = [].
Proof. reflexivity. Qed.
Lemma source_guard_ok : guard_shape_ok gen_guard = true.
Proof. vm_compute. reflexivity. Qed.

(** * macros.rs: level_enabled! as read is the model's [level_enabled] *)
Lemma source_level_guard static_max s cs :
  interp_level_guard (g_level_enabled gen_guard) static_max s cs = level_enabled static_max s cs.
Proof. unfold interp_level_guard, level_enabled, lvl_le. simpl. rewrite andb_true_r. reflexivity. Qed.

(** * collect.rs: Interest::and as read is the model's [iand] *)
Lemma source_iand a b : interp_iand (g_iand gen_guard) a b = Some (iand a b).
Proof. reflexivity. Qed.

(** * lib.rs: the interest byte.  What set_interest stores for an interest is read back as that interest by
    interest() (and by register()'s reload); the initial byte means "register first"; and no other byte is ever
    read as a cached interest — so the model's [cache : callsite -> option interest] (None = 0xFF) is exact. *)
Lemma source_interest_byte :
  (forall i, meaning_of_byte gen_guard (byte_of_interest gen_guard i) = BCached i) /\
  (forall i, reload_of_byte gen_guard (byte_of_interest gen_guard i) = i) /\
  meaning_of_byte gen_guard (empty_byte gen_guard) = BRegister /\
  (forall b i, meaning_of_byte gen_guard b = BCached i -> b = byte_of_interest gen_guard i) /\
  g_bytes gen_guard = (byte_of_interest gen_guard never, byte_of_interest gen_guard sometimes,
                       byte_of_interest gen_guard always, empty_byte gen_guard).
Proof.
  split; [intros []; reflexivity|]. split; [intros []; reflexivity|]. split; [reflexivity|]. split; [|reflexivity].
  intros b i. unfold meaning_of_byte. simpl.
  destruct (N.eqb_spec b 0); [intro H; injection H as <-; assumption|].
  destruct (N.eqb_spec b 1); [intro H; injection H as <-; assumption|].
  destruct (N.eqb_spec b 2); [intro H; injection H as <-; assumption|].
  discriminate.
Qed.

(** * callsite.rs: the running maximum of rebuild_interest as read is the step of the model's [max_hint] *)
Lemma source_max_step conf m c :
  interp_max_step (g_rebuild gen_guard) conf m c =
  Some (if frank m <? frank (hint_or_trace (conf c)) then hint_or_trace (conf c) else m).
Proof. unfold interp_max_step, hint_or_trace. simpl. destruct (c_hint (conf c)); reflexivity. Qed.

(** * level_filters.rs: STATIC_MAX_LEVEL (the model's [static_max] parameter) of the four harness builds ... *)
Lemma source_static_max :
  src_static_max [] = 5 /\ src_static_max ["max_level_info"%string] = 3 /\
  (* release-only features do not cap a build with debug assertions; the first listed feature wins *)
  src_static_max ["release_max_level_off"%string] = 5 /\
  src_static_max ["max_level_debug"%string; "max_level_warn"%string] = 2 /\
  (* without debug assertions *)
  src_static_max_of true ["max_level_info"%string; "release_max_level_trace"%string] = 5 /\
  src_static_max_of true ["max_level_debug"%string; "release_max_level_info"%string] = 3 /\
  (* two features of one family (cargo feature unification): the most restrictive one *)
  src_static_max ["max_level_debug"%string; "max_level_info"%string] = 3 /\
  src_static_max_of true ["release_max_level_debug"%string; "release_max_level_info"%string; "max_level_error"%string] = 3.
Proof. repeat split; vm_compute; reflexivity. Qed.

(** ... and for EVERY feature selection and both profiles: the compile-time cap is what the feature names configure —
    `release_max_level_<n>` without debug assertions, `max_level_<n>` with them, the most restrictive selected one —
    whenever the profile's family selects anything.  (So the compile-time shortcut never suppresses more than it was
    configured to; in particular `release_max_level_trace` means TRACE whatever `max_level_*` features are also on.) *)
Lemma source_static_cap_is_configured release (on : string -> bool) :
  match configured_cap release on with
  | Some l => static_max_of (g_static_max gen_guard) (g_static_release_falls_through gen_guard) (g_static_last_wins gen_guard) release on = l
  | None => True
  end.
Proof.
  unfold configured_cap, static_max_of, pick_row. destruct release; simpl.
  all: repeat match goal with
              | |- context [if ?g ?f then _ else _] => destruct (g f)
              end; simpl; try reflexivity; try exact I.
Qed.
