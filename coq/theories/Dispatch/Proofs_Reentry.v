(** Dispatch/Proofs_Reentry.v — the re-entrancy flag `can_enter` (Dispatch/Reentry.v): it is set back after every
    emission whatever the receiving collector's callback does (return, panic caught above the emission, re-entrant
    emission), so a callback's panic changes nothing about who receives what afterwards; an emission from inside a
    callback on the slow path is handed the no-op dispatcher; histories with panicking callbacks refine the C02
    specification like histories without them.  And the unwinding half of the guard is load-bearing (witness). *)
From Coq Require Import NArith List Bool Lia Arith.
From TV Require Import Dispatch.Model Dispatch.Proofs_C01 Dispatch.Proofs_C02 Dispatch.Reentry.
Import ListNotations.
Local Open Scope N_scope.

Definition AllTrue (x : xstate) : Prop := forall t, ce x t = true.
Lemma AllTrue_init : AllTrue xinit.
Proof. intro t. reflexivity. Qed.

Lemma thr_eq_current s s' u : thr_eq s s' -> current s' u = current s u.
Proof. intros (_ & _ & G & S & T). unfold current, get_global. rewrite G, S, T. reflexivity. Qed.

Section Generic.
  Variable fx : bool.
  Variable ur : bool.
  Variable dc : bool.
  Variable sm : levelfilter.
  Variable conf : N -> collector.

  Lemma xgd_true can s t : can t = true -> xgd fx can s t = get_default fx s t.
  Proof. intro H. unfold xgd, get_default. rewrite H. reflexivity. Qed.

  Lemma guard_with_ext gd gd' s t cs :
    (forall s0, gd s0 t = gd' s0 t) -> guard_with sm conf gd s t cs = guard_with sm conf gd' s t cs.
  Proof.
    intro H. unfold guard_with. destruct (level_enabled sm s cs); [|reflexivity].
    destruct (interest_of conf s cs) as [s1 i]. destruct i; try reflexivity. rewrite H. reflexivity.
  Qed.
  Lemma emit_with_ext gd gd' s t cs :
    (forall s0, gd s0 t = gd' s0 t) -> emit_with sm conf gd s t cs = emit_with sm conf gd' s t cs.
  Proof.
    intro H. unfold emit_with. rewrite (guard_with_ext gd gd' s t cs H).
    destruct (guard_with sm conf gd' s t cs) as [[s1 con] ok]. destruct ok; [rewrite H|]; reflexivity.
  Qed.
  Lemma probe_with_ext gd gd' s t cs :
    (forall s0, gd s0 t = gd' s0 t) -> probe_with sm conf gd s t cs = probe_with sm conf gd' s t cs.
  Proof.
    intro H. unfold probe_with. rewrite (guard_with_ext gd gd' s t cs H).
    destruct (guard_with sm conf gd' s t cs) as [[s1 con] ok]. destruct ok; [rewrite H|]; reflexivity.
  Qed.
  Lemma guard_with_model s t cs : guard_with sm conf (get_default fx) s t cs = guard fx sm conf s t cs.
  Proof. reflexivity. Qed.
  Lemma emit_with_model s t cs : emit_with sm conf (get_default fx) s t cs = do_emit fx sm conf s t cs.
  Proof. reflexivity. Qed.
  Lemma probe_with_model s t cs : probe_with sm conf (get_default fx) s t cs = do_probe fx sm conf s t cs.
  Proof. reflexivity. Qed.

  (** With every flag set, a base op is exactly Model.step. *)
  Lemma xstep_base x o :
    AllTrue x ->
    xs (fst (xstep fx ur dc sm conf x (XBase o))) = fst (step fx sm conf (xs x) o) /\
    snd (xstep fx ur dc sm conf x (XBase o)) = XO (snd (step fx sm conf (xs x) o)) /\
    AllTrue (fst (xstep fx ur dc sm conf x (XBase o))).
  Proof.
    intro HA.
    assert (E : forall t s0, xgd fx (ce x) s0 t = get_default fx s0 t) by (intros; apply xgd_true; apply HA).
    destruct o as [|c|t d|t k|t c|t cs|t cs|t|t| |c]; simpl.
    - match goal with |- context [rebuild conf ?s1] => generalize (rebuild conf s1) end. intro s'. simpl. auto.
    - destruct (handle (xs x) c); simpl; auto.
    - destruct (do_open fx (xs x) t d) as [s' ob]. simpl. repeat split.
      intro u. simpl. destruct ob; try apply HA. unfold upd. destruct (u =? t); [reflexivity | apply HA].
    - destruct (do_close fx (xs x) t k) as [s' ob]. simpl. auto.
    - destruct (do_set_global (xs x) c) as [s' ob]. simpl. auto.
    - rewrite (emit_with_ext (xgd fx (ce x)) (get_default fx) (xs x) t cs (E t)), emit_with_model.
      destruct (do_emit fx sm conf (xs x) t cs) as [s' ob]. simpl. auto.
    - rewrite (probe_with_ext (xgd fx (ce x)) (get_default fx) (xs x) t cs (E t)), probe_with_model.
      destruct (do_probe fx sm conf (xs x) t cs) as [s' ob]. simpl. auto.
    - rewrite E. destruct (get_default fx (xs x) t) as [s' d]. simpl. auto.
    - rewrite (HA t). destruct (slow fx (xs x) t) as [s' d]. simpl. auto.
    - auto.
    - destruct (c <? next (xs x)); simpl; auto.
  Qed.

  (** The flag after an emission whose callback does ANYTHING is what it was before (when unwinding sets it back). *)
  Lemma cb_flag_restored x t cs b :
    ur = true -> forall u, ce (fst (do_emit_cb fx ur sm conf x t cs b)) u = ce x u.
  Proof.
    intros Hur u. unfold do_emit_cb.
    destruct (guard_with sm conf (xgd fx (ce x)) (xs x) t cs) as [[s1 con] ok]. destruct ok; [|reflexivity].
    destruct (xgd fx (ce x) s1 t) as [s2 d]. destruct d as [|c]; [reflexivity|].
    destruct (cb_nested b) as [cs'|];
      [destruct (emit_with sm conf (xgd fx (if negb (Nat.eqb (scoped s1) 0) && ce x t then upd (ce x) t false else ce x)) s2 t cs') as [s' o]|];
      simpl.
    all: destruct (negb (Nat.eqb (scoped s1) 0) && ce x t) eqn:En; [|reflexivity].
    all: unfold upd; destruct (u =? t) eqn:Eu; [|reflexivity].
    all: apply N.eqb_eq in Eu; subst u; apply andb_true_iff in En; destruct En as [_ En]; rewrite En, Hur.
    all: destruct (cb_panics b); reflexivity.
  Qed.

  (** A callback that does not emit — whether it returns or panics — leaves exactly the state and the observation of a
      plain emission. *)
  Lemma xstep_cb_plain x t cs b :
    AllTrue x -> cb_nested b = None ->
    xs (fst (do_emit_cb fx ur sm conf x t cs b)) = fst (do_emit fx sm conf (xs x) t cs) /\
    base_obs (snd (do_emit_cb fx ur sm conf x t cs b)) = snd (do_emit fx sm conf (xs x) t cs).
  Proof.
    intros HA Hn.
    assert (E : forall s0, xgd fx (ce x) s0 t = get_default fx s0 t) by (intros; apply xgd_true; apply HA).
    unfold do_emit_cb, do_emit.
    rewrite (guard_with_ext (xgd fx (ce x)) (get_default fx) (xs x) t cs E), guard_with_model.
    destruct (guard fx sm conf (xs x) t cs) as [[s1 con] ok]. destruct ok; [|split; reflexivity].
    rewrite E. destruct (get_default fx s1 t) as [s2 d]. destruct d as [|c]; [split; reflexivity|].
    rewrite Hn. simpl. split; reflexivity.
  Qed.

  Lemma xfinal_alltrue h : ur = true -> forall x, AllTrue x -> AllTrue (xfinal fx ur dc sm conf x h).
  Proof.
    intro Hur. induction h as [|o h IH]; intros x HA; simpl; [exact HA|]. apply IH.
    destruct o as [o|t cs b|t cs].
    - apply (xstep_base x o HA).
    - intro u. simpl. rewrite (cb_flag_restored x t cs b Hur u). apply HA.
    - intro u. simpl. destruct (emit_with sm conf gd_dead (if dc then set_scoped (xs x) (S (scoped (xs x))) else xs x) t cs). simpl. apply HA.
  Qed.

  (** Histories whose callbacks return or panic (no re-entrant emission) are, observation by observation and state by
      state, the base histories obtained by forgetting what the callbacks did. *)
  Lemma no_reentry_cons o h : no_reentry (o :: h) -> no_reentry h.
  Proof.
    intros [H1 H2]. split.
    - intros t cs b Hin. apply (H1 t cs b). right. exact Hin.
    - intros t cs Hin. apply (H2 t cs). right. exact Hin.
  Qed.
  Lemma xrun_erase h : ur = true -> forall x, AllTrue x -> no_reentry h ->
    map (fun p => base_obs (fst p)) (xrun fx ur dc sm conf x h) = map fst (run fx sm conf (xs x) (erase h)).
  Proof.
    intro Hur. induction h as [|o h IH]; intros x HA Hn; simpl; [reflexivity|].
    destruct (xstep fx ur dc sm conf x o) as [x' ob] eqn:Ex.
    destruct (step fx sm conf (xs x) (erase_op o)) as [s' ob'] eqn:Es. simpl.
    assert (G : xs x' = s' /\ base_obs ob = ob' /\ AllTrue x').
    { destruct o as [o|t cs b|t cs]; simpl in Es; [| |exfalso; apply (proj2 Hn t cs); left; reflexivity].
      - destruct (xstep_base x o HA) as (H1 & H2 & H3). rewrite Ex in *. simpl in *. rewrite Es in *. simpl in *.
        subst. auto.
      - simpl in Ex.
        assert (Hb : cb_nested b = None) by (apply (proj1 Hn t cs b); left; reflexivity).
        destruct (xstep_cb_plain x t cs b HA Hb) as (H1 & H2). rewrite Ex in *. simpl in *. rewrite Es in *. simpl in *.
        split; [exact H1|]. split; [exact H2|].
        intro u. pose proof (cb_flag_restored x t cs b Hur u) as Hc. rewrite Ex in Hc. simpl in Hc. rewrite Hc. apply HA. }
    destruct G as (G1 & G2 & G3). rewrite G2. f_equal. rewrite <- G1. apply IH; [exact G3 | apply (no_reentry_cons o h Hn)].
  Qed.
End Generic.

(** * dispatch.rs as it is (fx = true) *)
Section Fixed.
  Variable ur : bool.
  Variable sm : levelfilter.
  Variable conf : N -> collector.

  Lemma xgd_pure can s t s' d : xgd true can s t = (s', d) -> s' = s.
  Proof.
    unfold xgd, slow. destruct (Nat.eqb (scoped s) 0); [intro H; injection H as <- _; reflexivity|].
    destruct (can t); [|intro H; injection H as <- _; reflexivity].
    destruct (tl (tls s t)); intro H; injection H as <- _; reflexivity.
  Qed.
  Lemma guard_with_thr_eq can s t cs s1 con ok :
    guard_with sm conf (xgd true can) s t cs = (s1, con, ok) -> thr_eq s s1.
  Proof.
    unfold guard_with. destruct (level_enabled sm s cs); [|intro H; injection H as <- _ _; apply thr_eq_refl].
    destruct (interest_of conf s cs) as [s0 i] eqn:Ei. apply interest_of_thr_eq in Ei.
    destruct i; try (intro H; injection H as <- _ _; exact Ei).
    destruct (xgd true can s0 t) as [s2 d] eqn:Eg. apply xgd_pure in Eg. subst s2.
    intro H; injection H as <- _ _. exact Ei.
  Qed.
  Lemma emit_with_thr_eq can s t cs : thr_eq s (fst (emit_with sm conf (xgd true can) s t cs)).
  Proof.
    unfold emit_with. destruct (guard_with sm conf (xgd true can) s t cs) as [[s1 con] ok] eqn:Eg.
    apply guard_with_thr_eq in Eg. destruct ok; [|exact Eg].
    destruct (xgd true can s1 t) as [s2 d] eqn:E2. apply xgd_pure in E2. subst s2. exact Eg.
  Qed.

  (** Whatever the callback does, the thread side of the state (every thread-local default and guard list,
      SCOPED_COUNT, the global default, the handles) is untouched. *)
  Lemma cb_thread_side x t cs b : thr_eq (xs x) (xs (fst (do_emit_cb true ur sm conf x t cs b))).
  Proof.
    unfold do_emit_cb.
    destruct (guard_with sm conf (xgd true (ce x)) (xs x) t cs) as [[s1 con] ok] eqn:Eg.
    apply guard_with_thr_eq in Eg. destruct ok; [|exact Eg].
    destruct (xgd true (ce x) s1 t) as [s2 d] eqn:E2. apply xgd_pure in E2. subst s2.
    destruct d as [|c]; [exact Eg|].
    destruct (cb_nested b) as [cs'|]; [|exact Eg].
    match goal with |- context [emit_with sm conf (xgd true ?can) s1 t cs'] =>
      pose proof (emit_with_thr_eq can s1 t cs') as He; destruct (emit_with sm conf (xgd true can) s1 t cs') as [s' o] end.
    simpl in *. exact (thr_eq_trans _ _ _ Eg He).
  Qed.

  (** An emission from inside a callback that runs under the slow path is handed the no-op dispatcher: nobody receives it. *)
  Lemma emit_with_none can s t cs :
    can t = false -> scoped s <> 0%nat -> delivered_of (snd (emit_with sm conf (xgd true can) s t cs)) = None.
  Proof.
    intros Hc Hs. unfold emit_with, guard_with.
    destruct (level_enabled sm s cs); [|reflexivity].
    destruct (interest_of conf s cs) as [s1 i] eqn:Ei. apply interest_of_thr_eq in Ei. destruct Ei as (_ & _ & _ & Hsc & _).
    assert (Hg : xgd true can s1 t = (s1, DNone)).
    { unfold xgd. rewrite Hsc. destruct (Nat.eqb (scoped s) 0) eqn:E; [apply Nat.eqb_eq in E; congruence|]. rewrite Hc. reflexivity. }
    destruct i; [reflexivity | |]; rewrite ?Hg; simpl; rewrite ?Hg; reflexivity.
  Qed.
  Lemma reentrant_gets_none x t cs cs' p con c nested pp :
    scoped (xs x) <> 0%nat -> ce x t = true ->
    snd (do_emit_cb true ur sm conf x t cs (CbEmit cs' p)) = XOEmitCb con (Some c) nested pp ->
    nested = Some None.
  Proof.
    intros Hs Hc. unfold do_emit_cb.
    destruct (guard_with sm conf (xgd true (ce x)) (xs x) t cs) as [[s1 con0] ok] eqn:Eg.
    apply guard_with_thr_eq in Eg. destruct Eg as (_ & _ & _ & Hsc & _).
    destruct ok; [|simpl; intro H; discriminate H].
    destruct (xgd true (ce x) s1 t) as [s2 d] eqn:E2. apply xgd_pure in E2. subst s2.
    destruct d as [|c0]; [simpl; intro H; discriminate H|].
    assert (E0 : Nat.eqb (scoped s1) 0 = false) by (apply Nat.eqb_neq; congruence).
    rewrite E0, Hc. simpl.
    pose proof (emit_with_none (upd (ce x) t false) s1 t cs') as Hn.
    destruct (emit_with sm conf (xgd true (upd (ce x) t false)) s1 t cs') as [s' o]. simpl in *.
    intro H. injection H as _ _ Hnest _. rewrite <- Hnest. f_equal. apply Hn.
    - unfold upd. rewrite N.eqb_refl. reflexivity.
    - congruence.
  Qed.
End Fixed.

(** * Thread teardown: a scope opened (and an emission made) from a thread-local destructor that runs after CURRENT_STATE
      is destroyed changes nothing for anybody, as long as the scope is counted when opened AND when closed. *)
Lemma emit_with_pure sm conf (gd : gdfun) s t cs :
  (forall s0 t0 s' d, gd s0 t0 = (s', d) -> s' = s0) -> thr_eq s (fst (emit_with sm conf gd s t cs)).
Proof.
  intro Hp. unfold emit_with, guard_with.
  destruct (level_enabled sm s cs); [|apply thr_eq_refl].
  destruct (interest_of conf s cs) as [s0 i] eqn:Ei. apply interest_of_thr_eq in Ei.
  destruct i.
  - exact Ei.
  - destruct (gd s0 t) as [s2 d] eqn:Eg. apply Hp in Eg. subst s2.
    destruct (enabled_of conf s0 d cs); [|exact Ei].
    destruct (gd s0 t) as [s3 d3] eqn:Eg3. apply Hp in Eg3. subst s3. exact Ei.
  - destruct (gd s0 t) as [s2 d] eqn:Eg. apply Hp in Eg. subst s2. exact Ei.
Qed.
Lemma gd_dead_pure s0 t0 s' d : gd_dead s0 t0 = (s', d) -> s' = s0.
Proof. unfold gd_dead. destruct (Nat.eqb (scoped s0) 0); intro H; injection H as <- _; reflexivity. Qed.
Theorem dead_scope_affects_nobody fx ur sm conf x t cs :
  let x' := fst (xstep fx ur true sm conf x (XDeadScope t cs)) in
  thr_eq (xs x) (xs x') /\ (forall u, ce x' u = ce x u) /\ (forall u, current (xs x') u = current (xs x) u).
Proof.
  simpl.
  pose proof (emit_with_pure sm conf gd_dead (set_scoped (xs x) (S (scoped (xs x)))) t cs gd_dead_pure) as He.
  destruct (emit_with sm conf gd_dead (set_scoped (xs x) (S (scoped (xs x)))) t cs) as [s2 ob]. simpl in *.
  destruct He as (H1 & H2 & H3 & H4 & H5). simpl in *.
  assert (T : thr_eq (xs x) (set_scoped s2 (Init.Nat.pred (scoped s2)))).
  { repeat split; simpl; try assumption. rewrite H4. reflexivity. }
  split; [exact T|]. split; [reflexivity|]. intro u. apply thr_eq_current. exact T.
Qed.
(** The increment is load-bearing: if a scope opened on a torn-down thread were not counted while its guard's drop still
    decrements, SCOPED_COUNT would reach 0 under a live scope of ANOTHER thread, whose emissions would then take the global
    fast path (witness: T0 holds a scope on collector 1, the global default is collector 0; T1's destructor opens and
    closes a scope after teardown; T0 emits). *)
Definition dead_history : list xop :=
  [ XBase New; XBase New; XBase (SetGlobal 0 0); XBase (Open 0 (DCol 1)); XDeadScope 1 f1_cs; XBase (Emit 0 f1_cs) ].
Example dead_scope_count_is_needed :
  nth 5 (map fst (xrun true true false (Some TRACE) (conf_of_list [all_pass; all_pass]) xinit dead_history)) XONoCurrent
    = XO (OEmit (Some (DCol 0)) (Some 0)) /\
  nth 5 (map fst (xrun true true true (Some TRACE) (conf_of_list [all_pass; all_pass]) xinit dead_history)) XONoCurrent
    = XO (OEmit (Some (DCol 1)) (Some 1)).
Proof. split; vm_compute; reflexivity. Qed.

(** * Headlines *)

(** "Restored on panic", at the point where a collector callback panics while handling an emission (and the panic is
    caught above the emission): after ANY history — earlier callback panics and re-entrant emissions included — and
    whatever the callback does, every thread's re-entrancy flag is set, and the dispatcher every thread is handed is
    what it was before the emission. *)
Theorem panic_in_callback_restores ur dc sm conf :
  ur = true ->
  forall h t cs b,
  let x := xfinal true ur dc sm conf xinit h in
  let x' := fst (xstep true ur dc sm conf x (XEmitCb t cs b)) in
  (forall u, ce x' u = true) /\
  (forall u, current (xs x') u = current (xs x) u) /\
  (forall u, xdefault true x' u = current (xs x) u) /\
  (forall u, xdefault true x u = current (xs x) u).
Proof.
  intros Hur h t cs b x x'.
  assert (HA : AllTrue x) by (apply xfinal_alltrue; [exact Hur | apply AllTrue_init]).
  assert (HA' : AllTrue x') by (intro u; unfold x'; simpl; rewrite (cb_flag_restored true ur sm conf x t cs b Hur u); apply HA).
  assert (Hc : forall u, current (xs x') u = current (xs x) u).
  { intro u. apply thr_eq_current. apply cb_thread_side. }
  assert (Hd : forall y u, AllTrue y -> xdefault true y u = current (xs y) u).
  { intros y u Hy. unfold xdefault. rewrite (xgd_true true (ce y) (xs y) u (Hy u)).
    destruct (get_default true (xs y) u) as [s' d] eqn:E. destruct (get_default_post true (xs y) u s' d E) as [-> _]. reflexivity. }
  split; [exact HA'|]. split; [exact Hc|]. split; [|intro u; apply Hd; exact HA].
  intro u. rewrite (Hd x' u HA'). apply Hc.
Qed.

(** ... so histories in which callbacks panic refine the C02 specification exactly like histories in which they return. *)
Theorem spec_refinement_with_callback_panics ur dc sm conf h :
  ur = true -> no_reentry h -> Nested (erase h) ->
  Forall2 agrees (map base_obs (map fst (xrun true ur dc sm conf xinit h))) (aspec ainit (erase h)).
Proof.
  intros Hur Hn Hnest. rewrite map_map.
  rewrite (xrun_erase true ur dc sm conf h Hur xinit AllTrue_init Hn). apply spec_refinement_fixed. exact Hnest.
Qed.

(** The unwinding half of the guard is load-bearing: if the flag were set back only on normal return, one caught callback
    panic inside a scope would make every later emission of that thread vanish although its scope is still live. *)
Definition cb_history : list xop :=
  [ XBase New; XBase (Open 0 (DCol 0)); XEmitCb 0 f1_cs CbPanic; XBase (Emit 0 f1_cs) ].
Example unwind_guard_is_needed :
  map fst (xrun true false true (Some TRACE) (conf_of_list [all_pass]) xinit cb_history) =
    [ XO (ONew 0); XO OUnit; XOEmitCb (Some (DCol 0)) (Some 0) None true; XO (OEmit (Some DNone) None) ] /\
  current (xs (xfinal true false true (Some TRACE) (conf_of_list [all_pass]) xinit cb_history)) 0 = DCol 0 /\
  map fst (xrun true true true (Some TRACE) (conf_of_list [all_pass]) xinit cb_history) =
    [ XO (ONew 0); XO OUnit; XOEmitCb (Some (DCol 0)) (Some 0) None true; XO (OEmit (Some (DCol 0)) (Some 0)) ].
Proof. repeat split; vm_compute; reflexivity. Qed.

(** Re-entrant emission, concretely: from inside a callback under the slow path the nested emission reaches nobody and
    the flag is back afterwards; under the fast path (no scope anywhere) it reaches the global default again. *)
Definition f1_cs2 : callsite := mk_cs 60 3 0 1.
Example reentrant_slow_and_fast :
  map fst (xrun true true true (Some TRACE) (conf_of_list [all_pass]) xinit
             [ XBase New; XBase (Open 0 (DCol 0)); XEmitCb 0 f1_cs (CbEmit f1_cs2 false); XBase (Emit 0 f1_cs2) ]) =
    [ XO (ONew 0); XO OUnit; XOEmitCb (Some (DCol 0)) (Some 0) (Some None) false; XO (OEmit (Some (DCol 0)) (Some 0)) ] /\
  map fst (xrun true true true (Some TRACE) (conf_of_list [all_pass]) xinit
             [ XBase New; XBase (SetGlobal 0 0); XEmitCb 0 f1_cs (CbEmit f1_cs2 true); XBase (Emit 0 f1_cs2) ]) =
    [ XO (ONew 0); XO (OSetGlobal true); XOEmitCb (Some (DCol 0)) (Some 0) (Some (Some 0)) true; XO (OEmit (Some (DCol 0)) (Some 0)) ].
Proof. split; vm_compute; reflexivity. Qed.
