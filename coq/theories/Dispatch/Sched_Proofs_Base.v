(** Dispatch/Sched_Proofs_Base.v — basic facts about the micro-step model: function updates, the thread table,
    the step-inversion tactic used by all invariant proofs, and the frame property of a step. *)
From Coq Require Import List Arith Bool Lia.
From TV Require Import Dispatch.Sched_Model.
Import ListNotations.

Lemma upd_same : forall A (f : nat -> A) k v, upd f k v k = v.
Proof. intros. unfold upd. rewrite Nat.eqb_refl. reflexivity. Qed.
Lemma upd_other : forall A (f : nat -> A) k v k', k' <> k -> upd f k v k' = f k'.
Proof. intros. unfold upd. destruct (Nat.eqb_spec k' k); congruence. Qed.

Lemma mem_In : forall x l, mem x l = true <-> In x l.
Proof.
  intros. unfold mem. rewrite existsb_exists. split.
  - intros [y [Hy E]]. apply Nat.eqb_eq in E. subst. auto.
  - intros. exists x. split; auto. apply Nat.eqb_refl.
Qed.
Lemma mem_false : forall x l, mem x l = false <-> ~ In x l.
Proof. intros. rewrite <- mem_In. destruct (mem x l); split; congruence. Qed.

Lemma oeqb_true : forall o x, oeqb o x = true <-> o = Some x.
Proof.
  intros [y|] x; simpl; split; intros; try discriminate.
  - apply Nat.eqb_eq in H. congruence.
  - inversion H. apply Nat.eqb_refl.
Qed.

Lemma any_thread_true : forall s P, any_thread s P = true <-> exists t, t < st_n s /\ P (st_thr s t) = true.
Proof.
  intros. unfold any_thread. rewrite existsb_exists. split.
  - intros [t [Hin Hp]]. apply in_seq in Hin. exists t. split; auto. lia.
  - intros [t [Hlt Hp]]. exists t. split; auto. apply in_seq. lia.
Qed.
Lemma any_thread_false : forall s P, any_thread s P = false <-> forall t, t < st_n s -> P (st_thr s t) = false.
Proof.
  intros. split.
  - intros H t Hlt. destruct (P (st_thr s t)) eqn:E; auto.
    assert (any_thread s P = true) by (apply any_thread_true; eauto). congruence.
  - intros H. destruct (any_thread s P) eqn:E; auto.
    apply any_thread_true in E. destruct E as [t [Hlt Hp]]. rewrite H in Hp; auto.
Qed.

Lemma ltb_lt' : forall a b, (a <? b) = true -> a < b.
Proof. intros. apply Nat.ltb_lt. auto. Qed.

Definition pcof (s : state) (t : tid) : pc := th_pc (st_thr s t).

(** normal form of the successor state: setters and [upd] only *)
Ltac norm :=
  unfold emit_end, judge, judge_with, goto, upd_thr, emit_log in *;
  cbn [st_n st_thr st_readers st_writer st_disps st_list st_cache st_reg st_max st_ginit st_gdisp st_created st_handle
       st_cell st_cellw st_olds st_cleaning st_epoch st_log
       set_thr set_readers set_writer set_disps set_list set_cache set_reg set_max set_ginit set_gdisp set_created
       set_handle set_cell set_cellw set_olds set_cleaning set_epoch set_log
       th_pc th_prog th_scopes th_eg set_pc set_prog set_scopes set_eg set_vals
       eg_cur0 eg_ep0 eg_q0 eg_vals] in *.

(** ... and the moving thread's own entry looked up *)
Ltac self := repeat (progress (rewrite ?upd_same in *; norm)).

(** The step-inversion tactic: one goal per leaf branch of [step] (including the branches of [start_op],
    [after_load] and [chk]); the hypotheses record the program point ([Hpc]), that the thread exists ([Hlt]) and
    every test that selected the branch. *)
Definition SI (P : Prop) : Prop := P.
Ltac step_inv H :=
  unfold step in H;
  match type of H with context[negb (?t <? ?n)] => destruct (t <? n) eqn:Hlt; cbn [negb] in H; [|discriminate H] end;
  match type of H with context[th_pc ?th] => destruct (th_pc th) eqn:Hpc end;
  unfold start_op, after_load, chk in H;
  repeat match type of H with
         | context[match ?x with _ => _ end] =>
             let E := fresh "Heq" in destruct x eqn:E; match type of E with ?T => change (SI T) in E end
         end;
  try discriminate H; inversion H; subst; clear H;
  self;
  (* the successor state re-introduces the scrutinees: put them in the destructed form everywhere *)
  repeat match goal with E : SI ?T |- _ => change T in E; try rewrite E in * end.

(** case split on whether thread [t'] is the one that moved *)
Ltac thr t' t :=
  destruct (Nat.eq_dec t' t) as [->|];
  [ repeat rewrite upd_same in * | repeat (rewrite upd_other in * by assumption) ].

(** every step leaves the thread count and the other threads alone *)
Lemma step_frame : forall W s t s', step W s t = Some s' ->
  t < st_n s /\ st_n s' = st_n s /\ (forall t', t' <> t -> st_thr s' t' = st_thr s t').
Proof.
  intros W s t s' H. step_inv H; apply ltb_lt' in Hlt.
  all: norm; split; [assumption|split; [reflexivity|]]; intros t' Hne; repeat rewrite upd_other by assumption; reflexivity.
Qed.

Lemma step_pc_other : forall W s t s' t', step W s t = Some s' -> t' <> t -> pcof s' t' = pcof s t'.
Proof. intros. unfold pcof. destruct (step_frame _ _ _ _ H) as [_ [_ E]]. rewrite E; auto. Qed.

(** the log only grows *)
Lemma step_log : forall W s t s', step W s t = Some s' -> exists l, st_log s' = l ++ st_log s.
Proof.
  intros W s t s' H. step_inv H; norm.
  all: first [ exists []; reflexivity | eexists [_]; reflexivity | eexists [_; _]; reflexivity ].
Qed.
Lemma step_log_mono : forall W s t s' e, step W s t = Some s' -> In e (st_log s) -> In e (st_log s').
Proof.
  intros. destruct (step_log _ _ _ _ H) as [l ->]. apply in_or_app. auto.
Qed.

Lemma upd_eq : forall A (f : nat -> A) k v x, upd f k v x = (if x =? k then v else f x).
Proof. reflexivity. Qed.

(** case split on every [upd f k v x] in sight *)
Ltac upd_cases :=
  repeat first
    [ progress (rewrite ?upd_same in * )
    | match goal with
      | Hn : ?x <> ?k |- _ => progress (rewrite ?(upd_other _ _ k _ x Hn) in * )
      | H : context[upd _ ?k _ ?x] |- _ => destruct (Nat.eq_dec x k); [subst|]
      | |- context[upd _ ?k _ ?x] => destruct (Nat.eq_dec x k); [subst|]
      end ].

Lemma in_tl : forall (A : Type) (x : A) l, In x (tl l) -> In x l.
Proof. intros A x [|y l]; simpl; auto. Qed.

Lemma in_remove' : forall (l : list nat) x y, In x (remove Nat.eq_dec y l) <-> In x l /\ x <> y.
Proof.
  intros. split.
  - intros H. apply in_remove in H. auto.
  - intros [H1 H2]. apply in_in_remove; auto.
Qed.
