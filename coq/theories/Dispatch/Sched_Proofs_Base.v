(** Dispatch/Sched_Proofs_Base.v — basic facts about the micro-step model: function updates, the thread table,
    liveness, and the step-inversion tactic used by all invariant proofs. *)
From Coq Require Import List Arith Bool Lia.
From TV Require Import Dispatch.Sched_Model.
Import ListNotations.

Lemma upd_same : forall A (f : nat -> A) k v, upd f k v k = v.
Proof. intros. unfold upd. rewrite Nat.eqb_refl. reflexivity. Qed.
Lemma upd_other : forall A (f : nat -> A) k v k', k' <> k -> upd f k v k' = f k'.
Proof. intros. unfold upd. destruct (Nat.eqb_spec k' k); congruence. Qed.

Lemma mem_In : forall x l, mem x l = true <-> In x l.
Proof.
  intros. unfold mem. rewrite existsb_exists. split.
  - intros [y [Hy E]]. apply Nat.eqb_eq in E. subst. auto.
  - intros. exists x. split; auto. apply Nat.eqb_refl.
Qed.
Lemma mem_false : forall x l, mem x l = false <-> ~ In x l.
Proof. intros. rewrite <- mem_In. destruct (mem x l); split; congruence. Qed.

Lemma oeqb_true : forall o x, oeqb o x = true <-> o = Some x.
Proof.
  intros [y|] x; simpl; split; intros; try discriminate.
  - apply Nat.eqb_eq in H. congruence.
  - inversion H. apply Nat.eqb_refl.
Qed.

Lemma any_thread_true : forall s P, any_thread s P = true <-> exists t, t < st_n s /\ P (st_thr s t) = true.
Proof.
  intros. unfold any_thread. rewrite existsb_exists. split.
  - intros [t [Hin Hp]]. apply in_seq in Hin. exists t. split; auto. lia.
  - intros [t [Hlt Hp]]. exists t. split; auto. apply in_seq. lia.
Qed.
Lemma any_thread_false : forall s P, any_thread s P = false <-> forall t, t < st_n s -> P (st_thr s t) = false.
Proof.
  intros. split.
  - intros H t Hlt. destruct (P (st_thr s t)) eqn:E; auto.
    assert (any_thread s P = true) by (apply any_thread_true; eauto). congruence.
  - intros H. destruct (any_thread s P) eqn:E; auto.
    apply any_thread_true in E. destruct E as [t [Hlt Hp]]. rewrite H in Hp; auto.
Qed.

(** The step-inversion tactic: one goal per leaf branch of [step] (including the branches of [start_op] and
    [after_load]); the hypotheses record the program point and every test that selected the branch. *)
Ltac step_inv H :=
  unfold step in H;
  match type of H with context[negb (?t <? ?n)] => destruct (t <? n) eqn:Hlt; cbn [negb] in H; [|discriminate H] end;
  match type of H with context[th_pc ?th] => destruct (th_pc th) eqn:Hpc end;
  unfold start_op, after_load in H;
  repeat match type of H with
         | context[match ?x with _ => _ end] => destruct x eqn:?
         end;
  try discriminate H; inversion H; subst; clear H.

Definition pcof (s : state) (t : tid) : pc := th_pc (st_thr s t).

(** normal form of the successor state: setters and [upd] only *)
Ltac norm :=
  unfold emit_end, judge, judge_with, goto, upd_thr, emit_log, pcof in *;
  cbn [st_n st_thr st_readers st_writer st_disps st_list st_cache st_reg st_max st_ginit st_gdisp st_created st_handle
       st_cell st_cellw st_olds st_cleaning st_epoch st_log
       set_thr set_readers set_writer set_disps set_list set_cache set_reg set_max set_ginit set_gdisp set_created
       set_handle set_cell set_cellw set_olds set_cleaning set_epoch set_log
       th_pc th_prog th_scopes th_eg set_pc set_prog set_scopes set_eg set_vals
       eg_cur0 eg_ep0 eg_q0 eg_vals] in *.

(** ... and the moving thread's own entry looked up *)
Ltac self := repeat (progress (rewrite ?upd_same in *; norm)).

Lemma chk_eq : forall t cs s, chk t cs s = s \/ chk t cs s = emit_log (EvCorrupt t cs) s.
Proof. intros. unfold chk. destruct (mem cs (st_list s)); auto. Qed.

(** case split on whether thread [t'] is the one that moved *)
Ltac thr t' t :=
  destruct (Nat.eq_dec t' t) as [->|];
  [ repeat rewrite upd_same in * | repeat (rewrite upd_other in * by assumption) ].

Lemma ltb_lt' : forall a b, (a <? b) = true -> a < b.
Proof. intros. apply Nat.ltb_lt. auto. Qed.
