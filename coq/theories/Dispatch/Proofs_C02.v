(** Dispatch/Proofs_C02.v — C02: an emission goes to the thread's scoped default, else to the global default.

    Refinement of the op-level model of dispatch.rs (thread-local `Option<Dispatch>`, DefaultGuard priors,
    SCOPED_COUNT fast path, write-once global) to the abstract specification of Model.v (one scope stack per
    thread + a write-once cell), for BOTH variants of dispatch.rs:
      - [fx = true]  (/repo as it is, after fix aa353f7): unconditional             -> [spec_refinement_fixed]
      - [fx = false] (before the fix): for every history outside [F1_class]         -> [spec_refinement_unfixed]
        and the class is exactly where it fails (witness = F1's replay)             -> [F1_refuted], [F1_class_is_exact]
    plus: frame (thread isolation), unwinding restores, and set_global_default's three micro-steps under every
    interleaving of any number of concurrent attempts. *)
From Coq Require Import NArith List Bool Lia Arith.
From TV Require Import Dispatch.Model Dispatch.Proofs_C01.
Import ListNotations.
Local Open Scope N_scope.
Local Arguments N.add : simpl never.
Local Arguments N.sub : simpl never.
Local Arguments N.leb : simpl never.
Local Arguments N.ltb : simpl never.
Local Arguments N.eqb : simpl never.

(** * The abstract scope list *)
Lemma a_stack_cons_same a t d n h g :
  a_stack {| a_next := n; a_handle := h; a_scopes := (t, d) :: a_scopes a; a_global := g |} t = d :: a_stack a t.
Proof. unfold a_stack. simpl. rewrite N.eqb_refl. reflexivity. Qed.
Lemma a_stack_cons_other a t t' d n h g :
  t' <> t ->
  a_stack {| a_next := n; a_handle := h; a_scopes := (t, d) :: a_scopes a; a_global := g |} t' = a_stack a t'.
Proof.
  intro H. unfold a_stack. simpl. destruct (t =? t') eqn:E; [|reflexivity].
  apply N.eqb_eq in E. congruence.
Qed.
Lemma filter_remove_first_same t l :
  map snd (filter (fun e : N * disp => fst e =? t) (remove_first t l)) =
  List.tl (map snd (filter (fun e : N * disp => fst e =? t) l)).
Proof.
  induction l as [|e l IH]; simpl; [reflexivity|].
  destruct (fst e =? t) eqn:E; simpl.
  - reflexivity.
  - rewrite E. exact IH.
Qed.
Lemma filter_remove_first_other t t' l :
  t' <> t ->
  filter (fun e : N * disp => fst e =? t') (remove_first t l) = filter (fun e : N * disp => fst e =? t') l.
Proof.
  intro H. induction l as [|e l IH]; simpl; [reflexivity|].
  destruct (fst e =? t) eqn:E; simpl.
  - apply N.eqb_eq in E. destruct (fst e =? t') eqn:E'; [|reflexivity].
    apply N.eqb_eq in E'. congruence.
  - rewrite IH. reflexivity.
Qed.
Lemma length_remove_first t l :
  filter (fun e : N * disp => fst e =? t) l <> [] -> S (length (remove_first t l)) = length l.
Proof.
  induction l as [|e l IH]; simpl; intro H; [congruence|].
  destruct (fst e =? t) eqn:E; simpl; [reflexivity|].
  rewrite IH; [reflexivity | exact H].
Qed.
Lemma a_stack_nil_scopes a t : a_scopes a = [] -> a_stack a t = [].
Proof. unfold a_stack. intros ->. reflexivity. Qed.

(** * The refinement relation *)
(** [chain tlv gs stk]: the thread-local holds the innermost installed dispatcher and every guard's prior is
    the thread-local value its scope replaced. *)
Fixpoint chain (tlv : option disp) (gs : list (option disp)) (stk : list disp) : Prop :=
  match stk, gs with
  | [], [] => True
  | d :: stk', p :: gs' => tlv = Some d /\ chain p gs' stk'
  | _, _ => False
  end.
(** [base]: what the thread-local held (will hold) with no scope open. *)
Fixpoint base (tlv : option disp) (gs : list (option disp)) : option disp :=
  match gs with [] => tlv | p :: gs' => base p gs' end.

Lemma chain_nil_stack tlv gs : chain tlv gs [] -> gs = [].
Proof. destruct gs; simpl; [reflexivity | intros []]. Qed.
Lemma chain_none tlv gs stk : chain tlv gs stk -> tlv = None -> stk = [] /\ gs = [].
Proof.
  destruct stk as [|d stk]; destruct gs as [|p gs]; simpl; intros H Hn; try (destruct H; fail); auto.
  destruct H as [H _]. congruence.
Qed.
Lemma base_some_guards tlv gs :
  Forall (fun p : option disp => p <> None) gs -> tlv <> None -> base tlv gs <> None.
Proof.
  revert tlv. induction gs as [|p gs IH]; simpl; intros tlv HF Ht; [exact Ht|].
  inversion HF; subst. apply IH; assumption.
Qed.

Definition gset (a : astate) : bool := match a_global a with Some _ => true | None => false end.
Definition establish (a : astate) (e : N -> option bool) (t : N) : N -> option bool :=
  match e t with None => upd e t (Some (negb (gset a))) | Some _ => e end.
Definition hit_of (a : astate) (e : N -> option bool) (t : N) : bool :=
  match a_stack a t, e t with [], Some true => gset a | _, _ => false end.

Lemma establish_idem a e t : establish a (establish a e t) t = establish a e t.
Proof.
  unfold establish. destruct (e t) eqn:E.
  - rewrite E. reflexivity.
  - unfold upd at 1. rewrite N.eqb_refl. reflexivity.
Qed.
Lemma establish_other a e t t' : t' <> t -> establish a e t t' = e t'.
Proof.
  intro H. unfold establish. destruct (e t); [reflexivity|].
  unfold upd. destruct (t' =? t) eqn:E; [apply N.eqb_eq in E; congruence | reflexivity].
Qed.

Lemma establish_some a e t b : e t = Some b -> establish a e t = e.
Proof. unfold establish. intros ->. reflexivity. Qed.
Lemma establish_none a e t : e t = None -> establish a e t t = Some (negb (gset a)).
Proof. unfold establish. intros ->. unfold upd. rewrite N.eqb_refl. reflexivity. Qed.

Definition base_ok (g : option N) (e : option bool) (b : option disp) : Prop :=
  match e with
  | None => b = None
  | Some true => b = Some DNone
  | Some false => exists c, g = Some c /\ b = Some (DCol c)
  end.

Definition thr_eq (s s' : state) : Prop :=
  next s' = next s /\ handle s' = handle s /\ global s' = global s /\ scoped s' = scoped s /\ tls s' = tls s.
Lemma thr_eq_refl s : thr_eq s s.
Proof. repeat split. Qed.
Lemma thr_eq_trans a b c : thr_eq a b -> thr_eq b c -> thr_eq a c.
Proof. unfold thr_eq. intros (A1 & A2 & A3 & A4 & A5) (B1 & B2 & B3 & B4 & B5). repeat split; congruence. Qed.

Definition thread_ok_ (fx : bool) (g : option N) (e : option bool) (st : tstate) (stk : list disp) : Prop :=
  chain (tl st) (guards st) stk /\
  (if fx then base (tl st) (guards st) = None
   else base_ok g e (base (tl st) (guards st)) /\ Forall (fun p : option disp => p <> None) (guards st)).

Record R_ (fx : bool) (s : state) (a : astate) (e : N -> option bool) : Prop := {
  r_next : next s = a_next a;
  r_handle : forall c, handle s c = a_handle a c;
  r_global : global s = a_global a;
  r_scoped : scoped s = length (a_scopes a);
  r_thread : forall t, thread_ok_ fx (global s) (e t) (tls s t) (a_stack a t) }.

Section Refinement.
  Variable fx : bool.
  Variable static_max : levelfilter.
  Variable conf : N -> collector.
  Notation thread_ok := (thread_ok_ fx).
  Notation R := (R_ fx).

  Lemma R_init e : (forall t, e t = None) -> R init ainit e.
  Proof.
    intro He. split; simpl; auto. intro t. unfold thread_ok_. simpl. split; [exact Logic.I|].
    destruct fx; [reflexivity|]. rewrite He. simpl. auto.
  Qed.

  Lemma R_thr_eq s s' a e : thr_eq s s' -> R s a e -> R s' a e.
  Proof.
    intros (H1 & H2 & H3 & H4 & H5) [r1 r2 r3 r4 r5]. split.
    - congruence.
    - intro c. rewrite H2. apply r2.
    - congruence.
    - congruence.
    - intro t. rewrite H3, H5. apply r5.
  Qed.

  Lemma get_global_spec s a e : R s a e -> get_global s = match a_global a with Some g => DCol g | None => DNone end.
  Proof. intros [_ _ r3 _ _]. unfold get_global. rewrite r3. reflexivity. Qed.

  (** ** Consulting the default *)
  Lemma slow_sim s a e t s' d :
    R s a e -> slow fx s t = (s', d) ->
    (fx = false -> hit_of a (establish a e t) t = false) ->
    d = a_default a t /\ R s' a (if fx then e else establish a e t).
  Proof.
    intros HR Hs Hhit. pose proof HR as [r1 r2 r3 r4 r5].
    pose proof (r5 t) as [Hch Hb].
    unfold slow in Hs. unfold a_default.
    destruct (tl (tls s t)) as [d0|] eqn:Etl.
    - (* the thread-local is set *)
      injection Hs as <- <-.
      destruct (a_stack a t) as [|d1 stk] eqn:Est.
      + (* no scope of its own: the thread-local is the thread's base *)
        apply chain_nil_stack in Hch. rewrite Hch in Hb. simpl in Hb.
        destruct fx; [discriminate Hb|]. destruct Hb as [Hb _].
        specialize (Hhit eq_refl).
        destruct (e t) as [[|]|] eqn:Ee; simpl in Hb.
        * rewrite (establish_some a e t true Ee) in *. unfold hit_of in Hhit. rewrite Est, Ee in Hhit.
          injection Hb as ->. unfold gset in Hhit.
          destruct (a_global a); [discriminate Hhit|]. split; [reflexivity | exact HR].
        * rewrite (establish_some a e t false Ee) in *.
          destruct Hb as [c [Hg Hc]]. injection Hc as ->. rewrite <- r3, Hg. split; [reflexivity | exact HR].
        * discriminate Hb.
      + (* innermost scope *)
        destruct (guards (tls s t)) as [|p gs] eqn:Eg; simpl in Hch; [destruct Hch|].
        destruct Hch as [Hd _]. injection Hd as ->. split; [reflexivity|].
        destruct fx; [exact HR|].
        destruct Hb as [Hb HF].
        destruct (e t) as [b|] eqn:Ee; [rewrite (establish_some a e t b Ee); exact HR|]. exfalso.
        unfold base_ok in Hb. refine (base_some_guards _ _ HF _ Hb). discriminate.
    - (* the thread-local was never set: fall back to the global default (and, unfixed, cache it) *)
      destruct (chain_none _ _ _ Hch eq_refl) as [Est Eg].
      rewrite Est. injection Hs as <- <-.
      split; [apply (get_global_spec s a e HR)|].
      destruct fx; [exact HR|].
      destruct Hb as [Hb HF]. rewrite Eg in Hb. simpl in Hb.
      assert (Ee : e t = None).
      { destruct (e t) as [[|]|]; simpl in Hb; [discriminate Hb | destruct Hb as [c [_ Hc]]; discriminate Hc | reflexivity]. }
      split; simpl; auto.
      intro t'. unfold upd. destruct (t' =? t) eqn:E.
      + apply N.eqb_eq in E. subst t'. rewrite Est. unfold thread_ok_. simpl. rewrite Eg. simpl.
        split; [exact Logic.I|]. split; [|constructor].
        unfold establish. rewrite Ee. unfold upd. rewrite N.eqb_refl.
        unfold gset, get_global. rewrite <- r3. destruct (global s) as [g|]; simpl; [exists g; auto | reflexivity].
      + assert (t' <> t) by (intro; subst; rewrite N.eqb_refl in E; discriminate E).
        rewrite establish_other by assumption. apply r5.
  Qed.

  Lemma get_default_sim s a e t s' d :
    R s a e -> get_default fx s t = (s', d) ->
    (fx = false -> a_scopes a <> [] -> hit_of a (establish a e t) t = false) ->
    d = a_default a t /\
    R s' a (if fx then e else match a_scopes a with [] => e | _ :: _ => establish a e t end).
  Proof.
    intros HR Hs Hhit. unfold get_default in Hs. pose proof HR as [r1 r2 r3 r4 r5].
    destruct (Nat.eqb (scoped s) 0) eqn:E0.
    - apply Nat.eqb_eq in E0. rewrite r4 in E0. apply length_zero_iff_nil in E0.
      injection Hs as <- <-. unfold a_default. rewrite (a_stack_nil_scopes a t E0), E0.
      split; [apply (get_global_spec s a e HR)|]. destruct fx; exact HR.
    - apply Nat.eqb_neq in E0. rewrite r4 in E0.
      destruct (a_scopes a) as [|x l] eqn:Es; [simpl in E0; congruence|].
      apply (slow_sim s a e t s' d HR Hs). intro Hf. apply Hhit; [exact Hf | discriminate].
  Qed.

  (** ** The macro guard only ever touches the thread side through get_default *)
  Lemma interest_of_thr_eq s cs s1 i : interest_of conf s cs = (s1, i) -> thr_eq s s1.
  Proof.
    unfold interest_of. destruct (cache s cs); intro H; injection H as <- _; repeat split.
  Qed.
  Lemma guard_shape s t cs s1 con ok :
    guard fx static_max conf s t cs = (s1, con, ok) ->
    (con = None /\ thr_eq s s1) \/
    (exists s0 d, thr_eq s s0 /\ get_default fx s0 t = (s1, d) /\ con = Some d).
  Proof.
    unfold guard. destruct (level_enabled static_max s cs).
    2:{ intro H; injection H as <- <- _. left. split; [reflexivity | apply thr_eq_refl]. }
    destruct (interest_of conf s cs) as [s0 i] eqn:Ei. apply interest_of_thr_eq in Ei.
    destruct i.
    - intro H; injection H as <- <- _. left. auto.
    - destruct (get_default fx s0 t) as [s2 d] eqn:Eg. intro H; injection H as <- <- _.
      right. exists s0, d. auto.
    - intro H; injection H as <- <- _. left. auto.
  Qed.

  (** An emission / probe / get_default op as seen from the thread side: zero, one or two get_default calls. *)
  Lemma consult_twice s a e t s1 d1 s2 d2 :
    R s a e -> get_default fx s t = (s1, d1) -> get_default fx s1 t = (s2, d2) ->
    (fx = false -> a_scopes a <> [] -> hit_of a (establish a e t) t = false) ->
    d1 = a_default a t /\ d2 = a_default a t /\
    R s2 a (if fx then e else match a_scopes a with [] => e | _ :: _ => establish a e t end).
  Proof.
    intros HR H1 H2 Hhit.
    destruct (get_default_sim s a e t s1 d1 HR H1 Hhit) as [Hd1 HR1].
    set (e1 := if fx then e else match a_scopes a with [] => e | _ :: _ => establish a e t end) in *.
    assert (Hhit1 : fx = false -> a_scopes a <> [] -> hit_of a (establish a e1 t) t = false).
    { intros Hf Hn. unfold e1. rewrite Hf. destruct (a_scopes a) as [|x l] eqn:Es; [congruence|].
      rewrite establish_idem. apply Hhit; [exact Hf | discriminate]. }
    destruct (get_default_sim s1 a e1 t s2 d2 HR1 H2 Hhit1) as [Hd2 HR2].
    split; [exact Hd1|]. split; [exact Hd2|].
    unfold e1 in HR2. destruct fx; [exact HR2|].
    destruct (a_scopes a); [exact HR2|]. rewrite establish_idem in HR2. exact HR2.
  Qed.

  Definition mon_consult (a : astate) (e : N -> option bool) (t : N) (ob : obs) : (N -> option bool) * bool :=
    match consulted ob, a_scopes a with
    | Some _, _ :: _ => (establish a e t, hit_of a (establish a e t) t)
    | _, _ => (e, false)
    end.

  Lemma emit_like_sim s a e t cs (mk : state -> option disp -> bool -> disp -> obs) s' ob :
    (forall s2 con ok d, consulted (mk s2 con ok d) = if ok then Some d else con) ->
    R s a e ->
    (let '(s1, con, ok) := guard fx static_max conf s t cs in
     if ok then let '(s2, d) := get_default fx s1 t in (s2, mk s2 con true d)
     else (s1, mk s1 con false DNone)) = (s', ob) ->
    (fx = false -> snd (mon_consult a e t ob) = false) ->
    (forall d', consulted ob = Some d' -> d' = a_default a t) /\
    R s' a (if fx then e else fst (mon_consult a e t ob)).
  Proof.
    intros Hmk HR Hstep Hhit.
    destruct (guard fx static_max conf s t cs) as [[s1 con] ok] eqn:Eg.
    apply guard_shape in Eg.
    assert (Hh : consulted ob <> None -> fx = false -> a_scopes a <> [] -> hit_of a (establish a e t) t = false).
    { intros Hc Hf Hn. specialize (Hhit Hf). unfold mon_consult in Hhit.
      destruct (consulted ob); [|congruence]. destruct (a_scopes a); [congruence | exact Hhit]. }
    assert (Hmon : forall d0, consulted ob = Some d0 ->
                   fst (mon_consult a e t ob) = match a_scopes a with [] => e | _ :: _ => establish a e t end).
    { intros d0 Hc. unfold mon_consult. rewrite Hc. destruct (a_scopes a); reflexivity. }
    destruct ok.
    - destruct (get_default fx s1 t) as [s2 d] eqn:Ed. injection Hstep as <- <-.
      assert (Hc : consulted (mk s2 con true d) = Some d) by (rewrite Hmk; reflexivity).
      specialize (Hh ltac:(rewrite Hc; discriminate)).
      destruct Eg as [[-> Ht]|[s0 [d0 (Ht & Hg & ->)]]].
      + apply (R_thr_eq _ _ _ _ Ht) in HR.
        destruct (get_default_sim s1 a e t s2 d HR Ed Hh) as [Hd HR2].
        split; [intros d' Hd'; rewrite Hc in Hd'; congruence|].
        destruct fx; [exact HR2|]. rewrite (Hmon d Hc). exact HR2.
      + apply (R_thr_eq _ _ _ _ Ht) in HR.
        destruct (consult_twice s0 a e t s1 d0 s2 d HR Hg Ed Hh) as (_ & Hd & HR2).
        split; [intros d' Hd'; rewrite Hc in Hd'; congruence|].
        destruct fx; [exact HR2|]. rewrite (Hmon d Hc). exact HR2.
    - injection Hstep as <- <-.
      assert (Hc : consulted (mk s1 con false DNone) = con) by (rewrite Hmk; reflexivity).
      destruct Eg as [[-> Ht]|[s0 [d0 (Ht & Hg & ->)]]].
      + split; [intros d' Hd'; rewrite Hc in Hd'; discriminate|].
        apply (R_thr_eq _ _ _ _ Ht) in HR. destruct fx; [exact HR|].
        unfold mon_consult. rewrite Hc. exact HR.
      + apply (R_thr_eq _ _ _ _ Ht) in HR.
        specialize (Hh ltac:(rewrite Hc; discriminate)).
        destruct (get_default_sim s0 a e t s1 d0 HR Hg Hh) as [Hd HR2].
        split; [intros d' Hd'; rewrite Hc in Hd'; congruence|].
        destruct fx; [exact HR2|]. rewrite (Hmon d0 Hc). exact HR2.
  Qed.

  (** ** set_default / DefaultGuard::drop *)
  Lemma open_sim s a e t d :
    R s a e -> valid_disp s d = true ->
    let s' := set_scoped (set_thread s t {| tl := Some d;
                guards := (if fx then tl (tls s t) else Some match tl (tls s t) with Some p => p | None => get_global s end)
                          :: guards (tls s t) |}) (S (scoped s)) in
    let a' := {| a_next := a_next a; a_handle := a_handle a; a_scopes := (t, d) :: a_scopes a; a_global := a_global a |} in
    R s' a' (if fx then e else establish a e t).
  Proof.
    intros HR Hv s' a'. pose proof HR as [r1 r2 r3 r4 r5].
    split; simpl; auto.
    intro t'. unfold upd. destruct (t' =? t) eqn:E.
    - apply N.eqb_eq in E. subst t'. unfold a'. rewrite a_stack_cons_same.
      pose proof (r5 t) as [Hch Hb]. unfold thread_ok_. simpl.
      destruct (tl (tls s t)) as [p|] eqn:Etl.
      + (* nested inside an established thread-local: the prior is that value *)
        split.
        * split; [reflexivity|]. destruct fx; exact Hch.
        * destruct fx; [exact Hb|]. destruct Hb as [Hb HF].
          assert (Ee : e t <> None).
          { intro Ee. rewrite Ee in Hb. simpl in Hb.
            apply (base_some_guards (Some p) (guards (tls s t))); [exact HF | discriminate | exact Hb]. }
          destruct (e t) as [b|] eqn:Ee'; [|congruence].
          rewrite (establish_some a e t b Ee'), Ee'.
          split; [exact Hb | constructor; [discriminate | exact HF]].
      + (* first use of this thread-local *)
        destruct (chain_none _ _ _ Hch eq_refl) as [Est Eg]. rewrite Est, Eg in *.
        split.
        * split; [reflexivity|]. destruct fx; exact Logic.I.
        * destruct fx; [exact Hb|]. destruct Hb as [Hb _]. simpl in Hb.
          assert (Ee : e t = None).
          { destruct (e t) as [[|]|]; simpl in Hb; [discriminate Hb | destruct Hb as [c [_ Hc]]; discriminate Hc | reflexivity]. }
          split; [|constructor; [discriminate | constructor]].
          unfold establish. rewrite Ee. unfold upd. rewrite N.eqb_refl.
          unfold gset, get_global. rewrite <- r3. destruct (global s) as [g|]; simpl; [exists g; auto | reflexivity].
    - assert (Hne : t' <> t) by (intro; subst; rewrite N.eqb_refl in E; discriminate E).
      unfold a'. rewrite a_stack_cons_other by assumption.
      destruct fx; [apply r5|]. rewrite establish_other by assumption. apply r5.
  Qed.

  Lemma close_sim s a e t :
    R s a e ->
    match a_stack a t with
    | [] => remove_nth 0 (guards (tls s t)) = None
    | _ :: _ =>
        exists prior gs, remove_nth 0 (guards (tls s t)) = Some (prior, gs) /\
        let tl' := if fx then prior else match prior with Some p => Some p | None => tl (tls s t) end in
        R (set_scoped (set_thread s t {| tl := tl'; guards := gs |}) (pred (scoped s)))
          {| a_next := a_next a; a_handle := a_handle a; a_scopes := remove_first t (a_scopes a); a_global := a_global a |} e
    end.
  Proof.
    intros HR. pose proof HR as [r1 r2 r3 r4 r5]. pose proof (r5 t) as [Hch Hb].
    destruct (a_stack a t) as [|d stk] eqn:Est.
    - apply chain_nil_stack in Hch. rewrite Hch. reflexivity.
    - destruct (guards (tls s t)) as [|p gs] eqn:Eg; simpl in Hch; [destruct Hch|].
      destruct Hch as [Htl Hch]. exists p, gs. split; [reflexivity|].
      assert (Hp : (if fx then p else match p with Some q => Some q | None => tl (tls s t) end) = p).
      { destruct fx; [reflexivity|]. destruct p; [reflexivity|].
        destruct Hb as [_ HF]. inversion HF; subst. congruence. }
      simpl. rewrite Hp.
      assert (Hne : filter (fun x : N * disp => fst x =? t) (a_scopes a) <> []).
      { unfold a_stack in Est. intro H0. rewrite H0 in Est. discriminate Est. }
      split; simpl; auto.
      + rewrite r4. rewrite <- (length_remove_first t (a_scopes a) Hne). reflexivity.
      + intro t'. unfold upd. destruct (t' =? t) eqn:E.
        * apply N.eqb_eq in E. subst t'. unfold a_stack at 1. simpl.
          rewrite filter_remove_first_same. fold (a_stack a t). rewrite Est. simpl.
          unfold thread_ok_. simpl. split; [exact Hch|].
          simpl in Hb. destruct fx; [exact Hb|]. destruct Hb as [Hb HF]. inversion HF; subst. auto.
        * assert (Hne' : t' <> t) by (intro; subst; rewrite N.eqb_refl in E; discriminate E).
          unfold a_stack at 1. simpl. rewrite filter_remove_first_other by assumption. apply r5.
  Qed.

  Lemma set_global_sim s a e c :
    R s a e -> global s = None ->
    R (set_global s (Some c)) {| a_next := a_next a; a_handle := a_handle a; a_scopes := a_scopes a; a_global := Some c |} e.
  Proof.
    intros HR Hg. pose proof HR as [r1 r2 r3 r4 r5]. split; simpl; auto.
    intro t. pose proof (r5 t) as [Hch Hb]. unfold thread_ok_. split; [exact Hch|].
    destruct fx; [exact Hb|]. destruct Hb as [Hb HF]. split; [|exact HF].
    rewrite Hg in Hb. destruct (e t) as [[|]|]; simpl in *; auto.
    destruct Hb as [c0 [Hc0 _]]. discriminate Hc0.
  Qed.

  (** ** One step *)
  Definition nested_op (o : op) : Prop := match o with Close _ k => k = 0%nat | _ => True end.

  Lemma f1_step_consult a e t ob o :
    (o = GetDefault t \/ (exists cs, o = Emit t cs) \/ (exists cs, o = Probe t cs)) ->
    f1_step a e o ob = mon_consult a e t ob.
  Proof.
    intros [->|[[cs ->]|[cs ->]]]; unfold f1_step, mon_consult; fold (gset a);
      destruct (consulted ob); try reflexivity; destruct (a_scopes a); reflexivity.
  Qed.

  Lemma step_sim s a e o s' ob a' ao :
    R s a e -> step fx static_max conf s o = (s', ob) -> astep a o = (a', ao) -> nested_op o ->
    (fx = false -> snd (f1_step a e o ob) = false) ->
    agrees ob ao /\ R s' a' (if fx then e else fst (f1_step a e o ob)).
  Proof.
    intros HR Hs Ha Hn Hhit. pose proof HR as [r1 r2 r3 r4 r5].
    destruct o as [|c|t d|t k|t c|t cs|t cs|t|t| |c]; simpl in Hs, Ha.
    - (* New *)
      injection Hs as <- <-. injection Ha as <- <-. split; [exact Logic.I|].
      replace (if fx then e else fst (f1_step a e New (ONew (next s)))) with e by (destruct fx; reflexivity).
      match goal with |- R (rebuild conf ?s1) _ _ => pose proof (rebuild_fields conf s1) as (F1 & F2 & _ & F4 & _ & F6 & F7 & _) end.
      split; simpl in *.
      + rewrite F1, r1. reflexivity.
      + intro c. rewrite F2. unfold upd. rewrite r1, r2. reflexivity.
      + rewrite F7. exact r3.
      + rewrite F6. exact r4.
      + intro t. rewrite F7, F4. apply r5.
    - (* DropHandle *)
      rewrite <- r2 in Ha. destruct (handle s c); injection Hs as <- <-; injection Ha as <- <-.
      + split; [exact Logic.I|].
        replace (if fx then e else fst (f1_step a e (DropHandle c) OUnit)) with e by (destruct fx; reflexivity).
        split; simpl; auto. intro c0. unfold upd. rewrite r2. reflexivity.
      + split; [reflexivity|]. destruct fx; exact HR.
    - (* Open *)
      unfold do_open in Hs.
      assert (Hv : valid_disp s d = a_valid a d) by (destruct d; simpl; [reflexivity | apply r2]).
      rewrite <- Hv in Ha. destruct (valid_disp s d) eqn:Ev; injection Hs as <- <-; injection Ha as <- <-.
      + split; [exact Logic.I|].
        replace (fst (f1_step a e (Open t d) OUnit)) with (establish a e t).
        * apply (open_sim s a e t d HR Ev).
        * unfold f1_step. rewrite <- Hv. reflexivity.
      + split; [reflexivity|].
        replace (fst (f1_step a e (Open t d) OBad)) with e by (unfold f1_step; rewrite <- Hv; reflexivity).
        destruct fx; exact HR.
    - (* Close, LIFO *)
      simpl in Hn. subst k. unfold do_close in Hs.
      pose proof (close_sim s a e t HR) as Hc.
      replace (fst (f1_step a e (Close t 0%nat) ob)) with e by reflexivity.
      destruct (a_stack a t) as [|d stk] eqn:Est.
      + rewrite Hc in Hs. injection Hs as <- <-. injection Ha as <- <-. split; [reflexivity|]. destruct fx; exact HR.
      + destruct Hc as [prior [gs [Hr HR']]]. rewrite Hr in Hs. injection Hs as <- <-. injection Ha as <- <-.
        split; [exact Logic.I|]. destruct fx; exact HR'.
    - (* SetGlobal *)
      unfold do_set_global in Hs. rewrite <- r2, <- r3 in Ha.
      replace (fst (f1_step a e (SetGlobal t c) ob)) with e by reflexivity.
      destruct (handle s c).
      + destruct (global s) eqn:Eg; injection Hs as <- <-; injection Ha as <- <-.
        * split; [reflexivity|]. destruct fx; exact HR.
        * split; [reflexivity|]. pose proof (set_global_sim s a e c HR Eg). destruct fx; assumption.
      + injection Hs as <- <-; injection Ha as <- <-. split; [reflexivity|]. destruct fx; exact HR.
    - (* Emit *)
      injection Ha as <- <-. unfold do_emit in Hs.
      rewrite (f1_step_consult a e t ob (Emit t cs)) in * by (right; left; eauto).
      apply (emit_like_sim s a e t cs
               (fun _ con ok d => if ok then OEmit (Some d) (match d with DCol c => Some c | DNone => None end) else OEmit con None) s' ob).
      + intros s2 con ok d. destruct ok; reflexivity.
      + exact HR.
      + destruct (guard fx static_max conf s t cs) as [[s1 con] ok]. destruct ok; [|exact Hs].
        destruct (get_default fx s1 t). exact Hs.
      + exact Hhit.
    - (* Probe *)
      injection Ha as <- <-. unfold do_probe in Hs.
      rewrite (f1_step_consult a e t ob (Probe t cs)) in * by (right; right; eauto).
      apply (emit_like_sim s a e t cs
               (fun s2 con ok d => if ok then OProbe (Some d) (enabled_of conf s2 d cs) else OProbe con false) s' ob).
      + intros s2 con ok d. destruct ok; reflexivity.
      + exact HR.
      + destruct (guard fx static_max conf s t cs) as [[s1 con] ok]. destruct ok; [|exact Hs].
        destruct (get_default fx s1 t). exact Hs.
      + exact Hhit.
    - (* GetDefault *)
      injection Ha as <- <-. destruct (get_default fx s t) as [s2 d] eqn:Eg. injection Hs as <- <-.
      rewrite (f1_step_consult a e t (ODefault d) (GetDefault t)) in * by (left; reflexivity).
      unfold mon_consult in *. simpl in *.
      destruct (get_default_sim s a e t s2 d HR Eg) as [Hd HR2].
      { intros Hf Hne. specialize (Hhit Hf). destruct (a_scopes a); [congruence | exact Hhit]. }
      split; [intros d' Hd'; congruence|].
      destruct fx; [exact HR2|]. destruct (a_scopes a); exact HR2.
    - (* GetCurrent *)
      injection Ha as <- <-. destruct (slow fx s t) as [s2 d] eqn:Eg. injection Hs as <- <-.
      assert (Hf1 : f1_step a e (GetCurrent t) (ODefault d) = (establish a e t, hit_of a (establish a e t) t)) by reflexivity.
      rewrite Hf1 in *. simpl in *.
      destruct (slow_sim s a e t s2 d HR Eg Hhit) as [Hd HR2].
      split; [intros d' Hd'; congruence | exact HR2].
    - (* Rebuild *)
      injection Hs as <- <-. injection Ha as <- <-. split; [exact Logic.I|].
      replace (if fx then e else fst (f1_step a e Rebuild OUnit)) with e by (destruct fx; reflexivity).
      apply (R_thr_eq s); [|exact HR].
      pose proof (rebuild_fields conf s) as (F1 & F2 & _ & F4 & _ & F6 & F7 & _). repeat split; assumption.
    - (* Flip *)
      injection Ha as <- <-. destruct (c <? next s); injection Hs as <- <-; (split; [exact Logic.I|]).
      + replace (if fx then e else fst (f1_step a e (Flip c) OUnit)) with e by (destruct fx; reflexivity).
        apply (R_thr_eq s); [repeat split | exact HR].
      + destruct fx; exact HR.
  Qed.

  Lemma nested_cons o h : Nested (o :: h) -> nested_op o /\ Nested h.
  Proof.
    unfold Nested. intro H. split.
    - destruct o; simpl; auto. apply (H t k). left; reflexivity.
    - intros t k Hin. apply (H t k). right; exact Hin.
  Qed.

  Lemma run_sim h : forall s a e,
    R s a e -> Nested h ->
    (fx = false -> ~ In true (f1_hits a e h (map fst (run fx static_max conf s h)))) ->
    Forall2 agrees (map fst (run fx static_max conf s h)) (aspec a h).
  Proof.
    induction h as [|o h IH]; intros s a e HR Hn Hf; simpl.
    - constructor.
    - apply nested_cons in Hn. destruct Hn as [Hno Hn].
      destruct (step fx static_max conf s o) as [s' ob] eqn:Es.
      destruct (astep a o) as [a' ao] eqn:Ea. simpl.
      simpl in Hf. rewrite Es in Hf. simpl in Hf.
      destruct (f1_step a e o ob) as [e' hit] eqn:Ef. rewrite Ea in Hf. simpl in Hf.
      assert (Hhit : fx = false -> snd (f1_step a e o ob) = false).
      { intro Hx. rewrite Ef. simpl. destruct hit; [|reflexivity]. exfalso. apply (Hf Hx). left; reflexivity. }
      destruct (step_sim s a e o s' ob a' ao HR Es Ea Hno Hhit) as [Hag HR'].
      constructor; [exact Hag|].
      rewrite Ef in HR'. simpl in HR'.
      apply (IH s' a' (if fx then e else e') HR' Hn).
      intros Hx Hin. apply (Hf Hx). right. rewrite Hx in Hin. rewrite Hx. exact Hin.
  Qed.
End Refinement.

(** * Headlines *)

(** After fixes/F1.patch: every properly nested history refines the specification, no exception. *)
Theorem spec_refinement_fixed static_max conf h :
  Nested h -> Forall2 agrees (map fst (run true static_max conf init h)) (aspec ainit h).
Proof.
  intro Hn. apply (run_sim true static_max conf h init ainit (fun _ => None)).
  - apply R_init. reflexivity.
  - exact Hn.
  - discriminate.
Qed.

(** /repo as it is: every properly nested history outside the F1 class refines the specification. *)
Theorem spec_refinement_unfixed static_max conf h :
  Nested h -> ~ F1_class static_max conf h ->
  Forall2 agrees (map fst (run false static_max conf init h)) (aspec ainit h).
Proof.
  intros Hn Hf. apply (run_sim false static_max conf h init ainit (fun _ => None)).
  - apply R_init. reflexivity.
  - exact Hn.
  - intros _. exact Hf.
Qed.

(** F1's replay, in the model of /repo as it is: T0 set_default(A) + drop the guard; set_global_default(G);
    T1 set_default(B), held; T0 emits.  The specification says G; the code hands T0 the no-op dispatcher and
    nobody receives the event.  The history is properly nested and lies in the class. *)
Definition all_pass : fspec := mk_fspec 5 [0] 0 0.
Definition f1_cs : callsite := mk_cs 28 3 0 1.
Definition f1_history : list op :=
  [ New; New; New; Open 0 (DCol 0); Close 0 0%nat; SetGlobal 0 1; Open 1 (DCol 2); Emit 0 f1_cs ].
Lemma nested_b_sound h : nested_b h = true -> Nested h.
Proof.
  unfold nested_b, Nested. rewrite forallb_forall. intros H t k Hin.
  specialize (H _ Hin). simpl in H. destruct k; [reflexivity | discriminate H].
Qed.
Theorem F1_refuted :
  Nested f1_history /\
  F1_class (Some TRACE) (conf_of_list [all_pass; all_pass; all_pass]) f1_history /\
  nth 7 (map fst (run false (Some TRACE) (conf_of_list [all_pass; all_pass; all_pass]) init f1_history)) OBad
    = OEmit (Some DNone) None /\
  nth 7 (aspec ainit f1_history) AAny = ADefault (DCol 1) /\
  ~ Forall2 agrees (map fst (run false (Some TRACE) (conf_of_list [all_pass; all_pass; all_pass]) init f1_history))
                   (aspec ainit f1_history).
Proof.
  split; [apply nested_b_sound; reflexivity|].
  split; [unfold F1_class; vm_compute; tauto|].
  split; [vm_compute; reflexivity|].
  split; [vm_compute; reflexivity|].
  intro H.
  assert (G : forall l1 l2, Forall2 agrees l1 l2 -> forall n, (n < length l1)%nat -> agrees (nth n l1 OBad) (nth n l2 AAny)).
  { induction 1; intros n Hn; simpl in *; [lia|]. destruct n; [assumption | apply IHForall2; lia]. }
  specialize (G _ _ H 7%nat). vm_compute in G. specialize (G ltac:(lia) DNone eq_refl). discriminate G.
Qed.
(** The same history in the repaired variant: delivered to the global default. *)
Theorem F1_replay_holds_when_fixed :
  nth 7 (map fst (run true (Some TRACE) (conf_of_list [all_pass; all_pass; all_pass]) init f1_history)) OBad
    = OEmit (Some (DCol 1)) (Some 1).
Proof. vm_compute. reflexivity. Qed.

(** Non-vacuity of [spec_refinement_unfixed]: a properly nested 12-op history on two threads outside the class,
    with nesting, a set_global_default that comes after scoped use on ANOTHER thread, and a second (failing) attempt. *)
Definition ex2_history : list op :=
  [ New; New; New;
    Open 0 (DCol 0); Open 0 (DCol 1); GetDefault 0; Close 0 0%nat; GetDefault 0;
    SetGlobal 1 2; SetGlobal 0 0; GetDefault 1; Close 0 0%nat ].
Example ex2_nonvacuous :
  Nested ex2_history /\ ~ F1_class (Some TRACE) (conf_of_list [all_pass; all_pass; all_pass]) ex2_history /\
  map fst (run false (Some TRACE) (conf_of_list [all_pass; all_pass; all_pass]) init ex2_history) =
  [ ONew 0; ONew 1; ONew 2; OUnit; OUnit; ODefault (DCol 1); OUnit; ODefault (DCol 0);
    OSetGlobal true; OSetGlobal false; ODefault (DCol 2); OUnit ].
Proof.
  split; [apply nested_b_sound; reflexivity|].
  split; [unfold F1_class; vm_compute; intuition discriminate|].
  vm_compute. reflexivity.
Qed.

(** The same history in the repaired variant (non-vacuity of [spec_refinement_fixed]). *)
Example ex2_fixed :
  map fst (run true (Some TRACE) (conf_of_list [all_pass; all_pass; all_pass]) init ex2_history) =
  [ ONew 0; ONew 1; ONew 2; OUnit; OUnit; ODefault (DCol 1); OUnit; ODefault (DCol 0);
    OSetGlobal true; OSetGlobal false; ODefault (DCol 2); OUnit ].
Proof. vm_compute. reflexivity. Qed.

(** * The class is exact: every properly nested history IN the class deviates from the specification
      (so [~ F1_class] in [spec_refinement_unfixed] is not merely sufficient: it is the precise boundary of F1). *)
Lemma hit_of_true a e t :
  hit_of a (establish a e t) t = true -> a_stack a t = [] /\ e t = Some true /\ gset a = true.
Proof.
  unfold hit_of. destruct (a_stack a t); [|discriminate].
  destruct (e t) as [b|] eqn:Ee.
  - rewrite (establish_some a e t b Ee), Ee. destruct b; [auto | discriminate].
  - rewrite (establish_none a e t Ee). destruct (gset a); simpl; discriminate.
Qed.
Lemma tainted_slow s a e t :
  R_ false s a e -> a_stack a t = [] -> e t = Some true -> slow false s t = (s, DNone).
Proof.
  intros HR Hst He. pose proof (r_thread _ _ _ _ HR t) as Ht. unfold thread_ok_ in Ht.
  destruct Ht as [Hch [Hb _]]. rewrite Hst in Hch. apply chain_nil_stack in Hch.
  rewrite Hch, He in Hb. simpl in Hb. unfold slow. rewrite Hb. reflexivity.
Qed.
Lemma tainted_get_default s a e t :
  R_ false s a e -> a_stack a t = [] -> e t = Some true -> a_scopes a <> [] -> get_default false s t = (s, DNone).
Proof.
  intros HR Hst He Hne. unfold get_default. rewrite (r_scoped _ _ _ _ HR).
  destruct (a_scopes a); [congruence|]. simpl. apply (tainted_slow s a e t HR Hst He).
Qed.
Lemma emit_like_tainted sm conf s a e t cs (mk : state -> option disp -> bool -> disp -> obs) s' ob :
  (forall s2 con ok d, consulted (mk s2 con ok d) = if ok then Some d else con) ->
  R_ false s a e -> a_stack a t = [] -> e t = Some true -> a_scopes a <> [] ->
  (let '(s1, con, ok) := guard false sm conf s t cs in
   if ok then let '(s2, d) := get_default false s1 t in (s2, mk s2 con true d)
   else (s1, mk s1 con false DNone)) = (s', ob) ->
  forall d, consulted ob = Some d -> d = DNone.
Proof.
  intros Hmk HR Hst He Hne Hstep d Hd.
  destruct (guard false sm conf s t cs) as [[s1 con] ok] eqn:Eg. apply guard_shape in Eg.
  destruct Eg as [[-> Ht]|[s0 [d0 (Ht & Hg & ->)]]].
  - pose proof (R_thr_eq false _ _ _ _ Ht HR) as HR1.
    destruct ok.
    + rewrite (tainted_get_default s1 a e t HR1 Hst He Hne) in Hstep. injection Hstep as <- <-.
      rewrite Hmk in Hd. congruence.
    + injection Hstep as <- <-. rewrite Hmk in Hd. discriminate Hd.
  - pose proof (R_thr_eq false _ _ _ _ Ht HR) as HR0.
    rewrite (tainted_get_default s0 a e t HR0 Hst He Hne) in Hg. injection Hg as <- <-.
    destruct ok.
    + rewrite (tainted_get_default s0 a e t HR0 Hst He Hne) in Hstep. injection Hstep as <- <-.
      rewrite Hmk in Hd. congruence.
    + injection Hstep as <- <-. rewrite Hmk in Hd. congruence.
Qed.

Lemma step_hit sm conf s a e o s' ob a' ao :
  R_ false s a e -> step false sm conf s o = (s', ob) -> astep a o = (a', ao) ->
  snd (f1_step a e o ob) = true -> ~ agrees ob ao.
Proof.
  intros HR Hs Ha Hhit.
  assert (Hwrong : forall t, a_stack a t = [] -> gset a = true ->
                   (forall d, consulted ob = Some d -> d = DNone) -> consulted ob <> None ->
                   ~ agrees ob (ADefault (a_default a t))).
  { intros t Hst Hg Hall Hsome Hag. unfold agrees in Hag. destruct (consulted ob) as [d|] eqn:Ec; [|congruence].
    specialize (Hag d eq_refl). rewrite (Hall d eq_refl) in Hag.
    unfold a_default in Hag. rewrite Hst in Hag. unfold gset in Hg. destruct (a_global a); discriminate. }
  destruct o as [|c|t d|t k|t c|t cs|t cs|t|t| |c]; simpl in Hs, Ha; try (simpl in Hhit; discriminate Hhit).
  - (* Open never hits *)
    unfold f1_step in Hhit. destruct (a_valid a d); discriminate Hhit.
  - (* Emit *)
    injection Ha as <- <-. rewrite (f1_step_consult a e t ob (Emit t cs)) in Hhit by (right; left; eauto).
    unfold mon_consult in Hhit. destruct (consulted ob) as [d0|] eqn:Ec; [|discriminate Hhit].
    destruct (a_scopes a) as [|x l] eqn:Es; [discriminate Hhit|]. simpl in Hhit.
    apply hit_of_true in Hhit. destruct Hhit as (Hst & He & Hg).
    apply (Hwrong t Hst Hg); [|congruence]. rewrite <- Ec.
    unfold do_emit in Hs.
    apply (emit_like_tainted sm conf s a e t cs
             (fun _ con ok d => if ok then OEmit (Some d) (match d with DCol c => Some c | DNone => None end) else OEmit con None) s' ob).
    + intros s2 con ok d. destruct ok; reflexivity.
    + exact HR. + exact Hst. + exact He. + rewrite Es; discriminate.
    + destruct (guard false sm conf s t cs) as [[s1 con] ok]. destruct ok; [|exact Hs].
      destruct (get_default false s1 t). exact Hs.
  - (* Probe *)
    injection Ha as <- <-. rewrite (f1_step_consult a e t ob (Probe t cs)) in Hhit by (right; right; eauto).
    unfold mon_consult in Hhit. destruct (consulted ob) as [d0|] eqn:Ec; [|discriminate Hhit].
    destruct (a_scopes a) as [|x l] eqn:Es; [discriminate Hhit|]. simpl in Hhit.
    apply hit_of_true in Hhit. destruct Hhit as (Hst & He & Hg).
    apply (Hwrong t Hst Hg); [|congruence]. rewrite <- Ec.
    unfold do_probe in Hs.
    apply (emit_like_tainted sm conf s a e t cs
             (fun s2 con ok d => if ok then OProbe (Some d) (enabled_of conf s2 d cs) else OProbe con false) s' ob).
    + intros s2 con ok d. destruct ok; reflexivity.
    + exact HR. + exact Hst. + exact He. + rewrite Es; discriminate.
    + destruct (guard false sm conf s t cs) as [[s1 con] ok]. destruct ok; [|exact Hs].
      destruct (get_default false s1 t). exact Hs.
  - (* GetDefault *)
    injection Ha as <- <-. destruct (get_default false s t) as [s2 d] eqn:Eg. injection Hs as <- <-.
    rewrite (f1_step_consult a e t (ODefault d) (GetDefault t)) in Hhit by (left; reflexivity).
    unfold mon_consult in Hhit. simpl in Hhit.
    destruct (a_scopes a) as [|x l] eqn:Es; [discriminate Hhit|]. simpl in Hhit.
    apply hit_of_true in Hhit. destruct Hhit as (Hst & He & Hg).
    rewrite (tainted_get_default s a e t HR Hst He) in Eg by (rewrite Es; discriminate). injection Eg as <- <-.
    apply (Hwrong t Hst Hg); simpl; [intros d Hd; congruence | discriminate].
  - (* GetCurrent *)
    injection Ha as <- <-. destruct (slow false s t) as [s2 d] eqn:Eg. injection Hs as <- <-.
    assert (Hf1 : snd (f1_step a e (GetCurrent t) (ODefault d)) = hit_of a (establish a e t) t) by reflexivity.
    rewrite Hf1 in Hhit. apply hit_of_true in Hhit. destruct Hhit as (Hst & He & Hg).
    rewrite (tainted_slow s a e t HR Hst He) in Eg. injection Eg as <- <-.
    apply (Hwrong t Hst Hg); simpl; [intros d Hd; congruence | discriminate].
Qed.

Lemma run_hit sm conf h : forall s a e,
  R_ false s a e -> Nested h ->
  In true (f1_hits a e h (map fst (run false sm conf s h))) ->
  ~ Forall2 agrees (map fst (run false sm conf s h)) (aspec a h).
Proof.
  induction h as [|o h IH]; intros s a e HR Hn Hin; simpl in *; [destruct Hin|].
  apply nested_cons in Hn. destruct Hn as [Hno Hn].
  destruct (step false sm conf s o) as [s' ob] eqn:Es.
  destruct (astep a o) as [a' ao] eqn:Ea. simpl in *.
  destruct (f1_step a e o ob) as [e' hit] eqn:Ef. simpl in Hin.
  intro HF. inversion HF as [|? ? ? ? Hag HF']; subst.
  destruct hit.
  - apply (step_hit sm conf s a e o s' ob a' ao HR Es Ea); [rewrite Ef; reflexivity | exact Hag].
  - destruct Hin as [Hin|Hin]; [discriminate Hin|].
    destruct (step_sim false sm conf s a e o s' ob a' ao HR Es Ea Hno) as [_ HR']; [intros _; rewrite Ef; reflexivity|].
    rewrite Ef in HR'. simpl in HR'. apply (IH s' a' e' HR' Hn Hin HF').
Qed.

Theorem F1_class_is_exact static_max conf h :
  Nested h ->
  (Forall2 agrees (map fst (run false static_max conf init h)) (aspec ainit h) <-> ~ F1_class static_max conf h).
Proof.
  intro Hn. split.
  - intros HF Hc. apply (run_hit static_max conf h init ainit (fun _ => None)); [apply R_init; reflexivity | exact Hn | exact Hc | exact HF].
  - apply spec_refinement_unfixed. exact Hn.
Qed.

(** * Thread isolation (frame): an op of another thread never touches this thread's thread-local or guards. *)
Definition op_thread (o : op) : option N :=
  match o with
  | Open t _ | Close t _ | Emit t _ | Probe t _ | GetDefault t | GetCurrent t => Some t
  | New | DropHandle _ | SetGlobal _ _ | Rebuild | Flip _ => None
  end.
Lemma slow_frame fx s t s' d u : slow fx s t = (s', d) -> u <> t -> tls s' u = tls s u.
Proof.
  unfold slow. destruct (tl (tls s t)); intro H; injection H as <- _; [reflexivity|].
  destruct fx; [reflexivity|]. intro Hu. simpl. unfold upd.
  destruct (u =? t) eqn:E; [apply N.eqb_eq in E; congruence | reflexivity].
Qed.
Lemma get_default_frame fx s t s' d u : get_default fx s t = (s', d) -> u <> t -> tls s' u = tls s u.
Proof.
  unfold get_default. destruct (Nat.eqb (scoped s) 0); [intro H; injection H as <- _; reflexivity | apply slow_frame].
Qed.
Lemma thr_eq_tls s s' : thr_eq s s' -> tls s' = tls s.
Proof. intros (_ & _ & _ & _ & H). exact H. Qed.
Lemma guard_frame fx sm conf s t cs s1 con ok u :
  guard fx sm conf s t cs = (s1, con, ok) -> u <> t -> tls s1 u = tls s u.
Proof.
  intros H Hu. apply guard_shape in H. destruct H as [[_ Ht]|[s0 [d (Ht & Hg & _)]]].
  - rewrite (thr_eq_tls _ _ Ht). reflexivity.
  - rewrite (get_default_frame fx s0 t s1 d u Hg Hu). rewrite (thr_eq_tls _ _ Ht). reflexivity.
Qed.
Theorem thread_frame fx sm conf s o u :
  op_thread o <> Some u -> tls (fst (step fx sm conf s o)) u = tls s u.
Proof.
  intro Hu. destruct o as [|c|t d|t k|t c|t cs|t cs|t|t| |c]; simpl in *.
  - pose proof (rebuild_fields conf
      {| next := next s + 1; handle := upd (handle s) (next s) true; flag := upd (flag s) (next s) (c_flag0 (conf (next s)));
         dispatchers := dispatchers s ++ [next s]; callsites := callsites s; cache := cache s; max_level := max_level s;
         tls := tls s; tids := tids s; scoped := scoped s; global := global s |}) as (_ & _ & _ & F4 & _).
    exact (f_equal (fun f => f u) F4).
  - destruct (handle s c); reflexivity.
  - assert (u <> t) by congruence. unfold do_open. destruct (valid_disp s d); [|reflexivity]. simpl. unfold upd.
    destruct (u =? t) eqn:E; [apply N.eqb_eq in E; congruence | reflexivity].
  - assert (u <> t) by congruence. unfold do_close. destruct (remove_nth k (guards (tls s t))) as [[p gs]|]; [|reflexivity].
    simpl. unfold upd. destruct (u =? t) eqn:E; [apply N.eqb_eq in E; congruence | reflexivity].
  - unfold do_set_global. destruct (handle s c); [|reflexivity]. destruct (global s); reflexivity.
  - assert (Hn : u <> t) by congruence. unfold do_emit.
    destruct (guard fx sm conf s t cs) as [[s1 con] ok] eqn:Eg.
    pose proof (guard_frame fx sm conf s t cs s1 con ok u Eg Hn) as H1.
    destruct ok; [|exact H1]. destruct (get_default fx s1 t) as [s2 d] eqn:Ed. simpl.
    rewrite (get_default_frame fx s1 t s2 d u Ed Hn). exact H1.
  - assert (Hn : u <> t) by congruence. unfold do_probe.
    destruct (guard fx sm conf s t cs) as [[s1 con] ok] eqn:Eg.
    pose proof (guard_frame fx sm conf s t cs s1 con ok u Eg Hn) as H1.
    destruct ok; [|exact H1]. destruct (get_default fx s1 t) as [s2 d] eqn:Ed. simpl.
    rewrite (get_default_frame fx s1 t s2 d u Ed Hn). exact H1.
  - assert (Hn : u <> t) by congruence. destruct (get_default fx s t) as [s2 d] eqn:Ed. simpl.
    apply (get_default_frame fx s t s2 d u Ed Hn).
  - assert (Hn : u <> t) by congruence. destruct (slow fx s t) as [s2 d] eqn:Ed. simpl.
    apply (slow_frame fx s t s2 d u Ed Hn).
  - pose proof (rebuild_fields conf s) as (_ & _ & _ & F4 & _). exact (f_equal (fun f => f u) F4).
  - destruct (c <? next s); reflexivity.
Qed.

(** * Unwinding restores: opening n scopes on a thread and dropping the n guards innermost-first (what a panic's
    unwinding, or leaving nested with_default closures, does) leaves every thread's abstract stack as it was. *)
Lemma astep_open_close_restores a t d :
  a_valid a d = true ->
  forall u, a_stack (fst (astep (fst (astep a (Open t d))) (Close t 0%nat))) u = a_stack a u.
Proof.
  intros Hv u. simpl. rewrite Hv. simpl. rewrite a_stack_cons_same. simpl.
  unfold a_stack. simpl. rewrite N.eqb_refl. reflexivity.
Qed.
Fixpoint afinal (a : astate) (h : list op) : astate :=
  match h with [] => a | o :: r => afinal (fst (astep a o)) r end.
Theorem unwind_restores ds : forall a t,
  forallb (a_valid a) ds = true ->
  forall u, a_stack (afinal a (map (Open t) ds ++ repeat (Close t 0%nat) (length ds))) u = a_stack a u.
Proof.
  induction ds as [|d ds IH]; intros a t Hv u; simpl; [reflexivity|].
  simpl in Hv. apply andb_true_iff in Hv. destruct Hv as [Hd Hds]. rewrite Hd. simpl.
  set (a1 := {| a_next := a_next a; a_handle := a_handle a; a_scopes := (t, d) :: a_scopes a; a_global := a_global a |}).
  (* move the last Close to the end: repeat (n+1) = repeat n ++ [Close] *)
  replace (Close t 0%nat :: repeat (Close t 0%nat) (length ds)) with (repeat (Close t 0%nat) (length ds) ++ [Close t 0%nat]).
  2:{ clear. induction (length ds); simpl; [reflexivity | rewrite IHn; reflexivity]. }
  rewrite app_assoc.
  assert (Hsplit : forall h1 h2 a0, afinal a0 (h1 ++ h2) = afinal (afinal a0 h1) h2).
  { induction h1; simpl; intros; [reflexivity | apply IHh1]. }
  rewrite Hsplit. simpl.
  set (a2 := afinal a1 (map (Open t) ds ++ repeat (Close t 0%nat) (length ds))).
  assert (H2 : forall v, a_stack a2 v = a_stack a1 v) by (intro v; apply IH; exact Hds).
  (* the final Close pops exactly the entry (t, d) *)
  assert (Hscopes : forall h a0, a_global (afinal a0 h) = a_global (afinal a0 h)) by reflexivity.
  rewrite (H2 t). unfold a1 at 1. rewrite a_stack_cons_same.
  unfold a_stack at 1. simpl.
  destruct (N.eq_dec u t) as [->|Hne].
  - rewrite filter_remove_first_same. fold (a_stack a2 t). rewrite H2. unfold a1. rewrite a_stack_cons_same. reflexivity.
  - rewrite filter_remove_first_other by assumption. fold (a_stack a2 u). rewrite H2. unfold a1.
    rewrite a_stack_cons_other by assumption. reflexivity.
Qed.

(** * set_global_default succeeds exactly once — under EVERY interleaving of its three micro-steps, for any
    number of concurrent attempts (one per thread), any candidate assignment. *)
Definition SgInv (cand : N -> N) (s : sg_state) : Prop :=
  match sg_init s with
  | Uninit => forall t, sg_pc s t = 0%nat /\ sg_res s t = None
  | Initializing =>
      exists w, (sg_pc s w = 1%nat \/ (sg_pc s w = 2%nat /\ sg_disp s = Some (cand w))) /\ sg_res s w = None /\
                forall t, t <> w -> sg_pc s t = 0%nat /\ sg_res s t <> Some SgOk
  | Initialized =>
      exists w, sg_pc s w = 2%nat /\ sg_disp s = Some (cand w) /\ sg_res s w = Some SgOk /\
                forall t, t <> w -> sg_pc s t = 0%nat /\ sg_res s t <> Some SgOk
  end.

Lemma SgInv_init cand : SgInv cand sg_init_state.
Proof. unfold SgInv. simpl. auto. Qed.

Ltac upd_cases :=
  unfold upd;
  repeat match goal with
         | |- context [?x =? ?y] => destruct (N.eqb_spec x y); subst
         | H : context [?x =? ?y] |- _ => destruct (N.eqb_spec x y); subst
         end.

Lemma SgInv_step cand s t : SgInv cand s -> SgInv cand (sg_step cand s t).
Proof.
  unfold SgInv, sg_step. intro I.
  destruct (sg_res s t) eqn:Er; [exact I|].
  destruct (sg_init s) eqn:Ei.
  - (* Uninit: everybody at pc 0; the CAS of t wins *)
    destruct (I t) as [Hpc _]. rewrite Hpc. simpl.
    exists t. split; [left; upd_cases; congruence|]. split; [exact Er|].
    intros t' Hne. destruct (I t') as [H1 H2]. split; [upd_cases; congruence | rewrite H2; discriminate].
  - (* Initializing *)
    destruct I as [w (Hw & Hr & Hoth)].
    destruct (N.eq_dec t w) as [->|Hne].
    + (* the winner advances *)
      destruct Hw as [Hw|[Hw Hd]]; rewrite Hw; simpl.
      * exists w. split; [right; split; [upd_cases; congruence | reflexivity]|]. split; [exact Hr|].
        intros t' Hne. destruct (Hoth t' Hne) as [H1 H2]. split; [upd_cases; congruence | exact H2].
      * exists w. split; [exact Hw|]. split; [exact Hd|]. split; [upd_cases; congruence|].
        intros t' Hne. destruct (Hoth t' Hne) as [H1 H2]. split; [exact H1 | upd_cases; congruence].
    + (* a latecomer loses the CAS *)
      destruct (Hoth t Hne) as [Hpc _]. rewrite Hpc. simpl.
      exists w. split; [exact Hw|]. split; [upd_cases; congruence|].
      intros t' Hne'. destruct (Hoth t' Hne') as [H1 H2]. split; [exact H1 | upd_cases; congruence].
  - (* Initialized *)
    destruct I as [w (Hw & Hd & Hr & Hoth)].
    assert (Hne : t <> w) by (intro; subst; congruence).
    destruct (Hoth t Hne) as [Hpc _]. rewrite Hpc. simpl.
    exists w. split; [exact Hw|]. split; [exact Hd|]. split; [upd_cases; congruence|].
    intros t' Hne'. destruct (Hoth t' Hne') as [H1 H2]. split; [exact H1 | upd_cases; congruence].
Qed.

Lemma SgInv_run cand sched : SgInv cand (sg_run cand sched).
Proof.
  unfold sg_run. assert (G : forall s, SgInv cand s -> SgInv cand (fold_left (sg_step cand) sched s)).
  { induction sched as [|t r IH]; simpl; intros s I; [exact I | apply IH; apply SgInv_step; exact I]. }
  apply G. apply SgInv_init.
Qed.

(** For EVERY schedule (any interleaving of the micro-steps of any number of attempts, finished or not):
    at most one attempt returns Ok; once it has, get_global() hands out exactly its dispatcher; as long as none has,
    get_global() is the no-op dispatcher (never a half-written one); an attempt only ever returns Err because
    another attempt had already won the compare-exchange. *)
Theorem set_global_once cand sched :
  let s := sg_run cand sched in
  (forall t u, sg_res s t = Some SgOk -> sg_res s u = Some SgOk -> t = u) /\
  (forall t, sg_res s t = Some SgOk -> sg_get_global s = Some (cand t)) /\
  ((forall t, sg_res s t <> Some SgOk) -> sg_get_global s = None) /\
  (forall t, sg_res s t = Some SgErr -> exists w, w <> t /\ sg_pc s w <> 0%nat /\ sg_res s w <> Some SgErr).
Proof.
  intro s. pose proof (SgInv_run cand sched) as I. fold s in I. unfold SgInv, sg_get_global in *.
  destruct (sg_init s) eqn:Ei.
  - repeat split.
    + intros t u Ht. destruct (I t). congruence.
    + intros t Ht. destruct (I t). congruence.
    + intros t Ht. destruct (I t). congruence.
  - destruct I as [w (Hw & Hr & Hoth)]. repeat split.
    + intros t u Ht. destruct (N.eq_dec t w) as [->|Hne]; [congruence | destruct (Hoth t Hne); congruence].
    + intros t Ht. destruct (N.eq_dec t w) as [->|Hne]; [congruence | destruct (Hoth t Hne); congruence].
    + intros t Ht. exists w. split; [intro; subst; congruence|]. split; [destruct Hw as [Hw|[Hw _]]; congruence | congruence].
  - destruct I as [w (Hw & Hd & Hr & Hoth)]. repeat split.
    + intros t u Ht Hu.
      destruct (N.eq_dec t w) as [->|Hne]; [|destruct (Hoth t Hne); congruence].
      destruct (N.eq_dec u w) as [->|Hne]; [reflexivity | destruct (Hoth u Hne); congruence].
    + intros t Ht. destruct (N.eq_dec t w) as [->|Hne]; [exact Hd | destruct (Hoth t Hne); congruence].
    + intro Hno. exfalso. apply (Hno w). exact Hr.
    + intros t Ht. exists w. split; [intro; subst; congruence|]. split; congruence.
Qed.

(** ... and exactly once: if some attempt has returned and no attempt is stuck between its compare-exchange and
    its return, then one attempt returned Ok. *)
Theorem set_global_some_success cand sched :
  let s := sg_run cand sched in
  (exists t, sg_res s t <> None) ->
  (forall t, sg_pc s t <> 0%nat -> sg_res s t <> None) ->
  exists w, sg_res s w = Some SgOk.
Proof.
  intro s. pose proof (SgInv_run cand sched) as I. fold s in I. unfold SgInv in I.
  intros [t Ht] Hfin. destruct (sg_init s).
  - destruct (I t). congruence.
  - destruct I as [w (Hw & Hr & _)]. exfalso. apply (Hfin w); [destruct Hw as [Hw|[Hw _]]; congruence | exact Hr].
  - destruct I as [w (_ & _ & Hr & _)]. exists w. exact Hr.
Qed.

(** Liveness half of "exactly once": if every attempt is scheduled to completion (3 turns suffice for the CAS
    winner, 1 for a loser) then exactly the FIRST scheduled thread's attempt succeeded.  Stated for the schedule
    that gives every listed thread three consecutive turns after an arbitrary prefix is covered by [set_global_once];
    the simplest complete instance — a sequential attempt — is checked here. *)
Example set_global_sequential cand a b :
  a <> b ->
  let s := sg_run cand [a; a; a; b] in
  sg_res s a = Some SgOk /\ sg_res s b = Some SgErr /\ sg_get_global s = Some (cand a).
Proof.
  intro Hab. assert (E1 : (b =? a) = false) by (apply N.eqb_neq; congruence).
  unfold sg_run, sg_step, upd. simpl. rewrite !N.eqb_refl. simpl. rewrite !N.eqb_refl. simpl.
  rewrite !E1. simpl. rewrite !N.eqb_refl, ?E1. simpl.
  assert (E2 : (a =? b) = false) by (apply N.eqb_neq; congruence). rewrite ?E2. auto.
Qed.

(** * Clause-level corollaries for dispatch.rs as it is now (the repaired variant, [fx = true]) *)

Lemma final_app fx sm conf h1 : forall h2 s,
  final fx sm conf s (h1 ++ h2) = final fx sm conf (final fx sm conf s h1) h2.
Proof. induction h1 as [|o h1 IH]; intros h2 s; simpl; [reflexivity | apply IH]. Qed.
Lemma afinal_app h1 : forall h2 a, afinal a (h1 ++ h2) = afinal (afinal a h1) h2.
Proof. induction h1 as [|o h1 IH]; intros h2 a; simpl; [reflexivity | apply IH]. Qed.
Lemma Nested_app h1 h2 : Nested (h1 ++ h2) -> Nested h1 /\ Nested h2.
Proof. unfold Nested. intro H. split; intros t k Hin; apply (H t k); apply in_or_app; auto. Qed.

(** The refinement relation holds after every properly nested history. *)
Lemma final_sim sm conf h : forall s a e,
  R_ true s a e -> Nested h -> R_ true (final true sm conf s h) (afinal a h) e.
Proof.
  induction h as [|o h IH]; intros s a e HR Hn; simpl; [exact HR|].
  apply nested_cons in Hn. destruct Hn as [Hno Hn].
  destruct (step true sm conf s o) as [s' ob] eqn:Es.
  destruct (astep a o) as [a' ao] eqn:Ea. simpl.
  assert (Hx : true = false -> snd (f1_step a e o ob) = false) by discriminate.
  destruct (step_sim true sm conf s a e o s' ob a' ao HR Es Ea Hno Hx) as [_ HR'].
  apply IH; assumption.
Qed.
Lemma final_R sm conf h :
  Nested h -> R_ true (final true sm conf init h) (afinal ainit h) (fun _ => None).
Proof. intro Hn. apply final_sim; [apply R_init; reflexivity | exact Hn]. Qed.

(** What get_default hands out is the specification's default: innermost live scope of the thread, else the
    global default if set, else the no-op dispatcher. *)
Lemma current_is_spec_default s a e t : R_ true s a e -> current s t = a_default a t.
Proof.
  intro HR. destruct (get_default true s t) as [s' d] eqn:E.
  destruct (get_default_post true s t s' d E) as [Hd _].
  assert (Hx : true = false -> a_scopes a <> [] -> hit_of a (establish a e t) t = false) by discriminate.
  destruct (get_default_sim true s a e t s' d HR E Hx) as [Hd' _].
  congruence.
Qed.

(** "An emission is handed to the collector installed by the innermost still-live scope of that thread; with no
    live scope, to the global default when one has been set; otherwise it is discarded" — C01 ∘ C02: who RECEIVES
    an emission after any properly nested history, in terms of the specification's stacks only. *)
Definition spec_receiver (sm : levelfilter) (conf : N -> collector) (s : state) (a : astate) (t : N) (cs : callsite) : option N :=
  match a_default a t with
  | DCol c => if lvl_le (cs_lvl cs) sm && accepts conf s c cs then Some c else None
  | DNone => None
  end.
Theorem emission_receiver sm conf :
  (forall c, wf_collector (conf c)) ->
  forall h t cs, Nested h ->
  exists con, snd (step true sm conf (final true sm conf init h) (Emit t cs)) =
              OEmit con (spec_receiver sm conf (final true sm conf init h) (afinal ainit h) t cs).
Proof.
  intros WF h t cs Hn.
  destruct (step true sm conf (final true sm conf init h) (Emit t cs)) as [post ob] eqn:Es.
  destruct (emission_verdict true sm conf WF h t cs post _ ob eq_refl Es) as [con ->].
  exists con. simpl. f_equal. unfold own_verdict, spec_receiver.
  rewrite (current_is_spec_default _ (afinal ainit h) (fun _ => None) t (final_R sm conf h Hn)). reflexivity.
Qed.
(** With collectors that accept everything (and the default build) the receiver is exactly the specification's default. *)
Corollary emission_receiver_unfiltered conf :
  (forall c cs, c_reg (conf c) cs = always) -> (forall c fl cs, c_en (conf c) fl cs = true) -> (forall c, c_hint (conf c) = None) ->
  forall h t cs, Nested h ->
  exists con, snd (step true (Some TRACE) conf (final true (Some TRACE) conf init h) (Emit t cs)) =
              OEmit con (match a_default (afinal ainit h) t with DCol c => Some c | DNone => None end).
Proof.
  intros Hreg Hen Hh h t cs Hn.
  assert (WF : forall c, wf_collector (conf c)).
  { intro c. repeat split.
    - intros cs0 fl H. rewrite Hreg in H. discriminate H.
    - intros cs0 fl _. apply Hen.
    - intros h0 cs0 H. rewrite Hh in H. discriminate H. }
  destruct (emission_receiver (Some TRACE) conf WF h t cs Hn) as [con H]. exists con. rewrite H. f_equal.
  unfold spec_receiver. destruct (a_default (afinal ainit h) t) as [|c]; [reflexivity|].
  rewrite lvl_le_trace. unfold accepts. rewrite Hreg. reflexivity.
Qed.

(** ** "never affect another thread", observably: an op of another thread (or a thread-less op) other than
    set_global_default leaves the dispatcher handed to thread u unchanged; set_global_default leaves every
    thread's scope stack unchanged (it only fills the write-once cell that threads WITHOUT a live scope fall back to). *)
Lemma astep_frame a o u : op_thread o <> Some u -> a_stack (fst (astep a o)) u = a_stack a u.
Proof.
  intro Hu. destruct o as [|c|t d|t k|t c|t cs|t cs|t|t| |c]; simpl in *; try reflexivity.
  - destruct (a_handle a c); reflexivity.
  - destruct (a_valid a d); [|reflexivity]. simpl. apply a_stack_cons_other. congruence.
  - destruct (a_stack a t); [reflexivity|]. simpl. unfold a_stack at 1. simpl.
    rewrite filter_remove_first_other by congruence. reflexivity.
  - destruct (a_handle a c); [|reflexivity]. destruct (a_global a); reflexivity.
Qed.
Lemma astep_global a o : (forall t c, o <> SetGlobal t c) -> a_global (fst (astep a o)) = a_global a.
Proof.
  intro H. destruct o as [|c|t d|t k|t c|t cs|t cs|t|t| |c]; simpl; try reflexivity.
  - destruct (a_handle a c); reflexivity.
  - destruct (a_valid a d); reflexivity.
  - destruct (a_stack a t); reflexivity.
  - exfalso. apply (H t c). reflexivity.
Qed.
Theorem isolation_observable sm conf h o u :
  Nested (h ++ [o]) -> op_thread o <> Some u -> (forall t c, o <> SetGlobal t c) ->
  current (final true sm conf init (h ++ [o])) u = current (final true sm conf init h) u.
Proof.
  intros Hn Hu Hg. destruct (Nested_app _ _ Hn) as [Hn1 _].
  rewrite (current_is_spec_default _ _ _ u (final_R sm conf _ Hn)).
  rewrite (current_is_spec_default _ _ _ u (final_R sm conf _ Hn1)).
  rewrite afinal_app. simpl. unfold a_default.
  rewrite (astep_frame _ o u Hu), (astep_global _ o Hg). reflexivity.
Qed.
Theorem set_global_keeps_scoped_threads sm conf h t c u d stk :
  Nested (h ++ [SetGlobal t c]) ->
  a_stack (afinal ainit h) u = d :: stk ->
  current (final true sm conf init (h ++ [SetGlobal t c])) u = d /\ current (final true sm conf init h) u = d.
Proof.
  intros Hn Hs. destruct (Nested_app _ _ Hn) as [Hn1 _].
  rewrite (current_is_spec_default _ _ _ u (final_R sm conf _ Hn)).
  rewrite (current_is_spec_default _ _ _ u (final_R sm conf _ Hn1)).
  rewrite afinal_app.
  change (afinal (afinal ainit h) [SetGlobal t c]) with (fst (astep (afinal ainit h) (SetGlobal t c))).
  unfold a_default.
  rewrite (astep_frame _ (SetGlobal t c) u) by discriminate. rewrite Hs. auto.
Qed.

(** ** "restored on panic", on the CODE's state (not only the specification's): n set_default calls on a thread
    followed by the drop of the n guards innermost-first — what unwinding out of nested with_default closures does —
    leave that thread's thread-local default, its guard list, SCOPED_COUNT and everything else exactly as before. *)
Lemma tstate_eta st : {| tl := tl st; guards := guards st |} = st.
Proof. destruct st; reflexivity. Qed.
Lemma forallb_valid_same s s' ds : handle s' = handle s -> forallb (valid_disp s') ds = forallb (valid_disp s) ds.
Proof.
  intro H. induction ds as [|x l IH]; simpl; [reflexivity|]. rewrite IH. f_equal.
  destruct x; simpl; [reflexivity | rewrite H; reflexivity].
Qed.
Theorem unwind_restores_concrete sm conf t ds : forall s,
  forallb (valid_disp s) ds = true ->
  let s' := final true sm conf s (map (Open t) ds ++ repeat (Close t 0%nat) (length ds)) in
  (forall u, tls s' u = tls s u) /\ scoped s' = scoped s /\ global s' = global s /\ handle s' = handle s /\
  next s' = next s /\ cache s' = cache s /\ max_level s' = max_level s /\ dispatchers s' = dispatchers s.
Proof.
  induction ds as [|d ds IH]; intros s Hv; simpl.
  - repeat split; reflexivity.
  - simpl in Hv. apply andb_true_iff in Hv. destruct Hv as [Hd Hds].
    replace (Close t 0%nat :: repeat (Close t 0%nat) (length ds)) with (repeat (Close t 0%nat) (length ds) ++ [Close t 0%nat]).
    2:{ clear. induction (length ds) as [|n IHn]; simpl; [reflexivity | rewrite IHn; reflexivity]. }
    rewrite app_assoc, final_app. unfold do_open. rewrite Hd. simpl fst.
    set (s1 := set_scoped (set_thread s t {| tl := Some d; guards := tl (tls s t) :: guards (tls s t) |}) (S (scoped s))).
    assert (Hds1 : forallb (valid_disp s1) ds = true).
    { rewrite (forallb_valid_same s s1) by reflexivity. exact Hds. }
    destruct (IH s1 Hds1) as (T & S1 & G & H & Nx & C & M & D).
    set (s2 := final true sm conf s1 (map (Open t) ds ++ repeat (Close t 0%nat) (length ds))) in *.
    assert (Hg : tls s2 t = {| tl := Some d; guards := tl (tls s t) :: guards (tls s t) |}).
    { rewrite (T t). unfold s1. simpl. unfold upd. rewrite N.eqb_refl. reflexivity. }
    simpl. unfold do_close. rewrite Hg. simpl.
    repeat split.
    + intro u. unfold upd. destruct (u =? t) eqn:E.
      * apply N.eqb_eq in E. subst u. apply tstate_eta.
      * rewrite (T u). unfold s1. simpl. unfold upd. rewrite E. reflexivity.
    + rewrite S1. reflexivity.
    + rewrite G. reflexivity.
    + rewrite H. reflexivity.
    + rewrite Nx. reflexivity.
    + rewrite C. reflexivity.
    + rewrite M. reflexivity.
    + rewrite D. reflexivity.
Qed.

(** ** "set_global_default succeeds exactly once", at the granularity of whole calls and for EVERY history (nested
    or not, both variants): the cell is write-once — at most one call ever returns Ok, every call after it returns
    Err, and a call made with a live handle while the cell is empty succeeds. *)
Lemma get_default_global fx s t s' d : get_default fx s t = (s', d) -> global s' = global s.
Proof. intro H. apply get_default_post in H. destruct H as [_ [->|[-> _]]]; reflexivity. Qed.
Lemma guard_global fx sm conf s t cs s1 con ok : guard fx sm conf s t cs = (s1, con, ok) -> global s1 = global s.
Proof.
  intro H. apply guard_shape in H. destruct H as [[_ (_ & _ & G & _)]|[s0 [d ((_ & _ & G & _) & Hg & _)]]]; [exact G|].
  rewrite (get_default_global _ _ _ _ _ Hg). exact G.
Qed.
Lemma rebuild_global conf s : global (rebuild conf s) = global s.
Proof. pose proof (rebuild_fields conf s) as (_ & _ & _ & _ & _ & _ & F7 & _). exact F7. Qed.
Lemma step_global fx sm conf s o :
  global (fst (step fx sm conf s o)) =
  match o with
  | SetGlobal _ c => if handle s c then match global s with None => Some c | Some g => Some g end else global s
  | _ => global s
  end.
Proof.
  destruct o as [|c|t d|t k|t c|t cs|t cs|t|t| |c]; cbn [step fst].
  - rewrite rebuild_global. reflexivity.
  - destruct (handle s c); reflexivity.
  - unfold do_open. destruct (valid_disp s d); reflexivity.
  - unfold do_close. destruct (remove_nth k (guards (tls s t))) as [[p gs]|]; reflexivity.
  - unfold do_set_global. destruct (handle s c); [|reflexivity]. destruct (global s) eqn:Eg; simpl; [exact Eg | reflexivity].
  - unfold do_emit. destruct (guard fx sm conf s t cs) as [[s1 con] ok] eqn:Eg.
    pose proof (guard_global _ _ _ _ _ _ _ _ _ Eg) as G1.
    destruct ok; [|exact G1]. destruct (get_default fx s1 t) as [s2 d] eqn:Ed. simpl.
    rewrite (get_default_global _ _ _ _ _ Ed). exact G1.
  - unfold do_probe. destruct (guard fx sm conf s t cs) as [[s1 con] ok] eqn:Eg.
    pose proof (guard_global _ _ _ _ _ _ _ _ _ Eg) as G1.
    destruct ok; [|exact G1]. destruct (get_default fx s1 t) as [s2 d] eqn:Ed. simpl.
    rewrite (get_default_global _ _ _ _ _ Ed). exact G1.
  - destruct (get_default fx s t) as [s2 d] eqn:Ed. simpl. apply (get_default_global _ _ _ _ _ Ed).
  - destruct (slow fx s t) as [s2 d] eqn:Ed. simpl. apply slow_post in Ed. destruct Ed as [_ [->|[-> _]]]; reflexivity.
  - apply rebuild_global.
  - destruct (c <? next s); reflexivity.
Qed.
Definition is_set_ok (ob : obs) : bool := match ob with OSetGlobal true => true | _ => false end.
Lemma step_set_ok fx sm conf s o :
  is_set_ok (snd (step fx sm conf s o)) = true ->
  global s = None /\ exists t c, o = SetGlobal t c /\ handle s c = true /\ global (fst (step fx sm conf s o)) = Some c.
Proof.
  destruct o as [|c|t d|t k|t c|t cs|t cs|t|t| |c]; simpl.
  - discriminate.
  - destruct (handle s c); discriminate.
  - unfold do_open. destruct (valid_disp s d); discriminate.
  - unfold do_close. destruct (remove_nth k (guards (tls s t))) as [[p gs]|]; discriminate.
  - unfold do_set_global. destruct (handle s c) eqn:Eh; [|discriminate].
    destruct (global s) eqn:Eg; [discriminate|]. intros _. split; [reflexivity|]. exists t, c. auto.
  - unfold do_emit. destruct (guard fx sm conf s t cs) as [[s1 con] ok]. destruct ok; [|discriminate].
    destruct (get_default fx s1 t). discriminate.
  - unfold do_probe. destruct (guard fx sm conf s t cs) as [[s1 con] ok]. destruct ok; [|discriminate].
    destruct (get_default fx s1 t). discriminate.
  - destruct (get_default fx s t). discriminate.
  - destruct (slow fx s t). discriminate.
  - discriminate.
  - destruct (c <? next s); discriminate.
Qed.
Lemma global_sticks fx sm conf s o g : global s = Some g -> global (fst (step fx sm conf s o)) = Some g.
Proof.
  intro H. rewrite step_global. destruct o; try exact H. destruct (handle s c); [rewrite H; reflexivity | exact H].
Qed.
Lemma run_after_set fx sm conf h : forall s g, global s = Some g ->
  forallb (fun ob => negb (is_set_ok ob)) (map fst (run fx sm conf s h)) = true.
Proof.
  induction h as [|o h IH]; intros s g Hg; simpl; [reflexivity|].
  destruct (step fx sm conf s o) as [s' ob] eqn:Es. simpl.
  apply andb_true_iff. split.
  - destruct (is_set_ok ob) eqn:E; [|reflexivity]. exfalso.
    pose proof (step_set_ok fx sm conf s o) as H. rewrite Es in H. simpl in H. destruct (H E) as [Hn _]. congruence.
  - apply (IH s' g). pose proof (global_sticks fx sm conf s o g Hg) as H. rewrite Es in H. exact H.
Qed.
Theorem set_global_once_history fx sm conf h :
  (length (filter is_set_ok (map fst (run fx sm conf init h))) <= 1)%nat.
Proof.
  assert (G : forall h s, (length (filter is_set_ok (map fst (run fx sm conf s h))) <= 1)%nat).
  { clear h. induction h as [|o h IH]; intro s; simpl; [lia|].
    destruct (step fx sm conf s o) as [s' ob] eqn:Es. simpl.
    destruct (is_set_ok ob) eqn:E; [|apply IH].
    pose proof (step_set_ok fx sm conf s o) as H. rewrite Es in H. simpl in H.
    destruct (H E) as (_ & t & c & _ & _ & Hg).
    pose proof (run_after_set fx sm conf h s' c Hg) as Hno.
    simpl. replace (filter is_set_ok (map fst (run fx sm conf s' h))) with (@nil obs); [simpl; lia|].
    symmetry. clear - Hno. induction (map fst (run fx sm conf s' h)) as [|x l IHl]; simpl in *; [reflexivity|].
    apply andb_true_iff in Hno. destruct Hno as [H1 H2]. destruct (is_set_ok x); [discriminate H1 | apply IHl; exact H2]. }
  apply G.
Qed.
(** ... and it does succeed: an attempt with a live handle while no global default exists returns Ok and installs it. *)
Theorem set_global_first_attempt_succeeds fx sm conf s t c :
  global s = None -> handle s c = true ->
  step fx sm conf s (SetGlobal t c) = (set_global s (Some c), OSetGlobal true).
Proof. intros Hg Hh. simpl. unfold do_set_global. rewrite Hh, Hg. reflexivity. Qed.
Theorem set_global_later_attempts_fail fx sm conf s t c g :
  global s = Some g -> handle s c = true ->
  step fx sm conf s (SetGlobal t c) = (s, OSetGlobal false).
Proof. intros Hg Hh. simpl. unfold do_set_global. rewrite Hh, Hg. reflexivity. Qed.

(** * `Dispatch::from_static` collectors.  A static collector's registrar (`Kind::Global`) always upgrades: it is a
    collector that never loses its last strong reference.  In the model that is a collector whose handle is never
    dropped (the correspondence creates them with `Dispatch::from_static` on zero-sized statics and never drops them):
    in every history that does not drop c's handle, c stays live — listed, asked at every first hit and rebuild. *)
Lemma get_default_handle fx s t s' d : get_default fx s t = (s', d) -> handle s' = handle s.
Proof. intro H. apply get_default_post in H. destruct H as [_ [->|[-> _]]]; reflexivity. Qed.
Lemma guard_handle fx sm conf s t cs s1 con ok : guard fx sm conf s t cs = (s1, con, ok) -> handle s1 = handle s.
Proof.
  intro H. apply guard_shape in H. destruct H as [[_ (_ & G & _)]|[s0 [d ((_ & G & _) & Hg & _)]]]; [exact G|].
  rewrite (get_default_handle _ _ _ _ _ Hg). exact G.
Qed.
Lemma step_handle fx sm conf s o c :
  (forall c', o = DropHandle c' -> c' <> c) -> handle s c = true -> handle (fst (step fx sm conf s o)) c = true.
Proof.
  intros Hd Hc. destruct o as [|c0|t d|t k|t c0|t cs|t cs|t|t| |c0]; cbn [step fst].
  - match goal with |- handle (rebuild conf ?s1) c = true => pose proof (rebuild_fields conf s1) as (_ & F2 & _) end.
    rewrite F2. simpl. unfold upd. destruct (c =? next s); [reflexivity | exact Hc].
  - destruct (handle s c0); [|exact Hc]. simpl. unfold upd. destruct (c =? c0) eqn:E; [|exact Hc].
    apply N.eqb_eq in E. subst c0. exfalso. apply (Hd c eq_refl). reflexivity.
  - unfold do_open. destruct (valid_disp s d); exact Hc.
  - unfold do_close. destruct (remove_nth k (guards (tls s t))) as [[p gs]|]; exact Hc.
  - unfold do_set_global. destruct (handle s c0); [|exact Hc]. destruct (global s); exact Hc.
  - unfold do_emit. destruct (guard fx sm conf s t cs) as [[s1 con] ok] eqn:Eg.
    pose proof (guard_handle _ _ _ _ _ _ _ _ _ Eg) as G1.
    destruct ok; [|simpl; rewrite G1; exact Hc]. destruct (get_default fx s1 t) as [s2 d] eqn:Ed. simpl.
    rewrite (get_default_handle _ _ _ _ _ Ed), G1. exact Hc.
  - unfold do_probe. destruct (guard fx sm conf s t cs) as [[s1 con] ok] eqn:Eg.
    pose proof (guard_handle _ _ _ _ _ _ _ _ _ Eg) as G1.
    destruct ok; [|simpl; rewrite G1; exact Hc]. destruct (get_default fx s1 t) as [s2 d] eqn:Ed. simpl.
    rewrite (get_default_handle _ _ _ _ _ Ed), G1. exact Hc.
  - destruct (get_default fx s t) as [s2 d] eqn:Ed. simpl. rewrite (get_default_handle _ _ _ _ _ Ed). exact Hc.
  - destruct (slow fx s t) as [s2 d] eqn:Ed. simpl. apply slow_post in Ed. destruct Ed as [_ [->|[-> _]]]; exact Hc.
  - pose proof (rebuild_fields conf s) as (_ & F2 & _). rewrite F2. exact Hc.
  - destruct (c0 <? next s); exact Hc.
Qed.
Theorem static_collector_stays_live fx sm conf h : forall s c,
  (forall c', In (DropHandle c') h -> c' <> c) -> handle s c = true ->
  handle (final fx sm conf s h) c = true /\ live (final fx sm conf s h) c = true.
Proof.
  induction h as [|o h IH]; intros s c Hd Hc; simpl.
  - split; [exact Hc|]. unfold live. rewrite Hc. reflexivity.
  - apply IH.
    + intros c' Hin. apply Hd. right. exact Hin.
    + apply step_handle; [|exact Hc]. intros c' ->. apply Hd. left. reflexivity.
Qed.
