(** Dispatch/Source.v — Dispatch/Model.v instantiated with what translators/dispatch_shape.py read off the Rust
    source on THIS run (coq/gen/Gen_dispatch.v).  No proofs in this file.

    [src_fx] is the model's dispatch.rs variant as the source has it: [true] when get_default_slow, Entered::current,
    State::set_default and Drop for DefaultGuard all have the repaired shape (the thread-local is never populated
    from the global default), [false] when all four have the shape from before fix aa353f7 (finding F1) — and also
    [false] for any mixture or unrecognised shape, for which Properties/C02.v then proves nothing (its headline is
    false for [false], see C02_unrepaired_variant_refuted; the pinned [C02_source_*] theorems fail as well).
    Properties/C02.v states its headline about [run src_fx …]; the correspondence evaluates [src_run_case]. *)
From Coq Require Import NArith List String.
From TV Require Import Dispatch.Model Dispatch.Shape Dispatch.Reentry.
From TVGen Require Import Gen_dispatch.
Import ListNotations.
Local Open Scope N_scope.

Definition src_fx : bool := fx_or_unfixed gen_dispatch.
(** Is `can_enter` set back when a collector callback unwinds?  (get_default_slow's guard as read; Dispatch/Reentry.v) *)
Definition src_unwind_resets : bool := unwind_resets_of_shape gen_dispatch.
(** Is a scope opened while the thread-local is already destroyed counted in SCOPED_COUNT?  (State::set_default as read) *)
Definition src_dead_counts : bool := dead_counts_of_shape gen_dispatch.
Definition src_xrun_case (smax : N) (fs : list fspec) (h : list xop) : list (list N) :=
  xrun_case src_fx src_unwind_resets src_dead_counts smax fs h.
Definition src_run_case (smax : N) (fs : list fspec) (h : list op) : list (list N) := run_case src_fx smax fs h.
(** The facts the drivers print next to the tie (evaluated by vm_compute on every run). *)
Definition src_summary : list N :=
  [ enc_bool src_fx;
    enc_bool (dispatch_shape_ok gen_dispatch);
    enc_bool (guard_shape_ok gen_guard);
    N.of_nat (List.length gen_dispatch_unrecognised);
    N.of_nat (List.length gen_guard_unrecognised) ].
(** STATIC_MAX_LEVEL of a build (with / without debug assertions) with exactly the given tracing features on, from level_filters.rs as read. *)
Definition src_static_max_of (release : bool) (features : list string) : N :=
  static_max_of (g_static_max gen_guard) (g_static_release_falls_through gen_guard) (g_static_last_wins gen_guard) release (fun f => existsb (String.eqb f) features).
Definition src_static_max (features : list string) : N := src_static_max_of false features.
