(** The verdict of every emission, under every schedule.

    [emit_ok]: an emission that started with collector c current is delivered to c or to nobody, and that verdict
    is the verdict of ONE value f of c's cell among those in play while it was judged (delivered iff f accepts the
    callsite); if no reload overlapped the emission, f is the cell's value.  An emission that started with no
    current collector is delivered to nobody, or to a global default installed while it ran: after that
    collector's own [enabled] accepted it, or (finding F41) on the strength of a cached `always`. *)
From Coq Require Import List Arith Bool Lia.
From TV Require Import Dispatch.Sched_Model Dispatch.Sched_Proofs_Base Dispatch.Sched_Proofs_Lock Dispatch.Sched_Proofs_Live
  Dispatch.Sched_Proofs_Reg Dispatch.Sched_Proofs_Ghost Dispatch.Sched_Proofs_Cache Dispatch.Sched_Proofs_Inv.
Import ListNotations.

(** the property's side condition "self-consistent filters; the hint is a true upper bound" *)
Definition WFworld (W : world) : Prop :=
  (forall f cs, w_interest W f cs = INever -> w_enabled W f cs = false) /\
  (forall f cs, w_interest W f cs = IAlways -> w_enabled W f cs = true) /\
  (forall f cs, w_interest W f cs <> INever -> w_level W cs <= w_hint W f).

Lemma accepts_enabled : forall W, WFworld W -> forall f cs, accepts W f cs = w_enabled W f cs.
Proof.
  intros W [W1 [W2 _]] f cs. unfold accepts. destruct (w_interest W f cs) eqn:E; auto.
  - symmetry. auto.
  - symmetry. auto.
Qed.

Definition verdict (W : world) (f : fid) (cs : csid) (c : cid) : option cid := if accepts W f cs then Some c else None.

Definition emit_ok (W : world) (e : ev) : Prop :=
  match e with
  | EvEmitEnd t cs cur0 quiet vals fend d =>
      match cur0 with
      | Some c => (exists f, In f vals /\ d = verdict W f cs c) /\
                  (quiet = true -> forall f, In f vals -> fend = Some f)
      | None => d = None \/
                exists g, d = Some g /\ ((exists f, In f vals /\ accepts W f cs = true) \/ vals = [])
      end
  | _ => True
  end.

Definition LogOK (W : world) (s : state) : Prop := forall e, In e (st_log s) -> emit_ok W e.

Lemma cur_inst : forall s t c, InvG s -> t < st_n s -> cur s t = Some c -> instP s c /\ live s c = true.
Proof.
  intros s t c IG Ht. unfold cur. destruct (th_scopes (st_thr s t)) as [|c0 sc] eqn:Es.
  - destruct (st_ginit s); try discriminate. intros E. split; [eapply C2; eauto|].
    apply live_iff. auto.
  - intros E. inversion E; subst. split.
    + eapply C3; eauto. rewrite Es. left. reflexivity.
    + apply live_iff. right. right. exists t. split; auto. apply th_holds_iff. left. rewrite Es. left. reflexivity.
Qed.

Record InvE (W : world) (s : state) : Prop := {
  E0 : forall t, t < st_n s -> em_pc (pcof s t) = true ->
         (forall c, eg_cur0 (th_eg (st_thr s t)) = Some c -> cur s t = Some c) /\
         (eg_cur0 (th_eg (st_thr s t)) = None -> th_scopes (st_thr s t) = []);
  E1 : forall t cs b, t < st_n s -> pcof s t = PEmDispatch cs b ->
         (b = false \/ eg_cur0 (th_eg (st_thr s t)) <> None) ->
         exists f, In f (eg_vals (th_eg (st_thr s t))) /\ accepts W f cs = true;
  E2 : forall t cs c, t < st_n s -> pcof s t = PEmEnCall cs c -> cur s t = Some c;
  E3 : forall t cs, t < st_n s -> pcof s t = PEmDispatch cs true -> eg_cur0 (th_eg (st_thr s t)) = None ->
         eg_vals (th_eg (st_thr s t)) = [];
  Q2 : forall t c, t < st_n s -> em_pc (pcof s t) = true -> eg_cur0 (th_eg (st_thr s t)) = Some c ->
         eg_q0 (th_eg (st_thr s t)) = true -> eg_ep0 (th_eg (st_thr s t)) = st_epoch s ->
         forall f, In f (eg_vals (th_eg (st_thr s t))) -> f = st_cell s c;
  ELog : LogOK W s
}.

Lemma InvE_init : forall W progs, InvE W (init progs).
Proof.
  intros. constructor; unfold pcof, LogOK; simpl; intros; try discriminate; try contradiction.
Qed.

(** the current collector of a thread changes only by that thread's own scope operations, or by the one-time
    installation of the global default *)
Lemma cur_stable : forall W s t s' u c, InvG s -> step W s t = Some s' -> u < st_n s ->
  th_scopes (st_thr s' u) = th_scopes (st_thr s u) -> cur s u = Some c -> cur s' u = Some c.
Proof.
  intros W s t s' u c IG H Hu Hsc. unfold cur. rewrite Hsc.
  destruct (th_scopes (st_thr s u)); auto.
  destruct (st_ginit s) eqn:Eg; try discriminate. intros Ed.
  rewrite (step_ginit _ _ _ _ H Eg).
  destruct (step_gdisp_sg _ _ _ _ H) as [E|[c0 E]]; [congruence|].
  destruct (step_frame _ _ _ _ H) as [Hlt0 _].
  assert (pc_sg (pcof s t) = Some c0) by (rewrite E; reflexivity).
  rewrite (S1 _ IG t c0 Hlt0) in Eg; auto. discriminate.
Qed.

Lemma cur_none_scopes : forall s t, cur s t = None -> th_scopes (st_thr s t) = [].
Proof. intros s t. unfold cur. destruct (th_scopes (st_thr s t)); auto; discriminate. Qed.

Lemma step_cell : forall W s t s' c, step W s t = Some s' ->
  st_cell s' c = st_cell s c \/ pc_reloading (pcof s t) = true \/ st_created s c = false.
Proof.
  intros W s t s' c H. unfold pcof. step_inv H; rewrite ?Hpc; cbn [pc_reloading]; auto.
  upd_cases; auto.
Qed.

(** the moving thread's own emission steps leave what [cur] reads alone *)
Lemma step_em_cur : forall W s t s', step W s t = Some s' -> em_pc (pcof s t) = true ->
  cur s' t = cur s t /\ st_cell s' = st_cell s /\ st_epoch s' = st_epoch s.
Proof.
  intros W s t s' H. unfold pcof, cur. step_inv H; rewrite ?Hpc; cbn [em_pc]; intros E; try discriminate E; auto.
Qed.

(** popping the next operation off the program changes nothing that the rest of the step reads *)
Lemma mid_inflight : forall s t l, reload_inflight (set_thr (upd (st_thr s) t (set_prog l (st_thr s t))) s) = reload_inflight s.
Proof.
  intros. unfold reload_inflight, any_thread. cbn. apply existsb_ext'. intros x. rewrite upd_eq.
  destruct (Nat.eqb_spec x t); subst; reflexivity.
Qed.
Lemma mid_cur : forall s t l, cur (set_thr (upd (st_thr s) t (set_prog l (st_thr s t))) s) t = cur s t.
Proof. intros. unfold cur. cbn. rewrite upd_same. reflexivity. Qed.
Lemma mid_vals : forall s t l o, vals_now (set_thr (upd (st_thr s) t (set_prog l (st_thr s t))) s) o = vals_now s o.
Proof. intros. destruct o; reflexivity. Qed.

Section Emit.
  Variable W : world.
  Hypothesis WF : WFworld W.

  Lemma E0_step : forall s t s', InvG s -> InvE W s -> step W s t = Some s' ->
    forall u, u < st_n s' -> em_pc (pcof s' u) = true ->
      (forall c, eg_cur0 (th_eg (st_thr s' u)) = Some c -> cur s' u = Some c) /\
      (eg_cur0 (th_eg (st_thr s' u)) = None -> th_scopes (st_thr s' u) = []).
  Proof.
    intros s t s' IG IE H u. frame H. rewrite Hn. intros Hu He.
    destruct (Nat.eq_dec u t) as [->|Hne].
    - destruct (step_eg_em _ _ _ _ H He) as [[He' [_ [_ [Ec [Es _]]]]]|[_ [_ [_ [_ [Ec Es]]]]]].
      + destruct (E0 _ _ IE t Hlt0 He') as [A B]. rewrite Ec, Es. split; auto.
        intros c E. eapply cur_stable; eauto.
      + rewrite Ec, Es. split.
        * intros c E. eapply cur_stable; eauto.
        * apply cur_none_scopes.
    - rewrite Hpo in He by auto. rewrite Hoth by auto. destruct (E0 _ _ IE u Hu He) as [A B]. split; auto.
      intros c E. eapply cur_stable; eauto. rewrite Hoth; auto.
  Qed.

  Lemma E2_step : forall s t s', InvG s -> InvE W s -> step W s t = Some s' ->
    forall u cs c, u < st_n s' -> pcof s' u = PEmEnCall cs c -> cur s' u = Some c.
  Proof.
    intros s t s' IG IE H u cs c. frame H. rewrite Hn. intros Hu.
    destruct (Nat.eq_dec u t) as [->|Hne].
    - pose proof (E2 _ _ IE t) as e2. revert e2. clear Hpo IE IG. unfold pcof, cur.
      step_inv H; rewrite ?Hpc; intros e2 E; try discriminate E; inversion E; subst; clear E; rewrite ?upd_same; auto.
    - rewrite Hpo by auto. intros E. eapply cur_stable; eauto. rewrite Hoth; auto. eapply E2; eauto.
  Qed.

  Lemma E1_step : forall s t s', InvG s -> InvM W s -> InvE W s -> step W s t = Some s' ->
    forall u cs b, u < st_n s' -> pcof s' u = PEmDispatch cs b ->
      (b = false \/ eg_cur0 (th_eg (st_thr s' u)) <> None) ->
      exists f, In f (eg_vals (th_eg (st_thr s' u))) /\ accepts W f cs = true.
  Proof.
    intros s t s' IG IM IE H u cs b. frame H. rewrite Hn. intros Hu.
    destruct (Nat.eq_dec u t) as [->|Hne].
    - pose proof (E0 _ _ IE t Hlt0) as e0. pose proof (M3 _ _ IM) as m3. pose proof (cur_inst s t) as ci.
      specialize (fun c => ci c IG Hlt0).
      revert e0 m3 ci. clear Hpo IE IG IM. unfold pcof.
      step_inv H; rewrite ?Hpc; cbn [em_pc]; intros e0 m3 ci E; try discriminate E; inversion E; subst; clear E.
      all: try solve [ intros _; match goal with Hen : w_enabled W ?f0 _ = true |- _ => exists f0 end;
                       split; [left; reflexivity | rewrite accepts_enabled; assumption] ].
      all: intros [Hf|Hnn]; [discriminate|]; unfold vals_now;
           destruct (eg_cur0 (th_eg (st_thr s t))) as [c|] eqn:Ec; [|congruence];
           destruct (e0 eq_refl) as [A _]; specialize (A c eq_refl); destruct (ci c A) as [Hi Hl];
           match goal with Hca : st_cache _ _ = Some IAlways |- _ => destruct (m3 _ _ c Hca Hi Hl) as [[B _] _] end;
           destruct (B eq_refl) as [f [Hf Hint]]; exists f; split; [exact Hf | unfold accepts; rewrite Hint; reflexivity].
    - rewrite Hpo by auto. rewrite Hoth by auto. intros E. eapply E1; eauto.
  Qed.

  Lemma E3_step : forall s t s', InvE W s -> step W s t = Some s' ->
    forall u cs, u < st_n s' -> pcof s' u = PEmDispatch cs true -> eg_cur0 (th_eg (st_thr s' u)) = None ->
      eg_vals (th_eg (st_thr s' u)) = [].
  Proof.
    intros s t s' IE H u cs. frame H. rewrite Hn. intros Hu.
    destruct (Nat.eq_dec u t) as [->|Hne].
    - clear Hpo IE. unfold pcof.
      step_inv H; rewrite ?Hpc; intros E; try discriminate E; inversion E; subst; clear E.
      all: intros Ec; rewrite Ec; reflexivity.
    - rewrite Hpo by auto. rewrite Hoth by auto. intros E. eapply E3; eauto.
  Qed.

  Lemma Q2_step : forall s t s', InvG s -> InvE W s -> step W s t = Some s' ->
    forall u c, u < st_n s' -> em_pc (pcof s' u) = true -> eg_cur0 (th_eg (st_thr s' u)) = Some c ->
      eg_q0 (th_eg (st_thr s' u)) = true -> eg_ep0 (th_eg (st_thr s' u)) = st_epoch s' ->
      forall f, In f (eg_vals (th_eg (st_thr s' u))) -> f = st_cell s' c.
  Proof.
    intros s t s' IG IE H u c. frame H. rewrite Hn. intros Hu.
    destruct (Nat.eq_dec u t) as [->|Hne].
    - pose proof (Q1 _ IG t Hlt0) as q1. pose proof (Q2 _ _ IE t) as q2. pose proof (E0 _ _ IE t Hlt0) as e0.
      pose proof (E2 _ _ IE t) as e2. pose proof (quiet_inplay s IG) as qi.
      revert q1 q2 e0 e2. clear Hpo IE IG. unfold pcof.
      step_inv H; rewrite ?Hpc; cbn [em_pc]; intros q1 q2 e0 e2 E; try discriminate E;
        rewrite ?mid_cur, ?mid_inflight, ?mid_vals; intros Ec Hq Hep f Hf.
      all: try solve [eapply q2; eauto].
      all: try solve [ rewrite Ec in Hf; unfold vals_now in Hf; rewrite qi in Hf;
                       [destruct Hf as [<-|[]]; reflexivity | first [apply negb_true_iff; exact Hq | apply q1; auto]] ].
      (* the collector's own enabled() *)
      destruct Hf as [<-|[]]. destruct (e0 eq_refl) as [A _]. specialize (A _ Ec). rewrite (e2 _ _ Hlt0 eq_refl) in A.
      inversion A; subst; reflexivity.
    - rewrite Hpo by auto. rewrite Hoth by auto. intros He Ec Hq Hep f Hf.
      pose proof (Q0 _ IG u Hu He) as Hle.
      destruct (step_epoch _ _ _ _ H) as [Ee|Ee]; [|lia]. rewrite Ee in Hep.
      pose proof (Q1 _ IG u Hu He Hq Hep) as Hinf.
      rewrite (Q2 _ _ IE u c Hu He Ec Hq Hep f Hf).
      destruct (step_cell _ _ _ _ c H) as [E|[E|E]]; auto.
      + unfold reload_inflight in Hinf. rewrite any_thread_false in Hinf. unfold pcof in E. rewrite Hinf in E; auto. discriminate.
      + destruct (E0 _ _ IE u Hu He) as [A _]. destruct (cur_inst s u c IG Hu (A c Ec)) as [[Hc _] _]. congruence.
  Qed.

  Lemma never_rejects : forall f cs, w_interest W f cs = INever -> accepts W f cs = false.
  Proof. intros f cs E. unfold accepts. rewrite E. reflexivity. Qed.

  Lemma low_hint_rejects : forall f cs m, w_hint W f <= m -> (w_level W cs <=? m) = false -> accepts W f cs = false.
  Proof.
    intros f cs m Hh Hl. apply never_rejects. destruct WF as [_ [_ W3]].
    destruct (w_interest W f cs) eqn:E; auto; exfalso.
    - apply Nat.leb_gt in Hl. assert (w_level W cs <= w_hint W f) by (apply W3; congruence). lia.
    - apply Nat.leb_gt in Hl. assert (w_level W cs <= w_hint W f) by (apply W3; congruence). lia.
  Qed.

  Lemma ELog_step : forall s t s', InvG s -> InvM W s -> InvE W s -> step W s t = Some s' -> LogOK W s'.
  Proof.
    intros s t s' IG IM IE H e Hin. frame H.
    pose proof (E0 _ _ IE t Hlt0) as e0. pose proof (E1 _ _ IE t) as e1. pose proof (E2 _ _ IE t) as e2.
    pose proof (E3 _ _ IE t) as e3. pose proof (Q1 _ IG t Hlt0) as q1. pose proof (Q2 _ _ IE t) as q2.
    pose proof (M3 _ _ IM) as m3. pose proof (M5 _ _ IM) as m5. pose proof (fun c => cur_inst s t c IG Hlt0) as ci.
    pose proof (quiet_inplay s IG) as qi. pose proof (ELog _ _ IE) as el.
    revert Hin e0 e1 e2 e3 q1 q2. clear Hpo IE IG IM. unfold pcof, LogOK in *.
    step_inv H; rewrite ?Hpc; cbn [em_pc]; rewrite ?mid_cur, ?mid_inflight, ?mid_vals; intros Hin e0 e1 e2 e3 q1 q2.
    all: simpl in Hin; repeat match goal with Hin : _ \/ _ |- _ => destruct Hin as [Hin|Hin] end; try (apply el; exact Hin);
         subst e; try exact I; unfold emit_ok.
    all: try match goal with |- context[eg_cur0 ?g] => destruct (eg_cur0 g) as [c'|] eqn:Ec end.
    all: try match goal with |- match cur ?s0 ?t0 with _ => _ end => destruct (cur s0 t0) as [c'|] eqn:Ec end.
    all: try solve [left; reflexivity].
    all: try (destruct (e0 eq_refl) as [A0 _]; specialize (A0 _ eq_refl)).
    all: try solve [congruence].
    - (* level above the max level *)
      destruct (ci _ eq_refl) as [Hi Hl]. destruct (m5 _ Hi Hl) as [f [Hf Hh]]. split.
      + exists f. split; auto. unfold verdict. erewrite low_hint_rejects; eauto.
      + intros Hq. apply andb_true_iff in Hq. destruct Hq as [Hq _]. apply negb_true_iff in Hq.
        unfold vals_now. rewrite qi by auto. intros f0 [<-|[]]. reflexivity.
    - (* cached never *)
      destruct (ci _ A0) as [Hi Hl].
      match goal with Hca : st_cache _ _ = Some INever |- _ => destruct (m3 _ _ _ Hca Hi Hl) as [[_ B] _] end.
      destruct (B eq_refl) as [f [Hf Hint]]. split.
      + exists f. split; auto. unfold verdict. rewrite never_rejects; auto.
      + intros Hq. apply andb_true_iff in Hq. destruct Hq as [Hq Hep]. apply Nat.eqb_eq in Hep.
        unfold vals_now. rewrite qi by (apply q1; auto). intros f0 [<-|[]]. reflexivity.
    - destruct (ci _ A0) as [Hi Hl].
      match goal with Hca : st_cache _ _ = Some INever |- _ => destruct (m3 _ _ _ Hca Hi Hl) as [[_ B] _] end.
      destruct (B eq_refl) as [f [Hf Hint]]. split.
      + exists f. split; auto. unfold verdict. rewrite never_rejects; auto.
      + intros Hq. apply andb_true_iff in Hq. destruct Hq as [Hq Hep]. apply Nat.eqb_eq in Hep.
        unfold vals_now. rewrite qi by (apply q1; auto). intros f0 [<-|[]]. reflexivity.
    - (* the collector's own enabled() said no *)
      rewrite (e2 _ _ Hlt0 eq_refl) in A0. inversion A0; subst. split.
      + eexists. split; [left; reflexivity|]. unfold verdict. rewrite accepts_enabled by exact WF.
        match goal with Hen : w_enabled _ _ _ = false |- _ => rewrite Hen end. reflexivity.
      + intros _ f0 [<-|[]]. reflexivity.
    - (* delivery *)
      rewrite A0. split.
      + destruct (e1 _ _ Hlt0 eq_refl) as [f [Hf Ha]]; [right; congruence|].
        exists f. split; auto. unfold verdict. rewrite Ha. reflexivity.
      + intros Hq. apply andb_true_iff in Hq. destruct Hq as [Hq Hep]. apply Nat.eqb_eq in Hep.
        intros f0 Hf0. simpl. f_equal. symmetry. eapply q2; eauto.
    - destruct (cur s t) as [g|]; [right|left; reflexivity]. exists g. split; auto.
      match goal with Hp : th_pc _ = PEmDispatch _ ?b |- _ => destruct b end.
      + right. eapply e3; eauto.
      + left. apply (e1 _ _ Hlt0 eq_refl). left. reflexivity.
  Qed.

  Theorem InvE_step : forall s t s', InvG s -> InvM W s -> InvE W s -> step W s t = Some s' -> InvE W s'.
  Proof.
    intros s t s' IG IM IE H. constructor.
    - eapply E0_step; eauto.
    - eapply E1_step; eauto.
    - eapply E2_step; eauto.
    - eapply E3_step; eauto.
    - eapply Q2_step; eauto.
    - eapply ELog_step; eauto.
  Qed.
End Emit.
