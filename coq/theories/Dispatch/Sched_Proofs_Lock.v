(** Lock discipline of the DISPATCHERS RwLock in the model: the writer / reader sets of the lock coincide with the
    threads whose program point lies inside a writer / reader section; writers exclude readers. *)
From Coq Require Import List Arith Bool Lia.
From TV Require Import Dispatch.Sched_Model Dispatch.Sched_Proofs_Base.
Import ListNotations.

Definition in_wsec (p : pc) : bool :=
  match p with
  | PWrRetUp _ _ _ _ | PWrRetCall _ _ _ _ _ | PWrAskUp _ _ _ _ _ _ | PWrAskCall _ _ _ _ _ _ _
  | PWrNext _ _ _ | PWrSetMax _ _ | PWrUnlock _ => true
  | _ => false
  end.
Definition in_rsec (p : pc) : bool :=
  match p with
  | PRgUp _ _ _ | PRgCall _ _ _ _ | PRgPushHead _ | PRgPushCas _ _ | PRgRUnlock _ => true
  | _ => false
  end.

Record InvL (s : state) : Prop := {
  L1 : forall w, st_writer s = Some w -> w < st_n s /\ in_wsec (pcof s w) = true;
  L2 : forall t, t < st_n s -> in_wsec (pcof s t) = true -> st_writer s = Some t;
  L3 : forall t, In t (st_readers s) -> t < st_n s /\ in_rsec (pcof s t) = true;
  L4 : forall t, t < st_n s -> in_rsec (pcof s t) = true -> In t (st_readers s);
  L5 : st_writer s <> None -> st_readers s = []
}.

Lemma InvL_init : forall progs, InvL (init progs).
Proof.
  intros. constructor; simpl; intros; try discriminate; try contradiction; auto.
Qed.

(** what a step does to the lock and to the moving thread's membership in the two sections *)
Inductive lock_eff (s : state) (t : tid) (s' : state) : Prop :=
| LE_none : st_writer s' = st_writer s -> st_readers s' = st_readers s ->
            in_wsec (pcof s' t) = in_wsec (pcof s t) -> in_rsec (pcof s' t) = in_rsec (pcof s t) -> lock_eff s t s'
| LE_rlock : st_writer s = None -> st_writer s' = None -> st_readers s' = t :: st_readers s ->
             in_wsec (pcof s t) = false -> in_rsec (pcof s t) = false ->
             in_wsec (pcof s' t) = false -> in_rsec (pcof s' t) = true -> lock_eff s t s'
| LE_runlock : st_writer s' = st_writer s -> st_readers s' = remove Nat.eq_dec t (st_readers s) ->
             in_wsec (pcof s t) = false -> in_wsec (pcof s' t) = false -> in_rsec (pcof s' t) = false -> lock_eff s t s'
| LE_wlock : st_writer s = None -> st_readers s = [] -> st_writer s' = Some t -> st_readers s' = [] ->
             in_rsec (pcof s t) = false -> in_rsec (pcof s' t) = false -> in_wsec (pcof s' t) = true -> lock_eff s t s'
| LE_wunlock : st_writer s' = None -> st_readers s' = st_readers s -> in_wsec (pcof s t) = true ->
             in_rsec (pcof s t) = false -> in_rsec (pcof s' t) = false -> in_wsec (pcof s' t) = false -> lock_eff s t s'.

Lemma step_lock_eff : forall W s t s', step W s t = Some s' -> lock_eff s t s'.
Proof.
  intros W s t s' H. step_inv H.
  all: unfold pcof.
  all: first
    [ apply LE_none; unfold pcof; self; try rewrite Hpc; reflexivity
    | apply LE_rlock; unfold pcof; self; try rewrite Hpc; solve [reflexivity | assumption]
    | apply LE_runlock; unfold pcof; self; try rewrite Hpc; reflexivity
    | apply LE_wlock; unfold pcof; self; try rewrite Hpc; solve [reflexivity | assumption]
    | apply LE_wunlock; unfold pcof; self; try rewrite Hpc; reflexivity ].
Qed.

Lemma InvL_step : forall W s t s', InvL s -> step W s t = Some s' -> InvL s'.
Proof.
  intros W s t s' [l1 l2 l3 l4 l5] H.
  destruct (step_frame _ _ _ _ H) as [Hlt [Hn Hoth]].
  assert (Hpo : forall t', t' <> t -> pcof s' t' = pcof s t') by (intros; unfold pcof; rewrite Hoth; auto).
  destruct (step_lock_eff _ _ _ _ H) as [Ew Er Pw Pr | Ew Ew' Er Pw Pr Pw' Pr' | Ew Er Pw Pw' Pr' | Ew Er Ew' Er' Pr Pr' Pw' | Ew' Er' Pw Pr Pr' Pw'];
    constructor; rewrite ?Hn, ?Ew', ?Er'; try rewrite Ew; try rewrite Er.
  (* none *)
  - intros w Hw. destruct (l1 w Hw). split; auto. destruct (Nat.eq_dec w t); [subst; congruence | rewrite Hpo; auto].
  - intros u Hu Hs. destruct (Nat.eq_dec u t); [subst; apply l2; congruence | rewrite Hpo in Hs; auto].
  - intros u Hu. destruct (l3 u Hu). split; auto. destruct (Nat.eq_dec u t); [subst; congruence | rewrite Hpo; auto].
  - intros u Hu Hs. destruct (Nat.eq_dec u t); [subst; apply l4; congruence | rewrite Hpo in Hs; auto].
  - auto.
  (* rlock *)
  - discriminate.
  - intros u Hu Hs. destruct (Nat.eq_dec u t); [subst; congruence | rewrite Hpo in Hs; auto]. apply l2 in Hs; auto. congruence.
  - intros u [->|Hu]; [split; auto|]. destruct (l3 u Hu). split; auto.
    destruct (Nat.eq_dec u t); [subst; congruence | rewrite Hpo; auto].
  - intros u Hu Hs. destruct (Nat.eq_dec u t); [left; auto | right; rewrite Hpo in Hs; auto].
  - congruence.
  (* runlock *)
  - intros w Hw. destruct (l1 w Hw). split; auto. destruct (Nat.eq_dec w t); [subst; congruence | rewrite Hpo; auto].
  - intros u Hu Hs. destruct (Nat.eq_dec u t); [subst; congruence | rewrite Hpo in Hs; auto].
  - intros u Hu. apply in_remove' in Hu. destruct Hu as [Hu Hne]. destruct (l3 u Hu). split; auto. rewrite Hpo; auto.
  - intros u Hu Hs. destruct (Nat.eq_dec u t); [subst; congruence |]. rewrite Hpo in Hs; auto. apply in_remove'. auto.
  - intros Hw. rewrite (l5 Hw). reflexivity.
  (* wlock *)
  - intros w Hw. inversion Hw; subst. auto.
  - intros u Hu Hs. destruct (Nat.eq_dec u t); [subst; auto |]. rewrite Hpo in Hs; auto. apply l2 in Hs; auto. congruence.
  - intros u [].
  - intros u Hu Hs. destruct (Nat.eq_dec u t); [subst; congruence |]. rewrite Hpo in Hs; auto. apply l4 in Hs; auto. rewrite Er in Hs. auto.
  - auto.
  (* wunlock *)
  - discriminate.
  - intros u Hu Hs. destruct (Nat.eq_dec u t); [subst; congruence |]. rewrite Hpo in Hs; auto.
    (* another thread inside the writer section while t was: impossible *)
    exfalso. apply l2 in Hs; auto. apply l2 in Pw; auto. congruence.
  - intros u Hu. destruct (l3 u Hu). split; auto. destruct (Nat.eq_dec u t); [subst; congruence | rewrite Hpo; auto].
  - intros u Hu Hs. destruct (Nat.eq_dec u t); [subst; congruence | rewrite Hpo in Hs; auto].
  - congruence.
Qed.
