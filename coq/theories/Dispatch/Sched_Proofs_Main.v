(** Dispatch/Sched_Proofs_Main.v — the invariants lifted to every schedule, and the theorems of C04 and C12. *)
From Coq Require Import List Arith Bool Lia.
From TV Require Import Dispatch.Sched_Model Dispatch.Sched_Proofs_Base Dispatch.Sched_Proofs_Lock Dispatch.Sched_Proofs_Live
  Dispatch.Sched_Proofs_Reg Dispatch.Sched_Proofs_Progress Dispatch.Sched_Proofs_Ghost Dispatch.Sched_Proofs_Cache
  Dispatch.Sched_Proofs_Inv Dispatch.Sched_Proofs_Emit.
Import ListNotations.

(** * All invariants, for every schedule *)
Record Inv0 (W : world) (s : state) : Prop := {
  iL : InvL s; iN : InvN s; iR : InvR s; iG : InvG s; iM : InvM W s }.

Lemma Inv0_init : forall W progs, Inv0 W (init progs).
Proof.
  intros. constructor.
  - apply InvL_init. - apply InvN_init. - apply InvR_init. - apply InvG_init. - apply InvM_init.
Qed.
Lemma Inv0_step : forall W s t s', Inv0 W s -> step W s t = Some s' -> Inv0 W s'.
Proof.
  intros W s t s' [il inn ir ig im] H. constructor.
  - eapply InvL_step; eauto.
  - eapply InvN_step; eauto.
  - eapply InvR_step; eauto.
  - eapply InvG_step; eauto.
  - eapply InvM_step; eauto.
Qed.
Theorem Inv0_reachable : forall W progs s, reachable (step W) (init progs) s -> Inv0 W s.
Proof.
  intros W progs s Hr. eapply inv_reachable; eauto using Inv0_init. intros. eapply Inv0_step; eauto.
Qed.

Definition Inv1 (W : world) (s : state) : Prop := Inv0 W s /\ InvE W s.
Theorem Inv1_reachable : forall W, WFworld W -> forall progs s, reachable (step W) (init progs) s -> Inv1 W s.
Proof.
  intros W WF progs s Hr. eapply (inv_reachable _ _ (Inv1 W)); eauto.
  - split; [apply Inv0_init | apply InvE_init].
  - intros x t x' [I0 IE] St. split; [eapply Inv0_step; eauto|].
    destruct I0. eapply InvE_step; eauto.
Qed.

(** * C04 *)

(** no reachable state with an unfinished thread is stuck *)
Theorem no_deadlock : forall W progs s, reachable (step W) (init progs) s -> unfinished s -> exists t, step W s t <> None.
Proof. intros W progs s Hr Hu. destruct (Inv0_reachable _ _ _ Hr). eapply no_deadlock_inv; eauto. Qed.

(** the list CAS: a success pushes onto exactly the list that was loaded; a failure means another registration was
    pushed since the load, and the retry works on the current, strictly longer list *)
Theorem push_progress : forall W progs s t s' cs l0, reachable (step W) (init progs) s ->
  pcof s t = PRgPushCas cs l0 -> step W s t = Some s' ->
  (st_list s = l0 /\ st_list s' = cs :: l0 /\ pcof s' t = PRgRUnlock cs) \/
  (length l0 < length (st_list s) /\ st_list s' = st_list s /\ pcof s' t = PRgPushCas cs (st_list s)).
Proof. intros W progs s t s' cs l0 Hr. destruct (Inv0_reachable _ _ _ Hr). eapply push_progress_step; eauto. Qed.

(** the assertion in [push] never fires and no registration is ever linked twice *)
Theorem never_corrupt : forall W progs s, reachable (step W) (init progs) s ->
  NoDup (st_list s) /\ forall t cs, ~ In (EvCorrupt t cs) (st_log s).
Proof. intros W progs s Hr. destruct (Inv0_reachable _ _ _ Hr) as [_ _ ir _ _]. split; [apply (R3 _ ir) | apply (R6 _ ir)]. Qed.

(** finding F41: the emission began with no current collector and was delivered on the strength of a cached
    `always`, nobody's filter having been asked *)
Definition F41_class (cur0 : option cid) (vals : list fid) : Prop := cur0 = None /\ vals = [].

Theorem emit_verdict : forall W, WFworld W -> forall progs s, reachable (step W) (init progs) s ->
  forall e, In e (st_log s) -> emit_ok W e.
Proof. intros W WF progs s Hr. destruct (Inv1_reachable _ WF _ _ Hr) as [_ IE]. apply (ELog _ _ IE). Qed.

Theorem safety_during_race : forall W, WFworld W -> forall progs s, reachable (step W) (init progs) s ->
  forall t cs cur0 q vals fend d, In (EvEmitEnd t cs cur0 q vals fend (Some d)) (st_log s) -> ~ F41_class cur0 vals ->
  (cur0 = Some d \/ cur0 = None) /\ exists f, In f vals /\ accepts W f cs = true.
Proof.
  intros W WF progs s Hr t cs cur0 q vals fend d Hin Hn.
  pose proof (emit_verdict _ WF _ _ Hr _ Hin) as Ho. unfold emit_ok in Ho.
  destruct cur0 as [c|].
  - destruct Ho as [[f [Hf Hd]] _]. unfold verdict in Hd. destruct (accepts W f cs) eqn:Ea; inversion Hd; subst. eauto.
  - destruct Ho as [Ho|[g [Hg [Ho|Ho]]]]; try discriminate; eauto. exfalso. apply Hn. split; auto.
Qed.

(** an emission that starts when collector c is the thread's current collector is judged by c: it goes to c or to
    nobody, and that is the verdict of one value of c's filter cell *)
Theorem after_install : forall W, WFworld W -> forall progs s, reachable (step W) (init progs) s ->
  forall t cs c q vals fend d, In (EvEmitEnd t cs (Some c) q vals fend d) (st_log s) ->
  exists f, In f vals /\ d = verdict W f cs c.
Proof.
  intros W WF progs s Hr t cs c q vals fend d Hin.
  destruct (emit_verdict _ WF _ _ Hr _ Hin) as [Ho _]. exact Ho.
Qed.

(** ... and when no reload overlaps the emission, of THE value of c's cell: delivered iff c's filter accepts *)
Theorem quiet_exact : forall W, WFworld W -> forall progs s, reachable (step W) (init progs) s ->
  forall t cs c vals fend d, In (EvEmitEnd t cs (Some c) true vals fend d) (st_log s) ->
  exists f, fend = Some f /\ d = verdict W f cs c.
Proof.
  intros W WF progs s Hr t cs c vals fend d Hin.
  destruct (emit_verdict _ WF _ _ Hr _ Hin) as [[f [Hf Hd]] Hq]. exists f. split; auto.
Qed.

(** the invariant of C01, at quiescence *)
Record QInv (W : world) (s : state) : Prop := {
  q_never : forall cs c, st_cache s cs = Some INever -> instP s c -> live s c = true -> w_interest W (st_cell s c) cs = INever;
  q_always : forall cs c, st_cache s cs = Some IAlways -> instP s c -> live s c = true -> w_interest W (st_cell s c) cs = IAlways;
  q_max : forall c, instP s c -> live s c = true -> w_hint W (st_cell s c) <= st_max s;
  q_listed : forall c, instP s c -> live s c = true -> In c (st_disps s);
  q_cached : forall cs, In cs (st_list s) -> st_cache s cs <> None;
  q_registered : forall cs, st_reg s cs = Registered -> In cs (st_list s);
  q_offered : forall cs c, In cs (st_list s) -> instP s c -> live s c = true -> asked s c cs
}.

Lemma QInv_fields : forall W s, QInv W s ->
  (forall cs c, st_cache s cs = Some INever -> instP s c -> live s c = true -> w_interest W (st_cell s c) cs = INever) /\
  (forall cs c, st_cache s cs = Some IAlways -> instP s c -> live s c = true -> w_interest W (st_cell s c) cs = IAlways) /\
  (forall c, instP s c -> live s c = true -> w_hint W (st_cell s c) <= st_max s) /\
  (forall c, instP s c -> live s c = true -> In c (st_disps s)) /\
  (forall cs, In cs (st_list s) -> st_cache s cs <> None) /\
  (forall cs, st_reg s cs = Registered -> In cs (st_list s)) /\
  (forall cs c, In cs (st_list s) -> instP s c -> live s c = true -> exists t, In (EvAsk t c cs) (st_log s)).
Proof. intros W s [a b c d e f g]. repeat split; auto. Qed.

Lemma finished_idle : forall s t, finished s = true -> t < st_n s -> pcof s t = PIdle.
Proof.
  intros s t Hf Ht. unfold finished in Hf. rewrite forallb_forall in Hf.
  specialize (Hf t). unfold th_done, pcof in *. destruct (th_pc (st_thr s t)); auto; try (rewrite Hf; [discriminate|apply in_seq; lia]);
  exfalso; assert (E : false = true) by (apply Hf; apply in_seq; lia); discriminate.
Qed.
Lemma finished_quiet : forall s, finished s = true -> reload_inflight s = false.
Proof.
  intros s Hf. unfold reload_inflight. apply any_thread_false. intros t Ht.
  pose proof (finished_idle _ _ Hf Ht) as E. unfold pcof in E. rewrite E. reflexivity.
Qed.

Lemma offered_inv : forall W s, Inv0 W s -> forall cs c, In cs (st_list s) -> instP s c -> live s c = true -> asked s c cs.
Proof.
  intros W s [_ _ ir _ im] cs c Hin Hi Hl.
  destruct (st_cache s cs) as [i|] eqn:E; [|exfalso; eapply (R8 _ ir); eauto].
  eapply (M3 _ _ im); eauto.
Qed.

Lemma quiet_QInv : forall W s, Inv0 W s -> reload_inflight s = false -> QInv W s.
Proof.
  intros W s I0 Hq. pose proof I0 as [il inn ir ig im].
  pose proof (quiet_inplay s ig Hq) as qi.
  constructor.
  - intros cs c Hc Hi Hl. destruct (M3 _ _ im cs _ c Hc Hi Hl) as [[_ B] _].
    destruct (B eq_refl) as [f [Hf E]]. rewrite qi in Hf. destruct Hf as [<-|[]]. exact E.
  - intros cs c Hc Hi Hl. destruct (M3 _ _ im cs _ c Hc Hi Hl) as [[B _] _].
    destruct (B eq_refl) as [f [Hf E]]. rewrite qi in Hf. destruct Hf as [<-|[]]. exact E.
  - intros c Hi Hl. destruct (M5 _ _ im c Hi Hl) as [f [Hf E]]. rewrite qi in Hf. destruct Hf as [<-|[]]. exact E.
  - intros c [Hc Hn] Hl. apply (M1 _ _ im); auto. intros Hp. apply pending_newing in Hp. congruence.
  - apply (R8 _ ir).
  - apply (R9 _ ir).
  - apply (offered_inv _ _ I0).
Qed.

Theorem quiescent_exact : forall W progs s, reachable (step W) (init progs) s -> finished s = true -> QInv W s.
Proof.
  intros W progs s Hr Hf. apply quiet_QInv; [eapply Inv0_reachable; eauto | apply finished_quiet; auto].
Qed.

(** at quiescence the registration state of every callsite is settled: listed iff REGISTERED *)
Theorem quiescent_registered : forall W progs s, reachable (step W) (init progs) s -> finished s = true ->
  forall cs, In cs (st_list s) <-> st_reg s cs = Registered.
Proof.
  intros W progs s Hr Hf cs. destruct (Inv0_reachable _ _ _ Hr) as [_ _ ir _ _]. split; [|apply (R9 _ ir)].
  intros Hin. destruct (st_reg s cs) eqn:E; auto; exfalso.
  - destruct (R2 _ ir cs E) as [Hn _]. auto.
  - destruct (R12 _ ir cs E) as [t [Ht Hp]]. rewrite (finished_idle _ _ Hf Ht) in Hp. discriminate.
Qed.

(** every registered callsite has been offered to every collector that completed [Dispatch::new] and is live — in
    every reachable state, not only at quiescence *)
Theorem offered : forall W progs s, reachable (step W) (init progs) s ->
  forall cs c, In cs (st_list s) -> instP s c -> live s c = true -> exists t, In (EvAsk t c cs) (st_log s).
Proof. intros W progs s Hr. apply (offered_inv W). eapply Inv0_reachable; eauto. Qed.

(** * C12 *)

(** the max level is never below the hint of a value in play; with no reload in flight, of THE value *)
Theorem max_level_inplay : forall W progs s, reachable (step W) (init progs) s ->
  forall c, instP s c -> live s c = true -> exists f, In f (inplay s c) /\ w_hint W f <= st_max s.
Proof. intros W progs s Hr c Hi Hl. destruct (Inv0_reachable _ _ _ Hr) as [_ _ _ _ im]. apply (M5 _ _ im c Hi Hl). Qed.

Theorem max_level_after : forall W progs s, reachable (step W) (init progs) s -> reload_inflight s = false ->
  forall c, instP s c -> live s c = true -> w_hint W (st_cell s c) <= st_max s.
Proof. intros W progs s Hr Hq. apply (q_max _ _ (quiet_QInv _ _ (Inv0_reachable _ _ _ Hr) Hq)). Qed.

(** what "in play" means: the cell's value, or a value replaced by a reload that has assigned but not yet returned *)
Theorem inplay_sound : forall W progs s, reachable (step W) (init progs) s ->
  forall c f, In f (inplay s c) -> f = st_cell s c \/ exists t, t < st_n s /\ pc_rl_old (pcof s t) = Some (c, f).
Proof.
  intros W progs s Hr c f Hin. destruct (Inv0_reachable _ _ _ Hr) as [_ _ _ ig _].
  unfold inplay in Hin. destruct Hin as [E|Hin]; auto. right.
  apply in_map_iff in Hin. destruct Hin as [[u old] [E Hin]]. simpl in E. subst old.
  apply in_app_or in Hin. destruct Hin as [Hin|Hin].
  - destruct (G1 _ ig c u f Hin) as [Hu Hp]. exists u. split; auto. apply pc_rl_pre_old. exact Hp.
  - destruct (G2 _ ig c u f Hin) as [Hu [Hp _]]. eauto.
Qed.

(** the ghost [eg_vals] of an emission is only ever a snapshot, taken by one of the emission's own steps, of the
    values in play for its collector, or the single value its collector's callback read *)
Theorem vals_snapshot : forall W s t s', step W s t = Some s' ->
  eg_vals (th_eg (st_thr s' t)) = eg_vals (th_eg (st_thr s t)) \/
  eg_vals (th_eg (st_thr s' t)) = vals_now s (eg_cur0 (th_eg (st_thr s' t))) \/
  exists cs c, pcof s t = PEmEnCall cs c /\ eg_vals (th_eg (st_thr s' t)) = [st_cell s c].
Proof.
  intros W s t s' H. unfold pcof. step_inv H; rewrite ?mid_cur, ?mid_vals; rewrite ?Hpc; eauto 6.
Qed.

(** a handle whose cell is gone (the collector is gone and no reload that upgraded the handle earlier is still in flight):
    the reload reports the error and touches nothing *)
Lemma mid_cell_live : forall s t l c, cell_live (set_thr (upd (st_thr s) t (set_prog l (st_thr s t))) s) c = cell_live s c.
Proof.
  intros. unfold cell_live, live, any_thread. cbn. f_equal; [f_equal|]; apply existsb_ext'; intros x; rewrite upd_eq;
    destruct (Nat.eqb_spec x t); subst; auto.
Qed.
Theorem reload_gone : forall W s t c f rest, t < st_n s -> th_pc (st_thr s t) = PIdle ->
  th_prog (st_thr s t) = OReload c f :: rest -> st_created s c = true -> cell_live s c = false ->
  step W s t = Some (emit_log (EvReload t c f false) (upd_thr t (set_prog rest (st_thr s t)) s)).
Proof.
  intros W s t c f rest Ht Hp Hprog Hc Hl. unfold step. apply Nat.ltb_lt in Ht. rewrite Ht. cbn [negb].
  rewrite Hp, Hprog. unfold start_op. cbn [st_created upd_thr set_thr]. rewrite Hc.
  unfold upd_thr. rewrite mid_cell_live, Hl. reflexivity.
Qed.
(** with the collector gone, only a reload already in flight keeps the cell alive *)
Theorem cell_gone : forall s c, live s c = false ->
  cell_live s c = true -> exists t, t < st_n s /\ pc_cell (pcof s t) = Some c.
Proof.
  intros s c Hl Hc. unfold cell_live in Hc. rewrite Hl in Hc. cbn in Hc.
  apply any_thread_true in Hc. destruct Hc as [t [Ht Hp]]. apply oeqb_true in Hp. eauto.
Qed.

(** ... and a collector that is gone stays gone *)
Theorem gone_forever : forall W s t s' c, step W s t = Some s' -> st_created s c = true -> live s c = false -> live s' c = false.
Proof.
  intros W s t s' c H Hc Hl. destruct (live s' c) eqn:E; auto.
  rewrite (live_mono _ _ _ _ _ H Hc E) in Hl. discriminate.
Qed.

(** * What the ghost fields of an [EvEmitEnd] event mean (read off the definition of [step]) *)
Definition new_events (s s' : state) : list ev := firstn (length (st_log s') - length (st_log s)) (st_log s').

(** the event is logged by the emitting thread's last step; [fend] is the value of cur0's cell at that moment;
    if that step is also the emission's first step (the level check failed), cur0 / quiet are the thread's current
    collector / "no reload in flight" right now; otherwise they are what the emission's first step recorded
    ([ghost_start]) and "no reload has started since" *)
Theorem emit_event_ghost : forall W s t s' t' cs cur0 quiet vals fend d, step W s t = Some s' ->
  In (EvEmitEnd t' cs cur0 quiet vals fend d) (new_events s s') ->
  t' = t /\ fend = option_map (st_cell s) cur0 /\
  ((pcof s t = PIdle /\ cur0 = cur s t /\ quiet = negb (reload_inflight s) /\ vals = vals_now s cur0 /\ d = None) \/
   (em_pc (pcof s t) = true /\ cur0 = eg_cur0 (th_eg (st_thr s t)) /\
    quiet = (eg_q0 (th_eg (st_thr s t)) && (eg_ep0 (th_eg (st_thr s t)) =? st_epoch s)))).
Proof.
  intros W s t s' t' cs cur0 quiet vals fend d H. unfold new_events, pcof.
  step_inv H; rewrite ?Hpc; cbn [length]; rewrite ?mid_cur, ?mid_inflight, ?mid_vals;
    repeat match goal with |- context[S ?n - ?n] => replace (S n - n) with 1 by lia
                      | |- context[S (S ?n) - ?n] => replace (S (S n) - n) with 2 by lia
                      | |- context[?n - ?n] => rewrite Nat.sub_diag end;
    cbn [firstn]; intros Hin; simpl in Hin;
    repeat match goal with Hin : _ \/ _ |- _ => destruct Hin as [Hin|Hin] end; try contradiction; try discriminate Hin;
    inversion Hin; subst; clear Hin.
  all: split; [reflexivity|]; split; [reflexivity|].
  all: try solve [left; rewrite Nat.eqb_refl, andb_true_r; auto 6].
  all: right; auto.
Qed.

(** the first step of an emission fixes its ghost *)
Theorem ghost_start : forall W s t s', step W s t = Some s' -> pcof s t = PIdle -> em_pc (pcof s' t) = true ->
  eg_cur0 (th_eg (st_thr s' t)) = cur s t /\ eg_q0 (th_eg (st_thr s' t)) = negb (reload_inflight s) /\
  eg_ep0 (th_eg (st_thr s' t)) = st_epoch s.
Proof.
  intros W s t s' H Hp He. destruct (step_eg_em _ _ _ _ H He) as [[He' _]|[_ [E1 [_ [E2 [E3 _]]]]]]; auto.
  rewrite Hp in He'. discriminate.
Qed.
(** ... which the later steps of the emission keep *)
Theorem ghost_kept : forall W s t s', step W s t = Some s' -> em_pc (pcof s t) = true -> em_pc (pcof s' t) = true ->
  eg_cur0 (th_eg (st_thr s' t)) = eg_cur0 (th_eg (st_thr s t)) /\ eg_q0 (th_eg (st_thr s' t)) = eg_q0 (th_eg (st_thr s t)) /\
  eg_ep0 (th_eg (st_thr s' t)) = eg_ep0 (th_eg (st_thr s t)).
Proof.
  intros W s t s' H Hp He. destruct (step_eg_em _ _ _ _ H He) as [[_ [E1 [E2 [E3 _]]]]|[E _]]; auto.
  rewrite E in Hp. discriminate.
Qed.
(** the epoch counts the reloads started on a live collector: a thread enters a reload exactly when it moves *)
Theorem epoch_counts : forall W s t s', step W s t = Some s' ->
  (st_epoch s' = S (st_epoch s) /\ pc_reloading (pcof s t) = false /\ pc_reloading (pcof s' t) = true) \/
  (st_epoch s' = st_epoch s /\ (pc_reloading (pcof s' t) = true -> pc_reloading (pcof s t) = true)).
Proof.
  intros W s t s' H. unfold pcof. step_inv H; rewrite ?Hpc; cbn [pc_reloading pc_kind]; auto.
Qed.
