(** Dispatch/Proofs_Shape_C02.v — dispatch.rs as read by translators/dispatch_shape.py on this run
    (coq/gen/Gen_dispatch.v) against what Dispatch/Model.v hard-codes: the variant switch [fx], and the three-valued
    [ginit] of the micro-step model of set_global_default.  Fails to compile when fix aa353f7 (finding F1) is reverted,
    or when a shape is no longer recognised. *)
From Coq Require Import NArith List Bool String Lia.
From TV Require Import Dispatch.Model Dispatch.Shape Dispatch.Source.
From TVGen Require Import Gen_dispatch.
Import ListNotations.
Local Open Scope N_scope.

(** * Nothing unrecognised in dispatch.rs; everything the model takes for granted about it is there *)
Lemma source_dispatch_recognised : gen_dispatch_unrecognised = [].
Proof. reflexivity. Qed.
Lemma source_dispatch_ok : dispatch_shape_ok gen_dispatch = true.
Proof. vm_compute. reflexivity. Qed.

(** * dispatch.rs: the variant is the repaired one *)
Lemma source_is_repaired : fx_of_shape gen_dispatch = Some true.
Proof. reflexivity. Qed.
Lemma src_fx_true : src_fx = true.
Proof. reflexivity. Qed.

(** The variant switch is sound in general (not only for this run's reading): whenever the four sites are read
    consistently, [fx_or_unfixed] is the variant they describe. *)
Lemma fx_of_shape_total d b : fx_of_shape d = Some b -> fx_or_unfixed d = b.
Proof. unfold fx_or_unfixed. intros ->. reflexivity. Qed.

(** * set_global_default / get_global: the micro-step model's three-valued [ginit] against the source's numbers.
    For ANY reading that passes [dispatch_shape_ok]: the compare-exchange succeeds exactly from Uninit and moves to
    Initializing; the final store publishes Initialized; get_global hands out GLOBAL_DISPATCH exactly when Initialized;
    and the three numbers are pairwise distinct, so the enumeration is faithful.  These are [sg_step]'s moves. *)
Lemma ginit_moves d :
  dispatch_shape_ok d = true ->
  (forall g, cas_num d (ginit_num d g) = match g with Uninit => Some (ginit_num d Initializing) | _ => None end) /\
  publish_num d = Some (ginit_num d Initialized) /\
  (forall g, global_visible_num d (ginit_num d g) = match g with Initialized => true | _ => false end) /\
  (forall g g', ginit_num d g = ginit_num d g' -> g = g').
Proof.
  unfold dispatch_shape_ok, cas_num, publish_num, global_visible_num, ginit_num, n3_distinct.
  destruct (d_fast d); [|discriminate]. destruct (d_open_incr d); [|discriminate]. destruct (d_close_decr d); [|discriminate].
  destruct (d_consts d) as [[u i] f]. simpl.
  destruct (u =? i) eqn:E1; [discriminate|]. destruct (i =? f) eqn:E2; [discriminate|]. destruct (u =? f) eqn:E3; [discriminate|].
  simpl. destruct (d_set_global d) as [a b c|]; [|discriminate].
  destruct (a =? u) eqn:Ea; [|discriminate]. destruct (b =? i) eqn:Eb; [|discriminate]. destruct (c =? f) eqn:Ec; [|discriminate].
  simpl. destruct (d_get_global_needs d) as [x|]; [|discriminate].
  destruct (x =? f) eqn:Ex; [|discriminate]. intros _.
  apply N.eqb_eq in Ea, Eb, Ec, Ex. subst a b c x.
  apply N.eqb_neq in E1, E2, E3.
  assert (F1 : (i =? u) = false) by (apply N.eqb_neq; congruence).
  assert (F2 : (f =? u) = false) by (apply N.eqb_neq; congruence).
  assert (F3 : (f =? i) = false) by (apply N.eqb_neq; congruence).
  assert (G1 : (u =? f) = false) by (apply N.eqb_neq; congruence).
  assert (G2 : (i =? f) = false) by (apply N.eqb_neq; congruence).
  repeat split.
  - intros []; rewrite ?N.eqb_refl, ?F1, ?F2; reflexivity.
  - intros []; rewrite ?N.eqb_refl, ?G1, ?G2; reflexivity.
  - intros [] []; intro H; try reflexivity; congruence.
Qed.
Lemma source_ginit_moves :
  (forall g, cas_num gen_dispatch (ginit_num gen_dispatch g) = match g with Uninit => Some (ginit_num gen_dispatch Initializing) | _ => None end) /\
  publish_num gen_dispatch = Some (ginit_num gen_dispatch Initialized) /\
  (forall g, global_visible_num gen_dispatch (ginit_num gen_dispatch g) = match g with Initialized => true | _ => false end) /\
  (forall g g', ginit_num gen_dispatch g = ginit_num gen_dispatch g' -> g = g').
Proof. apply ginit_moves. exact source_dispatch_ok. Qed.

