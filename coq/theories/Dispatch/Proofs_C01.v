(** Dispatch/Proofs_C01.v — C01: caches never change what a collector's own filter decides.
    Inductive invariant [Inv] over ALL histories (any ops, any order, any number of threads / collectors /
    callsites, both variants of dispatch.rs, any compile-time cap), then the verdict of every emission. *)
From Coq Require Import NArith List Bool Lia.
From TV Require Import Dispatch.Model.
Import ListNotations.
Local Open Scope N_scope.
Local Arguments N.add : simpl never.
Local Arguments N.sub : simpl never.
Local Arguments N.leb : simpl never.
Local Arguments N.ltb : simpl never.
Local Arguments N.eqb : simpl never.

(** * Small facts *)
Lemma lrank_inj a b : lrank a = lrank b -> a = b.
Proof. destruct a, b; simpl; intro H; try reflexivity; discriminate H. Qed.
Lemma level_eqb_eq a b : level_eqb a b = true <-> a = b.
Proof.
  unfold level_eqb. rewrite N.eqb_eq. split; [apply lrank_inj | intros ->; reflexivity].
Qed.
Lemma kind_eqb_eq a b : kind_eqb a b = true <-> a = b.
Proof. destruct a, b; simpl; split; intro H; try reflexivity; discriminate H. Qed.
Lemma cs_eqb_eq a b : cs_eqb a b = true <-> a = b.
Proof.
  unfold cs_eqb. rewrite !andb_true_iff, !N.eqb_eq, level_eqb_eq, kind_eqb_eq.
  destruct a, b; simpl. split.
  - intros [[[-> ->] ->] ->]. reflexivity.
  - intro H; inversion H; auto.
Qed.
Lemma cs_eqb_refl a : cs_eqb a a = true.
Proof. apply cs_eqb_eq. reflexivity. Qed.

Lemma iand_never a b : iand a b = never -> a = never /\ b = never.
Proof. destruct a, b; simpl; intro H; try discriminate H; auto. Qed.
Lemma iand_always a b : iand a b = always -> a = always /\ b = always.
Proof. destruct a, b; simpl; intro H; try discriminate H; auto. Qed.
Lemma fold_iand_never r : forall i, fold_left iand r i = never -> i = never /\ Forall (fun x => x = never) r.
Proof.
  induction r as [|x r IH]; simpl; intros i H.
  - auto.
  - apply IH in H. destruct H as [H1 H2]. apply iand_never in H1. destruct H1; subst. auto.
Qed.
Lemma fold_iand_always r : forall i, fold_left iand r i = always -> i = always /\ Forall (fun x => x = always) r.
Proof.
  induction r as [|x r IH]; simpl; intros i H.
  - auto.
  - apply IH in H. destruct H as [H1 H2]. apply iand_always in H1. destruct H1; subst. auto.
Qed.

Lemma remove_nth_In {A} k : forall (l : list A) x r, remove_nth k l = Some (x, r) -> In x l /\ (forall y, In y r -> In y l).
Proof.
  induction k as [|k IH]; intros [|a l] x r H; simpl in H; try discriminate H.
  - inversion H; subst. simpl. auto.
  - destruct (remove_nth k l) as [[y r']|] eqn:E; try discriminate H.
    inversion H; subst. apply IH in E. destruct E as [E1 E2]. simpl. split; [auto|].
    intros z [->|Hz]; auto.
Qed.

(** * Liveness as a proposition *)
Definition Live (s : state) (c : N) : Prop :=
  handle s c = true \/ (exists t, In t (tids s) /\ held_by (tls s t) c = true) \/ global s = Some c.
Lemma live_iff s c : live s c = true <-> Live s c.
Proof.
  unfold live, Live. rewrite !orb_true_iff, existsb_exists. split.
  - intros [[H|H]|H]; auto.
    destruct (global s) as [g|]; try discriminate H. apply N.eqb_eq in H. subst. auto.
  - intros [H|[H|H]]; auto. rewrite H. right. apply N.eqb_refl.
Qed.

Lemma live_same s s' c :
  handle s' = handle s -> tids s' = tids s -> tls s' = tls s -> global s' = global s -> live s' c = live s c.
Proof. intros H1 H2 H3 H4. unfold live. rewrite H1, H2, H3, H4. reflexivity. Qed.

Lemma live_set_thread s t st c :
  live (set_thread s t st) c = true -> held_by st c = true \/ live s c = true.
Proof.
  rewrite !live_iff. unfold Live. simpl. intros [H|[[t' [Hin Hh]]|H]].
  - right; auto.
  - unfold upd in Hh. destruct (t' =? t) eqn:E.
    + left; exact Hh.
    + right. right. left. exists t'. split; [|exact Hh].
      destruct Hin as [->|Hin]; [rewrite N.eqb_refl in E; discriminate E | exact Hin].
  - right; auto.
Qed.

Lemma held_by_cases st c :
  held_by st c = true -> tl st = Some (DCol c) \/ In (Some (DCol c)) (guards st).
Proof.
  unfold held_by. rewrite orb_true_iff, existsb_exists. intros [H|[g [Hin H]]].
  - left. destruct (tl st) as [[|c']|]; simpl in H; try discriminate H. apply N.eqb_eq in H. subst; auto.
  - right. destruct g as [[|c']|]; simpl in H; try discriminate H. apply N.eqb_eq in H. subst; auto.
Qed.
Lemma held_by_tl st c : tl st = Some (DCol c) -> held_by st c = true.
Proof. intro H. unfold held_by. rewrite H. simpl. rewrite N.eqb_refl. reflexivity. Qed.
Lemma held_by_guard st c : In (Some (DCol c)) (guards st) -> held_by st c = true.
Proof.
  intro H. unfold held_by. apply orb_true_iff. right. apply existsb_exists.
  exists (Some (DCol c)). split; [exact H|]. simpl. apply N.eqb_refl.
Qed.

Section C01.
  Variable fx : bool.
  Variable static_max : levelfilter.
  Variable conf : N -> collector.

  Notation fold_interest := (fold_interest conf).
  Notation rebuild := (rebuild conf).
  Notation register := (register conf).
  Notation step := (step fx static_max conf).
  Notation get_default := (get_default fx).
  Notation slow := (slow fx).

  (** * What a (re)computed interest says about the live registrars *)
  Lemma fold_interest_never s cs c :
    fold_interest s cs = never -> In c (dispatchers s) -> live s c = true -> c_reg (conf c) cs = never.
  Proof.
    unfold Model.fold_interest, live_interests. intros H Hin Hl.
    assert (Hf : In c (filter (live s) (dispatchers s))) by (apply filter_In; auto).
    destruct (filter (live s) (dispatchers s)) as [|c0 r]; [destruct Hf|].
    simpl in H. apply fold_iand_never in H. destruct H as [H0 Hr].
    destruct Hf as [->|Hf]; [exact H0|].
    rewrite Forall_forall in Hr. apply Hr. apply in_map_iff. exists c. auto.
  Qed.
  Lemma fold_interest_always s cs c :
    fold_interest s cs = always -> In c (dispatchers s) -> live s c = true -> c_reg (conf c) cs = always.
  Proof.
    unfold Model.fold_interest, live_interests. intros H Hin Hl.
    assert (Hf : In c (filter (live s) (dispatchers s))) by (apply filter_In; auto).
    destruct (filter (live s) (dispatchers s)) as [|c0 r]; [destruct Hf|].
    simpl in H. apply fold_iand_always in H. destruct H as [H0 Hr].
    destruct Hf as [->|Hf]; [exact H0|].
    rewrite Forall_forall in Hr. apply Hr. apply in_map_iff. exists c. auto.
  Qed.
  Lemma fold_interest_same s s' cs :
    dispatchers s' = dispatchers s -> (forall c, live s' c = live s c) -> fold_interest s' cs = fold_interest s cs.
  Proof.
    intros Hd Hl. unfold Model.fold_interest, live_interests. rewrite Hd.
    rewrite (filter_ext _ _ Hl). reflexivity.
  Qed.

  Lemma max_hint_ge ds : forall c, In c ds -> frank (hint_or_trace (conf c)) <= frank (max_hint conf ds).
  Proof.
    unfold max_hint.
    assert (G : forall ds m, frank m <= frank (fold_left (fun m c => if frank m <? frank (hint_or_trace (conf c)) then hint_or_trace (conf c) else m) ds m)
                /\ forall c, In c ds -> frank (hint_or_trace (conf c)) <= frank (fold_left (fun m c => if frank m <? frank (hint_or_trace (conf c)) then hint_or_trace (conf c) else m) ds m)).
    { clear ds. induction ds as [|d ds IH]; intro m; simpl.
      - split; [lia | intros c []].
      - destruct (frank m <? frank (hint_or_trace (conf d))) eqn:E.
        + destruct (IH (hint_or_trace (conf d))) as [I1 I2].
          apply N.ltb_lt in E. split; [lia|]. intros c [->|Hc]; [exact I1 | auto].
        + destruct (IH m) as [I1 I2].
          apply N.ltb_ge in E. split; [lia|]. intros c [->|Hc]; [lia | auto]. }
    intros c Hc. apply (G ds None). exact Hc.
  Qed.

  (** * The invariant (I1–I4 of DESIGN §7 C01, plus the bookkeeping fact about [tids]) *)
  Record Inv (s : state) : Prop := {
    inv_cached : forall cs i, cache s cs = Some i -> In cs (callsites s);
    inv_never : forall cs c, cache s cs = Some never -> live s c = true -> c_reg (conf c) cs = never;
    inv_always : forall cs c, cache s cs = Some always -> live s c = true -> c_reg (conf c) cs = always;
    inv_listed : forall c, live s c = true -> In c (dispatchers s);
    inv_max : forall c, live s c = true -> frank (hint_or_trace (conf c)) <= frank (max_level s);
    inv_tids : forall t, tls s t = tinit \/ In t (tids s) }.

  Lemma Inv_init : Inv init.
  Proof.
    split; simpl; intros; try discriminate; auto.
    all: unfold live in *; simpl in *; discriminate.
  Qed.

  (** Anything that leaves the registry alone and does not create liveness keeps the invariant. *)
  Lemma Inv_mono s s' :
    Inv s ->
    cache s' = cache s -> callsites s' = callsites s -> dispatchers s' = dispatchers s -> max_level s' = max_level s ->
    (forall c, live s' c = true -> live s c = true) ->
    (forall t, tls s' t = tinit \/ In t (tids s')) ->
    Inv s'.
  Proof.
    intros I Hc Hcs Hd Hm Hl Ht. split.
    - intros cs i. rewrite Hc, Hcs. apply I.
    - intros cs c. rewrite Hc. intros H1 H2. apply (inv_never s I cs c H1). auto.
    - intros cs c. rewrite Hc. intros H1 H2. apply (inv_always s I cs c H1). auto.
    - intros c H. rewrite Hd. apply I. auto.
    - intros c H. rewrite Hm. apply I. auto.
    - exact Ht.
  Qed.

  (** ** rebuild_interest re-establishes everything from scratch *)
  Lemma fold_set_cache_fields (f : callsite -> interest) l : forall st,
    let st' := fold_left (fun st cs => set_cache st cs (f cs)) l st in
    next st' = next st /\ handle st' = handle st /\ flag st' = flag st /\ dispatchers st' = dispatchers st /\
    callsites st' = callsites st /\ max_level st' = max_level st /\ tls st' = tls st /\ tids st' = tids st /\
    scoped st' = scoped st /\ global st' = global st.
  Proof.
    induction l as [|x l IH]; intro st; simpl.
    - repeat split.
    - specialize (IH (set_cache st x (f x))). simpl in IH. exact IH.
  Qed.
  Lemma fold_set_cache_cache (f : callsite -> interest) l : forall st x,
    cache (fold_left (fun st cs => set_cache st cs (f cs)) l st) x =
    if existsb (cs_eqb x) l then Some (f x) else cache st x.
  Proof.
    induction l as [|y l IH]; intros st x; simpl.
    - reflexivity.
    - rewrite IH. simpl. destruct (existsb (cs_eqb x) l).
      + rewrite orb_true_r. reflexivity.
      + rewrite orb_false_r. destruct (cs_eqb x y) eqn:E; [|reflexivity].
        apply cs_eqb_eq in E. subst. reflexivity.
  Qed.

  Lemma rebuild_fields s :
    next (rebuild s) = next s /\ handle (rebuild s) = handle s /\ flag (rebuild s) = flag s /\
    tls (rebuild s) = tls s /\ tids (rebuild s) = tids s /\ scoped (rebuild s) = scoped s /\ global (rebuild s) = global s /\
    callsites (rebuild s) = callsites s /\ dispatchers (rebuild s) = filter (live s) (dispatchers s).
  Proof.
    unfold Model.rebuild. simpl.
    destruct (fold_set_cache_fields (Model.fold_interest conf (set_dispatchers s (filter (live s) (dispatchers s))))
                (callsites s) (set_dispatchers s (filter (live s) (dispatchers s)))) as (H1 & H2 & H3 & H4 & H5 & H6 & H7 & H8 & H9 & H10).
    simpl in *. repeat split; assumption.
  Qed.
  Lemma live_rebuild s c : live (rebuild s) c = live s c.
  Proof. destruct (rebuild_fields s) as (_ & H2 & _ & H4 & H5 & _ & H7 & _). apply live_same; assumption. Qed.

  Lemma rebuild_inv s :
    (forall cs i, cache s cs = Some i -> In cs (callsites s)) ->
    (forall c, live s c = true -> In c (dispatchers s)) ->
    (forall t, tls s t = tinit \/ In t (tids s)) ->
    Inv (rebuild s).
  Proof.
    intros Hc Hl Ht.
    destruct (rebuild_fields s) as (_ & _ & _ & F4 & F5 & _ & _ & F8 & F9).
    set (s1 := set_dispatchers s (filter (live s) (dispatchers s))).
    assert (Hs1 : forall c, live s1 c = live s c) by (intro; apply live_same; reflexivity).
    assert (Hcache : forall x, cache (rebuild s) x =
                               if existsb (cs_eqb x) (callsites s) then Some (fold_interest s1 x) else cache s x).
    { intro x. unfold Model.rebuild. simpl. fold s1. rewrite fold_set_cache_cache. reflexivity. }
    assert (Hin : forall x i, cache (rebuild s) x = Some i ->
                              In x (callsites s) /\ i = fold_interest s1 x).
    { intros x i H. rewrite Hcache in H. destruct (existsb (cs_eqb x) (callsites s)) eqn:E.
      - apply existsb_exists in E. destruct E as [y [Hy Hxy]]. apply cs_eqb_eq in Hxy. subst y.
        inversion H; auto.
      - exfalso. apply Hc in H. assert (existsb (cs_eqb x) (callsites s) = true).
        { apply existsb_exists. exists x. split; [exact H | apply cs_eqb_refl]. }
        congruence. }
    assert (Hds : forall c, live s c = true -> In c (dispatchers s1)).
    { intros c H. unfold s1. simpl. apply filter_In. auto. }
    split.
    - intros cs i H. rewrite F8. apply (Hin cs i H).
    - intros cs c H Hlive. rewrite live_rebuild in Hlive. destruct (Hin cs _ H) as [_ Hf].
      apply (fold_interest_never s1 cs c); [auto | auto | rewrite Hs1; exact Hlive].
    - intros cs c H Hlive. rewrite live_rebuild in Hlive. destruct (Hin cs _ H) as [_ Hf].
      apply (fold_interest_always s1 cs c); [auto | auto | rewrite Hs1; exact Hlive].
    - intros c H. rewrite live_rebuild in H. rewrite F9. apply filter_In. auto.
    - intros c H. rewrite live_rebuild in H. unfold Model.rebuild. simpl.
      apply max_hint_ge. apply filter_In. auto.
    - intro t. rewrite F4, F5. apply Ht.
  Qed.

  (** ** callsite::register *)
  Lemma register_inv s cs : Inv s -> cache s cs = None -> Inv (register s cs).
  Proof.
    intros I Hn.
    assert (Hl : forall c, live (register s cs) c = live s c) by (intro; apply live_same; reflexivity).
    split; unfold Model.register; simpl.
    - intros x i H. destruct (cs_eqb x cs) eqn:E.
      + apply cs_eqb_eq in E. subst. left; reflexivity.
      + right. apply (inv_cached s I x i H).
    - intros x c H Hlive. rewrite Hl in Hlive. destruct (cs_eqb x cs) eqn:E.
      + apply cs_eqb_eq in E. subst x. injection H as H'.
        apply (fold_interest_never s cs c H'); [apply I; exact Hlive | exact Hlive].
      + apply (inv_never s I x c H Hlive).
    - intros x c H Hlive. rewrite Hl in Hlive. destruct (cs_eqb x cs) eqn:E.
      + apply cs_eqb_eq in E. subst x. injection H as H'.
        apply (fold_interest_always s cs c H'); [apply I; exact Hlive | exact Hlive].
      + apply (inv_always s I x c H Hlive).
    - intros c H. rewrite Hl in H. apply I. exact H.
    - intros c H. rewrite Hl in H. apply I. exact H.
    - apply I.
  Qed.

  (** ** The thread-local side: nothing there ever creates liveness *)
  Lemma current_live s t c : Inv s -> current s t = DCol c -> live s c = true.
  Proof.
    intros I H. apply live_iff. unfold current in H.
    assert (G : get_global s = DCol c -> Live s c).
    { unfold get_global. destruct (global s) as [g|] eqn:E; intro H'; inversion H'; subst. right; right; exact E. }
    destruct (Nat.eqb (scoped s) 0); [auto|].
    destruct (tl (tls s t)) as [d|] eqn:E; [|auto]. subst d.
    right; left. exists t. split.
    - destruct (inv_tids s I t) as [H0|H0]; [rewrite H0 in E; discriminate E | exact H0].
    - apply held_by_tl. exact E.
  Qed.

  Lemma held_in_tids s t c : Inv s -> held_by (tls s t) c = true -> live s c = true.
  Proof.
    intros I H. apply live_iff. right; left. exists t. split; [|exact H].
    destruct (inv_tids s I t) as [H0|H0]; [|exact H0].
    rewrite H0 in H. unfold held_by in H. simpl in H. discriminate H.
  Qed.

  Lemma global_live s c : get_global s = DCol c -> live s c = true.
  Proof.
    unfold get_global. destruct (global s) as [g|] eqn:E; intro H; inversion H; subst.
    apply live_iff. right; right. exact E.
  Qed.

  (** Writing a thread-local whose contents were already referenced keeps the invariant. *)
  Lemma set_thread_inv s t st :
    Inv s -> (forall c, held_by st c = true -> live s c = true) -> Inv (set_thread s t st).
  Proof.
    intros I H. apply (Inv_mono s); try reflexivity; [exact I | |].
    - intros c Hc. apply live_set_thread in Hc. destruct Hc; auto.
    - intro t'. simpl. unfold upd. destruct (t' =? t) eqn:E.
      + apply N.eqb_eq in E. subst. right; left; reflexivity.
      + destruct (inv_tids s I t'); auto.
  Qed.
  Lemma set_scoped_inv s n : Inv s -> Inv (set_scoped s n).
  Proof.
    intro I. apply (Inv_mono s); try reflexivity; [exact I | |].
    - intros c Hc. erewrite live_same in Hc; [exact Hc | reflexivity ..].
    - apply I.
  Qed.

  (** The state get_default_slow may leave behind: the global default cached in the thread-local. *)
  Definition cache_tl (s : state) (t : N) : state :=
    set_thread s t {| tl := Some (get_global s); guards := guards (tls s t) |}.

  Lemma slow_post s t s' d :
    slow s t = (s', d) ->
    d = match tl (tls s t) with Some d => d | None => get_global s end /\
    (s' = s \/ (s' = cache_tl s t /\ tl (tls s t) = None)).
  Proof.
    unfold Model.slow. destruct (tl (tls s t)) as [d0|] eqn:E; intro H; inversion H; subst.
    - auto.
    - split; [reflexivity|]. destruct fx; [left; reflexivity | right; auto].
  Qed.
  Lemma get_default_post s t s' d :
    get_default s t = (s', d) -> d = current s t /\ (s' = s \/ (s' = cache_tl s t /\ tl (tls s t) = None)).
  Proof.
    unfold Model.get_default, current. destruct (Nat.eqb (scoped s) 0).
    - intro H; inversion H; auto.
    - apply slow_post.
  Qed.

  Lemma cache_tl_inv s t : Inv s -> Inv (cache_tl s t).
  Proof.
    intro I. apply set_thread_inv; [exact I|]. intros c H.
    apply held_by_cases in H. simpl in H. destruct H as [H|H].
    - injection H as H'. apply global_live. exact H'.
    - apply (held_in_tids s t c I). apply held_by_guard. exact H.
  Qed.
  Lemma cache_tl_current s t t' : tl (tls s t) = None -> current (cache_tl s t) t' = current s t'.
  Proof.
    intro Hn. unfold current, cache_tl. simpl. destruct (Nat.eqb (scoped s) 0); [reflexivity|].
    unfold upd. destruct (t' =? t) eqn:E; [|reflexivity].
    apply N.eqb_eq in E. subst. simpl. rewrite Hn. reflexivity.
  Qed.

  (** Everything the macro guard needs to know about a get_default call. *)
  Record Same (s s' : state) : Prop := {
    same_cur : forall t, current s' t = current s t;
    same_flag : flag s' = flag s;
    same_cache : cache s' = cache s;
    same_max : max_level s' = max_level s;
    same_live : forall c, live s' c = true -> live s c = true }.
  Lemma Same_refl s : Same s s.
  Proof. split; auto. Qed.
  Lemma Same_trans a b c : Same a b -> Same b c -> Same a c.
  Proof.
    intros [A1 A2 A3 A4 A5] [B1 B2 B3 B4 B5].
    split; [intro t; rewrite B1; apply A1 | congruence | congruence | congruence | auto].
  Qed.
  Lemma cache_tl_same s t : Inv s -> tl (tls s t) = None -> Same s (cache_tl s t).
  Proof.
    intros I Hn. split; try reflexivity.
    - intro t'. apply cache_tl_current. exact Hn.
    - intros c H. apply live_set_thread in H. destruct H as [H|H]; [|exact H].
      apply held_by_cases in H. simpl in H. destruct H as [H|H].
      + injection H as H'. apply global_live. exact H'.
      + apply (held_in_tids s t c I). apply held_by_guard. exact H.
  Qed.

  Lemma get_default_ok s t s' d :
    Inv s -> get_default s t = (s', d) -> d = current s t /\ Inv s' /\ Same s s'.
  Proof.
    intros I H. apply get_default_post in H. destruct H as [Hd [->|[-> Hn]]].
    - auto using Same_refl.
    - split; [exact Hd|]. split; [apply cache_tl_inv; exact I | apply cache_tl_same; assumption].
  Qed.
  Lemma slow_ok s t s' d : Inv s -> slow s t = (s', d) -> Inv s'.
  Proof.
    intros I H. apply slow_post in H. destruct H as [_ [->|[-> _]]]; [exact I | apply cache_tl_inv; exact I].
  Qed.

  Lemma interest_of_ok s cs s1 i :
    Inv s -> interest_of conf s cs = (s1, i) ->
    Inv s1 /\ cache s1 cs = Some i /\ flag s1 = flag s /\ max_level s1 = max_level s /\
    (forall t, current s1 t = current s t) /\ (forall c, live s1 c = live s c).
  Proof.
    intros I. unfold interest_of. destruct (cache s cs) as [i0|] eqn:E; intro H; inversion H; subst.
    - split; [exact I|]. split; [exact E|]. repeat split; reflexivity.
    - split; [apply register_inv; assumption|]. unfold Model.register. simpl.
      rewrite cs_eqb_refl. repeat split; reflexivity.
  Qed.

  (** * The verdict of the macro guard *)
  Hypothesis WF : forall c, wf_collector (conf c).

  Lemma level_disabled_rejects s t cs :
    Inv s -> level_enabled static_max s cs = false -> own_verdict static_max conf s t cs = None.
  Proof.
    intros I H. unfold own_verdict. destruct (current s t) as [|c] eqn:Ec; [reflexivity|].
    unfold level_enabled in H. apply andb_false_iff in H. destruct H as [H|H].
    - rewrite H. reflexivity.
    - assert (Hr : c_reg (conf c) cs = never).
      { destruct (c_reg (conf c) cs) eqn:Er; [reflexivity | exfalso ..].
        all: pose proof (inv_max s I c (current_live s t c I Ec)) as Hm.
        all: destruct (WF c) as (_ & _ & W3).
        all: unfold hint_or_trace in Hm; destruct (c_hint (conf c)) as [h|] eqn:Eh.
        all: unfold lvl_le in *; try (specialize (W3 h cs eq_refl); rewrite Er in W3).
        all: try (assert (W3' : lrank (cs_lvl cs) <=? frank h = true) by (apply W3; discriminate);
                  apply N.leb_le in W3'; apply N.leb_gt in H; lia).
        all: apply N.leb_gt in H; simpl in Hm; destruct (cs_lvl cs); simpl in H; lia. }
      unfold accepts. rewrite Hr. rewrite andb_false_r. reflexivity.
  Qed.

  (** The three things the guard can return, against the current collector's own filter. *)
  Lemma guard_ok s t cs s1 con ok :
    Inv s -> guard fx static_max conf s t cs = (s1, con, ok) ->
    Inv s1 /\ (forall t', current s1 t' = current s t') /\ flag s1 = flag s /\
    (ok = false -> own_verdict static_max conf s t cs = None) /\
    (ok = true -> lvl_le (cs_lvl cs) static_max = true /\
                  match current s t with
                  | DCol c => accepts conf s c cs = true /\ c_en (conf c) (flag s c) cs = true
                  | DNone => True
                  end).
  Proof.
    intros I. unfold guard. destruct (level_enabled static_max s cs) eqn:El.
    2:{ intro H; injection H as <- <- <-. split; [exact I|]. split; [reflexivity|]. split; [reflexivity|].
        split; [intros _; apply level_disabled_rejects; assumption | discriminate]. }
    destruct (interest_of conf s cs) as [s0 i] eqn:Ei.
    destruct (interest_of_ok s cs s0 i I Ei) as (I0 & Hc0 & Hf0 & Hm0 & Hcur0 & Hl0).
    assert (Hsm : lvl_le (cs_lvl cs) static_max = true).
    { unfold level_enabled in El. apply andb_true_iff in El. apply El. }
    destruct i.
    - (* never *)
      intro H; injection H as <- <- <-. split; [exact I0|]. split; [exact Hcur0|]. split; [exact Hf0|].
      split; [|discriminate].
      intros _. unfold own_verdict. destruct (current s t) as [|c] eqn:Ec; [reflexivity|].
      assert (Hr : c_reg (conf c) cs = never).
      { apply (inv_never s0 I0 cs c Hc0). rewrite Hl0. apply (current_live s t c I Ec). }
      unfold accepts. rewrite Hr, andb_false_r. reflexivity.
    - (* sometimes *)
      destruct (get_default s0 t) as [s2 d] eqn:Eg. intro H; injection H as <- <- <-.
      destruct (get_default_ok s0 t s2 d I0 Eg) as (Hd & I2 & S2).
      rewrite Hcur0 in Hd.
      split; [exact I2|]. split; [intro t'; rewrite (same_cur _ _ S2); apply Hcur0|].
      split; [rewrite (same_flag _ _ S2); exact Hf0|].
      assert (Hfl : flag s2 = flag s) by (rewrite (same_flag _ _ S2); exact Hf0).
      unfold enabled_of. rewrite Hfl. split.
      + intro Hok. unfold own_verdict. rewrite <- Hd. destruct d as [|c]; [reflexivity|].
        unfold accepts. destruct (WF c) as (W1 & W2 & _).
        destruct (c_reg (conf c) cs) eqn:Er.
        * rewrite andb_false_r. reflexivity.
        * rewrite Hok, andb_false_r. reflexivity.
        * rewrite (W2 cs _ Er) in Hok. discriminate Hok.
      + intro Hok. split; [exact Hsm|]. rewrite <- Hd. destruct d as [|c]; [exact Logic.I|].
        split; [|exact Hok]. unfold accepts. destruct (WF c) as (W1 & W2 & _).
        destruct (c_reg (conf c) cs) eqn:Er; [|exact Hok|reflexivity].
        rewrite (W1 cs _ Er) in Hok. discriminate Hok.
    - (* always *)
      intro H; injection H as <- <- <-. split; [exact I0|]. split; [exact Hcur0|]. split; [exact Hf0|].
      split; [discriminate|]. intros _. split; [exact Hsm|].
      destruct (current s t) as [|c] eqn:Ec; [exact Logic.I|].
      assert (Hr : c_reg (conf c) cs = always).
      { apply (inv_always s0 I0 cs c Hc0). rewrite Hl0. apply (current_live s t c I Ec). }
      unfold accepts. rewrite Hr. split; [reflexivity|].
      destruct (WF c) as (_ & W2 & _). apply W2. exact Hr.
  Qed.

  Lemma emit_ok s t cs s' ob :
    Inv s -> do_emit fx static_max conf s t cs = (s', ob) ->
    Inv s' /\ exists con, ob = OEmit con (own_verdict static_max conf s t cs).
  Proof.
    intros I. unfold do_emit. destruct (guard fx static_max conf s t cs) as [[s1 con] ok] eqn:Eg.
    destruct (guard_ok s t cs s1 con ok I Eg) as (I1 & Hcur & Hfl & Hno & Hyes).
    destruct ok.
    - destruct (get_default s1 t) as [s2 d] eqn:Ed. intro H; injection H as <- <-.
      destruct (get_default_ok s1 t s2 d I1 Ed) as (Hd & I2 & _).
      split; [exact I2|]. exists (Some d). f_equal.
      destruct (Hyes eq_refl) as [Hsm Hacc]. unfold own_verdict.
      rewrite Hcur in Hd. rewrite <- Hd in *. destruct d as [|c]; [reflexivity|].
      destruct Hacc as [Hacc _]. rewrite Hsm, Hacc. reflexivity.
    - intro H; inversion H; subst. split; [exact I1|]. exists con. rewrite (Hno eq_refl). reflexivity.
  Qed.

  Lemma probe_ok s t cs s' ob :
    Inv s -> do_probe fx static_max conf s t cs = (s', ob) ->
    Inv s' /\ exists con, ob = OProbe con (match own_verdict static_max conf s t cs with Some _ => true | None => false end).
  Proof.
    intros I. unfold do_probe. destruct (guard fx static_max conf s t cs) as [[s1 con] ok] eqn:Eg.
    destruct (guard_ok s t cs s1 con ok I Eg) as (I1 & Hcur & Hfl & Hno & Hyes).
    destruct ok.
    - destruct (get_default s1 t) as [s2 d] eqn:Ed. intro H; injection H as <- <-.
      destruct (get_default_ok s1 t s2 d I1 Ed) as (Hd & I2 & S2).
      split; [exact I2|]. exists (Some d). f_equal.
      destruct (Hyes eq_refl) as [Hsm Hacc]. unfold own_verdict, enabled_of.
      rewrite Hcur in Hd. rewrite <- Hd in *. destruct d as [|c]; [reflexivity|].
      destruct Hacc as [Hacc Hen]. rewrite Hsm, Hacc. simpl.
      rewrite (same_flag _ _ S2), Hfl. exact Hen.
    - intro H; inversion H; subst. split; [exact I1|]. exists con. rewrite (Hno eq_refl). reflexivity.
  Qed.

  (** * Every step keeps the invariant; emissions and probes obey the collector's own filter *)
  Lemma step_ok s o s' ob :
    Inv s -> step s o = (s', ob) -> Inv s' /\ c01_ok static_max conf (s, o, ob).
  Proof.
    intros I. destruct o as [|c|t d|t k|t c|t cs|t cs|t|t| |c]; simpl.
    - (* New *)
      intro H; inversion H; subst. split; [|exact Logic.I].
      apply rebuild_inv; simpl.
      + apply I.
      + intros c H0. apply in_or_app. apply live_iff in H0. unfold Live in H0. simpl in H0.
        unfold upd in H0. destruct (c =? next s) eqn:E.
        * apply N.eqb_eq in E. subst. right; left; reflexivity.
        * left. apply I. apply live_iff. exact H0.
      + apply I.
    - (* DropHandle *)
      destruct (handle s c) eqn:E; intro H; inversion H; subst; (split; [|exact Logic.I]); [|exact I].
      apply (Inv_mono s); try reflexivity; [exact I | | apply I].
      intros c0. rewrite !live_iff. unfold Live. simpl. unfold upd.
      destruct (c0 =? c); intros [H0|H0]; auto. discriminate H0.
    - (* Open *)
      unfold do_open. destruct (valid_disp s d) eqn:Ev; intro H; inversion H; subst; (split; [|exact Logic.I]); [|exact I].
      apply set_scoped_inv. apply set_thread_inv; [exact I|].
      intros c Hc. apply held_by_cases in Hc. simpl in Hc. destruct Hc as [Hc|[Hc|Hc]].
      + inversion Hc; subst. simpl in Ev. apply live_iff. left. exact Ev.
      + destruct fx.
        * apply (held_in_tids s t c I). apply held_by_tl. exact Hc.
        * injection Hc as Hc'. destruct (tl (tls s t)) as [p|] eqn:Et.
          -- subst p. apply (held_in_tids s t c I). apply held_by_tl. exact Et.
          -- apply global_live. exact Hc'.
      + apply (held_in_tids s t c I). apply held_by_guard. exact Hc.
    - (* Close *)
      unfold do_close. destruct (remove_nth k (guards (tls s t))) as [[prior gs]|] eqn:Er;
        intro H; inversion H; subst; (split; [|exact Logic.I]); [|exact I].
      apply remove_nth_In in Er. destruct Er as [Hp Hgs].
      apply set_scoped_inv. apply set_thread_inv; [exact I|].
      intros c Hc. apply (held_in_tids s t c I).
      apply held_by_cases in Hc. simpl in Hc. destruct Hc as [Hc|Hc].
      + destruct fx.
        * subst prior. apply held_by_guard. exact Hp.
        * destruct prior as [p|].
          -- inversion Hc; subst. apply held_by_guard. exact Hp.
          -- apply held_by_tl. exact Hc.
      + apply held_by_guard. apply Hgs. exact Hc.
    - (* SetGlobal *)
      unfold do_set_global. destruct (handle s c) eqn:Eh; [|intro H; inversion H; subst; split; [exact I|exact Logic.I]].
      destruct (global s) eqn:Eg; intro H; inversion H; subst; (split; [|exact Logic.I]); [exact I|].
      apply (Inv_mono s); try reflexivity; [exact I | | apply I].
      intros c0. rewrite !live_iff. unfold Live. simpl. intros [H0|[H0|H0]]; auto.
      inversion H0; subst. auto.
    - (* Emit *)
      intro H. destruct (emit_ok s t cs s' ob I H) as [I' [con ->]]. split; [exact I' | reflexivity].
    - (* Probe *)
      intro H. destruct (probe_ok s t cs s' ob I H) as [I' [con ->]]. split; [exact I' | reflexivity].
    - (* GetDefault *)
      destruct (get_default s t) as [s2 d] eqn:E. intro H; inversion H; subst.
      split; [|exact Logic.I]. apply (get_default_ok s t s' d I E).
    - (* GetCurrent *)
      destruct (slow s t) as [s2 d] eqn:E. intro H; inversion H; subst.
      split; [|exact Logic.I]. apply (slow_ok s t s' d I E).
    - (* Rebuild *)
      intro H; inversion H; subst. split; [|exact Logic.I]. apply rebuild_inv; apply I.
    - (* Flip *)
      destruct (c <? next s); intro H; inversion H; subst; (split; [|exact Logic.I]); [|exact I].
      apply (Inv_mono s); try reflexivity; [exact I | | apply I].
      intros c0 H0. erewrite live_same in H0; [exact H0 | reflexivity ..].
  Qed.

  Lemma trace_ok h : forall s, Inv s -> Forall (c01_ok static_max conf) (trace fx static_max conf s h).
  Proof.
    induction h as [|o h IH]; intros s I; simpl.
    - constructor.
    - destruct (step s o) as [s' ob] eqn:E. destruct (step_ok s o s' ob I E) as [I' Hok].
      constructor; [exact Hok | apply IH; exact I'].
  Qed.

  Theorem delivery_iff_own_filter h : Forall (c01_ok static_max conf) (trace fx static_max conf init h).
  Proof. apply trace_ok. apply Inv_init. Qed.

  Lemma final_inv h : forall s, Inv s -> Inv (final fx static_max conf s h).
  Proof.
    induction h as [|o h IH]; intros s I; simpl; [exact I|].
    apply IH. destruct (step s o) as [s' ob] eqn:E. simpl. apply (step_ok s o s' ob I E).
  Qed.
End C01.

(** * Corollaries in the shape the property is worded *)

(** Every emission in every history: delivered to the emitting thread's current collector iff that collector's
    own filter accepts the callsite at that moment (and the callsite is not above the compile-time cap). *)
Theorem emission_verdict fx static_max conf :
  (forall c, wf_collector (conf c)) ->
  forall pre t cs post s ob,
    final fx static_max conf init pre = s ->
    step fx static_max conf s (Emit t cs) = (post, ob) ->
    exists con, ob = OEmit con (own_verdict static_max conf s t cs).
Proof.
  intros WF pre t cs post s ob Hs Hstep. simpl in Hstep.
  assert (I : Inv conf s) by (subst s; apply final_inv; [exact WF | apply Inv_init]).
  destruct (emit_ok fx static_max conf WF s t cs post ob I Hstep) as [_ H]. exact H.
Qed.

(** The first hit of a callsite (0xFF interest byte: the emission itself registers it) obeys the same law. *)
Theorem first_hit fx static_max conf :
  (forall c, wf_collector (conf c)) ->
  forall pre t cs post s ob,
    final fx static_max conf init pre = s ->
    cache s cs = None ->
    step fx static_max conf s (Emit t cs) = (post, ob) ->
    exists con, ob = OEmit con (own_verdict static_max conf s t cs).
Proof. intros WF pre t cs post s ob Hs _ Hstep. eapply emission_verdict; eauto. Qed.

(** `enabled!` answers the same question. *)
Theorem probe_verdict fx static_max conf :
  (forall c, wf_collector (conf c)) ->
  forall pre t cs post s ob,
    final fx static_max conf init pre = s ->
    step fx static_max conf s (Probe t cs) = (post, ob) ->
    exists con, ob = OProbe con (match own_verdict static_max conf s t cs with Some _ => true | None => false end).
Proof.
  intros WF pre t cs post s ob Hs Hstep. simpl in Hstep.
  assert (I : Inv conf s) by (subst s; apply final_inv; [exact WF | apply Inv_init]).
  destruct (probe_ok fx static_max conf WF s t cs post ob I Hstep) as [_ H]. exact H.
Qed.

(** In the default build (STATIC_MAX_LEVEL = TRACE) the compile-time cap never bites. *)
Lemma lvl_le_trace l : lvl_le l (Some TRACE) = true.
Proof. destruct l; reflexivity. Qed.
Theorem default_build_verdict conf s t cs :
  own_verdict (Some TRACE) conf s t cs =
  match current s t with DCol c => if accepts conf s c cs then Some c else None | DNone => None end.
Proof. unfold own_verdict. destruct (current s t); [reflexivity|]. rewrite lvl_le_trace. reflexivity. Qed.

(** The structured filters of the correspondence are self-consistent whenever the hint is sound. *)
Lemma mk_collector_wf f : hint_sound f = true -> wf_collector (mk_collector f).
Proof.
  intro Hs. unfold wf_collector, mk_collector; simpl. repeat split.
  - intros cs fl. destruct (static_ok f cs); [destruct (f_dyn f); discriminate | reflexivity].
  - intros cs fl. destruct (static_ok f cs); [|discriminate]. destruct (f_dyn f); [discriminate | reflexivity].
  - intros h cs Hh Hr. unfold hint_sound in Hs. rewrite Hh in Hs.
    destruct (static_ok f cs) eqn:E; [|congruence].
    unfold static_ok in E. apply andb_true_iff in E. destruct E as [E _].
    unfold lvl_le in *. apply N.leb_le in E. apply N.leb_le in Hs. apply N.leb_le. lia.
Qed.
Lemma no_collector_wf : wf_collector no_collector.
Proof. unfold wf_collector, no_collector; simpl. repeat split; intros; congruence. Qed.
Lemma conf_of_list_wf l : forallb hint_sound l = true -> forall c, wf_collector (conf_of_list l c).
Proof.
  induction l as [|f l IH]; simpl; intros H c.
  - apply no_collector_wf.
  - apply andb_true_iff in H. destruct H as [H1 H2]. destruct (c =? 0).
    + apply mk_collector_wf. exact H1.
    + apply IH. exact H2.
Qed.

(** * Non-vacuity: a 9-op history with two collectors, a drop, a first hit and a dynamic flip. *)
Definition ex_filters : list fspec :=
  [ mk_fspec 3 [0] 0 4        (* collector 0: INFO and above, target 0, static, hint INFO *)
  ; mk_fspec 5 [0; 1] 2 0 ].  (* collector 1: everything on targets 0,1, dynamic (flag on), no hint *)
Definition ex_cs : callsite := mk_cs 7 4 0 1.   (* a DEBUG event on target 0 *)
Definition ex_history : list op :=
  [ New; Open 0 (DCol 0); Emit 0 ex_cs;          (* first hit under collector 0: rejected (DEBUG > INFO), cached `never` *)
    New; Open 1 (DCol 1); Emit 1 ex_cs;          (* collector 1 on thread 1 re-evaluates: now `sometimes`, delivered to 1 *)
    Flip 1; Emit 1 ex_cs;                        (* dynamic flag off: rejected *)
    DropHandle 0 ].
Example ex_wf : forall c, wf_collector (conf_of_list ex_filters c).
Proof. apply conf_of_list_wf. reflexivity. Qed.
Example ex_observations : forall fx,
  map fst (run fx (Some TRACE) (conf_of_list ex_filters) init ex_history) =
  [ ONew 0; OUnit; OEmit None None;
    ONew 1; OUnit; OEmit (Some (DCol 1)) (Some 1);
    OUnit; OEmit (Some (DCol 1)) None;
    OUnit ].
Proof. intros []; vm_compute; reflexivity. Qed.

(** The side condition is needed: with a hint that is NOT an upper bound the global maximum level suppresses
    a delivery the collector's own filter accepts. *)
Definition lying : list fspec := [ mk_fspec 5 [0] 0 3 ].   (* accepts TRACE, hints WARN *)
Example lying_hint_breaks_it : forall fx,
  hint_sound (mk_fspec 5 [0] 0 3) = false /\
  let s := final fx (Some TRACE) (conf_of_list lying) init [New; Open 0 (DCol 0)] in
  snd (step fx (Some TRACE) (conf_of_list lying) s (Emit 0 ex_cs)) = OEmit None None /\
  own_verdict (Some TRACE) (conf_of_list lying) s 0 ex_cs = Some 0.
Proof. intros []; (split; [reflexivity|]); split; vm_compute; reflexivity. Qed.

(** * "The process-wide shortcuts may only skip work": the three of them, one by one, after ANY history.
    A cached `never` means the emitting thread's current collector (whoever it is) rejects the callsite; a cached
    `always` means it accepts it; a level above MAX_LEVEL means it rejects it.  (The compile-time cap is the
    documented exception and is part of [own_verdict].) *)
Theorem shortcuts_only_skip fx static_max conf :
  (forall c, wf_collector (conf c)) ->
  forall h cs t,
  let s := final fx static_max conf init h in
  (cache s cs = Some never -> own_verdict static_max conf s t cs = None) /\
  (cache s cs = Some always -> forall c, current s t = DCol c -> accepts conf s c cs = true) /\
  (lvl_le (cs_lvl cs) (max_level s) = false -> own_verdict static_max conf s t cs = None).
Proof.
  intros WF h cs t s.
  assert (I : Inv conf s) by (unfold s; apply final_inv; [exact WF | apply Inv_init]).
  split; [|split].
  - intro Hc. unfold own_verdict. destruct (current s t) as [|c] eqn:Ec; [reflexivity|].
    assert (Hr : c_reg (conf c) cs = never).
    { apply (inv_never conf s I cs c Hc). eapply current_live; eassumption. }
    unfold accepts. rewrite Hr, andb_false_r. reflexivity.
  - intros Hc c Ec.
    assert (Hr : c_reg (conf c) cs = always).
    { apply (inv_always conf s I cs c Hc). eapply current_live; eassumption. }
    unfold accepts. rewrite Hr. reflexivity.
  - intro Hl. eapply level_disabled_rejects; [exact WF | exact I |].
    unfold level_enabled. rewrite Hl. apply andb_false_r.
Qed.

(** With the no-op dispatcher current (Dispatch::none() installed as a scope, or no default at all) nothing is delivered. *)
Theorem none_dispatch_discards static_max conf s t cs :
  current s t = DNone -> own_verdict static_max conf s t cs = None.
Proof. unfold own_verdict. intros ->. reflexivity. Qed.

(** The verdict does not look at the callsite's kind: span!, event! and enabled! callsites with the same level and
    target get the same answer from the same collector whenever the collector's own filter does not distinguish kinds
    (the structured filters of the correspondence never do). *)
Theorem structured_verdict_ignores_kind static_max l s t id1 id2 lvl tgt k1 k2 :
  own_verdict static_max (conf_of_list l) s t {| cs_id := id1; cs_lvl := lvl; cs_tgt := tgt; cs_kind := k1 |} =
  own_verdict static_max (conf_of_list l) s t {| cs_id := id2; cs_lvl := lvl; cs_tgt := tgt; cs_kind := k2 |}.
Proof.
  unfold own_verdict. destruct (current s t) as [|c]; [reflexivity|]. simpl.
  assert (G : forall l c, c_reg (conf_of_list l c) {| cs_id := id1; cs_lvl := lvl; cs_tgt := tgt; cs_kind := k1 |} =
                          c_reg (conf_of_list l c) {| cs_id := id2; cs_lvl := lvl; cs_tgt := tgt; cs_kind := k2 |} /\
                          forall fl, c_en (conf_of_list l c) fl {| cs_id := id1; cs_lvl := lvl; cs_tgt := tgt; cs_kind := k1 |} =
                                     c_en (conf_of_list l c) fl {| cs_id := id2; cs_lvl := lvl; cs_tgt := tgt; cs_kind := k2 |}).
  { clear. induction l as [|f l IH]; intro c; simpl; [split; reflexivity|].
    destruct (c =? 0); [|apply IH]. unfold mk_collector, static_ok. simpl. split; reflexivity. }
  unfold accepts. destruct (G l c) as [G1 G2]. rewrite G1, G2. reflexivity.
Qed.
