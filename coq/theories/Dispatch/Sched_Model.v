(** Dispatch/Sched_Model.v — micro-step (atomic-operation / lock-event granularity) model of the callsite
    registry, the macro guard and the reload handle, run under Common/Sched.v.  Executable, total, NO PROOFS.

    Mirrors, as the code is now in /repo:
      tracing-core/src/callsite.rs   register, register_dispatch, rebuild_interest_cache, rebuild_interest,
                                     rebuild_callsite_interest, LinkedList::{push, for_each}, DISPATCHERS RwLock
      tracing/src/lib.rs             MacroCallsite::{interest, register, is_enabled}  (REGISTERING CAS; loser = sometimes)
      tracing/src/macros.rs          the guard of event!/span!:  level_enabled! && interest != never && is_enabled
      tracing-core/src/metadata.rs   MAX_LEVEL load (LevelFilter::current) / swap (set_max)
      tracing-core/src/dispatch.rs   Dispatch::new, set_global_default (PSgCas / PSgStore / PSgInit), Registrar::upgrade
      tracing-subscriber/src/reload.rs  Handle::{reload, modify}: upgrade the weak reference to the CELL's own Arc ([cell_live]: the
                                     collector, or a reload still in flight, keeps it alive); write-lock; assign; unlock; rebuild

    One constructor of [pc] per program point that sits immediately BEFORE a shared-memory access (atomic load /
    store / CAS / swap, Arc upgrade, lock acquire, lock release); [step] performs that one access plus the
    thread-local computation up to the next such point.  [yield_id] names the H3 yield point at which the real
    code is parked in that program point (999 = no yield point there: the forced-schedule harness cannot preempt
    at it, the theorems still quantify over it).

    Abstractions (also listed in notes/C04.md):
      - a collector's answers are pure functions of the value in its reloadable cell: [w_interest], [w_enabled],
        [w_hint] of a [world]; theorems quantify over every world satisfying the property's own side condition
        "self-consistent filters" ([WFworld]);
      - the current collector of a thread is C02's specification (innermost open scope, else the global default
        once GLOBAL_INIT = INITIALIZED); SCOPED_COUNT and the thread-local cache of the global default are not
        modelled (they select a path, not a result, outside finding F1's class);
      - the intrusive list is a [list csid] (newest first); a walker's position is the suffix it still has to
        visit.  This is exact as long as no registration is pushed twice (proved: [Corrupt] is unreachable).  The `next` link
        of a registration being pushed is the snapshot [l0] of [PRgPushCas]: (re)linked to the list just seen on entry and on
        EVERY retry, as the source's loop does (pinned by C04_source_push_shape);
      - the RwLock's reader count is the list of reader thread ids (count = length);
      - ghost state (never read by [step] to decide behaviour): [st_olds]/[st_cleaning]/[st_epoch], [th_eg],
        the [old] component of [KReload], the snapshot [l0] in [PRgPushCas], and the log. *)
From Coq Require Import List Arith Bool NArith.
From TV Require Export Common.Sched.
Import ListNotations.

Definition cid := nat.   (* collector name (chosen by the program that creates it) *)
Definition csid := nat.  (* callsite *)
Definition fid := nat.   (* a value of a reloadable cell: a filter / layer *)

Inductive interest := INever | ISometimes | IAlways.

(** collect.rs Interest::and *)
Definition interest_and (a b : interest) : interest :=
  match a, b with
  | INever, INever => INever
  | ISometimes, ISometimes => ISometimes
  | IAlways, IAlways => IAlways
  | _, _ => ISometimes
  end.
(** the fold of rebuild_callsite_interest: [None] = no live collector answered yet *)
Definition combine (acc : option interest) (i : interest) : option interest :=
  match acc with None => Some i | Some a => Some (interest_and a i) end.
Definition finish (acc : option interest) : interest :=
  match acc with Some i => i | None => INever end.

(** What collectors answer.  Levels are ranks: OFF = 0 < ERROR = 1 < ... < TRACE = 5. *)
Record world := {
  w_interest : fid -> csid -> interest;   (* Collect::register_callsite *)
  w_enabled : fid -> csid -> bool;        (* Collect::enabled *)
  w_hint : fid -> nat;                    (* max_level_hint().unwrap_or(TRACE) *)
  w_level : csid -> nat                   (* the callsite's level *)
}.

(** Does a collector whose cell holds [f] accept callsite [cs]?  (its own filter's verdict) *)
Definition accepts (W : world) (f : fid) (cs : csid) : bool :=
  match w_interest W f cs with
  | INever => false
  | IAlways => true
  | ISometimes => w_enabled W f cs
  end.

Inductive regst := Unreg | Registering | Registered.      (* MacroCallsite.register *)
Inductive ginit := GUninit | GInitializing | GInitialized. (* dispatch.rs GLOBAL_INIT *)

Inductive op :=
| OEmit (cs : csid)            (* event!/span! at callsite cs *)
| ONew (c : cid) (f : fid)     (* slot[c] = Dispatch::new(collector c whose cell holds f) *)
| ODrop (c : cid)              (* drop(slot[c].take()) *)
| OSetDefault (c : cid)        (* guard stack .push(set_default(&slot[c])) *)
| OCloseScope                  (* drop(guard stack .pop()) *)
| OSetGlobal (c : cid)         (* set_global_default(slot[c].clone()) *)
| ORebuild                     (* callsite::rebuild_interest_cache() *)
| OReload (c : cid) (f : fid). (* reload handle of c .reload(f) *)

(** who is inside the writer section of the DISPATCHERS lock, and why *)
Inductive wkind :=
| KNew (c : cid)
| KRebuild
| KReload (c : cid) (old : fid).  (* [old] is ghost: the value this reload replaced *)

Inductive pc :=
| PIdle
(* ---- emission: macro guard, MacroCallsite::{interest, register, is_enabled}, Event::dispatch / Span::new *)
| PEmInterest (cs : csid)                 (* before self.interest.load            lib.rs:1128 *)
| PEmRegCas (cs : csid)                   (* before self.register.compare_exchange lib.rs:1084 *)
| PRgRLock (cs : csid)                    (* before DISPATCHERS.read()            callsite.rs:232 *)
| PRgUp (cs : csid) (todo : list cid) (acc : option interest)
                                          (* todo <> []: before registrar.upgrade()  callsite.rs:257;
                                             todo = []:  before callsite.set_interest callsite.rs:270 *)
| PRgCall (cs : csid) (c : cid) (todo : list cid) (acc : option interest)
                                          (* holding the upgraded Dispatch: before c's register_callsite reads its cell *)
| PRgPushHead (cs : csid)                 (* before self.head.load                callsite.rs:439 *)
| PRgPushCas (cs : csid) (l0 : list csid) (* before head.compare_exchange(hd l0)  callsite.rs:452; l0 = list seen (ghost beyond its head) *)
| PRgRUnlock (cs : csid)                  (* before the read guard is dropped     callsite.rs:235 *)
| PRgStoreReg (cs : csid)                 (* before register.store(REGISTERED)    lib.rs:1093 *)
| PEmReload (cs : csid)                   (* before the second interest.load      lib.rs:1110 *)
| PEmEnabled (cs : csid)                  (* is_enabled(sometimes): before get_default reads GLOBAL_INIT / TLS  lib.rs:1138 *)
| PEmEnCall (cs : csid) (c : cid)         (* before c's enabled() reads its cell *)
| PEmDispatch (cs : csid) (vis : bool)    (* before Event::dispatch's get_default; vis = a yield point precedes it *)
(* ---- writer section: register_dispatch / rebuild_interest_cache / the rebuild at the end of Handle::modify *)
| PWrLock (k : wkind)                                  (* before DISPATCHERS.write()   callsite.rs:216,238 *)
| PWrRetUp (k : wkind) (todo kept : list cid) (m : nat)
                                                       (* retain: todo <> []: before registrar.upgrade() callsite.rs:276;
                                                          todo = []: before callsites.head.load callsite.rs:429 *)
| PWrRetCall (k : wkind) (c : cid) (todo kept : list cid) (m : nat)   (* before c's max_level_hint reads its cell *)
| PWrAskUp (k : wkind) (m : nat) (cs : csid) (todo : list cid) (acc : option interest) (more : list csid)
| PWrAskCall (k : wkind) (m : nat) (cs : csid) (c : cid) (todo : list cid) (acc : option interest) (more : list csid)
| PWrNext (k : wkind) (m : nat) (more : list csid)     (* before reg.next.load         callsite.rs:434 *)
| PWrSetMax (k : wkind) (m : nat)                      (* before MAX_LEVEL.swap        metadata.rs:749 *)
| PWrUnlock (k : wkind)                                (* before the write guard is dropped *)
(* ---- set_global_default *)
| PSgCas (c : cid)                        (* holding the Dispatch: before GLOBAL_INIT.compare_exchange  dispatch.rs:341 *)
| PSgStore (c : cid)                      (* CAS won: before GLOBAL_DISPATCH = ..  dispatch.rs:365 *)
| PSgInit (c : cid)                       (* before GLOBAL_INIT.store(INITIALIZED) dispatch.rs:367 *)
(* ---- Handle::reload / modify *)
| PRlLock (c : cid) (f : fid)             (* weak upgraded: before inner.write()   reload.rs:284 *)
| PRlAssign (c : cid) (f : fid)           (* holding the cell's write lock: before *object = new *)
| PRlUnlock (c : cid) (old : fid)         (* before drop(lock)                     reload.rs:288 *)
| PRlGap (c : cid) (old : fid).           (* between the unlock and rebuild_interest_cache()  reload.rs:290 *)

(** ghost carried by a thread for the emission it is executing *)
Record eghost := {
  eg_cur0 : option cid;   (* the thread's current collector when the emission started *)
  eg_ep0 : nat;           (* st_epoch when it started *)
  eg_q0 : bool;           (* no reload was in flight when it started *)
  eg_vals : list fid      (* values of eg_cur0's cell "in play" at the emission's last judging load *)
}.

Record thread := {
  th_pc : pc;
  th_prog : list op;
  th_scopes : list cid;   (* open scoped defaults, innermost first *)
  th_eg : eghost
}.

Inductive ev :=
| EvAsk (t : tid) (c : cid) (cs : csid)                   (* c.register_callsite(cs) was called *)
| EvHint (t : tid) (c : cid)                              (* c.max_level_hint() was called *)
| EvEnabled (t : tid) (c : cid) (cs : csid) (b : bool)    (* c.enabled(cs) was called and returned b *)
| EvEmitEnd (t : tid) (cs : csid) (cur0 : option cid) (quiet : bool) (vals : list fid) (fend : option fid) (d : option cid)
    (* an emission finished; d = the collector whose event()/new_span() was called, if any.
       cur0/quiet/vals/fend are ghost: current collector at the start, "no reload overlapped it",
       the in-play values at its judging load, the value of cur0's cell at the end *)
| EvSetGlobal (t : tid) (c : cid) (ok : bool)
| EvReload (t : tid) (c : cid) (f : fid) (ok : bool)      (* ok = false: Err(CollectorGone) *)
| EvCorrupt (t : tid) (cs : csid).                        (* assert_ne! in push fired / a registration pushed twice *)

Record state := {
  st_n : nat  (* number of threads *);
  st_thr : tid -> thread  (* per-thread state *);
  st_readers : list tid  (* DISPATCHERS RwLock: threads holding it for reading *);
  st_writer : option tid  (* ... for writing *);
  st_disps : list cid  (* Vec<Registrar>, push order *);
  st_list : list csid  (* callsite list, newest first (head = hd) *);
  st_cache : csid -> option interest  (* MacroCallsite.interest; None = 0xFF *);
  st_reg : csid -> regst  (* MacroCallsite.register *);
  st_max : nat  (* MAX_LEVEL *);
  st_ginit : ginit  (* GLOBAL_INIT *);
  st_gdisp : option cid  (* GLOBAL_DISPATCH *);
  st_created : cid -> bool  (* Dispatch::new(c) was started *);
  st_handle : cid -> bool  (* slot[c] holds a Dispatch *);
  st_cell : cid -> fid  (* value of c's reloadable cell *);
  st_cellw : cid -> bool  (* c's cell is write-locked *);
  st_olds : cid -> list (tid * fid)  (* ghost: values replaced since the last rebuild pass began, tagged with the reloading thread *);
  st_cleaning : cid -> list (tid * fid)  (* ghost: values replaced before the rebuild pass now running began *);
  st_epoch : nat  (* ghost: number of reloads started *);
  st_log : list ev  (* newest first *)
}.

Definition set_thr (v : tid -> thread) (s : state) : state :=
  {| st_n := st_n s; st_thr := v; st_readers := st_readers s; st_writer := st_writer s; st_disps := st_disps s;
     st_list := st_list s; st_cache := st_cache s; st_reg := st_reg s; st_max := st_max s; st_ginit := st_ginit s;
     st_gdisp := st_gdisp s; st_created := st_created s; st_handle := st_handle s; st_cell := st_cell s; st_cellw := st_cellw s;
     st_olds := st_olds s; st_cleaning := st_cleaning s; st_epoch := st_epoch s; st_log := st_log s |}.
Definition set_readers (v : list tid) (s : state) : state :=
  {| st_n := st_n s; st_thr := st_thr s; st_readers := v; st_writer := st_writer s; st_disps := st_disps s;
     st_list := st_list s; st_cache := st_cache s; st_reg := st_reg s; st_max := st_max s; st_ginit := st_ginit s;
     st_gdisp := st_gdisp s; st_created := st_created s; st_handle := st_handle s; st_cell := st_cell s; st_cellw := st_cellw s;
     st_olds := st_olds s; st_cleaning := st_cleaning s; st_epoch := st_epoch s; st_log := st_log s |}.
Definition set_writer (v : option tid) (s : state) : state :=
  {| st_n := st_n s; st_thr := st_thr s; st_readers := st_readers s; st_writer := v; st_disps := st_disps s;
     st_list := st_list s; st_cache := st_cache s; st_reg := st_reg s; st_max := st_max s; st_ginit := st_ginit s;
     st_gdisp := st_gdisp s; st_created := st_created s; st_handle := st_handle s; st_cell := st_cell s; st_cellw := st_cellw s;
     st_olds := st_olds s; st_cleaning := st_cleaning s; st_epoch := st_epoch s; st_log := st_log s |}.
Definition set_disps (v : list cid) (s : state) : state :=
  {| st_n := st_n s; st_thr := st_thr s; st_readers := st_readers s; st_writer := st_writer s; st_disps := v;
     st_list := st_list s; st_cache := st_cache s; st_reg := st_reg s; st_max := st_max s; st_ginit := st_ginit s;
     st_gdisp := st_gdisp s; st_created := st_created s; st_handle := st_handle s; st_cell := st_cell s; st_cellw := st_cellw s;
     st_olds := st_olds s; st_cleaning := st_cleaning s; st_epoch := st_epoch s; st_log := st_log s |}.
Definition set_list (v : list csid) (s : state) : state :=
  {| st_n := st_n s; st_thr := st_thr s; st_readers := st_readers s; st_writer := st_writer s; st_disps := st_disps s;
     st_list := v; st_cache := st_cache s; st_reg := st_reg s; st_max := st_max s; st_ginit := st_ginit s;
     st_gdisp := st_gdisp s; st_created := st_created s; st_handle := st_handle s; st_cell := st_cell s; st_cellw := st_cellw s;
     st_olds := st_olds s; st_cleaning := st_cleaning s; st_epoch := st_epoch s; st_log := st_log s |}.
Definition set_cache (v : csid -> option interest) (s : state) : state :=
  {| st_n := st_n s; st_thr := st_thr s; st_readers := st_readers s; st_writer := st_writer s; st_disps := st_disps s;
     st_list := st_list s; st_cache := v; st_reg := st_reg s; st_max := st_max s; st_ginit := st_ginit s;
     st_gdisp := st_gdisp s; st_created := st_created s; st_handle := st_handle s; st_cell := st_cell s; st_cellw := st_cellw s;
     st_olds := st_olds s; st_cleaning := st_cleaning s; st_epoch := st_epoch s; st_log := st_log s |}.
Definition set_reg (v : csid -> regst) (s : state) : state :=
  {| st_n := st_n s; st_thr := st_thr s; st_readers := st_readers s; st_writer := st_writer s; st_disps := st_disps s;
     st_list := st_list s; st_cache := st_cache s; st_reg := v; st_max := st_max s; st_ginit := st_ginit s;
     st_gdisp := st_gdisp s; st_created := st_created s; st_handle := st_handle s; st_cell := st_cell s; st_cellw := st_cellw s;
     st_olds := st_olds s; st_cleaning := st_cleaning s; st_epoch := st_epoch s; st_log := st_log s |}.
Definition set_max (v : nat) (s : state) : state :=
  {| st_n := st_n s; st_thr := st_thr s; st_readers := st_readers s; st_writer := st_writer s; st_disps := st_disps s;
     st_list := st_list s; st_cache := st_cache s; st_reg := st_reg s; st_max := v; st_ginit := st_ginit s;
     st_gdisp := st_gdisp s; st_created := st_created s; st_handle := st_handle s; st_cell := st_cell s; st_cellw := st_cellw s;
     st_olds := st_olds s; st_cleaning := st_cleaning s; st_epoch := st_epoch s; st_log := st_log s |}.
Definition set_ginit (v : ginit) (s : state) : state :=
  {| st_n := st_n s; st_thr := st_thr s; st_readers := st_readers s; st_writer := st_writer s; st_disps := st_disps s;
     st_list := st_list s; st_cache := st_cache s; st_reg := st_reg s; st_max := st_max s; st_ginit := v;
     st_gdisp := st_gdisp s; st_created := st_created s; st_handle := st_handle s; st_cell := st_cell s; st_cellw := st_cellw s;
     st_olds := st_olds s; st_cleaning := st_cleaning s; st_epoch := st_epoch s; st_log := st_log s |}.
Definition set_gdisp (v : option cid) (s : state) : state :=
  {| st_n := st_n s; st_thr := st_thr s; st_readers := st_readers s; st_writer := st_writer s; st_disps := st_disps s;
     st_list := st_list s; st_cache := st_cache s; st_reg := st_reg s; st_max := st_max s; st_ginit := st_ginit s;
     st_gdisp := v; st_created := st_created s; st_handle := st_handle s; st_cell := st_cell s; st_cellw := st_cellw s;
     st_olds := st_olds s; st_cleaning := st_cleaning s; st_epoch := st_epoch s; st_log := st_log s |}.
Definition set_created (v : cid -> bool) (s : state) : state :=
  {| st_n := st_n s; st_thr := st_thr s; st_readers := st_readers s; st_writer := st_writer s; st_disps := st_disps s;
     st_list := st_list s; st_cache := st_cache s; st_reg := st_reg s; st_max := st_max s; st_ginit := st_ginit s;
     st_gdisp := st_gdisp s; st_created := v; st_handle := st_handle s; st_cell := st_cell s; st_cellw := st_cellw s;
     st_olds := st_olds s; st_cleaning := st_cleaning s; st_epoch := st_epoch s; st_log := st_log s |}.
Definition set_handle (v : cid -> bool) (s : state) : state :=
  {| st_n := st_n s; st_thr := st_thr s; st_readers := st_readers s; st_writer := st_writer s; st_disps := st_disps s;
     st_list := st_list s; st_cache := st_cache s; st_reg := st_reg s; st_max := st_max s; st_ginit := st_ginit s;
     st_gdisp := st_gdisp s; st_created := st_created s; st_handle := v; st_cell := st_cell s; st_cellw := st_cellw s;
     st_olds := st_olds s; st_cleaning := st_cleaning s; st_epoch := st_epoch s; st_log := st_log s |}.
Definition set_cell (v : cid -> fid) (s : state) : state :=
  {| st_n := st_n s; st_thr := st_thr s; st_readers := st_readers s; st_writer := st_writer s; st_disps := st_disps s;
     st_list := st_list s; st_cache := st_cache s; st_reg := st_reg s; st_max := st_max s; st_ginit := st_ginit s;
     st_gdisp := st_gdisp s; st_created := st_created s; st_handle := st_handle s; st_cell := v; st_cellw := st_cellw s;
     st_olds := st_olds s; st_cleaning := st_cleaning s; st_epoch := st_epoch s; st_log := st_log s |}.
Definition set_cellw (v : cid -> bool) (s : state) : state :=
  {| st_n := st_n s; st_thr := st_thr s; st_readers := st_readers s; st_writer := st_writer s; st_disps := st_disps s;
     st_list := st_list s; st_cache := st_cache s; st_reg := st_reg s; st_max := st_max s; st_ginit := st_ginit s;
     st_gdisp := st_gdisp s; st_created := st_created s; st_handle := st_handle s; st_cell := st_cell s; st_cellw := v;
     st_olds := st_olds s; st_cleaning := st_cleaning s; st_epoch := st_epoch s; st_log := st_log s |}.
Definition set_olds (v : cid -> list (tid * fid)) (s : state) : state :=
  {| st_n := st_n s; st_thr := st_thr s; st_readers := st_readers s; st_writer := st_writer s; st_disps := st_disps s;
     st_list := st_list s; st_cache := st_cache s; st_reg := st_reg s; st_max := st_max s; st_ginit := st_ginit s;
     st_gdisp := st_gdisp s; st_created := st_created s; st_handle := st_handle s; st_cell := st_cell s; st_cellw := st_cellw s;
     st_olds := v; st_cleaning := st_cleaning s; st_epoch := st_epoch s; st_log := st_log s |}.
Definition set_cleaning (v : cid -> list (tid * fid)) (s : state) : state :=
  {| st_n := st_n s; st_thr := st_thr s; st_readers := st_readers s; st_writer := st_writer s; st_disps := st_disps s;
     st_list := st_list s; st_cache := st_cache s; st_reg := st_reg s; st_max := st_max s; st_ginit := st_ginit s;
     st_gdisp := st_gdisp s; st_created := st_created s; st_handle := st_handle s; st_cell := st_cell s; st_cellw := st_cellw s;
     st_olds := st_olds s; st_cleaning := v; st_epoch := st_epoch s; st_log := st_log s |}.
Definition set_epoch (v : nat) (s : state) : state :=
  {| st_n := st_n s; st_thr := st_thr s; st_readers := st_readers s; st_writer := st_writer s; st_disps := st_disps s;
     st_list := st_list s; st_cache := st_cache s; st_reg := st_reg s; st_max := st_max s; st_ginit := st_ginit s;
     st_gdisp := st_gdisp s; st_created := st_created s; st_handle := st_handle s; st_cell := st_cell s; st_cellw := st_cellw s;
     st_olds := st_olds s; st_cleaning := st_cleaning s; st_epoch := v; st_log := st_log s |}.
Definition set_log (v : list ev) (s : state) : state :=
  {| st_n := st_n s; st_thr := st_thr s; st_readers := st_readers s; st_writer := st_writer s; st_disps := st_disps s;
     st_list := st_list s; st_cache := st_cache s; st_reg := st_reg s; st_max := st_max s; st_ginit := st_ginit s;
     st_gdisp := st_gdisp s; st_created := st_created s; st_handle := st_handle s; st_cell := st_cell s; st_cellw := st_cellw s;
     st_olds := st_olds s; st_cleaning := st_cleaning s; st_epoch := st_epoch s; st_log := v |}.

(** * Small helpers *)
Definition upd {A : Type} (f : nat -> A) (k : nat) (v : A) : nat -> A :=
  fun k' => if k' =? k then v else f k'.

Definition set_pc (p : pc) (th : thread) : thread :=
  {| th_pc := p; th_prog := th_prog th; th_scopes := th_scopes th; th_eg := th_eg th |}.
Definition set_prog (v : list op) (th : thread) : thread :=
  {| th_pc := th_pc th; th_prog := v; th_scopes := th_scopes th; th_eg := th_eg th |}.
Definition set_scopes (v : list cid) (th : thread) : thread :=
  {| th_pc := th_pc th; th_prog := th_prog th; th_scopes := v; th_eg := th_eg th |}.
Definition set_eg (v : eghost) (th : thread) : thread :=
  {| th_pc := th_pc th; th_prog := th_prog th; th_scopes := th_scopes th; th_eg := v |}.
Definition set_vals (v : list fid) (g : eghost) : eghost :=
  {| eg_cur0 := eg_cur0 g; eg_ep0 := eg_ep0 g; eg_q0 := eg_q0 g; eg_vals := v |}.

Definition upd_thr (t : tid) (th : thread) (s : state) : state := set_thr (upd (st_thr s) t th) s.
Definition goto (t : tid) (p : pc) (s : state) : state := upd_thr t (set_pc p (st_thr s t)) s.
Definition emit_log (e : ev) (s : state) : state := set_log (e :: st_log s) s.

Definition mem (x : nat) (l : list nat) : bool := existsb (Nat.eqb x) l.
Definition oeqb (o : option nat) (x : nat) : bool := match o with Some y => y =? x | None => false end.

(** * Derived notions: current collector, liveness (strong count > 0), in-flight creation / reload *)

(** dispatch.rs get_default, abstracted to its specification (C02): innermost scope, else the global default *)
Definition cur (s : state) (t : tid) : option cid :=
  match th_scopes (st_thr s t) with
  | c :: _ => Some c
  | [] => match st_ginit s with GInitialized => st_gdisp s | _ => None end
  end.

Definition kind_new (k : wkind) (c : cid) : bool := match k with KNew c' => c' =? c | _ => false end.
Definition pc_kind (p : pc) : option wkind :=
  match p with
  | PWrLock k | PWrRetUp k _ _ _ | PWrRetCall k _ _ _ _ | PWrAskUp k _ _ _ _ _ | PWrAskCall k _ _ _ _ _ _
  | PWrNext k _ _ | PWrSetMax k _ | PWrUnlock k => Some k
  | _ => None
  end.
(** a strong reference held in a local variable of the program point *)
Definition pc_tmp (p : pc) : option cid :=
  match p with
  | PRgCall _ c _ _ | PWrRetCall _ c _ _ _ | PWrAskCall _ _ _ c _ _ _ | PSgCas c | PSgStore c => Some c
  | _ => None
  end.
Definition pc_new (p : pc) (c : cid) : bool := match pc_kind p with Some k => kind_new k c | None => false end.
Definition pc_holds (p : pc) (c : cid) : bool := pc_new p c || oeqb (pc_tmp p) c.
Definition th_holds (th : thread) (c : cid) : bool := mem c (th_scopes th) || pc_holds (th_pc th) c.

Definition any_thread (s : state) (P : thread -> bool) : bool :=
  existsb (fun t => P (st_thr s t)) (seq 0 (st_n s)).

(** Arc strong count of collector c is non-zero: Registrar::upgrade / Weak::upgrade succeed *)
Definition live (s : state) (c : cid) : bool :=
  st_handle s c || oeqb (st_gdisp s) c || any_thread s (fun th => th_holds th c).
(** Dispatch::new(c) has started and not yet returned *)
Definition newing (s : state) (c : cid) : bool := any_thread s (fun th => pc_new (th_pc th) c).

Definition pc_reloading (p : pc) : bool :=
  match p with
  | PRlLock _ _ | PRlAssign _ _ | PRlUnlock _ _ | PRlGap _ _ => true
  | _ => match pc_kind p with Some (KReload _ _) => true | _ => false end
  end.
Definition reload_inflight (s : state) : bool := any_thread s (fun th => pc_reloading (th_pc th)).

(** the reloadable cell is an [Arc] of its own: the reload handle holds a [Weak] to it, the collector a strong reference,
    and a reload in flight holds the upgraded [Arc] (the local `inner` of Handle::modify) until it returns *)
Definition pc_cell (p : pc) : option cid :=
  match p with
  | PRlLock c _ | PRlAssign c _ | PRlUnlock c _ | PRlGap c _ => Some c
  | _ => match pc_kind p with Some (KReload c _) => Some c | _ => None end
  end.
Definition cell_live (s : state) (c : cid) : bool := live s c || any_thread s (fun th => oeqb (pc_cell (th_pc th)) c).

(** ghost: the values of c's cell that may still be reflected in cached verdicts: the current one and those
    replaced by a reload whose assignment has not yet been followed by a complete rebuild pass *)
Definition inplay (s : state) (c : cid) : list fid := st_cell s c :: map snd (st_olds s c ++ st_cleaning s c).
Definition vals_now (s : state) (o : option cid) : list fid := match o with Some c => inplay s c | None => [] end.

(** * Emission bookkeeping (ghost + log) *)
Definition judge (t : tid) (s : state) : state :=
  let th := st_thr s t in
  upd_thr t (set_eg (set_vals (vals_now s (eg_cur0 (th_eg th))) (th_eg th)) th) s.
Definition judge_with (t : tid) (v : list fid) (s : state) : state :=
  let th := st_thr s t in upd_thr t (set_eg (set_vals v (th_eg th)) th) s.

Definition emit_end (t : tid) (cs : csid) (d : option cid) (s : state) : state :=
  let g := th_eg (st_thr s t) in
  goto t PIdle
    (emit_log (EvEmitEnd t cs (eg_cur0 g) (eg_q0 g && (eg_ep0 g =? st_epoch s)) (eg_vals g)
                         (option_map (st_cell s) (eg_cur0 g)) d) s).

(** push's `registration.next.store(head)` + assert_ne!: flags the impossible case *)
Definition chk (t : tid) (cs : csid) (s : state) : state :=
  if mem cs (st_list s) then emit_log (EvCorrupt t cs) s else s.
(** pointer equality of two list heads *)
Definition hd_eq (a b : list csid) : bool :=
  match a, b with
  | [], [] => true
  | x :: _, y :: _ => x =? y
  | _, _ => false
  end.

(** * The first micro-step of each operation (thread is at PIdle, the op has been popped) *)
Definition start_op (W : world) (s : state) (t : tid) (o : op) : state :=
  match o with
  | OEmit cs =>
      (* level_enabled!: MAX_LEVEL.load *)
      let c0 := cur s t in
      let g := {| eg_cur0 := c0; eg_ep0 := st_epoch s; eg_q0 := negb (reload_inflight s); eg_vals := vals_now s c0 |} in
      let s1 := upd_thr t (set_eg g (st_thr s t)) s in
      if w_level W cs <=? st_max s then goto t (PEmInterest cs) s1 else emit_end t cs None s1
  | ONew c f =>
      if st_created s c then s
      else goto t (PWrLock (KNew c)) (set_created (upd (st_created s) c true) (set_cell (upd (st_cell s) c f) s))
  | ODrop c => set_handle (upd (st_handle s) c false) s
  | OSetDefault c =>
      if st_handle s c then upd_thr t (set_scopes (c :: th_scopes (st_thr s t)) (st_thr s t)) s else s
  | OCloseScope => upd_thr t (set_scopes (tl (th_scopes (st_thr s t))) (st_thr s t)) s
  | OSetGlobal c =>
      (* slot[c].clone() *)
      if st_handle s c then goto t (PSgCas c) s else s
  | ORebuild => goto t (PWrLock KRebuild) s
  | OReload c f =>
      if st_created s c then
        (* self.inner.upgrade(): the cell's own Arc *)
        if cell_live s c then goto t (PRlLock c f) (set_epoch (S (st_epoch s)) s)
        else emit_log (EvReload t c f false) s
      else s
  end.

(** * One micro-step of thread t *)
Definition after_load (t : tid) (cs : csid) (first : bool) (s : state) : state :=
  match st_cache s cs with
  | Some INever => emit_end t cs None (judge t s)
  | Some IAlways => goto t (PEmDispatch cs true) (judge t s)
  | Some ISometimes => goto t (PEmEnabled cs) s
  | None => if first then goto t (PEmRegCas cs) s else goto t (PEmEnabled cs) s
  end.

Definition step (W : world) (s : state) (t : tid) : option state :=
  if negb (t <? st_n s) then None else
  let th := st_thr s t in
  match th_pc th with
  | PIdle =>
      match th_prog th with
      | [] => None
      | o :: rest => Some (start_op W (upd_thr t (set_prog rest th) s) t o)
      end
  (* ---- emission *)
  | PEmInterest cs => Some (after_load t cs true s)
  | PEmRegCas cs =>
      match st_reg s cs with
      | Unreg => Some (goto t (PRgRLock cs) (set_reg (upd (st_reg s) cs Registering) s))
      | Registered => Some (goto t (PEmReload cs) s)
      | Registering => Some (goto t (PEmEnabled cs) s)      (* the loser: Interest::sometimes() *)
      end
  | PRgRLock cs =>
      match st_writer s with
      | Some _ => None
      | None => Some (goto t (PRgUp cs (st_disps s) None) (set_readers (t :: st_readers s) s))
      end
  | PRgUp cs (c :: todo) acc =>
      Some (if live s c then goto t (PRgCall cs c todo acc) s else goto t (PRgUp cs todo acc) s)
  | PRgUp cs [] acc =>
      Some (goto t (PRgPushHead cs) (set_cache (upd (st_cache s) cs (Some (finish acc))) s))
  | PRgCall cs c todo acc =>
      if st_cellw s c then None
      else Some (goto t (PRgUp cs todo (combine acc (w_interest W (st_cell s c) cs))) (emit_log (EvAsk t c cs) s))
  | PRgPushHead cs => Some (goto t (PRgPushCas cs (st_list s)) (chk t cs s))
  | PRgPushCas cs l0 =>
      Some (if hd_eq (st_list s) l0 then goto t (PRgRUnlock cs) (set_list (cs :: st_list s) s)
            else goto t (PRgPushCas cs (st_list s)) (chk t cs s))
  | PRgRUnlock cs => Some (goto t (PRgStoreReg cs) (set_readers (remove Nat.eq_dec t (st_readers s)) s))
  | PRgStoreReg cs => Some (goto t (PEmReload cs) (set_reg (upd (st_reg s) cs Registered) s))
  | PEmReload cs => Some (after_load t cs false s)
  | PEmEnabled cs =>
      match cur s t with
      | None => Some (emit_end t cs None (judge t s))       (* NoCollector::enabled = false *)
      | Some c => Some (goto t (PEmEnCall cs c) s)
      end
  | PEmEnCall cs c =>
      if st_cellw s c then None
      else
        let b := w_enabled W (st_cell s c) cs in
        let s1 := emit_log (EvEnabled t c cs b) (judge_with t [st_cell s c] s) in
        Some (if b then goto t (PEmDispatch cs false) s1 else emit_end t cs None s1)
  | PEmDispatch cs _ => Some (emit_end t cs (cur s t) s)
  (* ---- writer section *)
  | PWrLock k =>
      match st_writer s, st_readers s with
      | None, [] =>
          let s1 := set_writer (Some t)
                      (set_cleaning (fun c => st_olds s c ++ st_cleaning s c) (set_olds (fun _ => []) s)) in
          match k with
          | KNew c => Some (goto t (PWrRetUp k (st_disps s ++ [c]) [] 0) (set_disps (st_disps s ++ [c]) s1))
          | _ => Some (goto t (PWrRetUp k (st_disps s) [] 0) s1)
          end
      | _, _ => None
      end
  | PWrRetUp k (c :: todo) kept m =>
      Some (if live s c then goto t (PWrRetCall k c todo kept m) s else goto t (PWrRetUp k todo kept m) s)
  | PWrRetUp k [] kept m =>
      let s1 := set_disps kept s in
      match st_list s with
      | [] => Some (goto t (PWrSetMax k m) s1)
      | cs :: more => Some (goto t (PWrAskUp k m cs kept None more) s1)
      end
  | PWrRetCall k c todo kept m =>
      if st_cellw s c then None
      else Some (goto t (PWrRetUp k todo (kept ++ [c]) (Nat.max m (w_hint W (st_cell s c)))) (emit_log (EvHint t c) s))
  | PWrAskUp k m cs (c :: todo) acc more =>
      Some (if live s c then goto t (PWrAskCall k m cs c todo acc more) s else goto t (PWrAskUp k m cs todo acc more) s)
  | PWrAskUp k m cs [] acc more =>
      Some (goto t (PWrNext k m more) (set_cache (upd (st_cache s) cs (Some (finish acc))) s))
  | PWrAskCall k m cs c todo acc more =>
      if st_cellw s c then None
      else Some (goto t (PWrAskUp k m cs todo (combine acc (w_interest W (st_cell s c) cs)) more)
                      (emit_log (EvAsk t c cs) s))
  | PWrNext k m [] => Some (goto t (PWrSetMax k m) s)
  | PWrNext k m (cs :: more) => Some (goto t (PWrAskUp k m cs (st_disps s) None more) s)
  | PWrSetMax k m => Some (goto t (PWrUnlock k) (set_max m s))
  | PWrUnlock k =>
      let s1 := set_writer None (set_cleaning (fun _ => []) s) in
      match k with
      | KNew c => Some (goto t PIdle (set_handle (upd (st_handle s) c true) s1))
      | KRebuild => Some (goto t PIdle s1)
      | KReload c _ => Some (goto t PIdle (emit_log (EvReload t c (st_cell s c) true) s1))
      end
  (* ---- set_global_default *)
  | PSgCas c =>
      (* GLOBAL_INIT.compare_exchange(UNINITIALIZED, INITIALIZING) *)
      match st_ginit s with
      | GUninit => Some (goto t (PSgStore c) (set_ginit GInitializing s))
      | _ => Some (goto t PIdle (emit_log (EvSetGlobal t c false) s))
      end
  | PSgStore c => Some (goto t (PSgInit c) (set_gdisp (Some c) s))
  | PSgInit c => Some (goto t PIdle (emit_log (EvSetGlobal t c true) (set_ginit GInitialized s)))
  (* ---- reload *)
  | PRlLock c f =>
      if st_cellw s c then None else Some (goto t (PRlAssign c f) (set_cellw (upd (st_cellw s) c true) s))
  | PRlAssign c f =>
      Some (goto t (PRlUnlock c (st_cell s c))
              (set_cell (upd (st_cell s) c f) (set_olds (upd (st_olds s) c ((t, st_cell s c) :: st_olds s c)) s)))
  | PRlUnlock c old => Some (goto t (PRlGap c old) (set_cellw (upd (st_cellw s) c false) s))
  | PRlGap c old => Some (goto t (PWrLock (KReload c old)) s)
  end.

(** * Initial state *)
Definition eg0 : eghost := {| eg_cur0 := None; eg_ep0 := 0; eg_q0 := true; eg_vals := [] |}.
Definition init_thread (p : list op) : thread := {| th_pc := PIdle; th_prog := p; th_scopes := []; th_eg := eg0 |}.
Definition init (progs : list (list op)) : state :=
  {| st_n := length progs; st_thr := fun t => init_thread (nth t progs []);
     st_readers := []; st_writer := None; st_disps := []; st_list := [];
     st_cache := fun _ => None; st_reg := fun _ => Unreg; st_max := 0;
     st_ginit := GUninit; st_gdisp := None; st_created := fun _ => false; st_handle := fun _ => false;
     st_cell := fun _ => 0; st_cellw := fun _ => false;
     st_olds := fun _ => []; st_cleaning := fun _ => []; st_epoch := 0; st_log := [] |}.

Definition th_done (th : thread) : bool :=
  match th_pc th, th_prog th with PIdle, [] => true | _, _ => false end.
Definition finished (s : state) : bool := forallb (fun t => th_done (st_thr s t)) (seq 0 (st_n s)).

(** * The H3 yield point at which the real code is parked in each program point (0 = between operations,
      83 = the harness' own point inside the closure it passes to Handle::modify: the cell's write lock is held,
      999 = no yield point: invisible to the forced-schedule harness) *)
Definition yield_id (p : pc) : nat :=
  match p with
  | PIdle => 0
  | PEmInterest _ => 60 | PEmRegCas _ => 61
  | PRgRLock _ => 20
  | PRgUp _ (_ :: _) _ => 30 | PRgUp _ [] _ => 31
  | PRgCall _ _ _ _ => 81
  | PRgPushHead _ => 42 | PRgPushCas _ _ => 44 | PRgRUnlock _ => 29 | PRgStoreReg _ => 62
  | PEmReload _ => 63 | PEmEnabled _ => 64 | PEmEnCall _ _ => 81
  | PEmDispatch _ true => 64 | PEmDispatch _ false => 999
  | PWrLock _ => 10
  | PWrRetUp _ (_ :: _) _ _ => 32 | PWrRetUp _ [] _ _ => 40
  | PWrRetCall _ _ _ _ _ => 81
  | PWrAskUp _ _ _ (_ :: _) _ _ => 30 | PWrAskUp _ _ _ [] _ _ => 31
  | PWrAskCall _ _ _ _ _ _ _ => 81
  | PWrNext _ _ _ => 41 | PWrSetMax _ _ => 50 | PWrUnlock _ => 19
  | PSgCas _ => 70 | PSgStore _ => 71 | PSgInit _ => 72
  | PRlLock _ _ => 80 | PRlAssign _ _ => 83 | PRlUnlock _ _ => 999 | PRlGap _ _ => 82
  end.

(** * Runners used by the correspondence (executed with vm_compute by driver/props/c04.py, c12.py) *)

(** a schedule entry at yield granularity: one step, then further steps while parked at an invisible point *)
Fixpoint settle (W : world) (fuel : nat) (s : state) (t : tid) : state :=
  match fuel with
  | O => s
  | S k => if yield_id (th_pc (st_thr s t)) =? 999
           then match step W s t with Some s' => settle W k s' t | None => s end
           else s
  end.
(** returns the state and, per entry, the yield id the thread is parked at afterwards (998 = stutter) *)
Fixpoint run_vis (W : world) (s : state) (sched : list tid) : state * list nat :=
  match sched with
  | [] => (s, [])
  | t :: rest =>
      match step W s t with
      | None => let '(s', ys) := run_vis W s rest in (s', 998 :: ys)
      | Some s1 =>
          let s2 := settle W 8 s1 t in
          let '(s', ys) := run_vis W s2 rest in (s', yield_id (th_pc (st_thr s2 t)) :: ys)
      end
  end.

(** operation granularity: append one op to thread t's program and run t until it is idle again.
    997 in the second component = blocked or out of fuel (cannot happen when every other thread is idle) *)
Definition push_op (t : tid) (o : op) (s : state) : state :=
  let th := st_thr s t in upd_thr t (set_prog (th_prog th ++ [o]) th) s.
Fixpoint run_idle (W : world) (fuel : nat) (s : state) (t : tid) : state * nat :=
  match fuel with
  | O => (s, 997)
  | S k => match step W s t with
           | None => (s, 997)
           | Some s' => match th_pc (st_thr s' t) with PIdle => (s', 0) | _ => run_idle W k s' t end
           end
  end.

Definition enc_o (o : option nat) : nat := match o with Some x => S x | None => 0 end.
Definition enc_b (b : bool) : nat := if b then 1 else 0.
(** observable part of an event (ghost fields dropped) *)
Definition enc_ev (e : ev) : list nat :=
  match e with
  | EvAsk t c cs => [1; t; c; cs]
  | EvHint t c => [2; t; c]
  | EvEnabled t c cs b => [3; t; c; cs; enc_b b]
  | EvEmitEnd t cs _ _ _ _ d => [4; t; cs; enc_o d]
  | EvSetGlobal t c ok => [5; t; c; enc_b ok]
  | EvReload t c _ ok => [6; t; c; enc_b ok]
  | EvCorrupt t cs => [7; t; cs]
  end.
Definition log_since (s0 s1 : state) : list (list nat) :=
  map enc_ev (rev (firstn (length (st_log s1) - length (st_log s0)) (st_log s1))).

(** a history of (thread, op): per op, (status, events in order, MAX_LEVEL afterwards) *)
Fixpoint run_hist (W : world) (s : state) (h : list (tid * op)) : state * list (nat * list (list nat) * nat) :=
  match h with
  | [] => (s, [])
  | (t, o) :: rest =>
      let '(s1, st) := run_idle W 4000 (push_op t o s) t in
      let '(s', obs) := run_hist W s1 rest in
      (s', (st, log_since s s1, st_max s1) :: obs)
  end.

(** a case: quiescent history [pre] (set-up), then the threads get their programs and run under the forced
    schedule, then a quiescent history [post] (probes).  Result: per-op observations of [pre]; per schedule
    entry the yield id; the events of the scheduled part; whether every thread finished; MAX_LEVEL; per-op
    observations of [post]. *)
Definition load_progs (progs : list (list op)) (s : state) : state :=
  set_thr (fun t => let th := st_thr s t in set_prog (th_prog th ++ nth t progs []) th) s.
Definition run_case (W : world) (n : nat) (pre : list (tid * op)) (progs : list (list op)) (sched : list tid)
                    (post : list (tid * op))
  : list (nat * list (list nat) * nat) * list nat * list (list nat) * bool * nat * list (nat * list (list nat) * nat) :=
  let s0 := init (repeat [] n) in
  let '(s1, obs0) := run_hist W s0 pre in
  let s2 := load_progs progs s1 in
  let '(s3, ys) := run_vis W s2 sched in
  let '(_, obs2) := run_hist W s3 post in
  (obs0, ys, log_since s2 s3, finished s3, st_max s3, obs2).

(** the same with every number as [N] (binary): what the driver evaluates and prints *)
Definition obsN (x : list (nat * list (list nat) * nat)) : list (N * list (list N) * N) :=
  map (fun '(st, evs, mx) => (N.of_nat st, map (map N.of_nat) evs, N.of_nat mx)) x.
Definition run_caseN (W : world) (n : nat) (pre : list (tid * op)) (progs : list (list op)) (sched : list tid)
                     (post : list (tid * op)) :=
  let '(obs0, ys, lg, fin, mx, obs2) := run_case W n pre progs sched post in
  (obsN obs0, map N.of_nat ys, map (map N.of_nat) lg, fin, N.of_nat mx, obsN obs2).

(** worlds from tables: a filter value is (interest per callsite, enabled per callsite, hint) *)
Definition interest_of_nat (n : nat) : interest := match n with 0 => INever | 1 => ISometimes | _ => IAlways end.
Definition mk_world (filters : list (list nat * list bool * nat)) (levels : list nat) : world :=
  {| w_interest := fun f cs => interest_of_nat (nth cs (fst (fst (nth f filters ([], [], 0)))) 0);
     w_enabled := fun f cs => nth cs (snd (fst (nth f filters ([], [], 0)))) false;
     w_hint := fun f => snd (nth f filters ([], [], 0));
     w_level := fun cs => nth cs levels 0 |}.

(** decidable form of the property's side condition on a table-defined world (checked by the driver, with the kernel,
    for every world it generates; [Sched_World.mk_world_wf] proves it implies [WFworld]) *)
Definition wf_rowb (levels : list nat) (row : list nat * list bool * nat) : bool :=
  let '(ints, ens, h) := row in
  forallb (fun cs =>
             let i := nth cs ints 0 in
             let e := nth cs ens false in
             (match i with 0 => negb e | 1 => true | _ => e end) && ((i =? 0) || (nth cs levels 0 <=? h)))
          (seq 0 (Nat.max (length ints) (Nat.max (length ens) (length levels)))).
Definition wf_tableb (filters : list (list nat * list bool * nat)) (levels : list nat) : bool :=
  forallb (wf_rowb levels) filters.
