(** Registration discipline and progress: the REGISTERING CAS gives every callsite at most one registering
    thread, so the intrusive list never contains a registration twice (the self-link / duplicate assertion of
    [push] never fires), a failed list CAS means another push succeeded, a successful one means the list is
    exactly the one loaded; cell write locks are held only across the assignment; and no reachable state with an
    unfinished thread is stuck (deadlock freedom). *)
From Coq Require Import List Arith Bool Lia.
From TV Require Import Dispatch.Sched_Model Dispatch.Sched_Proofs_Base Dispatch.Sched_Proofs_Lock.
Import ListNotations.

(** the registration section of a callsite: from winning the REGISTERING CAS to the store of REGISTERED *)
Definition reg_of (p : pc) : option csid :=
  match p with
  | PRgRLock cs | PRgUp cs _ _ | PRgCall cs _ _ _ | PRgPushHead cs | PRgPushCas cs _ | PRgRUnlock cs | PRgStoreReg cs => Some cs
  | _ => None
  end.
Definition pushed (p : pc) : bool := match p with PRgRUnlock _ | PRgStoreReg _ => true | _ => false end.
(** the interest has been stored, the push is still to come *)
Definition pushing (p : pc) : option csid :=
  match p with PRgPushHead cs | PRgPushCas cs _ => Some cs | _ => None end.
Definition cached_pc (p : pc) : bool :=
  match p with PRgPushHead _ | PRgPushCas _ _ | PRgRUnlock _ | PRgStoreReg _ => true | _ => false end.
(** holding the write lock of a reloadable cell *)
Definition pc_cellw (p : pc) : option cid :=
  match p with PRlAssign c _ | PRlUnlock c _ => Some c | _ => None end.

(** the part of the callsite list a writer still has to walk (current callsite first) *)
Definition walk_of (p : pc) : option (list csid) :=
  match p with
  | PWrAskUp _ _ cs _ _ more | PWrAskCall _ _ cs _ _ _ more => Some (cs :: more)
  | PWrNext _ _ more => Some more
  | _ => None
  end.

Definition no_corrupt (l : list ev) : Prop := forall t cs, ~ In (EvCorrupt t cs) l.

Record InvR (s : state) : Prop := {
  R1 : forall t cs, t < st_n s -> reg_of (pcof s t) = Some cs -> st_reg s cs = Registering;
  R1u : forall t1 t2 cs, t1 < st_n s -> t2 < st_n s -> reg_of (pcof s t1) = Some cs -> reg_of (pcof s t2) = Some cs -> t1 = t2;
  R2 : forall cs, st_reg s cs = Unreg -> ~ In cs (st_list s) /\ st_cache s cs = None;
  R3 : NoDup (st_list s);
  R4a : forall t cs, t < st_n s -> reg_of (pcof s t) = Some cs -> pushed (pcof s t) = false -> ~ In cs (st_list s);
  R4b : forall t cs, t < st_n s -> reg_of (pcof s t) = Some cs -> pushed (pcof s t) = true -> In cs (st_list s);
  R5 : forall t cs l0, t < st_n s -> pcof s t = PRgPushCas cs l0 -> exists pre, st_list s = pre ++ l0;
  R6 : no_corrupt (st_log s);
  R7 : forall cs, st_cache s cs <> None -> In cs (st_list s) \/ exists t, t < st_n s /\ pushing (pcof s t) = Some cs;
  R8 : forall cs, In cs (st_list s) -> st_cache s cs <> None;
  R9 : forall cs, st_reg s cs = Registered -> In cs (st_list s);
  R10 : forall t cs, t < st_n s -> reg_of (pcof s t) = Some cs -> cached_pc (pcof s t) = true -> st_cache s cs <> None;
  R11 : forall t l, t < st_n s -> walk_of (pcof s t) = Some l -> exists vis, st_list s = vis ++ l;
  R12 : forall cs, st_reg s cs = Registering -> exists t, t < st_n s /\ reg_of (pcof s t) = Some cs;
  CW : forall c, st_cellw s c = true -> exists t, t < st_n s /\ pc_cellw (pcof s t) = Some c
}.

Lemma InvR_init : forall progs, InvR (init progs).
Proof.
  intros. constructor; unfold pcof, no_corrupt; simpl; intros; try discriminate; try contradiction; auto.
  all: try solve [constructor | congruence | tauto].
Qed.

Lemma InvR_step : forall W s t s', InvL s -> InvR s -> step W s t = Some s' -> InvR s'.
Proof.
  intros W s t s' IL IR H.
  destruct (step_frame _ _ _ _ H) as [Hlt0 [Hn Hoth]].
  assert (Hpo : forall t', t' <> t -> pcof s' t' = pcof s t') by (intros; unfold pcof; rewrite Hoth; auto).
  destruct IR as [r1 r1u r2 r3 r4a r4b r5 r6 r7 r8 r9 r10 r11 r12 cw].
  assert (Hsame : forall t' cs, t' < st_n s -> reg_of (pcof s t') = Some cs -> reg_of (pcof s t) = Some cs -> t' = t)
    by (intros; eapply r1u; eauto).
  (* facts about the moving thread, to be specialised after inversion *)
  pose proof (r1 t) as r1t. pose proof (r4a t) as r4at. pose proof (r4b t) as r4bt. pose proof (r5 t) as r5t.
  pose proof (r10 t) as r10t. pose proof (r11 t) as r11t.
  unfold pcof in r1t, r4at, r4bt, r5t, r10t, r11t, Hsame.
  constructor; rewrite ?Hn.
  (* R1 *)
  - intros u cs Hu. destruct (Nat.eq_dec u t) as [->|Hne]; [|rewrite Hpo by auto].
    + clear Hpo. revert r1t. unfold pcof. try clear r1; try clear r1u; try clear r2; try clear r3; try clear r4a; try clear r4b; try clear r5; try clear r6; try clear r7; try clear r8; try clear r9; try clear r10; try clear r11; try clear r12; try clear cw; try clear IL; step_inv H; self; rewrite ?Hpc; cbn [reg_of]; intros r1t E; try discriminate E;
        try (inversion E; subst; clear E); rewrite ?upd_same; auto.
    + intros E. pose proof (r1 u cs Hu E) as Hr. revert Hr. clear Hpo.
      pose proof (fun H1 => Hsame u cs Hu E H1) as Hs. revert Hs. unfold pcof.
      try clear r1; try clear r1u; try clear r2; try clear r3; try clear r4a; try clear r4b; try clear r5; try clear r6; try clear r7; try clear r8; try clear r9; try clear r10; try clear r11; try clear r12; try clear cw; try clear IL; step_inv H; self; rewrite ?Hpc; cbn [reg_of]; auto; intros Hs Hr; upd_cases; auto; try congruence.
      exfalso. apply Hne. apply Hs. reflexivity.
  (* R1u *)
  - intros t1 t2 cs H1 H2.
    destruct (Nat.eq_dec t1 t) as [->|Hne1]; destruct (Nat.eq_dec t2 t) as [->|Hne2]; auto;
      rewrite ?(Hpo t1), ?(Hpo t2) by auto; eauto.
    + intros E1 E2. pose proof (r1 t2 cs H2 E2) as Hr. pose proof (fun H1 => Hsame t2 cs H2 E2 H1) as Hs.
      symmetry. revert E1 Hr Hs. clear Hpo. unfold pcof.
      try clear r1; try clear r1u; try clear r2; try clear r3; try clear r4a; try clear r4b; try clear r5; try clear r6; try clear r7; try clear r8; try clear r9; try clear r10; try clear r11; try clear r12; try clear cw; try clear IL; step_inv H; self; rewrite ?Hpc; cbn [reg_of]; intros E1; try discriminate E1; inversion E1; subst; intros Hr Hs; auto; congruence.
    + intros E2 E1. pose proof (r1 t1 cs H1 E2) as Hr. pose proof (fun H1' => Hsame t1 cs H1 E2 H1') as Hs.
      revert E1 Hr Hs. clear Hpo. unfold pcof.
      try clear r1; try clear r1u; try clear r2; try clear r3; try clear r4a; try clear r4b; try clear r5; try clear r6; try clear r7; try clear r8; try clear r9; try clear r10; try clear r11; try clear r12; try clear cw; try clear IL; step_inv H; self; rewrite ?Hpc; cbn [reg_of]; intros E1; try discriminate E1; inversion E1; subst; intros Hr Hs; auto; congruence.
  (* R2 *)
  - intros cs. pose proof (r2 cs) as Hr. revert Hr r1t r4at r10t r11t. clear Hpo. unfold pcof.
    try clear r1; try clear r1u; try clear r2; try clear r3; try clear r4a; try clear r4b; try clear r5; try clear r6; try clear r7; try clear r8; try clear r9; try clear r10; try clear r11; try clear r12; try clear cw; try clear IL; step_inv H; self; rewrite ?Hpc; cbn [reg_of pushed cached_pc walk_of]; auto; intros Hr r1t r4at r10t r11t E; upd_cases; try discriminate E; auto;
      try (specialize (r1t _ Hlt0 eq_refl); congruence).
    + destruct (Hr E) as [Hr1 Hr2]. split; auto. intros [->|Hin]; auto.
      specialize (r1t _ Hlt0 eq_refl). congruence.
    + exfalso. destruct (r11t _ Hlt0 eq_refl) as [vis Hv]. destruct (Hr E) as [Hr1 _]. apply Hr1. rewrite Hv.
      apply in_or_app. right. left. reflexivity.
  (* R3 *)
  - revert r4at r3. clear Hpo. unfold pcof. try clear r1; try clear r1u; try clear r2; try clear r4a; try clear r4b; try clear r5; try clear r6; try clear r7; try clear r8; try clear r9; try clear r10; try clear r11; try clear r12; try clear cw; try clear IL; step_inv H; self; rewrite ?Hpc; cbn [reg_of pushed]; intros r4at r3; auto.
    constructor; auto.
  (* R4a *)
  - intros u cs Hu. destruct (Nat.eq_dec u t) as [->|Hne]; [|rewrite Hpo by auto].
    + clear Hpo. pose proof (r2 cs) as Hr2. revert r4at Hr2. unfold pcof.
      try clear r1; try clear r1u; try clear r2; try clear r3; try clear r4a; try clear r4b; try clear r5; try clear r6; try clear r7; try clear r8; try clear r9; try clear r10; try clear r11; try clear r12; try clear cw; try clear IL; step_inv H; self; rewrite ?Hpc; cbn [reg_of pushed]; intros r4at Hr2 E; try discriminate E;
        try (inversion E; subst; clear E); intros E2; try discriminate E2; auto.
      apply Hr2. assumption.
    + intros E P. pose proof (r4a u cs Hu E P) as Hr. pose proof (fun H1 => Hsame u cs Hu E H1) as Hs. revert Hr Hs. clear Hpo.
      unfold pcof. try clear r1; try clear r1u; try clear r2; try clear r3; try clear r4a; try clear r4b; try clear r5; try clear r6; try clear r7; try clear r8; try clear r9; try clear r10; try clear r11; try clear r12; try clear cw; try clear IL; step_inv H; self; rewrite ?Hpc; cbn [reg_of]; auto.
      intros Hr Hs [->|Hin]; auto.
  (* R4b *)
  - intros u cs Hu. destruct (Nat.eq_dec u t) as [->|Hne]; [|rewrite Hpo by auto].
    + clear Hpo. revert r4bt. unfold pcof.
      try clear r1; try clear r1u; try clear r2; try clear r3; try clear r4a; try clear r4b; try clear r5; try clear r6; try clear r7; try clear r8; try clear r9; try clear r10; try clear r11; try clear r12; try clear cw; try clear IL; step_inv H; self; rewrite ?Hpc; cbn [reg_of pushed]; intros r4bt E; try discriminate E;
        try (inversion E; subst; clear E); intros E2; try discriminate E2; auto.
      left. reflexivity.
    + intros E P. pose proof (r4b u cs Hu E P) as Hr. revert Hr. clear Hpo.
      unfold pcof. try clear r1; try clear r1u; try clear r2; try clear r3; try clear r4a; try clear r4b; try clear r5; try clear r6; try clear r7; try clear r8; try clear r9; try clear r10; try clear r11; try clear r12; try clear cw; try clear IL; step_inv H; self; auto. intros; right; auto.
  (* R5 *)
  - intros u cs l0 Hu. destruct (Nat.eq_dec u t) as [->|Hne]; [|rewrite Hpo by auto].
    + clear Hpo. revert r5t. unfold pcof.
      try clear r1; try clear r1u; try clear r2; try clear r3; try clear r4a; try clear r4b; try clear r5; try clear r6; try clear r7; try clear r8; try clear r9; try clear r10; try clear r11; try clear r12; try clear cw; try clear IL; step_inv H; self; rewrite ?Hpc; intros r5t E; try discriminate E; inversion E; subst; try (exists []; reflexivity); eauto.
    + intros E. destruct (r5 u cs l0 Hu E) as [pre Hp]. revert Hp. clear Hpo.
      unfold pcof. try clear r1; try clear r1u; try clear r2; try clear r3; try clear r4a; try clear r4b; try clear r5; try clear r6; try clear r7; try clear r8; try clear r9; try clear r10; try clear r11; try clear r12; try clear cw; try clear IL; step_inv H; self; eauto.
      intros ->. eexists (_ :: pre). reflexivity.
  (* R6 *)
  - revert r4at r6. clear Hpo. unfold no_corrupt, pcof.
    try clear r1; try clear r1u; try clear r2; try clear r3; try clear r4a; try clear r4b; try clear r5; try clear r6; try clear r7; try clear r8; try clear r9; try clear r10; try clear r11; try clear r12; try clear cw; try clear IL; step_inv H; self; rewrite ?Hpc; cbn [reg_of pushed]; auto; intros r4at r6 u cs'; simpl; intros Hin;
      repeat match goal with Hin : _ \/ _ |- _ => destruct Hin as [Hin|Hin]; try discriminate Hin end;
      try (eapply r6; eassumption).
    all: inversion Hin; subst; eapply r4at; eauto; apply mem_In; assumption.
  (* R7 *)
  - intros cs Hc.
    assert (G : forall u, u < st_n s -> pushing (pcof s u) = Some cs -> (u <> t \/ pushing (pcof s' t) = Some cs \/ In cs (st_list s')) ->
                In cs (st_list s') \/ exists t', t' < st_n s /\ pushing (pcof s' t') = Some cs).
    { intros u Hu Hp [Hne|[Hp'|Hin]]; auto; [right; exists u; rewrite Hpo by auto; auto | right; eauto]. }
    pose proof (r7 cs) as Hr. revert Hc Hr G. clear Hpo. unfold pcof.
    try clear r1; try clear r1u; try clear r2; try clear r3; try clear r4a; try clear r4b; try clear r5; try clear r6; try clear r7; try clear r8; try clear r9; try clear r10; try clear r11; try clear r12; try clear cw; try clear IL; step_inv H; self; rewrite ?Hpc; cbn [pushing].
    all: intros Hc Hr G; upd_cases.
    all: try solve [ destruct (Hr Hc) as [Hin|[u [Hu Hp]]]; [left; simpl; auto | apply (G u Hu Hp);
                     destruct (Nat.eq_dec u t) as [->|]; auto; rewrite Hpc in Hp; cbn [pushing] in Hp; try discriminate Hp;
                     inversion Hp; subst; simpl; auto ] ].
    all: try solve [ right; exists t; split; auto; rewrite upd_same; reflexivity ].
    all: try solve [ left; destruct (r11t _ Hlt0 eq_refl) as [vis ->]; apply in_or_app; right; left; reflexivity ].
  (* R8 *)
  - intros cs. pose proof (r8 cs) as Hr. revert Hr r10t. clear Hpo. unfold pcof.
    try clear r1; try clear r1u; try clear r2; try clear r3; try clear r4a; try clear r4b; try clear r5; try clear r6; try clear r7; try clear r8; try clear r9; try clear r10; try clear r11; try clear r12; try clear cw; try clear IL; step_inv H; self; rewrite ?Hpc; cbn [reg_of cached_pc]; auto; intros Hr r10t; upd_cases; try discriminate; auto.
    intros [->|Hin]; auto.
  (* R9 *)
  - intros cs. pose proof (r9 cs) as Hr. revert Hr r4bt. clear Hpo. unfold pcof.
    try clear r1; try clear r1u; try clear r2; try clear r3; try clear r4a; try clear r4b; try clear r5; try clear r6; try clear r7; try clear r8; try clear r9; try clear r10; try clear r11; try clear r12; try clear cw; try clear IL; step_inv H; self; rewrite ?Hpc; cbn [reg_of pushed]; auto; intros Hr r4bt; upd_cases; try discriminate; auto.
    intros E. right. auto.
  (* R10 *)
  - intros u cs Hu. destruct (Nat.eq_dec u t) as [->|Hne]; [|rewrite Hpo by auto].
    + clear Hpo. revert r10t. unfold pcof.
      try clear r1; try clear r1u; try clear r2; try clear r3; try clear r4a; try clear r4b; try clear r5; try clear r6; try clear r7; try clear r8; try clear r9; try clear r10; try clear r11; try clear r12; try clear cw; try clear IL; step_inv H; self; rewrite ?Hpc; cbn [reg_of cached_pc]; intros r10t E; try discriminate E;
        try (inversion E; subst; clear E); intros E2; try discriminate E2; rewrite ?upd_same; auto; discriminate.
    + intros E P. pose proof (r10 u cs Hu E P) as Hr. revert Hr. clear Hpo.
      unfold pcof. try clear r1; try clear r1u; try clear r2; try clear r3; try clear r4a; try clear r4b; try clear r5; try clear r6; try clear r7; try clear r8; try clear r9; try clear r10; try clear r11; try clear r12; try clear cw; try clear IL; step_inv H; self; auto; intros Hr; upd_cases; auto; discriminate.
  (* R11 *)
  - intros u l Hu. destruct (Nat.eq_dec u t) as [->|Hne]; [|rewrite Hpo by auto].
    + clear Hpo. revert r11t. unfold pcof.
      try clear r1; try clear r1u; try clear r2; try clear r3; try clear r4a; try clear r4b; try clear r5; try clear r6; try clear r7; try clear r8; try clear r9; try clear r10; try clear r11; try clear r12; try clear cw; try clear IL; step_inv H; rewrite ?Hpc; cbn [walk_of]; intros r11t E; try discriminate E; inversion E; subst; clear E;
        try (apply (r11t _ Hlt0 eq_refl)).
      * exists []. reflexivity.
      * destruct (r11t _ Hlt0 eq_refl) as [vis Hv]. exists (vis ++ [cs]). rewrite <- app_assoc. exact Hv.
    + intros E. destruct (r11 u l Hu E) as [vis Hv]. revert Hv. clear Hpo.
      unfold pcof. try clear r1; try clear r1u; try clear r2; try clear r3; try clear r4a; try clear r4b; try clear r5; try clear r6; try clear r7; try clear r8; try clear r9; try clear r10; try clear r11; try clear r12; try clear cw; try clear IL; step_inv H; eauto.
      intros ->. eexists (_ :: vis). reflexivity.
  (* R12 *)
  - intros cs.
    assert (G : forall u, u < st_n s -> reg_of (pcof s u) = Some cs -> (u <> t \/ reg_of (pcof s' t) = Some cs) ->
                exists t', t' < st_n s /\ reg_of (pcof s' t') = Some cs).
    { intros u Hu Hp [Hne|Hp']; [exists u; rewrite Hpo by auto; auto | eauto]. }
    pose proof (r12 cs) as Hr. revert Hr G. clear Hpo. unfold pcof.
    try clear r1; try clear r1u; try clear r2; try clear r3; try clear r4a; try clear r4b; try clear r5; try clear r6; try clear r7; try clear r8; try clear r9; try clear r10; try clear r11; try clear r12; try clear cw; try clear IL; step_inv H; self; rewrite ?Hpc; cbn [reg_of].
    all: intros Hr G Hc; upd_cases; try discriminate Hc.
    all: try solve [ exists t; split; auto; rewrite upd_same; reflexivity ].
    all: destruct (Hr Hc) as [u [Hu Hp]]; apply (G u Hu Hp);
         destruct (Nat.eq_dec u t) as [->|]; auto; rewrite Hpc in Hp; cbn [reg_of] in Hp; try discriminate Hp;
         inversion Hp; subst; auto; congruence.
  (* CW *)
  - intros c.
    assert (G : forall u, u < st_n s -> pc_cellw (pcof s u) = Some c -> (u <> t \/ pc_cellw (pcof s' t) = Some c) ->
                exists t', t' < st_n s /\ pc_cellw (pcof s' t') = Some c).
    { intros u Hu Hp [Hne|Hp']; [exists u; rewrite Hpo by auto; auto | eauto]. }
    pose proof (cw c) as Hr. revert Hr G. clear Hpo. unfold pcof.
    try clear r1; try clear r1u; try clear r2; try clear r3; try clear r4a; try clear r4b; try clear r5; try clear r6; try clear r7; try clear r8; try clear r9; try clear r10; try clear r11; try clear r12; try clear cw; try clear IL; step_inv H; self; rewrite ?Hpc; cbn [pc_cellw].
    all: intros Hr G Hc; upd_cases; try discriminate Hc.
    all: try solve [ exists t; split; auto; rewrite upd_same; reflexivity ].
    all: destruct (Hr Hc) as [u [Hu Hp]]; apply (G u Hu Hp);
         destruct (Nat.eq_dec u t) as [->|]; auto; rewrite Hpc in Hp; cbn [pc_cellw] in Hp; try discriminate Hp;
         inversion Hp; subst; auto; congruence.
Qed.

