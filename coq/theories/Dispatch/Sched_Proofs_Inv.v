(** Preservation of the cache / max-level invariant [InvM] by every micro-step. *)
From Coq Require Import List Arith Bool Lia.
From TV Require Import Dispatch.Sched_Model Dispatch.Sched_Proofs_Base Dispatch.Sched_Proofs_Lock Dispatch.Sched_Proofs_Live
  Dispatch.Sched_Proofs_Reg Dispatch.Sched_Proofs_Ghost Dispatch.Sched_Proofs_Cache.
Import ListNotations.

Lemma pending_newing : forall s c, pending s c -> newing s c = true.
Proof.
  intros s c [u [Hu Hp]]. apply newing_iff. exists u. split; auto. rewrite Hp. cbn. apply Nat.eqb_refl.
Qed.
Lemma instP_not_pending : forall s c, instP s c -> ~ pending s c.
Proof. intros s c [_ Hn] Hp. apply pending_newing in Hp. congruence. Qed.

(** a collector that has completed [Dispatch::new] after the step had completed it before, unless the step is the
    very unlock that completes it *)
Lemma instP_back : forall W s t s' c, step W s t = Some s' -> instP s' c -> instP s c \/ pcof s t = PWrUnlock (KNew c).
Proof.
  intros W s t s' c H [Hc Hnw]. frame H.
  rewrite newing_false in Hnw. rewrite Hn in Hnw.
  destruct (st_created s c) eqn:Ec.
  - destruct (newing s c) eqn:En; [|left; split; auto].
    apply newing_iff in En. destruct En as [u [Hu Hp]].
    destruct (Nat.eq_dec u t) as [->|Hne].
    + right. specialize (Hnw t Hlt0).
      revert Hp Hnw. clear Hpo. unfold pcof. step_inv H; rewrite ?Hpc; cbn [pc_new pc_kind kind_new]; intros Hp Hnw; try congruence.
      apply Nat.eqb_eq in Hp. subst. reflexivity.
    + exfalso. specialize (Hnw u Hu). rewrite Hpo in Hnw by auto. congruence.
  - exfalso. pose proof (step_created_new _ _ _ _ _ H Ec Hc) as Hp.
    specialize (Hnw t Hlt0). rewrite Hp in Hnw. cbn in Hnw. rewrite Nat.eqb_refl in Hnw. discriminate.
Qed.

Lemma inplay_mono : forall W s t s' c f, step W s t = Some s' -> (forall k, pcof s t <> PWrUnlock k) ->
  st_created s c = true -> In f (inplay s c) -> In f (inplay s' c).
Proof.
  intros W s t s' c f H. unfold pcof, inplay. step_inv H; rewrite ?Hpc; intros Hk Hc; auto; try (exfalso; eapply Hk; reflexivity).
  - upd_cases; auto; congruence.
  - upd_cases; auto. simpl. tauto.
Qed.

Definition is_unlock (p : pc) : bool := match p with PWrUnlock _ => true | _ => false end.

Lemma step_cache_cases : forall W s t s', step W s t = Some s' ->
  st_cache s' = st_cache s \/
  (exists cs acc, pc_ask (pcof s t) = Some (cs, [], acc) /\ st_cache s' = upd (st_cache s) cs (Some (finish acc)) /\
                  st_log s' = st_log s /\ is_unlock (pcof s t) = false).
Proof.
  intros W s t s' H. unfold pcof. step_inv H; rewrite ?Hpc; cbn [pc_ask]; auto; right; eauto 10.
Qed.
Lemma step_max_cases : forall W s t s', step W s t = Some s' ->
  st_max s' = st_max s \/ (exists m, pc_wmax (pcof s t) = Some m /\ st_max s' = m /\ is_unlock (pcof s t) = false).
Proof.
  intros W s t s' H. unfold pcof. step_inv H; rewrite ?Hpc; cbn [pc_wmax]; auto; right; eauto 10.
Qed.
Lemma unlock_effect : forall W s t s', step W s t = Some s' -> is_unlock (pcof s t) = true ->
  (exists k, pcof s t = PWrUnlock k) /\ st_cache s' = st_cache s /\ st_max s' = st_max s /\ st_disps s' = st_disps s /\
  st_list s' = st_list s /\ (forall c, inplay s' c = fresh s c).
Proof.
  intros W s t s' H. unfold pcof, inplay, fresh. step_inv H; rewrite ?Hpc; cbn [is_unlock]; intros E; try discriminate E.
  all: repeat split; eauto; intros; rewrite app_nil_r; reflexivity.
Qed.
Lemma inplay_mono' : forall W s t s' c f, step W s t = Some s' -> is_unlock (pcof s t) = false ->
  st_created s c = true -> In f (inplay s c) -> In f (inplay s' c).
Proof.
  intros W s t s' c f H Hu. eapply inplay_mono; eauto. intros k E. rewrite E in Hu. discriminate.
Qed.

(** while a writer is inside its section nobody is between [set_interest] and the push: every cached callsite is listed *)
Lemma cache_in_list_w : forall s t cs, InvL s -> InvR s -> t < st_n s -> in_wsec (pcof s t) = true ->
  st_cache s cs <> None -> In cs (st_list s).
Proof.
  intros s t cs IL IR Ht Hw Hc. destruct (R7 _ IR cs Hc) as [|[u [Hu Hp]]]; auto. exfalso.
  assert (Hr : in_rsec (pcof s u) = true) by (destruct (pcof s u); simpl in Hp; try discriminate; reflexivity).
  apply (L4 _ IL) in Hr; auto. apply (L2 _ IL) in Hw; auto. rewrite (L5 _ IL) in Hr; [contradiction|congruence].
Qed.

Section Inv.
  Variable W : world.
  Notation InvM := (InvM W).

  Lemma M0_step : forall s t s', InvN s -> InvM s -> step W s t = Some s' ->
    forall c, In c (st_disps s') -> st_created s' c = true.
  Proof.
    intros s t s' IN IM H c Hin. frame H.
    assert (A : In c (st_disps s) \/ pc_new (pcof s t) c = true).
    { pose proof (MRet _ _ IM t) as mr. revert Hin mr. clear Hpo. unfold pcof.
      step_inv H; rewrite ?Hpc; cbn [pc_ret pc_new pc_kind kind_new]; auto; intros Hin mr.
      - apply in_app_or in Hin. destruct Hin as [Hin|[<-|[]]]; auto. right. apply Nat.eqb_refl.
      - left. destruct (mr _ _ _ Hlt0 eq_refl) as [_ [_ K]]. auto.
      - left. destruct (mr _ _ _ Hlt0 eq_refl) as [_ [_ K]]. auto. }
    destruct A as [A|A]; eapply step_created; eauto.
    - eapply M0; eauto.
    - eapply N1; eauto.
  Qed.

  Lemma M1_step : forall s t s', InvN s -> InvM s -> step W s t = Some s' ->
    forall c, st_created s' c = true -> ~ pending s' c -> live s' c = true -> In c (st_disps s').
  Proof.
    intros s t s' IN IM H c Hc Hp Hl. frame H.
    destruct (st_created s c) eqn:Ec.
    2:{ exfalso. apply Hp. exists t. rewrite Hn. split; auto. eapply step_created_new; eauto. }
    pose proof (live_mono _ _ _ _ _ H Ec Hl) as Hl0.
    assert (Hp' : forall u, u <> t -> u < st_n s -> pcof s u <> PWrLock (KNew c)).
    { intros u Hne Hu E. apply Hp. exists u. rewrite Hn, Hpo by auto. auto. }
    assert (Hpt : pcof s' t <> PWrLock (KNew c)).
    { intros E. apply Hp. exists t. rewrite Hn. auto. }
    pose proof (M1 _ _ IM c Ec) as m1. pose proof (MRet _ _ IM t) as mr.
    assert (Hnp : pcof s t <> PWrLock (KNew c) -> ~ pending s c).
    { intros E [u [Hu Hq]]. destruct (Nat.eq_dec u t) as [->|Hne]; [auto|]. eapply Hp'; eauto. }
    revert Hpt m1 mr Hnp. clear Hpo Hp Hp' Hl. unfold pcof.
    step_inv H; rewrite ?Hpc; cbn [pc_ret]; intros Hpt m1 mr Hnp.
    all: try solve [apply m1; auto; apply Hnp; discriminate].
    all: try solve [destruct (mr _ _ _ Hlt0 eq_refl) as [K _]; destruct (K c) as [[]|]; auto; apply m1; auto; apply Hnp; discriminate].
    all: try solve [apply in_or_app; destruct (Nat.eq_dec c0 c) as [->|Hne]; [right; left; reflexivity|left];
                    apply m1; auto; apply Hnp; congruence].
  Qed.

  (** what another thread's step can do to the inputs of a loop running inside a lock section *)
  Lemma env_section : forall s t s' u, InvL s -> InvM s -> step W s t = Some s' -> u <> t -> u < st_n s ->
    (in_rsec (pcof s u) = true \/ in_wsec (pcof s u) = true) ->
    st_disps s' = st_disps s /\ st_max s' = st_max s /\
    (forall c, In c (st_disps s) -> forall f, In f (fresh s c) -> In f (fresh s' c)) /\
    (forall c, In c (st_disps s) -> live s' c = true -> live s c = true) /\
    (in_wsec (pcof s u) = true -> st_cache s' = st_cache s /\ st_list s' = st_list s).
  Proof.
    intros s t s' u IL IM H Hne Hu Hsec.
    destruct (excl_other _ _ _ _ _ IL H Hne Hu Hsec) as [E1 [E2 E3]].
    destruct (frameA _ _ _ _ H E1 E2) as [A1 [A2 [_ [A4 _]]]].
    split; auto. split; auto. split; [|split].
    - intros c Hc. apply A4. eapply M0; eauto.
    - intros c Hc. eapply live_mono; eauto. eapply M0; eauto.
    - intros Hs. apply (frameB _ _ _ _ H E1). auto.
  Qed.

  Lemma covered_mono : forall s s' acc c cs, covered W s acc c cs ->
    (forall f, In f (fresh s c) -> In f (fresh s' c)) -> (asked s c cs -> asked s' c cs) -> covered W s' acc c cs.
  Proof.
    intros s s' [a|] c cs; unfold covered; [|intros []]. intros [B A] Hf Ha. split; auto. eapply backs_mono; eauto.
  Qed.

  Lemma MAsk_step : forall s t s', InvL s -> InvM s -> step W s t = Some s' ->
    forall u cs todo acc, u < st_n s' -> pc_ask (pcof s' u) = Some (cs, todo, acc) ->
    forall c, In c (st_disps s') -> live s' c = true -> In c todo \/ covered W s' acc c cs.
  Proof.
    intros s t s' IL IM H u cs todo acc. frame H. rewrite Hn. intros Hu.
    destruct (Nat.eq_dec u t) as [->|Hne].
    - pose proof (MAsk _ _ IM t) as ma. pose proof (M0 _ _ IM) as m0.
      pose proof (fun c Hc => live_mono _ _ _ _ c H Hc) as lm.
      revert ma lm. clear Hpo IM IL. unfold pcof.
      step_inv H; rewrite ?Hpc; cbn [pc_ask]; intros ma lm E; try discriminate E; inversion E; subst; clear E; intros c' Hc' Hl'.
      all: try solve [left; exact Hc'].
      all: destruct (ma _ _ _ Hlt0 eq_refl c' Hc' (lm c' (m0 c' Hc') Hl')) as [Hin|Hcov].
      all: try (destruct Hin as [<-|Hin]; [|left; exact Hin]).
      all: try solve [left; auto | right; exact Hcov | congruence].
      all: try solve [exfalso; pose proof (lm _ (m0 _ Hc') Hl'); congruence].
      all: right; unfold covered, fresh, asked in *; norm.
      all: try solve [ destruct acc0 as [a|]; simpl; (split; [first [apply backs_combine_new | apply backs_self]; left; reflexivity
                                                                  | eexists; left; reflexivity]) ].
      all: try solve [ destruct acc0 as [a|]; simpl in *; [|contradiction]; destruct Hcov as [B [u Hu']]; split;
                       [apply backs_combine_old; exact B | exists u; right; exact Hu'] ].
    - rewrite Hpo by auto. intros E c Hc Hl.
      destruct (env_section _ _ _ _ IL IM H Hne Hu (ask_sec _ _ E)) as [Ed [_ [Ef [El _]]]].
      rewrite Ed in Hc. destruct (MAsk _ _ IM u _ _ _ Hu E c Hc (El c Hc Hl)) as [Hin|Hcov]; auto.
      right. eapply covered_mono; eauto. apply (asked_step _ _ _ _ _ _ H).
  Qed.

  Lemma MRet_step : forall s t s', InvL s -> InvM s -> step W s t = Some s' ->
    forall u todo kept m, u < st_n s' -> pc_ret (pcof s' u) = Some (todo, kept, m) ->
      (forall c, In c (st_disps s') -> live s' c = true -> In c todo \/ In c kept) /\
      (forall c, In c kept -> live s' c = true -> hint_ok W (fresh s' c) m) /\
      (forall c, In c todo \/ In c kept -> In c (st_disps s')).
  Proof.
    intros s t s' IL IM H u todo kept m. frame H. rewrite Hn. intros Hu.
    destruct (Nat.eq_dec u t) as [->|Hne].
    - pose proof (MRet _ _ IM t) as mr. pose proof (M0 _ _ IM) as m0.
      pose proof (fun c Hc => live_mono _ _ _ _ c H Hc) as lm.
      revert mr lm. clear Hpo IM IL. unfold pcof.
      step_inv H; rewrite ?Hpc; cbn [pc_ret]; intros mr lm E; try discriminate E; inversion E; subst; clear E.
      all: try solve [split; [intros c' Hc' _; left; exact Hc' | split; [intros c' [] | intros c' [Hc'|[]]; exact Hc']]].
      all: destruct (mr _ _ _ Hlt0 eq_refl) as [K1 [K2 K3]].
      all: unfold fresh, hint_ok in *; norm.
      all: try solve [ split; [|split];
           [ intros c' Hc' Hl'; apply K1; auto; exact (lm _ (m0 _ Hc') Hl')
           | intros c' Hin Hl'; apply K2; auto; apply (lm _ (m0 _ (K3 _ (or_intror Hin)))); exact Hl'
           | exact K3 ] ].
      + (* a dead registrar is dropped *)
        split; [|split].
        * intros c' Hc' Hl'. pose proof (lm _ (m0 _ Hc') Hl') as Hl0. destruct (K1 c' Hc' Hl0) as [[<-|Hin]|Hin]; auto. congruence.
        * intros c' Hin Hl'. apply K2; auto; apply (lm _ (m0 _ (K3 _ (or_intror Hin)))); exact Hl'.
        * intros c' [Hin|Hin]; apply K3; auto. left. right. exact Hin.
      + (* max_level_hint of a live registrar *)
        split; [|split].
        * intros c' Hc' Hl'. pose proof (lm _ (m0 _ Hc') Hl') as Hl0. destruct (K1 c' Hc' Hl0) as [[<-|Hin]|Hin]; auto.
          -- right. apply in_or_app. right. left. reflexivity.
          -- right. apply in_or_app. left. exact Hin.
        * intros c' Hin Hl'. apply in_app_or in Hin. destruct Hin as [Hin|[<-|[]]].
          -- assert (Hd : In c' (st_disps s)) by (apply K3; auto).
             destruct (K2 c' Hin (lm _ (m0 _ Hd) Hl')) as [f [Hf Hh]]. exists f. split; auto. lia.
          -- eexists. split; [left; reflexivity|]. lia.
        * intros c' [Hin|Hin]; [apply K3; left; right; exact Hin|].
          apply in_app_or in Hin. destruct Hin as [Hin|[<-|[]]]; apply K3; auto. left. left. reflexivity.
    - rewrite Hpo by auto. intros E.
      destruct (env_section _ _ _ _ IL IM H Hne Hu (or_intror (ret_sec _ _ E))) as [Ed [_ [Ef [El _]]]].
      destruct (MRet _ _ IM u _ _ _ Hu E) as [K1 [K2 K3]]. rewrite Ed.
      split; [|split]; auto.
      intros c Hin Hl. assert (Hd : In c (st_disps s)) by (apply K3; auto).
      eapply hint_ok_mono; [apply Ef; exact Hd | apply le_n | apply K2; auto].
  Qed.

  Lemma MWmax_step : forall s t s', InvL s -> InvM s -> step W s t = Some s' ->
    forall u m, u < st_n s' -> pc_wmax (pcof s' u) = Some m ->
    forall c, In c (st_disps s') -> live s' c = true -> hint_ok W (fresh s' c) m.
  Proof.
    intros s t s' IL IM H u m. frame H. rewrite Hn. intros Hu.
    destruct (Nat.eq_dec u t) as [->|Hne].
    - pose proof (MRet _ _ IM t) as mr. pose proof (MWmax _ _ IM t) as mw. pose proof (M0 _ _ IM) as m0.
      pose proof (fun c Hc => live_mono _ _ _ _ c H Hc) as lm.
      revert mr mw lm. clear Hpo IM IL. unfold pcof.
      step_inv H; rewrite ?Hpc; cbn [pc_ret pc_wmax]; intros mr mw lm E; try discriminate E; inversion E; subst; clear E;
        intros c' Hc' Hl'; unfold fresh, hint_ok in *; norm.
      all: try solve [apply (mw _ Hlt0 eq_refl c' Hc'); exact (lm _ (m0 _ Hc') Hl')].
      all: destruct (mr _ _ _ Hlt0 eq_refl) as [K1 [K2 K3]].
      all: apply K2; auto; apply (lm _ (m0 _ (K3 _ (or_intror Hc')))); exact Hl'.
    - rewrite Hpo by auto. intros E c Hc Hl.
      destruct (env_section _ _ _ _ IL IM H Hne Hu (or_intror (wmax_sec _ _ E))) as [Ed [_ [Ef [El _]]]].
      rewrite Ed in Hc. eapply hint_ok_mono; [apply Ef; exact Hc | apply le_n | eapply MWmax; eauto].
  Qed.

  Lemma MUnl_step : forall s t s', InvL s -> InvM s -> step W s t = Some s' ->
    forall u k, u < st_n s' -> pcof s' u = PWrUnlock k ->
    forall c, In c (st_disps s') -> live s' c = true -> hint_ok W (fresh s' c) (st_max s').
  Proof.
    intros s t s' IL IM H u k. frame H. rewrite Hn. intros Hu.
    destruct (Nat.eq_dec u t) as [->|Hne].
    - pose proof (MWmax _ _ IM t) as mw. pose proof (M0 _ _ IM) as m0.
      pose proof (fun c Hc => live_mono _ _ _ _ c H Hc) as lm.
      revert mw lm. clear Hpo IM IL. unfold pcof.
      step_inv H; rewrite ?Hpc; cbn [pc_wmax]; intros mw lm E; try discriminate E; inversion E; subst; clear E;
        intros c' Hc' Hl'; unfold fresh, hint_ok in *; norm.
      apply (mw _ Hlt0 eq_refl c' Hc'); exact (lm _ (m0 _ Hc') Hl').
    - rewrite Hpo by auto. intros E c Hc Hl.
      assert (Hs : in_wsec (pcof s u) = true) by (rewrite E; reflexivity).
      destruct (env_section _ _ _ _ IL IM H Hne Hu (or_intror Hs)) as [Ed [Em [Ef [El _]]]].
      rewrite Ed in Hc. rewrite Em. eapply hint_ok_mono; [apply Ef; exact Hc | apply le_n | eapply MUnl; eauto].
  Qed.

  Lemma MVis_step : forall s t s', InvL s -> InvM s -> step W s t = Some s' ->
    forall u rest, u < st_n s' -> pc_rest (pcof s' u) = Some rest ->
    forall cs i, In cs (st_list s') -> ~ In cs rest -> st_cache s' cs = Some i ->
    forall c, In c (st_disps s') -> live s' c = true -> backs W (fresh s' c) cs i /\ asked s' c cs.
  Proof.
    intros s t s' IL IM H u rest. frame H. rewrite Hn. intros Hu.
    destruct (Nat.eq_dec u t) as [->|Hne].
    - pose proof (MVis _ _ IM t) as mv. pose proof (MAsk _ _ IM t) as ma. pose proof (M0 _ _ IM) as m0.
      pose proof (fun c Hc => live_mono _ _ _ _ c H Hc) as lm.
      revert mv ma lm. clear Hpo IM IL. unfold pcof.
      step_inv H; rewrite ?Hpc; cbn [pc_rest pc_ask]; intros mv ma lm E; try discriminate E; inversion E; subst; clear E;
        intros cs' i Hl Hnr Hc c' Hc' Hl'; unfold fresh, asked in *; norm.
      all: try solve [contradiction].
      all: try solve [destruct (mv _ Hlt0 eq_refl cs' i Hl Hnr Hc c' Hc' (lm _ (m0 _ Hc') Hl')) as [B [x A]]; split;
                      [exact B | exists x; first [exact A | right; exact A]]].
      (* the store of a recomputed interest *)
      upd_cases.
      + inversion Hc; subst; clear Hc.
        destruct (ma _ _ _ Hlt0 eq_refl c' Hc' (lm _ (m0 _ Hc') Hl')) as [[]|Hcov].
        unfold covered, fresh, asked in Hcov. destruct acc as [a|]; [|contradiction]. exact Hcov.
      + apply (mv _ Hlt0 eq_refl cs' i Hl); auto; try (intros [E|E]; auto); try apply (lm _ (m0 _ Hc') Hl').
    - rewrite Hpo by auto. intros E cs i Hl Hnr Hc c Hd Hlv.
      destruct (env_section _ _ _ _ IL IM H Hne Hu (or_intror (rest_sec _ _ E))) as [Ed [_ [Ef [El Ecl]]]].
      destruct (Ecl (rest_sec _ _ E)) as [Ec El']. rewrite Ed in Hd. rewrite Ec in Hc. rewrite El' in Hl.
      destruct (MVis _ _ IM u _ Hu E cs i Hl Hnr Hc c Hd (El c Hd Hlv)) as [B A]. split.
      + eapply backs_mono; [apply Ef; exact Hd | exact B].
      + eapply asked_step; eauto.
  Qed.

  Lemma M3_step : forall s t s', InvL s -> InvN s -> InvR s -> InvM s -> step W s t = Some s' ->
    forall cs i c, st_cache s' cs = Some i -> instP s' c -> live s' c = true ->
    backs W (inplay s' c) cs i /\ asked s' c cs.
  Proof.
    intros s t s' IL IN IR IM H cs i c Hc Hi Hl. frame H.
    assert (Hcr : st_created s c = true).
    { destruct (instP_back _ _ _ _ _ H Hi) as [[E _]|E]; auto. eapply N1; eauto. rewrite E. cbn. apply Nat.eqb_refl. }
    pose proof (live_mono _ _ _ _ _ H Hcr Hl) as Hl0.
    assert (Hd : In c (st_disps s)).
    { apply (M1 _ _ IM); auto. intros [u [Hu Hp]].
      destruct (instP_back _ _ _ _ _ H Hi) as [Hi0|E].
      - eapply instP_not_pending; eauto. exists u; auto.
      - assert (u = t). { eapply (N2 _ IN c); eauto; [rewrite Hp|rewrite E]; cbn; apply Nat.eqb_refl. }
        subst. congruence. }
    destruct (is_unlock (pcof s t)) eqn:Eu.
    - (* the unlock: the values replaced before this pass began leave the picture *)
      destruct (unlock_effect _ _ _ _ H Eu) as [[k Ek] [Ec [_ [_ [_ Ei]]]]].
      rewrite Ei. rewrite Ec in Hc.
      assert (Hw : in_wsec (pcof s t) = true) by (rewrite Ek; reflexivity).
      assert (Hin : In cs (st_list s)) by (eapply cache_in_list_w; eauto; congruence).
      destruct (MVis _ _ IM t [] Hlt0) with (cs := cs) (i := i) (c := c) as [B A]; auto.
      { rewrite Ek. reflexivity. }
      split; auto. eapply asked_step; eauto.
    - assert (Hi0 : instP s c).
      { destruct (instP_back _ _ _ _ _ H Hi) as [|E]; auto. rewrite E in Eu. discriminate. }
      assert (Hm : forall f, In f (inplay s c) -> In f (inplay s' c)) by (intros; eapply inplay_mono'; eauto).
      destruct (step_cache_cases _ _ _ _ H) as [Ec|[cs0 [acc [Ea [Ec [Elog _]]]]]].
      + rewrite Ec in Hc. destruct (M3 _ _ IM cs i c Hc Hi0 Hl0) as [B A]. split.
        * eapply backs_mono; eauto.
        * eapply asked_step; eauto.
      + rewrite Ec in Hc. unfold upd in Hc. destruct (Nat.eqb_spec cs cs0) as [->|Hne].
        * inversion Hc; subst; clear Hc.
          destruct (MAsk _ _ IM t _ _ _ Hlt0 Ea c Hd Hl0) as [[]|Hcov].
          unfold covered in Hcov. destruct acc as [a|]; [|contradiction]. destruct Hcov as [B A]. split.
          -- eapply backs_mono; [|exact B]. intros f Hf. apply Hm. apply fresh_inplay. exact Hf.
          -- eapply asked_step; eauto.
        * destruct (M3 _ _ IM cs i c Hc Hi0 Hl0) as [B A]. split.
          -- eapply backs_mono; eauto.
          -- eapply asked_step; eauto.
  Qed.

  Lemma M5_step : forall s t s', InvL s -> InvN s -> InvM s -> step W s t = Some s' ->
    forall c, instP s' c -> live s' c = true -> hint_ok W (inplay s' c) (st_max s').
  Proof.
    intros s t s' IL IN IM H c Hi Hl. frame H.
    assert (Hcr : st_created s c = true).
    { destruct (instP_back _ _ _ _ _ H Hi) as [[E _]|E]; auto. eapply N1; eauto. rewrite E. cbn. apply Nat.eqb_refl. }
    pose proof (live_mono _ _ _ _ _ H Hcr Hl) as Hl0.
    assert (Hd : In c (st_disps s)).
    { apply (M1 _ _ IM); auto. intros [u [Hu Hp]].
      destruct (instP_back _ _ _ _ _ H Hi) as [Hi0|E].
      - eapply instP_not_pending; eauto. exists u; auto.
      - assert (u = t). { eapply (N2 _ IN c); eauto; [rewrite Hp|rewrite E]; cbn; apply Nat.eqb_refl. }
        subst. congruence. }
    destruct (is_unlock (pcof s t)) eqn:Eu.
    - destruct (unlock_effect _ _ _ _ H Eu) as [[k Ek] [_ [Em [_ [_ Ei]]]]].
      rewrite Ei, Em. eapply MUnl; eauto.
    - assert (Hi0 : instP s c).
      { destruct (instP_back _ _ _ _ _ H Hi) as [|E]; auto. rewrite E in Eu. discriminate. }
      assert (Hm : forall f, In f (inplay s c) -> In f (inplay s' c)) by (intros; eapply inplay_mono'; eauto).
      destruct (step_max_cases _ _ _ _ H) as [Em|[m [Ew [Em _]]]]; rewrite Em.
      + eapply hint_ok_mono; [exact Hm | apply le_n | eapply M5; eauto].
      + eapply hint_ok_mono; [|apply le_n | eapply (MWmax _ _ IM t m Hlt0 Ew c Hd Hl0)].
        intros f Hf. apply Hm. apply fresh_inplay. exact Hf.
  Qed.

  Theorem InvM_step : forall s t s', InvL s -> InvN s -> InvR s -> InvM s -> step W s t = Some s' -> InvM s'.
  Proof.
    intros s t s' IL IN IR IM H. constructor.
    - eapply M0_step; eauto.
    - eapply M1_step; eauto.
    - intros. eapply MAsk_step; eauto.
    - intros. eapply MRet_step; eauto.
    - intros. eapply MWmax_step; eauto.
    - intros. eapply MUnl_step; eauto.
    - intros. eapply MVis_step; eauto.
    - eapply M3_step; eauto.
    - eapply M5_step; eauto.
  Qed.
End Inv.
