(** Bookkeeping invariants: the ghost lists of replaced cell values are tagged by reloads that are still in
    flight; the epoch counts started reloads; the global default is written once; whoever can be a thread's
    current collector has completed [Dispatch::new]. *)
From Coq Require Import List Arith Bool Lia.
From TV Require Import Dispatch.Sched_Model Dispatch.Sched_Proofs_Base Dispatch.Sched_Proofs_Lock Dispatch.Sched_Proofs_Live.
Import ListNotations.

(** a reload past its assignment: (cell, replaced value) *)
Definition pc_rl_pre (p : pc) : option (cid * fid) :=
  match p with
  | PRlUnlock c old | PRlGap c old | PWrLock (KReload c old) => Some (c, old)
  | _ => None
  end.
Definition pc_rl_old (p : pc) : option (cid * fid) :=
  match p with
  | PRlUnlock c old | PRlGap c old => Some (c, old)
  | _ => match pc_kind p with Some (KReload c old) => Some (c, old) | _ => None end
  end.
Definition pc_sg (p : pc) : option cid := match p with PSgStore c | PSgInit c => Some c | _ => None end.
(** ... including the point before the CAS (the thread holds a clone of the Dispatch) *)
Definition pc_sgc (p : pc) : option cid := match p with PSgCas c | PSgStore c | PSgInit c => Some c | _ => None end.
(** the thread is inside an emission *)
Definition em_pc (p : pc) : bool :=
  match p with
  | PEmInterest _ | PEmRegCas _ | PRgRLock _ | PRgUp _ _ _ | PRgCall _ _ _ _ | PRgPushHead _ | PRgPushCas _ _
  | PRgRUnlock _ | PRgStoreReg _ | PEmReload _ | PEmEnabled _ | PEmEnCall _ _ | PEmDispatch _ _ => true
  | _ => false
  end.

(** [Dispatch::new(c)] has returned *)
Definition instP (s : state) (c : cid) : Prop := st_created s c = true /\ newing s c = false.

Record InvG (s : state) : Prop := {
  G1 : forall c t old, In (t, old) (st_olds s c) -> t < st_n s /\ pc_rl_pre (pcof s t) = Some (c, old);
  G2 : forall c t old, In (t, old) (st_cleaning s c) -> t < st_n s /\ pc_rl_old (pcof s t) = Some (c, old) /\ st_writer s <> None;
  Q0 : forall t, t < st_n s -> em_pc (pcof s t) = true -> eg_ep0 (th_eg (st_thr s t)) <= st_epoch s;
  Q1 : forall t, t < st_n s -> em_pc (pcof s t) = true -> eg_q0 (th_eg (st_thr s t)) = true ->
         eg_ep0 (th_eg (st_thr s t)) = st_epoch s -> reload_inflight s = false;
  S1 : forall t c, t < st_n s -> pc_sg (pcof s t) = Some c -> st_ginit s = GInitializing;
  S1u : forall t1 t2 c1 c2, t1 < st_n s -> t2 < st_n s -> pc_sg (pcof s t1) = Some c1 -> pc_sg (pcof s t2) = Some c2 -> t1 = t2;
  C1 : forall c, st_handle s c = true -> instP s c;
  C2 : forall c, st_gdisp s = Some c -> instP s c;
  C3 : forall t c, t < st_n s -> In c (th_scopes (st_thr s t)) -> instP s c;
  C4 : forall t c, t < st_n s -> pc_sgc (pcof s t) = Some c -> instP s c
}.

Lemma InvG_init : forall progs, InvG (init progs).
Proof.
  intros. constructor; unfold pcof; simpl; intros; try discriminate; try contradiction; auto.
  all: try (unfold reload_inflight; apply any_thread_false; intros; reflexivity).
Qed.

Lemma pc_rl_pre_old : forall p x, pc_rl_pre p = Some x -> pc_rl_old p = Some x.
Proof. intros p x. destruct p; simpl; try discriminate; auto; destruct k; simpl; auto; discriminate. Qed.
Lemma pc_rl_old_reloading : forall p x, pc_rl_old p = Some x -> pc_reloading p = true.
Proof.
  intros p x. unfold pc_rl_old, pc_reloading. destruct p; simpl; try discriminate; auto.
  all: destruct k; simpl; auto; discriminate.
Qed.

(** step facts *)
Lemma step_epoch : forall W s t s', step W s t = Some s' -> st_epoch s' = st_epoch s \/ st_epoch s' = S (st_epoch s).
Proof. intros W s t s' H. step_inv H; auto. Qed.
Lemma step_reloading : forall W s t s', step W s t = Some s' -> pc_reloading (pcof s' t) = true ->
  pc_reloading (pcof s t) = true \/ st_epoch s' = S (st_epoch s).
Proof.
  intros W s t s' H. unfold pcof. step_inv H; rewrite ?Hpc; cbn [pc_reloading pc_kind]; auto.
Qed.
Lemma step_ginit : forall W s t s', step W s t = Some s' -> st_ginit s = GInitialized -> st_ginit s' = GInitialized.
Proof. intros W s t s' H. step_inv H; auto; congruence. Qed.
Lemma step_gdisp_sg : forall W s t s', step W s t = Some s' -> st_gdisp s' = st_gdisp s \/ exists c, pcof s t = PSgStore c.
Proof. intros W s t s' H. unfold pcof. step_inv H; rewrite ?Hpc; eauto. Qed.

Lemma newing_step : forall W s t s' c, step W s t = Some s' -> newing s' c = true ->
  newing s c = true \/ st_created s c = false.
Proof.
  intros W s t s' c H Hn. apply newing_iff in Hn. destruct Hn as [u [Hu Hp]].
  destruct (step_frame _ _ _ _ H) as [Hlt [Hn Hoth]]. rewrite Hn in Hu.
  destruct (Nat.eq_dec u t) as [->|Hne].
  - destruct (step_pc_new _ _ _ _ _ H Hp) as [Hp'|[Hc _]]; auto. left. apply newing_iff. eauto.
  - left. apply newing_iff. exists u. split; auto. rewrite <- (step_pc_other _ _ _ _ _ H Hne). exact Hp.
Qed.
Lemma instP_step : forall W s t s' c, step W s t = Some s' -> instP s c -> instP s' c.
Proof.
  intros W s t s' c H [Hc Hn]. split.
  - eapply step_created; eauto.
  - destruct (newing s' c) eqn:E; auto. destruct (newing_step _ _ _ _ _ H E); congruence.
Qed.

Lemma unlock_newing : forall W s t s' c, InvN s -> step W s t = Some s' -> pcof s t = PWrUnlock (KNew c) -> newing s' c = false.
Proof.
  intros W s t s' c IN H Hp.
  destruct (step_frame _ _ _ _ H) as [Hlt0 [Hn Hoth]].
  apply newing_false. rewrite Hn. intros u Hu.
  destruct (Nat.eq_dec u t) as [->|Hne].
  - revert Hp. clear IN. unfold pcof. step_inv H; intros Hp; try discriminate Hp; rewrite ?upd_same; reflexivity.
  - rewrite (step_pc_other _ _ _ _ _ H Hne). destruct (pc_new (pcof s u) c) eqn:E; auto.
    exfalso. apply Hne. eapply (N2 _ IN); eauto. rewrite Hp. cbn. apply Nat.eqb_refl.
Qed.

Lemma inflight_step : forall W s t s', step W s t = Some s' -> reload_inflight s = false -> st_epoch s' = st_epoch s ->
  reload_inflight s' = false.
Proof.
  intros W s t s' H Hi He.
  destruct (step_frame _ _ _ _ H) as [Hlt0 [Hn Hoth]].
  unfold reload_inflight in *. rewrite any_thread_false in *. rewrite Hn. intros u Hu.
  destruct (Nat.eq_dec u t) as [->|Hne].
  - destruct (pc_reloading (th_pc (st_thr s' t))) eqn:E; auto.
    destruct (step_reloading _ _ _ _ H E) as [E'|E']; [|lia]. unfold pcof in E'. rewrite Hi in E'; auto.
  - rewrite Hoth by auto. auto.
Qed.

Ltac frame H :=
  let Hoth := fresh "Hoth" in
  destruct (step_frame _ _ _ _ H) as [Hlt0 [Hn Hoth]];
  match type of H with step _ ?s ?t = Some ?s' =>
    assert (Hpo : forall t', t' <> t -> pcof s' t' = pcof s t') by (intros; unfold pcof; rewrite Hoth; auto)
  end.

Lemma G1_step : forall W s t s', step W s t = Some s' ->
  (forall c u old, In (u, old) (st_olds s c) -> u < st_n s /\ pc_rl_pre (pcof s u) = Some (c, old)) ->
  forall c u old, In (u, old) (st_olds s' c) -> u < st_n s' /\ pc_rl_pre (pcof s' u) = Some (c, old).
Proof.
  intros W s t s' H g1 c u old. frame H. rewrite Hn.
  destruct (Nat.eq_dec u t) as [->|Hne].
  - specialize (g1 c t old). revert g1. clear Hpo. unfold pcof.
    step_inv H; rewrite ?Hpc; cbn [pc_rl_pre]; intros g1 Hin; try contradiction; upd_cases; auto;
      try (destruct (g1 Hin) as [_ E]; discriminate E).
    + split; auto. destruct Hin as [Hin|Hin]; [inversion Hin; subst; reflexivity|].
      destruct (g1 Hin) as [_ E]; discriminate E.
  - rewrite Hpo by auto. intros Hin. apply g1. revert Hin. clear Hpo. clear g1.
    step_inv H; auto; try contradiction; upd_cases; auto.
    intros [Hin|Hin]; auto. inversion Hin; subst. contradiction.
Qed.

Lemma G2_step : forall W s t s', step W s t = Some s' ->
  (forall c u old, In (u, old) (st_olds s c) -> u < st_n s /\ pc_rl_pre (pcof s u) = Some (c, old)) ->
  (forall c u old, In (u, old) (st_cleaning s c) -> u < st_n s /\ pc_rl_old (pcof s u) = Some (c, old) /\ st_writer s <> None) ->
  forall c u old, In (u, old) (st_cleaning s' c) -> u < st_n s' /\ pc_rl_old (pcof s' u) = Some (c, old) /\ st_writer s' <> None.
Proof.
  intros W s t s' H g1 g2 c u old. frame H. rewrite Hn.
  destruct (Nat.eq_dec u t) as [->|Hne].
  - specialize (g1 c t old). specialize (g2 c t old). revert g1 g2. clear Hpo. unfold pcof.
    step_inv H; rewrite ?Hpc; cbn [pc_rl_pre pc_rl_old pc_kind]; intros g1 g2 Hin; try contradiction; auto.
    all: try (apply in_app_or in Hin; destruct Hin as [Hin|Hin];
              [destruct (g1 Hin) as [_ E]; first [discriminate E | inversion E; subst; split; auto; split; [reflexivity|discriminate]]
              |destruct (g2 Hin) as [_ [_ E]]; congruence]).
    destruct (g2 Hin) as [_ [E _]]; discriminate E.
  - rewrite Hpo by auto. pose proof (g1 c u old) as g1'. pose proof (g2 c u old) as g2'. revert g1' g2'. clear Hpo g1 g2.
    step_inv H; intros g1 g2 Hin; try contradiction; auto.
    all: apply in_app_or in Hin; destruct Hin as [Hin|Hin];
              [destruct (g1 Hin) as [Hu E]; split; auto; split; [apply pc_rl_pre_old; auto|discriminate]
              |destruct (g2 Hin) as [_ [_ E]]; congruence].
Qed.

Lemma existsb_ext' : forall A (f g : A -> bool) l, (forall x, f x = g x) -> existsb f l = existsb g l.
Proof. intros A f g l E. induction l; simpl; auto. rewrite E, IHl. reflexivity. Qed.

(** the ghost of an emission in progress is fixed at its first step; afterwards only [eg_vals] changes *)
Lemma step_eg_em : forall W s t s', step W s t = Some s' -> em_pc (pcof s' t) = true ->
  (em_pc (pcof s t) = true /\ eg_ep0 (th_eg (st_thr s' t)) = eg_ep0 (th_eg (st_thr s t)) /\
   eg_q0 (th_eg (st_thr s' t)) = eg_q0 (th_eg (st_thr s t)) /\ eg_cur0 (th_eg (st_thr s' t)) = eg_cur0 (th_eg (st_thr s t)) /\
   th_scopes (st_thr s' t) = th_scopes (st_thr s t) /\ st_epoch s' = st_epoch s) \/
  (pcof s t = PIdle /\ eg_ep0 (th_eg (st_thr s' t)) = st_epoch s /\ st_epoch s' = st_epoch s /\
   eg_q0 (th_eg (st_thr s' t)) = negb (reload_inflight s) /\ eg_cur0 (th_eg (st_thr s' t)) = cur s t /\
   th_scopes (st_thr s' t) = th_scopes (st_thr s t)).
Proof.
  intros W s t s' H. unfold pcof. step_inv H; rewrite ?Hpc; cbn [em_pc]; intros E; try discriminate E; auto 10.
  all: right; unfold cur, reload_inflight, any_thread; cbn; rewrite ?upd_same; cbn; repeat split; auto.
  all: f_equal; apply existsb_ext'; intros x; rewrite upd_eq; destruct (Nat.eqb_spec x t); subst; reflexivity.
Qed.

Lemma Q0_step : forall W s t s', step W s t = Some s' ->
  (forall u, u < st_n s -> em_pc (pcof s u) = true -> eg_ep0 (th_eg (st_thr s u)) <= st_epoch s) ->
  forall u, u < st_n s' -> em_pc (pcof s' u) = true -> eg_ep0 (th_eg (st_thr s' u)) <= st_epoch s'.
Proof.
  intros W s t s' H q0 u. frame H. rewrite Hn. intros Hu He.
  destruct (Nat.eq_dec u t) as [->|Hne].
  - destruct (step_eg_em _ _ _ _ H He) as [[He' [E1 [_ [_ [_ E2]]]]]|[_ [E1 [E2 _]]]].
    + rewrite E1, E2. auto.
    + lia.
  - rewrite Hpo in He by auto. rewrite Hoth by auto. specialize (q0 u Hu He).
    destruct (step_epoch _ _ _ _ H); lia.
Qed.

Lemma Q1_step : forall W s t s', step W s t = Some s' ->
  (forall u, u < st_n s -> em_pc (pcof s u) = true -> eg_ep0 (th_eg (st_thr s u)) <= st_epoch s) ->
  (forall u, u < st_n s -> em_pc (pcof s u) = true -> eg_q0 (th_eg (st_thr s u)) = true ->
         eg_ep0 (th_eg (st_thr s u)) = st_epoch s -> reload_inflight s = false) ->
  forall u, u < st_n s' -> em_pc (pcof s' u) = true -> eg_q0 (th_eg (st_thr s' u)) = true ->
         eg_ep0 (th_eg (st_thr s' u)) = st_epoch s' -> reload_inflight s' = false.
Proof.
  intros W s t s' H q0 q1 u. frame H. rewrite Hn. intros Hu He Hq Hep.
  destruct (Nat.eq_dec u t) as [->|Hne].
  - destruct (step_eg_em _ _ _ _ H He) as [[He' [E1 [E2 [_ [_ E3]]]]]|[_ [E1 [E2 [E3 _]]]]].
    + eapply inflight_step; eauto. apply (q1 t); auto; congruence.
    + eapply inflight_step; eauto. rewrite E3 in Hq. destruct (reload_inflight s); auto; discriminate.
  - rewrite Hpo in He by auto. rewrite Hoth in Hq, Hep by auto. pose proof (q0 u Hu He) as Hle.
    destruct (step_epoch _ _ _ _ H) as [Ee|Ee]; [|lia].
    eapply inflight_step; eauto. apply (q1 u); auto. congruence.
Qed.

Lemma S1_step : forall W s t s', step W s t = Some s' ->
  (forall u c, u < st_n s -> pc_sg (pcof s u) = Some c -> st_ginit s = GInitializing) ->
  (forall t1 t2 c1 c2, t1 < st_n s -> t2 < st_n s -> pc_sg (pcof s t1) = Some c1 -> pc_sg (pcof s t2) = Some c2 -> t1 = t2) ->
  (forall u c, u < st_n s' -> pc_sg (pcof s' u) = Some c -> st_ginit s' = GInitializing) /\
  (forall t1 t2 c1 c2, t1 < st_n s' -> t2 < st_n s' -> pc_sg (pcof s' t1) = Some c1 -> pc_sg (pcof s' t2) = Some c2 -> t1 = t2).
Proof.
  intros W s t s' H s1 s1u. frame H. rewrite Hn.
  assert (A : forall c, pc_sg (pcof s' t) = Some c ->
                (st_ginit s = GUninit /\ st_ginit s' = GInitializing) \/ (exists c', pc_sg (pcof s t) = Some c' /\ st_ginit s' = st_ginit s)).
  { clear s1 s1u Hpo. unfold pcof. intros c. step_inv H; rewrite ?Hpc; cbn [pc_sg]; intros E; try discriminate E; eauto. }
  assert (B : forall u c, u <> t -> u < st_n s -> pc_sg (pcof s u) = Some c -> st_ginit s' = st_ginit s \/ exists c', pc_sg (pcof s t) = Some c').
  { intros u c Hne Hu E. pose proof (s1 u c Hu E) as Hg. revert Hg. clear s1 s1u Hpo A E. unfold pcof.
    step_inv H; rewrite ?Hpc; cbn [pc_sg]; intros Hg; try discriminate Hg; eauto. }
  split.
  - intros u c Hu. destruct (Nat.eq_dec u t) as [->|Hne].
    + intros E. destruct (A _ E) as [[_ E']|[c' [E1 E2]]]; auto. rewrite E2. eauto.
    + rewrite Hpo by auto. intros E. destruct (B u c Hne Hu E) as [E'|[c' E']].
      * rewrite E'. eauto.
      * exfalso. apply Hne. eapply s1u; eauto.
  - intros t1 t2 c1 c2 H1 H2.
    destruct (Nat.eq_dec t1 t) as [->|Hne1]; destruct (Nat.eq_dec t2 t) as [->|Hne2]; auto;
      rewrite ?(Hpo t1), ?(Hpo t2) by auto; eauto.
    + intros E1 E2. destruct (A _ E1) as [[E' _]|[c' [E' _]]].
      * rewrite (s1 t2 c2 H2 E2) in E'. discriminate.
      * symmetry. eapply s1u; eauto.
    + intros E1 E2. destruct (A _ E2) as [[E' _]|[c' [E' _]]].
      * rewrite (s1 t1 c1 H1 E1) in E'. discriminate.
      * eapply s1u; eauto.
Qed.

Lemma C_step : forall W s t s', InvN s -> step W s t = Some s' ->
  (forall c, st_handle s c = true -> instP s c) ->
  (forall c, st_gdisp s = Some c -> instP s c) ->
  (forall u c, u < st_n s -> In c (th_scopes (st_thr s u)) -> instP s c) ->
  (forall u c, u < st_n s -> pc_sgc (pcof s u) = Some c -> instP s c) ->
  (forall c, st_handle s' c = true -> instP s' c) /\
  (forall c, st_gdisp s' = Some c -> instP s' c) /\
  (forall u c, u < st_n s' -> In c (th_scopes (st_thr s' u)) -> instP s' c) /\
  (forall u c, u < st_n s' -> pc_sgc (pcof s' u) = Some c -> instP s' c).
Proof.
  intros W s t s' IN H c1 c2 c3 c4. frame H. rewrite Hn.
  pose proof (fun c => instP_step _ _ _ _ c H) as Hi.
  split; [|split; [|split]].
  - intros c Hc.
    assert (A : st_handle s c = true \/ pcof s t = PWrUnlock (KNew c)).
    { revert Hc. clear c1 c2 c3 c4 Hpo Hi. unfold pcof. step_inv H; rewrite ?Hpc; auto; intros Hc; upd_cases; auto; discriminate. }
    destruct A as [A|A]; auto. split.
    + eapply step_created; eauto. apply (N1 _ IN c t); auto. rewrite A. cbn. apply Nat.eqb_refl.
    + eapply unlock_newing; eauto.
  - intros c Hc.
    assert (A : st_gdisp s = Some c \/ pcof s t = PSgStore c).
    { revert Hc. clear c1 c2 c3 c4 Hpo Hi. unfold pcof. step_inv H; rewrite ?Hpc; auto. intros E; inversion E; auto. }
    destruct A as [A|A]; auto. apply Hi. apply (c4 t); auto. rewrite A. reflexivity.
  - intros u c Hu. destruct (Nat.eq_dec u t) as [->|Hne].
    + intros Hin. apply Hi.
      assert (A : In c (th_scopes (st_thr s t)) \/ st_handle s c = true).
      { revert Hin. clear c1 c2 c3 c4 Hpo Hi. step_inv H; auto. intros [<-|Hin]; auto. intros Hin. apply in_tl in Hin. auto. }
      destruct A; eauto.
    + rewrite Hoth by auto. eauto.
  - intros u c Hu. destruct (Nat.eq_dec u t) as [->|Hne].
    + intros E. apply Hi.
      assert (A : pc_sgc (pcof s t) = Some c \/ st_handle s c = true).
      { revert E. clear c1 c2 c3 c4 Hpo Hi. unfold pcof. step_inv H; rewrite ?Hpc; cbn [pc_sgc]; intros E; try discriminate E; auto.
        inversion E; subst; auto. }
      destruct A; eauto.
    + rewrite Hpo by auto. eauto.
Qed.

Lemma InvG_step : forall W s t s', InvN s -> InvG s -> step W s t = Some s' -> InvG s'.
Proof.
  intros W s t s' IN [g1 g2 q0 q1 s1 s1u c1 c2 c3 c4] H.
  destruct (S1_step _ _ _ _ H s1 s1u) as [s1' s1u'].
  destruct (C_step _ _ _ _ IN H c1 c2 c3 c4) as [c1' [c2' [c3' c4']]].
  constructor; auto.
  - eapply G1_step; eauto.
  - eapply G2_step; eauto.
  - eapply Q0_step; eauto.
  - eapply Q1_step; eauto.
Qed.

(** no reload in flight: the ghost lists are empty, every cell has exactly one value in play *)
Lemma quiet_inplay : forall s, InvG s -> reload_inflight s = false -> forall c, inplay s c = [st_cell s c].
Proof.
  intros s IG Hq c. unfold reload_inflight in Hq. rewrite any_thread_false in Hq.
  assert (A : st_olds s c = []).
  { destruct (st_olds s c) as [|[u old] l] eqn:E; auto. exfalso.
    destruct (G1 _ IG c u old) as [Hu Hp]; [rewrite E; left; reflexivity|].
    apply pc_rl_pre_old in Hp. apply pc_rl_old_reloading in Hp. unfold pcof in Hp. rewrite Hq in Hp; auto. discriminate. }
  assert (B : st_cleaning s c = []).
  { destruct (st_cleaning s c) as [|[u old] l] eqn:E; auto. exfalso.
    destruct (G2 _ IG c u old) as [Hu [Hp _]]; [rewrite E; left; reflexivity|].
    apply pc_rl_old_reloading in Hp. unfold pcof in Hp. rewrite Hq in Hp; auto. discriminate. }
  unfold inplay. rewrite A, B. reflexivity.
Qed.
