(** Dispatch/Model.v — executable op-granularity model of the dispatch front end of tokio-rs/tracing
    (0.2 line) as it is in /repo.  No proofs in this file.

    Mirrors, one Gallina function per Rust function:
      tracing-core/src/callsite.rs   register, register_dispatch, rebuild_interest_cache,
                                     rebuild_callsite_interest, rebuild_interest          (C01)
      tracing-core/src/collect.rs    Interest::and                                        (C01)
      tracing-core/src/metadata.rs   MAX_LEVEL / LevelFilter::current / set_max           (C01)
      tracing/src/lib.rs             MacroCallsite::{interest, register, is_enabled}      (C01)
      tracing/src/macros.rs          level_enabled!, the guards of event!/span!/enabled!  (C01)
      tracing-core/src/dispatch.rs   CURRENT_STATE, SCOPED_COUNT, GLOBAL_INIT/GLOBAL_DISPATCH, set_default,
                                     DefaultGuard::drop, get_default (fast path), get_default_slow,
                                     get_current / Entered::current, set_global_default   (C02)

    Granularity: every API call is one atomic step (interleavings *inside* a call are the business of
    Dispatch/Sched*.v, C04/C12).  The only exception is [SetGlobalMicro] at the end of this file: the three
    micro-steps of set_global_default, for the "succeeds exactly once under every interleaving" clause of C02.

    Variant switch [fx]: [fx = true] is dispatch.rs as it is in /repo now, after fix aa353f7 of finding F1 (the
    thread-local stays an [Option] and falls back to [get_global()] when it is [None]; [DefaultGuard] restores the
    prior option); [fx = false] is dispatch.rs before that fix (the thread-local caches a clone of the global
    default; the guard's prior is a cloned global).  Everything else is shared.  The switch is never set by hand:
    translators/dispatch_shape.py reads the four sites off the source on every run (coq/gen/Gen_dispatch.v,
    Dispatch/Shape.v [fx_of_shape], Dispatch/Source.v [src_fx]); Properties/C02.v is stated about [src_fx].

    Parameters of a run: [static_max] (tracing::level_filters::STATIC_MAX_LEVEL, a compile-time constant of
    the build) and [conf : N -> collector], the assignment of filters to collectors in creation order.
    User-supplied code (the collectors' filters) is abstract: three functions per collector; the property's
    side condition "self-consistent filters, the hint is a true upper bound" is [wf_collector]. *)
From Coq Require Import NArith List Bool.
Import ListNotations.
Local Open Scope N_scope.

(** * Levels, in the specification order OFF < ERROR < WARN < INFO < DEBUG < TRACE
      (Levels/ proves, for C19, that the code's inverted integer encoding implements this order). *)
Inductive level := ERROR | WARN | INFO | DEBUG | TRACE.
Definition levelfilter := option level.            (* None = LevelFilter::OFF *)
Definition lrank (l : level) : N :=
  match l with ERROR => 1 | WARN => 2 | INFO => 3 | DEBUG => 4 | TRACE => 5 end.
Definition frank (f : levelfilter) : N := match f with None => 0 | Some l => lrank l end.
(** `$lvl <= <LevelFilter>` as used by level_enabled! *)
Definition lvl_le (l : level) (f : levelfilter) : bool := lrank l <=? frank f.

(** * Interest (collect.rs) *)
Inductive interest := never | sometimes | always.
Definition interest_eqb (a b : interest) : bool :=
  match a, b with never, never | sometimes, sometimes | always, always => true | _, _ => false end.
(** Interest::and : `if self.0 == rhs.0 { self } else { Interest::sometimes() }` *)
Definition iand (a b : interest) : interest := if interest_eqb a b then a else sometimes.

(** * Callsites: one per macro expansion ([cs_id] distinguishes two expansions with equal metadata). *)
Inductive kind := KSpan | KEvent | KHint.
Record callsite := { cs_id : N; cs_lvl : level; cs_tgt : N; cs_kind : kind }.
Definition level_eqb (a b : level) : bool := lrank a =? lrank b.
Definition kind_eqb (a b : kind) : bool :=
  match a, b with KSpan, KSpan | KEvent, KEvent | KHint, KHint => true | _, _ => false end.
Definition cs_eqb (a b : callsite) : bool :=
  (cs_id a =? cs_id b) && level_eqb (cs_lvl a) (cs_lvl b) && (cs_tgt a =? cs_tgt b) && kind_eqb (cs_kind a) (cs_kind b).

(** * Collectors: user code, abstract.
    [c_reg]  = Collect::register_callsite,
    [c_en]   = Collect::enabled, as a function of the collector's current dynamic flag,
    [c_hint] = Collect::max_level_hint, [c_flag0] = initial value of the dynamic flag. *)
Record collector := {
  c_reg : callsite -> interest;
  c_en : bool -> callsite -> bool;
  c_hint : option levelfilter;
  c_flag0 : bool }.

Definition hint_or_trace (c : collector) : levelfilter :=
  match c_hint c with Some h => h | None => Some TRACE end.       (* `.unwrap_or(LevelFilter::TRACE)` *)

(** The property's "self-consistent filters" and "hint is a true upper bound". *)
Definition wf_collector (c : collector) : Prop :=
  (forall cs fl, c_reg c cs = never -> c_en c fl cs = false) /\
  (forall cs fl, c_reg c cs = always -> c_en c fl cs = true) /\
  (forall h cs, c_hint c = Some h -> c_reg c cs <> never -> lvl_le (cs_lvl cs) h = true).

(** The structured filters the correspondence instantiates (the harness' recording collector implements
    exactly this): level threshold x target set x static-or-dynamic interest x optional hint. *)
Record fspec := {
  f_thr : levelfilter;
  f_tgts : list N;
  f_dyn : option bool;             (* Some flag0: answers `sometimes` and consults the flag *)
  f_hint : option levelfilter }.
Definition static_ok (f : fspec) (cs : callsite) : bool :=
  lvl_le (cs_lvl cs) (f_thr f) && existsb (N.eqb (cs_tgt cs)) (f_tgts f).
Definition mk_collector (f : fspec) : collector := {|
  c_reg := fun cs => if static_ok f cs then match f_dyn f with Some _ => sometimes | None => always end else never;
  c_en := fun fl cs => static_ok f cs && match f_dyn f with Some _ => fl | None => true end;
  c_hint := f_hint f;
  c_flag0 := match f_dyn f with Some b => b | None => true end |}.
(** [hint_sound f]: the hint (if any) is at least the threshold, i.e. a true upper bound. *)
Definition hint_sound (f : fspec) : bool :=
  match f_hint f with Some h => frank (f_thr f) <=? frank h | None => true end.
Definition no_collector : collector :=
  {| c_reg := fun _ => never; c_en := fun _ _ => false; c_hint := None; c_flag0 := false |}.
Fixpoint conf_of_list (l : list fspec) (c : N) : collector :=
  match l with
  | [] => no_collector
  | f :: r => if c =? 0 then mk_collector f else conf_of_list r (c - 1)
  end.

(** * State *)
(** A [Dispatch] value: the no-op dispatcher (`Dispatch::none()`, `NONE`) or a handle on collector [c]. *)
Inductive disp := DNone | DCol (c : N).
Definition disp_is (c : N) (d : disp) : bool := match d with DCol c' => c' =? c | DNone => false end.
Definition odisp_is (c : N) (o : option disp) : bool := match o with Some d => disp_is c d | None => false end.

(** Per thread: CURRENT_STATE.default and the live DefaultGuards of the thread, innermost first
    (a guard is `DefaultGuard(Option<Dispatch>)`: the prior default it will restore). *)
Record tstate := { tl : option disp; guards : list (option disp) }.
Definition tinit : tstate := {| tl := None; guards := [] |}.

Record state := {
  next : N;                          (* number of collectors created so far *)
  handle : N -> bool;                (* the user still holds the Dispatch returned by Dispatch::new *)
  flag : N -> bool;                  (* collectors' dynamic flags *)
  dispatchers : list N;              (* REGISTRY.dispatchers (weak), push order *)
  callsites : list callsite;         (* REGISTRY.callsites, head = newest *)
  cache : callsite -> option interest; (* MacroCallsite.interest; None = 0xFF *)
  max_level : levelfilter;           (* MAX_LEVEL *)
  tls : N -> tstate;                 (* thread-locals *)
  tids : list N;                     (* threads whose thread-local was ever written (bookkeeping for [live]) *)
  scoped : nat;                      (* SCOPED_COUNT *)
  global : option N }.               (* GLOBAL_INIT = INITIALIZED and GLOBAL_DISPATCH *)

Definition init : state := {|
  next := 0; handle := fun _ => false; flag := fun _ => false; dispatchers := []; callsites := [];
  cache := fun _ => None; max_level := None; tls := fun _ => tinit; tids := []; scoped := 0%nat; global := None |}.

Definition upd {A} (f : N -> A) (k : N) (v : A) : N -> A := fun x => if x =? k then v else f x.

Definition set_handle s h := {| next := next s; handle := h; flag := flag s; dispatchers := dispatchers s;
  callsites := callsites s; cache := cache s; max_level := max_level s; tls := tls s; tids := tids s;
  scoped := scoped s; global := global s |}.
Definition set_flag s f := {| next := next s; handle := handle s; flag := f; dispatchers := dispatchers s;
  callsites := callsites s; cache := cache s; max_level := max_level s; tls := tls s; tids := tids s;
  scoped := scoped s; global := global s |}.
Definition set_dispatchers s d := {| next := next s; handle := handle s; flag := flag s; dispatchers := d;
  callsites := callsites s; cache := cache s; max_level := max_level s; tls := tls s; tids := tids s;
  scoped := scoped s; global := global s |}.
Definition set_cache s cs i := {| next := next s; handle := handle s; flag := flag s; dispatchers := dispatchers s;
  callsites := callsites s; cache := fun x => if cs_eqb x cs then Some i else cache s x; max_level := max_level s;
  tls := tls s; tids := tids s; scoped := scoped s; global := global s |}.
Definition push_callsite s cs := {| next := next s; handle := handle s; flag := flag s; dispatchers := dispatchers s;
  callsites := cs :: callsites s; cache := cache s; max_level := max_level s; tls := tls s; tids := tids s;
  scoped := scoped s; global := global s |}.
Definition set_max s m := {| next := next s; handle := handle s; flag := flag s; dispatchers := dispatchers s;
  callsites := callsites s; cache := cache s; max_level := m; tls := tls s; tids := tids s;
  scoped := scoped s; global := global s |}.
Definition set_thread s t st := {| next := next s; handle := handle s; flag := flag s; dispatchers := dispatchers s;
  callsites := callsites s; cache := cache s; max_level := max_level s; tls := upd (tls s) t st; tids := t :: tids s;
  scoped := scoped s; global := global s |}.
Definition set_scoped s n := {| next := next s; handle := handle s; flag := flag s; dispatchers := dispatchers s;
  callsites := callsites s; cache := cache s; max_level := max_level s; tls := tls s; tids := tids s;
  scoped := n; global := global s |}.
Definition set_global s g := {| next := next s; handle := handle s; flag := flag s; dispatchers := dispatchers s;
  callsites := callsites s; cache := cache s; max_level := max_level s; tls := tls s; tids := tids s;
  scoped := scoped s; global := g |}.

(** * Liveness: `Registrar::upgrade()` succeeds iff some strong reference to the collector exists.
    Strong references are: the user's handle, every thread-local default, every prior kept in a live
    DefaultGuard, and the global default (leaked by `Arc::into_raw`, so alive forever). *)
Definition held_by (st : tstate) (c : N) : bool := odisp_is c (tl st) || existsb (odisp_is c) (guards st).
Definition live (s : state) (c : N) : bool :=
  handle s c || existsb (fun t => held_by (tls s t) c) (tids s) || match global s with Some g => g =? c | None => false end.

(** * Operations and observations *)
Inductive op :=
| New                            (* Dispatch::new(<collector number [next]>); the user keeps the handle *)
| DropHandle (c : N)             (* drop that handle *)
| Open (t : N) (d : disp)        (* thread t: set_default(&d), guard kept *)
| Close (t : N) (k : nat)        (* thread t drops its k-th innermost live guard; k = 0 is LIFO *)
| SetGlobal (t : N) (c : N)      (* thread t: set_global_default(handle c .clone()) *)
| Emit (t : N) (cs : callsite)   (* thread t: event!/span! at callsite cs *)
| Probe (t : N) (cs : callsite)  (* thread t: enabled! at (hint) callsite cs *)
| GetDefault (t : N)             (* thread t: get_default(identity) / Dispatch::default() *)
| GetCurrent (t : N)             (* thread t: get_current(identity)  (Entered::current) *)
| Rebuild                        (* callsite::rebuild_interest_cache() *)
| Flip (c : N).                  (* collector c toggles its dynamic flag (no rebuild) *)

Inductive obs :=
| ONew (c : N)
| OUnit
| OBad                                                   (* not expressible in Rust / ignored: dead handle, no such guard *)
| OSetGlobal (ok : bool)
| OEmit (consulted : option disp) (delivered : option N) (* which default the macro was handed (if it asked); who got event/new_span *)
| OProbe (consulted : option disp) (r : bool)
| ODefault (d : disp).

Definition consulted (o : obs) : option disp :=
  match o with OEmit c _ => c | OProbe c _ => c | ODefault d => Some d | _ => None end.

Fixpoint remove_nth {A} (k : nat) (l : list A) : option (A * list A) :=
  match l, k with
  | [], _ => None
  | x :: r, O => Some (x, r)
  | x :: r, S k' => match remove_nth k' r with Some (y, r') => Some (y, x :: r') | None => None end
  end.

Section Run.
  Variable fx : bool.                 (* true: /repo as it is now (fix aa353f7); false: before it (finding F1); read off the source, see Source.v *)
  Variable static_max : levelfilter.  (* STATIC_MAX_LEVEL of the build *)
  Variable conf : N -> collector.

  (** ** callsite.rs *)
  (** rebuild_callsite_interest: fold the answers of the registrars that still upgrade. *)
  Definition live_interests (s : state) (cs : callsite) : list interest :=
    map (fun c => c_reg (conf c) cs) (filter (live s) (dispatchers s)).
  Definition fold_interest (s : state) (cs : callsite) : interest :=
    match live_interests s cs with
    | [] => never
    | i :: r => fold_left iand r i
    end.
  (** callsite::register: compute, store, *then* push. *)
  Definition register (s : state) (cs : callsite) : state :=
    push_callsite (set_cache s cs (fold_interest s cs)) cs.
  (** rebuild_interest: retain the live registrars, recompute the maximum hint, recompute every listed
      callsite (for_each walks head first), LevelFilter::set_max. *)
  Definition max_hint (ds : list N) : levelfilter :=
    fold_left (fun m c => if frank m <? frank (hint_or_trace (conf c)) then hint_or_trace (conf c) else m) ds None.
  Definition rebuild (s : state) : state :=
    let s1 := set_dispatchers s (filter (live s) (dispatchers s)) in
    let s2 := fold_left (fun st cs => set_cache st cs (fold_interest s1 cs)) (callsites s1) s1 in
    set_max s2 (max_hint (dispatchers s1)).

  (** ** dispatch.rs *)
  Definition get_global (s : state) : disp := match global s with Some g => DCol g | None => DNone end.
  (** get_default_slow and Entered::current: `default.get_or_insert_with(|| get_global().clone())`;
      since the F1 repair ([fx = true]): `match default { Some(d) => d, None => get_global() }`. *)
  Definition slow (s : state) (t : N) : state * disp :=
    match tl (tls s t) with
    | Some d => (s, d)
    | None =>
        let g := get_global s in
        ((if fx then s else set_thread s t {| tl := Some g; guards := guards (tls s t) |}), g)
    end.
  Definition get_default (s : state) (t : N) : state * disp :=
    if Nat.eqb (scoped s) 0 then (s, get_global s) else slow s t.
  (** The thread's current default as a pure function of the state (what get_default would hand out). *)
  Definition current (s : state) (t : N) : disp :=
    if Nat.eqb (scoped s) 0 then get_global s
    else match tl (tls s t) with Some d => d | None => get_global s end.

  Definition valid_disp (s : state) (d : disp) : bool := match d with DNone => true | DCol c => handle s c end.

  (** State::set_default *)
  Definition do_open (s : state) (t : N) (d : disp) : state * obs :=
    if valid_disp s d then
      let st := tls s t in
      let prior := if fx then tl st
                   else Some (match tl st with Some p => p | None => get_global s end) in
      (set_scoped (set_thread s t {| tl := Some d; guards := prior :: guards st |}) (S (scoped s)), OUnit)
    else (s, OBad).
  (** Drop for DefaultGuard *)
  Definition do_close (s : state) (t : N) (k : nat) : state * obs :=
    let st := tls s t in
    match remove_nth k (guards st) with
    | None => (s, OBad)
    | Some (prior, gs) =>
        let tl' := if fx then prior else match prior with Some p => Some p | None => tl st end in
        (set_scoped (set_thread s t {| tl := tl'; guards := gs |}) (pred (scoped s)), OUnit)
    end.
  (** set_global_default at op granularity (the CAS decides) *)
  Definition do_set_global (s : state) (c : N) : state * obs :=
    if handle s c then
      match global s with
      | None => (set_global s (Some c), OSetGlobal true)
      | Some _ => (s, OSetGlobal false)
      end
    else (s, OBad).

  (** ** macros.rs / lib.rs *)
  Definition level_enabled (s : state) (cs : callsite) : bool :=
    lvl_le (cs_lvl cs) static_max && lvl_le (cs_lvl cs) (max_level s).
  (** MacroCallsite::interest: the cached byte, or register() on 0xFF *)
  Definition interest_of (s : state) (cs : callsite) : state * interest :=
    match cache s cs with
    | Some i => (s, i)
    | None => (register s cs, fold_interest s cs)
    end.
  Definition enabled_of (s : state) (d : disp) (cs : callsite) : bool :=
    match d with DNone => false | DCol c => c_en (conf c) (flag s c) cs end.
  (** `level_enabled!(lvl) && { interest = CALLSITE.interest(); !interest.is_never() } && CALLSITE.is_enabled(interest)`
      returns (state, the default consulted by is_enabled if any, verdict). *)
  Definition guard (s : state) (t : N) (cs : callsite) : state * option disp * bool :=
    if level_enabled s cs then
      let '(s1, i) := interest_of s cs in
      match i with
      | never => (s1, None, false)
      | always => (s1, None, true)
      | sometimes => let '(s2, d) := get_default s1 t in (s2, Some d, enabled_of s2 d cs)
      end
    else (s, None, false).
  (** event!/span!: guard, then Event::dispatch / Span::new hand the emission to get_default's dispatcher. *)
  Definition do_emit (s : state) (t : N) (cs : callsite) : state * obs :=
    let '(s1, con, ok) := guard s t cs in
    if ok then
      let '(s2, d) := get_default s1 t in
      (s2, OEmit (Some d) (match d with DCol c => Some c | DNone => None end))
    else (s1, OEmit con None).
  (** enabled!: the same guard, then `get_default(|current| current.enabled(meta))`. *)
  Definition do_probe (s : state) (t : N) (cs : callsite) : state * obs :=
    let '(s1, con, ok) := guard s t cs in
    if ok then
      let '(s2, d) := get_default s1 t in (s2, OProbe (Some d) (enabled_of s2 d cs))
    else (s1, OProbe con false).

  Definition step (s : state) (o : op) : state * obs :=
    match o with
    | New =>
        let c := next s in
        (* Dispatch::new -> register_dispatch: push the registrar, rebuild_interest *)
        let s1 := {| next := c + 1; handle := upd (handle s) c true; flag := upd (flag s) c (c_flag0 (conf c));
                     dispatchers := dispatchers s ++ [c]; callsites := callsites s; cache := cache s;
                     max_level := max_level s; tls := tls s; tids := tids s; scoped := scoped s; global := global s |} in
        (rebuild s1, ONew c)
    | DropHandle c => if handle s c then (set_handle s (upd (handle s) c false), OUnit) else (s, OBad)
    | Open t d => do_open s t d
    | Close t k => do_close s t k
    | SetGlobal _ c => do_set_global s c
    | Emit t cs => do_emit s t cs
    | Probe t cs => do_probe s t cs
    | GetDefault t => let '(s', d) := get_default s t in (s', ODefault d)
    | GetCurrent t => let '(s', d) := slow s t in (s', ODefault d)
    | Rebuild => (rebuild s, OUnit)
    | Flip c => if c <? next s then (set_flag s (upd (flag s) c (negb (flag s c))), OUnit) else (s, OBad)
    end.

  (** [trace s h]: every step with the state it started from.  [run]: observations plus
      `LevelFilter::current()` after each op (what the harness prints). *)
  Fixpoint trace (s : state) (h : list op) : list (state * op * obs) :=
    match h with
    | [] => []
    | o :: r => let '(s', ob) := step s o in (s, o, ob) :: trace s' r
    end.
  Fixpoint run (s : state) (h : list op) : list (obs * levelfilter) :=
    match h with
    | [] => []
    | o :: r => let '(s', ob) := step s o in (ob, max_level s') :: run s' r
    end.
  Fixpoint final (s : state) (h : list op) : state :=
    match h with [] => s | o :: r => final (fst (step s o)) r end.

  (** ** C01: what the emitting thread's current collector's *own* filter says, at that moment. *)
  Definition accepts (s : state) (c : N) (cs : callsite) : bool :=
    match c_reg (conf c) cs with
    | never => false
    | always => true
    | sometimes => c_en (conf c) (flag s c) cs
    end.
  Definition own_verdict (s : state) (t : N) (cs : callsite) : option N :=
    match current s t with
    | DCol c => if lvl_le (cs_lvl cs) static_max && accepts s c cs then Some c else None
    | DNone => None
    end.
  Definition c01_ok (x : state * op * obs) : Prop :=
    match x with
    | (s, Emit t cs, OEmit _ del) => del = own_verdict s t cs
    | (s, Probe t cs, OProbe _ r) => r = match own_verdict s t cs with Some _ => true | None => false end
    | (_, Emit _ _, _) | (_, Probe _ _, _) => False
    | _ => True
    end.
End Run.

(** * C02: the abstract specification — a scope stack per thread and a write-once global cell.
    The stacks are kept as one list of (thread, installed dispatcher) entries, newest first; thread t's
    stack is the sub-list of its own entries.  Nothing here mentions thread-locals, counters or caches. *)
Record astate := {
  a_next : N;
  a_handle : N -> bool;
  a_scopes : list (N * disp);
  a_global : option N }.
Definition ainit : astate := {| a_next := 0; a_handle := fun _ => false; a_scopes := []; a_global := None |}.
Definition a_stack (a : astate) (t : N) : list disp := map snd (filter (fun e => fst e =? t) (a_scopes a)).
Definition a_default (a : astate) (t : N) : disp :=
  match a_stack a t with
  | d :: _ => d
  | [] => match a_global a with Some g => DCol g | None => DNone end
  end.
Fixpoint remove_first (t : N) (l : list (N * disp)) : list (N * disp) :=
  match l with
  | [] => []
  | e :: r => if fst e =? t then r else e :: remove_first t r
  end.
(** What the specification says about the observation of an op. *)
Inductive aobs :=
| ADefault (d : disp)          (* if the op consults the thread's default at all, it is handed d *)
| ASetGlobal (ok : bool)
| ABad
| AAny.
Definition a_valid (a : astate) (d : disp) : bool := match d with DNone => true | DCol c => a_handle a c end.
Definition astep (a : astate) (o : op) : astate * aobs :=
  match o with
  | New => ({| a_next := a_next a + 1; a_handle := upd (a_handle a) (a_next a) true; a_scopes := a_scopes a; a_global := a_global a |}, AAny)
  | DropHandle c =>
      if a_handle a c then ({| a_next := a_next a; a_handle := upd (a_handle a) c false; a_scopes := a_scopes a; a_global := a_global a |}, AAny)
      else (a, ABad)
  | Open t d =>
      if a_valid a d then ({| a_next := a_next a; a_handle := a_handle a; a_scopes := (t, d) :: a_scopes a; a_global := a_global a |}, AAny)
      else (a, ABad)
  | Close t _ =>     (* the property speaks of LIFO closes only; [Nested] restricts histories to k = 0 *)
      match a_stack a t with
      | [] => (a, ABad)
      | _ :: _ => ({| a_next := a_next a; a_handle := a_handle a; a_scopes := remove_first t (a_scopes a); a_global := a_global a |}, AAny)
      end
  | SetGlobal _ c =>
      if a_handle a c then
        match a_global a with
        | None => ({| a_next := a_next a; a_handle := a_handle a; a_scopes := a_scopes a; a_global := Some c |}, ASetGlobal true)
        | Some _ => (a, ASetGlobal false)
        end
      else (a, ABad)
  | Emit t _ | Probe t _ | GetDefault t | GetCurrent t => (a, ADefault (a_default a t))
  | Rebuild | Flip _ => (a, AAny)
  end.
Fixpoint aspec (a : astate) (h : list op) : list aobs :=
  match h with
  | [] => []
  | o :: r => let '(a', ao) := astep a o in ao :: aspec a' r
  end.
Definition agrees (ob : obs) (ao : aobs) : Prop :=
  match ao with
  | ADefault d => forall d', consulted ob = Some d' -> d' = d
  | ASetGlobal ok => ob = OSetGlobal ok
  | ABad => ob = OBad
  | AAny => True
  end.
Definition agrees_b (ob : obs) (ao : aobs) : bool :=
  match ao with
  | ADefault d => match consulted ob with
                  | Some d' => match d, d' with DNone, DNone => true | DCol a, DCol b => a =? b | _, _ => false end
                  | None => true
                  end
  | ASetGlobal ok => match ob with OSetGlobal ok' => Bool.eqb ok ok' | _ => false end
  | ABad => match ob with OBad => true | _ => false end
  | AAny => true
  end.

Definition Nested (h : list op) : Prop := forall t k, In (Close t k) h -> k = 0%nat.
Definition nested_b (h : list op) : bool :=
  forallb (fun o => match o with Close _ (S _) => false | _ => true end) h.

(** ** The class of histories that hits finding F1, delimited without looking at any thread-local:
    a ghost monitor over (op, observation) that tracks, per thread, whether the thread *first* used the
    dispatcher machinery — opened a scope, or asked for its default on the slow path (some scope live
    anywhere), or called get_current — BEFORE the global default existed ([Some true] = "tainted").
    A hit: a tainted thread with no live scope of its own asks for its default, after the global default was
    set, on the slow path (always, for get_current). *)
Definition f1_step (a : astate) (e : N -> option bool) (o : op) (ob : obs) : (N -> option bool) * bool :=
  let gset := match a_global a with Some _ => true | None => false end in
  let establish t := match e t with None => upd e t (Some (negb gset)) | Some _ => e end in
  let hit e' t := match a_stack a t, e' t with [], Some true => gset | _, _ => false end in
  match o with
  | Open t d => if a_valid a d then (establish t, false) else (e, false)
  | Emit t _ | Probe t _ | GetDefault t =>
      match consulted ob, a_scopes a with
      | Some _, _ :: _ => let e' := establish t in (e', hit e' t)
      | _, _ => (e, false)
      end
  | GetCurrent t => let e' := establish t in (e', hit e' t)
  | _ => (e, false)
  end.
Fixpoint f1_hits (a : astate) (e : N -> option bool) (h : list op) (obs_ : list obs) : list bool :=
  match h, obs_ with
  | o :: r, ob :: obr =>
      let '(e', hit) := f1_step a e o ob in
      hit :: f1_hits (fst (astep a o)) e' r obr
  | _, _ => []
  end.
Definition F1_class (static_max : levelfilter) (conf : N -> collector) (h : list op) : Prop :=
  In true (f1_hits ainit (fun _ => None) h (map fst (run false static_max conf init h))).
Definition f1_class_b (static_max : levelfilter) (conf : N -> collector) (h : list op) : bool :=
  existsb (fun b => b) (f1_hits ainit (fun _ => None) h (map fst (run false static_max conf init h))).

(** * set_global_default, micro-step model (the only place where one API call is split):
      pc 0: compare_exchange(UNINITIALIZED -> INITIALIZING)   (failure: return Err)
      pc 1: GLOBAL_DISPATCH = dispatcher
      pc 2: GLOBAL_INIT.store(INITIALIZED); return Ok
    A schedule is a list of thread ids; a thread that has finished ignores further turns. *)
Inductive ginit := Uninit | Initializing | Initialized.
Inductive sg_result := SgOk | SgErr.
Record sg_state := {
  sg_init : ginit;
  sg_disp : option N;                         (* GLOBAL_DISPATCH; None = the static NO_COLLECTOR dispatch *)
  sg_pc : N -> nat;                           (* per attempt (one per thread) *)
  sg_res : N -> option sg_result }.
Definition sg_init_state : sg_state :=
  {| sg_init := Uninit; sg_disp := None; sg_pc := fun _ => 0%nat; sg_res := fun _ => None |}.
(** [cand t] = the collector thread t tries to install. *)
Definition sg_step (cand : N -> N) (s : sg_state) (t : N) : sg_state :=
  match sg_res s t with
  | Some _ => s
  | None =>
    match sg_pc s t with
    | O => match sg_init s with
           | Uninit => {| sg_init := Initializing; sg_disp := sg_disp s; sg_pc := upd (sg_pc s) t 1%nat; sg_res := sg_res s |}
           | _ => {| sg_init := sg_init s; sg_disp := sg_disp s; sg_pc := sg_pc s; sg_res := upd (sg_res s) t (Some SgErr) |}
           end
    | S O => {| sg_init := sg_init s; sg_disp := Some (cand t); sg_pc := upd (sg_pc s) t 2%nat; sg_res := sg_res s |}
    | _ => {| sg_init := Initialized; sg_disp := sg_disp s; sg_pc := sg_pc s; sg_res := upd (sg_res s) t (Some SgOk) |}
    end
  end.
Definition sg_run (cand : N -> N) (sched : list N) : sg_state := fold_left (sg_step cand) sched sg_init_state.
(** get_global(): `if GLOBAL_INIT != INITIALIZED { &NONE } else { &GLOBAL_DISPATCH }` *)
Definition sg_get_global (s : sg_state) : option N :=
  match sg_init s with Initialized => sg_disp s | _ => None end.

(** * Encoders for the correspondence (results are printed as lists of N) *)
Definition enc_disp (d : disp) : N := match d with DNone => 0 | DCol c => c + 1 end.
Definition enc_odisp (o : option disp) : N := match o with None => 0 | Some d => enc_disp d + 1 end.
Definition enc_oN (o : option N) : N := match o with None => 0 | Some c => c + 1 end.
Definition enc_bool (b : bool) : N := if b then 1 else 0.
Definition enc_obs (x : obs * levelfilter) : list N :=
  let '(o, m) := x in
  match o with
  | ONew c => [0; c]
  | OUnit => [1]
  | OBad => [2]
  | OSetGlobal ok => [3; enc_bool ok]
  | OEmit c d => [4; enc_odisp c; enc_oN d]
  | OProbe c r => [5; enc_odisp c; enc_bool r]
  | ODefault d => [6; enc_disp d]
  end ++ [frank m].
Definition enc_aobs (a : aobs) : list N :=
  match a with ADefault d => [0; enc_disp d] | ASetGlobal ok => [1; enc_bool ok] | ABad => [2] | AAny => [3] end.
Definition level_of_N (n : N) : level :=
  match n with 1 => ERROR | 2 => WARN | 3 => INFO | 4 => DEBUG | _ => TRACE end.
Definition filter_of_N (n : N) : levelfilter := match n with 0 => None | _ => Some (level_of_N n) end.
Definition kind_of_N (n : N) : kind := match n with 0 => KSpan | 1 => KEvent | _ => KHint end.
Definition mk_cs (id l t k : N) : callsite := {| cs_id := id; cs_lvl := level_of_N l; cs_tgt := t; cs_kind := kind_of_N k |}.
(** fspec from numbers: threshold, targets, dyn (0 static / 1 dynamic-off / 2 dynamic-on), hint (0 none / n+1). *)
Definition mk_fspec (thr : N) (tg : list N) (dyn hint : N) : fspec :=
  {| f_thr := filter_of_N thr; f_tgts := tg;
     f_dyn := match dyn with 0 => None | 1 => Some false | _ => Some true end;
     f_hint := match hint with 0 => None | _ => Some (filter_of_N (hint - 1)) end |}.
(** One correspondence case: the model's observations and, for C02, the specification's and the F1 monitor's. *)
Definition run_case (fx : bool) (smax : N) (fs : list fspec) (h : list op) : list (list N) :=
  map enc_obs (run fx (filter_of_N smax) (conf_of_list fs) init h).
Definition spec_case (h : list op) : list (list N) := map enc_aobs (aspec ainit h).
Definition f1_case (smax : N) (fs : list fspec) (h : list op) : list N :=
  map enc_bool (f1_hits ainit (fun _ => None) h (map fst (run false (filter_of_N smax) (conf_of_list fs) init h))).
