(** Consequences of the registration discipline: exactness of the list CAS, push progress, deadlock freedom. *)
From Coq Require Import List Arith Bool Lia.
From TV Require Import Dispatch.Sched_Model Dispatch.Sched_Proofs_Base Dispatch.Sched_Proofs_Lock Dispatch.Sched_Proofs_Reg.
Import ListNotations.

(** * Consequences *)

(** a successful list CAS: the list is exactly the one the thread loaded (so linking [next] to the loaded head
    is right); a failed one: somebody else pushed since the load, and the retry reloads a strictly longer list *)
Lemma hd_eq_refl : forall l, hd_eq l l = true.
Proof. destruct l; simpl; auto using Nat.eqb_refl. Qed.

Lemma hd_eq_suffix : forall pre l0, NoDup (pre ++ l0) -> hd_eq (pre ++ l0) l0 = true -> pre = [].
Proof.
  intros [|x pre] l0 Hnd He; auto. exfalso.
  destruct l0 as [|y l0]; simpl in He; try discriminate.
  apply Nat.eqb_eq in He. subst y.
  simpl in Hnd. inversion Hnd as [|? ? Hni _]; subst. apply Hni. apply in_or_app. right. left. reflexivity.
Qed.

Lemma push_cas_exact : forall s t cs l0, InvR s -> t < st_n s -> pcof s t = PRgPushCas cs l0 ->
  hd_eq (st_list s) l0 = true -> st_list s = l0.
Proof.
  intros s t cs l0 IR Ht Hp He. destruct (R5 _ IR _ _ _ Ht Hp) as [pre Hl].
  pose proof (R3 _ IR) as Hnd. rewrite Hl in *. apply hd_eq_suffix in He; auto. subst. reflexivity.
Qed.

Lemma push_cas_retry : forall s t cs l0, InvR s -> t < st_n s -> pcof s t = PRgPushCas cs l0 ->
  hd_eq (st_list s) l0 = false -> exists x pre, st_list s = (x :: pre) ++ l0.
Proof.
  intros s t cs l0 IR Ht Hp He. destruct (R5 _ IR _ _ _ Ht Hp) as [pre Hl].
  destruct pre as [|x pre]; eauto. simpl in Hl. rewrite Hl, hd_eq_refl in He. discriminate.
Qed.

(** a step of a thread parked at the list CAS either pushes (and then the list was the loaded one) or retries with
    the current, strictly longer, list: the number of retries of one registration is bounded by the number of
    other registrations pushed meanwhile *)
Lemma push_progress_step : forall W s t s' cs l0, InvR s -> pcof s t = PRgPushCas cs l0 -> step W s t = Some s' ->
  (st_list s = l0 /\ st_list s' = cs :: l0 /\ pcof s' t = PRgRUnlock cs) \/
  (length l0 < length (st_list s) /\ st_list s' = st_list s /\ pcof s' t = PRgPushCas cs (st_list s)).
Proof.
  intros W s t s' cs l0 IR Hp H.
  destruct (step_frame _ _ _ _ H) as [Hlt0 _].
  destruct (hd_eq (st_list s) l0) eqn:He.
  - pose proof (push_cas_exact _ _ _ _ IR Hlt0 Hp He) as Hl. left.
    revert Hp He Hl. clear IR. unfold pcof. step_inv H; intros Hp; try discriminate Hp; inversion Hp; subst; intros He Hl;
      try congruence; rewrite ?upd_same; rewrite ?Hl; auto.
  - destruct (push_cas_retry _ _ _ _ IR Hlt0 Hp He) as [x [pre Hl]]. right.
    assert (Hlen : length l0 < length (st_list s)) by (rewrite Hl; simpl; rewrite app_length; lia).
    revert Hp He Hlen. pose proof (R4a _ IR t cs Hlt0) as r4. revert r4. clear IR Hl. unfold pcof.
    step_inv H; intros r4 Hp; try discriminate Hp; inversion Hp; subst; intros He Hlen; try congruence; rewrite ?upd_same; auto.
Qed.

(** * Deadlock freedom *)

Definition unfinished (s : state) : Prop := exists t, t < st_n s /\ th_done (st_thr s t) = false.

Lemma can_step_free : forall W s t, t < st_n s -> (forall c, st_cellw s c = false) ->
  st_writer s = None -> st_readers s = [] -> th_done (st_thr s t) = false -> step W s t <> None.
Proof.
  intros W s t Ht Hc Hw Hr Hd. unfold step. apply Nat.ltb_lt in Ht. rewrite Ht. cbn [negb].
  unfold th_done in Hd. rewrite Hw, Hr.
  destruct (th_pc (st_thr s t)) eqn:Hpc; rewrite ?Hc; try discriminate.
  all: repeat match goal with |- context[match ?x with _ => _ end] => destruct x eqn:? end; try discriminate.
Qed.
Lemma can_step_wsec : forall W s t, t < st_n s -> (forall c, st_cellw s c = false) ->
  in_wsec (pcof s t) = true -> step W s t <> None.
Proof.
  intros W s t Ht Hc Hs. unfold step. apply Nat.ltb_lt in Ht. rewrite Ht. cbn [negb]. unfold pcof in Hs.
  destruct (th_pc (st_thr s t)) eqn:Hpc; rewrite ?Hc; try discriminate Hs.
  all: repeat match goal with |- context[match ?x with _ => _ end] => destruct x eqn:? end; try discriminate.
Qed.
Lemma can_step_rsec : forall W s t, t < st_n s -> (forall c, st_cellw s c = false) ->
  in_rsec (pcof s t) = true -> step W s t <> None.
Proof.
  intros W s t Ht Hc Hs. unfold step. apply Nat.ltb_lt in Ht. rewrite Ht. cbn [negb]. unfold pcof in Hs.
  destruct (th_pc (st_thr s t)) eqn:Hpc; rewrite ?Hc; try discriminate Hs.
  all: repeat match goal with |- context[match ?x with _ => _ end] => destruct x eqn:? end; try discriminate.
Qed.
Lemma can_step_cellw : forall W s t c, t < st_n s -> pc_cellw (pcof s t) = Some c -> step W s t <> None.
Proof.
  intros W s t c Ht Hs. unfold step. apply Nat.ltb_lt in Ht. rewrite Ht. cbn [negb]. unfold pcof in Hs.
  destruct (th_pc (st_thr s t)) eqn:Hpc; try discriminate Hs; discriminate.
Qed.

Theorem no_deadlock_inv : forall W s, InvL s -> InvR s -> unfinished s -> exists t, step W s t <> None.
Proof.
  intros W s IL IR [t [Ht Hd]].
  destruct (any_thread s (fun th => match pc_cellw (th_pc th) with Some _ => true | None => false end)) eqn:Ha.
  - apply any_thread_true in Ha. destruct Ha as [u [Hu Hp]].
    destruct (pc_cellw (th_pc (st_thr s u))) as [c|] eqn:E; try discriminate.
    exists u. eapply can_step_cellw; eauto.
  - assert (Hc : forall c, st_cellw s c = false).
    { intros c. destruct (st_cellw s c) eqn:E; auto. apply (CW _ IR) in E. destruct E as [u [Hu Hp]].
      rewrite any_thread_false in Ha. specialize (Ha u Hu). unfold pcof in Hp. rewrite Hp in Ha. discriminate. }
    destruct (st_writer s) as [w|] eqn:Hw.
    + destruct (L1 _ IL w Hw) as [Hwn Hws]. exists w. apply can_step_wsec; auto.
    + destruct (st_readers s) as [|r rs] eqn:Hr.
      * exists t. apply can_step_free; auto.
      * destruct (L3 _ IL r) as [Hrn Hrs]; [rewrite Hr; left; reflexivity|].
        exists r. apply can_step_rsec; auto.
Qed.
