(** C07 — the passes at the level of the whole stack.  A collector [With l1 (With l2 (.. Registry))] runs its
    passes exactly like the layer [Pair l1 (Pair l2 (.. None))] (that is what [Layered] is, in both of its
    impls), so the four pass specifications of Passes.v carry over; the Registry adds its own [enabled]
    answer ([FilterMap::any_enabled]) and the [Layered] collector impl clears the bitmap on a veto. *)
From Coq Require Import NArith List Bool Lia.
From TV Require Import Stack.Model Stack.Spec Stack.Bits Stack.Passes.
Import ListNotations.
Local Open Scope N_scope.

Fixpoint as_layer (c : coll) : layer :=
  match c with Registry => LOpt None | With l c' => Pair l (as_layer c') end.

Lemma ids_as_layer : forall c, ids (as_layer c) = coll_ids c.
Proof. induction c; simpl; auto. unfold coll_ids. simpl. fold (coll_ids c). rewrite IHc. reflexivity. Qed.
Lemma recs_as_layer : forall c, recs (as_layer c) = coll_recs c.
Proof. induction c; simpl; auto. unfold coll_recs. simpl. fold (coll_recs c). rewrite IHc. reflexivity. Qed.
Lemma globs_as_layer : forall c, globs (as_layer c) = coll_globs c.
Proof. induction c; simpl; auto. unfold coll_globs. simpl. fold (coll_globs c). rewrite IHc. reflexivity. Qed.
Lemma shape_as_layer : forall c, coll_shape c -> shape (as_layer c).
Proof. induction c; simpl; intros H; auto. inversion H; subst. split; auto. Qed.

Lemma c_enabled_eq : forall hp c m st b,
  c_enabled hp c m st b =
  let '(r, b', out) := l_enabled (as_layer c) m st 0 b in
  if r then (reg_enabled hp b', b', out) else (false, 0, out).
Proof.
  induction c as [|l c IH]; intros m st b; simpl; auto.
  destruct (l_enabled l m st 0 b) as [[r b1] o1]. destruct r; auto.
  rewrite IH. destruct (l_enabled (as_layer c) m st 0 b1) as [[r2 b2] o2]. destruct r2; auto.
Qed.
Lemma c_event_enabled_eq : forall hp c m b,
  c_event_enabled hp c m b =
  let '(r, b', out) := l_event_enabled (as_layer c) m 0 b in
  if r then (reg_enabled hp b', b', out) else (false, b', out).
Proof.
  induction c as [|l c IH]; intros m b; simpl; auto.
  destruct (l_event_enabled l m 0 b) as [[r b1] o1]. destruct r; auto.
  rewrite IH. destruct (l_event_enabled (as_layer c) m 0 b1) as [[r2 b2] o2]. destruct r2; auto.
Qed.
Lemma c_deliver_eq : forall c w st b, c_deliver c w st b = l_deliver (as_layer c) w st 0 b.
Proof.
  induction c as [|l c IH]; intros w st b; simpl; auto. rewrite IH. reflexivity.
Qed.
Lemma c_life_eq : forall c w id st, c_life c w id st = l_life (as_layer c) w id st 0.
Proof. induction c as [|l c IH]; intros; simpl; auto. rewrite IH. reflexivity. Qed.

(** * Outputs that carry no notification *)
Definition quiet (out : list obs) : Prop := forall n w cur sc par nav, ~ In (ODeliver n w cur sc par nav) out.
Lemma quiet_nil : quiet [].
Proof. intros n w cur sc par nav []. Qed.
Lemma quiet_app : forall a b, quiet (a ++ b) <-> quiet a /\ quiet b.
Proof.
  intros. unfold quiet. split.
  - intros H. split; intros n w cur sc par nav Hin; eapply H; apply in_or_app; eauto.
  - intros [H1 H2] n w cur sc par nav Hin. apply in_app_or in Hin. destruct Hin; [eapply H1 | eapply H2]; eauto.
Qed.
Lemma quiet_cons : forall o r, leaf_of o = None -> quiet r -> quiet (o :: r).
Proof. intros o r Ho Hr n w cur sc par nav [E|Hin]. - subst o. discriminate. - eapply Hr; eauto. Qed.
Lemma quiet_delivered : forall out, quiet out -> forall n w, ~ delivered n w out.
Proof. intros out H n w (cur & sc & par & nav & Hin). eapply H; eauto. Qed.

Lemma l_enabled_quiet : forall l m st cm b, quiet (snd (l_enabled l m st cm b)).
Proof.
  induction l using layer_ind'; intros m st cm b; simpl; try apply quiet_nil.
  - destruct (f_enabled f m _).
    + pose proof (IHl m st (fid_and cm (fid_new k)) (fm_set b (fid_new k) true)) as Q.
      destruct (l_enabled l m st _ _) as [[r b1] o1]. simpl in *. apply quiet_cons; auto.
    + simpl. apply quiet_cons; auto. apply quiet_nil.
  - pose proof (IHl1 m st cm b) as Q1. destruct (l_enabled l1 m st cm b) as [[r b1] o1]. simpl in Q1.
    destruct r; simpl; auto.
    pose proof (IHl2 m st cm b1) as Q2. destruct (l_enabled l2 m st cm b1) as [[r2 b2] o2]. simpl in *.
    apply quiet_app. auto.
  - apply IHl.
  - revert b. induction ls as [|x xs IH]; intros b; simpl; [apply quiet_nil|]. inversion H; subst.
    pose proof (H2 m st cm b) as Q1. destruct (l_enabled x m st cm b) as [[r b1] o1]. simpl in Q1.
    destruct r; simpl; auto.
    pose proof (IH H3 b1) as Q2.
    destruct (seq_all (fun x0 b0 => l_enabled x0 m st cm b0) xs b1) as [[r2 b2] o2]. simpl in *.
    apply quiet_app. auto.
Qed.

Lemma l_event_enabled_out : forall l m cm b, snd (l_event_enabled l m cm b) = [].
Proof.
  induction l using layer_ind'; intros m cm b; simpl; auto.
  - destruct (fm_enabled b (fid_new k) && true); auto.
  - pose proof (IHl1 m cm b) as Q1. destruct (l_event_enabled l1 m cm b) as [[r b1] o1]. simpl in Q1. subst o1.
    destruct r; simpl; auto.
    pose proof (IHl2 m cm b1) as Q2. destruct (l_event_enabled l2 m cm b1) as [[r2 b2] o2]. simpl in *. auto.
  - revert b. induction ls as [|x xs IH]; intros b; simpl; auto. inversion H; subst.
    pose proof (H2 m cm b) as Q1. destruct (l_event_enabled x m cm b) as [[r b1] o1]. simpl in Q1. subst o1.
    destruct r; simpl; auto.
    pose proof (IH H3 b1) as Q2.
    destruct (seq_all (fun x0 b0 => l_event_enabled x0 m cm b0) xs b1) as [[r2 b2] o2]. simpl in *. auto.
Qed.

(** * Bitmaps whose set bits all belong to the stack's FilterIds *)
Definition support (b : N) (ks : list N) : Prop := forall j, bit b j = true -> In j ks.
Lemma support_0 : forall ks, support 0 ks.
Proof. intros ks j H. rewrite bit_0 in H. discriminate. Qed.
Lemma support_frame : forall ks a b, support a ks -> frame ks a b -> support b ks.
Proof.
  intros ks a b Hs Hf j Hj. destruct (in_dec N.eq_dec j ks) as [|Hn]; auto. rewrite (Hf j Hn) in Hj. auto.
Qed.
Lemma support_63 : forall b ks, support b ks -> small ks -> bit b 63 = false.
Proof.
  intros b ks Hs Hk. destruct (bit b 63) eqn:E; auto. apply Hs in E. unfold small in Hk. rewrite Forall_forall in Hk.
  apply Hk in E. lia.
Qed.
Lemma support_clear_0 : forall b ks, support b ks -> clear_on b ks -> b = 0.
Proof.
  intros b ks Hs Hc. apply bits_eq. intro j. rewrite bit_0. destruct (bit b j) eqn:E; auto.
  pose proof (Hs j E) as Hin. rewrite (Hc j Hin) in E. discriminate.
Qed.
Lemma reg_enabled_small : forall hp b, bit b 63 = false -> reg_enabled hp b = true.
Proof. intros [] b H; unfold reg_enabled; [apply bits_not_max; exact H | reflexivity]. Qed.

Lemma visible_0 : forall st id, visible st 0 id = true <-> alive st id.
Proof.
  intros. unfold visible, alive. destruct (sp_get st id).
  - unfold fm_enabled. rewrite N.land_0_r. simpl. split; auto. intros _. discriminate.
  - split; [discriminate | intros H; contradiction].
Qed.
Lemma fm_enabled_mask : forall b ch, fm_enabled b (mask_of ch) = true <-> chain_clear b ch.
Proof.
  intros. rewrite fm_enabled_spec. unfold chain_clear. split.
  - intros H e He. apply H. rewrite bit_mask_of. apply existsb_exists. exists e. split; auto. apply N.eqb_refl.
  - intros H j Hj. rewrite bit_mask_of in Hj. apply existsb_exists in Hj. destruct Hj as [e [He Hj]].
    apply N.eqb_eq in Hj. subst j. auto.
Qed.
Lemma visible_mask : forall st id d ch, sp_get st id = Some d ->
  (visible st (mask_of ch) id = true <-> chain_clear (sd_fmap d) ch).
Proof. intros. unfold visible. rewrite H. apply fm_enabled_mask. Qed.

(** * The four passes on a well-formed stack *)
Section Passes.
  Variable c : coll.
  Hypothesis Hwf : WF c.

  Let Hnd : NoDup (ids (as_layer c)). Proof. rewrite ids_as_layer. apply Hwf. Qed.
  Let Hsm : small (ids (as_layer c)). Proof. rewrite ids_as_layer. apply Hwf. Qed.
  Let Hsh : shape (as_layer c). Proof. apply shape_as_layer. apply Hwf. Qed.

  Lemma c_enabled_spec : forall hp m st r b' out,
    c_enabled hp c m st 0 = (r, b', out) ->
    quiet out /\ r = globals_accept c st m /\ (r = false -> b' = 0) /\
    (r = true -> support b' (coll_ids c) /\ shaped (as_layer c) b' /\
       forall n v ch, In (n, v, ch) (coll_recs c) -> (chain_clear b' ch <-> chain_accept st 0 ch m = true)).
  Proof.
    intros hp m st r b' out H. rewrite c_enabled_eq in H.
    pose proof (l_enabled_quiet (as_layer c) m st 0 0) as Q.
    destruct (l_enabled (as_layer c) m st 0 0) as [[r0 b0] o0] eqn:E. simpl in Q.
    assert (Hcl : clear_on 0 (ids (as_layer c))) by (intros j _; apply bit_0).
    destruct (l_enabled_spec (as_layer c) m st 0 0 r0 b0 o0 Hnd Hsm (bit_0 63) Hsh Hcl E) as (Hf & Hr & Ht).
    rewrite globs_as_layer in Hr. fold (globals_accept c st m) in Hr.
    destruct r0.
    - inversion H; subst; clear H. destruct (Ht eq_refl) as [Hshaped Hfact].
      assert (Hsup : support b' (coll_ids c)).
      { rewrite <- ids_as_layer. eapply support_frame; [apply support_0 | exact Hf]. }
      rewrite reg_enabled_small by (eapply support_63; [exact Hsup | apply Hwf]).
      split; auto. split; auto. split; [discriminate|]. intros _. split; auto. split; auto.
      intros n v ch Hin. apply (Hfact n v ch). rewrite recs_as_layer. exact Hin.
    - inversion H; subst; clear H. split; auto. split; auto. split; auto. discriminate.
  Qed.

  Lemma c_event_enabled_spec : forall hp m b r b' out,
    bit b 63 = false -> c_event_enabled hp c m b = (r, b', out) -> b' = b /\ out = [] /\ r = no_veto c m.
  Proof.
    intros hp m b r b' out Hb H. rewrite c_event_enabled_eq in H.
    pose proof (l_event_enabled_out (as_layer c) m 0 b) as Q.
    destruct (l_event_enabled (as_layer c) m 0 b) as [[r0 b0] o0] eqn:E. simpl in Q. subst o0.
    destruct (l_event_enabled_spec (as_layer c) m 0 b r0 b0 [] Hsm Hsh E) as [Eb Er]. subst b0.
    unfold no_veto_l in Er. rewrite recs_as_layer in Er. fold (no_veto c m) in Er.
    destruct r0; inversion H; subst; auto. rewrite reg_enabled_small by auto. auto.
  Qed.

  Lemma c_deliver_spec : forall w st b b' out,
    support b (coll_ids c) -> shaped (as_layer c) b -> c_deliver c w st b = (b', out) ->
    b' = 0 /\
    forall o, In o out <-> exists n v ch, In (n, v, ch) (coll_recs c) /\ chain_clear b ch /\ o = record n st (mask_of ch) w.
  Proof.
    intros w st b b' out Hsup Hshaped H. rewrite c_deliver_eq in H.
    destruct (l_deliver_spec (as_layer c) w st 0 b b' out Hnd Hsm (bit_0 63) H) as (Hf & Ho & Hc).
    split.
    - apply (support_clear_0 b' (coll_ids c)).
      + rewrite <- ids_as_layer. eapply support_frame; [|exact Hf]. rewrite ids_as_layer. exact Hsup.
      + rewrite <- ids_as_layer. auto.
    - intro o. rewrite Ho. rewrite recs_as_layer. split; intros (n & v & ch & A & B & C); exists n, v, ch;
        rewrite N.lor_0_l in *; auto.
  Qed.

  Lemma c_life_spec : forall w id st, alive st id ->
    forall o, In o (c_life c w id st) <->
      exists n v ch, In (n, v, ch) (coll_recs c) /\ visible st (mask_of ch) id = true /\ o = record n st (mask_of ch) w.
  Proof.
    intros w id st Ha o. rewrite c_life_eq.
    rewrite (l_life_spec (as_layer c) w id st 0 Hsm (bit_0 63) (proj2 (visible_0 st id) Ha) o).
    rewrite recs_as_layer. split; intros (n & v & ch & A & B & C); exists n, v, ch; rewrite N.lor_0_l in *; auto.
  Qed.
End Passes.

(** leaf names identify leaves *)
Lemma names_unique : forall c, WF c -> forall n v ch v' ch',
  In (n, v, ch) (coll_recs c) -> In (n, v', ch') (coll_recs c) -> ch = ch' /\ v = v'.
Proof.
  intros c Hwf n v ch v' ch' H1 H2. pose proof (wf_names c Hwf) as Hnd.
  induction (coll_recs c) as [|r rs IH]; [destruct H1|].
  simpl in Hnd. inversion Hnd as [|? ? Hnot Hnd']; subst.
  destruct H1 as [E1|H1], H2 as [E2|H2].
  - rewrite E1 in E2. inversion E2. auto.
  - exfalso. apply Hnot. subst r. simpl. apply in_map_iff. exists (n, v', ch'). auto.
  - exfalso. apply Hnot. subst r. simpl. apply in_map_iff. exists (n, v, ch). auto.
  - auto.
Qed.
Lemma record_inv : forall n w cur sc par nav n' st mask w',
  ODeliver n w cur sc par nav = record n' st mask w' -> n = n' /\ w = w'.
Proof. intros. unfold record in H. inversion H. auto. Qed.
