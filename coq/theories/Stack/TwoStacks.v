(** C07 — two stacks on two threads do not interact: each one's leaves are notified exactly per their own
    filters, whatever the other stack's filters are and however the two threads' operations interleave.
    The only shared state is the callsite interest cache, and [Interest::and] of two sound interests is sound
    for both stacks. *)
From Coq Require Import NArith List Bool Lia.
From TV Require Import Stack.Model Stack.Model2 Stack.Spec Stack.Bits Stack.Passes Stack.Interest Stack.Register Stack.Coll
  Stack.Inv Stack.Steps Stack.Life Stack.Build Stack.Main Stack.Harness.
Import ListNotations.
Local Open Scope N_scope.
Local Arguments N.leb : simpl never.
Local Arguments N.eqb : simpl never.

Lemma iand_sound_l : forall c m a b, ISound c m a -> ISound c m (iand a b).
Proof. intros c m a b [Hn Ha]. destruct a, b; simpl; try apply ISound_sometimes; split; auto; discriminate. Qed.
Lemma iand_sound_r : forall c m a b, ISound c m b -> ISound c m (iand a b).
Proof. intros c m a b [Hn Ha]. destruct a, b; simpl; try apply ISound_sometimes; split; auto; discriminate. Qed.

Lemma Inv_set_cache : forall c pool st past cs i, Inv c pool st past -> ISound c (meta_of pool cs) i ->
  Inv c pool (set_cache st cs i) past.
Proof.
  intros c pool st past cs i [Ib Ip Ic Is Ipast] Hs. constructor; simpl; auto.
  intros cs' i' Ha. simpl in Ha. destruct (N.eqb_spec cs' cs).
  - subst. inversion Ha; subst. exact Hs.
  - apply Ic. exact Ha.
Qed.

(** every operation of either thread meets the specification of its own stack *)
Fixpoint run_spec2 (ca cb : coll) (mx : N) (pool : list meta) (s : state2) (pa pb : list (N * N)) (h : list (tid * op)) : Prop :=
  match h with
  | [] => True
  | (TA, o) :: r =>
      let s1 := prep ca cb mx pool s o in
      let '(st', out, _) := step ca mx pool (s_a s1) o in
      step_spec ca pool (s_a s1) pa o out st' /\ sees_only_own pa out /\
      run_spec2 ca cb mx pool (State2 st' (s_b s1)) (pa ++ news_of out) pb r
  | (TB, o) :: r =>
      let s1 := prep ca cb mx pool s o in
      let '(st', out, _) := step cb mx pool (s_b s1) o in
      step_spec cb pool (s_b s1) pb o out st' /\ sees_only_own pb out /\
      run_spec2 ca cb mx pool (State2 (s_a s1) st') pa (pb ++ news_of out) r
  end.

Lemma clean2_from_cons : forall ca cb mx pool s t o r,
  clean2_from ca cb mx pool s ((t, o) :: r) =
  let '(s1, _, bare) := step2 ca cb mx pool s t o in negb bare && clean2_from ca cb mx pool s1 r.
Proof.
  intros. unfold clean2_from. simpl. destruct (step2 ca cb mx pool s t o) as [[s1 out] bare].
  destruct (run2 ca cb mx pool s1 r) as [[s2 outs] bares]. reflexivity.
Qed.

Lemma prep_inv : forall ca cb mx pool s o pa pb, coll_shape ca -> coll_shape cb ->
  (forall cs, F12Free ca (meta_of pool cs)) -> (forall cs, F12Free cb (meta_of pool cs)) ->
  Inv ca pool (s_a s) pa -> Inv cb pool (s_b s) pb ->
  Inv ca pool (s_a (prep ca cb mx pool s o)) pa /\ Inv cb pool (s_b (prep ca cb mx pool s o)) pb.
Proof.
  intros ca cb mx pool s o pa pb Ha Hb Fa Fb Ia Ib. unfold prep.
  destruct (cs_of_op o) as [cs|]; auto. destruct (m_level (meta_of pool cs) <=? mx); auto.
  destruct (assoc cs (st_cache (s_a s))); auto. simpl. split; apply Inv_set_cache; auto.
  - apply iand_sound_l. apply ISound_register; auto.
  - apply iand_sound_r. apply ISound_register; auto.
Qed.

Theorem two_stacks_from : forall ca cb mx pool, WF ca -> WF cb -> HintSound ca mx pool -> HintSound cb mx pool ->
  forall h s pa pb, Inv ca pool (s_a s) pa -> Inv cb pool (s_b s) pb -> clean2_from ca cb mx pool s h = true ->
  run_spec2 ca cb mx pool s pa pb h.
Proof.
  intros ca cb mx pool Wa Wb Ha Hb. induction h as [|[t o] r IH]; intros s pa pb Ia Ib Hc; [exact I|].
  rewrite clean2_from_cons in Hc. unfold step2 in Hc.
  destruct (prep_inv ca cb mx pool s o pa pb (wf_shape _ Wa) (wf_shape _ Wb) (proj2 Ha) (proj2 Hb) Ia Ib) as [Ia1 Ib1].
  destruct t; simpl.
  - destruct (step ca mx pool (s_a (prep ca cb mx pool s o)) o) as [[st' out] bare] eqn:Es.
    apply andb_true_iff in Hc. destruct Hc as [Hbare Hc]. destruct bare; [discriminate|].
    destruct (step_all ca mx pool o _ pa st' out Wa Ha Ia1 Es) as (Hspec & HI & Hsees).
    split; [exact Hspec|]. split; [eapply told_sees; exact Hsees|]. apply IH; auto.
  - destruct (step cb mx pool (s_b (prep ca cb mx pool s o)) o) as [[st' out] bare] eqn:Es.
    apply andb_true_iff in Hc. destruct Hc as [Hbare Hc]. destruct bare; [discriminate|].
    destruct (step_all cb mx pool o _ pb st' out Wb Hb Ib1 Es) as (Hspec & HI & Hsees).
    split; [exact Hspec|]. split; [eapply told_sees; exact Hsees|]. apply IH; auto.
Qed.

Theorem two_stacks : forall ca cb mx pool h, WF ca -> WF cb -> HintSound ca mx pool -> HintSound cb mx pool ->
  clean2 ca cb mx pool h = true -> run_spec2 ca cb mx pool init2 [] [] h.
Proof.
  intros ca cb mx pool h Wa Wb Ha Hb Hc. apply two_stacks_from; auto; simpl; apply Inv_init.
Qed.

(** non-vacuity: the F3 stack next to the nested stack of Main.v; callsite 7 (target `other`) is `never` for no
    one but `sometimes` in combination, and the two threads alternate *)
Definition two_history : list (tid * op) :=
  [(TA, OEvent 6); (TB, OSpan 21); (TB, OEnter 0); (TA, OEvent 7); (TB, OEvent 6); (TA, OEvent 6); (TB, OEvent 13);
   (TA, OSpan 21); (TB, OExit 0); (TA, OEvent 7); (TB, OEvent 6)].
Definition run2_obs (ca cb : coll) (mx : N) (pool : list meta) (h : list (tid * op)) : list (list obs) :=
  snd (fst (run2 ca cb mx pool init2 h)).

Example two_nonvacuous :
  clean2 (build f3_stack) (build nv_stack) 5 pool45 two_history = true /\
  (let outs := run2_obs (build f3_stack) (build nv_stack) 5 pool45 two_history in
   (* thread A, event 7: leaf 2 (targets app+other) yes, leaf 1 (app) no *)
   deliveredb 2 (nth 3 outs []) = true /\ deliveredb 1 (nth 3 outs []) = false /\
   (* thread A, event 6 after it: both *)
   deliveredb 1 (nth 5 outs []) = true /\ deliveredb 2 (nth 5 outs []) = true /\
   (* thread B, event 6 inside its span: leaves 1..4 of the other stack *)
   deliveredb 3 (nth 4 outs []) = true /\ deliveredb 4 (nth 4 outs []) = true).
Proof. split; [vm_compute; reflexivity | repeat split; vm_compute; reflexivity]. Qed.
