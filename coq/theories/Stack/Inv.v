(** C07 — the invariant of clean histories and the generic facts the step proofs use:
    what the lookups depend on, notifications inside an output, the span pool's stored filter maps vs the
    [on_new_span] notifications made so far, what a leaf can see inside a callback. *)
From Coq Require Import NArith List Bool Lia.
From TV Require Import Stack.Model Stack.Spec Stack.Bits Stack.Passes Stack.Interest Stack.Register Stack.Coll.
Import ListNotations.
Local Open Scope N_scope.
Local Arguments N.add : simpl never.
Local Arguments N.leb : simpl never.
Local Arguments N.ltb : simpl never.
Local Arguments N.eqb : simpl never.

(** * Lookups only read the span pool and the span stack *)
Definition same_view (st st' : state) : Prop := st_spans st = st_spans st' /\ st_stack st = st_stack st'.
Lemma same_view_refl : forall st, same_view st st.
Proof. split; auto. Qed.
Lemma same_view_sym : forall a b, same_view a b -> same_view b a.
Proof. intros a b [H1 H2]. split; auto. Qed.
Lemma same_view_trans : forall a b c, same_view a b -> same_view b c -> same_view a c.
Proof. intros a b c [H1 H2] [H3 H4]. split; congruence. Qed.
Lemma cur_cs_view : forall st st' mask, same_view st st' -> cur_cs st mask = cur_cs st' mask.
Proof. intros [] [] mask [H1 H2]; simpl in *; subst. reflexivity. Qed.
Lemma chain_accept_view : forall st st' ch cm m, same_view st st' -> chain_accept st cm ch m = chain_accept st' cm ch m.
Proof.
  intros st st' ch. induction ch as [|[k f] r IH]; intros cm m H; simpl; auto.
  rewrite (cur_cs_view st st' _ H). rewrite (IH _ m H). reflexivity.
Qed.
Lemma globals_accept_view : forall c st st' m, same_view st st' -> globals_accept c st m = globals_accept c st' m.
Proof. intros c st st' m H. unfold globals_accept. rewrite (cur_cs_view st st' 0 H). reflexivity. Qed.
Lemma with_bits_view : forall st b, same_view st (with_bits st b).
Proof. intros. split; reflexivity. Qed.

(** * Notifications inside an output *)
Definition is_deliver (o : obs) : bool := match o with ODeliver _ _ _ _ _ _ => true | _ => false end.
Definition delivs (out : list obs) : list obs := filter is_deliver out.
Lemma delivs_app : forall a b, delivs (a ++ b) = delivs a ++ delivs b.
Proof. intros. unfold delivs. induction a as [|x a IH]; simpl; auto. destruct (is_deliver x); simpl; rewrite IH; auto. Qed.
Lemma delivs_quiet : forall out, quiet out -> delivs out = [].
Proof.
  induction out as [|o r IH]; intros Q; simpl; auto.
  destruct o as [n w cur sc par nav| | |]; simpl.
  - exfalso. eapply Q. left. reflexivity.
  - apply IH. intros n w cur sc par nav Hin. eapply Q. right. eauto.
  - apply IH. intros n w cur sc par nav Hin. eapply Q. right. eauto.
  - apply IH. intros n w cur sc par nav Hin. eapply Q. right. eauto.
Qed.
Lemma in_delivs : forall out n w cur sc par nav,
  In (ODeliver n w cur sc par nav) out <-> In (ODeliver n w cur sc par nav) (delivs out).
Proof. intros. unfold delivs. rewrite filter_In. simpl. tauto. Qed.
Lemma in_delivs_leaf : forall out o n, leaf_of o = Some n -> (In o out <-> In o (delivs out)).
Proof. intros out o n H. destruct o; try discriminate. apply in_delivs. Qed.
Lemma delivs_idem : forall out, delivs (delivs out) = delivs out.
Proof.
  intros. unfold delivs. induction out as [|o r IH]; simpl; auto.
  destruct (is_deliver o) eqn:E; simpl; [rewrite E, IH|]; auto.
Qed.

Lemma delivered_deq : forall out out' n w, delivs out = delivs out' -> (delivered n w out <-> delivered n w out').
Proof.
  intros out out' n w E. unfold delivered.
  split; intros (cur & sc & par & nav & H); exists cur, sc, par, nav; apply in_delivs; apply in_delivs in H; congruence.
Qed.
Lemma only_deq : forall out out' w, delivs out = delivs out' -> only w out' -> only w out.
Proof.
  intros out out' w E H n w' cur sc par nav Hin. apply in_delivs in Hin. rewrite E in Hin. apply in_delivs in Hin. eapply H; eauto.
Qed.
Lemma news_of_delivs : forall out, news_of out = news_of (delivs out).
Proof.
  induction out as [|o r IH]; simpl; auto. destruct o; simpl; auto. rewrite IH. reflexivity.
Qed.
Lemma news_of_deq : forall out out', delivs out = delivs out' -> news_of out = news_of out'.
Proof. intros. rewrite (news_of_delivs out), (news_of_delivs out'). congruence. Qed.

Lemma in_news_of : forall out n id, In (n, id) (news_of out) <-> delivered n (WNew id) out.
Proof.
  intros. unfold news_of, delivered. rewrite in_flat_map. split.
  - intros [o [Ho Hin]]. destruct o as [n' w cur sc par nav| | |]; simpl in Hin; try contradiction.
    destruct w; simpl in Hin; try contradiction. destruct Hin as [E|[]]. inversion E; subst. eauto.
  - intros (cur & sc & par & nav & Hin). exists (ODeliver n (WNew id) cur sc par nav). split; auto. left. reflexivity.
Qed.
Lemma news_of_none : forall out, (forall n id, ~ delivered n (WNew id) out) -> news_of out = [].
Proof.
  intros out H. destruct (news_of out) as [|[n id] r] eqn:E; auto. exfalso. apply (H n id). apply in_news_of. rewrite E. left. reflexivity.
Qed.
Lemma news_of_only : forall out w, only w out -> (forall id, w <> WNew id) -> news_of out = [].
Proof.
  intros out w Ho Hw. apply news_of_none. intros n id (cur & sc & par & nav & Hin). apply (Hw id). symmetry. eapply Ho; eauto.
Qed.
Lemma quiet_only : forall out w, quiet out -> only w out.
Proof. intros out w Q n w' cur sc par nav Hin. exfalso. eapply Q; eauto. Qed.

(** the outputs of the delivery passes: one notification per leaf whose chain passes *)
Lemma recs_deliver_char : forall c (P : list (N * filt) -> Prop) st w o4, WF c ->
  (forall o, In o o4 <-> exists n v ch, In (n, v, ch) (coll_recs c) /\ P ch /\ o = record n st (mask_of ch) w) ->
  only w o4 /\ forall r, In r (coll_recs c) -> (delivered (fst (fst r)) w o4 <-> P (snd r)).
Proof.
  intros c P st w o4 Hwf Hc. split.
  - intros n w' cur sc par nav Hin. apply Hc in Hin. destruct Hin as (n' & v & ch & _ & _ & E).
    apply record_inv in E. tauto.
  - intros [[n v] ch] Hr. simpl. split.
    + intros (cur & sc & par & nav & Hin). apply Hc in Hin. destruct Hin as (n' & v' & ch' & Hr' & Hp & E).
      apply record_inv in E. destruct E as [E _]. subst n'.
      destruct (names_unique c Hwf n v ch v' ch' Hr Hr') as [E1 _]. subst. exact Hp.
    + intros Hp. unfold delivered. unfold record in Hc.
      eexists _, _, _, _. apply Hc. exists n, v, ch. split; auto.
Qed.

(** * What a leaf can see inside a callback *)
Lemma lookup_current_visible : forall st mask id, lookup_current st mask = Some id -> visible st mask id = true.
Proof.
  intros st mask id H. unfold lookup_current in H. destruct (current st) as [x|]; [|discriminate].
  destruct (visible st mask x) eqn:E.
  - inversion H; subst. exact E.
  - apply find_some in H. tauto.
Qed.
Lemma scope_from_visible : forall fuel st mask x id, In id (scope_from fuel st mask x) -> visible st mask id = true.
Proof.
  induction fuel as [|k IH]; intros st mask x id H; simpl in H; [destruct H|].
  destruct x as [y|]; [|destruct H]. destruct (sp_get st y) as [d|] eqn:Eg; [|destruct H].
  destruct (fm_enabled (sd_fmap d) mask) eqn:Ef.
  - destruct H as [E|H]. + subst. unfold visible. rewrite Eg. exact Ef. + eapply IH; eauto.
  - eapply IH; eauto.
Qed.
Lemma parent_from_visible : forall fuel st mask x id, parent_from fuel st mask x = Some id -> visible st mask id = true.
Proof.
  induction fuel as [|k IH]; intros st mask x id H; simpl in H; [discriminate|].
  destruct x as [y|]; [|discriminate]. destruct (sp_get st y) as [d|] eqn:Eg; [|discriminate].
  destruct (fm_enabled (sd_fmap d) mask) eqn:Ef.
  - inversion H; subst. unfold visible. rewrite Eg. exact Ef.
  - eapply IH; eauto.
Qed.
Lemma span_parent_visible : forall st mask r id, span_parent st mask r = Some id -> visible st mask id = true.
Proof.
  intros st mask r id H. unfold span_parent in H. destruct r as [y|]; [|discriminate].
  destruct (sp_get st y); [|discriminate]. eapply parent_from_visible; eauto.
Qed.
(** [SpanRef::parent] hands its own FilterId on to the SpanRef it returns *)
Lemma sr_parent_filter : forall st r p, sr_parent st r = Some p -> snd p = snd r.
Proof. intros st r p H. unfold sr_parent in H. destruct (span_parent st (snd r) (Some (fst r))); inversion H; reflexivity. Qed.
Lemma sr_parent_visible : forall st r p, sr_parent st r = Some p -> visible st (snd r) (fst p) = true.
Proof.
  intros st r p H. unfold sr_parent in H. destruct (span_parent st (snd r) (Some (fst r))) as [x|] eqn:E; inversion H; subst.
  simpl. eapply span_parent_visible; eauto.
Qed.
Lemma parent_chain_visible : forall fuel st r id, In id (parent_chain fuel st r) -> visible st (snd r) id = true.
Proof.
  induction fuel as [|k IH]; intros st r id H; simpl in H; [destruct H|].
  destruct (sr_parent st r) as [p|] eqn:E; [|destruct H]. destruct H as [H|H].
  - subst. eapply sr_parent_visible; eauto.
  - rewrite <- (sr_parent_filter _ _ _ E). eapply IH; eauto.
Qed.

Lemma record_mentions : forall n st mask w id, In id (mentions (record n st mask w)) -> visible st mask id = true.
Proof.
  intros n st mask w id H. unfold record, mentions in H. cbn [nv_each nv_chain nv_pscope nv_root] in H.
  apply in_app_or in H. destruct H as [H|H]; [|apply in_app_or in H; destruct H as [H|H]; [|apply in_app_or in H; destruct H as [H|H];
    [|apply in_app_or in H; destruct H as [H|H]; [|apply in_app_or in H; destruct H as [H|H]; [|apply in_app_or in H; destruct H as [H|H]]]]]].
  - destruct (lookup_current st mask) as [x|] eqn:E; [|destruct H]. destruct H as [H|[]]. subst. eapply lookup_current_visible; eauto.
  - eapply scope_from_visible; eauto.
  - destruct (span_parent st mask (span_ref st mask w)) as [x|] eqn:E; [|destruct H]. destruct H as [H|[]]. subst. eapply span_parent_visible; eauto.
  - apply in_flat_map in H. destruct H as [e [Hin H]]. apply in_map_iff in Hin. destruct Hin as [y [E Hy]].
    subst e. cbn [fst snd] in H. apply in_app_or in H. destruct H as [H|H].
    + destruct (span_parent st mask (Some y)) as [x|] eqn:E; [|destruct H]. destruct H as [H|[]]. subst. eapply span_parent_visible; eauto.
    + eapply scope_from_visible; eauto.
  - destruct (span_ref st mask w) as [x|]; cbn [ref_of] in H; [|destruct H]. apply (parent_chain_visible _ _ (x, mask) id H).
  - destruct (span_ref st mask w) as [x|]; cbn [ref_of] in H; [|destruct H].
    destruct (sr_parent st (x, mask)) as [p|] eqn:E; [|destruct H]. unfold sr_scope in H.
    rewrite (sr_parent_filter _ _ _ E) in H. cbn [snd] in H. eapply scope_from_visible; eauto.
  - apply in_rev in H. eapply scope_from_visible; eauto.
Qed.

(** * Exactness of the lookups: with [acc] = "visible through this FilterId", every lookup is the walk of the real
      tree / stack filtered by [acc] *)
Section Exact.
  Variables (st : state) (mask : N) (acc : N -> bool).
  Hypothesis Hv : forall id, visible st mask id = acc id.

  Lemma fm_acc : forall id d, sp_get st id = Some d -> fm_enabled (sd_fmap d) mask = acc id.
  Proof. intros id d E. rewrite <- Hv. unfold visible. rewrite E. reflexivity. Qed.
  Lemma scope_from_by : forall k x, scope_from k st mask x = filter acc (anc k st x).
  Proof.
    induction k as [|k IH]; intros x; simpl; auto. destruct x as [id|]; auto.
    destruct (sp_get st id) as [d|] eqn:E; auto. simpl. rewrite (fm_acc id d E), IH. destruct (acc id); reflexivity.
  Qed.
  Lemma parent_from_by : forall k x, parent_from k st mask x = hd_error (filter acc (anc k st x)).
  Proof.
    induction k as [|k IH]; intros x; simpl; auto. destruct x as [id|]; auto.
    destruct (sp_get st id) as [d|] eqn:E; auto. simpl. rewrite (fm_acc id d E), IH. destruct (acc id); reflexivity.
  Qed.
  Lemma find_acc : forall l, find (visible st mask) l = find acc l.
  Proof. induction l as [|x l IH]; simpl; auto. rewrite Hv, IH. reflexivity. Qed.
  Lemma lookup_current_by : lookup_current st mask = current_by acc st.
  Proof.
    unfold lookup_current, current_by. destruct (current st) as [id|] eqn:Ec; auto.
    unfold current in Ec. destruct (stack_iter st) as [|top rest] eqn:Es; [discriminate|].
    destruct (sp_get st top); inversion Ec; subst. rewrite find_acc. simpl. rewrite Hv. destruct (acc id); reflexivity.
  Qed.
  Lemma span_parent_by : forall r, span_parent st mask r = parent_by acc st r.
  Proof.
    intros [id|]; auto. unfold span_parent, parent_by, above. destruct (sp_get st id); auto. apply parent_from_by.
  Qed.
  Lemma span_ref_by : forall w, span_ref st mask w = ref_by acc st w.
  Proof. intros []; simpl; try rewrite Hv; auto. apply lookup_current_by. Qed.
  Lemma parent_chain_by : forall k x, parent_chain k st (x, mask) = chain_by k acc st x.
  Proof.
    induction k as [|k IH]; intros x; cbn [parent_chain chain_by]; auto. unfold sr_parent. cbn [fst snd].
    rewrite (span_parent_by (Some x)). destruct (parent_by acc st (Some x)) as [p|]; auto. cbn [fst]. rewrite IH. reflexivity.
  Qed.
  Lemma record_by_eq : forall n w, record n st mask w = record_by acc n st w.
  Proof.
    intros n w. unfold record, record_by. rewrite span_ref_by, lookup_current_by, span_parent_by.
    unfold scope_by. rewrite <- !scope_from_by. f_equal. f_equal.
    - apply map_ext. intros id. rewrite span_parent_by. unfold scope_by. rewrite scope_from_by. reflexivity.
    - destruct (ref_by acc st w) as [x|]; cbn [ref_of]; auto. apply parent_chain_by.
    - destruct (ref_by acc st w) as [x|]; cbn [ref_of]; auto. unfold sr_parent. cbn [fst snd]. rewrite (span_parent_by (Some x)).
      destruct (parent_by acc st (Some x)) as [p|]; auto. unfold sr_scope. cbn [fst snd]. rewrite scope_from_by. reflexivity.
  Qed.
End Exact.

Lemma memb_spec : forall n id l, memb n id l = true <-> In (n, id) l.
Proof.
  intros. unfold memb. rewrite existsb_exists. split.
  - intros [[a b] [Hin H]]. simpl in H. apply andb_true_iff in H. destruct H as [H1 H2].
    apply N.eqb_eq in H1. apply N.eqb_eq in H2. subst. exact Hin.
  - intros Hin. exists (n, id). split; auto. simpl. rewrite !N.eqb_refl. reflexivity.
Qed.

(** * The span pool against the notifications made so far *)
Definition spans_ok (c : coll) (spans : list (N * sdata)) (next : N) (past : list (N * N)) : Prop :=
  forall id d, In (id, d) spans ->
    id < next /\ forall n v ch, In (n, v, ch) (coll_recs c) -> (chain_clear (sd_fmap d) ch <-> In (n, id) past).
(** every span of [s'] is a span of [s] with the same stored filter map *)
Definition sub_pool (s' s : list (N * sdata)) : Prop :=
  forall id d', In (id, d') s' -> exists d, In (id, d) s /\ sd_fmap d' = sd_fmap d.
Lemma sub_pool_refl : forall s, sub_pool s s.
Proof. intros s id d H. eauto. Qed.
Lemma sub_pool_trans : forall a b c, sub_pool a b -> sub_pool b c -> sub_pool a c.
Proof. intros a b c H1 H2 id d Hin. apply H1 in Hin. destruct Hin as [d1 [Hin E1]]. apply H2 in Hin. destruct Hin as [d2 [Hin E2]]. exists d2. split; congruence. Qed.
Lemma spans_ok_sub : forall c s s' next past, spans_ok c s next past -> sub_pool s' s -> spans_ok c s' next past.
Proof.
  intros c s s' next past H Hs id d' Hin. apply Hs in Hin. destruct Hin as [d [Hin E]]. rewrite E. apply H. exact Hin.
Qed.
Lemma assoc_In : forall (A : Type) k (l : list (N * A)) v, assoc k l = Some v -> In (k, v) l.
Proof.
  induction l as [|[k' v'] r IH]; simpl; intros v H; [discriminate|].
  destruct (N.eqb_spec k k'). - inversion H; subst. auto. - right. auto.
Qed.
Lemma sp_update_sub : forall k f l, (forall d, sd_fmap (f d) = sd_fmap d) -> sub_pool (sp_update k f l) l.
Proof.
  intros k f l Hf. induction l as [|[k' d] r IH]; simpl; intros id d' Hin; [destruct Hin|].
  destruct (k =? k').
  - destruct Hin as [E|Hin]. + inversion E; subst. exists d. split; auto. left. reflexivity. + exists d'. split; auto. right. exact Hin.
  - destruct Hin as [E|Hin]. + inversion E; subst. exists d'. split; auto. left. reflexivity.
    + apply IH in Hin. destruct Hin as [d0 [Hin E]]. exists d0. split; auto. right. exact Hin.
Qed.
Lemma sp_remove_sub : forall k l, sub_pool (sp_remove k l) l.
Proof.
  intros k l. induction l as [|[k' d] r IH]; simpl; intros id d' Hin; [destruct Hin|].
  destruct (k =? k').
  - exists d'. split; auto. right. exact Hin.
  - destruct Hin as [E|Hin]. + inversion E; subst. exists d'. split; auto. left. reflexivity.
    + apply IH in Hin. destruct Hin as [d0 [Hin E]]. exists d0. split; auto. right. exact Hin.
Qed.
Lemma add_ref_sub : forall st id, sub_pool (st_spans (add_ref st id)) (st_spans st).
Proof. intros. unfold add_ref. simpl. apply sp_update_sub. reflexivity. Qed.
Lemma set_refs_sub : forall st id n, sub_pool (st_spans (set_refs st id n)) (st_spans st).
Proof. intros. unfold set_refs. simpl. apply sp_update_sub. reflexivity. Qed.

Lemma visible_past : forall c st next past n v ch id, spans_ok c (st_spans st) next past -> In (n, v, ch) (coll_recs c) ->
  visible st (mask_of ch) id = true -> In (n, id) past.
Proof.
  intros c st next past n v ch id Hok Hr Hv. unfold visible in Hv. destruct (sp_get st id) as [d|] eqn:Eg; [|discriminate].
  apply fm_enabled_mask in Hv. unfold sp_get in Eg. apply assoc_In in Eg. apply (proj2 (Hok id d Eg) n v ch Hr). exact Hv.
Qed.
Lemma alive_visible_past : forall c st next past n v ch id, spans_ok c (st_spans st) next past -> In (n, v, ch) (coll_recs c) ->
  alive st id -> (visible st (mask_of ch) id = true <-> In (n, id) past).
Proof.
  intros c st next past n v ch id Hok Hr Ha. unfold alive in Ha. destruct (sp_get st id) as [d|] eqn:Eg; [|contradiction].
  rewrite (visible_mask st id d ch Eg). unfold sp_get in Eg. apply assoc_In in Eg. apply (proj2 (Hok id d Eg) n v ch Hr).
Qed.

(** a notification made with the pool [st] mentions only spans its leaf was told about *)
Lemma record_sees : forall c st next past n v ch w id, spans_ok c (st_spans st) next past -> In (n, v, ch) (coll_recs c) ->
  In id (mentions (record n st (mask_of ch) w)) -> In (n, id) past.
Proof. intros. eapply visible_past; eauto. eapply record_mentions; eauto. Qed.

(** * The invariant between operations of a clean history *)
(** an interest is sound for a stack and a callsite: `never` only if no leaf would ever be notified, `always` only
    if every global and every per-layer filter accepts whatever the context.  The cache may hold any sound
    interest: the one this stack registered, or that one combined with other dispatchers' ([Interest::and]). *)
Definition ISound (c : coll) (m : meta) (i : interest) : Prop :=
  (i = INever -> forall st r, In r (coll_recs c) -> globals_accept c st m && chain_accept st 0 (snd r) m = false) /\
  (i = IAlways -> forall st, globals_accept c st m = true /\ forall r, In r (coll_recs c) -> chain_accept st 0 (snd r) m = true).
Lemma ISound_register : forall c m, coll_shape c -> F12Free c m -> ISound c m (fst (c_register (haspsf c) c m None)).
Proof. intros c m Hs HF. split; intro E; [apply register_never_sound | apply register_always_sound]; auto. Qed.
Lemma ISound_sometimes : forall c m, ISound c m ISometimes.
Proof. intros. split; discriminate. Qed.
Definition cache_ok (c : coll) (pool : list meta) (st : state) : Prop :=
  forall cs i, assoc cs (st_cache st) = Some i -> ISound c (meta_of pool cs) i.
Record Inv (c : coll) (pool : list meta) (st : state) (past : list (N * N)) : Prop := {
  inv_bits : st_bits st = 0;
  inv_pending : st_pending st = None;
  inv_cache : cache_ok c pool st;
  inv_spans : spans_ok c (st_spans st) (st_next st) past;
  inv_past : forall n id, In (n, id) past -> id < st_next st
}.

Lemma get_interest_spec : forall c pool st cs i st1 o1, coll_shape c -> F12Free c (meta_of pool cs) -> st_pending st = None -> cache_ok c pool st ->
  get_interest c pool st cs = (i, st1, o1) ->
  ISound c (meta_of pool cs) i /\ quiet o1 /\
  st_bits st1 = st_bits st /\ st_pending st1 = None /\ st_spans st1 = st_spans st /\ st_stack st1 = st_stack st /\
  st_next st1 = st_next st /\ st_handles st1 = st_handles st /\ cache_ok c pool st1.
Proof.
  intros c pool st cs i st1 o1 Hsh HF Hp Hc H. unfold get_interest in H.
  destruct (assoc cs (st_cache st)) as [i0|] eqn:E.
  - inversion H; subst. split; [apply Hc; auto|]. repeat (split; [solve [auto using quiet_nil]|]). exact Hc.
  - rewrite Hp in H. pose proof (c_register_pending c (meta_of pool cs)) as Pn.
    pose proof (ISound_register c (meta_of pool cs) Hsh HF) as Hs.
    destruct (c_register (haspsf c) c (meta_of pool cs) None) as [i0 p0] eqn:Er. simpl in Pn, Hs. subst p0.
    inversion H; subst. simpl. split; [exact Hs|]. split; [apply quiet_cons; auto using quiet_nil|].
    repeat (split; [solve [auto]|]).
    intros cs' i' Ha. simpl in Ha. destruct (N.eqb_spec cs' cs).
      * subst. inversion Ha; subst. exact Hs.
      * apply Hc; auto.
Qed.

Lemma do_enabled_spec : forall c pool st cs r st' out, WF c -> st_bits st = 0 ->
  do_enabled c pool st cs = (r, st', out) ->
  exists b, st' = with_bits st b /\ quiet out /\ r = globals_accept c st (meta_of pool cs) /\ (r = false -> b = 0) /\
    (r = true -> support b (coll_ids c) /\ shaped (as_layer c) b /\
       forall n v ch, In (n, v, ch) (coll_recs c) -> (chain_clear b ch <-> chain_accept st 0 ch (meta_of pool cs) = true)).
Proof.
  intros c pool st cs r st' out Hwf Hb H. unfold do_enabled in H. rewrite Hb in H.
  destruct (c_enabled (haspsf c) c (meta_of pool cs) st 0) as [[r0 b0] o0] eqn:E. inversion H; subst; clear H.
  destruct (c_enabled_spec c Hwf _ _ _ _ _ _ E) as (Q & Hr & Hf & Ht).
  exists b0. split; auto. split.
  - apply quiet_app. split; auto. apply quiet_cons; auto using quiet_nil.
  - auto.
Qed.

Lemma and3_true : forall a b x, a = true -> b = true -> (a && b && x = true <-> x = true).
Proof. intros; subst; simpl; tauto. Qed.
